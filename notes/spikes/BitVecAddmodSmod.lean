-- feasibility spike: BitVec 256 EVM semantics vs SMT-LIB terms
abbrev Word := BitVec 256

-- EVM spec, arithmetic over Nat / Int
def evmAddMod (a b n : Word) : Word :=
  if n.toNat = 0 then 0 else BitVec.ofNat 256 ((a.toNat + b.toNat) % n.toNat)

-- what sym.rs builds: ite (n = 0) 0 (bvurem (bvadd b a) n)
def z3AddMod (a b n : Word) : Word :=
  if n = 0 then 0 else (b + a) % n

-- the defect: they differ
theorem addmod_differs : ∃ a b n : Word, evmAddMod a b n ≠ z3AddMod a b n :=
  ⟨BitVec.allOnes 256, 2, 10, by decide⟩

-- a repaired translation: zero-extend to 257 bits
def z3AddModFixed (a b n : Word) : Word :=
  if n = 0 then 0 else
    (((a.zeroExtend 257) + (b.zeroExtend 257)) % (n.zeroExtend 257)).truncate 256

theorem addmod_fixed (a b n : Word) : evmAddMod a b n = z3AddModFixed a b n := by
  unfold evmAddMod z3AddModFixed
  by_cases h : n = 0
  · simp [h]
  · have hn : n.toNat ≠ 0 := by
      intro h0; apply h; apply BitVec.eq_of_toNat_eq; simpa using h0
    simp only [h, hn, if_false]
    apply BitVec.eq_of_toNat_eq
    have ha := a.isLt; have hb := b.isLt; have hN := n.isLt
    simp only [BitVec.toNat_ofNat, BitVec.truncate_eq_setWidth, BitVec.toNat_setWidth, BitVec.toNat_umod,
      BitVec.toNat_add, BitVec.zeroExtend_eq_setWidth]
    have h257 : (2:Nat)^257 = 2^256 * 2 := Nat.pow_succ 2 256
    have e1 : a.toNat % 2^257 = a.toNat := Nat.mod_eq_of_lt (by omega)
    have e2 : b.toNat % 2^257 = b.toNat := Nat.mod_eq_of_lt (by omega)
    have e3 : n.toNat % 2^257 = n.toNat := Nat.mod_eq_of_lt (by omega)
    have e4 : (a.toNat + b.toNat) % 2^257 = a.toNat + b.toNat := Nat.mod_eq_of_lt (by omega)
    rw [e1, e2, e3, e4]

-- EVM SMOD: sign follows dividend, = srem
def evmSMod (a b : Word) : Word :=
  if b = 0 then 0 else BitVec.ofInt 256 (Int.tmod a.toInt b.toInt)
def z3SMod (a b : Word) : Word := if b = 0 then 0 else a.smod b
theorem smod_differs : ∃ a b : Word, evmSMod a b ≠ z3SMod a b :=
  ⟨BitVec.ofInt 256 (-7), 3, by decide⟩

#print axioms addmod_fixed
#print axioms smod_differs
