import itertools, string
WS = {0x09,0x0a,0x0b,0x0c,0x0d,0x20,0x85,0xa0}
HEX = set(b"0123456789abcdefABCDEF")
class Under:
    def __init__(s, text, sched): s.t=text; s.pos=0; s.sched=list(sched); s.i=0
    def read(s, n):
        if n==0: return b''
        rem=len(s.t)-s.pos
        if rem==0: return b''
        k = s.sched[s.i % len(s.sched)] if s.sched else n
        s.i+=1
        k=max(1,min(k,n,rem))
        r=s.t[s.pos:s.pos+k]; s.pos+=k; return r
class HexRead:
    def __init__(s,u): s.first=True; s.rem=None; s.u=u
    def read(s, n):
        if n==0: return b''
        if s.rem is not None:
            avail=1; hb=bytearray(1+2*n); hb[0]=s.rem
        else:
            avail=0; hb=bytearray(2*n)
        start=0  # slice start
        while True:
            got=s.u.read(len(hb)-start-avail)
            eof = len(got)==0
            hb[start+avail:start+avail+len(got)]=got
            avail+=len(got)
            if s.first and avail>=2:
                s.first=False
                if bytes(hb[start:start+2])==b"0x":
                    avail-=2
                    if len(hb)-start>2: start+=2
            if eof or avail>1: break
        if eof and avail==1:
            if hb[start] in WS: avail=0
            else: raise ValueError("odd")
        elif avail%2==0: s.rem=None
        else:
            s.rem=hb[start+avail-1]; avail-=1
        if avail==0: return b''
        chunk=bytes(hb[start:start+avail])
        if any(c not in HEX for c in chunk): raise ValueError("badhex")
        return bytes.fromhex(chunk.decode())
def run(text, sched, bufs):
    h=HexRead(Under(text,sched)); out=b''; i=0
    try:
        while True:
            r=h.read(bufs[i%len(bufs)]); i+=1
            if not r: return ('ok',out)
            out+=r
    except ValueError as e: return ('err',out)
def denote(text):
    t=text
    if t[:2]==b'0x': t=t[2:]
    if t and t[-1] in WS: t=t[:-1]
    if len(t)%2 or any(c not in HEX for c in t): return None
    return bytes.fromhex(t.decode())
alpha=[b'0',b'x',b'a',b'F',b'g',b'\n']
bad=0;n=0
for L in range(0,7):
    for tup in itertools.product(alpha,repeat=L):
        text=b''.join(tup)
        d=denote(text)
        for sched in [(1,),(2,),(3,),(1,2),(2,1),(3,1),(1,3),(100,)]:
            for bufs in [(1,),(2,),(3,),(1,2),(2,1),(5,)]:
                n+=1
                r=run(text,sched,bufs)
                ok = (r==('ok',d)) if d is not None else r[0]=='err'
                if not ok:
                    bad+=1
                    if bad<=15: print("CEX",text,sched,bufs,r,d)
print(n,bad)
