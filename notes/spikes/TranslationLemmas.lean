-- spike: per-Sym translation lemmas  (EVM spec over Nat/Int)  =  (SMT-LIB term semantics over BitVec)
abbrev W := BitVec 256

/-! ## EVM specifications (Yellow Paper style, unbounded arithmetic) -/
def evmDiv (a b : W) : W := if b.toNat = 0 then 0 else BitVec.ofNat 256 (a.toNat / b.toNat)
def evmMod (a b : W) : W := if b.toNat = 0 then 0 else BitVec.ofNat 256 (a.toNat % b.toNat)
def evmSDiv (a b : W) : W := if b.toNat = 0 then 0 else BitVec.ofInt 256 (Int.tdiv a.toInt b.toInt)
def evmSMod (a b : W) : W := if b.toNat = 0 then 0 else BitVec.ofInt 256 (Int.tmod a.toInt b.toInt)
def evmShl (s x : W) : W := if 256 ≤ s.toNat then 0 else BitVec.ofNat 256 (x.toNat * 2 ^ s.toNat)
def evmShr (s x : W) : W := if 256 ≤ s.toNat then 0 else BitVec.ofNat 256 (x.toNat / 2 ^ s.toNat)
def evmSar (s x : W) : W :=
  if 256 ≤ s.toNat then (if x.toInt < 0 then BitVec.allOnes 256 else 0)
  else BitVec.ofInt 256 (x.toInt / 2 ^ s.toNat)   -- floor division
def evmByte (i x : W) : W :=
  if 32 ≤ i.toNat then 0 else BitVec.ofNat 256 (x.toNat / 256 ^ (31 - i.toNat) % 256)
def evmLt (a b : W) : W := if a.toNat < b.toNat then 1 else 0
def evmSLt (a b : W) : W := if a.toInt < b.toInt then 1 else 0

/-! ## what `Z3Visit::exit` builds (after repair where marked) -/
def z3Div (a b : W) : W := if b = 0 then 0 else a / b                 -- ite (= b 0) 0 (bvudiv a b)
def z3Mod (a b : W) : W := if b = 0 then 0 else a % b                 -- bvurem
def z3SDiv (a b : W) : W := if b = 0 then 0 else a.sdiv b             -- bvsdiv
def z3SModFixed (a b : W) : W := if b = 0 then 0 else a.srem b        -- bvsrem (repaired)
def z3Shl (s x : W) : W := x <<< s                                    -- bvshl x s
def z3Shr (s x : W) : W := x >>> s                                    -- bvlshr
def z3Sar (s x : W) : W := x.sshiftRight' s                           -- bvashr
def z3Lt (a b : W) : W := if a < b then 1 else 0                      -- ite (bvult a b) 1 0
def z3SLt (a b : W) : W := if a.slt b then 1 else 0
def z3ByteFixed (i x : W) : W :=                                      -- repaired: guard i < 32
  if i < 32#256 then (x >>> (248#256 - i * 8#256)) &&& 255#256 else 0

theorem ne_zero_iff (b : W) : b = 0 ↔ b.toNat = 0 := by
  constructor
  · intro h; simp [h]
  · intro h; apply BitVec.eq_of_toNat_eq; simpa using h

theorem tr_div (a b : W) : z3Div a b = evmDiv a b := by
  unfold z3Div evmDiv
  by_cases h : b = 0
  · simp [h]
  · have : ¬ b.toNat = 0 := fun h0 => h ((ne_zero_iff b).mpr h0)
    simp only [h, this, if_false]
    apply BitVec.eq_of_toNat_eq
    rw [BitVec.toNat_udiv, BitVec.toNat_ofNat]
    exact (Nat.mod_eq_of_lt (Nat.lt_of_le_of_lt (Nat.div_le_self _ _) a.isLt)).symm

theorem tr_mod (a b : W) : z3Mod a b = evmMod a b := by
  unfold z3Mod evmMod
  by_cases h : b = 0
  · simp [h]
  · have : ¬ b.toNat = 0 := fun h0 => h ((ne_zero_iff b).mpr h0)
    simp only [h, this, if_false]
    apply BitVec.eq_of_toNat_eq
    rw [BitVec.toNat_umod, BitVec.toNat_ofNat]
    exact (Nat.mod_eq_of_lt (Nat.lt_of_le_of_lt (Nat.mod_le _ _) a.isLt)).symm

theorem tr_sdiv (a b : W) : z3SDiv a b = evmSDiv a b := by
  unfold z3SDiv evmSDiv
  by_cases h : b = 0
  · simp [h]
  · have : ¬ b.toNat = 0 := fun h0 => h ((ne_zero_iff b).mpr h0)
    simp only [h, this, if_false]
    apply BitVec.eq_of_toInt_eq
    rw [BitVec.toInt_sdiv, BitVec.toInt_ofInt]

theorem tr_smod (a b : W) : z3SModFixed a b = evmSMod a b := by
  unfold z3SModFixed evmSMod
  by_cases h : b = 0
  · simp [h]
  · have : ¬ b.toNat = 0 := fun h0 => h ((ne_zero_iff b).mpr h0)
    simp only [h, this, if_false]
    apply BitVec.eq_of_toInt_eq
    rw [BitVec.toInt_srem, BitVec.toInt_ofInt]
    -- tmod has the sign of the dividend and |tmod a b| ≤ |a|, so it is in the signed range
    have ha := BitVec.toInt_lt (x := a); have ha' := BitVec.le_toInt (x := a)
    have h1 : (a.toInt.tmod b.toInt).natAbs ≤ a.toInt.natAbs := by
      rw [Int.natAbs_tmod]; exact Nat.mod_le _ _
    have h2 : 0 ≤ a.toInt → 0 ≤ a.toInt.tmod b.toInt := Int.tmod_nonneg _
    have h3 : a.toInt < 0 → a.toInt.tmod b.toInt ≤ 0 := by
      intro hneg
      have := Int.tmod_nonneg (a := -a.toInt) b.toInt (by omega)
      rw [Int.neg_tmod] at this; omega
    symm; apply Int.bmod_eq_of_le <;> omega

theorem tr_shl (s x : W) : z3Shl s x = evmShl s x := by
  unfold z3Shl evmShl
  apply BitVec.eq_of_toNat_eq
  by_cases h : 256 ≤ s.toNat
  · simp [h, BitVec.shiftLeft_eq', BitVec.toNat_shiftLeft, Nat.shiftLeft_eq]
  · simp [h, BitVec.shiftLeft_eq', BitVec.toNat_shiftLeft, Nat.shiftLeft_eq]

theorem tr_lt (a b : W) : z3Lt a b = evmLt a b := by
  unfold z3Lt evmLt; simp [BitVec.lt_def]

theorem tr_slt (a b : W) : z3SLt a b = evmSLt a b := by
  unfold z3SLt evmSLt; simp [BitVec.slt_iff_toInt_lt]

theorem tr_shr (s x : W) : z3Shr s x = evmShr s x := by
  unfold z3Shr evmShr
  apply BitVec.eq_of_toNat_eq
  by_cases h : 256 ≤ s.toNat
  · simp only [h, if_true, BitVec.ushiftRight_eq', BitVec.toNat_ushiftRight, Nat.shiftRight_eq_div_pow]
    have : x.toNat < 2 ^ s.toNat := Nat.lt_of_lt_of_le x.isLt (Nat.pow_le_pow_right (by omega) h)
    simp [Nat.div_eq_of_lt this]
  · simp only [h, if_false, BitVec.ushiftRight_eq', BitVec.toNat_ushiftRight, Nat.shiftRight_eq_div_pow,
      BitVec.toNat_ofNat]
    exact (Nat.mod_eq_of_lt (Nat.lt_of_le_of_lt (Nat.div_le_self _ _) x.isLt)).symm

theorem tr_byte (i x : W) : z3ByteFixed i x = evmByte i x := by
  unfold z3ByteFixed evmByte
  by_cases h : 32 ≤ i.toNat
  · have : ¬ i < 32#256 := by simp [BitVec.lt_def]; omega
    simp [h, this]
  · have hi : i < 32#256 := by simp [BitVec.lt_def]; omega
    simp only [h, hi, if_true, if_false]
    apply BitVec.eq_of_toNat_eq
    have hi' : i.toNat < 32 := by omega
    have hmul : (i * 8#256).toNat = i.toNat * 8 := by
      rw [BitVec.toNat_mul]; simp; omega
    have hsub : (248#256 - i * 8#256).toNat = 248 - i.toNat * 8 := by
      rw [BitVec.toNat_sub, hmul]; simp; omega
    rw [BitVec.toNat_and, BitVec.ushiftRight_eq', BitVec.toNat_ushiftRight, hsub,
      Nat.shiftRight_eq_div_pow]
    have h255 : (255#256).toNat = 2 ^ 8 - 1 := by decide
    rw [h255, Nat.and_two_pow_sub_one_eq_mod, BitVec.toNat_ofNat]
    have hpow : 2 ^ (248 - i.toNat * 8) = 256 ^ (31 - i.toNat) := by
      have h8 : ∀ k, (256 : Nat) ^ k = 2 ^ (8 * k) := fun k => by rw [Nat.pow_mul]
      rw [h8]; congr 1; omega
    rw [hpow]
    have : x.toNat / 256 ^ (31 - i.toNat) % 2 ^ 8 < 2 ^ 256 := by
      have : x.toNat / 256 ^ (31 - i.toNat) % 2 ^ 8 < 2 ^ 8 := Nat.mod_lt _ (by decide)
      exact Nat.lt_trans this (by decide)
    rw [Nat.mod_eq_of_lt this]

#print axioms tr_byte
#print axioms tr_smod
