-- spike: annotator simulation invariant with on-demand input variables
abbrev W := BitVec 256

inductive Ex where
  | var (i : Nat) | const (w : W) | add (a b : Ex) | sub (a b : Ex) | read (tag : Nat) (addr : Ex)
deriving Repr

inductive Ins where
  | push (w : W) | add | sub | pop | dup (n : Nat) | swap (n : Nat) | mload
deriving Repr

structure Sym where
  vars : Nat
  cur : List Ex

def Ex.eval (ρ : Nat → W) (ω : Nat → W) : Ex → W
  | .var i => ρ i
  | .const w => w
  | .add a b => a.eval ρ ω + b.eval ρ ω
  | .sub a b => a.eval ρ ω - b.eval ρ ω
  | .read t _ => ω t

/-- grow the symbolic stack with fresh variables until it has at least `n` entries -/
def Sym.ensure (s : Sym) (n : Nat) : Sym :=
  let d := n - s.cur.length
  { vars := s.vars + d, cur := s.cur ++ (List.range' (s.vars + 1) d).map Ex.var }

def symStep (tag : Nat) (s : Sym) : Ins → Sym
  | .push w => { s with cur := .const w :: s.cur }
  | .add => let s := s.ensure 2
      match s.cur with
      | a :: b :: r => { s with cur := .add a b :: r }
      | _ => s
  | .sub => let s := s.ensure 2
      match s.cur with
      | a :: b :: r => { s with cur := .sub a b :: r }
      | _ => s
  | .pop => let s := s.ensure 1
      { s with cur := s.cur.tail }
  | .dup n => let s := s.ensure (n+1)
      match s.cur[n]? with
      | some e => { s with cur := e :: s.cur }
      | none => s
  | .swap n => let s := s.ensure (n+2)
      match s.cur, s.cur[n+1]? with
      | a :: r, some e => { s with cur := e :: (r.set n a) }
      | _, _ => s
  | .mload => let s := s.ensure 1
      match s.cur with
      | a :: r => { s with cur := .read tag a :: r }
      | _ => s

def conStep (tag : Nat) (ω : Nat → W) (c : List W) : Ins → Option (List W)
  | .push w => some (w :: c)
  | .add => match c with | a :: b :: r => some ((a + b) :: r) | _ => none
  | .sub => match c with | a :: b :: r => some ((a - b) :: r) | _ => none
  | .pop => match c with | _ :: r => some r | _ => none
  | .dup n => match c[n]? with | some x => some (x :: c) | none => none
  | .swap n => match c, c[n+1]? with
      | a :: r, some x => some (x :: r.set n a)
      | _, _ => none
  | .mload => match c with | _ :: r => some (ω tag :: r) | _ => none

def Rel (entry : List W) (ω : Nat → W) (s : Sym) (c : List W) : Prop :=
  s.vars ≤ entry.length ∧
  c = s.cur.map (Ex.eval (fun i => entry.getD (i-1) 0) ω) ++ entry.drop s.vars

theorem ensure_rel {entry ω s c n} (h : Rel entry ω s c) (hn : n ≤ c.length) :
    Rel entry ω (s.ensure n) c ∧ n ≤ (s.ensure n).cur.length := by
  obtain ⟨hv, hc⟩ := h
  have hlen : c.length = s.cur.length + (entry.length - s.vars) := by
    rw [hc]; simp
  refine ⟨⟨?_, ?_⟩, ?_⟩
  · simp only [Sym.ensure]; omega
  · simp only [Sym.ensure, List.map_append, List.map_map, List.append_assoc]
    rw [hc]; congr 1
    -- entry.drop vars = map (entry[i-1]) (range' (vars+1) d) ++ entry.drop (vars + d)
    generalize hd : n - s.cur.length = d
    have hdle : s.vars + d ≤ entry.length := by omega
    clear hc hlen hn hd
    induction d generalizing s with
    | zero => simp
    | succ d ih =>
      have h1 : s.vars < entry.length := by omega
      rw [List.range'_succ, List.map_cons, List.cons_append]
      have := ih (s := { s with vars := s.vars + 1 }) (by simp; omega) (by simp; omega)
      simp only at this
      rw [List.drop_eq_getElem_cons h1]
      congr 1
      · simp [Ex.eval, List.getD_eq_getElem?_getD, h1]
      · rw [this]; congr 2; omega
  · simp only [Sym.ensure, List.length_append, List.length_map, List.length_range']; omega

#print axioms ensure_rel

theorem step_sim {entry ω s c tag i c'} (h : Rel entry ω s c)
    (hstep : conStep tag ω c i = some c') : Rel entry ω (symStep tag s i) c' := by
  cases i with
  | push w =>
    simp only [conStep, Option.some.injEq] at hstep; subst hstep
    obtain ⟨hv, hc⟩ := h
    exact ⟨hv, by simp [symStep, Ex.eval, hc]⟩
  | add =>
    match c, hstep with
    | a :: b :: r, hstep =>
      simp only [conStep, Option.some.injEq] at hstep; subst hstep
      obtain ⟨⟨hv, hc⟩, hl⟩ := ensure_rel (n := 2) h (by simp)
      simp only [symStep]
      match hcur : (s.ensure 2).cur, hl with
      | x :: y :: t, _ =>
        rw [hcur] at hc
        simp only [List.map_cons, List.cons_append, List.cons.injEq] at hc
        obtain ⟨ha, hb, hr⟩ := hc
        exact ⟨hv, by simp [Ex.eval, ha, hb, hr]⟩
  | sub =>
    match c, hstep with
    | a :: b :: r, hstep =>
      simp only [conStep, Option.some.injEq] at hstep; subst hstep
      obtain ⟨⟨hv, hc⟩, hl⟩ := ensure_rel (n := 2) h (by simp)
      simp only [symStep]
      match hcur : (s.ensure 2).cur, hl with
      | x :: y :: t, _ =>
        rw [hcur] at hc
        simp only [List.map_cons, List.cons_append, List.cons.injEq] at hc
        obtain ⟨ha, hb, hr⟩ := hc
        exact ⟨hv, by simp [Ex.eval, ha, hb, hr]⟩
  | pop =>
    match c, hstep with
    | a :: r, hstep =>
      simp only [conStep, Option.some.injEq] at hstep; subst hstep
      obtain ⟨⟨hv, hc⟩, hl⟩ := ensure_rel (n := 1) h (by simp)
      simp only [symStep]
      match hcur : (s.ensure 1).cur, hl with
      | x :: t, _ =>
        rw [hcur] at hc
        simp only [List.map_cons, List.cons_append, List.cons.injEq] at hc
        exact ⟨hv, by simp [hc.2]⟩
  | mload =>
    match c, hstep with
    | a :: r, hstep =>
      simp only [conStep, Option.some.injEq] at hstep; subst hstep
      obtain ⟨⟨hv, hc⟩, hl⟩ := ensure_rel (n := 1) h (by simp)
      simp only [symStep]
      match hcur : (s.ensure 1).cur, hl with
      | x :: t, _ =>
        rw [hcur] at hc
        simp only [List.map_cons, List.cons_append, List.cons.injEq] at hc
        exact ⟨hv, by simp [Ex.eval, hc.2]⟩
  | dup n =>
    simp only [conStep] at hstep
    split at hstep
    · next x hx =>
      simp only [Option.some.injEq] at hstep; subst hstep
      have hn : n + 1 ≤ c.length := by
        have := List.getElem?_eq_some_iff.mp hx; obtain ⟨h1, _⟩ := this; omega
      obtain ⟨⟨hv, hc⟩, hl⟩ := ensure_rel (n := n+1) h hn
      simp only [symStep]
      have hlt : n < (s.ensure (n+1)).cur.length := by omega
      rw [List.getElem?_eq_getElem hlt]
      refine ⟨hv, ?_⟩
      simp only [List.map_cons, List.cons_append]
      rw [← hc]; congr 1
      have : c[n]? = some x := hx
      rw [hc, List.getElem?_append_left (by simpa using hlt)] at this
      simp only [List.getElem?_map, List.getElem?_eq_getElem hlt, Option.map_some, Option.some.injEq] at this
      exact this.symm
    · simp at hstep
  | swap n =>
    simp only [conStep] at hstep
    split at hstep
    · next a r x hx =>
      simp only [Option.some.injEq] at hstep; subst hstep
      have hn : n + 2 ≤ (a :: r).length := by
        have := List.getElem?_eq_some_iff.mp hx; obtain ⟨h1, _⟩ := this; omega
      obtain ⟨⟨hv, hc⟩, hl⟩ := ensure_rel (n := n+2) h hn
      simp only [symStep]
      match hcur : (s.ensure (n+2)).cur, hl with
      | y :: t, hl =>
        have hlt : n < t.length := by simp at hl; omega
        rw [hcur] at hc
        simp only [List.map_cons, List.cons_append, List.cons.injEq] at hc
        obtain ⟨ha, hr⟩ := hc
        have hx' : r[n]? = some x := by simpa using hx
        simp only [List.getElem?_cons_succ, List.getElem?_eq_getElem hlt]
        refine ⟨hv, ?_⟩
        simp only [List.map_cons, List.cons_append, List.map_set]
        rw [hr, List.getElem?_append_left (by simpa using hlt)] at hx'
        simp only [List.getElem?_map, List.getElem?_eq_getElem hlt, Option.map_some, Option.some.injEq] at hx'
        rw [hx', hr, ha]
        congr 1
        rw [List.set_append_left _ _ (by simpa using hlt)]
    · simp at hstep

#print axioms step_sim
