/-! spike: faithful model of the pinned `Assembler::{push, backpatch_labels, emit_bytecode}` on a core
    subset, and a kernel-checked counterexample to C01 (defect D1). Labels are numbers. -/
namespace AsmBug

inductive Ex where
  | num (n : Int) | lbl (i : Nat) | add (a b : Ex) | sub (a b : Ex)
deriving Repr, DecidableEq

inductive Item where
  | label (i : Nat)
  | op (byte : Nat)                -- zero-operand instruction
  | pushN (n : Nat) (e : Ex)       -- fixed-width push
  | auto (e : Ex)                  -- %push(e)
  | raw (bs : List Nat)
deriving Repr, DecidableEq

abbrev Labels := List (Nat × Nat)          -- id ↦ position (declared labels only)
def Labels.get (ls : Labels) (i : Nat) : Option Nat := (ls.find? (·.1 == i)).map (·.2)

def Ex.eval (ls : Labels) : Ex → Option Int
  | .num n => some n
  | .lbl i => (ls.get i).map Int.ofNat
  | .add a b => do let x ← a.eval ls; let y ← b.eval ls; pure (x + y)
  | .sub a b => do let x ← a.eval ls; let y ← b.eval ls; pure (x - y)

/-- number of bytes of |v|, at least 1 (BigInt::bits, `max(1, (bits+7)/8)`) -/
def byteLen (v : Int) : Nat := max 1 ((Nat.log2 v.natAbs + 1 + 7) / 8 * (if v = 0 then 0 else 1))

inductive Err | tooLarge | negative | undeclared | unreachable
deriving Repr, DecidableEq

structure St where
  ready : List Item := []                 -- emission order (labels are NOT in `ready` in the pinned code)
  len : Nat := 0                          -- concrete_len
  labels : Labels := []
  pending : List (Nat × Ex) := []         -- PushDef: (position recorded AFTER adding 2, operand)
deriving Repr

/-- `Assembler::push` for the subset (macro/undeclared-set bookkeeping omitted in the spike) -/
def feed (s : St) : Item → Except Err St
  | .label i => pure { s with labels := s.labels ++ [(i, s.len)] }
  | .op b => pure { s with ready := s.ready ++ [.op b], len := s.len + 1 }
  | .raw bs => pure { s with ready := s.ready ++ [.raw bs], len := s.len + bs.length }
  | .pushN n e =>
    match e.eval s.labels with
    | some v =>
      if v < 0 then throw .negative
      else if byteLen v > n then throw .tooLarge
      else pure { s with ready := s.ready ++ [.pushN n e], len := s.len + 1 + n }
    | none => pure { s with ready := s.ready ++ [.pushN n e], len := s.len + 1 + n }
  | .auto e =>
    match e.eval s.labels with
    | some v =>
      if v < 0 then throw .negative
      else if byteLen v > 32 then throw .tooLarge
      else pure { s with ready := s.ready ++ [.auto e], len := s.len + 1 + byteLen v }
    | none =>
      pure { s with ready := s.ready ++ [.auto e], len := s.len + 2,
                    pending := s.pending ++ [(s.len + 2, e)] }

/-- `backpatch_labels`: one pass, positions of later pushes are not updated -/
def backpatch (s : St) : St :=
  s.pending.foldl (fun s (pos, e) =>
    match e.eval s.labels with
    | some v =>
      let w := byteLen v
      if w > 1 then
        { s with labels := s.labels.map fun (i, p) => if p < pos then (i, p) else (i, p + w - 1) }
      else s
    | none => s) s

def encodeBE (v : Nat) : Nat → List Nat
  | 0 => []
  | n+1 => encodeBE (v / 256) n ++ [v % 256]

/-- `emit_bytecode`: width of `%push` re-derived from the value at emission -/
def emit (s : St) : Except Err (List Nat) :=
  s.ready.foldlM (fun out it =>
    match it with
    | .label _ => pure out
    | .op b => pure (out ++ [b])
    | .raw bs => pure (out ++ bs)
    | .pushN n e =>
      match e.eval s.labels with
      | none => throw .undeclared
      | some v => if v < 0 ∨ byteLen v > n then throw .unreachable
                  else pure (out ++ [0x5f + n] ++ encodeBE v.toNat n)
    | .auto e =>
      match e.eval s.labels with
      | none => throw .undeclared
      | some v => if v < 0 ∨ byteLen v > 32 then throw .unreachable
                  else pure (out ++ [0x5f + byteLen v] ++ encodeBE v.toNat (byteLen v))) []

def assemble (p : List Item) : Except Err (List Nat × Labels) := do
  let s ← p.foldlM feed {}
  let s := backpatch s
  let out ← emit s
  pure (out, s.labels)

/-- the witness of D1: %push(fwd); 253×pc; back: jumpdest; %push(back); 10×pc; fwd: jumpdest -/
def witness : List Item :=
  [.auto (.lbl 1), .raw (List.replicate 253 0x58), .label 0, .op 0x5b, .auto (.lbl 0),
   .raw (List.replicate 10 0x58), .label 1, .op 0x5b]

/-- what the code believes `fwd` is, and where the jumpdest after `fwd:` really is -/
def fwdBelief : Option Nat := match assemble witness with | .ok (_, ls) => ls.get 1 | _ => none
def fwdActual : Option Nat := match assemble witness with | .ok (out, _) => some (out.length - 1) | _ => none

theorem D1_counterexample : fwdBelief = some 269 ∧ fwdActual = some 270 := by decide +kernel

#print axioms D1_counterexample
end AsmBug
