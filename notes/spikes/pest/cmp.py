import subprocess, sys, random
def run(cmd, lines):
    out=[]
    i=0
    while i < len(lines):
        p = subprocess.run(cmd, input="\n".join(l.encode().hex() for l in lines[i:]).encode()+b"\n", capture_output=True, timeout=600)
        got = p.stdout.decode().splitlines()
        out += got; i += len(got)
        if i < len(lines):   # process died on case i
            out.append("ABORT"); i += 1
    return out
def compare(cases, verbose=False):
    impl = run(["/tmp/scr-target/debug/scr"], cases)
    model = run(["/tmp/lspike/Spike/.lake/build/bin/pestdrv"], cases)
    assert len(impl)==len(model)==len(cases), (len(impl),len(model),len(cases))
    bad=0
    for c,i,m in zip(cases,impl,model):
        lex_i = (i=="LEX"); lex_m = (m=="ERR")
        # PANIC in impl happens after lexing in parse/*.rs or later => lex accepted
        if lex_i != lex_m:
            bad+=1
            if bad<=25: print("DIFF", repr(c), "| impl:", i[:60], "| model:", m[:100])
        elif verbose: print("same", repr(c), i[:30], m[:80])
    print(f"{len(cases)} cases, {bad} differences; impl lex-errors: {sum(1 for i in impl if i=='LEX')}")
if __name__=="__main__":
    known = ["push1  5","push1\t5","push1 1 + 2 * ( 3 )","pc;pc ; pc;",";pc","pc;;pc","a: pc","a:\npc","a :\npc","pc\r\npc\r\n",
      "   pc   \n\t pc","pcpc","PC","push1(5)","push1 1 - -1","push1 2-1","push1 2 -1","push1 add\nadd:\npc","jumpdestx:\npc","addx",
      "%macro m() \n pc \n %end\n%m()","%def f() \n 1 \n%end\npush1 f( )","push2 0xABcd","push1 0b101\npush1 0o17","push1 007","push1 0x","push2 0xabc",
      "push33 1","push10 1\npush32 1\npush3 1","dup17","log5","swap16\ndup16\nlog4","a1_b:\npush1 a1_b","_a:\npc","%def _f()\n1\n%end\npush1 _f()",
      "%push($x)","","\n\n\n","%macro m()\npc\n%end","%macro m()\n%macro n()\npc\n%end\n%end","%macro m()\n%import(\"x\")\n%end",
      "push1 5 # c\npc # d\n# full\n\npc","# only comment","pc # trailing","push1 selector(\"f(a,b)\")","push4 selector(\"f(a b)\")","push1 topic(\"t()\")",
      "%import(\"a\")","%include( \"a\" )","%include_hex(\"a\",\"b\")","%import()","%import(0x44)","%push( hello )","%push(1+1)","%push()","%push(\"a\")",
      "%m(1 2)","%m(1,2)","%m(1,,2)","%m(,1)","%m( )","push1 f(1,2)","push1 f(1 2)","push1 f()","push1 f ()","% m()","%m ()","%macro m(a, b)\npush1 $a+$b\n%end",
      "%macro m(a b)\npc\n%end","%macro m()\npc;pc\n%end","%macro m()\n\n\npc\n\n%end","%macro m() pc\n%end","%macro m()\npc %end","%def f()\n1\n%end","%def f() 1\n%end","%def f()\n\n1\n%end",
      "push1 -1","push1 - 1","push1 1+-1","push1 (1)","push1 ((1))","push1 (1","push1 1)","push1 1 +","push1 + 1","push1 1 2","push1 $a","push1 $ a","push1 $1",
      "stop","stopx","mstore8","mstore","mstore9","jumpi","jump","jumpix","pc\n;","pc\n;pc","pc ;\npc","pc; \npc", "pc;#c\npc","pc #c;pc\npc","push1 1;pc","push1 1 ;pc","label:;pc","label:\n;pc",
      "push0","push0 1","push01 1","push1 0x1","push1 0x12","push1 0X12","push1 0B1","push1 1_0","push1 a.b","é","pc é","pc # é\npc","\tpc","pc\t","pc \t # x","\ufeffpc"]
    compare(known, verbose=("-v" in sys.argv))
