#!/usr/bin/env python3
"""Quick translator of a .pest grammar to Lean data (spike; the real one will use pest_meta)."""
import re, sys
src = open(sys.argv[1]).read()
# strip // comments (not inside strings: grammar has none with //)
src = re.sub(r'//[^\n]*', '', src)
tok_re = re.compile(r'''\s*(?:(?P<str>"(?:\\.|[^"\\])*")|(?P<chr>'(?:\\.|[^'\\])')|(?P<id>[A-Za-z_][A-Za-z0-9_]*)|(?P<op>\.\.|[=~|*+?!&(){}_@$]))''')
toks=[]; i=0
while i < len(src):
    m = tok_re.match(src, i)
    if not m:
        if src[i:].strip()=='' : break
        raise SystemExit(f"lex error at {i}: {src[i:i+30]!r}")
    i = m.end()
    for k in ('str','chr','id','op'):
        if m.group(k) is not None: toks.append((k, m.group(k))); break
pos=0
def peek(): return toks[pos] if pos < len(toks) else (None,None)
def eat(kind=None, val=None):
    global pos
    t=toks[pos]
    if (kind and t[0]!=kind) or (val and t[1]!=val): raise SystemExit(f"parse error at token {pos}: {t}, wanted {kind} {val}")
    pos+=1; return t
def unesc(s):
    return bytes(s[1:-1], 'utf-8').decode('unicode_escape')
def cps(s): return "[" + ", ".join(str(ord(c)) for c in s) + "]"
def p_expr():
    a = p_seq()
    while peek()==('op','|'):
        eat(); b = p_seq(); a = f"(.alt {a} {b})"
    return a
def p_seq():
    a = p_pre()
    while peek()==('op','~'):
        eat(); b = p_pre(); a = f"(.seq {a} {b})"
    return a
def p_pre():
    if peek()==('op','!'): eat(); return f"(.neg {p_pre()})"
    if peek()==('op','&'): eat(); return f"(.pos {p_pre()})"
    return p_post()
def p_post():
    a = p_atom()
    while peek()[0]=='op' and peek()[1] in '*+?':
        o = eat()[1]; a = {'*':f"(.star {a})", '+':f"(.plus {a})", '?':f"(.opt {a})"}[o]
    return a
def p_atom():
    k,v = peek()
    if k=='str': eat(); return f"(.str {cps(unesc(v))})"
    if k=='chr':
        eat(); lo = unesc(v); eat('op','..'); hi = unesc(eat('chr')[1]); return f"(.range {ord(lo)} {ord(hi)})"
    if k=='id': eat(); return f'(.ref "{v}")'
    if (k,v)==('op','('): eat(); e=p_expr(); eat('op',')'); return e
    raise SystemExit(f"atom? {k} {v} at {pos}")
rules=[]
while pos < len(toks):
    name = eat('id')[1]; eat('op','=')
    ty='normal'
    if peek()==('id','_'):
        eat(); ty='silent'
    elif peek()[0]=='op' and peek()[1] in '@$!':
        ty={'@':'atomic','$':'compound','!':'nonAtomic'}[eat()[1]]
    eat('op','{'); body=p_expr(); eat('op','}')
    rules.append((name,ty,body))
print("import Spike.Pest\nopen Pest\ndef asmGrammar : List Rule := [")
print(",\n".join(f'  ⟨"{n}", .{t}, {b}⟩' for n,t,b in rules))
print("]")
