import Spike.AsmGrammar
open Pest
def hexVal (c : Char) : Nat :=
  if c.isDigit then c.toNat - 48 else if 'a' ≤ c ∧ c ≤ 'f' then c.toNat - 87 else 0
def unhex : List Char → List Nat
  | a :: b :: r => (hexVal a * 16 + hexVal b) :: unhex r
  | _ => []
partial def loop (h : IO.FS.Stream) : IO Unit := do
  let line ← h.getLine
  if line.isEmpty then return ()
  let bytes := unhex line.trimAscii.toString.toList
  let text := String.fromUTF8! (ByteArray.mk (bytes.map (·.toUInt8)).toArray)
  match parse asmGrammar "program" text with
  | some ks => IO.println ("OK " ++ " ".intercalate (ks.map (Pair.show text)))
  | none => IO.println "ERR"
  loop h
def main : IO Unit := do loop (← IO.getStdin)
