import random, sys
from cmp import compare
random.seed(int(sys.argv[1]) if len(sys.argv)>1 else 1)
vocab = ["pc","push1","push2","push32","push0","push","1","0x10","0b1","0o7","0x1","-5","255","a","b:","a:","lbl","+","-","*","/","(",")",",",
 "%","%macro","%def","%end","%push","%import","%include","%include_hex","$x","$","m","f","()","(", ")","\"p\"","\"","#"," c","\n","\n","\n",";"," "," ","\t",
 "selector(\"f()\")","topic(\"t(a)\")","jumpdest","jump","jumpi","dup1","swap16","log4","mstore8","stop","_","x1_","é","\r\n","\r"]
def gen():
    n=random.randint(1,14)
    return "".join(random.choice(vocab)+random.choice([""," ","",""]) for _ in range(n))
# structured mostly-valid generator
def expr(d=0):
    r=random.random()
    if d>3 or r<0.4: return random.choice(["1","0x10","0b11","0o17","-3","lbl","a","$x","f(1)","f()","g(1, 2)","selector(\"f()\")","255","0xffff"])
    if r<0.55: return "("+sp()+expr(d+1)+sp()+")"
    return expr(d+1)+sp()+random.choice("+-*/")+sp()+expr(d+1)
def sp(): return random.choice([""," ","  ","\t",""])
def stmt():
    r=random.random()
    if r<0.2: return random.choice(["pc","stop","jumpdest","add","mstore8","dup3","swap1","log2","push0","invalid"])
    if r<0.45: return "push"+str(random.choice([1,2,3,9,10,16,31,32,33,0]))+random.choice([" ","\t","  "])+expr()
    if r<0.55: return random.choice(["a","lbl","x_1","push1","_q"])+sp()+":"
    if r<0.65: return "%push("+sp()+expr()+sp()+")"
    if r<0.72: return "%"+random.choice(["m","mm","import","include"])+sp()+"("+sp()+random.choice(["",expr(),expr()+","+sp()+expr(),"\"f.etk\"",expr()+" "+expr()])+sp()+")"
    if r<0.8: return "%macro m("+random.choice(["","a","a, b","a,b","a b"])+")"+sp()+"\n"+"".join(sp()+stmt_in()+sp()+"\n" for _ in range(random.randint(0,3)))+sp()+"%end"
    if r<0.86: return "%def f("+random.choice(["","x","x, y"])+")"+sp()+"\n"+sp()+expr().replace("f(","h(")+sp()+"\n"+sp()+"%end"
    return stmt_in()
def stmt_in():
    return random.choice(["pc","push1 $a","push2 $a+1","%push($b)","l:","%n()","%n($a)","jumpdest"])
def prog():
    out=""
    for _ in range(random.randint(0,6)):
        out+=sp()+stmt()+sp()+random.choice(["\n","\n","\n\n",";","; ","\n# c\n"," # c\n","\r\n",""," "])
    return out
cases=[gen() for _ in range(4000)]+[prog() for _ in range(6000)]
compare(cases)
