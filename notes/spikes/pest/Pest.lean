/-! spike: generic interpreter of pest 2.1.3 grammars (semantics read from pest_generator/parser_state) -/
namespace Pest

inductive PE where
  | str (s : List Nat) | range (lo hi : Nat) | ref (name : String)
  | seq (a b : PE) | alt (a b : PE) | opt (a : PE) | star (a : PE) | plus (a : PE)
  | neg (a : PE) | pos (a : PE)
deriving Repr, Inhabited

inductive RT | normal | silent | atomic | compound | nonAtomic
deriving Repr, BEq, Inhabited

structure Rule where
  name : String
  ty : RT
  body : PE
deriving Repr, Inhabited

inductive Atom | atomic | compound | nonAtomic
deriving Repr, BEq, Inhabited

inductive Pair where
  | mk (rule : String) (s e : Nat) (kids : List Pair)
deriving Repr, Inhabited

abbrev Res := Option (Nat × List Pair)

structure Env where
  g : List Rule
  inp : Array Nat

def Env.rule? (env : Env) (n : String) : Option Rule := env.g.find? (·.name == n)

def isPrefixAt (inp : Array Nat) (p : Nat) : List Nat → Bool
  | [] => true
  | c :: cs => (inp[p]? == some c) && isPrefixAt inp (p+1) cs

def charIn (inp : Array Nat) (p lo hi : Nat) : Bool :=
  match inp[p]? with
  | some c => lo ≤ c && c ≤ hi
  | none => false

mutual
/-- match expression `e` at position `p`; `la` = inside a lookahead (no tokens) -/
def matchE (env : Env) : Nat → PE → Atom → Bool → Nat → Res
  | 0, _, _, _, _ => none
  | f+1, e, at_, la, p =>
    match e with
    | .str s => if isPrefixAt env.inp p s then some (p + s.length, []) else none
    | .range lo hi => if charIn env.inp p lo hi then some (p+1, []) else none
    | .seq a b =>
      match matchE env f a at_ la p with
      | none => none
      | some (p1, k1) =>
        let p2 := skip env f at_ p1
        match matchE env f b at_ la p2 with
        | none => none
        | some (p3, k3) => some (p3, k1 ++ k3)
    | .alt a b =>
      match matchE env f a at_ la p with
      | some r => some r
      | none => matchE env f b at_ la p
    | .opt a =>
      match matchE env f a at_ la p with
      | some r => some r
      | none => some (p, [])
    | .star a =>
      match matchE env f a at_ la p with
      | none => some (p, [])
      | some (p1, k1) => some (rep env f a at_ la p1 k1)
    | .plus a =>   -- a ~ a*
      match matchE env f a at_ la p with
      | none => none
      | some (p1, k1) =>
        let p2 := skip env f at_ p1
        match matchE env f a at_ la p2 with
        | none => some (p2, k1)      -- `a*` matched nothing; the skip before it stays consumed
        | some (p3, k3) => some (rep env f a at_ la p3 (k1 ++ k3))
    | .neg a =>
      match matchE env f a at_ true p with
      | some _ => none
      | none => some (p, [])
    | .pos a =>
      match matchE env f a at_ true p with
      | some _ => some (p, [])
      | none => none
    | .ref n => callRule env f n at_ la p

/-- `(skip a)*` after a first `a` -/
def rep (env : Env) : Nat → PE → Atom → Bool → Nat → List Pair → Nat × List Pair
  | 0, _, _, _, p, ks => (p, ks)
  | f+1, a, at_, la, p, ks =>
    let p1 := skip env f at_ p
    match matchE env f a at_ la p1 with
    | none => (p, ks)
    | some (p2, k2) => if p2 = p then (p, ks) else rep env f a at_ la p2 (ks ++ k2)

/-- implicit `WHITESPACE* (COMMENT WHITESPACE*)*`, only in non-atomic state -/
def skip (env : Env) : Nat → Atom → Nat → Nat
  | 0, _, p => p
  | f+1, at_, p =>
    if at_ != .nonAtomic then p else
    let p1 := many env f "WHITESPACE" p
    skipC env f p1

def skipC (env : Env) : Nat → Nat → Nat
  | 0, p => p
  | f+1, p =>
    match callRule env f "COMMENT" .nonAtomic false p with
    | none => p
    | some (p1, _) =>
      let p2 := many env f "WHITESPACE" p1
      if p2 = p then p else skipC env f p2

def many (env : Env) : Nat → String → Nat → Nat
  | 0, _, p => p
  | f+1, n, p =>
    match callRule env f n .nonAtomic false p with
    | none => p
    | some (p1, _) => if p1 = p then p else many env f n p1

def callRule (env : Env) : Nat → String → Atom → Bool → Nat → Res
  | 0, _, _, _, _ => none
  | f+1, n, at_, la, p =>
    let tok (emit : Bool) (r : Res) : Res :=
      match r with
      | none => none
      | some (p', ks) => if emit && !la then some (p', [Pair.mk n p p' ks]) else some (p', ks)
    let cls (lo hi : Nat) : Res := if charIn env.inp p lo hi then some (p+1, []) else none
    match n with
    | "ANY" => if p < env.inp.size then some (p+1, []) else none
    | "SOI" => if p = 0 then some (p, []) else none
    | "EOI" => tok (at_ != .atomic) (if p = env.inp.size then some (p, []) else none)
    | "NEWLINE" =>
        if isPrefixAt env.inp p [10] then some (p+1, [])
        else if isPrefixAt env.inp p [13, 10] then some (p+2, [])
        else if isPrefixAt env.inp p [13] then some (p+1, []) else none
    | "ASCII_DIGIT" => cls 48 57
    | "ASCII_BIN_DIGIT" => cls 48 49
    | "ASCII_OCT_DIGIT" => cls 48 55
    | "ASCII_HEX_DIGIT" => (cls 48 57 <|> cls 97 102) <|> cls 65 70
    | "ASCII_ALPHA" => cls 97 122 <|> cls 65 90
    | "ASCII_ALPHANUMERIC" => (cls 48 57 <|> cls 97 122) <|> cls 65 90
    | _ =>
      match env.rule? n with
      | none => none
      | some r =>
        if n == "WHITESPACE" || n == "COMMENT" then
          -- body always atomic; rule type decides the token (silent here)
          let res := matchE env f r.body .atomic la p
          match r.ty with
          | .silent => res
          | _ => tok (at_ != .atomic) res
        else
        match r.ty with
        | .silent => matchE env f r.body at_ la p
        | .normal => tok (at_ != .atomic) (matchE env f r.body at_ la p)
        | .atomic => tok (at_ != .atomic) (matchE env f r.body .atomic la p)
        | .compound => tok true (matchE env f r.body .compound la p)
        | .nonAtomic => tok true (matchE env f r.body .nonAtomic la p)
end

def parse (g : List Rule) (start : String) (text : String) : Option (List Pair) :=
  let inp : Array Nat := (text.toList.map Char.toNat).toArray
  match callRule ⟨g, inp⟩ (16 * inp.size + 1000) start .nonAtomic false 0 with
  | some (_, ks) => some ks
  | none => none

partial def Pair.show (t : String) : Pair → String
  | .mk r s e ks =>
    let body := if ks.isEmpty then "\"" ++ String.ofList ((t.toList.drop s).take (e - s)) ++ "\"" else " ".intercalate (ks.map (Pair.show t))
    s!"({r} {body})"

end Pest
