-- spike: pest PrecClimber (2 left-assoc levels) = stratified grammar
inductive Op | plus | minus | times | divide
deriving DecidableEq, Repr

def prec : Op → Nat
  | .plus | .minus => 1
  | .times | .divide => 2

theorem prec_cases (o : Op) : prec o = 1 ∨ prec o = 2 := by cases o <;> simp [prec]

section
variable {T : Type} (infx : T → Op → T → T)

mutual
/-- outer `while` of `climb_rec` -/
def outer : Nat → T → Nat → List (Op × T) → T × List (Op × T)
  | 0, lhs, _, ps => (lhs, ps)
  | _, lhs, _, [] => (lhs, [])
  | fuel+1, lhs, minPrec, (op, t) :: rest =>
      if prec op ≥ minPrec then
        let r := inner fuel op t rest
        outer fuel (infx lhs op r.1) minPrec r.2
      else (lhs, (op, t) :: rest)
/-- inner `while` of `climb_rec` (right operand of `op`) -/
def inner : Nat → Op → T → List (Op × T) → T × List (Op × T)
  | 0, _, rhs, qs => (rhs, qs)
  | _, _, rhs, [] => (rhs, [])
  | fuel+1, op, rhs, (op', t') :: qs' =>
      if prec op' > prec op then
        let r := outer fuel rhs (prec op') ((op', t') :: qs')
        inner fuel op r.1 r.2
      else (rhs, (op', t') :: qs')
end

def climb (t0 : T) (ps : List (Op × T)) : T := (outer infx (2 * ps.length + 2) t0 0 ps).1

/-- specification: T → F ((*|/) F)* -/
def mulChain (lhs : T) : List (Op × T) → T × List (Op × T)
  | [] => (lhs, [])
  | (op, t) :: ps => if prec op = 2 then mulChain (infx lhs op t) ps else (lhs, (op, t) :: ps)

theorem mulChain_len (lhs : T) (ps) : (mulChain infx lhs ps).2.length ≤ ps.length := by
  induction ps generalizing lhs with
  | nil => simp [mulChain]
  | cons p ps ih =>
    obtain ⟨op, t⟩ := p
    simp only [mulChain]; split
    · exact Nat.le_trans (ih _) (by simp)
    · simp

/-- the list after `mulChain` does not start with a multiplicative operator -/
theorem mulChain_head (lhs : T) (ps) : ∀ op t r, (mulChain infx lhs ps).2 = (op, t) :: r → prec op ≠ 2 := by
  induction ps generalizing lhs with
  | nil => simp [mulChain]
  | cons p ps ih =>
    obtain ⟨o, u⟩ := p
    intro op t r
    simp only [mulChain]; split
    · exact ih _ op t r
    · intro h; simp only [List.cons.injEq, Prod.mk.injEq] at h; obtain ⟨⟨rfl, _⟩, _⟩ := h; assumption

/-- specification: E → T ((+|-) T)* ; `lhs` is a finished T-value -/
def addChain : Nat → T → List (Op × T) → T
  | 0, lhs, _ => lhs
  | _, lhs, [] => lhs
  | n+1, lhs, (op, t) :: ps =>
      let r := mulChain infx t ps
      addChain n (infx lhs op r.1) r.2

def parseE (t0 : T) (ps : List (Op × T)) : T :=
  let r := mulChain infx t0 ps
  addChain infx (ps.length) r.1 r.2

/-- a call at level 2 is exactly `mulChain` -/
theorem outer_two (fuel : Nat) (lhs : T) (ps) (h : 2 * ps.length + 1 ≤ fuel) :
    outer infx fuel lhs 2 ps = mulChain infx lhs ps := by
  induction ps generalizing lhs fuel with
  | nil => cases fuel <;> simp [outer, mulChain]
  | cons p ps ih =>
    obtain ⟨op, t⟩ := p
    match fuel, h with
    | fuel+1, h =>
      simp only [outer, mulChain]
      rcases prec_cases op with h1 | h2
      · simp [h1]
      · simp only [h2, ge_iff_le, Nat.le_refl, ↓reduceIte]
        have hin : inner infx fuel op t ps = (t, ps) := by
          match fuel, ps with
          | 0, _ => simp [inner]
          | _+1, [] => simp [inner]
          | f+1, (o', t') :: qs =>
            simp only [inner, h2]
            have : ¬ prec o' > 2 := by rcases prec_cases o' with h | h <;> omega
            simp [this]
        rw [hin]
        exact ih fuel _ (by simp at h; omega)

theorem mulChain_stop (x : T) (qs) (h : ∀ op t r, qs = (op, t) :: r → prec op ≠ 2) :
    mulChain infx x qs = (x, qs) := by
  cases qs with
  | nil => simp [mulChain]
  | cons p r =>
    obtain ⟨op, t⟩ := p
    have := h op t r rfl
    simp [mulChain, this]

/-- the right operand of an additive operator is a full multiplicative chain -/
theorem inner_one (fuel : Nat) (op : Op) (t : T) (rest) (hop : prec op = 1)
    (h : 2 * rest.length + 2 ≤ fuel) :
    inner infx fuel op t rest = mulChain infx t rest := by
  match fuel, rest, h with
  | _+1, [], _ => simp [inner, mulChain]
  | f+1, (o', t') :: qs, h =>
    simp only [inner, hop]
    rcases prec_cases o' with h1 | h2
    · simp [h1, mulChain]
    · simp only [h2, gt_iff_lt, Nat.lt_add_one, ↓reduceIte]
      rw [outer_two infx f t ((o', t') :: qs) (by simp at h ⊢; omega)]
      -- after the chain, the head is not multiplicative, so `inner` stops
      generalize hr : mulChain infx t ((o', t') :: qs) = r
      have hh := mulChain_head infx t ((o', t') :: qs)
      rw [hr] at hh
      have hl := mulChain_len infx t ((o', t') :: qs)
      rw [hr] at hl
      obtain ⟨v, rs⟩ := r
      match f, rs, hh with
      | 0, _, _ => simp at h
      | _+1, [], _ => simp [inner]
      | g+1, (o2, t2) :: r2, hh =>
        have := hh o2 t2 r2 rfl
        have : ¬ prec o2 > 1 := by rcases prec_cases o2 with h | h <;> omega
        simp [inner, hop, this]

theorem outer_low : ∀ (k : Nat) (ps : List (Op × T)) (lhs : T) (fuel n m : Nat),
    ps.length ≤ k → m ≤ 1 → 2 * ps.length + 2 ≤ fuel → ps.length ≤ n →
    outer infx fuel lhs m ps =
      (addChain infx n (mulChain infx lhs ps).1 (mulChain infx lhs ps).2, []) := by
  intro k
  induction k with
  | zero =>
    intro ps lhs fuel n m hk _ _ _
    have : ps = [] := by cases ps <;> simp_all
    subst this
    cases fuel <;> cases n <;> simp [outer, mulChain, addChain]
  | succ k ih =>
    intro ps lhs fuel n m hk hm hf hn
    match ps, fuel, hf with
    | [], fuel, _ => cases fuel <;> cases n <;> simp [outer, mulChain, addChain]
    | (op, t) :: rest, fuel+1, hf =>
      have hpm : prec op ≥ m := by rcases prec_cases op with h | h <;> omega
      simp only [outer, hpm, ↓reduceIte]
      rcases prec_cases op with h1 | h2
      · -- additive operator
        rw [inner_one infx fuel op t rest h1 (by simp at hf ⊢; omega)]
        have hl := mulChain_len infx t rest
        have hh := mulChain_head infx t rest
        generalize hr : mulChain infx t rest = r at hl hh
        obtain ⟨v, rs⟩ := r
        simp only at hl hh ⊢
        have hstop : mulChain infx lhs ((op, t) :: rest) = (lhs, (op, t) :: rest) := by
          simp [mulChain, h1]
        rw [hstop]
        match n, hn with
        | n+1, hn =>
          simp only [addChain, hr]
          rw [ih rs (infx lhs op v) fuel n m (by simp at hk; omega) hm (by simp at hf; omega)
            (by simp at hn; omega)]
          rw [mulChain_stop infx _ rs hh]
      · -- multiplicative operator in the leading run
        have hin : inner infx fuel op t rest = (t, rest) := by
          match fuel, rest with
          | 0, _ => simp [inner]
          | _+1, [] => simp [inner]
          | f+1, (o', t') :: qs =>
            have : ¬ prec o' > 2 := by rcases prec_cases o' with h | h <;> omega
            simp [inner, h2, this]
        rw [hin]
        rw [ih rest (infx lhs op t) fuel n m (by simp at hk; omega) hm (by simp at hf; omega)
          (by simp at hn; omega)]
        simp [mulChain, h2]

theorem climb_eq_parseE (t0 : T) (ps : List (Op × T)) : climb infx t0 ps = parseE infx t0 ps := by
  unfold climb parseE
  rw [outer_low infx ps.length ps t0 _ ps.length 0 (Nat.le_refl _) (by omega) (Nat.le_refl _) (Nat.le_refl _)]
end

#print axioms climb_eq_parseE
