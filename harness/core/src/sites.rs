//! Translator: inventory of potential panic sites in modelled source files.
//! Keyed by (file, enclosing fn, kind, ordinal within fn) -- not by line.
pub fn dump(files: &[String]) {
    const KINDS: &[(&str, &str)] = &[
        (".unwrap()", "unwrap"),
        (".expect(", "expect"),
        ("panic!(", "panic"),
        ("unreachable!(", "unreachable"),
        ("assert!(", "assert"),
        ("assert_eq!(", "assert_eq"),
        ("todo!(", "todo"),
        ("unimplemented!(", "unimplemented"),
        (".unwrap_err()", "unwrap_err"),
    ];
    for f in files {
        let text = match std::fs::read_to_string(f) {
            Ok(t) => t,
            Err(_) => {
                println!("missing {}", f);
                continue;
            }
        };
        let mut cur_fn = String::from("<top>");
        let mut counts: std::collections::BTreeMap<(String, String), usize> = Default::default();
        for line in text.lines() {
            let t = line.trim_start();
            if t.starts_with("#[cfg(test)]") {
                break;
            }
            if t.starts_with("//") {
                continue;
            }
            if let Some(i) = t.find("fn ") {
                let before = &t[..i];
                if before.chars().all(|c| c.is_alphanumeric() || c == ' ' || c == '(' || c == ')' || c == '_') {
                    let name: String = t[i + 3..].chars().take_while(|c| c.is_alphanumeric() || *c == '_').collect();
                    if !name.is_empty() {
                        cur_fn = name;
                    }
                }
            }
            for (pat, kind) in KINDS {
                let n = t.matches(pat).count();
                if n > 0 {
                    *counts.entry((cur_fn.clone(), kind.to_string())).or_insert(0) += n;
                }
            }
        }
        let short = f.rsplit("/repo/").next().unwrap_or(f);
        for ((func, kind), n) in counts {
            println!("site {} {} {} {}", short, func, kind, n);
        }
    }
}
