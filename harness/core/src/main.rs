//! `etk-h`: in-process harness around the real etk crates (path dependencies on
//! /repo).  Line protocol: one request per stdin line, one reply per stdout
//! line.  Every request runs under `catch_unwind`; a panic is reported as the
//! reply `panic`.
mod ann;
mod asm;
mod dis;
mod grammar;
mod hexio;
mod ops;
mod sep;
mod sites;

use std::io::{BufRead, Write};
use std::panic;

pub fn unhex(s: &str) -> Vec<u8> {
    if s == "-" {
        return Vec::new();
    }
    hex::decode(s).expect("bad hex in request")
}

pub fn hx(b: &[u8]) -> String {
    if b.is_empty() {
        "-".to_string()
    } else {
        hex::encode(b)
    }
}

fn dispatch(line: &str) -> String {
    let mut it = line.split(' ');
    let cmd = it.next().unwrap_or("");
    let args: Vec<&str> = it.collect();
    match cmd {
        "dis" => dis::run(&args),
        "sep" => sep::run(&args),
        "ops" => ops::run(&args),
        "asm" => asm::run(&args),
        "asmfs" => asm::run_fs(&args),
        "hexr" => hexio::run_read(&args),
        "hexw" => hexio::run_write(&args),
        "lst" => dis::run_listing(&args),
        "ann" => ann::run(&args),
        _ => format!("bad-op {}", cmd),
    }
}

fn main() {
    let argv: Vec<String> = std::env::args().collect();
    if argv.len() > 1 {
        match argv[1].as_str() {
            "dump-ops" => return ops::dump(),
            "dump-grammar" => return grammar::dump(&argv[2]),
            "dump-sites" => return sites::dump(&argv[2..]),
            _ => {}
        }
    }
    panic::set_hook(Box::new(|_| {}));
    let stdin = std::io::stdin();
    let stdout = std::io::stdout();
    let mut out = std::io::BufWriter::new(stdout.lock());
    for line in stdin.lock().lines() {
        let line = line.unwrap();
        let l = line.trim_end().to_string();
        if l.is_empty() {
            continue;
        }
        let r = panic::catch_unwind(|| dispatch(&l));
        let reply = match r {
            Ok(s) => s,
            Err(_) => "panic".to_string(),
        };
        writeln!(out, "{}", reply).unwrap();
        out.flush().unwrap();
    }
}
