//! Opcode tables as observed through the compiled crate's public API.
use crate::{hx, unhex};

macro_rules! fork_impl {
    ($modname:ident, $fork:ident) => {
        pub mod $modname {
            use etk_ops::$fork::{Op, Operation};
            use std::str::FromStr;

            pub fn dump(name: &str) {
                for b in 0u16..256 {
                    let b = b as u8;
                    let spec = Op::<()>::from(b);
                    let disp = spec.to_string();
                    let back: u8 = spec.into();
                    let parsed: i32 = match Op::<()>::from_str(&disp) {
                        Ok(o) => {
                            let v: u8 = o.into();
                            v as i32
                        }
                        Err(_) => 256,
                    };
                    println!(
                        "{} {} {} {} {} {} {} {} {} {} {} {} {}",
                        name,
                        b,
                        disp,
                        spec.extra_len(),
                        spec.pops(),
                        spec.pushes(),
                        spec.is_exit() as u8,
                        spec.is_jump() as u8,
                        spec.is_jump_target() as u8,
                        spec.size(),
                        back,
                        parsed,
                        spec.mnemonic(),
                    );
                }
            }

            pub fn row(b: u8) -> String {
                let spec = Op::<()>::from(b);
                let disp = spec.to_string();
                let back: u8 = spec.into();
                let parsed: i32 = match Op::<()>::from_str(&disp) {
                    Ok(o) => {
                        let v: u8 = o.into();
                        v as i32
                    }
                    Err(_) => 256,
                };
                format!(
                    "{} {} {} {} {} {} {} {} {} {} {}",
                    b,
                    disp,
                    spec.extra_len(),
                    spec.pops(),
                    spec.pushes(),
                    spec.is_exit() as u8,
                    spec.is_jump() as u8,
                    spec.is_jump_target() as u8,
                    spec.size(),
                    back,
                    parsed,
                )
            }

            pub fn from_slice(bytes: &[u8]) -> String {
                match Op::<[u8]>::from_slice(bytes) {
                    Ok(op) => format!("ok {} {}", op.size(), {
                        let c: u8 = op.code().into();
                        c
                    }),
                    Err(etk_ops::FromSliceError::NoImmediate { .. }) => "err noimm".into(),
                    Err(etk_ops::FromSliceError::TryInto { .. }) => "err tryinto".into(),
                    #[allow(unreachable_patterns)]
                    Err(_) => "err other".into(),
                }
            }

            pub fn push_for(n: u128) -> String {
                match Op::<()>::push_for(n) {
                    Some(o) => {
                        let c: u8 = o.into();
                        format!("some {}", c)
                    }
                    None => "none".into(),
                }
            }

            pub fn push(sz: usize) -> String {
                match Op::<()>::push(sz) {
                    Some(o) => {
                        let c: u8 = o.into();
                        format!("some {}", c)
                    }
                    None => "none".into(),
                }
            }

            pub fn upsize(code: u8) -> String {
                match Op::<()>::from(code).upsize() {
                    Some(o) => {
                        let c: u8 = o.into();
                        format!("some {}", c)
                    }
                    None => "none".into(),
                }
            }

            pub fn parse(m: &str) -> String {
                match Op::<()>::from_str(m) {
                    Ok(o) => {
                        let c: u8 = o.into();
                        format!("ok {}", c)
                    }
                    Err(_) => "err".into(),
                }
            }

            pub fn new_noimm(code: u8) -> String {
                match Op::<[u8]>::new(Op::<()>::from(code)) {
                    Some(o) => format!("some {}", o.size()),
                    None => "none".into(),
                }
            }
        }
    };
}

fork_impl!(london, london);
fork_impl!(shanghai, shanghai);
fork_impl!(cancun, cancun);

pub fn dump() {
    london::dump("london");
    shanghai::dump("shanghai");
    cancun::dump("cancun");
}

macro_rules! by_fork {
    ($fork:expr, $f:ident, $($a:expr),*) => {
        match $fork {
            "london" => london::$f($($a),*),
            "shanghai" => shanghai::$f($($a),*),
            "cancun" => cancun::$f($($a),*),
            _ => "bad-fork".to_string(),
        }
    };
}

/// `ops <what> <fork> <arg>`
pub fn run(args: &[&str]) -> String {
    if args.len() < 3 {
        return "bad-op".into();
    }
    let (what, fork, arg) = (args[0], args[1], args[2]);
    match what {
        "fromslice" => {
            let b = unhex(arg);
            by_fork!(fork, from_slice, &b)
        }
        "pushfor" => {
            let n: u128 = arg.parse().unwrap();
            by_fork!(fork, push_for, n)
        }
        "push" => {
            let n: usize = arg.parse().unwrap();
            by_fork!(fork, push, n)
        }
        "upsize" => {
            let n: u8 = arg.parse().unwrap();
            by_fork!(fork, upsize, n)
        }
        "parse" => {
            let m = String::from_utf8(unhex(arg)).unwrap();
            by_fork!(fork, parse, &m)
        }
        "row" => {
            let n: u8 = arg.parse().unwrap();
            by_fork!(fork, row, n)
        }
        "new" => {
            let n: u8 = arg.parse().unwrap();
            by_fork!(fork, new_noimm, n)
        }
        _ => "bad-op".into(),
    }
}

#[allow(dead_code)]
fn _unused() -> String {
    hx(&[])
}
