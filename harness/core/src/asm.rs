//! The assembler through its public text interface (C01,C02,C07-C14,C12,C18).
use crate::{hx, unhex};
use etk_asm::asm::Error as AsmError;
use etk_asm::ingest::{Error, Ingest};
use etk_asm::ParseError;

fn canon_name(n: &str) -> String {
    // `<macro>_<label>_<u64>` (random suffix of macro-local labels) -> `<macro>_<label>_#`
    if let Some(i) = n.rfind('_') {
        let (head, tail) = n.split_at(i);
        let digits = &tail[1..];
        if digits.len() >= 1 && digits.chars().all(|c| c.is_ascii_digit()) && head.contains('_') {
            return format!("{}_#", head);
        }
    }
    n.to_string()
}

fn names(v: &[String]) -> String {
    let mut v: Vec<String> = v.iter().map(|s| canon_name(s)).collect();
    v.sort();
    v.dedup();
    if v.is_empty() {
        "-".into()
    } else {
        v.join(",")
    }
}

fn classify_parse(e: &ParseError) -> String {
    match e {
        ParseError::ImmediateTooLarge { .. } => "Parse.ImmediateTooLarge".into(),
        ParseError::Lexer { .. } => "Parse.Lexer".into(),
        ParseError::MissingArgument { expected, got, .. } => {
            format!("Parse.MissingArgument {}/{}", got, expected)
        }
        ParseError::ExtraArgument { expected, .. } => format!("Parse.ExtraArgument {}", expected),
        ParseError::ArgumentType { .. } => "Parse.ArgumentType".into(),
        #[allow(unreachable_patterns)]
        _ => "Parse.Other".into(),
    }
}

fn classify_asm(e: &AsmError) -> String {
    match e {
        AsmError::DuplicateLabel { label, .. } => format!("DuplicateLabel {}", canon_name(label)),
        AsmError::DuplicateMacro { name, .. } => format!("DuplicateMacro {}", name),
        AsmError::ExpressionTooLarge { .. } => "ExpressionTooLarge".into(),
        AsmError::ExpressionNegative { .. } => "ExpressionNegative".into(),
        AsmError::UnsizedPushTooLarge { .. } => "UnsizedPushTooLarge".into(),
        AsmError::UndeclaredLabels { labels, .. } => format!("UndeclaredLabels {}", names(labels)),
        AsmError::UndeclaredInstructionMacro { name, .. } => {
            format!("UndeclaredInstructionMacro {}", name)
        }
        AsmError::UndeclaredExpressionMacro { name, .. } => {
            format!("UndeclaredExpressionMacro {}", name)
        }
        AsmError::ParseInclude { source, .. } => format!("ParseInclude {}", classify_parse(source)),
        AsmError::UndeclaredVariableMacro { var, .. } => {
            format!("UndeclaredVariableMacro {}", var)
        }
        AsmError::MacroArgumentCount { name, .. } => format!("Asm.MacroArgumentCount {}", name),
        AsmError::MacroRecursionLimit { name, .. } => format!("Asm.MacroRecursionLimit {}", name),
        #[allow(unreachable_patterns)]
        other => {
            // Variants added by later repairs are reported by their Debug head.
            let d = format!("{:?}", other);
            let head: String = d.chars().take_while(|c| c.is_alphanumeric()).collect();
            format!("Asm.{}", head)
        }
    }
}

pub fn classify(e: &Error) -> String {
    match e {
        Error::DirectoryTraversal { .. } => "DirectoryTraversal".into(),
        Error::Io { message, .. } => format!("Io {}", message.replace(' ', "_")),
        Error::Parse { source, .. } => classify_parse(source),
        Error::Assemble { source, .. } => classify_asm(source),
        Error::InvalidHex { .. } => "InvalidHex".into(),
        Error::RecursionLimit { .. } => "RecursionLimit".into(),
        #[allow(unreachable_patterns)]
        _ => "Other".into(),
    }
}

fn once(path: &str, src: &str) -> String {
    let mut out = Vec::new();
    let r = {
        let mut ing = Ingest::new(&mut out);
        ing.ingest(path, src)
    };
    match r {
        Ok(()) => format!("ok {}", hx(&out)),
        Err(e) => {
            if out.is_empty() {
                format!("err {}", classify(&e))
            } else {
                format!("err {} dirty", classify(&e))
            }
        }
    }
}

/// `asm <hex of source text> [<hex of the path given to ingest>]`: assemble twice in fresh assemblers.
pub fn run(args: &[&str]) -> String {
    let src = String::from_utf8(unhex(args[0])).expect("source must be utf-8");
    let path = match args.get(1) {
        Some(p) => String::from_utf8(unhex(p)).expect("path must be utf-8"),
        None => "root.etk".to_string(),
    };
    let a = std::panic::catch_unwind(|| once(&path, &src)).unwrap_or_else(|_| "panic".into());
    let b = std::panic::catch_unwind(|| once(&path, &src)).unwrap_or_else(|_| "panic".into());
    if a == b {
        a
    } else {
        format!("nondet [{}] [{}]", a, b)
    }
}

static FS_COUNTER: std::sync::atomic::AtomicUsize = std::sync::atomic::AtomicUsize::new(0);

/// `asmfs <hex top path> <entries>`: materialise a file tree in a fresh
/// directory `T`, then `ingest_file(T/<top>)` (an absolute top path is used as
/// is).  entries, comma separated: `f:<hexpath>:<hexcontent>` file,
/// `d:<hexpath>` directory, `l:<hexpath>:<hextarget>` symbolic link (target
/// verbatim; a target starting with `/` is re-rooted under `T`).  Paths are
/// relative to `T`.  Reply: `ok <hex>` / `err <class>`; in error classes and
/// nowhere else the temporary directory never shows.
pub fn run_fs(args: &[&str]) -> String {
    let top = String::from_utf8(unhex(args[0])).unwrap();
    let n = FS_COUNTER.fetch_add(1, std::sync::atomic::Ordering::SeqCst);
    let base = std::env::temp_dir().join(format!("etk-h-fs-{}-{}", std::process::id(), n));
    let _ = std::fs::remove_dir_all(&base);
    std::fs::create_dir_all(&base).unwrap();
    let base = std::fs::canonicalize(&base).unwrap();
    let under = |p: &str| -> std::path::PathBuf {
        if let Some(stripped) = p.strip_prefix('/') {
            base.join(stripped)
        } else {
            base.join(p)
        }
    };
    for ent in args.get(1).copied().unwrap_or("").split(',').filter(|e| !e.is_empty()) {
        let parts: Vec<&str> = ent.split(':').collect();
        let path = under(&String::from_utf8(unhex(parts[1])).unwrap());
        if let Some(parent) = path.parent() {
            let _ = std::fs::create_dir_all(parent);
        }
        match parts[0] {
            "f" => {
                // `@T@` in file contents stands for the location of the materialised tree
                let content = unhex(parts[2]);
                let marker = b"@T@";
                let mut out = Vec::with_capacity(content.len());
                let mut i = 0;
                while i < content.len() {
                    if content[i..].starts_with(marker) {
                        out.extend_from_slice(base.to_str().unwrap().as_bytes());
                        i += marker.len();
                    } else {
                        out.push(content[i]);
                        i += 1;
                    }
                }
                std::fs::write(&path, out).unwrap()
            }
            "d" => std::fs::create_dir_all(&path).unwrap(),
            "l" => {
                let target = String::from_utf8(unhex(parts[2])).unwrap();
                let target = if target.starts_with('/') { under(&target) } else { std::path::PathBuf::from(target) };
                std::os::unix::fs::symlink(target, &path).unwrap();
            }
            _ => {}
        }
    }
    let top_path = under(&top);
    let mut out = Vec::new();
    let r = {
        let mut ing = Ingest::new(&mut out);
        ing.ingest_file(top_path)
    };
    let _ = std::fs::remove_dir_all(&base);
    match r {
        Ok(()) => format!("ok {}", hx(&out)),
        Err(e) => {
            if out.is_empty() {
                format!("err {}", classify(&e))
            } else {
                format!("err {} dirty", classify(&e))
            }
        }
    }
}
