//! The assembler through its public text interface (C01,C02,C07-C14,C12,C18).
use crate::{hx, unhex};
use etk_asm::asm::Error as AsmError;
use etk_asm::ingest::{Error, Ingest};
use etk_asm::ParseError;

fn canon_name(n: &str) -> String {
    // `<macro>_<label>_<u64>` (random suffix of macro-local labels) -> `<macro>_<label>_#`
    if let Some(i) = n.rfind('_') {
        let (head, tail) = n.split_at(i);
        let digits = &tail[1..];
        if digits.len() >= 1 && digits.chars().all(|c| c.is_ascii_digit()) && head.contains('_') {
            return format!("{}_#", head);
        }
    }
    n.to_string()
}

fn names(v: &[String]) -> String {
    let mut v: Vec<String> = v.iter().map(|s| canon_name(s)).collect();
    v.sort();
    v.dedup();
    if v.is_empty() {
        "-".into()
    } else {
        v.join(",")
    }
}

fn classify_parse(e: &ParseError) -> String {
    match e {
        ParseError::ImmediateTooLarge { .. } => "Parse.ImmediateTooLarge".into(),
        ParseError::Lexer { .. } => "Parse.Lexer".into(),
        ParseError::MissingArgument { expected, got, .. } => {
            format!("Parse.MissingArgument {}/{}", got, expected)
        }
        ParseError::ExtraArgument { expected, .. } => format!("Parse.ExtraArgument {}", expected),
        ParseError::ArgumentType { .. } => "Parse.ArgumentType".into(),
        #[allow(unreachable_patterns)]
        _ => "Parse.Other".into(),
    }
}

fn classify_asm(e: &AsmError) -> String {
    match e {
        AsmError::DuplicateLabel { label, .. } => format!("DuplicateLabel {}", canon_name(label)),
        AsmError::DuplicateMacro { name, .. } => format!("DuplicateMacro {}", name),
        AsmError::ExpressionTooLarge { .. } => "ExpressionTooLarge".into(),
        AsmError::ExpressionNegative { .. } => "ExpressionNegative".into(),
        AsmError::UnsizedPushTooLarge { .. } => "UnsizedPushTooLarge".into(),
        AsmError::UndeclaredLabels { labels, .. } => format!("UndeclaredLabels {}", names(labels)),
        AsmError::UndeclaredInstructionMacro { name, .. } => {
            format!("UndeclaredInstructionMacro {}", name)
        }
        AsmError::UndeclaredExpressionMacro { name, .. } => {
            format!("UndeclaredExpressionMacro {}", name)
        }
        AsmError::ParseInclude { source, .. } => format!("ParseInclude {}", classify_parse(source)),
        AsmError::UndeclaredVariableMacro { var, .. } => {
            format!("UndeclaredVariableMacro {}", var)
        }
        #[allow(unreachable_patterns)]
        other => {
            // Variants added by later repairs are reported by their Debug head.
            let d = format!("{:?}", other);
            let head: String = d.chars().take_while(|c| c.is_alphanumeric()).collect();
            format!("Asm.{}", head)
        }
    }
}

pub fn classify(e: &Error) -> String {
    match e {
        Error::DirectoryTraversal { .. } => "DirectoryTraversal".into(),
        Error::Io { message, .. } => format!("Io {}", message.replace(' ', "_")),
        Error::Parse { source, .. } => classify_parse(source),
        Error::Assemble { source, .. } => classify_asm(source),
        Error::InvalidHex { .. } => "InvalidHex".into(),
        Error::RecursionLimit { .. } => "RecursionLimit".into(),
        #[allow(unreachable_patterns)]
        _ => "Other".into(),
    }
}

fn once(path: &str, src: &str) -> String {
    let mut out = Vec::new();
    let r = {
        let mut ing = Ingest::new(&mut out);
        ing.ingest(path, src)
    };
    match r {
        Ok(()) => format!("ok {}", hx(&out)),
        Err(e) => {
            if out.is_empty() {
                format!("err {}", classify(&e))
            } else {
                format!("err {} dirty", classify(&e))
            }
        }
    }
}

/// `asm <hex of source text> [<hex of the path given to ingest>]`: assemble twice in fresh assemblers.
pub fn run(args: &[&str]) -> String {
    let src = String::from_utf8(unhex(args[0])).expect("source must be utf-8");
    let path = match args.get(1) {
        Some(p) => String::from_utf8(unhex(p)).expect("path must be utf-8"),
        None => "root.etk".to_string(),
    };
    let a = std::panic::catch_unwind(|| once(&path, &src)).unwrap_or_else(|_| "panic".into());
    let b = std::panic::catch_unwind(|| once(&path, &src)).unwrap_or_else(|_| "panic".into());
    if a == b {
        a
    } else {
        format!("nondet [{}] [{}]", a, b)
    }
}

/// `asmfs <hex of path of top-level file>`: `ingest_file` on a materialised tree.
pub fn run_fs(args: &[&str]) -> String {
    let path = String::from_utf8(unhex(args[0])).unwrap();
    let mut out = Vec::new();
    let r = {
        let mut ing = Ingest::new(&mut out);
        ing.ingest_file(std::path::PathBuf::from(&path))
    };
    match r {
        Ok(()) => format!("ok {}", hx(&out)),
        Err(e) => {
            if out.is_empty() {
                format!("err {}", classify(&e))
            } else {
                format!("err {} dirty", classify(&e))
            }
        }
    }
}
