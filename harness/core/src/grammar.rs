//! Translator: asm.pest -> line-oriented dump of the optimized pest AST,
//! obtained with pest's own meta parser (pest_meta 2.1.3).
use pest_meta::ast::{Expr, RuleType};
use pest_meta::{optimizer, parser};

fn q(s: &str) -> String {
    // strings as lists of code points
    let v: Vec<String> = s.chars().map(|c| (c as u32).to_string()).collect();
    format!("[{}]", v.join(","))
}

fn show(e: &Expr) -> String {
    match e {
        Expr::Str(s) => format!("(str {})", q(s)),
        Expr::Insens(s) => format!("(insens {})", q(s)),
        Expr::Range(a, b) => format!("(range {} {})", q(a), q(b)),
        Expr::Ident(i) => format!("(ident {})", i),
        Expr::PosPred(e) => format!("(pos {})", show(e)),
        Expr::NegPred(e) => format!("(neg {})", show(e)),
        Expr::Seq(a, b) => format!("(seq {} {})", show(a), show(b)),
        Expr::Choice(a, b) => format!("(choice {} {})", show(a), show(b)),
        Expr::Opt(e) => format!("(opt {})", show(e)),
        Expr::Rep(e) => format!("(rep {})", show(e)),
        Expr::RepOnce(e) => format!("(reponce {})", show(e)),
        Expr::Skip(v) => format!("(skip {})", v.iter().map(|s| q(s)).collect::<Vec<_>>().join(" ")),
        Expr::Push(e) => format!("(push {})", show(e)),
        other => format!("(unsupported {:?})", other),
    }
}

pub fn dump(path: &str) {
    let text = std::fs::read_to_string(path).expect("cannot read grammar");
    let pairs = parser::parse(parser::Rule::grammar_rules, &text).expect("grammar does not parse");
    let rules = parser::consume_rules(pairs).expect("grammar does not validate");
    let raw = rules.clone();
    let opt = optimizer::optimize(rules);
    for (tag, rs) in [("raw", raw.iter().map(|r| (r.name.clone(), r.ty, show(&r.expr))).collect::<Vec<_>>())] {
        for (name, ty, e) in rs {
            let t = match ty {
                RuleType::Normal => "normal",
                RuleType::Silent => "silent",
                RuleType::Atomic => "atomic",
                RuleType::CompoundAtomic => "compound",
                RuleType::NonAtomic => "nonatomic",
            };
            println!("{} {} {} {}", tag, name, t, e);
        }
    }
    println!("optimized-rules {}", opt.len());
}
