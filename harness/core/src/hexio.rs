//! Hex adapters behind scripted readers and sinks (C19).
use crate::{hx, unhex};
use std::io::{self, Read, Write};

struct Scripted {
    data: Vec<u8>,
    pos: usize,
    chunks: Vec<usize>,
    next: usize,
}

impl Read for Scripted {
    fn read(&mut self, buf: &mut [u8]) -> io::Result<usize> {
        let rest = self.data.len() - self.pos;
        if rest == 0 || buf.is_empty() {
            return Ok(0);
        }
        let want = if self.chunks.is_empty() {
            rest
        } else {
            let c = self.chunks[self.next % self.chunks.len()];
            self.next += 1;
            c.max(1)
        };
        let n = want.min(rest).min(buf.len());
        buf[..n].copy_from_slice(&self.data[self.pos..self.pos + n]);
        self.pos += n;
        Ok(n)
    }
}

#[cfg(feature = "hooks")]
fn reader(s: Scripted) -> impl Read {
    etk_cli::io::verif_hex_reader(s)
}

#[cfg(not(feature = "hooks"))]
fn reader(s: Scripted) -> impl Read {
    s
}

/// `hexr <hex of text> <chunks: a.b.c cyclic, or -> <bufs: a.b.c cyclic>`:
/// read to the end through the hex decoder.  Reply `ok <bytes>` or
/// `err <bytes before the error>`.
pub fn run_read(args: &[&str]) -> String {
    let text = unhex(args[0]);
    let parse = |s: &str| -> Vec<usize> {
        if s == "-" {
            vec![]
        } else {
            s.split('.').map(|x| x.parse().unwrap()).collect()
        }
    };
    let chunks = parse(args[1]);
    let bufs = parse(args[2]);
    let mut r = reader(Scripted { data: text, pos: 0, chunks, next: 0 });
    let mut out = Vec::new();
    let mut i = 0usize;
    let mut calls = 0usize;
    loop {
        let sz = if bufs.is_empty() { 64 } else { bufs[i % bufs.len()].max(1) };
        i += 1;
        calls += 1;
        let mut buf = vec![0u8; sz];
        match r.read(&mut buf) {
            Ok(0) => return format!("ok {}", hx(&out)),
            Ok(n) => out.extend_from_slice(&buf[..n]),
            Err(_) => return format!("err {}", hx(&out)),
        }
        if calls > 1_000_000 {
            return "loop".into();
        }
    }
}

struct Sink {
    got: Vec<u8>,
    accepts: Vec<usize>,
    next: usize,
}

impl Write for Sink {
    fn write(&mut self, buf: &[u8]) -> io::Result<usize> {
        let n = if self.accepts.is_empty() {
            buf.len()
        } else {
            let a = self.accepts[self.next % self.accepts.len()];
            self.next += 1;
            a.min(buf.len())
        };
        self.got.extend_from_slice(&buf[..n]);
        Ok(n)
    }
    fn flush(&mut self) -> io::Result<()> {
        Ok(())
    }
}

/// `hexw <hex bytes> <accepts: a.b.c cyclic or -> <call sizes a.b.c cyclic or ->`:
/// the caller loops `write` over the not-yet-written rest (like `write_all`
/// but observing every step).  Reply: `ok|err <sink text as hex> <total reported>`.
pub fn run_write(args: &[&str]) -> String {
    let data = unhex(args[0]);
    let parse = |s: &str| -> Vec<usize> {
        if s == "-" {
            vec![]
        } else {
            s.split('.').map(|x| x.parse().unwrap()).collect()
        }
    };
    let accepts = parse(args[1]);
    let sizes = parse(args[2]);
    let mut sink = Sink { got: vec![], accepts, next: 0 };
    let mut total = 0usize;
    let mut status = "ok";
    {
        let mut w = etk_cli::io::HexWrite::new(&mut sink);
        let mut i = 0usize;
        let mut stalls = 0;
        while total < data.len() {
            let sz = if sizes.is_empty() { data.len() - total } else { sizes[i % sizes.len()].max(1) };
            i += 1;
            let end = (total + sz).min(data.len());
            match w.write(&data[total..end]) {
                Ok(0) => {
                    stalls += 1;
                    if stalls > 3 {
                        status = "stall";
                        break;
                    }
                }
                Ok(n) => {
                    total += n;
                    stalls = 0;
                }
                Err(_) => {
                    status = "err";
                    break;
                }
            }
        }
    }
    format!("{} {} {}", status, hx(&sink.got), total)
}
