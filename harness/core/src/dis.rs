//! Disassembler driven by a schedule of writes and polls (C04), and the
//! listing round trip (C03).
use crate::{hx, unhex};
use etk_asm::disasm::Disassembler;
use etk_asm::ingest::Ingest;
use etk_ops::cancun::{Op, Operation};
use std::io::Write;

pub fn op_bytes(op: &Op<[u8]>) -> Vec<u8> {
    let mut v = vec![op.code_byte()];
    if let Some(i) = op.immediate() {
        v.extend_from_slice(i);
    }
    v
}

/// `dis <hex> <sched>`; sched = comma separated `wN` (write next N bytes),
/// `pK` (poll at most K instructions), `pa` (poll until None).  `finish` is
/// implicit at the end.
pub fn run(args: &[&str]) -> String {
    let bytes = unhex(args[0]);
    let sched = args.get(1).copied().unwrap_or("");
    let mut d = Disassembler::new();
    let mut pos = 0usize;
    let mut out = String::new();
    for tok in sched.split(',').filter(|t| !t.is_empty()) {
        let (k, rest) = tok.split_at(1);
        match k {
            "w" => {
                let n: usize = rest.parse().unwrap();
                let end = (pos + n).min(bytes.len());
                let wrote = d.write(&bytes[pos..end]).unwrap();
                out.push_str(&format!("w{} ", wrote));
                pos = end;
            }
            "p" => {
                let max = if rest == "a" { usize::MAX } else { rest.parse().unwrap() };
                let mut got = Vec::new();
                let mut it = d.ops();
                while got.len() < max {
                    match it.next() {
                        Some(o) => got.push(format!("{}:{}", o.offset, hx(&op_bytes(&o.item)))),
                        None => break,
                    }
                }
                out.push_str(&format!("p[{}] ", got.join(";")));
            }
            _ => return "bad-op".into(),
        }
    }
    match d.finish() {
        Ok(()) => out.push_str("fin=ok"),
        Err(etk_asm::disasm::Error::Truncated { remaining, .. }) => {
            out.push_str(&format!("fin=trunc:{}:{}", remaining.offset, hx(&remaining.item)))
        }
        #[allow(unreachable_patterns)]
        Err(_) => out.push_str("fin=other"),
    }
    out
}

/// `lst <hex> [<piece sizes>|- [<pull>]]`: disassemble, print the listing `mnemonic[ 0ximm]` per line,
/// assemble that text with the real assembler, reply with listing offsets and
/// the re-assembled bytes.
pub fn run_listing(args: &[&str]) -> String {
    let bytes = unhex(args[0]);
    // optional second argument: sizes of the pieces the input is written in (dot separated); the listing is
    // collected after every write, as a streaming client would
    let mut sizes: Vec<usize> = match args.get(1) {
        Some(s) if *s != "-" => s.split('.').filter_map(|x| x.parse().ok()).collect(),
        _ => vec![],
    };
    sizes.push(usize::MAX);
    let mut d = Disassembler::new();
    let mut text = String::new();
    let mut offs = Vec::new();
    let mut rest: &[u8] = &bytes;
    for sz in sizes {
        let n = sz.min(rest.len());
        d.write_all(&rest[..n]).unwrap();
        rest = &rest[n..];
        // optional third argument: how many instructions the client takes from one `ops()` iterator before dropping
        // it and asking for a new one (0 = until it runs dry)
        let pull: usize = args.get(2).and_then(|x| x.parse().ok()).unwrap_or(0);
        loop {
            let mut got = 0usize;
            let it = d.ops();
            let taken: Vec<_> = if pull == 0 { it.collect() } else { it.take(pull).collect() };
            for o in taken {
                got += 1;
                offs.push(o.offset.to_string());
                text.push_str(&o.item.code().to_string());
                if let Some(i) = o.item.immediate() {
                    text.push_str(" 0x");
                    text.push_str(&hex::encode(i));
                }
                text.push('\n');
            }
            if pull == 0 || got == 0 {
                break;
            }
        }
        if rest.is_empty() {
            break;
        }
    }
    let fin = d.finish().is_ok();
    let mut outv = Vec::new();
    let mut ing = Ingest::new(&mut outv);
    let r = ing.ingest("./root.etk", &text);
    match r {
        Ok(()) => format!("offs={} fin={} asm=ok {}", offs.join(","), fin as u8, hx(&outv)),
        Err(e) => format!("offs={} fin={} asm=err {}", offs.join(","), fin as u8, crate::asm::classify(&e)),
    }
}
