//! Basic-block separator driven by a schedule (C16).
use crate::dis::op_bytes;
use crate::{hx, unhex};
use etk_asm::disasm::Disassembler;
use etk_dasm::blocks::basic::{BasicBlock, Separator};
use std::io::Write;

fn show(b: &BasicBlock) -> String {
    let ops: Vec<String> = b.ops.iter().map(|o| hx(&op_bytes(o))).collect();
    format!("{}:{}:{}", b.offset, b.size(), ops.join("."))
}

/// `sep <hex> <sched>`; the complete instructions of the byte string are fed
/// according to sched = comma separated `uN` (N single pushes), `aN`
/// (push_all of N), `t` (take), `f` (finish).
pub fn run(args: &[&str]) -> String {
    let bytes = unhex(args[0]);
    let sched = args.get(1).copied().unwrap_or("");
    let mut d = Disassembler::new();
    d.write_all(&bytes).unwrap();
    let mut ops: std::collections::VecDeque<_> = d.ops().collect();
    let mut s = Separator::new();
    let mut out = Vec::new();
    for tok in sched.split(',').filter(|t| !t.is_empty()) {
        let (k, rest) = tok.split_at(1);
        match k {
            "u" => {
                let n: usize = rest.parse().unwrap();
                let mut r = String::from("u:");
                for _ in 0..n {
                    if let Some(o) = ops.pop_front() {
                        r.push(if s.push(o) { '1' } else { '0' });
                    }
                }
                out.push(r);
            }
            "a" => {
                let n: usize = rest.parse().unwrap();
                let n = n.min(ops.len());
                let batch: Vec<_> = ops.drain(..n).collect();
                out.push(format!("a:{}", s.push_all(batch) as u8));
            }
            "t" => {
                let bs: Vec<String> = s.take().iter().map(show).collect();
                out.push(format!("t:[{}]", bs.join("|")));
            }
            "f" => match s.finish() {
                Some(b) => out.push(format!("f:{}", show(&b))),
                None => out.push("f:none".into()),
            },
            _ => return "bad-op".into(),
        }
    }
    out.join(" ")
}
