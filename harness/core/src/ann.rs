//! Block annotator observed through the public API (C06, C15).
use crate::unhex;
use etk_asm::disasm::Disassembler;
use etk_dasm::blocks::annotated::{AnnotatedBlock, Exit};
use etk_dasm::blocks::basic::BasicBlock;
use etk_dasm::sym::{Expr, Sym, Visit};
use std::io::Write;

pub fn sym_name(s: &Sym) -> String {
    match s {
        Sym::Const(v) => {
            let h = hex::encode(**v);
            let t = h.trim_start_matches('0');
            format!("c{}", if t.is_empty() { "0" } else { t })
        }
        Sym::Var(v) => format!("v{}", &v.to_string()[3..]),
        Sym::GetPc(p) => format!("pc{}", p),
        other => format!("{:?}", other).to_lowercase(),
    }
}

struct Flat(Vec<String>);
impl Visit for Flat {
    type Error = std::convert::Infallible;
    fn enter(&mut self, s: &Sym) -> Result<(), Self::Error> {
        self.0.push(sym_name(s));
        Ok(())
    }
}

pub fn show_expr(e: &Expr) -> String {
    let mut f = Flat(vec![]);
    e.walk(&mut f).unwrap();
    f.0.join(".")
}

pub fn show_exit(e: &Exit) -> String {
    match e {
        Exit::Terminate => "term".into(),
        Exit::FallThrough(p) => format!("fall:{}", p),
        Exit::Unconditional(d) => format!("jump:{}", show_expr(d)),
        Exit::Branch { condition, when_true, when_false } => {
            format!("branch:{}:{}:{}", show_expr(condition), show_expr(when_true), when_false)
        }
    }
}

pub fn show_block(a: &AnnotatedBlock) -> String {
    let ins: Vec<String> = a.inputs.stack.iter().map(|v| v.to_string()[3..].to_string()).collect();
    let outs: Vec<String> = a.outputs.stack.iter().map(show_expr).collect();
    format!(
        "off={} size={} jt={} in=[{}] out=[{}] exit={}",
        a.offset,
        a.size,
        a.jump_target as u8,
        ins.join(","),
        outs.join("|"),
        show_exit(&a.exit)
    )
}

/// `ann <offset> <hex>`: all complete instructions of the byte string as ONE
/// basic block (whether or not a separator would have split it) at `offset`.
pub fn run(args: &[&str]) -> String {
    let offset: usize = args[0].parse().unwrap();
    let bytes = unhex(args[1]);
    let mut d = Disassembler::new();
    d.write_all(&bytes).unwrap();
    let ops: Vec<_> = d.ops().map(|o| o.item).collect();
    if ops.is_empty() {
        return "empty".into();
    }
    let b = BasicBlock { offset, ops };
    let a = AnnotatedBlock::annotate(&b);
    show_block(&a)
}
