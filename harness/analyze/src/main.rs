//! `etk-ha`: harness around etk-analyze (links z3).  Same line protocol as `etk-h`.
use etk_analyze::cfg::ControlFlowGraph;
use etk_asm::disasm::Disassembler;
use etk_dasm::blocks::annotated::{AnnotatedBlock, Exit};
use etk_dasm::blocks::basic::{BasicBlock, Separator};
use std::io::{BufRead, Write};
use std::panic;

fn unhex(s: &str) -> Vec<u8> {
    if s == "-" {
        return Vec::new();
    }
    hex::decode(s).expect("bad hex in request")
}

fn blocks_of(bytes: &[u8]) -> Vec<BasicBlock> {
    let mut d = Disassembler::new();
    d.write_all(bytes).unwrap();
    let mut sep = Separator::new();
    sep.push_all(d.ops());
    sep.take().into_iter().chain(sep.finish()).collect()
}

/// canonical form of petgraph's DOT output: node labels in index order, then the
/// sorted list of edges by label
fn canon_dot(dot: &str) -> String {
    let mut labels: Vec<String> = Vec::new();
    let mut edges: Vec<(usize, usize)> = Vec::new();
    let mut bad = false;
    for line in dot.lines() {
        let l = line.trim();
        if l.is_empty() || l == "digraph {" || l == "}" {
            continue;
        }
        if let Some(p) = l.find(" -> ") {
            let a: usize = l[..p].trim().parse().unwrap_or(usize::MAX);
            let rest = &l[p + 4..];
            let b: usize = rest.split(' ').next().unwrap().trim().parse().unwrap_or(usize::MAX);
            if !rest.contains("label = \"\"") {
                bad = true;
            }
            edges.push((a, b));
        } else if let Some(p) = l.find(" [ label = \"") {
            let idx: usize = l[..p].trim().parse().unwrap_or(usize::MAX);
            let lab = &l[p + 12..];
            let lab = &lab[..lab.rfind('"').unwrap_or(0)];
            if idx != labels.len() {
                bad = true;
            }
            labels.push(lab.replace(' ', "_"));
        } else {
            bad = true;
        }
    }
    let mut es: Vec<String> = edges
        .iter()
        .map(|(a, b)| {
            format!(
                "{}>{}",
                labels.get(*a).cloned().unwrap_or_else(|| "?".into()),
                labels.get(*b).cloned().unwrap_or_else(|| "?".into())
            )
        })
        .collect();
    es.sort();
    format!("{}nodes=[{}] edges=[{}]", if bad { "MALFORMED " } else { "" }, labels.join(","), es.join(","))
}

/// `cfg <hex>`: disassemble, separate, annotate, build, render; refine, render.
fn cmd_cfg(args: &[&str]) -> String {
    let bytes = unhex(args[0]);
    let blocks = blocks_of(&bytes);
    let ann = blocks.iter().map(AnnotatedBlock::annotate);
    let mut cfg = ControlFlowGraph::new(ann);
    let before = canon_dot(&cfg.render().to_string());
    cfg.refine_shallow();
    let after = canon_dot(&cfg.render().to_string());
    format!("init {} refined {}", before, after)
}

#[cfg(feature = "hooks")]
fn smt(e: &etk_dasm::sym::Expr) -> String {
    etk_analyze::verif::expr_to_smt(e).split_whitespace().collect::<Vec<_>>().join(" ")
}
#[cfg(not(feature = "hooks"))]
fn smt(_e: &etk_dasm::sym::Expr) -> String {
    "no-hooks".into()
}

/// `smt <offset> <hex>`: the byte string as ONE block; SMT-LIB text of the terms
/// built for its exit expressions (jump target; condition and target of a branch)
/// and for every output stack expression.
fn cmd_smt(args: &[&str]) -> String {
    let offset: usize = args[0].parse().unwrap();
    let bytes = unhex(args[1]);
    let mut d = Disassembler::new();
    d.write_all(&bytes).unwrap();
    let ops: Vec<_> = d.ops().map(|o| o.item).collect();
    if ops.is_empty() {
        return "empty".into();
    }
    let a = AnnotatedBlock::annotate(&BasicBlock { offset, ops });
    let mut out = Vec::new();
    match &a.exit {
        Exit::Unconditional(e) => out.push(format!("jump {}", smt(e))),
        Exit::Branch { condition, when_true, .. } => {
            out.push(format!("cond {}", smt(condition)));
            out.push(format!("dest {}", smt(when_true)));
        }
        _ => {}
    }
    for e in a.outputs.stack.iter() {
        out.push(format!("out {}", smt(e)));
    }
    out.join(" ; ")
}

fn dispatch(line: &str) -> String {
    let mut it = line.split(' ');
    let cmd = it.next().unwrap_or("");
    let args: Vec<&str> = it.collect();
    match cmd {
        "cfg" => cmd_cfg(&args),
        "smt" => cmd_smt(&args),
        _ => format!("bad-op {}", cmd),
    }
}

fn main() {
    // Solver time limit per query: a query that runs into it answers `unknown`, which
    // keeps the edge (refine_shallow only drops edges on `unsat`).
    let ms = std::env::var("ETK_Z3_TIMEOUT_MS").unwrap_or_else(|_| "700".to_string());
    unsafe {
        let k = std::ffi::CString::new("timeout").unwrap();
        let v = std::ffi::CString::new(ms).unwrap();
        z3_sys::Z3_global_param_set(k.as_ptr(), v.as_ptr());
    }
    panic::set_hook(Box::new(|_| {}));
    let stdin = std::io::stdin();
    let stdout = std::io::stdout();
    let mut out = std::io::BufWriter::new(stdout.lock());
    for line in stdin.lock().lines() {
        let line = line.unwrap();
        let l = line.trim_end().to_string();
        if l.is_empty() {
            continue;
        }
        let r = panic::catch_unwind(|| dispatch(&l));
        let reply = match r {
            Ok(s) => s,
            Err(_) => "panic".to_string(),
        };
        writeln!(out, "{}", reply).unwrap();
        out.flush().unwrap();
    }
}
