fn main() {}
