/-
Model of `etk_asm::disasm::{Disassembler, Iter}` and the linear-sweep
specification it is compared with.
Bytes are `Nat`s (< 256 by construction of the inputs); an instruction is the
list of its bytes (opcode byte followed by the immediate).
-/
import EtkVerif.Ops.Model
namespace EtkVerif
namespace Disasm
open Ops

/-- `Disassembler { buffer, offset }`. -/
structure Dis where
  buffer : List Nat := []
  offset : Nat := 0
  deriving Repr, DecidableEq

/-- A decoded `Op<[u8]>`: opcode byte and immediate bytes. -/
structure Instr where
  op : Nat
  imm : List Nat
  deriving Repr, DecidableEq, Inhabited

def Instr.bytes (i : Instr) : List Nat := i.op :: i.imm
def Instr.len (i : Instr) : Nat := 1 + i.imm.length

/-- An emitted `Offset<Op<[u8]>>`. -/
abbrev Item := Nat × Instr

inductive Next
  | item (i : Item)
  | none
  | panic            -- `from_slice` indexing an empty slice (only if a table row had size 0)
  deriving Repr, DecidableEq

/-- `impl Write for Disassembler`: append, report everything written. -/
def write (d : Dis) (bs : List Nat) : Dis × Nat := ({ d with buffer := d.buffer ++ bs }, bs.length)

/-- `Iter::next`.  The instruction's bytes are split off the buffer *before*
`Op::from_slice(..).ok()?`, so a failing `from_slice` would lose them; with a
consistent table (`size = 1 + extra`) that branch is dead (`next_ok_of_size`). -/
def next (t : OpTable) (d : Dis) : Next × Dis :=
  match d.buffer with
  | [] => (.none, d)
  | front :: tl =>
    let len := sizeOf t front
    if d.buffer.length < len then (.none, d)
    else
      let instr := d.buffer.take len
      let rest := d.buffer.drop len
      match fromSlice t instr with
      | .ok _ _ => (.item (d.offset, ⟨front, tl.take (len - 1)⟩), { buffer := rest, offset := d.offset + len })
      | .panic => (.panic, { d with buffer := rest })
      | _ => (.none, { d with buffer := rest })

inductive Finish
  | ok
  | truncated (offset : Nat) (remaining : List Nat)
  deriving Repr, DecidableEq

/-- `Disassembler::finish`. -/
def finish (d : Dis) : Finish := if d.buffer.isEmpty then .ok else .truncated d.offset d.buffer

/-! ### Specification: linear sweep over a whole byte string -/

/-- Immediate length of opcode byte `b` according to the table. -/
def immLen (t : OpTable) (b : Nat) : Nat := (rowOf t b).extra

/-- Linear sweep from offset `off`: the complete instructions with their
offsets, then the offset and bytes of the incomplete tail (empty if none).
Structural in the fuel, which `decodeAll` sets to the length. -/
def sweep (t : OpTable) : Nat → Nat → List Nat → List Item × (Nat × List Nat)
  | 0, off, bs => ([], (off, bs))
  | _ + 1, off, [] => ([], (off, []))
  | fuel + 1, off, b :: rest =>
    let n := immLen t b
    if rest.length < n then ([], (off, b :: rest))
    else
      let (items, tail) := sweep t fuel (off + 1 + n) (rest.drop n)
      ((off, ⟨b, rest.take n⟩) :: items, tail)

def decodeAll (t : OpTable) (bs : List Nat) : List Item × (Nat × List Nat) := sweep t bs.length 0 bs

/-! ### Histories -/

inductive Ev
  | write (bs : List Nat)
  | poll                    -- one call of `ops().next()`
  deriving Repr, DecidableEq

/-- Observable trace of a history: items emitted, in order; and whether a panic happened. -/
structure Run where
  dis : Dis := {}
  emitted : List Item := []
  written : List Nat := []
  panicked : Bool := false
  deriving Repr

def step (t : OpTable) (r : Run) : Ev → Run
  | .write bs => { r with dis := (write r.dis bs).1, written := r.written ++ bs }
  | .poll =>
    match next t r.dis with
    | (.item i, d) => { r with dis := d, emitted := r.emitted ++ [i] }
    | (.none, d) => { r with dis := d }
    | (.panic, d) => { r with dis := d, panicked := true }

def run (t : OpTable) (h : List Ev) : Run := h.foldl (step t) {}

/-- The table gives every byte value a size of one plus its immediate length
(a consequence of C17 for each generated table, see `sizeOK_of_tableOK`). -/
def SizeOK (t : OpTable) : Prop := ∀ b < 256, sizeOf t b = 1 + immLen t b

/-- Every byte written is a byte. -/
def BytesOK (h : List Ev) : Prop := ∀ e ∈ h, ∀ bs, e = Ev.write bs → ∀ b ∈ bs, b < 256

/-- Offsets of items are prefix sums of encoded lengths, starting at `off`. -/
def OffsetsFrom : Nat → List Item → Prop
  | _, [] => True
  | off, (o, i) :: rest => o = off ∧ OffsetsFrom (off + i.len) rest

/-- Bytes of a list of items, concatenated. -/
def bytesOf (is : List Item) : List Nat := is.flatMap (·.2.bytes)

end Disasm
end EtkVerif
