/-
Lemmas about the disassembler model: the history invariant (T-dis).
-/
import EtkVerif.Disasm.Model
import EtkVerif.Ops.Lemmas
import EtkVerif.Ops.TableCancun
namespace EtkVerif
namespace Disasm
open Ops

theorem sizeOK_of_tableOK {f : Fork} {t : OpTable} (h : tableOK f t = true) : SizeOK t := by
  intro b hb
  have := tableOK_row h hb
  simp only [rowOK, Bool.and_eq_true, beq_iff_eq] at this
  exact this.1.1.1.1.2

/-! ### `sweep`: fuel and decomposition -/

theorem sweep_nil (t : OpTable) (fuel off : Nat) : sweep t fuel off [] = ([], (off, [])) := by
  cases fuel <;> rfl

/-- Any two fuels that cover the input give the same sweep. -/
theorem sweep_fuel (t : OpTable) : ∀ (f₁ f₂ off : Nat) (bs : List Nat),
    bs.length ≤ f₁ → bs.length ≤ f₂ → sweep t f₁ off bs = sweep t f₂ off bs := by
  intro f₁
  induction f₁ with
  | zero =>
    intro f₂ off bs h₁ _
    have : bs = [] := List.eq_nil_of_length_eq_zero (by omega)
    subst this
    rw [sweep_nil, sweep_nil]
  | succ f₁ ih =>
    intro f₂ off bs h₁ h₂
    cases bs with
    | nil => rw [sweep_nil, sweep_nil]
    | cons b rest =>
      cases f₂ with
      | zero => simp at h₂
      | succ f₂ =>
        simp only [List.length_cons] at h₁ h₂
        simp only [sweep]
        split
        · rfl
        · have hd : (rest.drop (immLen t b)).length ≤ rest.length := by
            rw [List.length_drop]; omega
          rw [ih f₂ _ _ (by omega) (by omega)]

theorem bytesOf_nil : bytesOf [] = [] := rfl

theorem bytesOf_cons (it : Item) (is : List Item) :
    bytesOf (it :: is) = it.2.op :: (it.2.imm ++ bytesOf is) := by
  simp [bytesOf, Instr.bytes]

theorem bytesOf_append (xs ys : List Item) : bytesOf (xs ++ ys) = bytesOf xs ++ bytesOf ys := by
  simp [bytesOf]

theorem bytesOf_singleton (it : Item) : bytesOf [it] = it.2.op :: it.2.imm := by
  simp [bytesOf, Instr.bytes]

/-- Sweeping the encoding of well-formed, chained items followed by `rest`
emits exactly those items and continues with `rest`. -/
theorem sweep_items (t : OpTable) : ∀ (items : List Item) (off fuel : Nat) (rest : List Nat),
    OffsetsFrom off items →
    (∀ it ∈ items, immLen t it.2.op = it.2.imm.length) →
    (bytesOf items ++ rest).length ≤ fuel →
    sweep t fuel off (bytesOf items ++ rest) =
      (items ++ (sweep t rest.length (off + (bytesOf items).length) rest).1,
       (sweep t rest.length (off + (bytesOf items).length) rest).2) := by
  intro items
  induction items with
  | nil =>
    intro off fuel rest _ _ hf
    simp only [bytesOf_nil, List.nil_append, List.length_nil, Nat.add_zero] at hf ⊢
    rw [sweep_fuel t fuel rest.length off rest hf (Nat.le_refl _)]
  | cons it items ih =>
    intro off fuel rest ho hw hf
    obtain ⟨o, i⟩ := it
    obtain ⟨hoff, ho'⟩ := ho
    subst hoff
    have hwi : immLen t i.op = i.imm.length := hw (o, i) (List.mem_cons_self ..)
    have hw' : ∀ it ∈ items, immLen t it.2.op = it.2.imm.length :=
      fun it h => hw it (List.mem_cons_of_mem _ h)
    rw [bytesOf_cons] at hf ⊢
    simp only [List.cons_append, List.append_assoc, List.length_cons, List.length_append] at hf ⊢
    cases fuel with
    | zero => omega
    | succ fuel =>
      simp only [sweep, hwi]
      have hlt : ¬ (i.imm ++ (bytesOf items ++ rest)).length < i.imm.length := by
        simp only [List.length_append]; omega
      rw [if_neg hlt]
      have htake : (i.imm ++ (bytesOf items ++ rest)).take i.imm.length = i.imm :=
        List.take_left' rfl
      have hdrop : (i.imm ++ (bytesOf items ++ rest)).drop i.imm.length = bytesOf items ++ rest :=
        List.drop_left' rfl
      rw [htake, hdrop]
      have hlen : (bytesOf items ++ rest).length ≤ fuel := by
        simp only [List.length_append]; omega
      have ho'' : OffsetsFrom (o + 1 + i.imm.length) items := by
        have : o + i.len = o + 1 + i.imm.length := by simp [Instr.len, Nat.add_assoc]
        rw [← this]; exact ho'
      rw [ih (o + 1 + i.imm.length) fuel rest ho'' hw' hlen]
      have e : o + 1 + i.imm.length + (bytesOf items).length
             = o + (i.imm.length + (bytesOf items).length + 1) := by omega
      rw [e]

/-! ### One call of `next` -/

theorem next_nil (t : OpTable) (off : Nat) : next t ⟨[], off⟩ = (.none, ⟨[], off⟩) := rfl

theorem next_short (t : OpTable) (hs : SizeOK t) (front : Nat) (tl : List Nat) (off : Nat)
    (hf : front < 256) (hl : tl.length < immLen t front) :
    next t ⟨front :: tl, off⟩ = (.none, ⟨front :: tl, off⟩) := by
  have hsz := hs front hf
  simp only [next, hsz, List.length_cons]
  rw [if_pos (by omega)]

theorem next_item (t : OpTable) (hs : SizeOK t) (front : Nat) (tl : List Nat) (off : Nat)
    (hf : front < 256) (hl : immLen t front ≤ tl.length) :
    next t ⟨front :: tl, off⟩ =
      (.item (off, ⟨front, tl.take (immLen t front)⟩),
       ⟨tl.drop (immLen t front), off + (1 + immLen t front)⟩) := by
  have hsz : sizeOf t front = immLen t front + 1 := by rw [hs front hf, Nat.add_comm]
  have hok : ∃ s c, fromSlice t (front :: tl.take (immLen t front)) = .ok s c := by
    rw [fromSlice_ok_iff, List.length_take]
    exact Nat.min_eq_left hl
  obtain ⟨s, c, hsc⟩ := hok
  simp only [next, hsz, List.length_cons, List.take_succ_cons, List.drop_succ_cons,
    Nat.add_sub_cancel]
  rw [if_neg (by omega)]
  simp only [hsc]
  rw [Nat.add_comm 1]

/-! ### The history invariant -/

theorem offsetsFrom_snoc : ∀ (items : List Item) (off : Nat) (it : Item),
    OffsetsFrom off items → it.1 = off + (bytesOf items).length →
    OffsetsFrom off (items ++ [it]) := by
  intro items
  induction items with
  | nil =>
    intro off it _ h
    obtain ⟨o, i⟩ := it
    exact ⟨by simpa [bytesOf] using h, trivial⟩
  | cons x items ih =>
    intro off it ho h
    obtain ⟨o, i⟩ := x
    obtain ⟨h₁, h₂⟩ := ho
    refine ⟨h₁, ih _ it h₂ ?_⟩
    rw [h, bytesOf_cons]
    simp only [List.length_cons, List.length_append, Instr.len]
    omega

structure Inv (t : OpTable) (r : Run) : Prop where
  np : r.panicked = false
  bytes : bytesOf r.emitted ++ r.dis.buffer = r.written
  off : r.dis.offset = (bytesOf r.emitted).length
  offs : OffsetsFrom 0 r.emitted
  wf : ∀ it ∈ r.emitted, immLen t it.2.op = it.2.imm.length
  lt : ∀ b ∈ r.dis.buffer, b < 256

theorem inv_init (t : OpTable) : Inv t {} :=
  ⟨rfl, rfl, rfl, trivial, fun _ h => (by cases h), fun _ h => (by cases h)⟩

theorem inv_step (t : OpTable) (hs : SizeOK t) (r : Run) (e : Ev)
    (he : ∀ bs, e = Ev.write bs → ∀ b ∈ bs, b < 256) (hi : Inv t r) : Inv t (step t r e) := by
  obtain ⟨np, bytes, off, offs, wf, lt⟩ := hi
  cases e with
  | write bs =>
    refine ⟨np, ?_, off, offs, wf, ?_⟩
    · show bytesOf r.emitted ++ (r.dis.buffer ++ bs) = r.written ++ bs
      rw [← List.append_assoc, bytes]
    · intro b hb
      have hb' : b ∈ r.dis.buffer ++ bs := hb
      rcases List.mem_append.mp hb' with h | h
      · exact lt b h
      · exact he bs rfl b h
  | poll =>
    obtain ⟨d, emitted, written, panicked⟩ := r
    obtain ⟨buffer, offset⟩ := d
    simp only at np bytes off offs wf lt
    cases buffer with
    | nil =>
      simp only [step, next_nil]
      exact ⟨np, bytes, off, offs, wf, lt⟩
    | cons front tl =>
      have hf : front < 256 := lt front (List.mem_cons_self ..)
      by_cases hl : tl.length < immLen t front
      · simp only [step, next_short t hs front tl offset hf hl]
        exact ⟨np, bytes, off, offs, wf, lt⟩
      · have hl' : immLen t front ≤ tl.length := Nat.le_of_not_lt hl
        simp only [step, next_item t hs front tl offset hf hl']
        refine ⟨np, ?_, ?_, ?_, ?_, ?_⟩
        · show bytesOf (emitted ++ [(offset, ⟨front, tl.take (immLen t front)⟩)])
              ++ tl.drop (immLen t front) = written
          rw [bytesOf_append, bytesOf_singleton, ← bytes]
          simp only [List.append_assoc, List.cons_append, List.take_append_drop]
        · show offset + (1 + immLen t front)
              = (bytesOf (emitted ++ [(offset, ⟨front, tl.take (immLen t front)⟩)])).length
          rw [bytesOf_append, bytesOf_singleton]
          simp only [List.length_append, List.length_cons, List.length_take, off]
          rw [Nat.min_eq_left hl']
          omega
        · exact offsetsFrom_snoc _ _ _ offs (by simpa using off)
        · intro it hit
          rcases List.mem_append.mp hit with h | h
          · exact wf it h
          · rw [List.mem_singleton] at h
            subst h
            simp only [List.length_take]
            exact (Nat.min_eq_left hl').symm
        · intro b hb
          exact lt b (List.mem_cons_of_mem _ (List.mem_of_mem_drop hb))

theorem inv_foldl (t : OpTable) (hs : SizeOK t) : ∀ (h : List Ev) (r : Run),
    BytesOK h → Inv t r → Inv t (h.foldl (step t) r) := by
  intro h
  induction h with
  | nil => intro r _ hi; exact hi
  | cons e h ih =>
    intro r hb hi
    rw [List.foldl_cons]
    apply ih
    · intro e' he'; exact hb e' (List.mem_cons_of_mem _ he')
    · exact inv_step t hs r e (hb e (List.mem_cons_self ..)) hi

theorem inv_run (t : OpTable) (hs : SizeOK t) (h : List Ev) (hb : BytesOK h) : Inv t (run t h) :=
  inv_foldl t hs h {} hb (inv_init t)

/-- What the invariant says about `decodeAll` of everything written. -/
theorem inv_decodeAll (t : OpTable) (r : Run) (hi : Inv t r) :
    decodeAll t r.written =
      (r.emitted ++ (sweep t r.dis.buffer.length r.dis.offset r.dis.buffer).1,
       (sweep t r.dis.buffer.length r.dis.offset r.dis.buffer).2) := by
  unfold decodeAll
  rw [← hi.bytes, sweep_items t r.emitted 0 _ r.dis.buffer hi.offs hi.wf (Nat.le_refl _),
    Nat.zero_add, ← hi.off]

theorem run_invariant (t : OpTable) (hs : SizeOK t) (h : List Ev) (hb : BytesOK h) :
    let r := run t h
    r.panicked = false ∧
    bytesOf r.emitted ++ r.dis.buffer = r.written ∧
    r.dis.offset = (bytesOf r.emitted).length ∧
    OffsetsFrom 0 r.emitted ∧
    (decodeAll t r.written).1 = r.emitted ++ (sweep t r.dis.buffer.length r.dis.offset r.dis.buffer).1 ∧
    (decodeAll t r.written).2 = (sweep t r.dis.buffer.length r.dis.offset r.dis.buffer).2 := by
  intro r
  have hi : Inv t r := inv_run t hs h hb
  have hd := inv_decodeAll t r hi
  exact ⟨hi.np, hi.bytes, hi.off, hi.offs, by rw [hd], by rw [hd]⟩

theorem run_exhausted (t : OpTable) (hs : SizeOK t) (h : List Ev) (hb : BytesOK h)
    (hex : (next t (run t h).dis).1 = Next.none) :
    let r := run t h
    r.emitted = (decodeAll t r.written).1 ∧
    (r.dis.offset, r.dis.buffer) = (decodeAll t r.written).2 ∧
    finish r.dis = (if (decodeAll t r.written).2.2 = [] then Finish.ok
                    else Finish.truncated (decodeAll t r.written).2.1 (decodeAll t r.written).2.2) := by
  intro r
  have hi : Inv t r := inv_run t hs h hb
  have hd := inv_decodeAll t r hi
  have hex' : (next t r.dis).1 = Next.none := hex
  -- the sweep of the buffer emits nothing and leaves the buffer as the tail
  have key : sweep t r.dis.buffer.length r.dis.offset r.dis.buffer
      = ([], (r.dis.offset, r.dis.buffer)) := by
    have hlt := hi.lt
    generalize r.dis = d at hex' hlt
    obtain ⟨buffer, offset⟩ := d
    cases buffer with
    | nil => rfl
    | cons front tl =>
      have hf : front < 256 := hlt front (List.mem_cons_self ..)
      by_cases hl : tl.length < immLen t front
      · simp only [List.length_cons, sweep]
        rw [if_pos hl]
      · rw [next_item t hs front tl offset hf (Nat.le_of_not_lt hl)] at hex'
        cases hex'
  rw [key] at hd
  rw [hd]
  simp only [List.append_nil]
  refine ⟨trivial, trivial, ?_⟩
  unfold finish
  cases hbuf : r.dis.buffer with
  | nil => simp
  | cons a l => simp

/-- One event only ever appends to what has been emitted and written. -/
theorem step_extends (t : OpTable) (r : Run) (e : Ev) :
    r.emitted <+: (step t r e).emitted ∧ r.written <+: (step t r e).written := by
  cases e with
  | write bs => simp [step]
  | poll =>
    simp only [step]
    split <;> simp

theorem foldl_extends (t : OpTable) : ∀ (h : List Ev) (r : Run),
    r.emitted <+: (h.foldl (step t) r).emitted ∧ r.written <+: (h.foldl (step t) r).written
  | [], r => ⟨List.prefix_refl _, List.prefix_refl _⟩
  | e :: h, r => by
    have a := step_extends t r e
    have b := foldl_extends t h (step t r e)
    exact ⟨a.1.trans b.1, a.2.trans b.2⟩

/-- The bytes of the write events of a history, in order. -/
def writesOf (h : List Ev) : List Nat := h.flatMap (fun e => match e with | .write bs => bs | .poll => [])

theorem foldl_written (t : OpTable) : ∀ (h : List Ev) (r : Run),
    (h.foldl (step t) r).written = r.written ++ writesOf h
  | [], r => by simp [writesOf]
  | e :: h, r => by
    rw [List.foldl_cons, foldl_written t h (step t r e)]
    cases e with
    | write bs => simp [step, writesOf]
    | poll =>
      have : (step t r .poll).written = r.written := by
        simp only [step]; split <;> rfl
      rw [this]; simp [writesOf]
