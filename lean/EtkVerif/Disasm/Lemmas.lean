/-
Lemmas about the disassembler model: the history invariant (T-dis).
-/
import EtkVerif.Disasm.Model
import EtkVerif.Ops.Lemmas
import EtkVerif.Ops.TableCancun
namespace EtkVerif
namespace Disasm
open Ops

theorem sizeOK_of_tableOK {f : Fork} {t : OpTable} (h : tableOK f t = true) : SizeOK t := by
  intro b hb
  have := tableOK_row h hb
  simp only [rowOK, Bool.and_eq_true, beq_iff_eq] at this
  exact this.1.1.1.1.2

theorem run_invariant (t : OpTable) (hs : SizeOK t) (h : List Ev) (hb : BytesOK h) :
    let r := run t h
    r.panicked = false ∧
    bytesOf r.emitted ++ r.dis.buffer = r.written ∧
    r.dis.offset = (bytesOf r.emitted).length ∧
    OffsetsFrom 0 r.emitted ∧
    (decodeAll t r.written).1 = r.emitted ++ (sweep t r.dis.buffer.length r.dis.offset r.dis.buffer).1 ∧
    (decodeAll t r.written).2 = (sweep t r.dis.buffer.length r.dis.offset r.dis.buffer).2 := by
  sorry

theorem run_exhausted (t : OpTable) (hs : SizeOK t) (h : List Ev) (hb : BytesOK h)
    (hex : (next t (run t h).dis).1 = Next.none) :
    let r := run t h
    r.emitted = (decodeAll t r.written).1 ∧
    (r.dis.offset, r.dis.buffer) = (decodeAll t r.written).2 ∧
    finish r.dis = (if (decodeAll t r.written).2.2 = [] then Finish.ok
                    else Finish.truncated (decodeAll t r.written).2.1 (decodeAll t r.written).2.2) := by
  sorry

end Disasm
end EtkVerif
