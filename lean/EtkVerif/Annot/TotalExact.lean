/-
Exact totality of the annotator (sharpening of `annotate_total`, part of C15).

`annotate_total` assumes `popBudget t b.ops ≤ 65535`, the SUM of the declared pops.
The `u16` variable counter however only grows when an instruction reaches below
what the block has produced so far: it counts the block's inputs.  `inputsNeeded`
computes that number from the table alone (abstract stack-height bookkeeping), and

* `annotate_total_exact`   : `inputsNeeded t b.ops ≤ 65535` → accepted
                              (`annotate_total_exact_inputs`: with
                              `a.inputs = inputsNeeded t b.ops`);
* `annotate_refused_exact` : `65535 < inputsNeeded t b.ops` → `.error .varOverflow`;
* `annotate_ok_iff`        : accepted ↔ `inputsNeeded t b.ops ≤ 65535`;
* `inputsNeeded_le_popBudget` : the old hypothesis implies the new one.
-/
import EtkVerif.Annot.Total
namespace EtkVerif
namespace Annot
open Ops

/-- Abstract stack-height bookkeeping: `h` = words the block has on its own stack
(produced and not yet consumed), `need` = input variables taken so far.  An
instruction with `p` pops and `q` pushes takes `p - h` more inputs when `p > h`
(truncated subtraction covers both cases), then leaves `(h - p) + q` words. -/
def inputsAcc (t : OpTable) : List Disasm.Instr → Nat → Nat → Nat
  | [], _, need => need
  | i :: rest, h, need =>
    inputsAcc t rest ((h - (rowOf t i.op).pops) + (rowOf t i.op).pushes)
      (need + ((rowOf t i.op).pops - h))

/-- The exact number of input variables the annotator creates for a block. -/
def inputsNeeded (t : OpTable) (ops : List Disasm.Instr) : Nat := inputsAcc t ops 0 0

/-! ### Exact specifications of the window primitives

Each has an acceptance half (exact new counter and stack length) and a refusal
half (`varOverflow` exactly when the counter would pass 65535). -/

theorem totx_expand_err : ∀ (n : Nat) (w : Win), w.vars ≤ 65535 → 65535 < w.vars + n →
    expand w n = .error .varOverflow
  | 0, w, h1, h2 => by omega
  | n + 1, w, h1, h2 => by
    by_cases hle : w.vars + 1 > 65535
    · simp only [expand, hle, if_true]
    · simp only [expand, hle, if_false]
      exact totx_expand_err n _ (by simp only; omega) (by simp only; omega)

theorem totx_pop_ok (w : Win) (hp : 1 ≤ w.pops) (hv : w.vars + (1 - w.cur.length) ≤ 65535) :
    ∃ t w', pop w = .ok (t, w') ∧ w'.pops = w.pops - 1 ∧ w'.pushes = w.pushes ∧
      w'.vars = w.vars + (1 - w.cur.length) ∧ w'.cur.length = w.cur.length - 1 := by
  have h1 : ¬ w.pops < 1 := by omega
  cases hc : w.cur with
  | nil =>
    have hle : ¬ (w.vars + 1 > 65535) := by simpa [hc] using hv
    refine ⟨Tree.leaf (.var (w.vars + 1)), ⟨w.vars + 1, [], w.pops - 1, w.pushes⟩, ?_, rfl, rfl, rfl, rfl⟩
    simp [pop, countPops, h1, hc, expand, hle]
  | cons a r =>
    refine ⟨a, ⟨w.vars, r, w.pops - 1, w.pushes⟩, ?_, rfl, rfl, by simp, by simp⟩
    simp [pop, countPops, h1, hc]

theorem totx_pop_err (w : Win) (hp : 1 ≤ w.pops) (hv0 : w.vars ≤ 65535)
    (hv : 65535 < w.vars + (1 - w.cur.length)) : pop w = .error .varOverflow := by
  have h1 : ¬ w.pops < 1 := by omega
  cases hc : w.cur with
  | nil =>
    have hle : w.vars + 1 > 65535 := by simpa [hc] using hv
    simp [pop, countPops, h1, hc, expand, hle]
  | cons a r =>
    simp only [hc, List.length_cons] at hv
    omega

theorem totx_popN_ok : ∀ (k : Nat) (w : Win), k ≤ w.pops →
    w.vars + (k - w.cur.length) ≤ 65535 →
    ∃ ts w', popN k w = .ok (ts, w') ∧ w'.pops = w.pops - k ∧ w'.pushes = w.pushes ∧
      w'.vars = w.vars + (k - w.cur.length) ∧ w'.cur.length = w.cur.length - k
  | 0, w, _, _ => ⟨[], w, rfl, rfl, rfl, by simp, by simp⟩
  | k + 1, w, hp, hv => by
    obtain ⟨t, w1, e1, p1, q1, v1, l1⟩ := totx_pop_ok w (by omega) (by omega)
    obtain ⟨ts, w2, e2, p2, q2, v2, l2⟩ := totx_popN_ok k w1 (by omega) (by omega)
    refine ⟨t :: ts, w2, ?_, by omega, by omega, by omega, by omega⟩
    simp only [popN, e1, e2]

theorem totx_popN_err : ∀ (k : Nat) (w : Win), k ≤ w.pops → w.vars ≤ 65535 →
    65535 < w.vars + (k - w.cur.length) → popN k w = .error .varOverflow
  | 0, w, _, _, hv => by omega
  | k + 1, w, hp, hv0, hv => by
    by_cases h1 : w.vars + (1 - w.cur.length) ≤ 65535
    · obtain ⟨t, w1, e1, p1, q1, v1, l1⟩ := totx_pop_ok w (by omega) h1
      have e2 := totx_popN_err k w1 (by omega) (by omega) (by omega)
      simp only [popN, e1, e2]
    · have e1 := totx_pop_err w (by omega) hv0 (by omega)
      simp only [popN, e1]

theorem totx_push_spec (w : Win) (t : Tree) (hp : w.pops = 0) (hq : 1 ≤ w.pushes) :
    ∃ w', push w t = .ok w' ∧ w'.pops = 0 ∧ w'.pushes = w.pushes - 1 ∧ w'.vars = w.vars ∧
      w'.cur.length = w.cur.length + 1 := by
  have h1 : ¬ w.pushes < 1 := by omega
  refine ⟨⟨w.vars, t :: w.cur, w.pops, w.pushes - 1⟩, ?_, hp, rfl, rfl, rfl⟩
  simp [push, countPushes, hp, h1]

theorem totx_window_ok (w : Win) (d : Nat) (hp : w.pops = d + 1) (hq : d + 1 ≤ w.pushes)
    (hv : w.vars + (d + 1 - w.cur.length) ≤ 65535) :
    ∃ w', window w d = .ok w' ∧ w'.pops = 0 ∧ w'.pushes = w.pushes - (d + 1) ∧
      w'.vars = w.vars + (d + 1 - w.cur.length) ∧
      w'.cur.length = (w.cur.length - (d + 1)) + (d + 1) := by
  have h1 : ¬ w.pops < d + 1 := by omega
  have h2 : ¬ w.pushes < d + 1 := by omega
  have h3 : w.pops - (d + 1) = 0 := by omega
  by_cases hl : w.cur.length < d + 1
  · obtain ⟨w', e, v, l, p, q⟩ := tot_expand_spec (1 + d - w.cur.length)
      ⟨w.vars, w.cur, w.pops - (d + 1), w.pushes - (d + 1)⟩ (by simp only; omega)
    refine ⟨w', ?_, by simpa [h3] using p, by simpa using q, by simp only at v; omega,
      by simp only at l; omega⟩
    simp [window, countPops, countPushes, h1, h2, h3, hl]
    rw [h3] at e
    exact e
  · refine ⟨⟨w.vars, w.cur, w.pops - (d + 1), w.pushes - (d + 1)⟩, ?_, h3, rfl,
      by simp only; omega, by simp only; omega⟩
    simp [window, countPops, countPushes, h1, h2, h3, hl]

theorem totx_window_err (w : Win) (d : Nat) (hp : w.pops = d + 1) (hq : d + 1 ≤ w.pushes)
    (hv0 : w.vars ≤ 65535) (hv : 65535 < w.vars + (d + 1 - w.cur.length)) :
    window w d = .error .varOverflow := by
  have h1 : ¬ w.pops < d + 1 := by omega
  have h2 : ¬ w.pushes < d + 1 := by omega
  have h3 : w.pops - (d + 1) = 0 := by omega
  have hl : w.cur.length < d + 1 := by omega
  have e := totx_expand_err (1 + d - w.cur.length)
    ⟨w.vars, w.cur, w.pops - (d + 1), w.pushes - (d + 1)⟩ (by simp only; omega)
    (by simp only; omega)
  simp [window, countPops, countPushes, h1, h2, h3, hl]
  rw [h3] at e
  exact e

theorem totx_swapTop_length (l : List Tree) (n : Nat) : (swapTop l n).length = l.length := by
  unfold swapTop
  split
  · split
    · rfl
    · simp
  · rfl

/-! ### One instruction, exactly -/

/-- Acceptance half: exact new counter and stack length. -/
theorem totx_annotateOne_ok (t : OpTable) (pc idx vars : Nat) (cur : List Tree) (i : Disasm.Instr)
    (hok : shapeLedgerOK t i.op = true)
    (hv : vars + ((rowOf t i.op).pops - cur.length) ≤ 65535) :
    ∃ e w', annotateOne pc idx ⟨vars, cur, (rowOf t i.op).pops, (rowOf t i.op).pushes⟩ i = .ok (e, w') ∧
      w'.pops = 0 ∧ w'.pushes = 0 ∧
      w'.vars = vars + ((rowOf t i.op).pops - cur.length) ∧
      w'.cur.length = (cur.length - (rowOf t i.op).pops) + (rowOf t i.op).pushes ∧
      tot_exitOK (rowOf t i.op) e := by
  unfold shapeLedgerOK at hok
  unfold annotateOne
  generalize rowOf t i.op = r at hok hv ⊢
  cases h : shapeOf i.op with
  | halt k =>
    simp only [h, Bool.and_eq_true, beq_iff_eq] at hok
    obtain ⟨⟨hp, hq⟩, he⟩ := hok
    obtain ⟨ts, w', e, p, q, v, l⟩ := totx_popN_ok k ⟨vars, cur, r.pops, r.pushes⟩ (by simp [hp])
      (by simp only; omega)
    simp only at p q v l
    exact ⟨some .terminate, w', by simp only [e], by omega, by omega, by omega, by omega, he⟩
  | op s k =>
    simp only [h, Bool.and_eq_true, beq_iff_eq, Bool.not_eq_true'] at hok
    obtain ⟨⟨hp, hq⟩, he⟩ := hok
    obtain ⟨ts, w', e, p, q, v, l⟩ := totx_popN_ok k ⟨vars, cur, r.pops, r.pushes⟩ (by simp [hp])
      (by simp only; omega)
    simp only at p q v l
    obtain ⟨w'', e', p', q', v', l'⟩ := totx_push_spec w'
      (.node s (if s.volatile then idx else 0) (Trees.ofList ts)) (by omega) (by omega)
    exact ⟨none, w'', by simp only [e, e'], p', by omega, by omega, by omega, he⟩
  | drop k =>
    simp only [h, Bool.and_eq_true, beq_iff_eq, Bool.not_eq_true'] at hok
    obtain ⟨⟨hp, hq⟩, he⟩ := hok
    obtain ⟨ts, w', e, p, q, v, l⟩ := totx_popN_ok k ⟨vars, cur, r.pops, r.pushes⟩ (by simp [hp])
      (by simp only; omega)
    simp only at p q v l
    exact ⟨none, w', by simp only [e], by omega, by omega, by omega, by omega, he⟩
  | pc =>
    simp only [h, Bool.and_eq_true, beq_iff_eq, Bool.not_eq_true'] at hok
    obtain ⟨⟨hp, hq⟩, he⟩ := hok
    obtain ⟨w'', e', p', q', v', l'⟩ := totx_push_spec ⟨vars, cur, r.pops, r.pushes⟩
      (Tree.leaf (.getpc (pc % 65536))) hp (by simp only; omega)
    simp only at q' v' l'
    exact ⟨none, w'', by simp only [e'], p', by omega, by omega, by omega, he⟩
  | nop =>
    simp only [h, Bool.and_eq_true, beq_iff_eq, Bool.not_eq_true'] at hok
    obtain ⟨⟨hp, hq⟩, he⟩ := hok
    exact ⟨none, _, rfl, hp, hq, by simp only; omega, by simp only; omega, he⟩
  | pushImm =>
    simp only [h, Bool.and_eq_true, beq_iff_eq, Bool.not_eq_true'] at hok
    obtain ⟨⟨hp, hq⟩, he⟩ := hok
    obtain ⟨w'', e', p', q', v', l'⟩ := totx_push_spec ⟨vars, cur, r.pops, r.pushes⟩
      (Tree.leaf (.const (beValue i.imm))) hp (by simp only; omega)
    simp only at q' v' l'
    exact ⟨none, w'', by simp only [e'], p', by omega, by omega, by omega, he⟩
  | dup n =>
    simp only [h, Bool.and_eq_true, beq_iff_eq, Bool.not_eq_true', decide_eq_true_eq] at hok
    obtain ⟨⟨⟨hn, hp⟩, hq⟩, he⟩ := hok
    obtain ⟨w', e, p, q, v, l⟩ := totx_window_ok ⟨vars, cur, r.pops, r.pushes⟩ (n - 1)
      (by simp only; omega) (by simp only; omega) (by simp only; omega)
    simp only at q v l
    have hl : n - 1 < w'.cur.length := by omega
    obtain ⟨w'', e', p', q', v', l'⟩ := totx_push_spec w' (w'.cur[n - 1]) p (by omega)
    refine ⟨none, w'', ?_, p', by omega, by omega, by omega, he⟩
    simp only [e, List.getElem?_eq_getElem hl, e']
  | swap n =>
    simp only [h, Bool.and_eq_true, beq_iff_eq, Bool.not_eq_true'] at hok
    obtain ⟨⟨hp, hq⟩, he⟩ := hok
    obtain ⟨w', e, p, q, v, l⟩ := totx_window_ok ⟨vars, cur, r.pops, r.pushes⟩ n
      (by simp only; omega) (by simp only; omega) (by simp only; omega)
    simp only at q v l
    refine ⟨none, { w' with cur := swapTop w'.cur n }, by simp only [e], p,
      by show w'.pushes = 0; omega, by show w'.vars = _; omega, ?_, he⟩
    show (swapTop w'.cur n).length = _
    rw [totx_swapTop_length]; omega
  | jump =>
    simp only [h, Bool.and_eq_true, beq_iff_eq] at hok
    obtain ⟨⟨hp, hq⟩, he⟩ := hok
    obtain ⟨d, w', e, p, q, v, l⟩ := totx_pop_ok ⟨vars, cur, r.pops, r.pushes⟩ (by simp [hp])
      (by simp only; omega)
    simp only at p q v l
    exact ⟨some (.unconditional d), w', by simp only [e], by omega, by omega, by omega, by omega, he⟩
  | jumpi =>
    simp only [h, Bool.and_eq_true, beq_iff_eq] at hok
    obtain ⟨⟨hp, hq⟩, he⟩ := hok
    obtain ⟨d, w', e, p, q, v, l⟩ := totx_pop_ok ⟨vars, cur, r.pops, r.pushes⟩ (by simp [hp])
      (by simp only; omega)
    simp only at p q v l
    obtain ⟨c, w'', e', p', q', v', l'⟩ := totx_pop_ok w' (by omega) (by omega)
    exact ⟨some (.branch c d (pc + 1)), w'', by simp only [e, e'], by omega, by omega,
      by omega, by omega, he⟩

/-- Refusal half: the counter overflow is reported exactly when the instruction
needs more fresh variables than the `u16` counter has left. -/
theorem totx_annotateOne_err (t : OpTable) (pc idx vars : Nat) (cur : List Tree) (i : Disasm.Instr)
    (hok : shapeLedgerOK t i.op = true) (hv0 : vars ≤ 65535)
    (hv : 65535 < vars + ((rowOf t i.op).pops - cur.length)) :
    annotateOne pc idx ⟨vars, cur, (rowOf t i.op).pops, (rowOf t i.op).pushes⟩ i = .error .varOverflow := by
  unfold shapeLedgerOK at hok
  unfold annotateOne
  generalize rowOf t i.op = r at hok hv ⊢
  cases h : shapeOf i.op with
  | halt k =>
    simp only [h, Bool.and_eq_true, beq_iff_eq] at hok
    obtain ⟨⟨hp, hq⟩, he⟩ := hok
    have e := totx_popN_err k ⟨vars, cur, r.pops, r.pushes⟩ (by simp [hp]) hv0 (by simp only; omega)
    simp only [e]
  | op s k =>
    simp only [h, Bool.and_eq_true, beq_iff_eq, Bool.not_eq_true'] at hok
    obtain ⟨⟨hp, hq⟩, he⟩ := hok
    have e := totx_popN_err k ⟨vars, cur, r.pops, r.pushes⟩ (by simp [hp]) hv0 (by simp only; omega)
    simp only [e]
  | drop k =>
    simp only [h, Bool.and_eq_true, beq_iff_eq, Bool.not_eq_true'] at hok
    obtain ⟨⟨hp, hq⟩, he⟩ := hok
    have e := totx_popN_err k ⟨vars, cur, r.pops, r.pushes⟩ (by simp [hp]) hv0 (by simp only; omega)
    simp only [e]
  | pc =>
    simp only [h, Bool.and_eq_true, beq_iff_eq, Bool.not_eq_true'] at hok
    omega
  | nop =>
    simp only [h, Bool.and_eq_true, beq_iff_eq, Bool.not_eq_true'] at hok
    omega
  | pushImm =>
    simp only [h, Bool.and_eq_true, beq_iff_eq, Bool.not_eq_true'] at hok
    omega
  | dup n =>
    simp only [h, Bool.and_eq_true, beq_iff_eq, Bool.not_eq_true', decide_eq_true_eq] at hok
    obtain ⟨⟨⟨hn, hp⟩, hq⟩, he⟩ := hok
    have e := totx_window_err ⟨vars, cur, r.pops, r.pushes⟩ (n - 1)
      (by simp only; omega) (by simp only; omega) hv0 (by simp only; omega)
    simp only [e]
  | swap n =>
    simp only [h, Bool.and_eq_true, beq_iff_eq, Bool.not_eq_true'] at hok
    obtain ⟨⟨hp, hq⟩, he⟩ := hok
    have e := totx_window_err ⟨vars, cur, r.pops, r.pushes⟩ n
      (by simp only; omega) (by simp only; omega) hv0 (by simp only; omega)
    simp only [e]
  | jump =>
    simp only [h, Bool.and_eq_true, beq_iff_eq] at hok
    obtain ⟨⟨hp, hq⟩, he⟩ := hok
    have e := totx_pop_err ⟨vars, cur, r.pops, r.pushes⟩ (by simp [hp]) hv0 (by simp only; omega)
    simp only [e]
  | jumpi =>
    simp only [h, Bool.and_eq_true, beq_iff_eq] at hok
    obtain ⟨⟨hp, hq⟩, he⟩ := hok
    by_cases h1 : vars + (1 - cur.length) ≤ 65535
    · obtain ⟨d, w', e, p, q, v, l⟩ := totx_pop_ok ⟨vars, cur, r.pops, r.pushes⟩ (by simp [hp])
        (by simp only; omega)
      simp only at p q v l
      have e' := totx_pop_err w' (by omega) (by omega) (by omega)
      simp only [e, e']
    · have e := totx_pop_err ⟨vars, cur, r.pops, r.pushes⟩ (by simp [hp]) hv0 (by simp only; omega)
      simp only [e]

/-! ### The loop, exactly -/

theorem totx_annotateLoop_exact (t : OpTable) (hT : ∀ b, b < 256 → shapeLedgerOK t b = true) :
    ∀ (ops : List Disasm.Instr) (pc idx vars : Nat) (cur : List Tree),
      (∀ i ∈ ops, i.op < 256) →
      (∀ i ∈ ops.dropLast, Blocks.endsBlock t i = false) →
      vars ≤ 65535 →
      (inputsAcc t ops cur.length vars ≤ 65535 →
        ∃ e c, annotateLoop t ops pc idx vars cur = .ok (e, inputsAcc t ops cur.length vars, c)) ∧
      (65535 < inputsAcc t ops cur.length vars →
        annotateLoop t ops pc idx vars cur = .error .varOverflow)
  | [], pc, _, vars, cur, _, _, hv0 => ⟨fun _ => ⟨_, _, rfl⟩, fun h => by simp only [inputsAcc] at h; omega⟩
  | i :: rest, pc, idx, vars, cur, hops, hshape, hv0 => by
    have hok1 := totx_annotateOne_ok t pc idx vars cur i (hT _ (hops i (List.mem_cons_self ..)))
    have herr1 := totx_annotateOne_err t pc idx vars cur i (hT _ (hops i (List.mem_cons_self ..))) hv0
    simp only [inputsAcc]
    by_cases h1 : vars + ((rowOf t i.op).pops - cur.length) ≤ 65535
    · obtain ⟨e, w', he, hp, hq, hvar, hlen, hex⟩ := hok1 h1
      have hdl : ¬ (w'.pops ≠ 0 ∨ w'.pushes ≠ 0) := by omega
      by_cases hr : rest = []
      · subst hr
        simp only [inputsAcc]
        refine ⟨fun _ => ?_, fun h => by omega⟩
        rw [← hvar]
        cases e with
        | none =>
          simp only [tot_exitOK] at hex
          simp only [annotateLoop, he, hex, hdl, if_false, Bool.false_eq_true]; exact ⟨_, _, rfl⟩
        | some x =>
          cases x with
          | terminate =>
            simp only [tot_exitOK] at hex
            simp [annotateLoop, he, hex, hdl]
          | fallThrough _ => exact absurd hex id
          | unconditional _ =>
            simp only [tot_exitOK] at hex
            simp [annotateLoop, he, hex, hdl]
          | branch _ _ _ =>
            simp only [tot_exitOK] at hex
            simp [annotateLoop, he, hex, hdl]
      · have hmem : i ∈ (i :: rest).dropLast := by
          cases rest with
          | nil => exact absurd rfl hr
          | cons a r => simp [List.dropLast]
        have hends := hshape i hmem
        simp only [Blocks.endsBlock, Bool.or_eq_false_iff] at hends
        obtain ⟨hj, hx⟩ := hends
        have hsub : ∀ j ∈ rest.dropLast, Blocks.endsBlock t j = false := by
          intro j hj'
          apply hshape
          cases rest with
          | nil => exact absurd rfl hr
          | cons a r => simp only [List.dropLast_cons_cons]; exact List.mem_cons_of_mem _ hj'
        cases e with
        | none =>
          obtain ⟨hokR, herrR⟩ := totx_annotateLoop_exact t hT rest (pc + (rowOf t i.op).size) (idx + 1)
            w'.vars w'.cur (fun j hj' => hops j (List.mem_cons_of_mem _ hj')) hsub (by omega)
          rw [← hlen, ← hvar]
          constructor
          · intro hv
            obtain ⟨e, c, hr'⟩ := hokR hv
            exact ⟨e, c, by simp only [annotateLoop, he, hx, hdl, if_false, Bool.false_eq_true]; exact hr'⟩
          · intro hv
            simp only [annotateLoop, he, hx, hdl, if_false, Bool.false_eq_true]; exact herrR hv
        | some x =>
          cases x with
          | terminate => simp only [tot_exitOK] at hex; rw [hex] at hx; exact absurd hx (by decide)
          | fallThrough _ => exact absurd hex id
          | unconditional _ => simp only [tot_exitOK] at hex; rw [hex] at hj; exact absurd hj (by decide)
          | branch _ _ _ => simp only [tot_exitOK] at hex; rw [hex] at hj; exact absurd hj (by decide)
    · have e1 := herr1 (by omega)
      have hmono : ∀ (ops : List Disasm.Instr) (h n : Nat), n ≤ inputsAcc t ops h n := by
        intro ops
        induction ops with
        | nil => intro h n; exact Nat.le_refl _
        | cons a r ih => intro h n; simp only [inputsAcc]; exact Nat.le_trans (Nat.le_add_right _ _) (ih _ _)
      have := hmono rest (cur.length - (rowOf t i.op).pops + (rowOf t i.op).pushes)
        (vars + ((rowOf t i.op).pops - cur.length))
      constructor
      · intro hv; omega
      · intro _; simp only [annotateLoop, e1]

/-! ### Theorems -/

theorem totx_tableOK (t : OpTable) (hT : tableLedgerOK t = true) :
    ∀ b, b < 256 → shapeLedgerOK t b = true := by
  intro b hb
  unfold tableLedgerOK at hT
  rw [List.all_eq_true] at hT
  exact hT b (List.mem_range.mpr hb)

/-- Exact totality, with the number of inputs: a separator-shaped block that needs
at most 65535 input variables is accepted, and the annotation has exactly
`inputsNeeded` inputs. -/
theorem annotate_total_exact_inputs (t : OpTable) (hT : tableLedgerOK t = true) (b : Blocks.Block)
    (hne : b.ops ≠ [])
    (hops : ∀ i ∈ b.ops, i.op < 256)
    (hshape : ∀ i ∈ b.ops.dropLast, Blocks.endsBlock t i = false)
    (hvars : inputsNeeded t b.ops ≤ 65535) :
    ∃ a, annotate t b = .ok a ∧ a.inputs = inputsNeeded t b.ops := by
  have _ := hne
  obtain ⟨e, c, hr⟩ := (totx_annotateLoop_exact t (totx_tableOK t hT) b.ops b.offset 0 0 [] hops hshape
    (by omega)).1 hvars
  simp only [annotate, hr]; exact ⟨_, rfl, rfl⟩

/-- `annotate_total` with the exact hypothesis. -/
theorem annotate_total_exact (t : OpTable) (hT : tableLedgerOK t = true) (b : Blocks.Block)
    (hne : b.ops ≠ [])
    (hops : ∀ i ∈ b.ops, i.op < 256)
    (hshape : ∀ i ∈ b.ops.dropLast, Blocks.endsBlock t i = false)
    (hvars : inputsNeeded t b.ops ≤ 65535) :
    ∃ a, annotate t b = .ok a := by
  obtain ⟨a, ha, _⟩ := annotate_total_exact_inputs t hT b hne hops hshape hvars
  exact ⟨a, ha⟩

/-- The converse boundary: a separator-shaped block that needs more than 65535
input variables is refused, with the `u16` counter overflow (D20), and nothing else. -/
theorem annotate_refused_exact (t : OpTable) (hT : tableLedgerOK t = true) (b : Blocks.Block)
    (hops : ∀ i ∈ b.ops, i.op < 256)
    (hshape : ∀ i ∈ b.ops.dropLast, Blocks.endsBlock t i = false)
    (hvars : 65535 < inputsNeeded t b.ops) :
    annotate t b = .error .varOverflow := by
  have hr := (totx_annotateLoop_exact t (totx_tableOK t hT) b.ops b.offset 0 0 [] hops hshape
    (by omega)).2 hvars
  simp only [annotate, hr]

/-- Acceptance is decided by `inputsNeeded`. -/
theorem annotate_ok_iff (t : OpTable) (hT : tableLedgerOK t = true) (b : Blocks.Block)
    (hops : ∀ i ∈ b.ops, i.op < 256)
    (hshape : ∀ i ∈ b.ops.dropLast, Blocks.endsBlock t i = false) :
    (∃ a, annotate t b = .ok a) ↔ inputsNeeded t b.ops ≤ 65535 := by
  constructor
  · intro ⟨a, ha⟩
    apply Nat.le_of_not_lt
    intro hlt
    rw [annotate_refused_exact t hT b hops hshape hlt] at ha
    cases ha
  · intro hv
    obtain ⟨e, c, hr⟩ := (totx_annotateLoop_exact t (totx_tableOK t hT) b.ops b.offset 0 0 [] hops hshape
      (by omega)).1 hv
    simp only [annotate, hr]; exact ⟨_, rfl⟩

/-! ### Relation to `popBudget` -/

theorem totx_inputsAcc_le (t : OpTable) : ∀ (ops : List Disasm.Instr) (h need : Nat),
    inputsAcc t ops h need ≤ need + popBudget t ops
  | [], _, need => by simp [inputsAcc, popBudget]
  | i :: rest, h, need => by
    have := totx_inputsAcc_le t rest ((h - (rowOf t i.op).pops) + (rowOf t i.op).pushes)
      (need + ((rowOf t i.op).pops - h))
    rw [tot_popBudget_cons]
    simp only [inputsAcc]
    omega

theorem inputsNeeded_le_popBudget (t : OpTable) (ops : List Disasm.Instr) :
    inputsNeeded t ops ≤ popBudget t ops := by
  have := totx_inputsAcc_le t ops 0 0
  simpa [inputsNeeded] using this

/-- `annotate_total` is a corollary of the exact theorem. -/
theorem annotate_total_of_exact (t : OpTable) (hT : tableLedgerOK t = true) (b : Blocks.Block)
    (hne : b.ops ≠ [])
    (hops : ∀ i ∈ b.ops, i.op < 256)
    (hshape : ∀ i ∈ b.ops.dropLast, Blocks.endsBlock t i = false)
    (hvars : popBudget t b.ops ≤ 65535) :
    ∃ a, annotate t b = .ok a :=
  annotate_total_exact t hT b hne hops hshape
    (Nat.le_trans (inputsNeeded_le_popBudget t b.ops) hvars)

/-! ### The converse boundary, concretely

An earlier witness over a one-row table was vacuous (that table is not ledger-consistent) and has been removed;
the block it used does need 65 536 inputs by the bookkeeping (`inputsNeeded_overflow_witness`);
a genuine refusal witness under the Cancun table is 65 536 × `pop`
(`annotate_var_overflow_cancun`), and 65 535 × `pop` is accepted with 65 535 inputs
(`annotate_var_max_cancun`). -/

theorem totx_inputsAcc_replicate (t : OpTable) (i : Disasm.Instr) (hq : (rowOf t i.op).pushes = 0) :
    ∀ (n need : Nat), inputsAcc t (List.replicate n i) 0 need = need + n * (rowOf t i.op).pops
  | 0, need => by simp [inputsAcc]
  | n + 1, need => by
    simp only [List.replicate_succ, inputsAcc, hq, Nat.zero_sub, Nat.add_zero, Nat.sub_zero]
    rw [totx_inputsAcc_replicate t i hq n, Nat.succ_mul]
    omega

theorem inputsNeeded_replicate (t : OpTable) (i : Disasm.Instr) (hq : (rowOf t i.op).pushes = 0) (n : Nat) :
    inputsNeeded t (List.replicate n i) = n * (rowOf t i.op).pops := by
  simp [inputsNeeded, totx_inputsAcc_replicate t i hq]

/-- 65 536 instructions that each pop one word need 65 536 input variables (one-row table). -/
theorem inputsNeeded_overflow_witness :
    inputsNeeded [⟨0, [], 0, 1, 0, false, false, false, 1, 0, 0, []⟩]
      (List.replicate 65536 ⟨0, []⟩) = 65536 ∧
    65535 < inputsNeeded [⟨0, [], 0, 1, 0, false, false, false, 1, 0, 0, []⟩]
      (List.replicate 65536 ⟨0, []⟩) := by
  rw [inputsNeeded_replicate _ _ (by decide)]
  decide

theorem totx_replicate_hops (n : Nat) (x : Disasm.Instr) (hx : x.op < 256) :
    ∀ i ∈ List.replicate n x, i.op < 256 := by
  intro i hi
  rw [List.eq_of_mem_replicate hi]; exact hx

theorem totx_replicate_hshape (t : OpTable) (n : Nat) (x : Disasm.Instr)
    (hx : Blocks.endsBlock t x = false) :
    ∀ i ∈ (List.replicate n x).dropLast, Blocks.endsBlock t i = false := by
  intro i hi
  rw [List.eq_of_mem_replicate (List.dropLast_subset _ hi)]; exact hx

/-- A genuine refusal at the boundary (D20): 65 536 × `pop` needs 65 536 inputs and
the annotator reports the `u16` counter overflow. -/
theorem annotate_var_overflow_cancun :
    inputsNeeded Gen.cancun (List.replicate 65536 ⟨0x50, []⟩) = 65536 ∧
    annotate Gen.cancun ⟨0, List.replicate 65536 ⟨0x50, []⟩⟩ = .error .varOverflow := by
  have hn : inputsNeeded Gen.cancun (List.replicate 65536 ⟨0x50, []⟩) = 65536 := by
    rw [inputsNeeded_replicate _ _ (by decide +kernel)]
    decide +kernel
  refine ⟨hn, annotate_refused_exact Gen.cancun tableLedgerOK_cancun _
    (totx_replicate_hops _ _ (by decide)) (totx_replicate_hshape _ _ _ (by decide +kernel)) ?_⟩
  show 65535 < inputsNeeded Gen.cancun (List.replicate 65536 ⟨0x50, []⟩)
  rw [hn]; decide

/-- …and one fewer is accepted, using every value of the counter. -/
theorem annotate_var_max_cancun :
    ∃ a, annotate Gen.cancun ⟨0, List.replicate 65535 ⟨0x50, []⟩⟩ = .ok a ∧ a.inputs = 65535 := by
  have hn : inputsNeeded Gen.cancun (List.replicate 65535 ⟨0x50, []⟩) = 65535 := by
    rw [inputsNeeded_replicate _ _ (by decide +kernel)]
    decide +kernel
  obtain ⟨a, ha, hi⟩ := annotate_total_exact_inputs Gen.cancun tableLedgerOK_cancun
    ⟨0, List.replicate 65535 ⟨0x50, []⟩⟩
    (by show List.replicate 65535 _ ≠ []; rw [ne_eq, List.replicate_eq_nil_iff]; decide)
    (totx_replicate_hops _ _ (by decide)) (totx_replicate_hshape _ _ _ (by decide +kernel))
    (by show inputsNeeded Gen.cancun (List.replicate 65535 ⟨0x50, []⟩) ≤ 65535; rw [hn]; decide)
  exact ⟨a, ha, by rw [hi]; exact hn⟩

end Annot
end EtkVerif
