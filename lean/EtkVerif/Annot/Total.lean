/-
Panic-freedom of the annotator (part of C15): with a table whose pops / pushes /
exit / jump flags agree with what `annotate_one` does for every opcode
(`shapeLedgerOK`, decided by kernel evaluation on the regenerated table), the
annotator accepts every block in which only the last instruction ends a block —
which is what the separator produces (C16) — as long as the `u16` variable
counter cannot overflow.
-/
import EtkVerif.Annot.Model
import EtkVerif.Gen.OpTable
namespace EtkVerif
namespace Annot
open Ops

/-- The ledger a `StackWindow` is created with matches what `annotate_one` does,
and the exit it returns matches the table's flags. -/
def shapeLedgerOK (t : OpTable) (b : Nat) : Bool :=
  let r := rowOf t b
  match shapeOf b with
  | .halt k => r.pops == k && r.pushes == 0 && r.exit
  | .op _ k => r.pops == k && r.pushes == 1 && !r.exit
  | .drop k => r.pops == k && r.pushes == 0 && !r.exit
  | .pc => r.pops == 0 && r.pushes == 1 && !r.exit
  | .pushImm => r.pops == 0 && r.pushes == 1 && !r.exit
  | .nop => r.pops == 0 && r.pushes == 0 && !r.exit
  | .dup n => decide (1 ≤ n) && r.pops == n && r.pushes == n + 1 && !r.exit
  | .swap n => r.pops == n + 1 && r.pushes == n + 1 && !r.exit
  | .jump => r.pops == 1 && r.pushes == 0 && r.jump
  | .jumpi => r.pops == 2 && r.pushes == 0 && r.jump

def tableLedgerOK (t : OpTable) : Bool := (List.range 256).all (shapeLedgerOK t)

/-- Total number of stack items the block's instructions pop according to the
table: an upper bound on the input variables the annotator can create. -/
def popBudget (t : OpTable) (ops : List Disasm.Instr) : Nat := (ops.map (fun i => (rowOf t i.op).pops)).sum


/-! ### Ledger tracking for the window primitives -/

theorem tot_expand_spec : ∀ (n : Nat) (w : Win), w.vars + n ≤ 65535 →
    ∃ w', expand w n = .ok w' ∧ w'.vars = w.vars + n ∧ w'.cur.length = w.cur.length + n ∧
      w'.pops = w.pops ∧ w'.pushes = w.pushes
  | 0, w, _ => ⟨w, rfl, rfl, rfl, rfl, rfl⟩
  | n + 1, w, h => by
    have hle : ¬ (w.vars + 1 > 65535) := by omega
    obtain ⟨w', h1, h2, h3, h4, h5⟩ := tot_expand_spec n
      { w with vars := w.vars + 1, cur := w.cur ++ [Tree.leaf (.var (w.vars + 1))] }
      (by simp only; omega)
    refine ⟨w', ?_, ?_, ?_, h4, h5⟩
    · simp only [expand, hle, if_false]; exact h1
    · simp only at h2; omega
    · simp only [List.length_append, List.length_cons, List.length_nil] at h3; omega

theorem tot_pop_spec (w : Win) (hp : 1 ≤ w.pops) (hv : w.vars + 1 ≤ 65535) :
    ∃ t w', pop w = .ok (t, w') ∧ w'.pops = w.pops - 1 ∧ w'.pushes = w.pushes ∧
      w'.vars ≤ w.vars + 1 := by
  have h1 : ¬ w.pops < 1 := by omega
  have hle : ¬ (w.vars + 1 > 65535) := by omega
  cases hc : w.cur with
  | nil =>
    refine ⟨Tree.leaf (.var (w.vars + 1)), ⟨w.vars + 1, [], w.pops - 1, w.pushes⟩, ?_, rfl, rfl, Nat.le_refl _⟩
    simp [pop, countPops, h1, hc, expand, hle]
  | cons a r =>
    refine ⟨a, ⟨w.vars, r, w.pops - 1, w.pushes⟩, ?_, rfl, rfl, Nat.le_succ _⟩
    simp [pop, countPops, h1, hc]

theorem tot_popN_spec : ∀ (k : Nat) (w : Win), k ≤ w.pops → w.vars + k ≤ 65535 →
    ∃ ts w', popN k w = .ok (ts, w') ∧ w'.pops = w.pops - k ∧ w'.pushes = w.pushes ∧
      w'.vars ≤ w.vars + k
  | 0, w, _, _ => ⟨[], w, rfl, rfl, rfl, Nat.le_refl _⟩
  | k + 1, w, hp, hv => by
    obtain ⟨t, w1, e1, p1, q1, v1⟩ := tot_pop_spec w (by omega) (by omega)
    obtain ⟨ts, w2, e2, p2, q2, v2⟩ := tot_popN_spec k w1 (by omega) (by omega)
    refine ⟨t :: ts, w2, ?_, by omega, by omega, by omega⟩
    simp only [popN, e1, e2]

theorem tot_push_spec (w : Win) (t : Tree) (hp : w.pops = 0) (hq : 1 ≤ w.pushes) :
    ∃ w', push w t = .ok w' ∧ w'.pops = 0 ∧ w'.pushes = w.pushes - 1 ∧ w'.vars = w.vars := by
  have h1 : ¬ w.pushes < 1 := by omega
  refine ⟨⟨w.vars, t :: w.cur, w.pops, w.pushes - 1⟩, ?_, hp, rfl, rfl⟩
  simp [push, countPushes, hp, h1]

theorem tot_window_spec (w : Win) (d : Nat) (hp : w.pops = d + 1) (hq : d + 1 ≤ w.pushes)
    (hv : w.vars + (d + 1) ≤ 65535) :
    ∃ w', window w d = .ok w' ∧ w'.pops = 0 ∧ w'.pushes = w.pushes - (d + 1) ∧
      w'.vars ≤ w.vars + (d + 1) ∧ d + 1 ≤ w'.cur.length := by
  have h1 : ¬ w.pops < d + 1 := by omega
  have h2 : ¬ w.pushes < d + 1 := by omega
  have h3 : w.pops - (d + 1) = 0 := by omega
  by_cases hl : w.cur.length < d + 1
  · obtain ⟨w', e, v, l, p, q⟩ := tot_expand_spec (1 + d - w.cur.length)
      ⟨w.vars, w.cur, w.pops - (d + 1), w.pushes - (d + 1)⟩ (by simp only; omega)
    refine ⟨w', ?_, by simpa [h3] using p, by simpa using q, by simp only at v; omega,
      by simp only at l; omega⟩
    simp [window, countPops, countPushes, h1, h2, h3, hl]
    rw [h3] at e
    exact e
  · refine ⟨⟨w.vars, w.cur, w.pops - (d + 1), w.pushes - (d + 1)⟩, ?_, h3, rfl,
      Nat.le_add_right _ _, by simp only; omega⟩
    simp [window, countPops, countPushes, h1, h2, h3, hl]

/-! ### One instruction -/

/-- The exit returned agrees with the table's flags. -/
def tot_exitOK (r : OpRow) : Option Exit → Prop
  | none => r.exit = false
  | some .terminate => r.exit = true
  | some (.unconditional _) => r.jump = true
  | some (.branch _ _ _) => r.jump = true
  | some (.fallThrough _) => False

theorem tot_annotateOne_spec (t : OpTable) (pc idx vars : Nat) (cur : List Tree) (i : Disasm.Instr)
    (hok : shapeLedgerOK t i.op = true) (hv : vars + (rowOf t i.op).pops ≤ 65535) :
    ∃ e w', annotateOne pc idx ⟨vars, cur, (rowOf t i.op).pops, (rowOf t i.op).pushes⟩ i = .ok (e, w') ∧
      w'.pops = 0 ∧ w'.pushes = 0 ∧ w'.vars ≤ vars + (rowOf t i.op).pops ∧
      tot_exitOK (rowOf t i.op) e := by
  unfold shapeLedgerOK at hok
  unfold annotateOne
  generalize rowOf t i.op = r at hok hv ⊢
  cases h : shapeOf i.op with
  | halt k =>
    simp only [h, Bool.and_eq_true, beq_iff_eq] at hok
    obtain ⟨⟨hp, hq⟩, he⟩ := hok
    obtain ⟨ts, w', e, p, q, v⟩ := tot_popN_spec k ⟨vars, cur, r.pops, r.pushes⟩ (by simp [hp]) (by simp only; omega)
    refine ⟨some .terminate, w', by simp only [e], by simp only at p; omega, by simp only at q; omega,
      by simp only at v; omega, he⟩
  | op s k =>
    simp only [h, Bool.and_eq_true, beq_iff_eq, Bool.not_eq_true'] at hok
    obtain ⟨⟨hp, hq⟩, he⟩ := hok
    obtain ⟨ts, w', e, p, q, v⟩ := tot_popN_spec k ⟨vars, cur, r.pops, r.pushes⟩ (by simp [hp]) (by simp only; omega)
    simp only at p q v
    obtain ⟨w'', e', p', q', v'⟩ := tot_push_spec w'
      (.node s (if s.volatile then idx else 0) (Trees.ofList ts)) (by omega) (by omega)
    refine ⟨none, w'', by simp only [e, e'], p', by omega, by omega, he⟩
  | drop k =>
    simp only [h, Bool.and_eq_true, beq_iff_eq, Bool.not_eq_true'] at hok
    obtain ⟨⟨hp, hq⟩, he⟩ := hok
    obtain ⟨ts, w', e, p, q, v⟩ := tot_popN_spec k ⟨vars, cur, r.pops, r.pushes⟩ (by simp [hp]) (by simp only; omega)
    refine ⟨none, w', by simp only [e], by simp only at p; omega, by simp only at q; omega,
      by simp only at v; omega, he⟩
  | pc =>
    simp only [h, Bool.and_eq_true, beq_iff_eq, Bool.not_eq_true'] at hok
    obtain ⟨⟨hp, hq⟩, he⟩ := hok
    obtain ⟨w'', e', p', q', v'⟩ := tot_push_spec ⟨vars, cur, r.pops, r.pushes⟩
      (Tree.leaf (.getpc (pc % 65536))) hp (by simp only; omega)
    simp only at q' v'
    refine ⟨none, w'', by simp only [e'], p', by omega, by omega, he⟩
  | nop =>
    simp only [h, Bool.and_eq_true, beq_iff_eq, Bool.not_eq_true'] at hok
    obtain ⟨⟨hp, hq⟩, he⟩ := hok
    exact ⟨none, _, rfl, hp, hq, Nat.le_add_right _ _, he⟩
  | pushImm =>
    simp only [h, Bool.and_eq_true, beq_iff_eq, Bool.not_eq_true'] at hok
    obtain ⟨⟨hp, hq⟩, he⟩ := hok
    obtain ⟨w'', e', p', q', v'⟩ := tot_push_spec ⟨vars, cur, r.pops, r.pushes⟩
      (Tree.leaf (.const (beValue i.imm))) hp (by simp only; omega)
    simp only at q' v'
    refine ⟨none, w'', by simp only [e'], p', by omega, by omega, he⟩
  | dup n =>
    simp only [h, Bool.and_eq_true, beq_iff_eq, Bool.not_eq_true', decide_eq_true_eq] at hok
    obtain ⟨⟨⟨hn, hp⟩, hq⟩, he⟩ := hok
    obtain ⟨w', e, p, q, v, l⟩ := tot_window_spec ⟨vars, cur, r.pops, r.pushes⟩ (n - 1)
      (by simp only; omega) (by simp only; omega) (by simp only; omega)
    simp only at q v
    have hl : n - 1 < w'.cur.length := by omega
    obtain ⟨w'', e', p', q', v'⟩ := tot_push_spec w' (w'.cur[n - 1]) p (by omega)
    refine ⟨none, w'', ?_, p', by omega, by omega, he⟩
    simp only [e, List.getElem?_eq_getElem hl, e']
  | swap n =>
    simp only [h, Bool.and_eq_true, beq_iff_eq, Bool.not_eq_true'] at hok
    obtain ⟨⟨hp, hq⟩, he⟩ := hok
    obtain ⟨w', e, p, q, v, l⟩ := tot_window_spec ⟨vars, cur, r.pops, r.pushes⟩ n
      (by simp only; omega) (by simp only; omega) (by simp only; omega)
    simp only at q v
    exact ⟨none, { w' with cur := swapTop w'.cur n }, by simp only [e], p, by show w'.pushes = 0; omega, by show w'.vars ≤ _; omega, he⟩
  | jump =>
    simp only [h, Bool.and_eq_true, beq_iff_eq] at hok
    obtain ⟨⟨hp, hq⟩, he⟩ := hok
    obtain ⟨d, w', e, p, q, v⟩ := tot_pop_spec ⟨vars, cur, r.pops, r.pushes⟩ (by simp [hp]) (by simp only; omega)
    simp only at p q v
    refine ⟨some (.unconditional d), w', by simp only [e], by omega, by omega, by omega, he⟩
  | jumpi =>
    simp only [h, Bool.and_eq_true, beq_iff_eq] at hok
    obtain ⟨⟨hp, hq⟩, he⟩ := hok
    obtain ⟨d, w', e, p, q, v⟩ := tot_pop_spec ⟨vars, cur, r.pops, r.pushes⟩ (by simp [hp]) (by simp only; omega)
    simp only at p q v
    obtain ⟨c, w'', e', p', q', v'⟩ := tot_pop_spec w' (by omega) (by omega)
    refine ⟨some (.branch c d (pc + 1)), w'', by simp only [e, e'], by omega, by omega, by omega, he⟩

/-! ### The loop -/

theorem tot_popBudget_cons (t : OpTable) (i : Disasm.Instr) (rest : List Disasm.Instr) :
    popBudget t (i :: rest) = (rowOf t i.op).pops + popBudget t rest := by
  simp [popBudget]

theorem tot_annotateLoop_total (t : OpTable) (hT : ∀ b, b < 256 → shapeLedgerOK t b = true) :
    ∀ (ops : List Disasm.Instr) (pc idx vars : Nat) (cur : List Tree),
      (∀ i ∈ ops, i.op < 256) →
      (∀ i ∈ ops.dropLast, Blocks.endsBlock t i = false) →
      vars + popBudget t ops ≤ 65535 →
      ∃ r, annotateLoop t ops pc idx vars cur = .ok r
  | [], pc, _, vars, cur, _, _, _ => ⟨_, rfl⟩
  | i :: rest, pc, idx, vars, cur, hops, hshape, hv => by
    rw [tot_popBudget_cons] at hv
    obtain ⟨e, w', he, hp, hq, hvar, hex⟩ := tot_annotateOne_spec t pc idx vars cur i
      (hT _ (hops i (List.mem_cons_self ..))) (by omega)
    have hdl : ¬ (w'.pops ≠ 0 ∨ w'.pushes ≠ 0) := by omega
    by_cases hr : rest = []
    · subst hr
      cases e with
      | none =>
        simp only [tot_exitOK] at hex
        simp only [annotateLoop, he, hex, hdl, if_false, Bool.false_eq_true]; exact ⟨_, rfl⟩
      | some x =>
        cases x with
        | terminate =>
          simp only [tot_exitOK] at hex
          simp [annotateLoop, he, hex, hdl]
        | fallThrough _ => exact absurd hex id
        | unconditional _ =>
          simp only [tot_exitOK] at hex
          simp [annotateLoop, he, hex, hdl]
        | branch _ _ _ =>
          simp only [tot_exitOK] at hex
          simp [annotateLoop, he, hex, hdl]
    · have hmem : i ∈ (i :: rest).dropLast := by
        cases rest with
        | nil => exact absurd rfl hr
        | cons a r => simp [List.dropLast]
      have hends := hshape i hmem
      simp only [Blocks.endsBlock, Bool.or_eq_false_iff] at hends
      obtain ⟨hj, hx⟩ := hends
      have hsub : ∀ j ∈ rest.dropLast, Blocks.endsBlock t j = false := by
        intro j hj'
        apply hshape
        cases rest with
        | nil => exact absurd rfl hr
        | cons a r => simp only [List.dropLast_cons_cons]; exact List.mem_cons_of_mem _ hj'
      cases e with
      | none =>
        obtain ⟨r, hr'⟩ := tot_annotateLoop_total t hT rest (pc + (rowOf t i.op).size) (idx + 1) w'.vars w'.cur
          (fun j hj' => hops j (List.mem_cons_of_mem _ hj')) hsub (by omega)
        exact ⟨r, by simp only [annotateLoop, he, hx, hdl, if_false, Bool.false_eq_true]; exact hr'⟩
      | some x =>
        cases x with
        | terminate => simp only [tot_exitOK] at hex; rw [hex] at hx; exact absurd hx (by decide)
        | fallThrough _ => exact absurd hex id
        | unconditional _ => simp only [tot_exitOK] at hex; rw [hex] at hj; exact absurd hj (by decide)
        | branch _ _ _ => simp only [tot_exitOK] at hex; rw [hex] at hj; exact absurd hj (by decide)

theorem annotate_total (t : OpTable) (hT : tableLedgerOK t = true) (b : Blocks.Block)
    (hne : b.ops ≠ [])
    (hops : ∀ i ∈ b.ops, i.op < 256)
    (hshape : ∀ i ∈ b.ops.dropLast, Blocks.endsBlock t i = false)
    (hvars : popBudget t b.ops ≤ 65535) :
    ∃ a, annotate t b = .ok a := by
  have _ := hne
  have hT' : ∀ b, b < 256 → shapeLedgerOK t b = true := by
    intro b hb
    unfold tableLedgerOK at hT
    rw [List.all_eq_true] at hT
    exact hT b (List.mem_range.mpr hb)
  obtain ⟨⟨e, v, c⟩, hr⟩ := tot_annotateLoop_total t hT' b.ops b.offset 0 0 [] hops hshape (by omega)
  simp only [annotate, hr]; exact ⟨_, rfl⟩

-- The bound is sharp: the counter is a `u16`; `Annot/TotalExact.lean` characterises acceptance exactly
-- (`annotate_ok_iff`) and exhibits the overflow (`annotate_var_overflow_cancun`: 65 536 × `pop`, finding D20).

theorem tableLedgerOK_cancun : tableLedgerOK Gen.cancun = true := by decide +kernel

end Annot
end EtkVerif
