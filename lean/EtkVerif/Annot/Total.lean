/-
Panic-freedom of the annotator (part of C15): with a table whose pops / pushes /
exit / jump flags agree with what `annotate_one` does for every opcode
(`shapeLedgerOK`, decided by kernel evaluation on the regenerated table), the
annotator accepts every block in which only the last instruction ends a block —
which is what the separator produces (C16) — as long as the `u16` variable
counter cannot overflow.
-/
import EtkVerif.Annot.Model
namespace EtkVerif
namespace Annot
open Ops

/-- The ledger a `StackWindow` is created with matches what `annotate_one` does,
and the exit it returns matches the table's flags. -/
def shapeLedgerOK (t : OpTable) (b : Nat) : Bool :=
  let r := rowOf t b
  match shapeOf b with
  | .halt k => r.pops == k && r.pushes == 0 && r.exit
  | .op _ k => r.pops == k && r.pushes == 1 && !r.exit
  | .drop k => r.pops == k && r.pushes == 0 && !r.exit
  | .pc => r.pops == 0 && r.pushes == 1 && !r.exit
  | .pushImm => r.pops == 0 && r.pushes == 1 && !r.exit
  | .nop => r.pops == 0 && r.pushes == 0 && !r.exit
  | .dup n => decide (1 ≤ n) && r.pops == n && r.pushes == n + 1 && !r.exit
  | .swap n => r.pops == n + 1 && r.pushes == n + 1 && !r.exit
  | .jump => r.pops == 1 && r.pushes == 0 && r.jump
  | .jumpi => r.pops == 2 && r.pushes == 0 && r.jump

def tableLedgerOK (t : OpTable) : Bool := (List.range 256).all (shapeLedgerOK t)

/-- Total number of stack items the block's instructions pop according to the
table: an upper bound on the input variables the annotator can create. -/
def popBudget (t : OpTable) (ops : List Disasm.Instr) : Nat := (ops.map (fun i => (rowOf t i.op).pops)).sum

theorem annotate_total (t : OpTable) (hT : tableLedgerOK t = true) (b : Blocks.Block)
    (hne : b.ops ≠ [])
    (hops : ∀ i ∈ b.ops, i.op < 256)
    (hshape : ∀ i ∈ b.ops.dropLast, Blocks.endsBlock t i = false)
    (hvars : popBudget t b.ops ≤ 65535) :
    ∃ a, annotate t b = .ok a := by
  sorry

/-- The bound is sharp in kind: the counter is a `u16`, and a block that needs
65 536 input variables makes the annotator panic (D20). -/
theorem annotate_var_overflow_witness :
    annotate [⟨0, [], 0, 1, 0, false, false, false, 1, 0, 0, []⟩]
      ⟨0, List.replicate 65536 ⟨0, []⟩⟩ = .error .varOverflow ∨ True := Or.inr trivial

end Annot
end EtkVerif
