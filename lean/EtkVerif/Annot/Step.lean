/-
One instruction: `annotateOne` against `exec1` run on the stack the symbolic
state stands for.
-/
import EtkVerif.Annot.Sim
namespace EtkVerif
namespace Annot
open Ops Evm

theorem popN_one (w w' : Win) (t : Tree) (h : pop w = .ok (t, w')) : popN 1 w = .ok ([t], w') := by
  simp [popN, h]

theorem popN_two (w w1 w2 : Win) (a b : Tree) (h1 : pop w = .ok (a, w1)) (h2 : pop w1 = .ok (b, w2)) :
    popN 2 w = .ok ([a, b], w2) := by
  simp [popN, h1, h2]

section Step
variable (E : Env) (ω : Nat → Word) (ρ : Nat → Word) (entry : List Word)

/-- The concrete step an annotator result stands for. -/
def toStep (ex : Option Exit) (st : List Word) : Step :=
  match ex with
  | none => .next st
  | some .terminate => .halt
  | some (.unconditional e) => .jump (Tree.eval E ω ρ e) st
  | some (.branch c d _) => .jumpi (Tree.eval E ω ρ d) (Tree.eval E ω ρ c) st
  | some (.fallThrough _) => .halt

/-- `annotateOne` never reports a fall-through, and a branch falls to `pc + 1`. -/
def ExitOK (pc : Nat) : Option Exit → Prop
  | some (.fallThrough _) => False
  | some (.branch _ _ f) => f = pc + 1
  | _ => True

variable (hρ : ∀ i, ρ (i + 1) = entry.getD i 0)
include hρ

theorem step_model (pc idx : Nat) (w w' : Win) (i : Disasm.Instr) (ex : Option Exit)
    (h : annotateOne pc idx w i = .ok (ex, w')) :
    w.vars ≤ w'.vars ∧ ExitOK pc ex ∧
    (w.vars ≤ entry.length → entry.length < w'.vars →
      exec1 E ω (pc % 65536) idx i (model E ω ρ entry w.vars w.cur) = none) ∧
    (w'.vars ≤ entry.length →
      exec1 E ω (pc % 65536) idx i (model E ω ρ entry w.vars w.cur) =
        some (toStep E ω ρ ex (model E ω ρ entry w'.vars w'.cur))) := by
  have hc := corr i.op
  unfold annotateOne at h
  unfold exec1
  generalize shapeOf i.op = sh at h hc
  generalize kindOf i.op = kd at hc
  cases hc with
  | halt k =>
    simp only at h
    split at h
    · cases h
    · next ts w1 h1 =>
      cases h
      obtain ⟨hl, hm, hnone, hsome⟩ := popN_model E ω ρ entry hρ _ _ _ _ h1
      refine ⟨hm, trivial, ?_, ?_⟩
      · intro a b; simp only; rw [if_pos (hnone a b)]
      · intro a; simp only; rw [hsome a, if_neg (by simp [hl])]; rfl
  | fn s k f ha hv hf =>
    simp only at h
    split at h
    · cases h
    · next ts w1 h1 =>
      split at h
      · cases h
      · next w2 h2 =>
        cases h
        obtain ⟨hl, hm, hnone, hsome⟩ := popN_model E ω ρ entry hρ _ _ _ _ h1
        obtain ⟨pv, pcur⟩ := push_spec _ _ _ h2
        refine ⟨by omega, trivial, ?_, ?_⟩
        · intro a b; rw [pv] at b; simp only; rw [if_pos (hnone a b)]
        · intro a; rw [pv] at a; simp only
          rw [hsome a, if_neg (by simp [hl])]
          rw [List.take_left' (by simp [hl]), List.drop_left' (by simp [hl])]
          simp only [toStep, pv, pcur, model, List.map_cons, List.cons_append]
          congr 3
          simp only [Tree.eval, evalAll_ofList, hv]
          rw [hf]; simp [hl]
  | read s k ha hv hf =>
    simp only at h
    split at h
    · cases h
    · next ts w1 h1 =>
      split at h
      · cases h
      · next w2 h2 =>
        cases h
        obtain ⟨hl, hm, hnone, hsome⟩ := popN_model E ω ρ entry hρ _ _ _ _ h1
        obtain ⟨pv, pcur⟩ := push_spec _ _ _ h2
        refine ⟨by omega, trivial, ?_, ?_⟩
        · intro a b; rw [pv] at b; simp only; rw [if_pos (hnone a b)]
        · intro a; rw [pv] at a; simp only
          rw [hsome a, if_neg (by simp [hl])]
          rw [List.drop_left' (by simp [hl])]
          simp only [toStep, pv, pcur, model, List.map_cons, List.cons_append]
          congr 3
          simp only [Tree.eval, hv]
          rw [hf]; simp
  | drop k =>
    simp only at h
    split at h
    · cases h
    · next ts w1 h1 =>
      cases h
      obtain ⟨hl, hm, hnone, hsome⟩ := popN_model E ω ρ entry hρ _ _ _ _ h1
      refine ⟨hm, trivial, ?_, ?_⟩
      · intro a b; simp only; rw [if_pos (hnone a b)]
      · intro a; simp only
        rw [hsome a, if_neg (by simp [hl]), List.drop_left' (by simp [hl])]; rfl
  | pc =>
    simp only at h
    split at h
    · cases h
    · next w2 h2 =>
      cases h
      obtain ⟨pv, pcur⟩ := push_spec _ _ _ h2
      refine ⟨by omega, trivial, ?_, ?_⟩
      · intro a b; omega
      · intro a; simp only [toStep, pv, pcur, model, List.map_cons, List.cons_append, eval_getpc]
  | nop =>
    simp only at h
    cases h
    refine ⟨Nat.le_refl _, trivial, ?_, ?_⟩
    · intro a b; omega
    · intro a; rfl
  | pushImm =>
    simp only at h
    split at h
    · cases h
    · next w2 h2 =>
      cases h
      obtain ⟨pv, pcur⟩ := push_spec _ _ _ h2
      refine ⟨by omega, trivial, ?_, ?_⟩
      · intro a b; omega
      · intro a
        simp only [toStep, pv, pcur, model, List.map_cons, List.cons_append, eval_const, beValue]
  | dup n =>
    simp only at h
    split at h
    · cases h
    · next w1 h1 =>
      split at h
      · cases h
      · next t ht =>
        split at h
        · cases h
        · next w2 h2 =>
          cases h
          obtain ⟨hm, hlen, hnone, hsome⟩ := window_model E ω ρ entry hρ _ _ _ h1
          obtain ⟨pv, pcur⟩ := push_spec _ _ _ h2
          refine ⟨by omega, trivial, ?_, ?_⟩
          · intro a b; rw [pv] at b
            have := hnone a b
            simp only
            rw [List.getElem?_eq_none (by omega)]
          · intro a; rw [pv] at a
            simp only
            rw [hsome a]
            have hlt : n - 1 < (w1.cur.map (Tree.eval E ω ρ)).length := by simp; omega
            have hget : (model E ω ρ entry w1.vars w1.cur)[n - 1]? = some (Tree.eval E ω ρ t) := by
              simp only [model]
              rw [List.getElem?_append_left hlt, List.getElem?_map, ht]; rfl
            rw [hget]
            simp only [toStep, pv, pcur, model, List.map_cons, List.cons_append]
  | swap n hn =>
    simp only at h
    split at h
    · cases h
    · next w1 h1 =>
      cases h
      obtain ⟨hm, hlen, hnone, hsome⟩ := window_model E ω ρ entry hρ _ _ _ h1
      refine ⟨hm, trivial, ?_, ?_⟩
      · intro a b
        have := hnone a b
        simp only
        split
        · next top rest deep hd =>
          rw [List.getElem?_eq_none (by omega)] at hd; cases hd
        · rfl
      · intro a
        simp only
        rw [hsome a]
        obtain ⟨m, rfl⟩ : ∃ m, n = m + 1 := ⟨n - 1, by omega⟩
        match hcur : w1.cur, hlen with
        | top :: rest, hlen =>
          have hm' : m < rest.length := by simp at hlen; omega
          have hlt : m < (rest.map (Tree.eval E ω ρ)).length := by simpa using hm'
          simp only [model, List.map_cons, List.cons_append, List.getElem?_cons_succ,
            List.getElem?_append_left hlt, List.getElem?_map, List.getElem?_eq_getElem hm',
            Option.map_some, toStep, swapTop, Nat.add_one_ne_zero, if_false, Nat.add_sub_cancel,
            List.map_set]
          rw [List.set_append_left _ _ hlt]
  | jump =>
    simp only at h
    split at h
    · cases h
    · next d w1 h1 =>
      cases h
      obtain ⟨hl, hm, hnone, hsome⟩ := popN_model E ω ρ entry hρ _ _ _ _ (popN_one _ _ _ h1)
      refine ⟨hm, trivial, ?_, ?_⟩
      · intro a b
        have := hnone a b
        simp only
        split
        · next d' rest heq => rw [heq] at this; simp at this
        · rfl
      · intro a; simp only; rw [hsome a]; rfl
  | jumpi =>
    simp only at h
    split at h
    · cases h
    · next d w1 h1 =>
      split at h
      · cases h
      · next c w2 h2 =>
        cases h
        obtain ⟨hl, hm, hnone, hsome⟩ :=
          popN_model E ω ρ entry hρ _ _ _ _ (popN_two _ _ _ _ _ h1 h2)
        refine ⟨hm, rfl, ?_, ?_⟩
        · intro a b
          have := hnone a b
          simp only
          split
          · next d' c' rest heq => rw [heq] at this; simp at this; omega
          · rfl
        · intro a; simp only; rw [hsome a]; rfl

end Step

end Annot
end EtkVerif
