/-
The whole block: `annotateLoop` against `execBlock`.
-/
import EtkVerif.Annot.Step
namespace EtkVerif
namespace Annot
open Ops Evm

/-! ### Underflow of the concrete semantics depends only on the stack depth -/

/-- Two step results of the same instruction on stacks of the same depth. -/
def StepSame : Option Step → Option Step → Prop
  | none, none => True
  | some (.next a), some (.next b) => a.length = b.length
  | some .halt, some .halt => True
  | some (.jump _ _), some (.jump _ _) => True
  | some (.jumpi _ _ _), some (.jumpi _ _ _) => True
  | _, _ => False

theorem exec1_len (E E' : Env) (ω ω' : Nat → Word) (pc pc' idx idx' : Nat) (i : Disasm.Instr)
    (st st' : List Word) (hl : st.length = st'.length) :
    StepSame (exec1 E ω pc idx i st) (exec1 E' ω' pc' idx' i st') := by
  unfold exec1
  cases kindOf i.op with
  | fn k f =>
    simp only [hl]
    split <;> simp [StepSame, hl]
  | read k =>
    simp only [hl]
    split <;> simp [StepSame, hl]
  | pops k =>
    simp only [hl]
    split <;> simp [StepSame, hl]
  | pc => simp [StepSame, hl]
  | jumpdest => simp [StepSame, hl]
  | push => simp [StepSame, hl]
  | dup n =>
    simp only
    by_cases hn : n - 1 < st.length
    · rw [List.getElem?_eq_getElem hn, List.getElem?_eq_getElem (hl ▸ hn)]
      simp [StepSame, hl]
    · rw [List.getElem?_eq_none (by omega), List.getElem?_eq_none (by omega)]
      simp [StepSame]
  | swap n =>
    simp only
    cases st with
    | nil =>
      cases st' with
      | nil => simp [StepSame]
      | cons _ _ => simp at hl
    | cons x r =>
      cases st' with
      | nil => simp at hl
      | cons x' r' =>
        simp only [List.length_cons, Nat.add_right_cancel_iff] at hl
        by_cases hn : n < (x :: r).length
        · have hn' : n < (x' :: r').length := by simp at hn ⊢; omega
          rw [List.getElem?_eq_getElem hn, List.getElem?_eq_getElem hn']
          simp [StepSame, hl]
        · have hn' : ¬ n < (x' :: r').length := by simp at hn ⊢; omega
          rw [List.getElem?_eq_none (by omega), List.getElem?_eq_none (by omega)]
          simp [StepSame]
  | jump =>
    simp only
    cases st with
    | nil =>
      cases st' with
      | nil => simp [StepSame]
      | cons _ _ => simp at hl
    | cons x r =>
      cases st' with
      | nil => simp at hl
      | cons x' r' => simp [StepSame]
  | jumpi =>
    simp only
    match st, st', hl with
    | [], [], _ => simp [StepSame]
    | [_], [_], _ => simp [StepSame]
    | _ :: _ :: _, _ :: _ :: _, _ => simp [StepSame]
  | halt k =>
    simp only [hl]
    split <;> simp [StepSame]

theorem execBlock_none_len (E : Env) (ω : Nat → Word) (ops : List Disasm.Instr)
    (pc pc' idx : Nat) (st st' : List Word) (hl : st.length = st'.length)
    (h : execBlock E ω ops pc idx st = none) : execBlock E ω ops pc' idx st' = none := by
  induction ops generalizing pc pc' idx st st' with
  | nil => simp [execBlock] at h
  | cons i rest ih =>
    have hs := exec1_len E E ω ω pc pc' idx idx i st st' hl
    unfold execBlock at h ⊢
    generalize exec1 E ω pc idx i st = r1 at h hs
    generalize exec1 E ω pc' idx i st' = r2 at hs
    match r1, r2, hs with
    | none, none, _ => rfl
    | some (.next a), some (.next b), hs =>
      simp only at h ⊢
      exact ih _ _ _ _ _ hs h
    | some .halt, some .halt, _ => simp at h
    | some (.jump _ _), some (.jump _ _), _ => simp at h
    | some (.jumpi _ _ _), some (.jumpi _ _ _), _ => simp at h

/-! ### The loop -/

theorem annotateLoop_cons_inv (t : OpTable) (i : Disasm.Instr) (rest : List Disasm.Instr)
    (pc idx vars : Nat) (cur : List Tree) (exit : Exit) (vars' : Nat) (cur' : List Tree)
    (h : annotateLoop t (i :: rest) pc idx vars cur = .ok (exit, vars', cur')) :
    ∃ ex w, annotateOne pc idx ⟨vars, cur, (rowOf t i.op).pops, (rowOf t i.op).pushes⟩ i = .ok (ex, w) ∧
      ((ex = some exit ∧ vars' = w.vars ∧ cur' = w.cur) ∨
       (ex = none ∧ annotateLoop t rest (pc + (rowOf t i.op).size) (idx + 1) w.vars w.cur =
          .ok (exit, vars', cur'))) := by
  simp only [annotateLoop] at h
  split at h
  · cases h
  · next ex w h1 =>
    refine ⟨_, _, h1, Or.inl ?_⟩
    repeat' (split at h)
    all_goals first | (cases h; done) | (cases h; exact ⟨rfl, rfl, rfl⟩)
  · next w h1 =>
    refine ⟨_, _, h1, Or.inr ⟨rfl, ?_⟩⟩
    split at h
    · cases h
    · split at h
      · cases h
      · exact h

/-- Some environment (the first components of `step_model` do not depend on it). -/
def someEnv : Env := ⟨0, 0, 0, 0, 0, 0, 0, 0, 0, 0, 0, 0, 0, 0, fun _ => 0, fun _ => 0⟩

theorem annotateOne_mono (pc idx : Nat) (w w' : Win) (i : Disasm.Instr) (ex : Option Exit)
    (h : annotateOne pc idx w i = .ok (ex, w')) : w.vars ≤ w'.vars :=
  (step_model someEnv (fun _ => 0) (fun _ => 0) [] (by intro i; simp) _ _ _ _ _ _ h).1

theorem loop_mono (t : OpTable) (ops : List Disasm.Instr) (pc idx vars : Nat) (cur : List Tree)
    (exit : Exit) (vars' : Nat) (cur' : List Tree)
    (h : annotateLoop t ops pc idx vars cur = .ok (exit, vars', cur')) : vars ≤ vars' := by
  induction ops generalizing pc idx vars cur with
  | nil =>
    simp only [annotateLoop, Except.ok.injEq, Prod.mk.injEq] at h
    omega
  | cons i rest ih =>
    obtain ⟨ex, w, h1, h2⟩ := annotateLoop_cons_inv _ _ _ _ _ _ _ _ _ _ h
    have hm := annotateOne_mono _ _ _ _ _ _ h1
    simp only at hm
    rcases h2 with ⟨-, rfl, -⟩ | ⟨-, h2⟩
    · exact hm
    · exact Nat.le_trans hm (ih _ _ _ _ h2)

section Loop
variable (E : Env) (ω : Nat → Word) (ρ : Nat → Word) (entry : List Word)

/-- `ExitAgrees` on the components of the loop's result. -/
def Agrees (exit : Exit) (vars' : Nat) (cur' : List Tree) : Outcome → Prop
  | .fall pc st => exit = .fallThrough pc ∧ st = model E ω ρ entry vars' cur'
  | .halt => exit = .terminate
  | .jump d st => (∃ e, exit = .unconditional e ∧ Tree.eval E ω ρ e = d) ∧
      st = model E ω ρ entry vars' cur'
  | .jumpi d c f st => (∃ ce te, exit = .branch ce te f ∧ Tree.eval E ω ρ te = d ∧
        Tree.eval E ω ρ ce = c) ∧ st = model E ω ρ entry vars' cur'

variable (hρ : ∀ i, ρ (i + 1) = entry.getD i 0)
include hρ

theorem loop_sound (t : OpTable) (ops : List Disasm.Instr) (pc idx vars : Nat) (cur : List Tree)
    (exit : Exit) (vars' : Nat) (cur' : List Tree)
    (h : annotateLoop t ops pc idx vars cur = .ok (exit, vars', cur'))
    (hs : ∀ i ∈ ops, sizeOf t i.op = i.len)
    (hpc : pc + (ops.map Disasm.Instr.len).sum ≤ 65536)
    (hv : vars' ≤ entry.length) :
    ∃ o, execBlock E ω ops pc idx (model E ω ρ entry vars cur) = some o ∧
      Agrees E ω ρ entry exit vars' cur' o := by
  induction ops generalizing pc idx vars cur with
  | nil =>
    simp only [annotateLoop, Except.ok.injEq, Prod.mk.injEq] at h
    obtain ⟨rfl, rfl, rfl⟩ := h
    exact ⟨_, rfl, rfl, rfl⟩
  | cons i rest ih =>
    have hlt : pc % 65536 = pc := by
      apply Nat.mod_eq_of_lt
      simp only [List.map_cons, List.sum_cons, Disasm.Instr.len] at hpc
      omega
    have hsz : (rowOf t i.op).size = i.len := hs i (List.mem_cons_self ..)
    unfold execBlock
    obtain ⟨ex, w, h1, h2⟩ := annotateLoop_cons_inv _ _ _ _ _ _ _ _ _ _ h
    obtain ⟨hm, hok, -, hsome⟩ := step_model E ω ρ entry hρ _ _ _ _ _ _ h1
    simp only at hm hsome
    rw [hlt] at hsome
    rcases h2 with ⟨rfl, rfl, rfl⟩ | ⟨rfl, h2⟩
    · rw [hsome hv]
      cases exit with
      | terminate => exact ⟨_, rfl, rfl⟩
      | fallThrough p => exact absurd hok (by simp [ExitOK])
      | unconditional e => exact ⟨_, rfl, ⟨e, rfl, rfl⟩, rfl⟩
      | branch c d f =>
        simp only [ExitOK] at hok
        subst hok
        exact ⟨_, rfl, ⟨c, d, rfl, rfl, rfl⟩, rfl⟩
    · have hmono := loop_mono _ _ _ _ _ _ _ _ _ h2
      rw [hsome (by omega)]
      simp only [toStep]
      rw [hsz] at h2
      refine ih _ _ _ _ h2 (fun j hj => hs j (List.mem_cons_of_mem _ hj)) ?_
      simp only [List.map_cons, List.sum_cons] at hpc
      omega

theorem loop_needed (t : OpTable) (ops : List Disasm.Instr) (pc idx vars : Nat) (cur : List Tree)
    (exit : Exit) (vars' : Nat) (cur' : List Tree)
    (h : annotateLoop t ops pc idx vars cur = .ok (exit, vars', cur'))
    (hv : vars ≤ entry.length) (hlt : entry.length < vars') (pcs : Nat) :
    execBlock E ω ops pcs idx (model E ω ρ entry vars cur) = none := by
  induction ops generalizing pc pcs idx vars cur with
  | nil =>
    simp only [annotateLoop, Except.ok.injEq, Prod.mk.injEq] at h
    omega
  | cons i rest ih =>
    unfold execBlock
    have hsame := exec1_len E E ω ω (pc % 65536) pcs idx idx i _ _
      (rfl : (model E ω ρ entry vars cur).length = _)
    obtain ⟨ex, w, h1, h2⟩ := annotateLoop_cons_inv _ _ _ _ _ _ _ _ _ _ h
    obtain ⟨hm, hok, hnone, hsome⟩ := step_model E ω ρ entry hρ _ _ _ _ _ _ h1
    simp only at hm hnone hsome
    by_cases hw : entry.length < w.vars
    · rw [hnone hv hw] at hsame
      generalize exec1 E ω pcs idx i (model E ω ρ entry vars cur) = r at hsame
      match r, hsame with
      | none, _ => rfl
    · rcases h2 with ⟨rfl, rfl, rfl⟩ | ⟨rfl, h2⟩
      · omega
      · rw [hsome (by omega)] at hsame
        generalize exec1 E ω pcs idx i (model E ω ρ entry vars cur) = r at hsame
        match r, hsame with
        | some (.next st'), hsame =>
          simp only [toStep, StepSame] at hsame
          simp only
          exact execBlock_none_len E ω _ (pc + (rowOf t i.op).size) (pcs + i.len) _ _ _ hsame
            (ih _ _ _ _ h2 (by omega) _)

end Loop

end Annot
end EtkVerif
