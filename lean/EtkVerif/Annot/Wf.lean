/-
Every tree the annotator builds is well formed.
-/
import EtkVerif.Annot.Loop
namespace EtkVerif
namespace Annot
open Ops Evm

/-- All trees of a list are well formed. -/
def AllWf (l : List Tree) : Prop := ∀ e ∈ l, e.wf = true

theorem fresh_wf (v n : Nat) : AllWf (fresh v n) := by
  induction n generalizing v with
  | zero => intro e he; simp [fresh] at he
  | succ n ih =>
    intro e he
    simp only [fresh, List.mem_cons] at he
    rcases he with rfl | he
    · rfl
    · exact ih _ e he

theorem ofList_length (l : List Tree) : (Trees.ofList l).length = l.length := by
  induction l with
  | nil => rfl
  | cons a l ih => simp [Trees.ofList, Trees.length, ih]

theorem wfAll_ofList (l : List Tree) (h : AllWf l) : Tree.wfAll (Trees.ofList l) = true := by
  induction l with
  | nil => rfl
  | cons a l ih =>
    simp only [Trees.ofList, Tree.wfAll, Bool.and_eq_true]
    exact ⟨h a (List.mem_cons_self ..), ih (fun e he => h e (List.mem_cons_of_mem _ he))⟩

theorem node_wf (s : Sym) (tag : Nat) (args : List Tree) (ha : s.arity = args.length)
    (h : AllWf args) : (Tree.node s tag (Trees.ofList args)).wf = true := by
  simp only [Tree.wf, Bool.and_eq_true, beq_iff_eq]
  exact ⟨by rw [ofList_length, ha], wfAll_ofList _ h⟩

theorem popN_wf (k : Nat) (w w' : Win) (ts : List Tree) (h : popN k w = .ok (ts, w'))
    (hw : AllWf w.cur) : ts.length = k ∧ AllWf ts ∧ AllWf w'.cur := by
  obtain ⟨hl, -, hc⟩ := popN_spec _ _ _ _ h
  have hall : AllWf (ts ++ w'.cur) := by
    rw [hc]; intro e he
    rcases List.mem_append.mp he with he | he
    · exact hw e he
    · exact fresh_wf _ _ e he
  exact ⟨hl, fun e he => hall e (List.mem_append_left _ he),
    fun e he => hall e (List.mem_append_right _ he)⟩

theorem window_wf (depth : Nat) (w w' : Win) (h : window w depth = .ok w')
    (hw : AllWf w.cur) : AllWf w'.cur := by
  obtain ⟨-, hc⟩ := window_spec _ _ _ h
  rw [hc]; intro e he
  rcases List.mem_append.mp he with he | he
  · exact hw e he
  · exact fresh_wf _ _ e he

theorem swapTop_mem (l : List Tree) (n : Nat) (e : Tree) (he : e ∈ swapTop l n) : e ∈ l := by
  unfold swapTop at he
  split at he
  · next top rest deep hd =>
    split at he
    · exact he
    · have hdeep : deep ∈ top :: rest := List.mem_of_getElem? hd
      simp only [List.mem_cons] at he hdeep ⊢
      rcases he with rfl | he
      · exact hdeep
      · rcases List.mem_or_eq_of_mem_set he with he | rfl
        · exact Or.inr he
        · exact Or.inl rfl
  · exact he

/-- The trees of an exit are well formed. -/
def ExitWf : Exit → Prop
  | .unconditional e => e.wf = true
  | .branch c d _ => c.wf = true ∧ d.wf = true
  | _ => True

def OptExitWf : Option Exit → Prop
  | some e => ExitWf e
  | none => True

theorem cons_wf (t : Tree) (l : List Tree) (ht : t.wf = true) (hl : AllWf l) : AllWf (t :: l) := by
  intro e he
  simp only [List.mem_cons] at he
  rcases he with rfl | he
  · exact ht
  · exact hl e he

theorem step_wf (pc idx : Nat) (w w' : Win) (i : Disasm.Instr) (ex : Option Exit)
    (h : annotateOne pc idx w i = .ok (ex, w')) (hw : AllWf w.cur) :
    AllWf w'.cur ∧ OptExitWf ex := by
  have hc := corr i.op
  unfold annotateOne at h
  generalize shapeOf i.op = sh at h hc
  generalize kindOf i.op = kd at hc
  cases hc with
  | halt k =>
    simp only at h
    split at h
    · cases h
    · next ts w1 h1 =>
      cases h
      exact ⟨(popN_wf _ _ _ _ h1 hw).2.2, trivial⟩
  | fn s k f ha hv hf =>
    simp only at h
    split at h
    · cases h
    · next ts w1 h1 =>
      split at h
      · cases h
      · next w2 h2 =>
        cases h
        obtain ⟨hl, h3, h4⟩ := popN_wf _ _ _ _ h1 hw
        obtain ⟨-, pcur⟩ := push_spec _ _ _ h2
        rw [pcur]
        exact ⟨cons_wf _ _ (node_wf _ _ _ (by omega) h3) h4, trivial⟩
  | read s k ha hv hf =>
    simp only at h
    split at h
    · cases h
    · next ts w1 h1 =>
      split at h
      · cases h
      · next w2 h2 =>
        cases h
        obtain ⟨hl, h3, h4⟩ := popN_wf _ _ _ _ h1 hw
        obtain ⟨-, pcur⟩ := push_spec _ _ _ h2
        rw [pcur]
        exact ⟨cons_wf _ _ (node_wf _ _ _ (by omega) h3) h4, trivial⟩
  | drop k =>
    simp only at h
    split at h
    · cases h
    · next ts w1 h1 =>
      cases h
      exact ⟨(popN_wf _ _ _ _ h1 hw).2.2, trivial⟩
  | pc =>
    simp only at h
    split at h
    · cases h
    · next w2 h2 =>
      cases h
      obtain ⟨-, pcur⟩ := push_spec _ _ _ h2
      rw [pcur]
      exact ⟨cons_wf _ _ rfl hw, trivial⟩
  | nop =>
    simp only at h
    cases h
    exact ⟨hw, trivial⟩
  | pushImm =>
    simp only at h
    split at h
    · cases h
    · next w2 h2 =>
      cases h
      obtain ⟨-, pcur⟩ := push_spec _ _ _ h2
      rw [pcur]
      exact ⟨cons_wf _ _ rfl hw, trivial⟩
  | dup n =>
    simp only at h
    split at h
    · cases h
    · next w1 h1 =>
      split at h
      · cases h
      · next t ht =>
        split at h
        · cases h
        · next w2 h2 =>
          cases h
          have h3 := window_wf _ _ _ h1 hw
          obtain ⟨-, pcur⟩ := push_spec _ _ _ h2
          rw [pcur]
          exact ⟨cons_wf _ _ (h3 t (List.mem_of_getElem? ht)) h3, trivial⟩
  | swap n hn =>
    simp only at h
    split at h
    · cases h
    · next w1 h1 =>
      cases h
      have h3 := window_wf _ _ _ h1 hw
      exact ⟨fun e he => h3 e (swapTop_mem _ _ _ he), trivial⟩
  | jump =>
    simp only at h
    split at h
    · cases h
    · next d w1 h1 =>
      cases h
      obtain ⟨-, h3, h4⟩ := popN_wf _ _ _ _ (popN_one _ _ _ h1) hw
      exact ⟨h4, h3 d (List.mem_cons_self ..)⟩
  | jumpi =>
    simp only at h
    split at h
    · cases h
    · next d w1 h1 =>
      split at h
      · cases h
      · next c w2 h2 =>
        cases h
        obtain ⟨-, h3, h4⟩ := popN_wf _ _ _ _ (popN_two _ _ _ _ _ h1 h2) hw
        exact ⟨h4, h3 c (by simp), h3 d (by simp)⟩

theorem loop_wf (t : OpTable) (ops : List Disasm.Instr) (pc idx vars : Nat) (cur : List Tree)
    (exit : Exit) (vars' : Nat) (cur' : List Tree)
    (h : annotateLoop t ops pc idx vars cur = .ok (exit, vars', cur')) (hw : AllWf cur) :
    AllWf cur' ∧ ExitWf exit := by
  induction ops generalizing pc idx vars cur with
  | nil =>
    simp only [annotateLoop, Except.ok.injEq, Prod.mk.injEq] at h
    obtain ⟨rfl, rfl, rfl⟩ := h
    exact ⟨hw, trivial⟩
  | cons i rest ih =>
    obtain ⟨ex, w, h1, h2⟩ := annotateLoop_cons_inv _ _ _ _ _ _ _ _ _ _ h
    obtain ⟨h3, h4⟩ := step_wf _ _ _ _ _ _ h1 hw
    rcases h2 with ⟨rfl, rfl, rfl⟩ | ⟨rfl, h2⟩
    · exact ⟨h3, h4⟩
    · exact ih _ _ _ _ h2 h3

end Annot
end EtkVerif
