/-
Model of `etk_dasm::blocks::annotated::{StackWindow, Annotator, AnnotatedBlock}`.

`shapeOf` is a transcription of `Annotator::annotate_one` opcode by opcode; every
assertion of the Rust code (`count_pops`, `count_pushes`, the drop-time ledger
check, `assert!(is_last)`, exit/metadata agreement, `assert!(!op.is_exit())`, the
`u16` variable counter) is an explicit `panic` outcome.
-/
import EtkVerif.Sym.Basic
import EtkVerif.Blocks.Model
namespace EtkVerif
namespace Annot
open Ops

/-- What `annotate_one` does for an opcode. -/
inductive Shape
  | halt (k : Nat)           -- pop k items, `Some(Exit::Terminate)`
  | op (s : Sym) (k : Nat)   -- pop k items (first popped = first child), push `s(children)`
  | drop (k : Nat)           -- pop k items
  | pc                       -- push `GetPc(pc as u16)`
  | nop                      -- jumpdest
  | pushImm                  -- push the immediate as a constant (push0: 0)
  | dup (n : Nat)            -- `peek(n-1)` then push a copy
  | swap (n : Nat)           -- `swap(n)`
  | jump                     -- pop dest, `Exit::Unconditional`
  | jumpi                    -- pop dest, pop condition, `Exit::Branch`
  deriving Repr, DecidableEq

/-- `Annotator::annotate_one`, by opcode byte (Cancun as etk defines it). -/
def shapeOf (b : Nat) : Shape :=
  if b = 0x00 then .halt 0
  else if b = 0x01 then .op .add 2 else if b = 0x02 then .op .mul 2
  else if b = 0x03 then .op .sub 2 else if b = 0x04 then .op .div 2
  else if b = 0x05 then .op .sdiv 2 else if b = 0x06 then .op .mod 2
  else if b = 0x07 then .op .smod 2 else if b = 0x08 then .op .addmod 3
  else if b = 0x09 then .op .mulmod 3 else if b = 0x0a then .op .exp 2
  else if b = 0x0b then .op .signextend 2
  else if b = 0x10 then .op .lt 2 else if b = 0x11 then .op .gt 2
  else if b = 0x12 then .op .slt 2 else if b = 0x13 then .op .sgt 2
  else if b = 0x14 then .op .eq 2 else if b = 0x15 then .op .iszero 1
  else if b = 0x16 then .op .and 2 else if b = 0x17 then .op .or 2
  else if b = 0x18 then .op .xor 2 else if b = 0x19 then .op .not 1
  else if b = 0x1a then .op .byte 2 else if b = 0x1b then .op .shl 2
  else if b = 0x1c then .op .shr 2 else if b = 0x1d then .op .sar 2
  else if b = 0x20 then .op .keccak256 2
  else if b = 0x30 then .op .address 0 else if b = 0x31 then .op .balance 1
  else if b = 0x32 then .op .origin 0 else if b = 0x33 then .op .caller 0
  else if b = 0x34 then .op .callvalue 0 else if b = 0x35 then .op .calldataload 1
  else if b = 0x36 then .op .calldatasize 0 else if b = 0x37 then .drop 3
  else if b = 0x38 then .op .codesize 0 else if b = 0x39 then .drop 3
  else if b = 0x3a then .op .gasprice 0 else if b = 0x3b then .op .extcodesize 1
  else if b = 0x3c then .drop 4 else if b = 0x3d then .op .returndatasize 0
  else if b = 0x3e then .drop 3 else if b = 0x3f then .op .extcodehash 1
  else if b = 0x40 then .op .blockhash 1 else if b = 0x41 then .op .coinbase 0
  else if b = 0x42 then .op .timestamp 0 else if b = 0x43 then .op .number 0
  else if b = 0x44 then .op .difficulty 0 else if b = 0x45 then .op .gaslimit 0
  else if b = 0x46 then .op .chainid 0 else if b = 0x47 then .op .selfbalance 0
  else if b = 0x48 then .op .basefee 0
  else if b = 0x50 then .drop 1 else if b = 0x51 then .op .mload 1
  else if b = 0x52 then .drop 2 else if b = 0x53 then .drop 2
  else if b = 0x54 then .op .sload 1 else if b = 0x55 then .drop 2
  else if b = 0x56 then .jump else if b = 0x57 then .jumpi
  else if b = 0x58 then .pc else if b = 0x59 then .op .msize 0
  else if b = 0x5a then .op .gas 0 else if b = 0x5b then .nop
  else if b = 0x5e then .drop 3
  else if 0x5f ≤ b ∧ b ≤ 0x7f then .pushImm
  else if 0x80 ≤ b ∧ b ≤ 0x8f then .dup (b - 0x7f)
  else if 0x90 ≤ b ∧ b ≤ 0x9f then .swap (b - 0x8f)
  else if 0xa0 ≤ b ∧ b ≤ 0xa4 then .drop (b - 0xa0 + 2)
  else if b = 0xf0 then .op .create 3 else if b = 0xf1 then .op .call 7
  else if b = 0xf2 then .op .callcode 7 else if b = 0xf3 then .halt 2
  else if b = 0xf4 then .op .delegatecall 6 else if b = 0xf5 then .op .create2 4
  else if b = 0xfa then .op .staticcall 6 else if b = 0xfd then .halt 2
  else if b = 0xff then .halt 1
  else .halt 0     -- `invalid` and every `Invalid*` variant

/-- `Exit<Expr>`. -/
inductive Exit
  | terminate
  | fallThrough (pc : Nat)
  | unconditional (dest : Tree)
  | branch (cond : Tree) (whenTrue : Tree) (whenFalse : Nat)

/-- `StackWindow` + the annotator's current stack and variable counter. -/
structure Win where
  vars : Nat                 -- `Annotator::vars`
  cur : List Tree            -- current stack, top first
  pops : Nat                 -- remaining ledger
  pushes : Nat

inductive Panic
  | countPops | countPushesPops | countPushes | dropLedger | varOverflow
  | notLast | exitMismatch | exitNotReturned
  deriving Repr, DecidableEq

/-- `expand_stack(by)`: fresh variables appended to the bottom. `Var::with_id`
takes a `NonZeroU16` built from a `u16` counter. -/
def expand (w : Win) : Nat → Except Panic Win
  | 0 => .ok w
  | n + 1 =>
    if w.vars + 1 > 65535 then .error .varOverflow
    else expand { w with vars := w.vars + 1, cur := w.cur ++ [Tree.leaf (.var (w.vars + 1))] } n

def countPops (w : Win) (c : Nat) : Except Panic Win :=
  if w.pops < c then .error .countPops else .ok { w with pops := w.pops - c }

def countPushes (w : Win) (c : Nat) : Except Panic Win :=
  if w.pops ≠ 0 then .error .countPushesPops
  else if w.pushes < c then .error .countPushes else .ok { w with pushes := w.pushes - c }

/-- `StackWindow::pop`. -/
def pop (w : Win) : Except Panic (Tree × Win) :=
  match countPops w 1 with
  | .error e => .error e
  | .ok w =>
    match (if w.cur.isEmpty then expand w 1 else .ok w) with
    | .error e => .error e
    | .ok w =>
      match w.cur with
      | [] => .error .varOverflow      -- unreachable: `expand` made it non-empty
      | t :: rest => .ok (t, { w with cur := rest })

/-- pop `k` items, first popped first. -/
def popN : Nat → Win → Except Panic (List Tree × Win)
  | 0, w => .ok ([], w)
  | k + 1, w =>
    match pop w with
    | .error e => .error e
    | .ok (t, w) =>
      match popN k w with
      | .error e => .error e
      | .ok (ts, w) => .ok (t :: ts, w)

/-- `StackWindow::push`. -/
def push (w : Win) (t : Tree) : Except Panic Win :=
  match countPushes w 1 with
  | .error e => .error e
  | .ok w => .ok { w with cur := t :: w.cur }

/-- The common prefix of `peek(depth)` and `swap(depth)`. -/
def window (w : Win) (depth : Nat) : Except Panic Win :=
  match countPops w (depth + 1) with
  | .error e => .error e
  | .ok w =>
    match countPushes w (depth + 1) with
    | .error e => .error e
    | .ok w => if w.cur.length < depth + 1 then expand w (1 + depth - w.cur.length) else .ok w

/-- `a.swap_remove_front(depth)` then `push_front`: exchange positions 0 and `depth`. -/
def swapTop (l : List Tree) (depth : Nat) : List Tree :=
  match l, l[depth]? with
  | top :: rest, some deep => if depth = 0 then l else deep :: rest.set (depth - 1) top
  | _, _ => l

/-- Big-endian value of an immediate. -/
def beValue (imm : List Nat) : Nat := imm.foldl (fun acc b => acc * 256 + b) 0

/-- `Annotator::annotate_one(pc, window, op)`; `idx` tags state-dependent reads. -/
def annotateOne (pc idx : Nat) (w : Win) (i : Disasm.Instr) : Except Panic (Option Exit × Win) :=
  match shapeOf i.op with
  | .halt k =>
    match popN k w with
    | .error e => .error e
    | .ok (_, w) => .ok (some .terminate, w)
  | .op s k =>
    match popN k w with
    | .error e => .error e
    | .ok (args, w) =>
      match push w (.node s (if s.volatile then idx else 0) (Trees.ofList args)) with
      | .error e => .error e
      | .ok w => .ok (none, w)
  | .drop k =>
    match popN k w with
    | .error e => .error e
    | .ok (_, w) => .ok (none, w)
  | .pc =>
    match push w (Tree.leaf (.getpc (pc % 65536))) with
    | .error e => .error e
    | .ok w => .ok (none, w)
  | .nop => .ok (none, w)
  | .pushImm =>
    match push w (Tree.leaf (.const (beValue i.imm))) with
    | .error e => .error e
    | .ok w => .ok (none, w)
  | .dup n =>
    match window w (n - 1) with
    | .error e => .error e
    | .ok w =>
      match w.cur[n - 1]? with
      | none => .error .varOverflow    -- unreachable
      | some t =>
        match push w t with
        | .error e => .error e
        | .ok w => .ok (none, w)
  | .swap n =>
    match window w n with
    | .error e => .error e
    | .ok w => .ok (none, { w with cur := swapTop w.cur n })
  | .jump =>
    match pop w with
    | .error e => .error e
    | .ok (dest, w) => .ok (some (.unconditional dest), w)
  | .jumpi =>
    match pop w with
    | .error e => .error e
    | .ok (dest, w) =>
      match pop w with
      | .error e => .error e
      | .ok (cond, w) => .ok (some (.branch cond dest (pc + 1)), w)

/-- `AnnotatedBlock`. -/
structure Annotated where
  offset : Nat
  inputs : Nat               -- `inputs.stack` is `[var1 … var_inputs]`
  outputs : List Tree
  exit : Exit
  jumpTarget : Bool
  size : Nat

/-- The loop of `Annotator::annotate`: `ops` are the instructions not yet
processed, `idx` the index of the next one. -/
def annotateLoop (t : OpTable) : List Disasm.Instr → Nat → Nat → Nat → List Tree →
    Except Panic (Exit × Nat × List Tree)
  | [], pc, _, vars, cur => .ok (.fallThrough pc, vars, cur)
  | i :: rest, pc, idx, vars, cur =>
    let row := rowOf t i.op
    match annotateOne pc idx ⟨vars, cur, row.pops, row.pushes⟩ i with
    | .error e => .error e
    | .ok (some exit, w) =>
      if !rest.isEmpty then .error .notLast
      else
        let matches_ := match exit with
          | .terminate => row.exit
          | .branch _ _ _ => row.jump
          | .unconditional _ => row.jump
          | .fallThrough _ => false
        if !matches_ then .error .exitMismatch
        else if w.pops ≠ 0 ∨ w.pushes ≠ 0 then .error .dropLedger
        else .ok (exit, w.vars, w.cur)
    | .ok (none, w) =>
      if row.exit then .error .exitNotReturned
      else if w.pops ≠ 0 ∨ w.pushes ≠ 0 then .error .dropLedger
      else annotateLoop t rest (pc + row.size) (idx + 1) w.vars w.cur

/-- `AnnotatedBlock::annotate`. -/
def annotate (t : OpTable) (b : Blocks.Block) : Except Panic Annotated :=
  match annotateLoop t b.ops b.offset 0 0 [] with
  | .error e => .error e
  | .ok (exit, vars, cur) =>
    .ok { offset := b.offset, inputs := vars, outputs := cur, exit := exit,
          jumpTarget := (b.ops.head?.map (fun i => (rowOf t i.op).jt)).getD false,
          size := b.size t }

end Annot
end EtkVerif
