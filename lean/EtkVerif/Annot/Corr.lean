/-
Opcode by opcode: what the annotator does (`shapeOf`) corresponds to what the
concrete semantics does (`kindOf`), and the symbol the annotator records means
(`Sym.apply`) what the semantics computes.
-/
import EtkVerif.Annot.Model
import EtkVerif.Sym.Eval
import EtkVerif.Evm.Sem
namespace EtkVerif
namespace Annot
open Ops Evm

/-- Correspondence between an annotator shape and a semantic kind. -/
inductive Corr : Shape → Kind → Prop
  | halt (k : Nat) : Corr (.halt k) (.halt k)
  | fn (s : Sym) (k : Nat) (f : Env → List Word → Word) (ha : s.arity = k) (hv : s.volatile = false)
      (h : ∀ (E : Env) (ω ρ : Nat → Word) (tag : Nat) (args : List Word), args.length = k →
        s.apply E ω ρ tag args = f E args) : Corr (.op s k) (.fn k f)
  | read (s : Sym) (k : Nat) (ha : s.arity = k) (hv : s.volatile = true)
      (h : ∀ (E : Env) (ω ρ : Nat → Word) (tag : Nat) (args : List Word),
        s.apply E ω ρ tag args = ω tag) : Corr (.op s k) (.read k)
  | drop (k : Nat) : Corr (.drop k) (.pops k)
  | pc : Corr .pc .pc
  | nop : Corr .nop .jumpdest
  | pushImm : Corr .pushImm .push
  | dup (n : Nat) : Corr (.dup n) (.dup n)
  | swap (n : Nat) (hn : 1 ≤ n) : Corr (.swap n) (.swap n)
  | jump : Corr .jump .jump
  | jumpi : Corr .jumpi .jumpi

theorem corr_fn2 (s : Sym) (f : Word → Word → Word) (ha : s.arity = 2) (hv : s.volatile = false)
    (h : ∀ (E : Env) (ω ρ : Nat → Word) (tag : Nat) (a b : Word), s.apply E ω ρ tag [a, b] = f a b) :
    Corr (.op s 2) (fn2 f) := by
  refine Corr.fn s 2 _ ha hv ?_
  intro E ω ρ tag args hl
  match args, hl with
  | [a, b], _ => exact h E ω ρ tag a b

theorem corr_fn1 (s : Sym) (f : Word → Word) (ha : s.arity = 1) (hv : s.volatile = false)
    (h : ∀ (E : Env) (ω ρ : Nat → Word) (tag : Nat) (a : Word), s.apply E ω ρ tag [a] = f a) :
    Corr (.op s 1) (fn1 f) := by
  refine Corr.fn s 1 _ ha hv ?_
  intro E ω ρ tag args hl
  match args, hl with
  | [a], _ => exact h E ω ρ tag a

theorem corr_fn3 (s : Sym) (f : Word → Word → Word → Word) (ha : s.arity = 3) (hv : s.volatile = false)
    (h : ∀ (E : Env) (ω ρ : Nat → Word) (tag : Nat) (a b c : Word),
      s.apply E ω ρ tag [a, b, c] = f a b c) :
    Corr (.op s 3) (fn3 f) := by
  refine Corr.fn s 3 _ ha hv ?_
  intro E ω ρ tag args hl
  match args, hl with
  | [a, b, c], _ => exact h E ω ρ tag a b c

theorem corr_env0 (s : Sym) (f : Env → Word) (ha : s.arity = 0) (hv : s.volatile = false)
    (h : ∀ (E : Env) (ω ρ : Nat → Word) (tag : Nat), s.apply E ω ρ tag [] = f E) :
    Corr (.op s 0) (env0 f) := by
  refine Corr.fn s 0 _ ha hv ?_
  intro E ω ρ tag args hl
  match args, hl with
  | [], _ => exact h E ω ρ tag

theorem corr_env1 (s : Sym) (f : Env → Word → Word) (ha : s.arity = 1) (hv : s.volatile = false)
    (h : ∀ (E : Env) (ω ρ : Nat → Word) (tag : Nat) (a : Word), s.apply E ω ρ tag [a] = f E a) :
    Corr (.op s 1) (env1 f) := by
  refine Corr.fn s 1 _ ha hv ?_
  intro E ω ρ tag args hl
  match args, hl with
  | [a], _ => exact h E ω ρ tag a

/-- Closes one leaf of the opcode chain. -/
macro "corr_leaf" : tactic => `(tactic| first
  | exact Corr.halt _
  | exact Corr.drop _
  | exact Corr.pc
  | exact Corr.nop
  | exact Corr.pushImm
  | exact Corr.dup _
  | exact Corr.jump
  | exact Corr.jumpi
  | exact corr_fn2 _ _ rfl rfl (fun _ _ _ _ _ _ => rfl)
  | exact corr_fn1 _ _ rfl rfl (fun _ _ _ _ _ => rfl)
  | exact corr_fn3 _ _ rfl rfl (fun _ _ _ _ _ _ _ => rfl)
  | exact corr_env0 _ _ rfl rfl (fun _ _ _ _ => rfl)
  | exact corr_env1 _ _ rfl rfl (fun _ _ _ _ _ => rfl)
  | exact Corr.read _ _ rfl rfl (fun _ _ _ _ _ => rfl))

theorem corr_ite {c : Prop} [Decidable c] {s s' : Shape} {k k' : Kind}
    (h1 : c → Corr s k) (h2 : ¬c → Corr s' k') :
    Corr (if c then s else s') (if c then k else k') := by
  by_cases h : c
  · rw [if_pos h, if_pos h]; exact h1 h
  · rw [if_neg h, if_neg h]; exact h2 h

/-- One link of the two parallel `if` chains. -/
macro "corr_link" : tactic => `(tactic|
  (refine corr_ite (fun h => ?_) (fun _ => ?_)
   · first | corr_leaf | exact Corr.swap _ (by omega)))

set_option maxRecDepth 4000 in
theorem corr (b : Nat) : Corr (shapeOf b) (kindOf b) := by
  unfold shapeOf kindOf
  repeat corr_link
  exact Corr.halt _

end Annot
end EtkVerif
