/-
T-ann: the annotator's symbolic execution, evaluated, is concrete execution.
-/
import EtkVerif.Annot.Model
import EtkVerif.Sym.Eval
import EtkVerif.Evm.Sem
namespace EtkVerif
namespace Annot
open Ops Evm

/-- Input variable `i` is the `i`-th entry-stack slot from the top (1-based). -/
def bind (entry : List Word) : Nat → Word := fun i => entry.getD (i - 1) 0

/-- The table's `size` agrees with the instructions' encoded length. -/
def SizesOK (t : OpTable) (ops : List Disasm.Instr) : Prop := ∀ i ∈ ops, sizeOf t i.op = i.len

/-- Relates the annotator's exit to the concrete way control leaves the block. -/
def ExitAgrees (E : Env) (ω : Nat → Word) (entry : List Word) (a : Annotated) : Outcome → Prop
  | .fall pc st => a.exit = .fallThrough pc ∧
      st = a.outputs.map (Tree.eval E ω (bind entry)) ++ entry.drop a.inputs
  | .halt => a.exit = .terminate
  | .jump d st => (∃ e, a.exit = .unconditional e ∧ Tree.eval E ω (bind entry) e = d) ∧
      st = a.outputs.map (Tree.eval E ω (bind entry)) ++ entry.drop a.inputs
  | .jumpi d c f st => (∃ ce te, a.exit = .branch ce te f ∧ Tree.eval E ω (bind entry) te = d ∧
        Tree.eval E ω (bind entry) ce = c) ∧
      st = a.outputs.map (Tree.eval E ω (bind entry)) ++ entry.drop a.inputs

/-- T-ann.  For every block the annotator accepts, every environment, every
oracle for state-dependent reads and every entry stack at least as deep as the
declared inputs: instruction-by-instruction execution does not underflow, and
its final stack and control transfer are the evaluation of the annotated
outputs and exit. -/
theorem annotate_sound (t : OpTable) (b : Blocks.Block) (a : Annotated)
    (h : annotate t b = .ok a) (hs : SizesOK t b.ops) (hpc : b.offset + b.byteLen ≤ 65536)
    (E : Env) (ω : Nat → Word) (entry : List Word) (hd : a.inputs ≤ entry.length) :
    ∃ o, execBlock E ω b.ops b.offset 0 entry = some o ∧ ExitAgrees E ω entry a o := by
  sorry

/-- The declared inputs are exactly the deepest entry slot touched: on a
shallower entry stack execution underflows. -/
theorem annotate_inputs_needed (t : OpTable) (b : Blocks.Block) (a : Annotated)
    (h : annotate t b = .ok a) (E : Env) (ω : Nat → Word) (entry : List Word)
    (hd : entry.length < a.inputs) :
    execBlock E ω b.ops b.offset 0 entry = none := by
  sorry

/-- Offset, size and jump-target flag describe the block. -/
theorem annotate_extent (t : OpTable) (b : Blocks.Block) (a : Annotated) (h : annotate t b = .ok a) :
    a.offset = b.offset ∧ a.size = b.size t ∧
    a.jumpTarget = (b.ops.head?.map (fun i => (rowOf t i.op).jt)).getD false := by
  sorry

/-- Every tree the annotator produces is well formed (children = arity). -/
theorem annotate_wf (t : OpTable) (b : Blocks.Block) (a : Annotated) (h : annotate t b = .ok a) :
    (∀ e ∈ a.outputs, e.wf = true) ∧
    (match a.exit with
     | .unconditional e => e.wf = true
     | .branch c d _ => c.wf = true ∧ d.wf = true
     | _ => True) := by
  sorry

end Annot
end EtkVerif
