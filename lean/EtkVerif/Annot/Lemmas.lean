/-
T-ann: the annotator's symbolic execution, evaluated, is concrete execution.
-/
import EtkVerif.Annot.Model
import EtkVerif.Sym.Eval
import EtkVerif.Evm.Sem
import EtkVerif.Annot.Wf
namespace EtkVerif
namespace Annot
open Ops Evm

/-- Input variable `i` is the `i`-th entry-stack slot from the top (1-based). -/
def bind (entry : List Word) : Nat → Word := fun i => entry.getD (i - 1) 0

/-- The table's `size` agrees with the instructions' encoded length. -/
def SizesOK (t : OpTable) (ops : List Disasm.Instr) : Prop := ∀ i ∈ ops, sizeOf t i.op = i.len

/-- Relates the annotator's exit to the concrete way control leaves the block. -/
def ExitAgrees (E : Env) (ω : Nat → Word) (entry : List Word) (a : Annotated) : Outcome → Prop
  | .fall pc st => a.exit = .fallThrough pc ∧
      st = a.outputs.map (Tree.eval E ω (bind entry)) ++ entry.drop a.inputs
  | .halt => a.exit = .terminate
  | .jump d st => (∃ e, a.exit = .unconditional e ∧ Tree.eval E ω (bind entry) e = d) ∧
      st = a.outputs.map (Tree.eval E ω (bind entry)) ++ entry.drop a.inputs
  | .jumpi d c f st => (∃ ce te, a.exit = .branch ce te f ∧ Tree.eval E ω (bind entry) te = d ∧
        Tree.eval E ω (bind entry) ce = c) ∧
      st = a.outputs.map (Tree.eval E ω (bind entry)) ++ entry.drop a.inputs

theorem bind_succ (entry : List Word) (i : Nat) : bind entry (i + 1) = entry.getD i 0 := rfl

theorem annotate_inv (t : OpTable) (b : Blocks.Block) (a : Annotated) (h : annotate t b = .ok a) :
    annotateLoop t b.ops b.offset 0 0 [] = .ok (a.exit, a.inputs, a.outputs) ∧
    a.offset = b.offset ∧ a.size = b.size t ∧
    a.jumpTarget = (b.ops.head?.map (fun i => (rowOf t i.op).jt)).getD false := by
  unfold annotate at h
  split at h
  · cases h
  · next exit vars cur hl =>
    cases h
    exact ⟨hl, rfl, rfl, rfl⟩

/-- T-ann.  For every block the annotator accepts, every environment, every
oracle for state-dependent reads and every entry stack at least as deep as the
declared inputs: instruction-by-instruction execution does not underflow, and
its final stack and control transfer are the evaluation of the annotated
outputs and exit. -/
theorem annotate_sound (t : OpTable) (b : Blocks.Block) (a : Annotated)
    (h : annotate t b = .ok a) (hs : SizesOK t b.ops) (hpc : b.offset + b.byteLen ≤ 65536)
    (E : Env) (ω : Nat → Word) (entry : List Word) (hd : a.inputs ≤ entry.length) :
    ∃ o, execBlock E ω b.ops b.offset 0 entry = some o ∧ ExitAgrees E ω entry a o := by
  obtain ⟨hl, -, -, -⟩ := annotate_inv t b a h
  obtain ⟨o, ho, hag⟩ := loop_sound E ω (bind entry) entry (bind_succ entry) t b.ops b.offset 0 0 []
    a.exit a.inputs a.outputs hl hs hpc hd
  have hm : model E ω (bind entry) entry 0 [] = entry := by simp [model]
  rw [hm] at ho
  refine ⟨o, ho, ?_⟩
  cases o <;> exact hag

/-- The declared inputs are exactly the deepest entry slot touched: on a
shallower entry stack execution underflows. -/
theorem annotate_inputs_needed (t : OpTable) (b : Blocks.Block) (a : Annotated)
    (h : annotate t b = .ok a) (E : Env) (ω : Nat → Word) (entry : List Word)
    (hd : entry.length < a.inputs) :
    execBlock E ω b.ops b.offset 0 entry = none := by
  obtain ⟨hl, -, -, -⟩ := annotate_inv t b a h
  have := loop_needed E ω (bind entry) entry (bind_succ entry) t b.ops b.offset 0 0 []
    a.exit a.inputs a.outputs hl (Nat.zero_le _) hd b.offset
  have hm : model E ω (bind entry) entry 0 [] = entry := by simp [model]
  rw [hm] at this
  exact this

/-- Offset, size and jump-target flag describe the block. -/
theorem annotate_extent (t : OpTable) (b : Blocks.Block) (a : Annotated) (h : annotate t b = .ok a) :
    a.offset = b.offset ∧ a.size = b.size t ∧
    a.jumpTarget = (b.ops.head?.map (fun i => (rowOf t i.op).jt)).getD false :=
  (annotate_inv t b a h).2

/-- Every tree the annotator produces is well formed (children = arity). -/
theorem annotate_wf (t : OpTable) (b : Blocks.Block) (a : Annotated) (h : annotate t b = .ok a) :
    (∀ e ∈ a.outputs, e.wf = true) ∧
    (match a.exit with
     | .unconditional e => e.wf = true
     | .branch c d _ => c.wf = true ∧ d.wf = true
     | _ => True) := by
  obtain ⟨hl, -, -, -⟩ := annotate_inv t b a h
  obtain ⟨h1, h2⟩ := loop_wf t b.ops b.offset 0 0 [] a.exit a.inputs a.outputs hl
    (by intro e he; cases he)
  refine ⟨h1, ?_⟩
  generalize a.exit = ex at h2
  cases ex <;> exact h2

end Annot
end EtkVerif
