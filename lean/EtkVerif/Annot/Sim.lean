/-
Simulation between the annotator (`annotateOne`, `annotateLoop`) and the
concrete semantics (`exec1`, `execBlock`).
-/
import EtkVerif.Annot.Corr
namespace EtkVerif
namespace Annot
open Ops Evm

/-! ### Ledger-free description of the window operations -/

/-- `n` fresh input variables following variable number `v`. -/
def fresh : Nat → Nat → List Tree
  | _, 0 => []
  | v, n + 1 => Tree.leaf (.var (v + 1)) :: fresh (v + 1) n

@[simp] theorem fresh_length (v n : Nat) : (fresh v n).length = n := by
  induction n generalizing v with
  | zero => rfl
  | succ n ih => simp [fresh, ih]

theorem expand_spec (n : Nat) (w w' : Win) (h : expand w n = .ok w') :
    w'.vars = w.vars + n ∧ w'.cur = w.cur ++ fresh w.vars n := by
  induction n generalizing w with
  | zero =>
    simp only [expand, Except.ok.injEq] at h
    subst h; simp [fresh]
  | succ n ih =>
    simp only [expand] at h
    split at h
    · cases h
    · obtain ⟨a, b⟩ := ih _ h
      simp only at a b
      refine ⟨by omega, ?_⟩
      rw [b]; simp [fresh]

theorem countPops_spec (w w' : Win) (c : Nat) (h : countPops w c = .ok w') :
    w'.vars = w.vars ∧ w'.cur = w.cur := by
  unfold countPops at h
  split at h
  · cases h
  · cases h; exact ⟨rfl, rfl⟩

theorem countPushes_spec (w w' : Win) (c : Nat) (h : countPushes w c = .ok w') :
    w'.vars = w.vars ∧ w'.cur = w.cur := by
  unfold countPushes at h
  split at h
  · cases h
  · split at h
    · cases h
    · cases h; exact ⟨rfl, rfl⟩

theorem pop_spec (w w' : Win) (t : Tree) (h : pop w = .ok (t, w')) :
    w'.vars = w.vars + (1 - w.cur.length) ∧
    t :: w'.cur = w.cur ++ fresh w.vars (1 - w.cur.length) := by
  unfold pop at h
  split at h
  · cases h
  · next w1 h1 =>
    obtain ⟨hv1, hc1⟩ := countPops_spec _ _ _ h1
    split at h
    · cases h
    · next w2 h2 =>
      split at h
      · cases h
      · next t' rest hcur =>
        cases h
        split at h2
        · next hemp =>
          obtain ⟨a, b⟩ := expand_spec _ _ _ h2
          have : w.cur = [] := by rw [← hc1]; simpa using hemp
          rw [hv1] at a b; rw [hc1] at b
          rw [this] at b ⊢
          simp only [fresh, List.nil_append] at b
          simp only [List.length_nil, fresh, List.nil_append]
          rw [hcur] at b
          simp only [List.cons.injEq] at b
          refine ⟨by simpa using a, ?_⟩
          simp [b.1, b.2]
        · next hemp =>
          cases h2
          rw [hc1] at hcur
          rw [hcur]
          simp [fresh, hv1]

theorem popN_spec (k : Nat) (w w' : Win) (ts : List Tree) (h : popN k w = .ok (ts, w')) :
    ts.length = k ∧ w'.vars = w.vars + (k - w.cur.length) ∧
    ts ++ w'.cur = w.cur ++ fresh w.vars (k - w.cur.length) := by
  induction k generalizing w ts with
  | zero =>
    simp only [popN, Except.ok.injEq, Prod.mk.injEq] at h
    obtain ⟨rfl, rfl⟩ := h
    simp [fresh]
  | succ k ih =>
    simp only [popN] at h
    split at h
    · cases h
    · next t w1 h1 =>
      split at h
      · cases h
      · next ts' w2 h2 =>
        cases h
        obtain ⟨a1, b1⟩ := pop_spec _ _ _ h1
        obtain ⟨l2, a2, b2⟩ := ih _ _ h2
        refine ⟨by simp [l2], ?_⟩
        cases hcur : w.cur with
        | nil =>
          rw [hcur] at a1 b1
          simp only [List.length_nil, Nat.sub_zero, fresh, List.nil_append, List.cons.injEq] at a1 b1
          rw [b1.2, a1] at a2 b2
          simp only [List.length_nil, Nat.sub_zero, List.nil_append] at a2 b2
          refine ⟨by simp; omega, ?_⟩
          simp only [List.length_nil, Nat.sub_zero, List.nil_append, fresh, List.cons_append]
          rw [b2, b1.1]
        | cons x r =>
          rw [hcur] at a1 b1
          simp only [List.length_cons, Nat.le_add_left, Nat.sub_eq_zero_of_le,
            fresh, List.append_nil, List.cons.injEq, Nat.add_zero] at a1 b1
          rw [b1.2, a1] at a2 b2
          refine ⟨by simp; omega, ?_⟩
          simp only [List.cons_append, List.length_cons, Nat.add_sub_add_right]
          rw [b2, b1.1]

theorem push_spec (w w' : Win) (t : Tree) (h : push w t = .ok w') :
    w'.vars = w.vars ∧ w'.cur = t :: w.cur := by
  unfold push at h
  split at h
  · cases h
  · next w1 h1 =>
    cases h
    obtain ⟨a, b⟩ := countPushes_spec _ _ _ h1
    exact ⟨a, by simp [b]⟩

theorem window_spec (w w' : Win) (depth : Nat) (h : window w depth = .ok w') :
    w'.vars = w.vars + (depth + 1 - w.cur.length) ∧
    w'.cur = w.cur ++ fresh w.vars (depth + 1 - w.cur.length) := by
  unfold window at h
  split at h
  · cases h
  · next w1 h1 =>
    obtain ⟨a1, b1⟩ := countPops_spec _ _ _ h1
    split at h
    · cases h
    · next w2 h2 =>
      obtain ⟨a2, b2⟩ := countPushes_spec _ _ _ h2
      split at h
      · next hlt =>
        obtain ⟨a, b⟩ := expand_spec _ _ _ h
        rw [a2, a1] at a b; rw [b2, b1] at a b
        have e : 1 + depth - w.cur.length = depth + 1 - w.cur.length := by omega
        rw [e] at a b
        exact ⟨a, b⟩
      · next hlt =>
        cases h
        rw [b2, b1] at hlt
        have e : depth + 1 - w.cur.length = 0 := by omega
        rw [e]; simp [fresh, a2, a1, b2, b1]

/-! ### The concrete stack a symbolic state stands for -/

section Model
variable (E : Env) (ω : Nat → Word) (ρ : Nat → Word) (entry : List Word)

/-- The concrete stack described by symbolic stack `cur` with `vars` input
variables already created: the values of `cur`, then the entry slots not yet named. -/
def model (vars : Nat) (cur : List Tree) : List Word :=
  cur.map (Tree.eval E ω ρ) ++ entry.drop vars

theorem evalAll_ofList (l : List Tree) :
    Tree.evalAll E ω ρ (Trees.ofList l) = l.map (Tree.eval E ω ρ) := by
  induction l with
  | nil => simp [Trees.ofList, Tree.evalAll]
  | cons a l ih => simp [Trees.ofList, Tree.evalAll, ih]

theorem eval_var (i : Nat) : Tree.eval E ω ρ (Tree.leaf (.var i)) = ρ i := rfl
theorem eval_getpc (p : Nat) : Tree.eval E ω ρ (Tree.leaf (.getpc p)) = BitVec.ofNat 256 p := rfl
theorem eval_const (v : Nat) : Tree.eval E ω ρ (Tree.leaf (.const v)) = BitVec.ofNat 256 v := rfl

variable (hρ : ∀ i, ρ (i + 1) = entry.getD i 0)
include hρ

theorem fresh_eval (v n : Nat) (h : v + n ≤ entry.length) :
    (fresh v n).map (Tree.eval E ω ρ) ++ entry.drop (v + n) = entry.drop v := by
  induction n generalizing v with
  | zero => simp [fresh]
  | succ n ih =>
    have hv : v < entry.length := by omega
    simp only [fresh, List.map_cons, List.cons_append]
    rw [List.drop_eq_getElem_cons hv]
    congr 1
    · rw [eval_var, hρ]; simp [List.getD_eq_getElem?_getD, hv]
    · have := ih (v + 1) (by omega)
      rw [← this]; congr 2; omega

theorem model_ext (vars d : Nat) (cur : List Tree) (h : vars + d ≤ entry.length) :
    model E ω ρ entry (vars + d) (cur ++ fresh vars d) = model E ω ρ entry vars cur := by
  simp only [model, List.map_append, List.append_assoc]
  rw [fresh_eval E ω ρ entry hρ vars d h]

omit hρ in
theorem model_length (vars : Nat) (cur : List Tree) :
    (model E ω ρ entry vars cur).length = cur.length + (entry.length - vars) := by
  simp [model]

theorem popN_model (k : Nat) (w w' : Win) (ts : List Tree) (h : popN k w = .ok (ts, w')) :
    ts.length = k ∧ w.vars ≤ w'.vars ∧
    (w.vars ≤ entry.length → entry.length < w'.vars →
      (model E ω ρ entry w.vars w.cur).length < k) ∧
    (w'.vars ≤ entry.length →
      model E ω ρ entry w.vars w.cur =
        ts.map (Tree.eval E ω ρ) ++ model E ω ρ entry w'.vars w'.cur) := by
  obtain ⟨hl, hv, hc⟩ := popN_spec _ _ _ _ h
  refine ⟨hl, by omega, ?_, ?_⟩
  · intro a b
    rw [model_length]; omega
  · intro a
    rw [hv] at a
    rw [← model_ext E ω ρ entry hρ w.vars _ w.cur a, ← hc, hv]
    simp [model]

theorem window_model (depth : Nat) (w w' : Win) (h : window w depth = .ok w') :
    w.vars ≤ w'.vars ∧ depth + 1 ≤ w'.cur.length ∧
    (w.vars ≤ entry.length → entry.length < w'.vars →
      (model E ω ρ entry w.vars w.cur).length < depth + 1) ∧
    (w'.vars ≤ entry.length →
      model E ω ρ entry w.vars w.cur = model E ω ρ entry w'.vars w'.cur) := by
  obtain ⟨hv, hc⟩ := window_spec _ _ _ h
  refine ⟨by omega, by rw [hc]; simp; omega, ?_, ?_⟩
  · intro a b
    rw [model_length]; omega
  · intro a
    rw [hv] at a
    rw [← model_ext E ω ρ entry hρ w.vars _ w.cur a, ← hc, hv]

end Model

end Annot
end EtkVerif
