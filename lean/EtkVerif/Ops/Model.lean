/-
Model of the generated `etk_ops::<fork>::Op` API over a table of `OpRow`s.
-/
import EtkVerif.Ops.Row
namespace EtkVerif

abbrev OpTable := List OpRow

namespace Ops

/-- `Op::<()>::from(b)` as a row. -/
def rowOf (t : OpTable) (b : Nat) : OpRow := t.getD b default

/-- `Op::<()>::from(b).size()`. -/
def sizeOf (t : OpTable) (b : Nat) : Nat := (rowOf t b).size

inductive FromSlice
  | ok (size : Nat) (code : Nat)
  | noImmediate
  | tryInto
  | panic            -- `bytes[0]` on an empty slice
  deriving Repr, DecidableEq

/-- `Op::<[u8]>::from_slice(bytes)`: the immediate is `bytes[1..].try_into()`
(fails unless the length is exactly the immediate length); an instruction
without immediate rejects any trailing byte. -/
def fromSlice (t : OpTable) : List Nat → FromSlice
  | [] => .panic
  | b :: rest =>
    let r := rowOf t b
    if r.extra = 0 then
      if rest.length > 0 then .noImmediate else .ok r.size r.code
    else if rest.length = r.extra then .ok r.size r.code else .tryInto

/-- `u128::BITS - n.leading_zeros()`. -/
def bits (n : Nat) : Nat := if n = 0 then 0 else Nat.log2 n + 1

/-- `Op::<()>::push(sz)`: the opcode byte, `none` outside 1..32. -/
def push (sz : Nat) : Option Nat := if 1 ≤ sz ∧ sz ≤ 32 then some (0x5f + sz) else none

/-- `Op::<()>::push_for(n)`. -/
def pushFor (n : Nat) : Option Nat := push (max 1 ((bits n + 8 - 1) / 8))

inductive Upsize | some (code : Nat) | none | panic
  deriving Repr, DecidableEq

/-- `Op::<()>::upsize`. -/
def upsize (t : OpTable) (b : Nat) : Upsize :=
  let e := (rowOf t b).extra
  if e = 0 then .panic else match push (e + 1) with
    | .some c => .some c
    | .none => .none

/-- `FromStr`: the generated `match` has one arm per row, in table order. -/
def parse (t : OpTable) (m : List Nat) : Option Nat :=
  (t.find? (fun r => r.mnem == m)).map (·.code)

/-- `Op::<[u8]>::new(code)`: `None` when the opcode takes an immediate. -/
def newNoImm (t : OpTable) (b : Nat) : Option Nat :=
  let r := rowOf t b
  if r.extra = 0 then some r.size else none

end Ops
end EtkVerif
