/-
Hand-transcribed EVM specification used as the oracle for opcode metadata:
per fork, which opcodes exist, δ (items removed), α (items placed), and the
classes jump / jumpdest / halting.  Sources: Yellow Paper appendix H; EIP-3198
(basefee, London), EIP-3855 (push0, Shanghai), EIP-5656 (mcopy), EIP-1153
(tload/tstore), EIP-4844 (blobhash), EIP-7516 (blobbasefee) (Cancun).
dupN / swapN are counted over the whole window they touch (dupN: N → N+1,
swapN: N+1 → N+1), as the property states.
-/
namespace EtkVerif

inductive Fork | london | shanghai | cancun
  deriving Repr, DecidableEq

structure SpecRow where
  pops : Nat
  pushes : Nat
  halt : Bool := false
  jump : Bool := false
  jumpdest : Bool := false
  deriving Repr, DecidableEq

namespace Spec

/-- Opcodes common to every supported fork (London baseline). -/
def base (b : Nat) : Option SpecRow :=
  if b = 0x00 then some ⟨0, 0, true, false, false⟩            -- stop
  else if 0x01 ≤ b ∧ b ≤ 0x07 then some ⟨2, 1, false, false, false⟩ -- add mul sub div sdiv mod smod
  else if b = 0x08 ∨ b = 0x09 then some ⟨3, 1, false, false, false⟩ -- addmod mulmod
  else if b = 0x0a ∨ b = 0x0b then some ⟨2, 1, false, false, false⟩ -- exp signextend
  else if 0x10 ≤ b ∧ b ≤ 0x14 then some ⟨2, 1, false, false, false⟩ -- lt gt slt sgt eq
  else if b = 0x15 then some ⟨1, 1, false, false, false⟩       -- iszero
  else if 0x16 ≤ b ∧ b ≤ 0x18 then some ⟨2, 1, false, false, false⟩ -- and or xor
  else if b = 0x19 then some ⟨1, 1, false, false, false⟩       -- not
  else if 0x1a ≤ b ∧ b ≤ 0x1d then some ⟨2, 1, false, false, false⟩ -- byte shl shr sar
  else if b = 0x20 then some ⟨2, 1, false, false, false⟩       -- keccak256
  else if b = 0x30 then some ⟨0, 1, false, false, false⟩       -- address
  else if b = 0x31 then some ⟨1, 1, false, false, false⟩       -- balance
  else if 0x32 ≤ b ∧ b ≤ 0x34 then some ⟨0, 1, false, false, false⟩ -- origin caller callvalue
  else if b = 0x35 then some ⟨1, 1, false, false, false⟩       -- calldataload
  else if b = 0x36 then some ⟨0, 1, false, false, false⟩       -- calldatasize
  else if b = 0x37 then some ⟨3, 0, false, false, false⟩       -- calldatacopy
  else if b = 0x38 then some ⟨0, 1, false, false, false⟩       -- codesize
  else if b = 0x39 then some ⟨3, 0, false, false, false⟩       -- codecopy
  else if b = 0x3a then some ⟨0, 1, false, false, false⟩       -- gasprice
  else if b = 0x3b then some ⟨1, 1, false, false, false⟩       -- extcodesize
  else if b = 0x3c then some ⟨4, 0, false, false, false⟩       -- extcodecopy
  else if b = 0x3d then some ⟨0, 1, false, false, false⟩       -- returndatasize
  else if b = 0x3e then some ⟨3, 0, false, false, false⟩       -- returndatacopy
  else if b = 0x3f then some ⟨1, 1, false, false, false⟩       -- extcodehash
  else if b = 0x40 then some ⟨1, 1, false, false, false⟩       -- blockhash
  else if 0x41 ≤ b ∧ b ≤ 0x48 then some ⟨0, 1, false, false, false⟩ -- coinbase … basefee
  else if b = 0x50 then some ⟨1, 0, false, false, false⟩       -- pop
  else if b = 0x51 then some ⟨1, 1, false, false, false⟩       -- mload
  else if b = 0x52 ∨ b = 0x53 then some ⟨2, 0, false, false, false⟩ -- mstore mstore8
  else if b = 0x54 then some ⟨1, 1, false, false, false⟩       -- sload
  else if b = 0x55 then some ⟨2, 0, false, false, false⟩       -- sstore
  else if b = 0x56 then some ⟨1, 0, false, true, false⟩        -- jump
  else if b = 0x57 then some ⟨2, 0, false, true, false⟩        -- jumpi
  else if 0x58 ≤ b ∧ b ≤ 0x5a then some ⟨0, 1, false, false, false⟩ -- pc msize gas
  else if b = 0x5b then some ⟨0, 0, false, false, true⟩        -- jumpdest
  else if 0x60 ≤ b ∧ b ≤ 0x7f then some ⟨0, 1, false, false, false⟩ -- push1..push32
  else if 0x80 ≤ b ∧ b ≤ 0x8f then some ⟨b - 0x7f, b - 0x7f + 1, false, false, false⟩ -- dupN
  else if 0x90 ≤ b ∧ b ≤ 0x9f then some ⟨b - 0x8f + 1, b - 0x8f + 1, false, false, false⟩ -- swapN
  else if 0xa0 ≤ b ∧ b ≤ 0xa4 then some ⟨b - 0xa0 + 2, 0, false, false, false⟩ -- logN
  else if b = 0xf0 then some ⟨3, 1, false, false, false⟩       -- create
  else if b = 0xf1 ∨ b = 0xf2 then some ⟨7, 1, false, false, false⟩ -- call callcode
  else if b = 0xf3 then some ⟨2, 0, true, false, false⟩        -- return
  else if b = 0xf4 then some ⟨6, 1, false, false, false⟩       -- delegatecall
  else if b = 0xf5 then some ⟨4, 1, false, false, false⟩       -- create2
  else if b = 0xfa then some ⟨6, 1, false, false, false⟩       -- staticcall
  else if b = 0xfd then some ⟨2, 0, true, false, false⟩        -- revert
  else if b = 0xfe then some ⟨0, 0, true, false, false⟩        -- invalid
  else if b = 0xff then some ⟨1, 0, true, false, false⟩        -- selfdestruct
  else none

/-- The opcodes of a fork; `none` = the byte is not an instruction of that fork. -/
def ofFork : Fork → Nat → Option SpecRow
  | .london, b => base b
  | .shanghai, b => if b = 0x5f then some ⟨0, 1, false, false, false⟩ else base b
  | .cancun, b =>
      if b = 0x5f then some ⟨0, 1, false, false, false⟩        -- push0
      else if b = 0x5e then some ⟨3, 0, false, false, false⟩   -- mcopy
      else if b = 0x5c then some ⟨1, 1, false, false, false⟩   -- tload
      else if b = 0x5d then some ⟨2, 0, false, false, false⟩   -- tstore
      else if b = 0x49 then some ⟨1, 1, false, false, false⟩   -- blobhash
      else if b = 0x4a then some ⟨0, 1, false, false, false⟩   -- blobbasefee
      else base b

/-- Immediate length demanded by the specification: N for pushN, 0 otherwise. -/
def immLen (b : Nat) : Nat := if 0x60 ≤ b ∧ b ≤ 0x7f then b - 0x5f else 0

end Spec
end EtkVerif
