/- Kernel evaluation of the Boolean table checker on the regenerated `london` table. -/
import EtkVerif.Gen.OpTable
import EtkVerif.Ops.Lemmas
namespace EtkVerif.Ops
theorem london_tableOK : tableOK .london Gen.london = true := by decide +kernel
end EtkVerif.Ops
