/-
One row of an opcode table, as observed through the compiled `etk-ops` crate
(`Op::<()>::from(b)`, `Display`, `FromStr`, `Into<u8>`, `size()`, `Operation::*`).
Mnemonics are lists of code points: string literals do not reduce in the kernel.
-/
namespace EtkVerif

structure OpRow where
  code    : Nat
  mnem    : List Nat      -- `Display` of the specifier
  extra   : Nat           -- `extra_len()`
  pops    : Nat
  pushes  : Nat
  exit    : Bool
  jump    : Bool
  jt      : Bool          -- `is_jump_target()`
  size    : Nat           -- `size()`
  toU8    : Nat           -- `u8::from(op)`
  parsed  : Nat           -- `u8::from(Display.parse())`, 256 if `FromStr` failed
  mnem2   : List Nat      -- `Operation::mnemonic()`
  deriving Repr, DecidableEq, Inhabited

end EtkVerif
