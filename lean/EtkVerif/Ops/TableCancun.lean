/- Kernel evaluation of the Boolean table checker on the regenerated `cancun` table. -/
import EtkVerif.Gen.OpTable
import EtkVerif.Ops.Lemmas
namespace EtkVerif.Ops
theorem cancun_tableOK : tableOK .cancun Gen.cancun = true := by decide +kernel
end EtkVerif.Ops
