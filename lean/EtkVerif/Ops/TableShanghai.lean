/- Kernel evaluation of the Boolean table checker on the regenerated `shanghai` table. -/
import EtkVerif.Gen.OpTable
import EtkVerif.Ops.Lemmas
namespace EtkVerif.Ops
theorem shanghai_tableOK : tableOK .shanghai Gen.shanghai = true := by decide +kernel
end EtkVerif.Ops
