/-
Big-step facts about the pest interpreter with an explicit fuel bound ("for every
fuel `≥ d` the result is `r`"), and the rules to compose them.  Fuel is not monotone
in general (look-ahead), so every fact carries its bound.
-/
import EtkVerif.Asm.PestLogic
namespace EtkVerif
namespace Pest

def Ev (env : Env) (d : Nat) (e : PE) (at_ : Atom) (la : Bool) (p : Nat) (r : Res) : Prop :=
  ∀ f, d ≤ f → matchE env f e at_ la p = r

def Sk (env : Env) (d : Nat) (at_ : Atom) (p p' : Nat) : Prop :=
  ∀ f, d ≤ f → skip env f at_ p = p'

variable {env : Env} {d d1 d2 d3 : Nat} {a b : PE} {at_ : Atom} {la : Bool} {p p1 p2 p3 : Nat}
  {k1 k3 : List Pair} {r : Res}

theorem Ev.mono (h : Ev env d1 a at_ la p r) (hd : d1 ≤ d) : Ev env d a at_ la p r :=
  fun f hf => h f (Nat.le_trans hd hf)

theorem Sk.mono (h : Sk env d1 at_ p p') (hd : d1 ≤ d) : Sk env d at_ p p' :=
  fun f hf => h f (Nat.le_trans hd hf)

theorem Ev.seq (ha : Ev env d1 a at_ la p (some (p1, k1))) (hs : Sk env d2 at_ p1 p2)
    (hb : Ev env d3 b at_ la p2 (some (p3, k3)))
    (h1 : d1 ≤ d := by omega) (h2 : d2 ≤ d := by omega) (h3 : d3 ≤ d := by omega) :
    Ev env (d + 1) (.seq a b) at_ la p (some (p3, k1 ++ k3)) := by
  intro f hf
  obtain ⟨f, rfl⟩ : ∃ f', f = f' + 1 := ⟨f - 1, by omega⟩
  rw [matchE.eq_4, ha f (by omega)]
  simp only
  rw [hs f (by omega), hb f (by omega)]

theorem Ev.seq_fail1 (ha : Ev env d1 a at_ la p none) (h1 : d1 ≤ d := by omega) :
    Ev env (d + 1) (.seq a b) at_ la p none := by
  intro f hf
  obtain ⟨f, rfl⟩ : ∃ f', f = f' + 1 := ⟨f - 1, by omega⟩
  rw [matchE.eq_4, ha f (by omega)]

theorem Ev.seq_fail2 (ha : Ev env d1 a at_ la p (some (p1, k1))) (hs : Sk env d2 at_ p1 p2)
    (hb : Ev env d3 b at_ la p2 none)
    (h1 : d1 ≤ d := by omega) (h2 : d2 ≤ d := by omega) (h3 : d3 ≤ d := by omega) :
    Ev env (d + 1) (.seq a b) at_ la p none := by
  intro f hf
  obtain ⟨f, rfl⟩ : ∃ f', f = f' + 1 := ⟨f - 1, by omega⟩
  rw [matchE.eq_4, ha f (by omega)]
  simp only
  rw [hs f (by omega), hb f (by omega)]

theorem Ev.alt_l {x : Nat × List Pair} (ha : Ev env d1 a at_ la p (some x)) (h1 : d1 ≤ d := by omega) :
    Ev env (d + 1) (.alt a b) at_ la p (some x) := by
  intro f hf
  obtain ⟨f, rfl⟩ : ∃ f', f = f' + 1 := ⟨f - 1, by omega⟩
  rw [matchE.eq_5, ha f (by omega)]

theorem Ev.alt_r (ha : Ev env d1 a at_ la p none) (hb : Ev env d2 b at_ la p r)
    (h1 : d1 ≤ d := by omega) (h2 : d2 ≤ d := by omega) :
    Ev env (d + 1) (.alt a b) at_ la p r := by
  intro f hf
  obtain ⟨f, rfl⟩ : ∃ f', f = f' + 1 := ⟨f - 1, by omega⟩
  rw [matchE.eq_5, ha f (by omega)]
  exact hb f (by omega)

theorem Ev.star0 (ha : Ev env d1 a at_ la p none) (h1 : d1 ≤ d := by omega) :
    Ev env (d + 1) (.star a) at_ la p (some (p, [])) := by
  intro f hf
  obtain ⟨f, rfl⟩ : ∃ f', f = f' + 1 := ⟨f - 1, by omega⟩
  rw [matchE.eq_7, ha f (by omega)]

theorem Ev.opt_some {x : Nat × List Pair} (ha : Ev env d1 a at_ la p (some x)) (h1 : d1 ≤ d := by omega) :
    Ev env (d + 1) (.opt a) at_ la p (some x) := by
  intro f hf
  obtain ⟨f, rfl⟩ : ∃ f', f = f' + 1 := ⟨f - 1, by omega⟩
  rw [matchE.eq_6, ha f (by omega)]

theorem Ev.opt_none (ha : Ev env d1 a at_ la p none) (h1 : d1 ≤ d := by omega) :
    Ev env (d + 1) (.opt a) at_ la p (some (p, [])) := by
  intro f hf
  obtain ⟨f, rfl⟩ : ∃ f', f = f' + 1 := ⟨f - 1, by omega⟩
  rw [matchE.eq_6, ha f (by omega)]

/-- outside the non-atomic state there is no implicit whitespace -/
theorem Sk.id_of_ne (h : at_ ≠ .nonAtomic) (p : Nat) : Sk env 1 at_ p p := by
  intro f hf
  obtain ⟨f, rfl⟩ : ∃ f', f = f' + 1 := ⟨f - 1, by omega⟩
  rw [skip.eq_2]
  have : (at_ != Atom.nonAtomic) = true := by simpa using h
  simp [this]

/-! ### rule references -/

def innerAt (ty : RT) (at_ : Atom) : Atom :=
  match ty with
  | .silent => at_
  | .normal => at_
  | .atomic => .atomic
  | .compound => .compound
  | .nonAtomic => .nonAtomic

def outRes (ty : RT) (n p : Nat) (la : Bool) (at_ : Atom) (r : Res) : Res :=
  match ty with
  | .silent => r
  | .normal => tokF n p la (at_ != .atomic) r
  | .atomic => tokF n p la (at_ != .atomic) r
  | .compound => tokF n p la true r
  | .nonAtomic => tokF n p la true r

theorem callRule_ruleEv {n : Nat} {rl : Rule} (hn : n < 1000) (hg : env.g[n]? = some rl)
    (hws : env.ws ≠ some n) (hcm : env.comment ≠ some n) (f : Nat) (at_ : Atom) (la : Bool) (p : Nat) :
    callRule env (f + 1) n at_ la p =
      outRes rl.ty n p la at_ (matchE env f rl.body (innerAt rl.ty at_) la p) := by
  have e1 : n ≠ ANY := by unfold ANY; omega
  have e2 : n ≠ SOI := by unfold SOI; omega
  have e3 : n ≠ EOI := by unfold EOI; omega
  have e4 : n ≠ NEWLINE := by unfold NEWLINE; omega
  have e5 : n ≠ ASCII_DIGIT := by unfold ASCII_DIGIT; omega
  have e6 : n ≠ ASCII_BIN_DIGIT := by unfold ASCII_BIN_DIGIT; omega
  have e7 : n ≠ ASCII_OCT_DIGIT := by unfold ASCII_OCT_DIGIT; omega
  have e8 : n ≠ ASCII_HEX_DIGIT := by unfold ASCII_HEX_DIGIT; omega
  have e9 : n ≠ ASCII_ALPHA := by unfold ASCII_ALPHA; omega
  have e10 : n ≠ ASCII_ALPHANUMERIC := by unfold ASCII_ALPHANUMERIC; omega
  rw [callRule_succ]
  unfold callSpec
  simp only [if_neg e1, if_neg e2, if_neg e3, if_neg e4, if_neg e5, if_neg e6, if_neg e7, if_neg e8, if_neg e9,
    if_neg e10]
  rw [hg]
  have h1 : (decide (some n = env.ws) || decide (some n = env.comment)) = false := by
    simp [Ne.symm hws, Ne.symm hcm]
  simp only [h1, Bool.false_eq_true, if_false]
  cases rl.ty <;> rfl

theorem Ev.ref {n : Nat} {rl : Rule} (hn : n < 1000) (hg : env.g[n]? = some rl)
    (hws : env.ws ≠ some n) (hcm : env.comment ≠ some n)
    (hb : Ev env d1 rl.body (innerAt rl.ty at_) la p r) (h1 : d1 ≤ d := by omega) :
    Ev env (d + 2) (.ref n) at_ la p (outRes rl.ty n p la at_ r) := by
  intro f hf
  obtain ⟨f, rfl⟩ : ∃ f', f = f' + 1 + 1 := ⟨f - 2, by omega⟩
  rw [matchE.eq_11, callRule_ruleEv hn hg hws hcm, hb f (by omega)]

/-! ### from the window interpreter -/

theorem Ev.of_window {ek : EnvK} {o n : Nat} {rk : Res} (hA : Agree env ek o)
    (h : matchK ek n a at_ la p = some rk) : Ev env n a at_ la (o + p) (shiftR o rk) :=
  fun f hf => (sound hA n).m _ _ _ _ _ h f hf

theorem Sk.of_window {ek : EnvK} {o n : Nat} (hA : Agree env ek o)
    (h : skipK ek n at_ p = some p') : Sk env n at_ (o + p) (o + p') :=
  fun f hf => (sound hA n).sk _ _ _ h f hf

end Pest
end EtkVerif
