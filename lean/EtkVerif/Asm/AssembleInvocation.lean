/-
C10 for the IMPLEMENTATION model (`assemble` = `Assembler::assemble`: declare macros, feed the ops one at a time —
an invocation is expanded when it is fed —, then lay out and emit), successes AND failures: the program in which the
first invocation follows plain statements yields exactly what the program with the invocation replaced by its
instantiated body yields — the same bytes, or the same error — unless the macro recursion limit is involved (the
expanded program sits one nesting level lower).  `Asm/FlattenErrors.lean` has the same statements for the
specification's flatten phase; errors of the two models are NOT related by the refinement theorem (the specification
reports faults phase by phase, the assembler in feed order), so the statements about `assemble` are proved here directly.
-/
import EtkVerif.Asm.FlattenErrors
namespace EtkVerif
namespace Asm

def AOp.isDef : AOp → Bool
  | .instrDef _ _ _ => true
  | .exprDef _ _ _ => true
  | _ => false

/-- `pre; %name(args); post` -/
def invProg (pre : List AOp) (name : String) (args : List Expr) (post : RawOps) : RawOps :=
  RawOps.ofList (pre.map RawOp.op ++ RawOp.op (.macro name args) :: post.toList)
/-- `pre; body'; post` -/
def expProg (pre body' : List AOp) (post : RawOps) : RawOps :=
  RawOps.ofList (pre.map RawOp.op ++ body'.map RawOp.op ++ post.toList)

/-! ### runs: an answer reached with some fuel -/

/-- the answer `r` is reached with some fuel (and is not the fuel running out) -/
def Reaches {α : Type} (g : Nat → Except AsmErr α) (r : Except AsmErr α) : Prop := ∃ f, g f = r ∧ NoFuel r

def FuelStable {α : Type} (g : Nat → Except AsmErr α) : Prop := ∀ f, NoFuel (g f) → g (f + 1) = g f

theorem FuelStable.le {α : Type} {g : Nat → Except AsmErr α} (hg : FuelStable g) {f f' : Nat} (hle : f ≤ f')
    (h : NoFuel (g f)) : g f' = g f := by
  induction hle with
  | refl => rfl
  | step _ ih => rw [← ih]; exact hg _ (by rw [ih]; exact h)

theorem Reaches.det {α : Type} {g : Nat → Except AsmErr α} (hg : FuelStable g) {r1 r2 : Except AsmErr α}
    (h1 : Reaches g r1) (h2 : Reaches g r2) : r1 = r2 := by
  obtain ⟨f1, e1, n1⟩ := h1
  obtain ⟨f2, e2, n2⟩ := h2
  have a := hg.le (Nat.le_max_left f1 f2) (by rw [e1]; exact n1)
  have b := hg.le (Nat.le_max_right f1 f2) (by rw [e2]; exact n2)
  rw [← e1, ← e2, ← a, ← b]

theorem push_stable (rnd : Nat → Nat) (s : St) (rop : RawOp) : FuelStable (fun f => push rnd f s rop) :=
  fun f h => (fuelMono rnd f).1 s rop h
theorem feedAll_stable (rnd : Nat → Nat) (s : St) (ops : RawOps) : FuelStable (fun f => feedAll rnd f s ops) :=
  fun f h => (fuelMono rnd f).2.2.2.1 s ops h
theorem assemble_stable (rnd : Nat → Nat) (s : St) (ops : RawOps) : FuelStable (fun f => assemble rnd f s ops) :=
  fun f h => (fuelMono rnd f).2.2.2.2 s ops h

theorem noFuel_ok {α : Type} (a : α) : NoFuel (Except.ok a : Except AsmErr α) := by
  intro h; cases h

theorem noFuel_error_iff {α : Type} (e : AsmErr) : NoFuel (Except.error e : Except AsmErr α) ↔ e ≠ .panic "fuel" := by
  constructor
  · intro h hc; exact h (by rw [hc])
  · intro h hc; injection hc with hc; exact h hc

/-- what follows a first answer: its error, or the continuation from its state -/
def andThen {β : Type} (r1 : Except AsmErr St) (R : St → Except AsmErr β → Prop) (r : Except AsmErr β) : Prop :=
  match r1 with
  | .error e => r = .error e
  | .ok s1 => R s1 r

def PushRun (rnd : Nat → Nat) (s : St) (o : RawOp) (r : Except AsmErr St) : Prop := Reaches (fun f => push rnd f s o) r
/-- feeding a list of items from the state `s` reaches the answer `r` -/
def FA (rnd : Nat → Nat) (s : St) (l : List RawOp) (r : Except AsmErr St) : Prop :=
  Reaches (fun f => feedAll rnd f s (RawOps.ofList l)) r

theorem feedAll_zero (rnd : Nat → Nat) (s : St) (ops : RawOps) : feedAll rnd 0 s ops = .error (.panic "fuel") := by
  simp [feedAll]

theorem FA_nil (rnd : Nat → Nat) (s : St) (r : Except AsmErr St) : FA rnd s [] r ↔ r = .ok s := by
  constructor
  · rintro ⟨f, e, n⟩
    dsimp only at e
    cases f with
    | zero => rw [feedAll_zero] at e; exact absurd e.symm n
    | succ f => simp only [RawOps.ofList, feedAll] at e; exact e.symm
  · intro h
    subst h
    exact ⟨1, by simp only [RawOps.ofList, feedAll], noFuel_ok _⟩

theorem FA_cons (rnd : Nat → Nat) (s : St) (o : RawOp) (l : List RawOp) (r : Except AsmErr St) :
    FA rnd s (o :: l) r ↔ ∃ r1, PushRun rnd s o r1 ∧ andThen r1 (fun s1 r => FA rnd s1 l r) r := by
  constructor
  · rintro ⟨f, e, n⟩
    dsimp only at e
    cases f with
    | zero => rw [feedAll_zero] at e; exact absurd e.symm n
    | succ f =>
      simp only [RawOps.ofList, feedAll] at e
      cases hp : push rnd f s o with
      | error e1 =>
        rw [hp] at e
        simp only [] at e
        subst e
        exact ⟨.error e1, ⟨f, hp, (noFuel_error_iff _).2 ((noFuel_error_iff _).1 n)⟩, rfl⟩
      | ok s1 =>
        rw [hp] at e
        exact ⟨.ok s1, ⟨f, hp, noFuel_ok _⟩, ⟨f, e, n⟩⟩
  · rintro ⟨r1, ⟨f1, e1, n1⟩, h⟩
    dsimp only at e1
    cases r1 with
    | error e0 =>
      simp only [andThen] at h
      subst h
      refine ⟨f1 + 1, ?_, n1⟩
      simp only [RawOps.ofList, feedAll]
      rw [e1]
    | ok s1 =>
      obtain ⟨f2, e2, n2⟩ := h
      dsimp only at e2
      have a : push rnd (max f1 f2) s o = push rnd f1 s o :=
        (push_stable rnd s o).le (Nat.le_max_left f1 f2) (by show NoFuel (push rnd f1 s o); rw [e1]; exact n1)
      have b : feedAll rnd (max f1 f2) s1 (RawOps.ofList l) = feedAll rnd f2 s1 (RawOps.ofList l) :=
        (feedAll_stable rnd s1 (RawOps.ofList l)).le (Nat.le_max_right f1 f2)
          (by show NoFuel (feedAll rnd f2 s1 (RawOps.ofList l)); rw [e2]; exact n2)
      refine ⟨max f1 f2 + 1, ?_, n2⟩
      simp only [RawOps.ofList, feedAll]
      rw [a, e1]
      simp only []
      rw [b, e2]

theorem FA_append (rnd : Nat → Nat) (b : List RawOp) : ∀ (a : List RawOp) (s : St) (r : Except AsmErr St),
    FA rnd s (a ++ b) r ↔ ∃ r1, FA rnd s a r1 ∧ andThen r1 (fun s1 r => FA rnd s1 b r) r := by
  intro a
  induction a with
  | nil =>
    intro s r
    simp only [List.nil_append, FA_nil]
    constructor
    · intro h; exact ⟨.ok s, rfl, h⟩
    · rintro ⟨_, rfl, h⟩; exact h
  | cons o a ih =>
    intro s r
    rw [List.cons_append, FA_cons]
    constructor
    · rintro ⟨r0, hp, h⟩
      cases r0 with
      | error e => exact ⟨.error e, (FA_cons ..).2 ⟨.error e, hp, rfl⟩, h⟩
      | ok s0 =>
        obtain ⟨r1, h1, h2⟩ := (ih s0 r).1 h
        exact ⟨r1, (FA_cons ..).2 ⟨.ok s0, hp, h1⟩, h2⟩
    · rintro ⟨r1, h1, h2⟩
      obtain ⟨r0, hp, h3⟩ := (FA_cons ..).1 h1
      cases r0 with
      | error e =>
        simp only [andThen] at h3
        subst h3
        exact ⟨.error e, hp, h2⟩
      | ok s0 => exact ⟨.ok s0, hp, (ih s0 r).2 ⟨r1, h3, h2⟩⟩


/-! ### the depth and the suffix counter are carried along by plain statements -/

/-- the state with the nesting depth and the suffix counter changed -/
def St.modDF (g h : Nat → Nat) (s : St) : St := { s with depth := g s.depth, fresh := h s.fresh }

/-- `dependsOnLabels` reads the macro table only -/
def dependsOn (ms : List (String × MacroDef)) (o : AOp) : Bool :=
  match o.expr? with
  | none => false
  | some e => match labelsOf ms evalFuel 0 e with
    | .ok ls => !ls.isEmpty
    | .error _ => false

theorem dependsOnLabels_eq (s : St) (o : AOp) : dependsOnLabels s o = dependsOn s.macros o := rfl

theorem pushInstr_modDF (g h : Nat → Nat) (s : St) (o : AOp) (item : Item) (size : Option Nat) (conc : St → Conc)
    (hc : ∀ s, conc (s.modDF g h) = conc s) :
    pushInstr (s.modDF g h) o item size conc = (pushInstr s o item size conc).map (St.modDF g h) := by
  rw [pushInstr_eq, pushInstr_eq]
  show (match mentionedOf s.macros o with | .error e => _ | .ok ls => _) = _
  cases mentionedOf s.macros o with
  | error e => rfl
  | ok ls =>
    have hc' := hc { s with undeclared := (ls.filter (fun l => !isDefined s l)).foldl insertSet s.undeclared }
    cases s with
    | mk ready len labels macros undeclared depth fresh =>
      simp only [St.modDF, isDefined, dependsOnLabels_eq] at hc' ⊢
      rw [hc']
      generalize conc _ = c
      cases c with
      | ok bytes => rfl
      | tooLarge =>
        simp only []
        rcases Bool.eq_false_or_eq_true (dependsOn macros o) with hb | hb <;>
          simp only [hb, Bool.false_eq_true, ↓reduceIte] <;> rfl
      | negative =>
        simp only []
        rcases Bool.eq_false_or_eq_true (dependsOn macros o) with hb | hb <;>
          simp only [hb, Bool.false_eq_true, ↓reduceIte] <;> rfl
      | ctx err =>
        cases err with
        | divisionByZero =>
          simp only []
          rcases Bool.eq_false_or_eq_true (dependsOn macros o) with hb | hb <;>
            simp only [hb, Bool.false_eq_true, ↓reduceIte] <;> rfl
        | unknownLabel l => rfl
        | unknownMacro n => rfl
        | undefinedVariable n => rfl
        | recursionLimit n => rfl


theorem push_plain_modDF (rnd : Nat → Nat) (g h : Nat → Nat) (f : Nat) (s : St) (o : AOp)
    (hplain : match o with | .macro _ _ => False | _ => True) :
    push rnd (f + 1) (s.modDF g h) (.op o) = (push rnd (f + 1) s (.op o)).map (St.modDF g h) := by
  cases o with
  | «macro» n a => exact hplain.elim
  | label l =>
    simp only [push]
    show (if (lookupLabel s.labels l).isSome = true then _ else _) = _
    by_cases hl : (lookupLabel s.labels l).isSome = true
    · rw [if_pos hl, if_pos hl]; rfl
    · rw [if_neg hl, if_neg hl]; rfl
  | instrDef n ps b => simp only [push]; rfl
  | exprDef n ps b => simp only [push]; rfl
  | op code imm => simp only [push]; exact pushInstr_modDF g h s _ _ _ _ (fun _ => rfl)
  | push e => simp only [push]; exact pushInstr_modDF g h s _ _ _ _ (fun _ => rfl)

theorem pushInstr_fresh (s : St) (o : AOp) (item : Item) (size : Option Nat) (conc : St → Conc) (s' : St)
    (h : pushInstr s o item size conc = .ok s') : s'.fresh = s.fresh := by
  rw [pushInstr_eq] at h
  cases hm : mentionedOf s.macros o with
  | error e1 => rw [hm] at h; cases h
  | ok ls =>
    rw [hm] at h
    simp only [] at h
    split at h
    · simp only [Except.ok.injEq] at h; subst h; rfl
    · split at h
      · simp only [Except.ok.injEq] at h; subst h; rfl
      · cases h
    · split at h
      · simp only [Except.ok.injEq] at h; subst h; rfl
      · cases h
    · split at h
      · simp only [Except.ok.injEq] at h; subst h; rfl
      · cases h
    · simp only [Except.ok.injEq] at h; subst h; rfl
    · cases h

/-- a plain statement leaves the suffix counter, the macro table and the depth alone -/
theorem push_plain_facts (rnd : Nat → Nat) (f : Nat) (s : St) (o : AOp) (s' : St)
    (hplain : match o with | .macro _ _ => False | _ => True)
    (h : push rnd f s (.op o) = .ok s') : s'.fresh = s.fresh ∧ s'.macros = s.macros ∧ s'.depth = s.depth := by
  have hp := (pres rnd f).1 _ _ _ h
  refine ⟨?_, hp.1, hp.2⟩
  cases f with
  | zero => simp [push] at h
  | succ f =>
    cases o with
    | «macro» n a => exact hplain.elim
    | label l =>
      simp only [push] at h
      split at h
      · cases h
      · simp only [Except.ok.injEq] at h; subst h; rfl
    | instrDef n ps b => simp only [push, Except.ok.injEq] at h; subst h; rfl
    | exprDef n ps b => simp only [push, Except.ok.injEq] at h; subst h; rfl
    | op code imm => simp only [push] at h; exact pushInstr_fresh _ _ _ _ _ _ h
    | push e => simp only [push] at h; exact pushInstr_fresh _ _ _ _ _ _ h

theorem push_zero (rnd : Nat → Nat) (s : St) (o : RawOp) : push rnd 0 s o = .error (.panic "fuel") := by
  simp [push]

theorem noFuel_map {α β : Type} (m : α → β) (r : Except AsmErr α) (h : NoFuel r) : NoFuel (r.map m) := by
  cases r with
  | error e => exact (noFuel_error_iff _).2 ((noFuel_error_iff _).1 h)
  | ok a => exact noFuel_ok _

theorem PushRun_plain_modDF (rnd : Nat → Nat) (g h : Nat → Nat) (s : St) (o : AOp)
    (hplain : match o with | .macro _ _ => False | _ => True) (r : Except AsmErr St)
    (hr : PushRun rnd s (.op o) r) : PushRun rnd (s.modDF g h) (.op o) (r.map (St.modDF g h)) := by
  obtain ⟨f, e, n⟩ := hr
  dsimp only at e
  cases f with
  | zero => rw [push_zero] at e; exact absurd e.symm n
  | succ f =>
    refine ⟨f + 1, ?_, noFuel_map _ _ n⟩
    dsimp only
    rw [push_plain_modDF rnd g h f s o hplain, e]

/-- plain statements: the same run from a state with another depth / suffix counter, which they carry along -/
theorem FA_plain (rnd : Nat → Nat) (g h : Nat → Nat) : ∀ (pre : List AOp)
    (_ : ∀ o ∈ pre, match o with | .macro _ _ => False | _ => True) (s : St) (r : Except AsmErr St),
    FA rnd s (pre.map RawOp.op) r →
      FA rnd (s.modDF g h) (pre.map RawOp.op) (r.map (St.modDF g h)) ∧
      ∀ s1, r = .ok s1 → s1.fresh = s.fresh ∧ s1.macros = s.macros ∧ s1.depth = s.depth := by
  intro pre
  induction pre with
  | nil =>
    intro _ s r hr
    simp only [List.map, FA_nil] at hr ⊢
    subst hr
    refine ⟨rfl, ?_⟩
    intro s1 h1
    injection h1 with h1
    subst h1
    exact ⟨rfl, rfl, rfl⟩
  | cons o pre ih =>
    intro hplain s r hr
    have hpo := hplain o (List.mem_cons_self ..)
    simp only [List.map] at hr ⊢
    obtain ⟨r0, hp, h2⟩ := (FA_cons ..).1 hr
    have hp' := PushRun_plain_modDF rnd g h s o hpo r0 hp
    cases r0 with
    | error e =>
      simp only [andThen] at h2
      subst h2
      refine ⟨(FA_cons ..).2 ⟨_, hp', rfl⟩, ?_⟩
      intro s1 h1; cases h1
    | ok s0 =>
      obtain ⟨f0, e0, _⟩ := hp
      have hf := push_plain_facts rnd f0 s o s0 hpo e0
      obtain ⟨i1, i2⟩ := ih (fun o ho => hplain o (List.mem_cons_of_mem _ ho)) s0 r h2
      refine ⟨(FA_cons ..).2 ⟨_, hp', i1⟩, ?_⟩
      intro s1 h1
      obtain ⟨a, b, c⟩ := i2 s1 h1
      exact ⟨a.trans hf.1, b.trans hf.2.1, c.trans hf.2.2⟩


/-! ### one nesting level deeper: the same answer, or the recursion limit -/

/-- one nesting level deeper -/
def St.up (s : St) : St := s.modDF (· + 1) id

theorem St.up_down (s : St) : { s.up with depth := s.up.depth - 1 } = s := by
  cases s; simp [St.up, St.modDF]

theorem St.down_up (s : St) (h : 1 ≤ s.depth) : { s.up with depth := s.up.depth - 1 } = St.up { s with depth := s.depth - 1 } := by
  cases s
  simp only [St.up, St.modDF, id] at h ⊢
  congr 1
  omega

/-- entering a macro body -/
def St.enter (s : St) (k : Nat) : St := { s with depth := s.depth + 1, fresh := k }
/-- leaving it -/
def afterFeed (r : Except AsmErr St) : Except AsmErr St :=
  match r with
  | .error e => .error e
  | .ok s' => .ok { s' with depth := s'.depth - 1 }

theorem expandMacro_instr (rnd : Nat → Nat) (f : Nat) (s : St) (name : String) (args : List Expr)
    (params : List String) (body : List AOp) (hl : lookupMacro s.macros name = some (.instr params body)) :
    expandMacro rnd (f + 1) s name args =
      if params.length ≠ args.length then .error (.macroArgumentCount name)
      else if s.depth ≥ maxMacroDepth then .error (.macroRecursionLimit name)
      else match instantiate rnd name params body args s.fresh with
        | .error e => .error e
        | .ok p => afterFeed (feed rnd f (s.enter p.2) p.1) := by
  simp only [expandMacro]
  rw [hl]
  simp only []
  cases instantiate rnd name params body args s.fresh with
  | error e => rfl
  | ok p => obtain ⟨b2, k⟩ := p; rfl

theorem expandMacro_other (rnd : Nat → Nat) (f : Nat) (s : St) (name : String) (args : List Expr)
    (hl : ∀ params body, lookupMacro s.macros name ≠ some (.instr params body)) :
    expandMacro rnd (f + 1) s name args = .error (.undeclaredInstructionMacro name) := by
  rw [expandMacro]
  split
  · next params body h => exact absurd h (hl params body)
  · rfl

def DepthSucc (rnd : Nat → Nat) (f : Nat) : Prop :=
  (∀ s rop, push rnd f s.up rop = (push rnd f s rop).map St.up ∨
      ∃ n, push rnd f s.up rop = .error (.macroRecursionLimit n)) ∧
  (∀ s name args, expandMacro rnd f s.up name args = (expandMacro rnd f s name args).map St.up ∨
      ∃ n, expandMacro rnd f s.up name args = .error (.macroRecursionLimit n)) ∧
  (∀ s body, feed rnd f s.up body = (feed rnd f s body).map St.up ∨
      ∃ n, feed rnd f s.up body = .error (.macroRecursionLimit n))

theorem depthSucc (rnd : Nat → Nat) : ∀ f, DepthSucc rnd f := by
  intro f
  induction f with
  | zero =>
    refine ⟨?_, ?_, ?_⟩
    · intro s rop; left; simp [push, Except.map]
    · intro s name args; left; simp [expandMacro, Except.map]
    · intro s body; left; simp [feed, Except.map]
  | succ f ih =>
    obtain ⟨ihP, ihM, ihF⟩ := ih
    refine ⟨?_, ?_, ?_⟩
    · intro s rop
      cases rop with
      | op o =>
        cases o with
        | «macro» name args => simp only [push]; exact ihM _ _ _
        | label l => left; exact push_plain_modDF rnd _ _ f s _ trivial
        | instrDef n ps b => left; exact push_plain_modDF rnd _ _ f s _ trivial
        | exprDef n ps b => left; exact push_plain_modDF rnd _ _ f s _ trivial
        | op code imm => left; exact push_plain_modDF rnd _ _ f s _ trivial
        | push e => left; exact push_plain_modDF rnd _ _ f s _ trivial
      | raw bs => left; simp only [push]; rfl
      | scope ops =>
        left
        simp only [push]
        show (match assemble rnd f { fresh := s.fresh } ops with | .error e => _ | .ok (bytes, k) => _) = _
        cases assemble rnd f { fresh := s.fresh } ops with
        | error e => rfl
        | ok p => rfl
    · intro s name args
      by_cases hex : ∃ params body, lookupMacro s.macros name = some (.instr params body)
      · obtain ⟨params, body, hl⟩ := hex
        have hl' : lookupMacro s.up.macros name = some (.instr params body) := hl
        rw [expandMacro_instr rnd f s.up name args params body hl', expandMacro_instr rnd f s name args params body hl]
        by_cases h1 : params.length ≠ args.length
        · left; rw [if_pos h1, if_pos h1]; rfl
        · rw [if_neg h1, if_neg h1]
          by_cases h2 : s.up.depth ≥ maxMacroDepth
          · right; exact ⟨name, by rw [if_pos h2]⟩
          · have h2' : ¬ s.depth ≥ maxMacroDepth := by
              intro hc; apply h2; show s.depth + 1 ≥ maxMacroDepth; omega
            rw [if_neg h2, if_neg h2']
            have hfr : s.up.fresh = s.fresh := rfl
            rw [hfr]
            cases hi : instantiate rnd name params body args s.fresh with
            | error e => left; rfl
            | ok p =>
              simp only []
              have hst : s.up.enter p.2 = (s.enter p.2).up := rfl
              rw [hst]
              rcases ihF (s.enter p.2) p.1 with h3 | ⟨n, h3⟩
              · left
                rw [h3]
                cases hfe : feed rnd f (s.enter p.2) p.1 with
                | error e => rfl
                | ok s' =>
                  have hd : s'.depth = s.depth + 1 := ((pres rnd f).2.2 _ _ _ hfe).2
                  simp only [Except.map, afterFeed]
                  rw [St.down_up s' (by omega)]
              · right; exact ⟨n, by rw [h3]; rfl⟩
      · have hno : ∀ params body, lookupMacro s.macros name ≠ some (.instr params body) :=
          fun params body hc => hex ⟨params, body, hc⟩
        left
        rw [expandMacro_other rnd f s.up name args hno, expandMacro_other rnd f s name args hno]
        rfl
    · intro s body
      cases body with
      | nil => left; simp only [feed]; rfl
      | cons o os =>
        simp only [feed]
        rcases ihP s (.op o) with h1 | ⟨n, h1⟩
        · rw [h1]
          cases hp : push rnd f s (.op o) with
          | error e => left; rfl
          | ok s1 =>
            simp only [Except.map]
            exact ihF s1 os
        · right; exact ⟨n, by rw [h1]⟩


/-! ### the invocation step -/

theorem feed_eq_feedAll (rnd : Nat → Nat) : ∀ (f : Nat) (s : St) (body : List AOp),
    feed rnd f s body = feedAll rnd f s (RawOps.ofList (body.map RawOp.op)) := by
  intro f
  induction f with
  | zero => intro s body; rw [feedAll_zero]; simp [feed]
  | succ f ih =>
    intro s body
    cases body with
    | nil => simp only [List.map, RawOps.ofList, feed, feedAll]
    | cons o os =>
      simp only [List.map, RawOps.ofList, feed, feedAll]
      cases push rnd f s (.op o) with
      | error e => rfl
      | ok s1 => exact ih s1 os

/-- the state with another suffix counter -/
def St.setFresh (k : Nat) (s : St) : St := s.modDF id (fun _ => k)

/-- feeding an invocation at depth 0: what feeding the instantiated body (at depth 0) gives, or the recursion limit -/
theorem push_invocation (rnd : Nat → Nat) (f : Nat) (s : St) (name : String) (args : List Expr)
    (params : List String) (body body' : List AOp) (k' : Nat)
    (hm : lookupMacro s.macros name = some (.instr params body)) (hd : s.depth = 0)
    (hinst : instantiate rnd name params body args s.fresh = .ok (body', k')) :
    push rnd (f + 2) s (.op (.macro name args)) = feedAll rnd f (s.setFresh k') (RawOps.ofList (body'.map RawOp.op)) ∨
    ∃ n, push rnd (f + 2) s (.op (.macro name args)) = .error (.macroRecursionLimit n) := by
  have harity : ¬ params.length ≠ args.length := by
    intro hne
    unfold instantiate at hinst
    rw [if_pos hne] at hinst
    cases hinst
  have hdep : ¬ s.depth ≥ maxMacroDepth := by rw [hd]; decide
  have e1 : push rnd (f + 2) s (.op (.macro name args)) = afterFeed (feed rnd f (s.enter k') body') := by
    simp only [push]
    rw [expandMacro_instr rnd f s name args params body hm, if_neg harity, if_neg hdep, hinst]
  have hst : s.enter k' = (s.setFresh k').up := by
    cases s
    simp only [St.enter, St.setFresh, St.up, St.modDF, id]
  rw [e1, hst, ← feed_eq_feedAll]
  rcases (depthSucc rnd f).2.2 (s.setFresh k') body' with h | ⟨n, h⟩
  · left
    rw [h]
    cases feed rnd f (s.setFresh k') body' with
    | error e => rfl
    | ok s2 =>
      simp only [Except.map, afterFeed]
      rw [St.up_down]
  · right
    exact ⟨n, by rw [h]; rfl⟩

theorem PushRun_invocation (rnd : Nat → Nat) (s : St) (name : String) (args : List Expr)
    (params : List String) (body body' : List AOp) (k' : Nat)
    (hm : lookupMacro s.macros name = some (.instr params body)) (hd : s.depth = 0)
    (hinst : instantiate rnd name params body args s.fresh = .ok (body', k')) (r : Except AsmErr St)
    (hr : PushRun rnd s (.op (.macro name args)) r) :
    (∃ n, r = .error (.macroRecursionLimit n)) ∨ FA rnd (s.setFresh k') (body'.map RawOp.op) r := by
  obtain ⟨f, e, n⟩ := hr
  dsimp only at e
  cases f with
  | zero => rw [push_zero] at e; exact absurd e.symm n
  | succ f =>
    cases f with
    | zero => simp only [push, expandMacro] at e; exact absurd e.symm n
    | succ f =>
      rcases push_invocation rnd f s name args params body body' k' hm hd hinst with h | ⟨m, h⟩
      · right; exact ⟨f, by dsimp only; rw [← h, e], n⟩
      · left; exact ⟨m, by rw [← e, h]⟩

theorem PushRun_invocation_conv (rnd : Nat → Nat) (s : St) (name : String) (args : List Expr)
    (params : List String) (body body' : List AOp) (k' : Nat)
    (hm : lookupMacro s.macros name = some (.instr params body)) (hd : s.depth = 0)
    (hinst : instantiate rnd name params body args s.fresh = .ok (body', k')) (r : Except AsmErr St)
    (hr : FA rnd (s.setFresh k') (body'.map RawOp.op) r) :
    PushRun rnd s (.op (.macro name args)) r ∨
      ∃ n, PushRun rnd s (.op (.macro name args)) (.error (.macroRecursionLimit n)) := by
  obtain ⟨f, e, n⟩ := hr
  dsimp only at e
  rcases push_invocation rnd f s name args params body body' k' hm hd hinst with h | ⟨m, h⟩
  · left; exact ⟨f + 2, by dsimp only; rw [h, e], n⟩
  · right; exact ⟨m, f + 2, h, (noFuel_error_iff _).2 (by intro hc; cases hc)⟩


/-! ### the two runs -/

theorem St.setFresh_setFresh (s : St) (k k' : Nat) (h : s.fresh = k') : (s.setFresh k).setFresh k' = s := by
  cases s
  simp only [St.setFresh, St.modDF, id] at h ⊢
  rw [h]

theorem FA_invocation (rnd : Nat → Nat) (ms : List (String × MacroDef)) (k : Nat) (pre : List AOp) (name : String)
    (args : List Expr) (post : List RawOp) (params : List String) (body body' : List AOp) (k' : Nat)
    (hplain : ∀ o ∈ pre, match o with | .macro _ _ => False | _ => True)
    (hm : lookupMacro ms name = some (.instr params body))
    (hinst : instantiate rnd name params body args k = .ok (body', k'))
    (r : Except AsmErr St) (hrec : ∀ n, r ≠ .error (.macroRecursionLimit n))
    (h : FA rnd { macros := ms, fresh := k } (pre.map RawOp.op ++ RawOp.op (.macro name args) :: post) r) :
    FA rnd { macros := ms, fresh := k' } (pre.map RawOp.op ++ body'.map RawOp.op ++ post) r := by
  obtain ⟨r1, h1, h2⟩ := (FA_append ..).1 h
  obtain ⟨h1', hfacts⟩ := FA_plain rnd id (fun _ => k') pre hplain _ r1 h1
  rw [List.append_assoc]
  refine (FA_append ..).2 ⟨_, h1', ?_⟩
  cases r1 with
  | error e => exact h2
  | ok s1 =>
    obtain ⟨hfr, hmc, hdp⟩ := hfacts s1 rfl
    simp only [] at hfr hmc hdp
    obtain ⟨r2, hp, h3⟩ := (FA_cons ..).1 h2
    rcases PushRun_invocation rnd s1 name args params body body' k' (by rw [hmc]; exact hm) hdp
        (by rw [hfr]; exact hinst) r2 hp with ⟨n, hn⟩ | hB
    · subst hn
      simp only [andThen] at h3
      exact absurd h3 (hrec n)
    · exact (FA_append ..).2 ⟨r2, hB, h3⟩

theorem FA_invocation_conv (rnd : Nat → Nat) (ms : List (String × MacroDef)) (k : Nat) (pre : List AOp) (name : String)
    (args : List Expr) (post : List RawOp) (params : List String) (body body' : List AOp) (k' : Nat)
    (hplain : ∀ o ∈ pre, match o with | .macro _ _ => False | _ => True)
    (hm : lookupMacro ms name = some (.instr params body))
    (hinst : instantiate rnd name params body args k = .ok (body', k'))
    (r : Except AsmErr St)
    (h : FA rnd { macros := ms, fresh := k' } (pre.map RawOp.op ++ body'.map RawOp.op ++ post) r) :
    FA rnd { macros := ms, fresh := k } (pre.map RawOp.op ++ RawOp.op (.macro name args) :: post) r ∨
    ∃ n, FA rnd { macros := ms, fresh := k } (pre.map RawOp.op ++ RawOp.op (.macro name args) :: post)
      (.error (.macroRecursionLimit n)) := by
  rw [List.append_assoc] at h
  obtain ⟨r1, h1, h2⟩ := (FA_append ..).1 h
  obtain ⟨h1', hfacts⟩ := FA_plain rnd id (fun _ => k) pre hplain _ r1 h1
  have h1'' : FA rnd { macros := ms, fresh := k } (pre.map RawOp.op) (r1.map (St.setFresh k)) := h1'
  cases r1 with
  | error e => exact Or.inl ((FA_append ..).2 ⟨_, h1'', h2⟩)
  | ok s1' =>
    obtain ⟨hfr, hmc, hdp⟩ := hfacts s1' rfl
    simp only [] at hfr hmc hdp
    have hback : (s1'.setFresh k).setFresh k' = s1' := St.setFresh_setFresh s1' k k' hfr
    simp only [andThen] at h2
    rw [← hback] at h2
    obtain ⟨r2, hB, h3⟩ := (FA_append ..).1 h2
    rcases PushRun_invocation_conv rnd (s1'.setFresh k) name args params body body' k' (by exact hmc ▸ hm) hdp
        hinst r2 hB with hp | ⟨n, hp⟩
    · exact Or.inl ((FA_append ..).2 ⟨_, h1'', (FA_cons ..).2 ⟨r2, hp, h3⟩⟩)
    · exact Or.inr ⟨n, (FA_append ..).2 ⟨_, h1'', (FA_cons ..).2 ⟨_, hp, rfl⟩⟩⟩


/-! ### the macro table of the two programs -/

theorem declareMacros_append (b : List RawOp) : ∀ (a : List RawOp) (ms : List (String × MacroDef)),
    declareMacros (a ++ b) ms =
      match declareMacros a ms with
      | .error e => .error e
      | .ok ms' => declareMacros b ms' := by
  intro a
  induction a with
  | nil => intro ms; simp only [List.nil_append, declareMacros]
  | cons x a ih =>
    intro ms
    cases x with
    | raw bs => simp only [List.cons_append, declareMacros]; exact ih ms
    | scope o => simp only [List.cons_append, declareMacros]; exact ih ms
    | op o =>
      cases o with
      | instrDef n ps body =>
        simp only [List.cons_append, declareMacros]
        split
        · rfl
        · exact ih _
      | exprDef n ps body =>
        simp only [List.cons_append, declareMacros]
        split
        · rfl
        · exact ih _
      | op code imm => simp only [List.cons_append, declareMacros]; exact ih ms
      | label l => simp only [List.cons_append, declareMacros]; exact ih ms
      | push ex => simp only [List.cons_append, declareMacros]; exact ih ms
      | «macro» n a => simp only [List.cons_append, declareMacros]; exact ih ms

theorem declareMacros_nodef : ∀ (body : List AOp) (_ : ∀ o ∈ body, o.isDef = false) (ms : List (String × MacroDef)),
    declareMacros (body.map RawOp.op) ms = .ok ms := by
  intro body
  induction body with
  | nil => intro _ ms; simp only [List.map, declareMacros]
  | cons o body ih =>
    intro h ms
    have ho := h o (List.mem_cons_self ..)
    have hr := ih (fun o ho => h o (List.mem_cons_of_mem _ ho)) ms
    cases o with
    | instrDef n ps b => simp [AOp.isDef] at ho
    | exprDef n ps b => simp [AOp.isDef] at ho
    | op code imm => simp only [List.map, declareMacros]; exact hr
    | label l => simp only [List.map, declareMacros]; exact hr
    | push ex => simp only [List.map, declareMacros]; exact hr
    | «macro» n a => simp only [List.map, declareMacros]; exact hr

theorem renameLocals_nodef (rnd : Nat → Nat) (name : String) : ∀ (body : List AOp) (k : Nat)
    (m : List (String × String)) (r : List AOp × Nat × List (String × String)),
    (∀ o ∈ body, o.isDef = false) → renameLocals rnd name body k m = .ok r → ∀ o ∈ r.1, o.isDef = false := by
  intro body
  induction body with
  | nil =>
    intro k m r _ h
    simp only [renameLocals, Except.ok.injEq] at h
    subst h
    intro o ho; cases ho
  | cons x rest ih =>
    intro k m r hb h
    have hx := hb x (List.mem_cons_self ..)
    have hrest : ∀ o ∈ rest, o.isDef = false := fun o ho => hb o (List.mem_cons_of_mem _ ho)
    cases x with
    | label l =>
      simp only [renameLocals] at h
      split at h
      · cases h
      · cases hr : renameLocals rnd name rest (k + 1) (m ++ [(l, mangle rnd k name l)]) with
        | error e1 => rw [hr] at h; cases h
        | ok r1 =>
          rw [hr] at h
          simp only [Except.ok.injEq] at h
          subst h
          intro o ho
          simp only [List.mem_cons] at ho
          rcases ho with ho | ho
          · subst ho; rfl
          · exact ih _ _ _ hrest hr o ho
    | op code imm | push ex | instrDef n ps b | exprDef n ps b | «macro» n a =>
      simp only [renameLocals] at h
      cases hr : renameLocals rnd name rest k m with
      | error e1 => rw [hr] at h; cases h
      | ok r1 =>
        rw [hr] at h
        simp only [Except.ok.injEq] at h
        subst h
        intro o ho
        simp only [List.mem_cons] at ho
        rcases ho with ho | ho
        · subst ho; exact hx
        · exact ih _ _ _ hrest hr o ho

theorem substBody_nodef (renames : List (String × String)) (bindings : List (String × Expr)) (body : List AOp)
    (h : ∀ o ∈ body, o.isDef = false) : ∀ o ∈ substBody renames bindings body, o.isDef = false := by
  intro o ho
  simp only [substBody, List.mem_map] at ho
  obtain ⟨x, hx, rfl⟩ := ho
  have := h x hx
  cases x with
  | op code imm => cases imm <;> rfl
  | label l => rfl
  | push ex => rfl
  | instrDef n ps b => simp [AOp.isDef] at this
  | exprDef n ps b => simp [AOp.isDef] at this
  | «macro» n a => rfl

/-- an instantiated body defines no macro if the stored one does not -/
theorem instantiate_nodef (rnd : Nat → Nat) (name : String) (params : List String) (body : List AOp)
    (args : List Expr) (k : Nat) (r : List AOp × Nat) (hb : ∀ o ∈ body, o.isDef = false)
    (h : instantiate rnd name params body args k = .ok r) : ∀ o ∈ r.1, o.isDef = false := by
  unfold instantiate at h
  split at h
  · cases h
  · cases hr : renameLocals rnd name body k [] with
    | error e1 => rw [hr] at h; cases h
    | ok r1 =>
      rw [hr] at h
      simp only [Except.ok.injEq] at h
      subst h
      exact substBody_nodef _ _ _ (renameLocals_nodef rnd name body k [] r1 hb hr)

theorem toList_ofList_rawOps : ∀ l : List RawOp, (RawOps.ofList l).toList = l
  | [] => rfl
  | x :: l => by simp only [RawOps.ofList, RawOps.toList, toList_ofList_rawOps l]

/-- the expanded program declares the same macros -/
theorem declareMacros_expProg (pre : List AOp) (name : String) (args : List Expr) (post : RawOps) (body' : List AOp)
    (hb : ∀ o ∈ body', o.isDef = false) (ms0 : List (String × MacroDef)) :
    declareMacros (expProg pre body' post).toList ms0 = declareMacros (invProg pre name args post).toList ms0 := by
  simp only [expProg, invProg, toList_ofList_rawOps]
  rw [List.append_assoc, declareMacros_append, declareMacros_append _ (pre.map RawOp.op)]
  cases declareMacros (pre.map RawOp.op) ms0 with
  | error e => rfl
  | ok ms1 =>
    simp only []
    rw [declareMacros_append, declareMacros_nodef body' hb]
    simp only [declareMacros]


/-! ### `assemble`: declare, feed, finish -/

/-- the last phase, after feeding -/
def finishRun (r : Except AsmErr St) : Except AsmErr (List Nat × Nat) :=
  match r with
  | .error e => .error e
  | .ok s => (finish s).map (fun bytes => (bytes, s.fresh))

theorem assemble_zero (rnd : Nat → Nat) (s : St) (ops : RawOps) : assemble rnd 0 s ops = .error (.panic "fuel") := by
  simp [assemble]

theorem assemble_succ_eq (rnd : Nat → Nat) (f k : Nat) (ops : RawOps) (ms : List (String × MacroDef))
    (hd : declareMacros ops.toList [] = .ok ms) :
    assemble rnd (f + 1) { fresh := k } ops = finishRun (feedAll rnd f { macros := ms, fresh := k } ops) := by
  simp only [assemble]
  show (match declareMacros ops.toList [] with | .error e => _ | .ok ms => _) = _
  rw [hd]
  simp only [finishRun]
  cases feedAll rnd f { macros := ms, fresh := k } ops <;> rfl

theorem finishRun_fuel (r : Except AsmErr St) (h : NoFuel (finishRun r)) : NoFuel r := by
  intro hc; rw [hc] at h; exact h rfl

/-- whatever the program with the invocation yields — bytes or an error other than the recursion limit — the expanded
program yields too (its suffix counter starting where the instantiation left it) -/
theorem assemble_invocation (rnd : Nat → Nat) (fuel k : Nat) (pre : List AOp) (name : String) (args : List Expr)
    (post : RawOps) (params : List String) (body body' : List AOp) (k' : Nat) (ms : List (String × MacroDef))
    (hplain : ∀ o ∈ pre, match o with | .macro _ _ => False | _ => True)
    (hms : declareMacros (invProg pre name args post).toList [] = .ok ms)
    (hm : lookupMacro ms name = some (.instr params body))
    (hnodef : ∀ o ∈ body, o.isDef = false)
    (hinst : instantiate rnd name params body args k = .ok (body', k'))
    (res : Except AsmErr (List Nat × Nat))
    (hres : assemble rnd fuel { fresh := k } (invProg pre name args post) = res)
    (hrec : ∀ n, res ≠ .error (.macroRecursionLimit n)) (hfuel : res ≠ .error (.panic "fuel")) :
    ∃ fuel', assemble rnd fuel' { fresh := k' } (expProg pre body' post) = res := by
  subst hres
  cases fuel with
  | zero => exact absurd (assemble_zero ..) hfuel
  | succ f =>
    have hms' : declareMacros (expProg pre body' post).toList [] = .ok ms := by
      rw [declareMacros_expProg pre name args post body' (instantiate_nodef _ _ _ _ _ _ _ hnodef hinst)]
      exact hms
    rw [assemble_succ_eq rnd f k _ ms hms] at hrec hfuel ⊢
    have hrun : FA rnd { macros := ms, fresh := k }
        (pre.map RawOp.op ++ RawOp.op (.macro name args) :: post.toList)
        (feedAll rnd f { macros := ms, fresh := k } (invProg pre name args post)) :=
      ⟨f, rfl, finishRun_fuel _ hfuel⟩
    obtain ⟨f', e', _⟩ := FA_invocation rnd ms k pre name args post.toList params body body' k' hplain hm hinst _
      (by intro n hc; rw [hc] at hrec; exact hrec n rfl) hrun
    refine ⟨f' + 1, ?_⟩
    rw [assemble_succ_eq rnd f' k' _ ms hms']
    exact congrArg finishRun e'

/-- conversely: whatever the expanded program yields, the program with the invocation yields, or it stops at the
recursion limit -/
theorem assemble_invocation_conv (rnd : Nat → Nat) (fuel k : Nat) (pre : List AOp) (name : String) (args : List Expr)
    (post : RawOps) (params : List String) (body body' : List AOp) (k' : Nat) (ms : List (String × MacroDef))
    (hplain : ∀ o ∈ pre, match o with | .macro _ _ => False | _ => True)
    (hms : declareMacros (invProg pre name args post).toList [] = .ok ms)
    (hm : lookupMacro ms name = some (.instr params body))
    (hnodef : ∀ o ∈ body, o.isDef = false)
    (hinst : instantiate rnd name params body args k = .ok (body', k'))
    (res : Except AsmErr (List Nat × Nat))
    (hres : assemble rnd fuel { fresh := k' } (expProg pre body' post) = res)
    (hfuel : res ≠ .error (.panic "fuel")) :
    ∃ fuel', assemble rnd fuel' { fresh := k } (invProg pre name args post) = res ∨
      ∃ n, assemble rnd fuel' { fresh := k } (invProg pre name args post) = .error (.macroRecursionLimit n) := by
  subst hres
  cases fuel with
  | zero => exact absurd (assemble_zero ..) hfuel
  | succ f =>
    have hms' : declareMacros (expProg pre body' post).toList [] = .ok ms := by
      rw [declareMacros_expProg pre name args post body' (instantiate_nodef _ _ _ _ _ _ _ hnodef hinst)]
      exact hms
    rw [assemble_succ_eq rnd f k' _ ms hms'] at hfuel ⊢
    have hrun : FA rnd { macros := ms, fresh := k' }
        (pre.map RawOp.op ++ body'.map RawOp.op ++ post.toList)
        (feedAll rnd f { macros := ms, fresh := k' } (expProg pre body' post)) :=
      ⟨f, rfl, finishRun_fuel _ hfuel⟩
    rcases FA_invocation_conv rnd ms k pre name args post.toList params body body' k' hplain hm hinst _ hrun with
      ⟨f', e', _⟩ | ⟨n, f', e', _⟩
    · refine ⟨f' + 1, Or.inl ?_⟩
      rw [assemble_succ_eq rnd f' k _ ms hms]
      exact congrArg finishRun e'
    · refine ⟨f' + 1, Or.inr ⟨n, ?_⟩⟩
      rw [assemble_succ_eq rnd f' k _ ms hms]
      exact congrArg finishRun e'


/-- an invocation that cannot be expanded fails with the matching error — PROVIDED the statements before it are fed
without error (the assembler reports faults in feed order: a fault in `pre` comes first) -/
theorem assemble_invocation_rejects (rnd : Nat → Nat) (f k : Nat) (pre : List AOp) (name : String) (args : List Expr)
    (post : RawOps) (ms : List (String × MacroDef)) (s1 : St)
    (hplain : ∀ o ∈ pre, match o with | .macro _ _ => False | _ => True)
    (hms : declareMacros (invProg pre name args post).toList [] = .ok ms)
    (hpre : feedAll rnd f { macros := ms, fresh := k } (RawOps.ofList (pre.map RawOp.op)) = .ok s1) :
    ∃ f0, ∀ fuel, f0 ≤ fuel →
      ((∀ params body, lookupMacro ms name ≠ some (.instr params body)) →
        assemble rnd fuel { fresh := k } (invProg pre name args post) = .error (.undeclaredInstructionMacro name)) ∧
      (∀ params body, lookupMacro ms name = some (.instr params body) → params.length ≠ args.length →
        assemble rnd fuel { fresh := k } (invProg pre name args post) = .error (.macroArgumentCount name)) ∧
      (∀ params body e, lookupMacro ms name = some (.instr params body) → params.length = args.length →
        instantiate rnd name params body args k = .error e →
        assemble rnd fuel { fresh := k } (invProg pre name args post) = .error e) := by
  refine ⟨(maxMacroDepth + 2) * (opsSize (invProg pre name args post) + 2), ?_⟩
  intro fuel hge
  have hA : FA rnd { macros := ms, fresh := k } (pre.map RawOp.op) (.ok s1) := ⟨f, hpre, noFuel_ok _⟩
  obtain ⟨hfr, hmc, hdp⟩ := (FA_plain rnd id id pre hplain _ _ hA).2 s1 rfl
  simp only [] at hfr hmc hdp
  have key : ∀ eX, eX ≠ .panic "fuel" → push rnd 2 s1 (.op (.macro name args)) = .error eX →
      assemble rnd fuel { fresh := k } (invProg pre name args post) = .error eX := by
    intro eX hne hp
    have hrun : FA rnd { macros := ms, fresh := k }
        (pre.map RawOp.op ++ RawOp.op (.macro name args) :: post.toList) (.error eX) :=
      (FA_append ..).2 ⟨_, hA, (FA_cons ..).2 ⟨.error eX, ⟨2, hp, (noFuel_error_iff _).2 hne⟩, rfl⟩⟩
    obtain ⟨f', e', _⟩ := hrun
    have h1 : assemble rnd (f' + 1) { fresh := k } (invProg pre name args post) = .error eX := by
      rw [assemble_succ_eq rnd f' k _ ms hms]
      exact congrArg finishRun e'
    have hnf := assemble_fuel_sufficient rnd k (invProg pre name args post) fuel hge "fuel"
    exact Reaches.det (assemble_stable rnd { fresh := k } (invProg pre name args post))
      ⟨fuel, rfl, hnf⟩ ⟨f' + 1, h1, (noFuel_error_iff _).2 hne⟩
  refine ⟨?_, ?_, ?_⟩
  · intro hno
    apply key _ (by intro hc; cases hc)
    simp only [push]
    exact expandMacro_other rnd 0 s1 name args (by rw [hmc]; exact hno)
  · intro params body hm hne
    apply key _ (by intro hc; cases hc)
    simp only [push]
    rw [expandMacro_instr rnd 0 s1 name args params body (by rw [hmc]; exact hm), if_pos hne]
  · intro params body e hm harity hinst
    apply key _ (fun hc => instantiate_notPanic _ _ _ _ _ _ _ hinst "fuel" hc)
    simp only [push]
    rw [expandMacro_instr rnd 0 s1 name args params body (by rw [hmc]; exact hm),
      if_neg (fun hne => hne harity), if_neg (by rw [hdp]; decide), hfr, hinst]


/-! ### non-vacuity: `jumpdest; %m(7); pc` with `%macro m(x)  a: push1 $x  push2 a  %end` -/
namespace InvocationExample

def rnd : Nat → Nat := fun k => k
def bodyM : List AOp := [.label "a", .op 0x60 (some (.var "x")), .op 0x61 (some (.label "a"))]
def pre : List AOp := [.instrDef "m" ["x"] (AOps.ofList bodyM), .op 0x5b none]
def post : RawOps := RawOps.ofList [.op (.op 0x58 none)]
def body' : List AOp := [.label "m_a_0", .op 0x60 (some (.num 7)), .op 0x61 (some (.label "m_a_0"))]
def ms : List (String × MacroDef) := [("m", .instr ["x"] bodyM)]

/-- equality of answers is decidable (for `decide +kernel` below) -/
local instance decEqAnswer : DecidableEq (Except AsmErr (List Nat × Nat)) := fun a b =>
  match a, b with
  | .ok x, .ok y => if h : x = y then isTrue (by rw [h]) else isFalse (by intro hc; injection hc with hc; exact h hc)
  | .error x, .error y => if h : x = y then isTrue (by rw [h]) else isFalse (by intro hc; injection hc with hc; exact h hc)
  | .ok _, .error _ => isFalse (by intro hc; cases hc)
  | .error _, .ok _ => isFalse (by intro hc; cases hc)

theorem hplain : ∀ o ∈ pre, match o with | .macro _ _ => False | _ => True := by
  intro o ho
  simp only [pre, List.mem_cons, List.not_mem_nil, or_false] at ho
  rcases ho with rfl | rfl <;> trivial

theorem hms : declareMacros (invProg pre "m" [.num 7] post).toList [] = .ok ms := by rfl
theorem hm : lookupMacro ms "m" = some (.instr ["x"] bodyM) := by rfl
theorem hnodef : ∀ o ∈ bodyM, o.isDef = false := by
  intro o ho
  simp only [bodyM, List.mem_cons, List.not_mem_nil, or_false] at ho
  rcases ho with rfl | rfl | rfl <;> rfl
theorem hinst : instantiate rnd "m" ["x"] bodyM [.num 7] 0 = .ok (body', 1) := by rfl
theorem hres : assemble rnd 10 { fresh := 0 } (invProg pre "m" [.num 7] post) =
    .ok ([0x5b, 0x60, 7, 0x61, 0, 1, 0x58], 1) := by decide +kernel

/-- every hypothesis of `assemble_invocation` holds for this program; the expanded program
`jumpdest; m_a_0: push1 7  push2 m_a_0; pc` (suffix counter starting at 1) assembles to the same bytes -/
theorem expanded_same : ∃ fuel', assemble rnd fuel' { fresh := 1 } (expProg pre body' post) =
    .ok ([0x5b, 0x60, 7, 0x61, 0, 1, 0x58], 1) :=
  assemble_invocation rnd 10 0 pre "m" [.num 7] post ["x"] bodyM body' 1 ms hplain hms hm hnodef hinst _ hres
    (by intro n h; cases h) (by intro h; cases h)

/-- and the rejecting theorem is not vacuous either: `pre` is fed without error -/
theorem pre_fed : ∃ s1, feedAll rnd 5 { macros := ms, fresh := 0 } (RawOps.ofList (pre.map RawOp.op)) = .ok s1 :=
  ⟨_, rfl⟩

/-- `jumpdest; %zz(); pc`: the invocation of an unknown macro is rejected with exactly that error -/
theorem unknown_rejected : ∃ f0, ∀ fuel, f0 ≤ fuel →
    assemble rnd fuel { fresh := 0 } (invProg pre "zz" [] post) = .error (.undeclaredInstructionMacro "zz") := by
  obtain ⟨s1, hs1⟩ := pre_fed
  obtain ⟨f0, h⟩ := assemble_invocation_rejects rnd 5 0 pre "zz" [] post ms s1 hplain (by rfl) hs1
  refine ⟨f0, fun fuel hge => (h fuel hge).1 ?_⟩
  have hnone : lookupMacro ms "zz" = none := by rfl
  intro params body hc
  rw [hnone] at hc
  cases hc

end InvocationExample

end Asm
end EtkVerif
