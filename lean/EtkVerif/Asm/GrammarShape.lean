/-
Grammar-specific half of `parseAsm_panic_only_fuel`: a rule-level specification `spec`
for the regenerated grammar (`Gen.grammar`), closed under every rule body, saying that
the pairs each rule emits are `Good*` in the sense of `ParseGood.lean`.
-/
import EtkVerif.Asm.PestText
import EtkVerif.Asm.ParseGood
import EtkVerif.Asm.ExprLemmas
namespace EtkVerif
namespace Asm
open Pest

/-- the environment `Pest.parse` builds for the grammar -/
def genv (text : List Nat) : Env := ⟨Gen.grammar.toArray, text.toArray, some 49, some 50⟩

def ruleOf (n : Nat) : Rule := Gen.grammar.getD n default

theorem find_ws : Pest.findRule Gen.grammar [87, 72, 73, 84, 69, 83, 80, 65, 67, 69] = some 49 := by decide +kernel
theorem find_comment : Pest.findRule Gen.grammar [67, 79, 77, 77, 69, 78, 84] = some 50 := by decide +kernel

theorem parse_eq (text : List Nat) : Pest.parse Gen.grammar Gen.R_program text =
    match callRule (genv text) (16 * text.toArray.size + 1000) Gen.R_program .nonAtomic false 0 with
    | some (_, ks) => some ks
    | none => none := by
  unfold Pest.parse
  simp only [find_ws, find_comment]
  rfl

theorem genv_rule (text : List Nat) (n : Nat) (r : Rule) (h : (genv text).g[n]? = some r) : n < 51 ∧ r = ruleOf n := by
  have h' : Gen.grammar[n]? = some r := by simpa [genv] using h
  have hlt : n < Gen.grammar.length := by
    by_cases hlt : n < Gen.grammar.length
    · exact hlt
    · rw [List.getElem?_eq_none (by omega)] at h'; cases h'
  refine ⟨hlt, ?_⟩
  unfold ruleOf
  rw [List.getD_eq_getElem?_getD, h']
  rfl

/-! ### finite languages -/

def lang9 : List (List Nat) := langOf (fun _ => []) (ruleOf 9).body
def lang5 : List (List Nat) := langOf (fun _ => lang9) (ruleOf 5).body
def lang6 : List (List Nat) := langOf (fun _ => lang9) (ruleOf 6).body
def lang7 : List (List Nat) := langOf (fun _ => []) (ruleOf 7).body
def lang3 : List (List Nat) :=
  langOf (fun n => if n = 5 then lang5 else if n = 6 then lang6 else if n = 7 then lang7 else []) (ruleOf 3).body
def lang8 : List (List Nat) := langOf (fun _ => []) (ruleOf 8).body

/-- every text the `op` rule can match is a mnemonic of the table -/
theorem lang3_ok : lang3.all (fun m => (Ops.parse Gen.cancun m).isSome) = true := by decide +kernel

def sizeOK (m : List Nat) : Bool :=
  match parseRadix m 10 with
  | .ok n => decide (1 ≤ n.toNat) && decide (n.toNat ≤ 32)
  | .error _ => false

/-- every text `word_size` can match is a decimal number 1…32 -/
theorem lang8_ok : lang8.all sizeOK = true := by decide +kernel

theorem simple_3 : simple (ruleOf 3).body = true := by decide +kernel
theorem refs_3 : refsOf (ruleOf 3).body = [5, 6, 7] := by decide +kernel

/-! ### digits -/

theorem parseRadix_seg {inp : Array Nat} {p q radix : Nat}
    (h : AllIn inp p q (fun c => (toDigit radix c).isSome = true)) (hpq : p < q) :
    ∃ v, parseRadix (seg inp p q) radix = .ok v :=
  (parseRadix_ok_iff radix _).2 ⟨seg_ne_nil h hpq, seg_all h⟩

theorem txt_mk (inp : Array Nat) (r s e : Nat) (k : List Pair) : txt inp (Pair.mk r s e k) = seg inp s e := rfl

/-! ### the specification -/

/-- a single pair of rule `n` spanning `p … p'` and satisfying `P` -/
def One (n p p' : Nat) (ks : List Pair) (P : Pair → Prop) : Prop :=
  ∃ k, ks = [Pair.mk n p p' k] ∧ P (Pair.mk n p p' k)

def AllTop (inp : Array Nat) (ks : List Pair) : Prop := ∀ t, t ∈ ks → GoodTop inp t

def GoodStmts (inp : Array Nat) (ks : List Pair) : Prop :=
  (∀ b, b ∈ ks → b.rule = Gen.R_push_macro → GoodPM inp b) ∧
  (∀ b, b ∈ ks → b.rule ≠ Gen.R_push_macro → GoodA inp b)

def ArgsOK (inp : Array Nat) (ks : List Pair) : Prop := ∀ a, a ∈ ks → a.rule = Gen.R_expression → GoodE inp a

def AllE (inp : Array Nat) (ks : List Pair) : Prop := ∀ a, a ∈ ks → GoodE inp a

def LangAt (inp : Array Nat) (L : List (List Nat)) (p p' : Nat) : Prop := ∃ m, m ∈ L ∧ Lit inp p p' m

def ruleSpec (inp : Array Nat) : Nat → Atom → Nat → Nat → List Pair → Prop
  | 0 => fun at_ _ _ ks => at_ = .nonAtomic → AllTop inp ks
  | 1 => fun at_ _ _ ks => at_ = .nonAtomic → AllTop inp ks
  | 2 => fun at_ _ _ ks => at_ = .nonAtomic → AllTop inp ks
  | 3 => fun at_ p p' ks => at_ = .nonAtomic → One 3 p p' ks (GoodA inp)
  | 4 => fun at_ p p' ks => at_ = .nonAtomic → One 4 p p' ks (GoodA inp)
  | 5 => fun at_ p p' _ => at_ = .atomic → LangAt inp lang5 p p'
  | 6 => fun at_ p p' _ => at_ = .atomic → LangAt inp lang6 p p'
  | 7 => fun at_ p p' _ => at_ = .atomic → LangAt inp lang7 p p'
  | 8 => fun at_ p p' ks => at_ = .compound → One 8 p p' ks (fun _ => LangAt inp lang8 p p')
  | 9 => fun at_ p p' _ => at_ = .atomic → LangAt inp lang9 p p'
  | 10 => fun at_ p p' ks => at_ = .nonAtomic → One 10 p p' ks (fun t =>
      ∃ decl stmts name params, t.kids = decl :: stmts ∧ decl.kids = name :: params ∧ GoodStmts inp stmts)
  | 11 => fun at_ _ _ ks => at_ = .nonAtomic → GoodStmts inp ks
  | 12 => fun at_ p p' ks => at_ = .nonAtomic → One 12 p p' ks (GoodE inp)
  | 13 => fun at_ p p' ks => at_ = .nonAtomic → One 13 p p' ks (fun t =>
      ∃ name args, t.kids = name :: args ∧ AllE inp args)
  | 14 => fun at_ p p' ks => at_ = .nonAtomic → One 14 p p' ks (GoodA inp)
  | 15 => fun at_ p p' ks => at_ = .nonAtomic → One 15 p p' ks (GoodBuiltin inp)
  | 16 => fun at_ p p' ks => at_ = .compound → One 16 p p' ks (fun _ => True)
  | 17 => fun at_ p p' ks => at_ = .compound → One 17 p p' ks (fun _ => True)
  | 18 => fun at_ p p' ks => at_ = .compound → One 18 p p' ks (fun _ => True)
  | 19 => fun at_ p p' ks => at_ ≠ .atomic → One 19 p p' ks (GoodPM inp)
  | 20 => fun at_ _ _ ks => at_ = .nonAtomic → ArgsOK inp ks
  | 21 => fun at_ _ _ ks => at_ = .nonAtomic → ArgsOK inp ks
  | 22 => fun at_ _ _ ks => at_ = .nonAtomic → ArgsOK inp ks
  | 23 => fun at_ p p' ks => at_ = .nonAtomic → One 23 p p' ks (fun _ => True)
  | 25 => fun at_ p p' ks => at_ = .nonAtomic → One 25 p p' ks (fun t =>
      ∃ decl body rest name params, t.kids = decl :: body :: rest ∧ decl.kids = name :: params ∧ GoodE inp body)
  | 26 => fun at_ p p' ks => at_ = .nonAtomic → One 26 p p' ks (GoodE inp)
  | 27 => fun at_ p p' ks => at_ = .nonAtomic → One 27 p p' ks (GoodE inp)
  | 28 => fun at_ p p' ks => at_ = .nonAtomic → One 28 p p' ks (GoodE inp)
  | 29 => fun at_ _ _ ks => at_ = .compound → ∃ t, ks = [t]
  | 30 => fun at_ p p' ks => at_ = .nonAtomic → One 30 p p' ks (fun t => ∃ name params, t.kids = name :: params)
  | 31 => fun at_ _ _ ks => at_ = .nonAtomic → ∃ name args, ks = name :: args ∧ AllE inp args
  | 32 => fun at_ _ _ ks => at_ = .nonAtomic → ∃ t, ks = [t]
  | 33 => fun at_ p p' _ => at_ = .atomic → p < p'
  | 34 => fun at_ _ _ ks => at_ = .nonAtomic → ∃ t, ks = [t] ∧ GoodE inp t
  | 35 => fun at_ p p' ks => at_ = .nonAtomic → One 35 p p' ks (GoodE inp)
  | 36 => fun at_ p p' ks => at_ = .nonAtomic → One 36 p p' ks (GoodE inp)
  | 37 => fun at_ p p' ks => at_ = .nonAtomic → One 37 p p' ks (GoodE inp)
  | 38 => fun at_ p p' ks => at_ = .nonAtomic → One 38 p p' ks (GoodE inp)
  | 39 => fun at_ p p' ks => at_ = .nonAtomic → One 39 p p' ks (GoodE inp)
  | 40 => fun at_ p p' ks => at_ = .nonAtomic → One 40 p p' ks (GoodA inp)
  | 41 => fun at_ p p' ks => at_ ≠ .atomic → One 41 p p' ks (GoodE inp)
  | 42 => fun at_ _ _ ks => at_ = .nonAtomic → ∃ t, ks = [t] ∧ GoodE inp t
  | 43 => fun at_ p p' ks => at_ = .nonAtomic → One 43 p p' ks (GoodE inp)
  | 44 => fun at_ _ _ ks => at_ = .nonAtomic → ∃ o, ks = [o] ∧ (opOfRule o.rule).isSome = true
  | 45 => fun at_ p p' ks => at_ = .nonAtomic → One 45 p p' ks (fun _ => True)
  | 46 => fun at_ p p' ks => at_ = .nonAtomic → One 46 p p' ks (fun _ => True)
  | 47 => fun at_ p p' ks => at_ = .nonAtomic → One 47 p p' ks (fun _ => True)
  | 48 => fun at_ p p' ks => at_ = .nonAtomic → One 48 p p' ks (fun _ => True)
  | 49 => fun _ _ _ ks => ks = []
  | _ => fun _ _ _ _ => True

/-- built-in rules are specified by their result; grammar rules by `ruleSpec` -/
def spec (inp : Array Nat) : Spec := fun n at_ p p' ks =>
  if isBuiltinRule n then builtin inp n at_ p = some (p', ks) else ruleSpec inp n at_ p p' ks

theorem spec_builtin (inp : Array Nat) {n : Nat} (h : isBuiltinRule n) (at_ : Atom) (p p' : Nat) (ks : List Pair) :
    spec inp n at_ p p' ks = (builtin inp n at_ p = some (p', ks)) := if_pos h

theorem spec_rule (inp : Array Nat) {n : Nat} (h : n < 51) (at_ : Atom) (p p' : Nat) (ks : List Pair) :
    spec inp n at_ p p' ks = ruleSpec inp n at_ p p' ks := if_neg (by unfold isBuiltinRule; omega)

theorem ty_0 : (ruleOf 0).ty = .silent := rfl
theorem body_0 : (ruleOf 0).body = (.seq (.seq (.ref 1000) (.ref 1)) (.ref 1001)) := rfl
theorem ty_1 : (ruleOf 1).ty = .silent := rfl
theorem body_1 : (ruleOf 1).body = (.seq (.seq (.star (.ref 1003)) (.star (.seq (.ref 2) (.alt (.plus (.ref 1003)) (.str [59]))))) (.opt (.ref 2))) := rfl
theorem ty_2 : (ruleOf 2).ty = .silent := rfl
theorem body_2 : (ruleOf 2).body = (.alt (.alt (.alt (.alt (.ref 40) (.ref 15)) (.ref 14)) (.ref 4)) (.ref 3)) := rfl
theorem ty_3 : (ruleOf 3).ty = .atomic := rfl
theorem ty_4 : (ruleOf 4).ty = .compound := rfl
theorem body_4 : (ruleOf 4).body = (.seq (.seq (.seq (.str [112, 117, 115, 104]) (.ref 8)) (.ref 49)) (.ref 41)) := rfl
theorem ty_5 : (ruleOf 5).ty = .atomic := rfl
theorem body_5 : (ruleOf 5).body = (.seq (.str [115, 119, 97, 112]) (.ref 9)) := rfl
theorem ty_6 : (ruleOf 6).ty = .atomic := rfl
theorem body_6 : (ruleOf 6).body = (.seq (.str [100, 117, 112]) (.ref 9)) := rfl
theorem ty_7 : (ruleOf 7).ty = .atomic := rfl
theorem body_7 : (ruleOf 7).body = (.seq (.str [108, 111, 103]) (.range 48 52)) := rfl
theorem ty_8 : (ruleOf 8).ty = .atomic := rfl
theorem body_8 : (ruleOf 8).body = (.alt (.alt (.seq (.range 49 50) (.range 48 57)) (.seq (.str [51]) (.range 48 50))) (.range 49 57)) := rfl
theorem ty_9 : (ruleOf 9).ty = .atomic := rfl
theorem body_9 : (ruleOf 9).body = (.alt (.seq (.str [49]) (.range 48 54)) (.range 49 57)) := rfl
theorem ty_10 : (ruleOf 10).ty = .normal := rfl
theorem body_10 : (ruleOf 10).body = (.seq (.seq (.seq (.seq (.str [37, 109, 97, 99, 114, 111]) (.ref 30)) (.star (.ref 1003))) (.star (.seq (.ref 11) (.plus (.ref 1003))))) (.str [37, 101, 110, 100])) := rfl
theorem ty_11 : (ruleOf 11).ty = .silent := rfl
theorem body_11 : (ruleOf 11).body = (.alt (.alt (.alt (.alt (.ref 40) (.seq (.str [37]) (.ref 19))) (.ref 14)) (.ref 4)) (.ref 3)) := rfl
theorem ty_12 : (ruleOf 12).ty = .atomic := rfl
theorem body_12 : (ruleOf 12).body = (.seq (.str [36]) (.ref 33)) := rfl
theorem ty_13 : (ruleOf 13).ty = .nonAtomic := rfl
theorem body_13 : (ruleOf 13).body = (.seq (.str [37]) (.ref 31)) := rfl
theorem ty_14 : (ruleOf 14).ty = .normal := rfl
theorem body_14 : (ruleOf 14).body = (.seq (.neg (.ref 15)) (.alt (.alt (.ref 10) (.ref 13)) (.ref 25))) := rfl
theorem ty_15 : (ruleOf 15).ty = .compound := rfl
theorem body_15 : (ruleOf 15).body = (.seq (.str [37]) (.alt (.alt (.alt (.ref 16) (.ref 17)) (.ref 18)) (.ref 19))) := rfl
theorem ty_16 : (ruleOf 16).ty = .nonAtomic := rfl
theorem body_16 : (ruleOf 16).body = (.seq (.str [105, 109, 112, 111, 114, 116]) (.ref 20)) := rfl
theorem ty_17 : (ruleOf 17).ty = .nonAtomic := rfl
theorem body_17 : (ruleOf 17).body = (.seq (.str [105, 110, 99, 108, 117, 100, 101]) (.ref 20)) := rfl
theorem ty_18 : (ruleOf 18).ty = .nonAtomic := rfl
theorem body_18 : (ruleOf 18).body = (.seq (.str [105, 110, 99, 108, 117, 100, 101, 95, 104, 101, 120]) (.ref 20)) := rfl
theorem ty_19 : (ruleOf 19).ty = .nonAtomic := rfl
theorem body_19 : (ruleOf 19).body = (.seq (.str [112, 117, 115, 104]) (.ref 20)) := rfl
theorem ty_20 : (ruleOf 20).ty = .silent := rfl
theorem body_20 : (ruleOf 20).body = (.seq (.seq (.str [40]) (.opt (.ref 21))) (.str [41])) := rfl
theorem ty_21 : (ruleOf 21).ty = .silent := rfl
theorem body_21 : (ruleOf 21).body = (.seq (.star (.seq (.ref 22) (.str [44]))) (.opt (.ref 22))) := rfl
theorem ty_22 : (ruleOf 22).ty = .silent := rfl
theorem body_22 : (ruleOf 22).body = (.alt (.ref 23) (.ref 41)) := rfl
theorem ty_23 : (ruleOf 23).ty = .atomic := rfl
theorem body_23 : (ruleOf 23).body = (.seq (.seq (.str [34]) (.star (.ref 24))) (.str [34])) := rfl
theorem ty_24 : (ruleOf 24).ty = .silent := rfl
theorem body_24 : (ruleOf 24).body = (.alt (.alt (.str [92, 92]) (.str [92, 34])) (.seq (.seq (.neg (.str [92])) (.neg (.str [34]))) (.ref 1002))) := rfl
theorem ty_25 : (ruleOf 25).ty = .nonAtomic := rfl
theorem body_25 : (ruleOf 25).body = (.seq (.seq (.seq (.seq (.seq (.str [37, 100, 101, 102]) (.ref 30)) (.ref 1003)) (.ref 41)) (.ref 1003)) (.str [37, 101, 110, 100])) := rfl
theorem ty_26 : (ruleOf 26).ty = .normal := rfl
theorem body_26 : (ruleOf 26).body = (.ref 31) := rfl
theorem ty_27 : (ruleOf 27).ty = .compound := rfl
theorem body_27 : (ruleOf 27).body = (.seq (.seq (.str [115, 101, 108, 101, 99, 116, 111, 114, 40, 34]) (.ref 29)) (.str [34, 41])) := rfl
theorem ty_28 : (ruleOf 28).ty = .compound := rfl
theorem body_28 : (ruleOf 28).body = (.seq (.seq (.str [116, 111, 112, 105, 99, 40, 34]) (.ref 29)) (.str [34, 41])) := rfl
theorem ty_29 : (ruleOf 29).ty = .atomic := rfl
theorem body_29 : (ruleOf 29).body = (.seq (.seq (.seq (.seq (.ref 32) (.str [40])) (.star (.ref 33))) (.star (.seq (.str [44]) (.ref 33)))) (.str [41])) := rfl
theorem ty_30 : (ruleOf 30).ty = .normal := rfl
theorem body_30 : (ruleOf 30).body = (.seq (.seq (.seq (.seq (.ref 32) (.str [40])) (.star (.ref 33))) (.star (.seq (.str [44]) (.ref 33)))) (.str [41])) := rfl
theorem ty_31 : (ruleOf 31).ty = .silent := rfl
theorem body_31 : (ruleOf 31).body = (.seq (.seq (.seq (.ref 32) (.str [40])) (.opt (.seq (.ref 41) (.star (.seq (.str [44]) (.ref 41)))))) (.str [41])) := rfl
theorem ty_32 : (ruleOf 32).ty = .atomic := rfl
theorem body_32 : (ruleOf 32).body = (.seq (.alt (.ref 1008) (.str [95])) (.star (.alt (.ref 1009) (.str [95])))) := rfl
theorem ty_33 : (ruleOf 33).ty = .atomic := rfl
theorem body_33 : (ruleOf 33).body = (.seq (.ref 1008) (.star (.ref 1009))) := rfl
theorem ty_34 : (ruleOf 34).ty = .silent := rfl
theorem body_34 : (ruleOf 34).body = (.alt (.alt (.alt (.ref 35) (.ref 36)) (.ref 38)) (.ref 37)) := rfl
theorem ty_35 : (ruleOf 35).ty = .atomic := rfl
theorem body_35 : (ruleOf 35).body = (.seq (.str [48, 98]) (.plus (.ref 1005))) := rfl
theorem ty_36 : (ruleOf 36).ty = .atomic := rfl
theorem body_36 : (ruleOf 36).body = (.seq (.str [48, 111]) (.plus (.ref 1006))) := rfl
theorem ty_37 : (ruleOf 37).ty = .atomic := rfl
theorem body_37 : (ruleOf 37).body = (.plus (.ref 1004)) := rfl
theorem ty_38 : (ruleOf 38).ty = .atomic := rfl
theorem body_38 : (ruleOf 38).body = (.seq (.seq (.str [48, 120]) (.ref 1007)) (.plus (.ref 1007))) := rfl
theorem ty_39 : (ruleOf 39).ty = .atomic := rfl
theorem body_39 : (ruleOf 39).body = (.seq (.ref 1008) (.star (.alt (.ref 1009) (.str [95])))) := rfl
theorem ty_40 : (ruleOf 40).ty = .normal := rfl
theorem body_40 : (ruleOf 40).body = (.seq (.ref 39) (.str [58])) := rfl
theorem ty_41 : (ruleOf 41).ty = .nonAtomic := rfl
theorem body_41 : (ruleOf 41).body = (.seq (.ref 42) (.star (.seq (.ref 44) (.ref 42)))) := rfl
theorem ty_42 : (ruleOf 42).ty = .silent := rfl
theorem body_42 : (ruleOf 42).body = (.alt (.alt (.alt (.alt (.alt (.alt (.alt (.ref 12) (.ref 27)) (.ref 28)) (.ref 26)) (.ref 39)) (.ref 34)) (.ref 43)) (.seq (.seq (.str [40]) (.ref 41)) (.str [41]))) := rfl
theorem ty_43 : (ruleOf 43).ty = .atomic := rfl
theorem body_43 : (ruleOf 43).body = (.seq (.str [45]) (.plus (.ref 1004))) := rfl
theorem ty_44 : (ruleOf 44).ty = .silent := rfl
theorem body_44 : (ruleOf 44).body = (.alt (.alt (.alt (.ref 45) (.ref 46)) (.ref 47)) (.ref 48)) := rfl
theorem ty_45 : (ruleOf 45).ty = .normal := rfl
theorem body_45 : (ruleOf 45).body = (.str [43]) := rfl
theorem ty_46 : (ruleOf 46).ty = .normal := rfl
theorem body_46 : (ruleOf 46).body = (.str [45]) := rfl
theorem ty_47 : (ruleOf 47).ty = .normal := rfl
theorem body_47 : (ruleOf 47).body = (.str [42]) := rfl
theorem ty_48 : (ruleOf 48).ty = .normal := rfl
theorem body_48 : (ruleOf 48).body = (.str [47]) := rfl
theorem ty_49 : (ruleOf 49).ty = .silent := rfl
theorem body_49 : (ruleOf 49).body = (.alt (.str [32]) (.str [9])) := rfl
theorem ty_50 : (ruleOf 50).ty = .silent := rfl
theorem body_50 : (ruleOf 50).body = (.seq (.str [35]) (.star (.seq (.neg (.ref 1003)) (.ref 1002)))) := rfl

/-! ### accessors: what a reference to a rule says, in the atomicity it is used in -/
section
variable {inp : Array Nat} {at_ : Atom} {p p' : Nat} {ks : List Pair}

local notation "S" => Sem inp (spec inp)

def cls (inp : Array Nat) (p lo hi : Nat) : Res := if charIn inp p lo hi = true then some (p + 1, []) else none
theorem builtin_soi : builtin inp 1000 at_ p = if p = 0 then some (p, []) else none := rfl
theorem builtin_eoi : builtin inp 1001 at_ p =
    (if p = inp.size then (if at_ != .atomic then some (p, [Pair.mk 1001 p p []]) else some (p, [])) else none) := rfl
theorem builtin_nl : builtin inp 1003 at_ p = (if isPrefixAt inp p [10] then some (p + 1, [])
       else if isPrefixAt inp p [13, 10] then some (p + 2, [])
       else if isPrefixAt inp p [13] then some (p + 1, []) else none) := rfl
theorem builtin_digit : builtin inp 1004 at_ p = cls inp p 48 57 := rfl
theorem builtin_bin : builtin inp 1005 at_ p = cls inp p 48 49 := rfl
theorem builtin_oct : builtin inp 1006 at_ p = cls inp p 48 55 := rfl
theorem builtin_hex : builtin inp 1007 at_ p = ((cls inp p 48 57 <|> cls inp p 97 102) <|> cls inp p 65 70) := rfl
theorem builtin_alpha : builtin inp 1008 at_ p = (cls inp p 97 122 <|> cls inp p 65 90) := rfl
theorem builtin_alnum : builtin inp 1009 at_ p = ((cls inp p 48 57 <|> cls inp p 97 122) <|> cls inp p 65 90) := rfl

theorem b_soi (h : S at_ (.ref 1000) p p' ks) : ks = [] := by
  have h' : builtin inp 1000 at_ p = some (p', ks) := h
  rw [builtin_soi] at h'
  split at h' <;> simp_all

theorem b_eoi (h : S .nonAtomic (.ref 1001) p p' ks) : ks = [Pair.mk 1001 p p []] := by
  have h' : builtin inp 1001 .nonAtomic p = some (p', ks) := h
  rw [builtin_eoi] at h'
  split at h'
  · simp at h'
    exact h'.2.symm
  · cases h'

theorem b_newline (h : S at_ (.ref 1003) p p' ks) : ks = [] := by
  have h' : builtin inp 1003 at_ p = some (p', ks) := h
  rw [builtin_nl] at h'
  split at h'
  · simp_all
  · split at h'
    · simp_all
    · split at h' <;> simp_all

theorem cls_some {lo hi q : Nat} {r : Nat × List Pair}
    (h : cls inp q lo hi = some r) :
    r.1 = q + 1 ∧ ∃ c, inp[q]? = some c ∧ lo ≤ c ∧ c ≤ hi := by
  unfold cls at h
  split at h
  · rename_i hc
    cases h
    exact ⟨rfl, (charIn_iff _ _ _ _).1 hc⟩
  · cases h

theorem b_digit (h : S at_ (.ref 1004) p p' ks) : p' = p + 1 ∧ ∃ c, inp[p]? = some c ∧ 48 ≤ c ∧ c ≤ 57 := by
  have h' : builtin inp 1004 at_ p = some (p', ks) := h
  rw [builtin_digit] at h'
  exact cls_some h'

theorem b_bin (h : S at_ (.ref 1005) p p' ks) : p' = p + 1 ∧ ∃ c, inp[p]? = some c ∧ 48 ≤ c ∧ c ≤ 49 := by
  have h' : builtin inp 1005 at_ p = some (p', ks) := h
  rw [builtin_bin] at h'
  exact cls_some h'

theorem b_oct (h : S at_ (.ref 1006) p p' ks) : p' = p + 1 ∧ ∃ c, inp[p]? = some c ∧ 48 ≤ c ∧ c ≤ 55 := by
  have h' : builtin inp 1006 at_ p = some (p', ks) := h
  rw [builtin_oct] at h'
  exact cls_some h'

theorem orElse_some {α : Type} {a b : Option α} {r : α} (h : (a <|> b) = some r) : a = some r ∨ b = some r := by
  cases a with
  | none => right; simpa using h
  | some x => left; simpa using h

theorem b_hex (h : S at_ (.ref 1007) p p' ks) : p' = p + 1 ∧ ∃ c, inp[p]? = some c ∧
    ((48 ≤ c ∧ c ≤ 57) ∨ (97 ≤ c ∧ c ≤ 102) ∨ (65 ≤ c ∧ c ≤ 70)) := by
  have h' : builtin inp 1007 at_ p = some (p', ks) := h
  rw [builtin_hex] at h'
  rcases orElse_some h' with h1 | h1
  · rcases orElse_some h1 with h2 | h2
    · obtain ⟨e, c, hc, hb⟩ := cls_some h2
      exact ⟨e, c, hc, Or.inl hb⟩
    · obtain ⟨e, c, hc, hb⟩ := cls_some h2
      exact ⟨e, c, hc, Or.inr (Or.inl hb)⟩
  · obtain ⟨e, c, hc, hb⟩ := cls_some h1
    exact ⟨e, c, hc, Or.inr (Or.inr hb)⟩

theorem b_alpha (h : S at_ (.ref 1008) p p' ks) : p' = p + 1 := by
  have h' : builtin inp 1008 at_ p = some (p', ks) := h
  rw [builtin_alpha] at h'
  rcases orElse_some h' with h1 | h1 <;> exact (cls_some h1).1

theorem b_alnum (h : S at_ (.ref 1009) p p' ks) : p' = p + 1 := by
  have h' : builtin inp 1009 at_ p = some (p', ks) := h
  rw [builtin_alnum] at h'
  rcases orElse_some h' with h1 | h1
  · rcases orElse_some h1 with h2 | h2 <;> exact (cls_some h2).1
  · exact (cls_some h1).1

theorem s_str {s : List Nat} (h : S at_ (.str s) p p' ks) : ks = [] := h.2.2

end

end Asm
end EtkVerif
