/-
One statement of a decorated text in the real interpreter: `stmt` on `mnemonic` or
`pushN 0x<hex>` followed by a gap (blanks and possibly a comment) and then a line end,
a `;` or the end of input.
-/
import EtkVerif.Asm.LayoutSkip
namespace EtkVerif
namespace Asm
namespace Layout
open Pest Listing

/-- the pair of a statement that starts at `s` and is followed by a gap of `g` characters:
`op` is atomic and ends with the mnemonic; `push` ends with its `expression`, which — as
`term ~ (operation ~ term)*` in the non-atomic state — swallows the implicit whitespace after
the term -/
def pairG (s g : Nat) (i : Disasm.Instr) : Pair :=
  let m := (mnemOf i).length
  if i.imm.isEmpty then .mk Gen.R_op s (s + m) []
  else
    let e := s + m + 3 + 2 * i.imm.length
    .mk Gen.R_push s (e + g)
      [.mk Gen.R_word_size (s + 4) (s + m) [],
       .mk Gen.R_expression (s + m + 1) (e + g) [.mk Gen.R_hex (s + m + 1) e []]]

/-! ### grammar rules met on the way -/

def stmtBody : PE := .alt (.alt (.alt (.alt (.ref 40) (.ref 15)) (.ref 14)) (.ref 4)) (.ref 3)
def exprBody : PE := .seq (.ref 42) (.star (.seq (.ref 44) (.ref 42)))
def pushBody : PE := .seq pushHead (.ref 41)

theorem g2 (text : List Nat) : (envOf text).g[2]? = some ⟨2, [115, 116, 109, 116], .silent, stmtBody⟩ := rfl
theorem g4 (text : List Nat) : (envOf text).g[4]? = some ⟨4, [112, 117, 115, 104], .compound, pushBody⟩ := rfl
theorem g40 (text : List Nat) : (envOf text).g[40]? =
    some ⟨40, [108, 97, 98, 101, 108, 95, 100, 101, 102, 105, 110, 105, 116, 105, 111, 110], .normal,
      .seq (.ref 39) (.str [58])⟩ := rfl
theorem g41 (text : List Nat) : (envOf text).g[41]? =
    some ⟨41, [101, 120, 112, 114, 101, 115, 115, 105, 111, 110], .nonatomic, exprBody⟩ := rfl

variable {text : List Nat} {d d1 : Nat} {at_ : Atom} {la : Bool} {p q : Nat} {r : Res} {ks : List Pair}

theorem ev_stmt (h : Ev (envOf text) d1 stmtBody at_ la p r) (h1 : d1 ≤ d := by omega) :
    Ev (envOf text) (d + 2) (.ref 2) at_ la p r :=
  Ev.ref (by omega) (g2 text) (by simp [envOf]) (by simp [envOf]) h h1

theorem ev_labeldef_fail (h : Ev (envOf text) d1 (.seq (.ref 39) (.str [58])) at_ la p none)
    (h1 : d1 ≤ d := by omega) : Ev (envOf text) (d + 2) (.ref 40) at_ la p none :=
  Ev.ref (by omega) (g40 text) (by simp [envOf]) (by simp [envOf]) h h1

theorem ev_push (h : Ev (envOf text) d1 pushBody .compound false p (some (q, ks)))
    (h1 : d1 ≤ d := by omega) :
    Ev (envOf text) (d + 2) (.ref 4) at_ false p (some (q, [.mk 4 p q ks])) :=
  Ev.ref (by omega) (g4 text) (by simp [envOf]) (by simp [envOf]) h h1

theorem ev_expr (h : Ev (envOf text) d1 exprBody .nonAtomic false p (some (q, ks)))
    (h1 : d1 ≤ d := by omega) :
    Ev (envOf text) (d + 2) (.ref 41) at_ false p (some (q, [.mk 41 p q ks])) :=
  Ev.ref (by omega) (g41 text) (by simp [envOf]) (by simp [envOf]) h h1

/-! ### what follows a statement -/

inductive STail : List Nat → Prop
  | eof : STail []
  | lf (t : List Nat) : STail (10 :: t)
  | crlf (t : List Nat) : STail (13 :: 10 :: t)
  | semi (t : List Nat) : STail (59 :: t)

theorem STail.tail {s : List Nat} : STail s → Tail s
  | .eof => .eof
  | .lf t => .lf t
  | .crlf t => .crlf t
  | .semi t => .semi t

theorem LineEnd.stail {s : List Nat} : LineEnd s → STail s
  | .eof => .eof
  | .lf t => .lf t
  | .crlf t => .crlf t

/-- blanks, possibly a comment, then `s` -/
structure Gap (B : List Nat) (c : Option (List Nat)) (s : List Nat) : Prop where
  blanks : IsBlanks B
  comment : ∀ b, c = some b → IsCommentBody b ∧ LineEnd s
  stail : STail s

theorem sent_mem {c : Nat} (h : c = 9 ∨ c = 10 ∨ c = 13 ∨ c = 32 ∨ c = 35 ∨ c = 59) : sentCls.mem c := by
  rcases h with rfl | rfl | rfl | rfl | rfl | rfl
  · exact ⟨(9, 10), by simp [sentCls], by decide, by decide⟩
  · exact ⟨(9, 10), by simp [sentCls], by decide, by decide⟩
  · exact ⟨(13, 13), by simp [sentCls], by decide, by decide⟩
  · exact ⟨(32, 32), by simp [sentCls], by decide, by decide⟩
  · exact ⟨(35, 35), by simp [sentCls], by decide, by decide⟩
  · exact ⟨(59, 59), by simp [sentCls], by decide, by decide⟩

theorem Gap.sent {B : List Nat} {c : Option (List Nat)} {s : List Nat} (h : Gap B c s) :
    B ++ commentText c ++ s = [] ∨ ∃ ch t, B ++ commentText c ++ s = ch :: t ∧ sentCls.mem ch := by
  cases B with
  | cons x B =>
    refine Or.inr ⟨x, B ++ commentText c ++ s, by simp, ?_⟩
    rcases h.blanks x (by simp) with rfl | rfl
    · exact sent_mem (by simp)
    · exact sent_mem (by simp)
  | nil =>
    cases c with
    | some b => exact Or.inr ⟨35, b ++ s, by simp [commentText], sent_mem (by simp)⟩
    | none =>
      cases h.stail with
      | eof => exact Or.inl (by simp [commentText])
      | lf t => exact Or.inr ⟨10, t, by simp [commentText], sent_mem (by simp)⟩
      | crlf t => exact Or.inr ⟨13, 10 :: t, by simp [commentText], sent_mem (by simp)⟩
      | semi t => exact Or.inr ⟨59, t, by simp [commentText], sent_mem (by simp)⟩

/-! ### the window of a statement -/

variable {i : Disasm.Instr}

theorem stmtText_eq (hv : Valid i) :
    stmtText i = (rowI i).mnem ++ (if (rowI i).extra = 0 then [] else [32, 48, 120] ++ hexOf i.imm) := by
  unfold stmtText mnemOf
  by_cases h : (rowI i).extra = 0
  · have := (imm_empty_iff hv).mpr h
    simp only [h, this, if_true]; rfl
  · have : ¬ i.imm.isEmpty = true := fun h' => h ((imm_empty_iff hv).mp h')
    simp only [h, this, if_false]; rfl

theorem stmt_match (hv : Valid i) : Match (stmtWin (rowI i)) (stmtText i) := by
  rw [stmtText_eq hv]
  unfold stmtWin
  refine Match.append (Match.singles _) ?_
  by_cases h : (rowI i).extra = 0
  · simp only [h, if_true]; trivial
  · simp only [h, if_false]
    have hl : (rowI i).extra = i.imm.length := hv.2.2.1.symm
    rw [hl]
    exact ⟨single_mem 32, single_mem 48, single_mem 120, Match.hex _ hv.2.2.2⟩

theorem stmt_len (hv : Valid i) :
    (stmtText i).length = (rowI i).mnem.length + (if (rowI i).extra = 0 then 0 else 3 + 2 * (rowI i).extra) := by
  rw [← (stmt_match hv).length]
  unfold stmtWin
  by_cases h : (rowI i).extra = 0
  · simp [h]
  · simp [h]; omega

theorem stmt_agree {S : Nat} {rest : List Nat} (hv : Valid i) (hs : Suf text S (stmtText i ++ rest))
    (hr : rest = [] ∨ ∃ ch t, rest = ch :: t ∧ sentCls.mem ch) :
    ∃ closed, Agree (envOf text) (ekV closed (rowI i)) S := by
  rcases hr with rfl | ⟨ch, t, rfl, hm⟩
  · exact ⟨true, hs.agree (stmt_match hv) (fun _ => rfl)⟩
  · refine ⟨false, ?_⟩
    have hs' : Suf text S ((stmtText i ++ [ch]) ++ t) := by simpa using hs
    exact hs'.agree (Match.append (stmt_match hv) (show Match [sentCls] [ch] from ⟨hm, trivial⟩))
      (fun h => by cases h)

theorem row_ok (hv : Valid i) (closed : Bool) : rowOKv closed (rowI i) = true := by
  have hlen : Gen.cancun.length = 256 := by decide +kernel
  have hmem : rowI i ∈ Gen.cancun := by
    unfold rowI Ops.rowOf
    rw [List.getD_eq_getElem?_getD, List.getElem?_eq_getElem (by have := hv.1; omega)]
    simp
  exact List.all_eq_true.mp (rowOK_all closed) _ hmem

/-! ### the statement -/

/-- a statement without immediate -/
theorem stmt_op {S : Nat} {B : List Nat} {c : Option (List Nat)} {s : List Nat} (hv : Valid i)
    (he : (rowI i).extra = 0) (hs : Suf text S (stmtText i ++ (B ++ commentText c ++ s))) (hg : Gap B c s) :
    Ev (envOf text) (B.length + (commentText c).length + 210) (.ref 2) .nonAtomic false S
      (some (S + (mnemOf i).length, [.mk 3 S (S + (mnemOf i).length) []])) := by
  obtain ⟨closed, hA⟩ := stmt_agree hv hs hg.sent
  have hrow := row_ok hv closed
  have hu : Ops.isUndefRow (rowI i) = false := hv.2.1
  simp only [rowOKv, hu, Bool.false_or, he, if_true, opOK, Bool.and_eq_true] at hrow
  obtain ⟨⟨⟨⟨h1, h2⟩, h3⟩, h4⟩, h5⟩ := hrow
  have hL : (mnemOf i).length = (rowI i).mnem.length := rfl
  have W39 : Ev (envOf text) D (.ref 39) .nonAtomic false S
      (some (S + (mnemOf i).length, [.mk 39 S (S + (mnemOf i).length) []])) := by
    simpa [shiftL, Pair.shift, hL] using Ev.of_window hA (resIs_eq h1)
  have W15 : Ev (envOf text) D (.ref 15) .nonAtomic false S none := by
    simpa using Ev.of_window hA (resFail_eq h2)
  have W14 : Ev (envOf text) D (.ref 14) .nonAtomic false S none := by
    simpa using Ev.of_window hA (resFail_eq h3)
  have W4 : Ev (envOf text) D (.ref 4) .nonAtomic false S none := by
    simpa using Ev.of_window hA (resFail_eq h4)
  have W3 : Ev (envOf text) D (.ref 3) .nonAtomic false S
      (some (S + (mnemOf i).length, [.mk 3 S (S + (mnemOf i).length) []])) := by
    simpa [shiftL, Pair.shift, hL] using Ev.of_window hA (resIs_eq h5)
  have hlen : (stmtText i).length = (mnemOf i).length := by rw [stmt_len hv, he]; simp [hL]
  have hs1 : Suf text (S + (mnemOf i).length) (B ++ commentText c ++ s) := by
    have := hs.app; rwa [hlen] at this
  have hsk := skip_gap B c _ hg.blanks hs1 hg.comment hg.stail.tail
  have hs2 : Suf text (S + (mnemOf i).length + B.length + (commentText c).length) s := by
    have := Suf.app (a := B ++ commentText c) (b := s) hs1
    simpa [Nat.add_assoc] using this
  have h58 := (tail_facts hs2 hg.stail.tail).2.2.2.1
  have hD : D = 100 := rfl
  have h40 := ev_labeldef_fail (d := B.length + (commentText c).length + 101)
    (Ev.seq_fail2 (d := B.length + (commentText c).length + 100) W39 hsk h58)
  exact ev_stmt (d := B.length + (commentText c).length + 208)
    (Ev.alt_r (d := B.length + (commentText c).length + 107)
      (Ev.alt_r (d := B.length + (commentText c).length + 106)
        (Ev.alt_r (d := B.length + (commentText c).length + 105)
          (Ev.alt_r (d := B.length + (commentText c).length + 104) h40 W15) W14) W4) W3)

/-- a `pushN 0x<hex>` statement: the pairs of `push` and `expression` end after the gap -/
theorem stmt_push {S : Nat} {B : List Nat} {c : Option (List Nat)} {s : List Nat} (hv : Valid i)
    (he : (rowI i).extra ≠ 0) (hs : Suf text S (stmtText i ++ (B ++ commentText c ++ s))) (hg : Gap B c s) :
    Ev (envOf text) (B.length + (commentText c).length + 210) (.ref 2) .nonAtomic false S
      (some (S + (stmtText i).length + B.length + (commentText c).length,
        [pairG S (B.length + (commentText c).length) i])) := by
  obtain ⟨closed, hA⟩ := stmt_agree hv hs hg.sent
  have hrow := row_ok hv closed
  have hu : Ops.isUndefRow (rowI i) = false := hv.2.1
  simp only [rowOKv, hu, Bool.false_or, he, if_false, pushOK, Bool.and_eq_true] at hrow
  obtain ⟨⟨⟨⟨h1, h2⟩, h3⟩, h4⟩, h5⟩ := hrow
  have hL : (mnemOf i).length = (rowI i).mnem.length := rfl
  have hN : (rowI i).extra = i.imm.length := hv.2.2.1.symm
  have hlen : (stmtText i).length = (mnemOf i).length + 3 + 2 * i.imm.length := by
    rw [stmt_len hv, if_neg he, hL, hN]; omega
  have W40 : Ev (envOf text) D (.ref 40) .nonAtomic false S none := by
    simpa using Ev.of_window hA (resFail_eq h1)
  have W15 : Ev (envOf text) D (.ref 15) .nonAtomic false S none := by
    simpa using Ev.of_window hA (resFail_eq h2)
  have W14 : Ev (envOf text) D (.ref 14) .nonAtomic false S none := by
    simpa using Ev.of_window hA (resFail_eq h3)
  have Whead : Ev (envOf text) D pushHead .compound false S
      (some (S + ((mnemOf i).length + 1), [.mk 8 (S + 4) (S + (mnemOf i).length) []])) := by
    simpa [shiftL, Pair.shift, hL] using Ev.of_window hA (resIs_eq h4)
  have Wterm : Ev (envOf text) D (.ref 42) .nonAtomic false (S + ((mnemOf i).length + 1))
      (some (S + (stmtText i).length, [.mk 38 (S + ((mnemOf i).length + 1)) (S + (stmtText i).length) []])) := by
    have := Ev.of_window hA (resIs_eq h5)
    simp only [shiftR_some, shiftL, Pair.shift, ← hL, hN, ← hlen] at this
    exact this
  have hs1 : Suf text (S + (stmtText i).length) (B ++ commentText c ++ s) := hs.app
  have hsk := skip_gap B c _ hg.blanks hs1 hg.comment hg.stail.tail
  have hs2 : Suf text (S + (stmtText i).length + B.length + (commentText c).length) s := by
    have := Suf.app (a := B ++ commentText c) (b := s) hs1
    simpa [Nat.add_assoc] using this
  have hstar := (tail_facts hs2 hg.stail.tail).2.2.2.2
  have hD : D = 100 := rfl
  have hexpr : Ev (envOf text) (B.length + (commentText c).length + 103) (.ref 41) .compound false
      (S + ((mnemOf i).length + 1)) _ :=
    ev_expr (d := B.length + (commentText c).length + 101)
      (Ev.seq (d := B.length + (commentText c).length + 100) Wterm hsk hstar)
  have hpush : Ev (envOf text) (B.length + (commentText c).length + 106) (.ref 4) .nonAtomic false S _ :=
    ev_push (d := B.length + (commentText c).length + 104)
      (Ev.seq (d := B.length + (commentText c).length + 103) Whead (Sk.id_of_ne (by simp) _) hexpr)
  have hfin := ev_stmt (d := B.length + (commentText c).length + 208)
    (Ev.alt_l (d := B.length + (commentText c).length + 107) (b := .ref 3)
      (Ev.alt_r (d := B.length + (commentText c).length + 106)
        (Ev.alt_r (d := B.length + (commentText c).length + 105)
          (Ev.alt_r (d := B.length + (commentText c).length + 104) W40 W15) W14) hpush))
  have hemp : i.imm.isEmpty = false := by
    cases h : i.imm.isEmpty with
    | false => rfl
    | true => exact absurd ((imm_empty_iff hv).mp h) he
  have hpair : pairG S (B.length + (commentText c).length) i =
      .mk 4 S (S + (stmtText i).length + B.length + (commentText c).length)
        ([.mk 8 (S + 4) (S + (mnemOf i).length) []] ++
          [.mk 41 (S + ((mnemOf i).length + 1)) (S + (stmtText i).length + B.length + (commentText c).length)
            ([.mk 38 (S + ((mnemOf i).length + 1)) (S + (stmtText i).length) []] ++ [])]) := by
    simp only [pairG, hemp, Bool.false_eq_true, if_false, hlen, Gen.R_push, Gen.R_word_size, Gen.R_expression,
      Gen.R_hex, List.append_nil, List.singleton_append, Nat.add_assoc]
  rw [hpair]
  exact hfin

/-- a statement, and the implicit whitespace after it -/
theorem stmt_ok {S : Nat} {B : List Nat} {c : Option (List Nat)} {s : List Nat} (hv : Valid i)
    (hs : Suf text S (stmtText i ++ (B ++ commentText c ++ s))) (hg : Gap B c s) :
    ∃ e, Ev (envOf text) (B.length + (commentText c).length + 210) (.ref 2) .nonAtomic false S
        (some (e, [pairG S (B.length + (commentText c).length) i])) ∧
      Sk (envOf text) (B.length + (commentText c).length + 210) .nonAtomic e
        (S + (stmtText i).length + B.length + (commentText c).length) := by
  have hs1 : Suf text (S + (stmtText i).length) (B ++ commentText c ++ s) := hs.app
  have hs2 : Suf text (S + (stmtText i).length + B.length + (commentText c).length) s := by
    have := Suf.app (a := B ++ commentText c) (b := s) hs1
    simpa [Nat.add_assoc] using this
  by_cases he : (rowI i).extra = 0
  · have hemp := (imm_empty_iff hv).mpr he
    have hlen : (stmtText i).length = (mnemOf i).length := by
      rw [stmt_len hv, he]; simp; rfl
    refine ⟨S + (mnemOf i).length, ?_, ?_⟩
    · have := stmt_op hv he hs hg
      simpa [pairG, hemp, Gen.R_op] using this
    · rw [hlen] at hs1 ⊢
      exact (skip_gap B c _ hg.blanks hs1 hg.comment hg.stail.tail).mono (by omega)
  · exact ⟨_, stmt_push hv he hs hg, ((tail_facts hs2 hg.stail.tail).1).mono (by omega)⟩

end Layout
end Asm
end EtkVerif
