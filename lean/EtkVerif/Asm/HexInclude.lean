/-
`%include_hex`: decoding the hexadecimal text of a byte string, surrounded by any
white space, gives back exactly that byte string (`hex::decode(file.trim())`).
-/
import EtkVerif.Asm.Ingest
import EtkVerif.Asm.Listing
namespace EtkVerif.Asm
open Listing

theorem hexVal_hexDigit (n : Nat) (h : n < 16) : hexVal? (hexDigit n) = some n := by
  unfold hexVal? hexDigit
  split <;> (repeat' split) <;> first | (congr 1; omega) | omega

theorem hexDecode_hexOf (bs : List Nat) (h : ∀ b ∈ bs, b < 256) : hexDecode (hexOf bs) = some bs := by
  induction bs with
  | nil => simp [hexOf, hexDecode]
  | cons b bs ih =>
    have hb := h b (by simp)
    have := ih (fun x hx => h x (by simp [hx]))
    simp only [hexOf, hexDecode, hexVal_hexDigit (b / 16) (by omega), hexVal_hexDigit (b % 16) (by omega), this]
    congr 2
    omega
end EtkVerif.Asm
namespace EtkVerif.Asm
open Listing

theorem dropWhile_ws_append (pre rest : List Nat) (hpre : ∀ c ∈ pre, isWsCp c = true)
    (hrest : ∀ c, rest.head? = some c → isWsCp c = false) : (pre ++ rest).dropWhile isWsCp = rest := by
  induction pre with
  | nil =>
    cases rest with
    | nil => rfl
    | cons c cs => simp [hrest c (by simp)]
  | cons p ps ih =>
    simp only [List.cons_append, List.dropWhile, hpre p (by simp)]
    exact ih (fun c hc => hpre c (by simp [hc]))

theorem dropWhile_all_ws (l : List Nat) (h : ∀ c ∈ l, isWsCp c = true) : l.dropWhile isWsCp = [] := by
  induction l with
  | nil => rfl
  | cons c cs ih => simp [List.dropWhile, h c (by simp), ih (fun x hx => h x (by simp [hx]))]

/-- `str::trim` removes exactly the surrounding white space of a text whose first and last characters are not white space -/
theorem trimCp_surround (pre mid post : List Nat) (hpre : ∀ c ∈ pre, isWsCp c = true) (hpost : ∀ c ∈ post, isWsCp c = true)
    (hfirst : ∀ c, mid.head? = some c → isWsCp c = false) (hlast : ∀ c, mid.getLast? = some c → isWsCp c = false) :
    trimCp (pre ++ mid ++ post) = mid := by
  unfold trimCp
  cases hm : mid with
  | nil =>
    simp only [List.append_nil]
    rw [dropWhile_all_ws (pre ++ post) (by intro c hc; rcases List.mem_append.1 hc with h | h; exact hpre c h; exact hpost c h)]
    rfl
  | cons m ms =>
    subst hm
    rw [List.append_assoc, dropWhile_ws_append pre _ hpre (by intro c hc; simp at hc; subst hc; exact hfirst m (by simp))]
    rw [List.reverse_append]
    rw [dropWhile_ws_append post.reverse _ (by intro c hc; exact hpost c (List.mem_reverse.1 hc))
      (by intro c hc; rw [List.head?_reverse] at hc; exact hlast c hc)]
    simp
end EtkVerif.Asm
namespace EtkVerif.Asm
open Listing

theorem isWs_hexDigit (n : Nat) (h : n < 16) : isWsCp (hexDigit n) = false := by
  unfold isWsCp hexDigit
  split <;> simp <;> omega

theorem hexOf_all (bs : List Nat) (h : ∀ b ∈ bs, b < 256) : ∀ c ∈ hexOf bs, isWsCp c = false := by
  induction bs with
  | nil => simp [hexOf]
  | cons b bs ih =>
    have hb := h b (by simp)
    intro c hc
    simp only [hexOf, List.mem_cons] at hc
    rcases hc with rfl | rfl | hc
    · exact isWs_hexDigit _ (by omega)
    · exact isWs_hexDigit _ (by omega)
    · exact ih (fun x hx => h x (by simp [hx])) c hc

/-- `%include_hex`: a file holding the hex of `bs` (lower case, two digits per byte), surrounded by any white space,
decodes to exactly `bs` -/
theorem hexDecode_trim_hexOf (pre post bs : List Nat) (hb : ∀ b ∈ bs, b < 256)
    (hpre : ∀ c ∈ pre, isWsCp c = true) (hpost : ∀ c ∈ post, isWsCp c = true) :
    hexDecode (trimCp (pre ++ hexOf bs ++ post)) = some bs := by
  rw [trimCp_surround pre (hexOf bs) post hpre hpost
    (fun c hc => hexOf_all bs hb c (List.mem_of_mem_head? hc))
    (fun c hc => hexOf_all bs hb c (List.mem_of_getLast? hc))]
  exact hexDecode_hexOf bs hb
end EtkVerif.Asm
