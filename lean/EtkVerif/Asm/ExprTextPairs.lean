/-
The pair tree the pest interpreter produces on the text of an operand expression,
as functions mirroring `render`.
-/
import EtkVerif.Asm.ExprText
namespace EtkVerif
namespace Asm
namespace ExprText
open Pest

def Radix.rule : Radix → Nat | .bin => 35 | .oct => 36 | .dec => 37 | .hex => 38
def opRule : BinOp → Nat | .plus => 45 | .minus => 46 | .times => 47 | .divide => 48

def TRest.isNil : TRest → Bool | .nil => true | _ => false

mutual
def termPair (p : Nat) : TTerm → Pair
  | .num r ds => .mk r.rule p (p + (r.pre.length + ds.length)) []
  | .neg ds => .mk 43 p (p + (1 + ds.length)) []
  | .label n => .mk 39 p (p + n.length) []
  | .paren l s r => seqPair (p + 1 + l.length) s r.length
/-- `tb`: the number of blanks that follow the sequence -/
def seqPair (p : Nat) : TSeq → Nat → Pair
  | .mk t rest, tb =>
    .mk 41 p (p + (t.render.length + rest.render.length) + (if rest.isNil then tb else 0))
      (termPair p t :: restKids (p + t.render.length) rest)
def restKids (p : Nat) : TRest → List Pair
  | .nil => []
  | .cons l op r t rest =>
    .mk (opRule op) (p + l.length) (p + l.length + 1) [] :: termPair (p + l.length + 1 + r.length) t ::
      restKids (p + l.length + 1 + r.length + t.render.length) rest
end

/-- the pairs of `Pest.parse` on `pushText l s r` -/
def pushPairs (l : List Nat) (s : TSeq) (r : List Nat) : List Pair :=
  let n := (pushText l s r).length
  [.mk 15 0 (n - 1) [.mk 19 1 (n - 1) [seqPair (6 + l.length) s r.length]], .mk EOI n n []]

end ExprText
end Asm
end EtkVerif
