/-
Legal layouts of a program made of plain instructions (`mnemonic`, or
`pushN 0x<hex>`): blanks before and after a statement, `#` comments running to
the end of the line (any characters but CR / LF — among them `;`, `%`, `:`, quotes
and whole statements), blank and comment-only lines, LF or CRLF line ends, `;`
separators, an unterminated last statement.  `render` produces the text of a
decorated program; the theorem of `LayoutPest.lean` says that the decoration
never changes what is parsed.
-/
import EtkVerif.Asm.Listing
namespace EtkVerif
namespace Asm
namespace Layout
open Listing

def IsBlanks (l : List Nat) : Prop := ∀ c ∈ l, c = 32 ∨ c = 9
def IsCommentBody (l : List Nat) : Prop := ∀ c ∈ l, c ≠ 10 ∧ c ≠ 13

/-- a `#` comment, if any -/
def commentText : Option (List Nat) → List Nat
  | none => []
  | some body => 35 :: body

def newline (crlf : Bool) : List Nat := if crlf then [13, 10] else [10]

/-- a line holding only blanks and possibly a comment -/
structure BlankLine where
  blanks : List Nat
  comment : Option (List Nat)
  crlf : Bool

def BlankLine.text (b : BlankLine) : List Nat := b.blanks ++ commentText b.comment ++ newline b.crlf
def BlankLine.WF (b : BlankLine) : Prop := IsBlanks b.blanks ∧ ∀ c, b.comment = some c → IsCommentBody c

/-- how a statement ends -/
inductive Term
  /-- blanks, `;`, blanks: the next statement follows on the same line -/
  | semi (before after : List Nat)
  /-- blanks, an optional comment, a line end, then any number of blank / comment-only lines -/
  | line (trail : List Nat) (comment : Option (List Nat)) (crlf : Bool) (more : List BlankLine)
  /-- nothing but blanks and an optional comment: only the last statement of the text may end so -/
  | open_ (trail : List Nat) (comment : Option (List Nat))

def Term.text : Term → List Nat
  | .semi b a => b ++ [59] ++ a
  | .line t c crlf more => t ++ commentText c ++ newline crlf ++ more.flatMap BlankLine.text
  | .open_ t c => t ++ commentText c

def Term.WF : Term → Prop
  | .semi b a => IsBlanks b ∧ IsBlanks a
  | .line t c _ more => IsBlanks t ∧ (∀ x, c = some x → IsCommentBody x) ∧ ∀ b ∈ more, b.WF
  | .open_ t c => IsBlanks t ∧ ∀ x, c = some x → IsCommentBody x

def Term.isOpen : Term → Bool
  | .open_ _ _ => true
  | _ => false

/-- a statement with its decoration: blanks before it, the instruction, its end -/
structure Item where
  lead : List Nat
  ins : Disasm.Instr
  term : Term

/-- the statement itself, as the listing prints it, without the line end -/
def stmtText (i : Disasm.Instr) : List Nat :=
  mnemOf i ++ (if i.imm.isEmpty then [] else [32, 48, 120] ++ hexOf i.imm)

def Item.text (x : Item) : List Nat := x.lead ++ stmtText x.ins ++ x.term.text

/-- the whole text: blank / comment-only lines first, then the statements -/
def render (head : List BlankLine) (items : List Item) : List Nat :=
  head.flatMap BlankLine.text ++ items.flatMap Item.text

/-- only the last statement may be left without a terminator -/
def OpenOnlyLast : List Item → Prop
  | [] => True
  | [_] => True
  | x :: y :: rest => x.term.isOpen = false ∧ OpenOnlyLast (y :: rest)

def WF (head : List BlankLine) (items : List Item) : Prop :=
  (∀ b ∈ head, b.WF) ∧ (∀ x ∈ items, IsBlanks x.lead ∧ Valid x.ins ∧ x.term.WF) ∧ OpenOnlyLast items

/-! decidability, so that concrete decorated programs can be shown well formed by evaluation -/
instance (l : List Nat) : Decidable (IsBlanks l) := by unfold IsBlanks; exact inferInstance
instance (l : List Nat) : Decidable (IsCommentBody l) := by unfold IsCommentBody; exact inferInstance
instance (c : Option (List Nat)) : Decidable (∀ x, c = some x → IsCommentBody x) :=
  match c with
  | none => isTrue (by intro x h; cases h)
  | some b => if h : IsCommentBody b then isTrue (by intro x hx; cases hx; exact h)
              else isFalse (fun hh => h (hh b rfl))
instance (b : BlankLine) : Decidable b.WF := by unfold BlankLine.WF; exact inferInstance
instance (t : Term) : Decidable t.WF := by
  cases t <;> unfold Term.WF <;> exact inferInstance
instance (i : Disasm.Instr) : Decidable (Listing.Valid i) := by unfold Listing.Valid; exact inferInstance
instance : (items : List Item) → Decidable (OpenOnlyLast items)
  | [] => isTrue trivial
  | [_] => isTrue trivial
  | x :: y :: rest =>
    match (inferInstance : Decidable (x.term.isOpen = false)), (instDecidableOpenOnlyLast (y :: rest)) with
    | isTrue a, isTrue b => isTrue ⟨a, b⟩
    | isFalse a, _ => isFalse (fun h => a h.1)
    | _, isFalse b => isFalse (fun h => b h.2)
instance (head : List BlankLine) (items : List Item) : Decidable (WF head items) := by unfold WF; exact inferInstance

end Layout
end Asm
end EtkVerif
