/-
Implicit whitespace in the real interpreter over runs of unbounded length: `many`
over WHITESPACE on a run of blanks, the COMMENT rule on a comment body, and hence
`skip` in the non-atomic state on `blanks ++ comment ++ rest`.
-/
import EtkVerif.Asm.Layout
import EtkVerif.Asm.LayoutTable
import EtkVerif.Asm.ListingPest
import EtkVerif.Asm.PestEv
namespace EtkVerif
namespace Asm
namespace Layout
open Pest Listing

/-! ### suffixes of the text -/

/-- `s` is what remains of `text` from position `p` on -/
def Suf (text : List Nat) (p : Nat) (s : List Nat) : Prop := ∃ pre, text = pre ++ s ∧ pre.length = p

variable {text : List Nat} {p : Nat} {s : List Nat}

theorem Suf.zero (text : List Nat) : Suf text 0 text := ⟨[], rfl, rfl⟩

theorem Suf.app {a b : List Nat} (h : Suf text p (a ++ b)) : Suf text (p + a.length) b := by
  obtain ⟨pre, h1, h2⟩ := h
  exact ⟨pre ++ a, by rw [h1, List.append_assoc], by rw [List.length_append, h2]⟩

theorem Suf.tail {c : Nat} (h : Suf text p (c :: s)) : Suf text (p + 1) s :=
  Suf.app (a := [c]) h

theorem Suf.len (h : Suf text p s) : p + s.length = text.length := by
  obtain ⟨pre, h1, h2⟩ := h
  rw [h1, List.length_append, h2]

theorem Suf.get {c : Nat} (h : Suf text p (c :: s)) : (envOf text).inp[p]? = some c := by
  obtain ⟨pre, h1, h2⟩ := h
  subst h1 h2
  show (pre ++ c :: s).toArray[pre.length]? = some c
  simp

theorem Suf.size (text : List Nat) : (envOf text).inp.size = text.length := by
  show text.toArray.size = _
  simp

theorem Suf.agree {cs : List Cls} {s1 s2 : List Nat} {closed : Bool} (h : Suf text p (s1 ++ s2))
    (hm : Match cs s1) (hc : closed = true → s2 = []) : Agree (envOf text) (ekOf cs closed) p := by
  obtain ⟨pre, h1, h2⟩ := h
  subst h1 h2
  rw [← List.append_assoc]
  exact agree_of_match pre s2 closed hm hc

/-! ### what a run of blanks or a comment can be followed by -/

inductive Tail : List Nat → Prop
  | eof : Tail []
  | lf (t : List Nat) : Tail (10 :: t)
  | crlf (t : List Nat) : Tail (13 :: 10 :: t)
  | semi (t : List Nat) : Tail (59 :: t)
  | letter (c : Nat) (t : List Nat) (h : letterCls.mem c) : Tail (c :: t)

inductive LineEnd : List Nat → Prop
  | eof : LineEnd []
  | lf (t : List Nat) : LineEnd (10 :: t)
  | crlf (t : List Nat) : LineEnd (13 :: 10 :: t)

theorem LineEnd.tail : LineEnd s → Tail s
  | .eof => .eof
  | .lf t => .lf t
  | .crlf t => .crlf t

theorem Tail.agree (ht : Tail s) (hs : Suf text p s) :
    ∃ w ∈ tailWins, Agree (envOf text) (ekOf w.1 w.2) p := by
  cases ht with
  | eof =>
    exact ⟨([], true), by simp [tailWins], hs.agree (s1 := []) (s2 := []) trivial (fun _ => rfl)⟩
  | lf t =>
    exact ⟨([single 10], false), by simp [tailWins],
      hs.agree (s1 := [10]) (s2 := t) ⟨single_mem 10, trivial⟩ (fun h => by cases h)⟩
  | crlf t =>
    exact ⟨([single 13, single 10], false), by simp [tailWins],
      hs.agree (s1 := [13, 10]) (s2 := t) ⟨single_mem 13, single_mem 10, trivial⟩ (fun h => by cases h)⟩
  | semi t =>
    exact ⟨([single 59], false), by simp [tailWins],
      hs.agree (s1 := [59]) (s2 := t) ⟨single_mem 59, trivial⟩ (fun h => by cases h)⟩
  | letter c t h =>
    exact ⟨([letterCls], false), by simp [tailWins],
      hs.agree (s1 := [c]) (s2 := t) ⟨h, trivial⟩ (fun h => by cases h)⟩

/-- starting at a `Tail`: no implicit whitespace, no `:`, no infix operator -/
theorem tail_facts (hs : Suf text p s) (ht : Tail s) :
    Sk (envOf text) 20 .nonAtomic p p ∧
    (∀ f, 20 ≤ f → many (envOf text) f 49 p = p) ∧
    (∀ f, 20 ≤ f → skipC (envOf text) f 50 p = p) ∧
    Ev (envOf text) 20 (.str [58]) .nonAtomic false p none ∧
    Ev (envOf text) 20 (.star (.seq (.ref 44) (.ref 42))) .nonAtomic false p (some (p, [])) := by
  obtain ⟨w, hw, hA⟩ := ht.agree hs
  have h := List.all_eq_true.mp tail_ok w hw
  simp only [tailOK, Bool.and_eq_true, beq_iff_eq] at h
  obtain ⟨⟨⟨⟨h1, h2⟩, h3⟩, h4⟩, h5⟩ := h
  refine ⟨?_, ?_, ?_, ?_, ?_⟩
  · simpa using Sk.of_window hA h1
  · intro f hf; simpa using (sound hA 20).mn _ _ _ h2 f hf
  · intro f hf; simpa using (sound hA 20).sc _ _ _ h3 f hf
  · simpa using Ev.of_window hA (resFail_eq h4)
  · simpa using Ev.of_window hA (resIs_eq h5)

/-! ### a run of blanks -/

theorem blank_step {c : Nat} (hs : Suf text p (c :: s)) (hc : c = 32 ∨ c = 9) (f : Nat) (hf : 10 ≤ f) :
    callRule (envOf text) f 49 .nonAtomic false p = some (p + 1, []) := by
  have h := blank_ok
  simp only [Bool.and_eq_true] at h
  rcases hc with rfl | rfl
  · have hA := hs.agree (s1 := [32]) (s2 := s) (cs := [single 32]) (closed := false)
      ⟨single_mem 32, trivial⟩ (fun h => by cases h)
    simpa using (sound hA 10).cr _ _ _ _ _ (resIs_eq h.1) f hf
  · have hA := hs.agree (s1 := [9]) (s2 := s) (cs := [single 9]) (closed := false)
      ⟨single_mem 9, trivial⟩ (fun h => by cases h)
    simpa using (sound hA 10).cr _ _ _ _ _ (resIs_eq h.2) f hf

theorem many_blanks : ∀ (B : List Nat) (p : Nat), IsBlanks B → Suf text p (B ++ s) →
    (∀ f, 20 ≤ f → many (envOf text) f 49 (p + B.length) = p + B.length) →
    ∀ f, B.length + 20 ≤ f → many (envOf text) f 49 p = p + B.length
  | [], p, _, _, hstop, f, hf => by simpa using hstop f (by simpa using hf)
  | c :: B, p, hB, hs, hstop, f, hf => by
    obtain ⟨f, rfl⟩ : ∃ f', f = f' + 1 := ⟨f - 1, by omega⟩
    simp only [List.length_cons] at hf hstop
    have hc : c = 32 ∨ c = 9 := hB c (by simp)
    rw [many.eq_2, blank_step (s := B ++ s) hs hc f (by omega)]
    have hne : ¬ (p + 1 = p) := by omega
    simp only [hne, if_false]
    have := many_blanks B (p + 1) (fun x hx => hB x (by simp [hx])) hs.tail
      (by intro f hf; have := hstop f hf; rw [show p + 1 + B.length = p + (B.length + 1) by omega]; exact this)
      f (by omega)
    rw [this, List.length_cons]; omega

/-! ### a comment -/

theorem cbody_step {c : Nat} (hs : Suf text p (c :: s)) (h10 : c ≠ 10) (h13 : c ≠ 13) :
    Ev (envOf text) 6 cbody .atomic false p (some (p + 1, [])) := by
  intro f hf
  obtain ⟨f, rfl⟩ : ∃ f', f = f' + 1 + 1 + 1 + 1 := ⟨f - 4, by omega⟩
  have hg := hs.get
  have hlt : p < (envOf text).inp.size := by
    rcases Nat.lt_or_ge p (envOf text).inp.size with h | h
    · exact h
    · rw [Array.getElem?_eq_none h] at hg; cases hg
  have hnl : ∀ g, callRule (envOf text) (g + 1) 1003 .atomic true p = none := by
    intro g
    rw [callRule_succ]
    simp only [callSpec, ANY, SOI, EOI, NEWLINE, Nat.reduceEqDiff, if_false, if_true, isPrefixAt, hg]
    simp [h10, h13]
  have hany : ∀ g, callRule (envOf text) (g + 1) 1002 .atomic false p = some (p + 1, []) := by
    intro g
    rw [callRule_succ]
    simp only [callSpec, ANY, if_true, hlt]
  unfold cbody
  rw [matchE.eq_4, matchE.eq_9, matchE.eq_11, hnl]
  simp only
  rw [(Sk.id_of_ne (by simp) p : Sk (envOf text) 1 .atomic p p) (f + 1 + 1 + 1) (by omega), matchE.eq_11, hany]
  rfl

theorem cbody_stop (hs : Suf text p s) (he : LineEnd s) : Ev (envOf text) 20 cbody .atomic false p none := by
  have h := lineEnd_ok
  simp only [Bool.and_eq_true] at h
  obtain ⟨⟨⟨⟨⟨⟨⟨h1, h2⟩, h3⟩, _⟩, _⟩, _⟩, _⟩, _⟩ := h
  cases he with
  | eof =>
    simpa using Ev.of_window (hs.agree (s1 := []) (s2 := []) (cs := []) (closed := true) trivial (fun _ => rfl))
      (resFail_eq h1)
  | lf t =>
    simpa using Ev.of_window (hs.agree (s1 := [10]) (s2 := t) (cs := [single 10]) (closed := false)
      ⟨single_mem 10, trivial⟩ (fun h => by cases h)) (resFail_eq h2)
  | crlf t =>
    simpa using Ev.of_window (hs.agree (s1 := [13, 10]) (s2 := t) (cs := [single 13, single 10]) (closed := false)
      ⟨single_mem 13, single_mem 10, trivial⟩ (fun h => by cases h)) (resFail_eq h3)

theorem cbody_rep : ∀ (body : List Nat) (p : Nat) (acc : List (List Pair)) (f : Nat),
    IsCommentBody body → Suf text p (body ++ s) → LineEnd s → body.length + 30 ≤ f →
    ∃ acc', rep (envOf text) f cbody .atomic false p acc = (p + body.length, acc') ∧
      acc'.reverse.flatten = acc.reverse.flatten
  | [], p, acc, f, _, hs, he, hf => by
    obtain ⟨f, rfl⟩ : ∃ f', f = f' + 1 := ⟨f - 1, by omega⟩
    refine ⟨acc, ?_, rfl⟩
    rw [rep.eq_2, (Sk.id_of_ne (by simp) p : Sk (envOf text) 1 .atomic p p) f (by omega),
      cbody_stop (by simpa using hs) he f (by simp at hf; omega)]
    rfl
  | c :: body, p, acc, f, hb, hs, he, hf => by
    obtain ⟨f, rfl⟩ : ∃ f', f = f' + 1 := ⟨f - 1, by omega⟩
    simp only [List.length_cons] at hf
    have hc := hb c (by simp)
    obtain ⟨acc', h1, h2⟩ := cbody_rep body (p + 1) ([] :: acc) f (fun x hx => hb x (by simp [hx]))
      hs.tail he (by omega)
    refine ⟨acc', ?_, by simpa using h2⟩
    rw [rep.eq_2, (Sk.id_of_ne (by simp) p : Sk (envOf text) 1 .atomic p p) f (by omega),
      cbody_step (s := body ++ s) hs hc.1 hc.2 f (by omega)]
    have hne : ¬ (p + 1 = p) := by omega
    simp only [hne, if_false]
    rw [h1, List.length_cons]
    congr 1; omega

theorem cbody_star (body : List Nat) (p : Nat) (hb : IsCommentBody body) (hs : Suf text p (body ++ s))
    (he : LineEnd s) :
    Ev (envOf text) (body.length + 32) (.star cbody) .atomic false p (some (p + body.length, [])) := by
  intro f hf
  obtain ⟨f, rfl⟩ : ∃ f', f = f' + 1 := ⟨f - 1, by omega⟩
  rw [matchE.eq_7]
  cases body with
  | nil =>
    rw [cbody_stop (by simpa using hs) he f (by omega)]
    rfl
  | cons c body =>
    simp only [List.length_cons] at hf
    have hc := hb c (by simp)
    rw [cbody_step (s := body ++ s) hs hc.1 hc.2 f (by omega)]
    obtain ⟨acc', h1, h2⟩ := cbody_rep body (p + 1) [[]] f (fun x hx => hb x (by simp [hx]))
      hs.tail he (by omega)
    simp only
    rw [h1]
    simp only [h2, List.length_cons]
    simp; omega

theorem g50 (text : List Nat) : (envOf text).g[50]? =
    some ⟨50, [67, 79, 77, 77, 69, 78, 84], .silent, .seq (.str [35]) (.star cbody)⟩ := rfl

theorem comment_rule (body : List Nat) (p : Nat) (hb : IsCommentBody body)
    (hs : Suf text p (35 :: body ++ s)) (he : LineEnd s) (f : Nat) (hf : body.length + 40 ≤ f) :
    callRule (envOf text) f 50 .nonAtomic false p = some (p + 1 + body.length, []) := by
  obtain ⟨f, rfl⟩ : ∃ f', f = f' + 1 + 1 + 1 := ⟨f - 3, by omega⟩
  have hg := hs.get (s := body ++ s)
  rw [callRule_succ]
  simp only [callSpec, ANY, SOI, EOI, NEWLINE, ASCII_DIGIT, ASCII_BIN_DIGIT, ASCII_OCT_DIGIT, ASCII_HEX_DIGIT,
    ASCII_ALPHA, ASCII_ALPHANUMERIC, Nat.reduceEqDiff, if_false, g50]
  have hc : (decide (some 50 = (envOf text).ws) || decide (some 50 = (envOf text).comment)) = true := by
    simp [envOf]
  simp only [hc, if_true]
  rw [matchE.eq_4, matchE.eq_2]
  have hp : isPrefixAt (envOf text).inp p [35] = true := by simp [isPrefixAt, hg]
  simp only [hp, if_true, List.length_cons, List.length_nil, Nat.zero_add]
  rw [(Sk.id_of_ne (by simp) (p + 1) : Sk (envOf text) 1 .atomic (p + 1) (p + 1)) (f + 1) (by omega),
    cbody_star body (p + 1) hb hs.tail he (f + 1) (by omega)]
  simp

/-! ### implicit whitespace -/

theorem length_commentText_some (b : List Nat) : (commentText (some b)).length = b.length + 1 := rfl

theorem skipC_comment (c : Option (List Nat)) (p : Nat)
    (hs : Suf text p (commentText c ++ s)) (hb : ∀ b, c = some b → IsCommentBody b ∧ LineEnd s)
    (ht : Tail s) (f : Nat) (hf : (commentText c).length + 60 ≤ f) :
    skipC (envOf text) f 50 p = p + (commentText c).length := by
  cases c with
  | none =>
    simpa [commentText] using (tail_facts (by simpa [commentText] using hs) ht).2.2.1 f (by omega)
  | some b =>
    obtain ⟨hcb, he⟩ := hb b rfl
    rw [length_commentText_some] at hf ⊢
    obtain ⟨f, rfl⟩ : ∃ f', f = f' + 1 := ⟨f - 1, by omega⟩
    have hs' : Suf text (p + 1 + b.length) s := by
      have := Suf.app (a := 35 :: b) (b := s) hs
      simpa [Nat.add_comm, Nat.add_assoc, Nat.add_left_comm] using this
    have tf := tail_facts hs' ht
    rw [skipC.eq_2, comment_rule b p hcb hs he f (by omega)]
    simp only [show (envOf text).ws = some 49 from rfl]
    rw [tf.2.1 f (by omega)]
    have hne : ¬ (p + 1 + b.length = p) := by omega
    simp only [hne, if_false]
    rw [tf.2.2.1 f (by omega)]
    omega

/-- WHITESPACE* stops at a `#` -/
theorem many_hash (hs : Suf text p (35 :: s)) (f : Nat) (hf : 20 ≤ f) : many (envOf text) f 49 p = p := by
  have h := hash_ok
  simp only [beq_iff_eq] at h
  have hA := hs.agree (s1 := [35]) (s2 := s) (cs := [single 35]) (closed := false)
    ⟨single_mem 35, trivial⟩ (fun h => by cases h)
  simpa using (sound hA 20).mn _ _ _ h f hf

/-- the implicit whitespace between sequence elements: blanks, then possibly a comment -/
theorem skip_gap (B : List Nat) (c : Option (List Nat)) (p : Nat) (hB : IsBlanks B)
    (hs : Suf text p (B ++ commentText c ++ s)) (hb : ∀ b, c = some b → IsCommentBody b ∧ LineEnd s)
    (ht : Tail s) :
    Sk (envOf text) (B.length + (commentText c).length + 90) .nonAtomic p
      (p + B.length + (commentText c).length) := by
  intro f hf
  obtain ⟨f, rfl⟩ : ∃ f', f = f' + 1 := ⟨f - 1, by omega⟩
  rw [List.append_assoc] at hs
  have hs2 : Suf text (p + B.length) (commentText c ++ s) := hs.app
  have hm : many (envOf text) f 49 p = p + B.length := by
    apply many_blanks B p hB hs _ f (by omega)
    intro g hg
    cases c with
    | none => exact (tail_facts (by simpa [commentText] using hs2) ht).2.1 g hg
    | some b => exact many_hash (s := b ++ s) hs2 g hg
  rw [skip.eq_2]
  simp only [show (Atom.nonAtomic != Atom.nonAtomic) = false from rfl, Bool.false_eq_true, if_false,
    show (envOf text).ws = some 49 from rfl, show (envOf text).comment = some 50 from rfl]
  rw [hm, skipC_comment c (p + B.length) hs2 hb ht f (by omega)]

end Layout
end Asm
end EtkVerif
