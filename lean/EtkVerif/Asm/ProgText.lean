/-
Macro-free programs as TEXT: statements are plain instructions (`mnemonic`,
`pushN 0x<hex>`), `pushN <expression>`, `%push(<expression>)` and label
definitions `name:`, each decorated with a legal layout (`Layout.Term`: blanks,
comments, blank lines, LF / CRLF, `;`, an unterminated last statement).
`render` gives the text, `nodeOf` the node `parse_asm` is expected to build.
-/
import EtkVerif.Asm.Layout
import EtkVerif.Asm.ExprText
namespace EtkVerif
namespace Asm
namespace ProgText
open Layout ExprText

inductive Stmt
  /-- `mnemonic` or `pushN 0x<2N hex digits>`, as the disassembler prints it -/
  | ins (i : Disasm.Instr)
  /-- `push<n>`, exactly one blank (`ws` = 32 or 9), an operand expression -/
  | pushE (n : Nat) (ws : Nat) (s : TSeq)
  /-- `%push(` blanks expression blanks `)` -/
  | apush (l : List Nat) (s : TSeq) (r : List Nat)
  /-- `name`, blanks, `:` -/
  | label (name : List Nat) (gap : List Nat)

/-- decimal digits of a number -/
def decimal (n : Nat) : List Nat := (toString n).toList.map Char.toNat

def Stmt.text : Stmt → List Nat
  | .ins i => Layout.stmtText i
  | .pushE n ws s => [112, 117, 115, 104] ++ decimal n ++ [ws] ++ s.render
  | .apush l s r => [37, 112, 117, 115, 104, 40] ++ l ++ s.render ++ r ++ [41]
  | .label name gap => name ++ gap ++ [58]


def Stmt.WF : Stmt → Prop
  | .ins i => Listing.Valid i
  | .pushE n ws s => 1 ≤ n ∧ n ≤ 32 ∧ (ws = 32 ∨ ws = 9) ∧ s.WF ∧
      -- a constant operand is range-checked by the parser already (`ImmediateTooLarge`): exclude that case here
      ∀ fuel v, evalClosed fuel s.expr = some v → v < (2 : Int) ^ (8 * n)
  | .apush l s r => ExprText.IsBlanks l ∧ s.WF ∧ ExprText.IsBlanks r
  | .label name gap => ExprText.IsLabel name ∧ ExprText.IsBlanks gap

def Stmt.node : Stmt → Node
  | .ins i => Listing.nodeOf i
  | .pushE n _ s => .op (.op (0x5f + n) (some s.expr))
  | .apush _ s _ => .op (.push s.expr)
  | .label name _ => .op (.label (strOf name))

structure Item where
  lead : List Nat
  stmt : Stmt
  term : Layout.Term

def Item.text (x : Item) : List Nat := x.lead ++ x.stmt.text ++ x.term.text

def render (head : List BlankLine) (items : List Item) : List Nat :=
  head.flatMap BlankLine.text ++ items.flatMap Item.text

def OpenOnlyLast : List Item → Prop
  | [] => True
  | [_] => True
  | x :: y :: rest => x.term.isOpen = false ∧ OpenOnlyLast (y :: rest)

def WF (head : List BlankLine) (items : List Item) : Prop :=
  (∀ b ∈ head, b.WF) ∧ (∀ x ∈ items, Layout.IsBlanks x.lead ∧ x.stmt.WF ∧ x.term.WF) ∧ OpenOnlyLast items

end ProgText
end Asm
end EtkVerif
