/-
Operand expressions as TEXT: a flat sequence `term (blanks op blanks term)*`
whose terms are number literals in the four radixes, negative decimals, labels
and parenthesised sequences, with arbitrary blanks around operators and inside
parentheses.  `render` gives the text, `seqExpr` the expression the parser is
expected to build: the precedence climber applied to the terms' expressions
(`climb`, which `C08_precedence` identifies with the stratified grammar), a
parenthesised sequence standing for the expression of its contents.
-/
import EtkVerif.Asm.Parse
namespace EtkVerif
namespace Asm
namespace ExprText

inductive Radix | bin | oct | dec | hex
  deriving Repr, DecidableEq

def Radix.base : Radix → Nat | .bin => 2 | .oct => 8 | .dec => 10 | .hex => 16
def Radix.pre : Radix → List Nat | .bin => [48, 98] | .oct => [48, 111] | .dec => [] | .hex => [48, 120]
/-- the grammar asks for at least two hex digits, one digit otherwise -/
def Radix.minDigits : Radix → Nat | .hex => 2 | _ => 1

mutual
inductive TTerm
  | num (r : Radix) (digits : List Nat)
  | neg (digits : List Nat)                          -- `-` followed by decimal digits
  | label (name : List Nat)
  | paren (l : List Nat) (s : TSeq) (r : List Nat)   -- `(` blanks sequence blanks `)`
inductive TSeq
  | mk (first : TTerm) (rest : TRest)
inductive TRest
  | nil
  | cons (l : List Nat) (op : BinOp) (r : List Nat) (t : TTerm) (rest : TRest)   -- blanks operator blanks term
end

def opChar : BinOp → Nat | .plus => 43 | .minus => 45 | .times => 42 | .divide => 47

mutual
def TTerm.render : TTerm → List Nat
  | .num r ds => r.pre ++ ds
  | .neg ds => 45 :: ds
  | .label n => n
  | .paren l s r => [40] ++ l ++ s.render ++ r ++ [41]
def TSeq.render : TSeq → List Nat
  | .mk t rest => t.render ++ rest.render
def TRest.render : TRest → List Nat
  | .nil => []
  | .cons l op r t rest => l ++ [opChar op] ++ r ++ t.render ++ rest.render
end

def IsBlanks (l : List Nat) : Prop := ∀ c ∈ l, c = 32 ∨ c = 9
def isAlpha (c : Nat) : Bool := (97 ≤ c && c ≤ 122) || (65 ≤ c && c ≤ 90)
def isAlnum (c : Nat) : Bool := isAlpha c || (48 ≤ c && c ≤ 57)

/-- a label name: a letter, then letters, digits, `_` -/
def IsLabel (n : List Nat) : Prop :=
  match n with
  | [] => False
  | c :: cs => isAlpha c = true ∧ ∀ d ∈ cs, isAlnum d = true ∨ d = 95

mutual
def TTerm.WF : TTerm → Prop
  | .num r ds => r.minDigits ≤ ds.length ∧ ∀ c ∈ ds, (toDigit r.base c).isSome = true
  | .neg ds => 1 ≤ ds.length ∧ ∀ c ∈ ds, (toDigit 10 c).isSome = true
  | .label n => IsLabel n
  | .paren l s r => IsBlanks l ∧ s.WF ∧ IsBlanks r
def TSeq.WF : TSeq → Prop
  | .mk t rest => t.WF ∧ rest.WF
def TRest.WF : TRest → Prop
  | .nil => True
  | .cons l _ r t rest => IsBlanks l ∧ IsBlanks r ∧ t.WF ∧ rest.WF
end

/-- value of a digit string (all characters are digits of the radix) -/
def digitsVal (radix : Nat) (ds : List Nat) : Nat :=
  ds.foldl (fun acc c => acc * radix + (toDigit radix c).getD 0) 0

mutual
def TTerm.expr : TTerm → Expr
  | .num r ds => .num (Int.ofNat (digitsVal r.base ds))
  | .neg ds => .num (-(Int.ofNat (digitsVal 10 ds)))
  | .label n => .label (strOf n)
  | .paren _ s _ => s.expr
def TSeq.expr : TSeq → Expr
  | .mk t rest => climb t.expr rest.list
def TRest.list : TRest → List (BinOp × Expr)
  | .nil => []
  | .cons _ op _ t rest => (op, t.expr) :: rest.list
end

/-- `%push(` blanks sequence blanks `)` newline -/
def pushText (l : List Nat) (s : TSeq) (r : List Nat) : List Nat :=
  [37, 112, 117, 115, 104, 40] ++ l ++ s.render ++ r ++ [41, 10]

end ExprText
end Asm
end EtkVerif
