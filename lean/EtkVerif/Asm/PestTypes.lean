/-
Data types of pest grammars as the translator (tools/gen_grammar.py) emits them.
Strings are lists of code points and rules are referred to by number, so that
the generated value reduces in the kernel.
-/
namespace EtkVerif
namespace Pest

inductive PE where
  | str (s : List Nat)
  | range (lo hi : Nat)
  | ref (id : Nat)
  | seq (a b : PE)
  | alt (a b : PE)
  | opt (a : PE)
  | star (a : PE)
  | plus (a : PE)
  | neg (a : PE)
  | pos (a : PE)
  deriving Repr, Inhabited, DecidableEq

/-- rule modifiers: `name = { }`, `_{ }`, `@{ }`, `${ }`, `!{ }` -/
inductive RT | normal | silent | atomic | compound | nonAtomic
  deriving Repr, DecidableEq, Inhabited

/-- pest_meta spells them `Normal Silent Atomic CompoundAtomic NonAtomic`; the
dump uses these lower-case names. -/
abbrev RT.nonatomic := RT.nonAtomic

structure Rule where
  id : Nat
  name : List Nat
  ty : RT
  body : PE
  deriving Repr, Inhabited

/-! built-in rules -/
def SOI : Nat := 1000
def EOI : Nat := 1001
def ANY : Nat := 1002
def NEWLINE : Nat := 1003
def ASCII_DIGIT : Nat := 1004
def ASCII_BIN_DIGIT : Nat := 1005
def ASCII_OCT_DIGIT : Nat := 1006
def ASCII_HEX_DIGIT : Nat := 1007
def ASCII_ALPHA : Nat := 1008
def ASCII_ALPHANUMERIC : Nat := 1009

end Pest
end EtkVerif
