/-
Instruction-macro definitions, part 2: `stmt` on `%macro name(params) … %end` followed by a gap
gives the pair `local_macro[instruction_macro_definition[declaration, body statements…]]`, and
the walk of `parse_asm` turns it into the `instrDef` node of the definition.
-/
import EtkVerif.Asm.FullTextBody
namespace EtkVerif
namespace Asm
namespace FullText
open Pest Listing ExprText
open Layout (Suf Gap commentText STail LineEnd newline BlankLine)
open ProgText (PStart StartS gap_gapG skip_to_start nl_rep plus_ok)

variable {text : List Nat}

theorem mac_decl_start (d : Decl) (hd : d.WF) : ∃ c0 t, d.render = c0 :: t ∧ NonBlank c0 := by
  obtain ⟨c0, run, hn, hc0, _⟩ := isFnName_split hd.1
  unfold Decl.render
  rw [hn]
  simp only [List.cons_append]
  exact ⟨c0, _, rfl, xstartC_nonBlank (Or.inr (Or.inl hc0))⟩

theorem mac_text_eq (g0 : List Nat) (d : Decl) (trail : List Nat) (c : Option (List Nat)) (crlf : Bool)
    (more : List BlankLine) (body : List BLine) (lead X : List Nat) :
    (Stmt.macroDef g0 d trail c crlf more body lead).text ++ X =
      37 :: ([109, 97, 99, 114, 111] ++ (g0 ++ (d.render ++ (trail ++ commentText c ++ (newline crlf ++
        (more.flatMap BlankLine.text ++ (macLead lead body ++ macCore lead X body))))))) := by
  rw [← mac_body_eq]
  simp only [Stmt.text, macEnd, List.append_assoc, List.cons_append, List.nil_append]

theorem fact_macroDef (hD : ∀ d : Decl, d.WF → DeclFact text d) (hB : ∀ b : BStmt, b.WF → BodyFact text b)
    (g0 : List Nat) (d : Decl) (trail : List Nat) (c : Option (List Nat)) (crlf : Bool) (more : List BlankLine)
    (body : List BLine) (lead : List Nat) (h : (Stmt.macroDef g0 d trail c crlf more body lead).WF) :
    StmtFact text (.macroDef g0 d trail c crlf more body lead) := by
  intro S B cB s hs hg
  obtain ⟨hg0, hg0b, hd, htr, hc, hmore, hbody, hlead⟩ := h
  obtain ⟨hG, hC⟩ := gap_gapG hg
  obtain ⟨X, hX⟩ : ∃ X, X = B ++ commentText cB ++ s := ⟨_, rfl⟩
  rw [← hX] at hs
  have hlen0 := hs.len
  simp only [Stmt.text, List.length_append, List.length_cons, List.length_nil] at hlen0
  have hnbody := mac_body_len body
  rw [mac_text_eq] at hs
  have hs1 : Suf text (S + 1) ([109, 97, 99, 114, 111] ++ (g0 ++ (d.render ++ (trail ++ commentText c ++ (newline crlf ++
      (more.flatMap BlankLine.text ++ (macLead lead body ++ macCore lead X body))))))) := hs.tail
  have hs6 := hs1.app
  obtain ⟨c0, dt, hdr, hc0⟩ := mac_decl_start d hd
  have hskg0 : Sk (envOf text) (g0.length + 30) .nonAtomic (S + 1 + [109, 97, 99, 114, 111].length)
      (S + 1 + [109, 97, 99, 114, 111].length + g0.length) :=
    skip_blanks g0 hg0b (by rw [hdr] at hs6; exact hs6) hc0
  have hsP1 := hs6.app
  generalize hP1 : S + 1 + [109, 97, 99, 114, 111].length + g0.length = P1 at *
  obtain ⟨h30, htN, htP⟩ := hD d hd P1 _ hsP1
  have hsP2 := hsP1.app
  have hsktr := Layout.skip_gap trail c (P1 + d.render.length) htr hsP2
    (fun x hx => ⟨hc x hx, Layout.lineEnd_newline _ _⟩) (Layout.lineEnd_newline _ _).tail
  have hsP3 : Suf text (P1 + d.render.length + trail.length + (commentText c).length) (newline crlf ++
      (more.flatMap BlankLine.text ++ (macLead lead body ++ macCore lead X body))) := by
    have := Suf.app (a := trail ++ commentText c) hsP2
    simpa [Nat.add_assoc] using this
  have hnl := mac_nl_star (mac_lead_blanks hlead hbody) (mac_core_start lead X hbody) crlf more hmore hsP3
  have hsP4 := hsP3.app.app
  have hskld := skip_to_start (mac_lead_blanks hlead hbody) (mac_core_start lead X hbody) hsP4
  have hsP5 := hsP4.app
  have hstop : ∀ Q, Suf text Q (macEnd X) → Ev (envOf text) (text.length + 150) (.ref 11) .nonAtomic false Q none := by
    intro Q hq
    rw [hX, macEnd] at hq
    exact mac_end_fail hq hG hC.endC
  obtain ⟨P', B', ps, hB', hsE, hGoods, hstar⟩ := mac_body_star hB lead X hlead hstop body _ hbody hsP5
  have hskB' := skip_to_start hB' (.ch 37 _ (Or.inr rfl)) hsE
  have hsE2 : Suf text (P' + B'.length) ([37, 101, 110, 100] ++ X) := hsE.app
  have hend : Ev (envOf text) 1 (.str [37, 101, 110, 100]) .nonAtomic false (P' + B'.length)
      (some (P' + B'.length + [37, 101, 110, 100].length, [])) := ev_str_ok hsE2
  have hsF := hsE2.app
  generalize hP5 : P1 + d.render.length + trail.length + (commentText c).length + (newline crlf).length +
        (List.flatMap BlankLine.text more).length + (macLead lead body).length = P5 at *
  generalize hP4 : P1 + d.render.length + trail.length + (commentText c).length + (newline crlf).length +
        (List.flatMap BlankLine.text more).length = P4 at *
  generalize hP3 : P1 + d.render.length + trail.length + (commentText c).length = P3 at *
  have e5 : ([109, 97, 99, 114, 111] : List Nat).length = 5 := rfl
  have e4 : ([37, 101, 110, 100] : List Nat).length = 4 := rfl
  have hlenF := hsF.len
  have hlen5 := hsP5.len
  have hlen1 := hsP1.len
  simp only [List.length_append] at hlen1
  generalize hE : P' + B'.length + [37, 101, 110, 100].length = E at *
  have hEq : E = S + (Stmt.macroDef g0 d trail c crlf more body lead).text.length := by
    simp only [Stmt.text, List.length_append, List.length_cons, List.length_nil]
    omega
  have hmacro : Ev (envOf text) 1 (.str [37, 109, 97, 99, 114, 111]) .nonAtomic false S
      (some (S + 1 + [109, 97, 99, 114, 111].length, [])) := by
    have := ev_str_ok (pat := [37, 109, 97, 99, 114, 111]) (at_ := .nonAtomic) (la := false) (p := S) (text := text)
      (s := g0 ++ (d.render ++ (trail ++ commentText c ++ (newline crlf ++
        (more.flatMap BlankLine.text ++ (macLead lead body ++ macCore lead X body)))))) hs
    simpa [Nat.add_assoc] using this
  have s1 : Ev (envOf text) (2 * text.length + 201) (.seq (.str [37, 109, 97, 99, 114, 111]) (.ref 30)) .nonAtomic false S
      (some (P1 + d.render.length, [declPair P1 d])) := by
    have := Ev.seq hmacro hskg0 h30 (d := 2 * text.length + 200)
    simpa only [List.nil_append] using this
  have s2 : Ev (envOf text) (2 * text.length + 203) (.seq (.seq (.str [37, 109, 97, 99, 114, 111]) (.ref 30))
      (.star (.ref 1003))) .nonAtomic false S (some (P4, [declPair P1 d])) := by
    have := Ev.seq s1 hsktr hnl (d := 2 * text.length + 202)
    simpa only [List.append_nil] using this
  have s3 : Ev (envOf text) (12 * text.length + 305 + body.length) (.seq (.seq (.seq (.str [37, 109, 97, 99, 114, 111]) (.ref 30))
      (.star (.ref 1003))) (.star macBodyE)) .nonAtomic false S (some (P', declPair P1 d :: ps)) := by
    have := (Ev.seq s2 hskld hstar (d := 12 * text.length + 304 + body.length)).mono
      (d := 12 * text.length + 305 + body.length) (by omega)
    simpa only [List.singleton_append] using this
  have s4 : Ev (envOf text) (12 * text.length + 306 + body.length) (.seq (.seq (.seq (.seq (.str [37, 109, 97, 99, 114, 111]) (.ref 30))
      (.star (.ref 1003))) (.star macBodyE)) (.str [37, 101, 110, 100])) .nonAtomic false S (some (E, declPair P1 d :: ps)) := by
    have := (Ev.seq s3 hskB' hend (d := 12 * text.length + 305 + body.length)).mono
      (d := 12 * text.length + 306 + body.length) (by omega)
    simpa only [List.append_nil] using this
  have h10 : Ev (envOf text) (12 * text.length + 308 + body.length) (.ref 10) .nonAtomic false S
      (some (E, [.mk 10 S E (declPair P1 d :: ps)])) :=
    (evr (mac_gr10 text) (by omega) s4 (d := 12 * text.length + 306 + body.length) (at_ := .nonAtomic)).mono (by omega)
  have f15 : ∀ la, Ev (envOf text) 12 (.ref 15) .nonAtomic la S none := fun la =>
    mac_f15 hs (by simp [List.isPrefixOf]) (by simp [List.isPrefixOf]) (by simp [List.isPrefixOf])
      (by simp [List.isPrefixOf])
  have hneg : Ev (envOf text) 13 (.neg (.ref 15)) .nonAtomic false S (some (S, [])) := mac_ev_neg (f15 true) (d := 12)
  have sk0 : Sk (envOf text) 30 .nonAtomic S S := skip_none hs (by simp [NonBlank])
  have hseq : Ev (envOf text) (12 * text.length + 311 + body.length)
      (.seq (.neg (.ref 15)) (.alt (.alt (.ref 10) (.ref 13)) (.ref 25))) .nonAtomic false S
      (some (E, [.mk 10 S E (declPair P1 d :: ps)])) := by
    have := (Ev.seq hneg sk0 (Ev.alt_l (Ev.alt_l h10 (d := 12 * text.length + 308 + body.length) (b := .ref 13))
        (d := 12 * text.length + 309 + body.length) (b := .ref 25)) (d := 12 * text.length + 310 + body.length)).mono
      (d := 12 * text.length + 311 + body.length) (by omega)
    simpa only [List.nil_append] using this
  have h14 : Ev (envOf text) (12 * text.length + 313 + body.length) (.ref 14) .nonAtomic false S
      (some (E, [.mk 14 S E [.mk 10 S E (declPair P1 d :: ps)]])) :=
    (evr (mac_gr14 text) (by omega) hseq (d := 12 * text.length + 311 + body.length) (at_ := .nonAtomic)).mono
      (by omega)
  have hw := top_win
  simp only [Bool.and_eq_true] at hw
  have hA0 := hs.agree (s1 := [37]) (cs := [single 37]) (closed := false) ⟨single_mem 37, trivial⟩
    (fun h => by cases h)
  have f40 : Ev (envOf text) 30 (.ref 40) .nonAtomic false S none := by
    simpa using Ev.of_window hA0 (resFail_eq hw.1.1)
  have hstmt : Ev (envOf text) (12 * text.length + 318 + body.length) (.ref 2) .nonAtomic false S
      (some (E, [.mk 14 S E [.mk 10 S E (declPair P1 d :: ps)]])) :=
    (Layout.ev_stmt (Ev.alt_l (Ev.alt_l (Ev.alt_r (Ev.alt_r f40 (f15 false) (d := 30)) h14
      (d := 12 * text.length + 313 + body.length)) (d := 12 * text.length + 314 + body.length) (b := .ref 4))
      (d := 12 * text.length + 315 + body.length) (b := .ref 3)) (d := 12 * text.length + 316 + body.length)).mono
      (by omega)
  have hsF' : Suf text E ((B ++ commentText cB) ++ s) := by rw [← hX]; exact hsF
  have hsk2 := skip_gapG hG hsF'
  refine ⟨E, _, hstmt.mono (by omega), ?_, ?_, ?_⟩
  · rw [← hEq, Nat.add_assoc, ← List.length_append]
    have hlenG := hsF'.len
    simp only [List.length_append] at hlenG
    exact hsk2.mono (by simp only [List.length_append]; omega)
  · simp [rule_mk, Pest.EOI]
  · intro f hf
    obtain ⟨f, rfl⟩ : ∃ f', f = f' + 1 := ⟨f - 1, by omega⟩
    have hpb := mac_parseBody hGoods f (by omega)
    simp only [rule_mk, Gen.R_builtin, Nat.reduceEqDiff, if_false]
    rw [parseAOp]
    simp [rule_mk, kids_mk, Gen.R_local_macro, Gen.R_instruction_macro_definition, declPair, htN, htP, hpb,
      Stmt.node, Except.map]

end FullText
end Asm
end EtkVerif
