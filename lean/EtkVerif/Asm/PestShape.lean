/-
Grammar-independent soundness of the pest interpreter (`Pest.lean`) with respect to a
denotational reading of grammar expressions: given a rule-level specification `spec`
that is closed under the rule bodies, every successful `matchE` / `callRule` (outside
look-ahead) satisfies it.
-/
import EtkVerif.Asm.Pest
namespace EtkVerif
namespace Pest

/-- what `skip` can do between `p1` and `p2`: nothing unless the state is non-atomic -/
def SkipOK (at_ : Atom) (p1 p2 : Nat) : Prop := at_ ≠ .nonAtomic → p2 = p1

/-- `(skip a)*` -/
inductive Reps (S : Nat → Nat → List Pair → Prop) (at_ : Atom) : Nat → Nat → List Pair → Prop
  | nil (p : Nat) : Reps S at_ p p []
  | cons {p p1 p2 p3 : Nat} {k ks : List Pair} :
      SkipOK at_ p p1 → S p1 p2 k → Reps S at_ p2 p3 ks → Reps S at_ p p3 (k ++ ks)

abbrev Spec := Nat → Atom → Nat → Nat → List Pair → Prop

/-- an over-approximation of what expression `e` may match from `p` to `p'` emitting `ks`,
in atomicity `at_` and outside look-ahead -/
def Sem (inp : Array Nat) (spec : Spec) (at_ : Atom) : PE → Nat → Nat → List Pair → Prop
  | .str s, p, p', ks => isPrefixAt inp p s = true ∧ p' = p + s.length ∧ ks = []
  | .range lo hi, p, p', ks => charIn inp p lo hi = true ∧ p' = p + 1 ∧ ks = []
  | .seq a b, p, p', ks => ∃ p1 p2 k1 k2, Sem inp spec at_ a p p1 k1 ∧ SkipOK at_ p1 p2 ∧
      Sem inp spec at_ b p2 p' k2 ∧ ks = k1 ++ k2
  | .alt a b, p, p', ks => Sem inp spec at_ a p p' ks ∨ Sem inp spec at_ b p p' ks
  | .opt a, p, p', ks => Sem inp spec at_ a p p' ks ∨ (p' = p ∧ ks = [])
  | .star a, p, p', ks => (p' = p ∧ ks = []) ∨
      ∃ p1 k1 k2, Sem inp spec at_ a p p1 k1 ∧ Reps (Sem inp spec at_ a) at_ p1 p' k2 ∧ ks = k1 ++ k2
  | .plus a, p, p', ks => ∃ p1 p2 k1 k2, Sem inp spec at_ a p p1 k1 ∧ SkipOK at_ p1 p2 ∧
      ((p' = p2 ∧ k2 = []) ∨
        ∃ p3 k3 k4, Sem inp spec at_ a p2 p3 k3 ∧ Reps (Sem inp spec at_ a) at_ p3 p' k4 ∧ k2 = k3 ++ k4) ∧
      ks = k1 ++ k2
  | .neg _, p, p', ks => p' = p ∧ ks = []
  | .pos _, p, p', ks => p' = p ∧ ks = []
  | .ref n, p, p', ks => spec n at_ p p' ks

theorem skip_ok (env : Env) (f : Nat) (at_ : Atom) (p : Nat) : SkipOK at_ p (skip env f at_ p) := by
  intro h
  cases f with
  | zero => simp [skip]
  | succ f => cases at_ <;> simp_all [skip]

/-- result of a built-in rule (outside look-ahead) -/
def builtin (inp : Array Nat) (n : Nat) (at_ : Atom) (p : Nat) : Res :=
  let cls (lo hi : Nat) : Res := if charIn inp p lo hi then some (p + 1, []) else none
  if n = ANY then (if p < inp.size then some (p + 1, []) else none)
  else if n = SOI then (if p = 0 then some (p, []) else none)
  else if n = EOI then
    (if p = inp.size then (if at_ != .atomic then some (p, [Pair.mk n p p []]) else some (p, [])) else none)
  else if n = NEWLINE then
      (if isPrefixAt inp p [10] then some (p + 1, [])
       else if isPrefixAt inp p [13, 10] then some (p + 2, [])
       else if isPrefixAt inp p [13] then some (p + 1, []) else none)
  else if n = ASCII_DIGIT then cls 48 57
  else if n = ASCII_BIN_DIGIT then cls 48 49
  else if n = ASCII_OCT_DIGIT then cls 48 55
  else if n = ASCII_HEX_DIGIT then ((cls 48 57 <|> cls 97 102) <|> cls 65 70)
  else if n = ASCII_ALPHA then (cls 97 122 <|> cls 65 90)
  else if n = ASCII_ALPHANUMERIC then ((cls 48 57 <|> cls 97 122) <|> cls 65 90)
  else none

def isBuiltinRule (n : Nat) : Prop := 1000 ≤ n ∧ n ≤ 1009

instance (n : Nat) : Decidable (isBuiltinRule n) := by unfold isBuiltinRule; infer_instance

/-- atomicity in which the body of rule `n` runs when called in `at_` -/
def bodyAt (env : Env) (n : Nat) (ty : RT) (at_ : Atom) : Atom :=
  if some n = env.ws || some n = env.comment then .atomic else
  match ty with
  | .silent => at_
  | .normal => at_
  | .atomic => .atomic
  | .compound => .compound
  | .nonAtomic => .nonAtomic

/-- does a call of rule `n` in `at_` wrap the tokens of its body into a pair? -/
def emits (env : Env) (n : Nat) (ty : RT) (at_ : Atom) : Bool :=
  let w : Bool := some n = env.ws || some n = env.comment
  match ty with
  | .silent => false
  | .normal => at_ != .atomic
  | .atomic => at_ != .atomic
  | .compound => if w then at_ != .atomic else true
  | .nonAtomic => if w then at_ != .atomic else true

theorem callRule_builtin (env : Env) (f n : Nat) (at_ : Atom) (p : Nat) (h : isBuiltinRule n) :
    callRule env (f + 1) n at_ false p = builtin env.inp n at_ p := by
  obtain ⟨h1, h2⟩ := h
  have : n = 1000 ∨ n = 1001 ∨ n = 1002 ∨ n = 1003 ∨ n = 1004 ∨ n = 1005 ∨ n = 1006 ∨ n = 1007 ∨ n = 1008 ∨ n = 1009 := by omega
  rcases this with rfl | rfl | rfl | rfl | rfl | rfl | rfl | rfl | rfl | rfl <;>
    simp [callRule, builtin, ANY, SOI, EOI, NEWLINE, ASCII_DIGIT, ASCII_BIN_DIGIT, ASCII_OCT_DIGIT, ASCII_HEX_DIGIT,
      ASCII_ALPHA, ASCII_ALPHANUMERIC]
  all_goals (split <;> simp_all)

theorem callRule_rule (env : Env) (f n : Nat) (at_ : Atom) (p : Nat) (h : ¬ isBuiltinRule n) :
    callRule env (f + 1) n at_ false p =
      match env.g[n]? with
      | none => none
      | some r =>
        match matchE env f r.body (bodyAt env n r.ty at_) false p with
        | none => none
        | some (p', ks) => some (p', if emits env n r.ty at_ then [Pair.mk n p p' ks] else ks) := by
  have hn : ¬ (1000 ≤ n ∧ n ≤ 1009) := h
  have e0 : n ≠ 1000 := by omega
  have e1 : n ≠ 1001 := by omega
  have e2 : n ≠ 1002 := by omega
  have e3 : n ≠ 1003 := by omega
  have e4 : n ≠ 1004 := by omega
  have e5 : n ≠ 1005 := by omega
  have e6 : n ≠ 1006 := by omega
  have e7 : n ≠ 1007 := by omega
  have e8 : n ≠ 1008 := by omega
  have e9 : n ≠ 1009 := by omega
  simp only [callRule, ANY, SOI, EOI, NEWLINE, ASCII_DIGIT, ASCII_BIN_DIGIT, ASCII_OCT_DIGIT, ASCII_HEX_DIGIT,
      ASCII_ALPHA, ASCII_ALPHANUMERIC, e0, e1, e2, e3, e4, e5, e6, e7, e8, e9, if_false]
  cases hg : env.g[n]? with
  | none => rfl
  | some r =>
    simp only
    cases hw : (decide (some n = env.ws) || decide (some n = env.comment)) <;>
      cases hty : r.ty <;> simp only [bodyAt, emits, hw] <;> cases at_ <;> simp <;>
      (try (split <;> simp_all))

/-- the rule-level specification is closed under the built-in rules and the rule bodies -/
structure Closed (env : Env) (spec : Spec) : Prop where
  builtin : ∀ n at_ p p' ks, isBuiltinRule n → builtin env.inp n at_ p = some (p', ks) → spec n at_ p p' ks
  rule : ∀ n r, ¬ isBuiltinRule n → env.g[n]? = some r → ∀ at_ p p' ks,
    Sem env.inp spec (bodyAt env n r.ty at_) r.body p p' ks →
    spec n at_ p p' (if emits env n r.ty at_ then [Pair.mk n p p' ks] else ks)

theorem shape_sound (env : Env) (spec : Spec) (hc : Closed env spec) (f : Nat) :
    (∀ e at_ p p' ks, matchE env f e at_ false p = some (p', ks) → Sem env.inp spec at_ e p p' ks) ∧
    (∀ a at_ p acc p' acc', rep env f a at_ false p acc = (p', acc') →
      ∃ ks, Reps (Sem env.inp spec at_ a) at_ p p' ks ∧ acc'.reverse.flatten = acc.reverse.flatten ++ ks) ∧
    (∀ n at_ p p' ks, callRule env f n at_ false p = some (p', ks) → spec n at_ p p' ks) := by
  induction f with
  | zero =>
    refine ⟨?_, ?_, ?_⟩
    · intro e at_ p p' ks h; simp [matchE] at h
    · intro a at_ p acc p' acc' h
      simp only [rep, Prod.mk.injEq] at h
      obtain ⟨rfl, rfl⟩ := h
      exact ⟨[], Reps.nil _, by simp⟩
    · intro n at_ p p' ks h; simp [callRule] at h
  | succ f ih =>
    obtain ⟨ihM, ihR, ihC⟩ := ih
    refine ⟨?_, ?_, ?_⟩
    · intro e at_ p p' ks h
      cases e with
      | str s =>
        simp only [matchE] at h
        split at h
        · simp only [Option.some.injEq, Prod.mk.injEq] at h
          exact ⟨by assumption, h.1.symm, h.2.symm⟩
        · simp at h
      | range lo hi =>
        simp only [matchE] at h
        split at h
        · simp only [Option.some.injEq, Prod.mk.injEq] at h
          exact ⟨by assumption, h.1.symm, h.2.symm⟩
        · simp at h
      | seq a b =>
        simp only [matchE] at h
        split at h
        · simp at h
        · rename_i p1 k1 h1
          split at h
          · simp at h
          · rename_i p3 k3 h3
            simp only [Option.some.injEq, Prod.mk.injEq] at h
            obtain ⟨rfl, rfl⟩ := h
            exact ⟨p1, _, k1, k3, ihM _ _ _ _ _ h1, skip_ok env f at_ p1, ihM _ _ _ _ _ h3, rfl⟩
      | alt a b =>
        simp only [matchE] at h
        split at h
        · rename_i r h1
          simp only [Option.some.injEq] at h
          subst h
          exact Or.inl (ihM _ _ _ _ _ h1)
        · exact Or.inr (ihM _ _ _ _ _ h)
      | opt a =>
        simp only [matchE] at h
        split at h
        · rename_i r h1
          simp only [Option.some.injEq] at h
          subst h
          exact Or.inl (ihM _ _ _ _ _ h1)
        · simp only [Option.some.injEq, Prod.mk.injEq] at h
          exact Or.inr ⟨h.1.symm, h.2.symm⟩
      | star a =>
        simp only [matchE] at h
        split at h
        · simp only [Option.some.injEq, Prod.mk.injEq] at h
          exact Or.inl ⟨h.1.symm, h.2.symm⟩
        · rename_i p1 k1 h1
          cases hr : rep env f a at_ false p1 [k1] with
          | mk q acc' =>
            rw [hr] at h
            simp only [Option.some.injEq, Prod.mk.injEq] at h
            obtain ⟨rfl, rfl⟩ := h
            obtain ⟨k2, hreps, hacc⟩ := ihR _ _ _ _ _ _ hr
            refine Or.inr ⟨p1, k1, k2, ihM _ _ _ _ _ h1, hreps, ?_⟩
            rw [hacc]; simp
      | plus a =>
        simp only [matchE] at h
        split at h
        · simp at h
        · rename_i p1 k1 h1
          split at h
          · simp only [Option.some.injEq, Prod.mk.injEq] at h
            obtain ⟨rfl, rfl⟩ := h
            exact ⟨p1, _, k1, [], ihM _ _ _ _ _ h1, skip_ok env f at_ p1, Or.inl ⟨rfl, rfl⟩, by simp⟩
          · rename_i p3 k3 h3
            cases hr : rep env f a at_ false p3 [k3, k1] with
            | mk q acc' =>
              rw [hr] at h
              simp only [Option.some.injEq, Prod.mk.injEq] at h
              obtain ⟨rfl, rfl⟩ := h
              obtain ⟨k4, hreps, hacc⟩ := ihR _ _ _ _ _ _ hr
              refine ⟨p1, _, k1, k3 ++ k4, ihM _ _ _ _ _ h1, skip_ok env f at_ p1,
                Or.inr ⟨p3, k3, k4, ihM _ _ _ _ _ h3, hreps, rfl⟩, ?_⟩
              rw [hacc]; simp
      | neg a =>
        simp only [matchE] at h
        split at h
        · simp at h
        · simp only [Option.some.injEq, Prod.mk.injEq] at h
          exact ⟨h.1.symm, h.2.symm⟩
      | pos a =>
        simp only [matchE] at h
        split at h
        · simp only [Option.some.injEq, Prod.mk.injEq] at h
          exact ⟨h.1.symm, h.2.symm⟩
        · simp at h
      | ref n =>
        simp only [matchE] at h
        exact ihC _ _ _ _ _ h
    · intro a at_ p acc p' acc' h
      simp only [rep] at h
      split at h
      · simp only [Prod.mk.injEq] at h
        obtain ⟨rfl, rfl⟩ := h
        exact ⟨[], Reps.nil _, by simp⟩
      · rename_i p2 k2 h2
        split at h
        · simp only [Prod.mk.injEq] at h
          obtain ⟨rfl, rfl⟩ := h
          exact ⟨[], Reps.nil _, by simp⟩
        · obtain ⟨ks, hreps, hacc⟩ := ihR _ _ _ _ _ _ h
          refine ⟨k2 ++ ks, Reps.cons (skip_ok env f at_ p) (ihM _ _ _ _ _ h2) hreps, ?_⟩
          rw [hacc]; simp
    · intro n at_ p p' ks h
      by_cases hb : isBuiltinRule n
      · rw [callRule_builtin env f n at_ p hb] at h
        exact hc.builtin _ _ _ _ _ hb h
      · rw [callRule_rule env f n at_ p hb] at h
        split at h
        · simp at h
        · rename_i r hg
          split at h
          · simp at h
          · rename_i q ks' hm
            simp only [Option.some.injEq, Prod.mk.injEq] at h
            obtain ⟨rfl, rfl⟩ := h
            exact hc.rule n r hb hg at_ p q ks' (ihM _ _ _ _ _ hm)

/-! ### unfolding lemmas and helpers for `Sem` -/
section
variable {inp : Array Nat} {spec : Spec} {at_ : Atom} {a b : PE} {p p' : Nat} {ks : List Pair}

theorem sem_str {s : List Nat} : Sem inp spec at_ (.str s) p p' ks ↔
    (isPrefixAt inp p s = true ∧ p' = p + s.length ∧ ks = []) := Iff.rfl
theorem sem_range {lo hi : Nat} : Sem inp spec at_ (.range lo hi) p p' ks ↔
    (charIn inp p lo hi = true ∧ p' = p + 1 ∧ ks = []) := Iff.rfl
theorem sem_seq : Sem inp spec at_ (.seq a b) p p' ks ↔
    ∃ p1 p2 k1 k2, Sem inp spec at_ a p p1 k1 ∧ SkipOK at_ p1 p2 ∧ Sem inp spec at_ b p2 p' k2 ∧ ks = k1 ++ k2 :=
  Iff.rfl
theorem sem_alt : Sem inp spec at_ (.alt a b) p p' ks ↔
    (Sem inp spec at_ a p p' ks ∨ Sem inp spec at_ b p p' ks) := Iff.rfl
theorem sem_opt : Sem inp spec at_ (.opt a) p p' ks ↔
    (Sem inp spec at_ a p p' ks ∨ (p' = p ∧ ks = [])) := Iff.rfl
theorem sem_star : Sem inp spec at_ (.star a) p p' ks ↔ ((p' = p ∧ ks = []) ∨
    ∃ p1 k1 k2, Sem inp spec at_ a p p1 k1 ∧ Reps (Sem inp spec at_ a) at_ p1 p' k2 ∧ ks = k1 ++ k2) := Iff.rfl
theorem sem_plus : Sem inp spec at_ (.plus a) p p' ks ↔ ∃ p1 p2 k1 k2, Sem inp spec at_ a p p1 k1 ∧ SkipOK at_ p1 p2 ∧
    ((p' = p2 ∧ k2 = []) ∨
      ∃ p3 k3 k4, Sem inp spec at_ a p2 p3 k3 ∧ Reps (Sem inp spec at_ a) at_ p3 p' k4 ∧ k2 = k3 ++ k4) ∧
    ks = k1 ++ k2 := Iff.rfl
theorem sem_neg : Sem inp spec at_ (.neg a) p p' ks ↔ (p' = p ∧ ks = []) := Iff.rfl
theorem sem_pos : Sem inp spec at_ (.pos a) p p' ks ↔ (p' = p ∧ ks = []) := Iff.rfl
theorem sem_ref {n : Nat} : Sem inp spec at_ (.ref n) p p' ks ↔ spec n at_ p p' ks := Iff.rfl

/-- a property of token lists that holds of `[]`, is closed under `++` and holds of every step holds of a chain -/
theorem Reps.all {S : Nat → Nat → List Pair → Prop} {Q : List Pair → Prop} (h0 : Q [])
    (happ : ∀ x y, Q x → Q y → Q (x ++ y)) (hS : ∀ a b k, S a b k → Q k)
    (h : Reps S at_ p p' ks) : Q ks := by
  induction h with
  | nil p => exact h0
  | cons _ hs _ ih => exact happ _ _ (hS _ _ _ hs) ih

theorem sem_star_all {Q : List Pair → Prop} (h0 : Q [])
    (happ : ∀ x y, Q x → Q y → Q (x ++ y)) (hS : ∀ q q' k, Sem inp spec at_ a q q' k → Q k)
    (h : Sem inp spec at_ (.star a) p p' ks) : Q ks := by
  rcases sem_star.1 h with ⟨_, rfl⟩ | ⟨p1, k1, k2, h1, h2, rfl⟩
  · exact h0
  · exact happ _ _ (hS _ _ _ h1) (h2.all h0 happ hS)

theorem sem_plus_all {Q : List Pair → Prop} (h0 : Q [])
    (happ : ∀ x y, Q x → Q y → Q (x ++ y)) (hS : ∀ q q' k, Sem inp spec at_ a q q' k → Q k)
    (h : Sem inp spec at_ (.plus a) p p' ks) : Q ks := by
  obtain ⟨p1, p2, k1, k2, h1, _, h2, rfl⟩ := sem_plus.1 h
  refine happ _ _ (hS _ _ _ h1) ?_
  rcases h2 with ⟨_, rfl⟩ | ⟨p3, k3, k4, h3, h4, rfl⟩
  · exact h0
  · exact happ _ _ (hS _ _ _ h3) (h4.all h0 happ hS)
end

end Pest
end EtkVerif
