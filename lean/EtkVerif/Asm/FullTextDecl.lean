/-
Declarations `name g1 ( params )` of macro definitions through the rule
`function_declaration` (rule 30) of the grammar, on the real pest interpreter.
-/
import EtkVerif.Asm.FullTextBase
namespace EtkVerif
namespace Asm
namespace FullText
open Pest Listing ExprText
open Layout (Suf)

variable {text : List Nat}

/-! ### the rules met on the way -/

def declMoreE : PE := .seq (.str [44]) (.ref 33)
def declBody : PE :=
  .seq (.seq (.seq (.seq (.ref 32) (.str [40])) (.star (.ref 33))) (.star declMoreE)) (.str [41])

theorem decl_gr30 (text : List Nat) : (envOf text).g[30]? =
    some ⟨30, [102, 117, 110, 99, 116, 105, 111, 110, 95, 100, 101, 99, 108, 97, 114, 97, 116, 105, 111, 110], .normal,
      declBody⟩ := rfl
theorem decl_gr33 (text : List Nat) : (envOf text).g[33]? =
    some ⟨33, [102, 117, 110, 99, 116, 105, 111, 110, 95, 112, 97, 114, 97, 109, 101, 116, 101, 114], .atomic,
      (.seq (.ref 1008) (.star (.ref 1009)))⟩ := rfl

theorem decl_charPE_an : CharPE text (.ref 1009) isAn 2 := by
  intro p s h f hf
  obtain ⟨f, rfl⟩ : ∃ f', f = f' + 1 + 1 := ⟨f - 2, by omega⟩
  rw [matchE.eq_11, call_alnum h]

/-- `function_parameter` on a parameter -/
theorem decl_ev33_ok {p c : Nat} {run post : List Nat} (hs : Suf text p (c :: (run ++ post))) (hc : isAl c = true)
    (hr : ∀ x ∈ run, isAn x = true) (hstop : headIs isAn post = false) :
    Ev (envOf text) (run.length + 9) (.ref 33) .nonAtomic false p
      (some (p + 1 + run.length, [.mk 33 p (p + 1 + run.length) []])) := by
  have h1 := charPE_ev charPE_alpha hs hc
  have h2 := run_star decl_charPE_an run hr hs.tail hstop
  exact evr (decl_gr33 text) (by omega) (Ev.seq h1 (sk_at _) h2 (d := run.length + 6))

theorem decl_ev33_fail {p : Nat} {s : List Nat} (hs : Suf text p s) (h : headIs isAl s = false) :
    Ev (envOf text) 5 (.ref 33) .nonAtomic false p none :=
  evr (decl_gr33 text) (by omega) (Ev.seq_fail1 (charPE_ev_fail charPE_alpha hs h) (d := 2))

/-- `function_name` on a name that starts with a letter or `_` -/
theorem decl_ev32_ok {p c : Nat} {run post : List Nat} (hs : Suf text p (c :: (run ++ post))) (hc : isFn c = true)
    (hr : ∀ x ∈ run, isLb x = true) (hstop : headIs isLb post = false) :
    Ev (envOf text) (run.length + 9) (.ref 32) .nonAtomic false p
      (some (p + 1 + run.length, [.mk 32 p (p + 1 + run.length) []])) := by
  have h1 := charPE_ev charPE_fn hs hc
  have h2 := run_star charPE_lb run hr hs.tail hstop
  exact evr (gr32 text) (by omega) (Ev.seq h1 (sk_at _) h2 (d := run.length + 6))

/-! ### the text of a parameter list -/

/-- `, l x r` for every further parameter -/
def declMoreText : List Param → List Nat
  | [] => []
  | (l, x, r) :: ps => 44 :: (l ++ (x ++ (r ++ declMoreText ps)))

def declInner : List Param → List Nat
  | [] => []
  | (l, x, r) :: ps => l ++ (x ++ (r ++ declMoreText ps))

def DeclPsWF (ps : List Param) : Prop :=
  ∀ x ∈ ps, ExprText.IsBlanks x.1 ∧ IsParam x.2.1 ∧ ExprText.IsBlanks x.2.2

theorem declMoreText_eq (ps : List Param) :
    ps.flatMap (fun (l, p, r) => [44] ++ l ++ p ++ r) = declMoreText ps := by
  induction ps with
  | nil => rfl
  | cons a ps ih =>
    obtain ⟨l, x, r⟩ := a
    rw [List.flatMap_cons, ih]
    simp only [declMoreText, List.append_assoc, List.cons_append, List.nil_append]

theorem decl_render_eq (d : Decl) :
    d.render = d.name ++ (d.g1 ++ 40 :: (declInner d.params ++ [41])) := by
  obtain ⟨name, g1, ps⟩ := d
  cases ps with
  | nil => simp [Decl.render, declInner]
  | cons a ps =>
    obtain ⟨l, x, r⟩ := a
    simp only [Decl.render, declInner, declMoreText_eq]
    simp

theorem decl_nb41 : NonBlank 41 := by simp [NonBlank]
theorem decl_nb44 : NonBlank 44 := by simp [NonBlank]

theorem decl_nb_al {c : Nat} (h : isAl c = true) : NonBlank c := by
  simp only [isAl, Bool.or_eq_true, Bool.and_eq_true, decide_eq_true_eq] at h
  refine ⟨?_, ?_, ?_⟩ <;> omega

/-- what follows a parameter does not continue it -/
theorem decl_stop_an {r : List Nat} (hr : ExprText.IsBlanks r) (ps : List Param) (post : List Nat) :
    headIs isAn (r ++ (declMoreText ps ++ 41 :: post)) = false := by
  cases r with
  | cons b r => rcases hr b (by simp) with h | h <;> subst h <;> rfl
  | nil =>
    cases ps with
    | nil => rfl
    | cons a ps => obtain ⟨l, x, r2⟩ := a; rfl

theorem decl_more_head (ps : List Param) (post : List Nat) :
    ∃ c t, declMoreText ps ++ 41 :: post = c :: t ∧ NonBlank c ∧ isAl c = false := by
  cases ps with
  | nil => exact ⟨41, post, rfl, decl_nb41, rfl⟩
  | cons a ps => obtain ⟨l, x, r2⟩ := a; exact ⟨44, _, rfl, decl_nb44, rfl⟩

/-! ### `("," ~ function_parameter)*` -/

/-- one `, l x` -/
theorem decl_more_one {q c : Nat} {l run post : List Nat} (hl : ExprText.IsBlanks l) (hc : isAl c = true)
    (hr : ∀ y ∈ run, isAn y = true) (hs : Suf text q (44 :: (l ++ (c :: (run ++ post)))))
    (hstop : headIs isAn post = false) :
    Ev (envOf text) (l.length + run.length + 41) declMoreE .nonAtomic false q
      (some (q + 1 + l.length + 1 + run.length,
        [.mk 33 (q + 1 + l.length) (q + 1 + l.length + 1 + run.length) []])) := by
  have h44 : Ev (envOf text) 1 (.str [44]) .nonAtomic false q (some (q + 1, [])) :=
    ev_str_ok (pat := [44]) (s := l ++ (c :: (run ++ post))) hs
  have hsk := skip_blanks l hl hs.tail (decl_nb_al hc)
  have h33 := decl_ev33_ok (hs.tail.app) hc hr hstop
  exact Ev.seq h44 hsk h33 (d := l.length + run.length + 40)

/-- the end of the last parameter and the blanks pending after it -/
def declLast (e : Nat) (r : List Nat) : List Param → Nat × List Nat
  | [] => (e, r)
  | (l, x, r2) :: ps => declLast (e + r.length + 1 + l.length + x.length) r2 ps

theorem decl_last_facts : ∀ (ps : List Param) (e : Nat) (r post : List Nat),
    DeclPsWF ps → ExprText.IsBlanks r → Suf text e (r ++ (declMoreText ps ++ 41 :: post)) →
    ExprText.IsBlanks (declLast e r ps).2 ∧ Suf text (declLast e r ps).1 ((declLast e r ps).2 ++ 41 :: post) ∧
      (declLast e r ps).1 + (declLast e r ps).2.length = e + r.length + (declMoreText ps).length ∧
      e ≤ (declLast e r ps).1
  | [], e, r, post, _, hr, hs => by
    refine ⟨hr, by simpa [declMoreText, declLast] using hs, by simp [declMoreText, declLast], by simp [declLast]⟩
  | (l, x, r2) :: ps, e, r, post, hwf, hr, hs => by
    obtain ⟨hl, hx, hr2⟩ : ExprText.IsBlanks l ∧ IsParam x ∧ ExprText.IsBlanks r2 := hwf (l, x, r2) (by simp)
    have hwf' : DeclPsWF ps := fun y hy => hwf y (by simp [hy])
    have hs' : Suf text e (r ++ ([44] ++ (l ++ (x ++ (r2 ++ (declMoreText ps ++ 41 :: post)))))) := by
      simpa [declMoreText] using hs
    have hs2 : Suf text (e + r.length + 1 + l.length + x.length) (r2 ++ (declMoreText ps ++ 41 :: post)) :=
      hs'.app.app.app.app
    obtain ⟨h1, h2, h3, h4⟩ := decl_last_facts ps _ r2 post hwf' hr2 hs2
    refine ⟨h1, h2, ?_, ?_⟩
    · simp only [declLast, declMoreText, List.length_append, List.length_cons] at h3 ⊢
      omega
    · simp only [declLast] at h4 ⊢
      omega

theorem decl_rep : ∀ (ps : List Param) (e : Nat) (r post : List Nat) (acc : List (List Pair)) (f : Nat),
    DeclPsWF ps → ExprText.IsBlanks r → Suf text e (r ++ (declMoreText ps ++ 41 :: post)) →
    r.length + (declMoreText ps).length + 50 ≤ f →
    ∃ acc', rep (envOf text) f declMoreE .nonAtomic false e acc = ((declLast e r ps).1, acc') ∧
      acc'.reverse.flatten = acc.reverse.flatten ++ paramKidsMore (e + r.length) ps
  | [], e, r, post, acc, f, _, hr, hs, hf => by
    obtain ⟨f, rfl⟩ : ∃ f', f = f' + 1 := ⟨f - 1, by omega⟩
    have hs' : Suf text e (r ++ 41 :: post) := by simpa [declMoreText] using hs
    have hsk := skip_blanks r hr hs' decl_nb41
    have hfail : Ev (envOf text) 2 declMoreE .nonAtomic false (e + r.length) none :=
      Ev.seq_fail1 (ev_str_fail hs'.app (by simp [List.isPrefixOf])) (d := 1)
    refine ⟨acc, ?_, by simp [paramKidsMore]⟩
    rw [rep.eq_2, hsk f (by omega), hfail f (by omega)]
    rfl
  | (l, x, r2) :: ps, e, r, post, acc, f, hwf, hr, hs, hf => by
    obtain ⟨f, rfl⟩ : ∃ f', f = f' + 1 := ⟨f - 1, by omega⟩
    obtain ⟨hl, hx, hr2⟩ : ExprText.IsBlanks l ∧ IsParam x ∧ ExprText.IsBlanks r2 := hwf (l, x, r2) (by simp)
    obtain ⟨c, run, rfl, hc, hrun⟩ := isParam_split hx
    have hwf' : DeclPsWF ps := fun y hy => hwf y (by simp [hy])
    have hs' : Suf text e (r ++ 44 :: (l ++ (c :: (run ++ (r2 ++ (declMoreText ps ++ 41 :: post)))))) := by
      simpa [declMoreText] using hs
    have hsk := skip_blanks r hr hs' decl_nb44
    have hone := decl_more_one hl hc hrun hs'.app (decl_stop_an hr2 ps post)
    have hlen : (declMoreText ((l, c :: run, r2) :: ps)).length =
        1 + l.length + (1 + run.length) + r2.length + (declMoreText ps).length := by
      simp [declMoreText]; omega
    rw [hlen] at hf
    have hs2 : Suf text (e + r.length + 1 + l.length + 1 + run.length) (r2 ++ (declMoreText ps ++ 41 :: post)) :=
      hs'.app.tail.app.tail.app
    have e1 : e + r.length + 1 + l.length + (c :: run).length = e + r.length + 1 + l.length + 1 + run.length := by
      simp only [List.length_cons]; omega
    obtain ⟨acc', h1, h2⟩ := decl_rep ps (e + r.length + 1 + l.length + 1 + run.length) r2 post
      ([.mk 33 (e + r.length + 1 + l.length) (e + r.length + 1 + l.length + 1 + run.length) []] :: acc) f hwf' hr2 hs2
      (by omega)
    refine ⟨acc', ?_, ?_⟩
    · rw [rep.eq_2, hsk f (by omega), hone f (by omega)]
      simp only
      have hne : ¬ (e + r.length + 1 + l.length + 1 + run.length = e) := by omega
      rw [if_neg hne, declLast, e1]
      exact h1
    · rw [h2]
      simp only [paramKidsMore, e1]
      simp

/-- the second star from the position of the first `,` or of `)` -/
theorem decl_more_star (ps : List Param) (Q : Nat) (post : List Nat) (hwf : DeclPsWF ps)
    (hs : Suf text Q (declMoreText ps ++ 41 :: post)) :
    Ev (envOf text) ((declMoreText ps).length + 60) (.star declMoreE) .nonAtomic false Q
        (some ((declLast Q [] ps).1, paramKidsMore Q ps)) := by
  cases ps with
  | nil =>
    have hs' : Suf text Q (41 :: post) := by simpa [declMoreText] using hs
    have hfail : Ev (envOf text) 2 declMoreE .nonAtomic false Q none :=
      Ev.seq_fail1 (ev_str_fail hs' (by simp [List.isPrefixOf])) (d := 1)
    exact (Ev.star0 hfail (d := 2)).mono (by omega)
  | cons a ps =>
    obtain ⟨l, x, r2⟩ := a
    obtain ⟨hl, hx, hr2⟩ : ExprText.IsBlanks l ∧ IsParam x ∧ ExprText.IsBlanks r2 := hwf (l, x, r2) (by simp)
    obtain ⟨c, run, rfl, hc, hrun⟩ := isParam_split hx
    have hwf' : DeclPsWF ps := fun y hy => hwf y (by simp [hy])
    have hs' : Suf text Q (44 :: (l ++ (c :: (run ++ (r2 ++ (declMoreText ps ++ 41 :: post)))))) := by
      simpa [declMoreText] using hs
    have hone := decl_more_one hl hc hrun hs' (decl_stop_an hr2 ps post)
    have hlen : (declMoreText ((l, c :: run, r2) :: ps)).length =
        1 + l.length + (1 + run.length) + r2.length + (declMoreText ps).length := by
      simp [declMoreText]; omega
    have hs2 : Suf text (Q + 1 + l.length + 1 + run.length) (r2 ++ (declMoreText ps ++ 41 :: post)) :=
      hs'.tail.app.tail.app
    have e1 : Q + ([] : List Nat).length + 1 + l.length + (c :: run).length = Q + 1 + l.length + 1 + run.length := by
      simp only [List.length_cons, List.length_nil]; omega
    have e2 : Q + 1 + l.length + (c :: run).length = Q + 1 + l.length + 1 + run.length := by
      simp only [List.length_cons]; omega
    rw [hlen, declLast, e1]
    refine (ev_star_some hone (p' := (declLast (Q + 1 + l.length + 1 + run.length) r2 ps).1)
      (ks := paramKidsMore Q ((l, c :: run, r2) :: ps))
      (d2 := r2.length + (declMoreText ps).length + 50)
      (d := l.length + run.length + r2.length + (declMoreText ps).length + 51) ?_ (by omega) (by omega)).mono (by omega)
    intro f hf
    obtain ⟨acc', g1, g2⟩ := decl_rep ps (Q + 1 + l.length + 1 + run.length) r2 post
      [[.mk 33 (Q + 1 + l.length) (Q + 1 + l.length + 1 + run.length) []]] f hwf' hr2 hs2 hf
    refine ⟨acc', g1, ?_⟩
    rw [g2]
    simp only [paramKidsMore, e2]
    simp

/-! ### the parameter list after `(` -/

theorem decl_tail {p P1 d0 : Nat} {k0 : List Pair} {X : PE} (ps : List Param) (post : List Nat) (hwf : DeclPsWF ps)
    (hX : Ev (envOf text) d0 X .nonAtomic false p (some (P1, k0)))
    (hs : Suf text P1 (declInner ps ++ 41 :: post)) :
    Ev (envOf text) (d0 + (declInner ps).length + 100)
      (.seq (.seq (.seq X (.star (.ref 33))) (.star declMoreE)) (.str [41])) .nonAtomic false p
      (some (P1 + (declInner ps).length + 1, k0 ++ paramKids P1 ps)) := by
  cases ps with
  | nil =>
    have hs' : Suf text P1 (41 :: post) := by simpa [declInner] using hs
    have sk0 : Sk (envOf text) 30 .nonAtomic P1 P1 := skip_none hs' decl_nb41
    have hstar1 : Ev (envOf text) 6 (.star (.ref 33)) .nonAtomic false P1 (some (P1, [])) :=
      Ev.star0 (decl_ev33_fail hs' rfl) (d := 5)
    have hmore : Ev (envOf text) 60 (.star declMoreE) .nonAtomic false P1 (some (P1, [])) :=
      decl_more_star [] P1 post hwf (by simpa [declMoreText] using hs')
    have h41 : Ev (envOf text) 1 (.str [41]) .nonAtomic false P1 (some (P1 + 1, [])) :=
      ev_str_ok (pat := [41]) (s := post) hs'
    have hfin := Ev.seq (Ev.seq (Ev.seq hX sk0 hstar1 (d := d0 + 30)) sk0 hmore (d := d0 + 70)) sk0 h41 (d := d0 + 80)
    have hres : (some (P1 + 1, k0 ++ [] ++ [] ++ []) : Res) =
        some (P1 + (declInner ([] : List Param)).length + 1, k0 ++ paramKids P1 []) := by
      simp [paramKids, declInner]
    rw [← hres]
    exact hfin.mono (by omega)
  | cons a ps =>
    obtain ⟨l, x, r⟩ := a
    obtain ⟨hl, hx, hr⟩ : ExprText.IsBlanks l ∧ IsParam x ∧ ExprText.IsBlanks r := hwf (l, x, r) (by simp)
    obtain ⟨c, run, rfl, hc, hrun⟩ := isParam_split hx
    have hwf' : DeclPsWF ps := fun y hy => hwf y (by simp [hy])
    have hs' : Suf text P1 (l ++ (c :: (run ++ (r ++ (declMoreText ps ++ 41 :: post))))) := by
      simpa [declInner] using hs
    have skl := skip_blanks l hl hs' (decl_nb_al hc)
    have h33 := decl_ev33_ok hs'.app hc hrun (decl_stop_an hr ps post)
    have hsr : Suf text (P1 + l.length + 1 + run.length) (r ++ (declMoreText ps ++ 41 :: post)) := hs'.app.tail.app
    obtain ⟨c2, t2, hh, hnb, hal⟩ := decl_more_head ps post
    have hsr' : Suf text (P1 + l.length + 1 + run.length) (r ++ c2 :: t2) := by rw [← hh]; exact hsr
    have skr := skip_blanks r hr hsr' hnb
    have hf33 := decl_ev33_fail hsr'.app hal
    have hrep : ∀ f, r.length + 40 ≤ f → ∃ acc, rep (envOf text) f (.ref 33) .nonAtomic false
        (P1 + l.length + 1 + run.length) [[.mk 33 (P1 + l.length) (P1 + l.length + 1 + run.length) []]] =
          (P1 + l.length + 1 + run.length, acc) ∧
        acc.reverse.flatten = [.mk 33 (P1 + l.length) (P1 + l.length + 1 + run.length) []] := by
      intro f hf
      obtain ⟨f, rfl⟩ : ∃ f', f = f' + 1 := ⟨f - 1, by omega⟩
      refine ⟨[[.mk 33 (P1 + l.length) (P1 + l.length + 1 + run.length) []]], ?_, by simp⟩
      rw [rep.eq_2, skr f (by omega), hf33 f (by omega)]
    have hstar1 := ev_star_some h33 hrep (d := run.length + r.length + 40) (by omega) (by omega)
    have hsQ : Suf text (P1 + l.length + 1 + run.length + r.length) (declMoreText ps ++ 41 :: post) := hsr.app
    have hmore := decl_more_star ps _ post hwf' hsQ
    obtain ⟨hb', hs'', hlen', hge'⟩ := decl_last_facts ps (P1 + l.length + 1 + run.length + r.length) [] post hwf'
      (fun _ h => by cases h) (by simpa using hsQ)
    generalize (declLast (P1 + l.length + 1 + run.length + r.length) [] ps).1 = e' at *
    generalize (declLast (P1 + l.length + 1 + run.length + r.length) [] ps).2 = r' at *
    have skl2 := skip_blanks r' hb' hs'' decl_nb41
    have h41 : Ev (envOf text) 1 (.str [41]) .nonAtomic false (e' + r'.length) (some (e' + r'.length + 1, [])) :=
      ev_str_ok (pat := [41]) (s := post) hs''.app
    have hleni : (declInner ((l, c :: run, r) :: ps)).length =
        l.length + (1 + run.length) + r.length + (declMoreText ps).length := by
      simp [declInner]; omega
    have hl2 := hs''.len
    have hl1 := hs.len
    simp only [List.length_append, List.length_cons, List.length_nil] at hlen' hl1 hl2
    have hfin := Ev.seq (Ev.seq (Ev.seq hX skl hstar1 (d := d0 + (declInner ((l, c :: run, r) :: ps)).length + 50))
      skr hmore (d := d0 + (declInner ((l, c :: run, r) :: ps)).length + 70)) skl2 h41
      (d := d0 + (declInner ((l, c :: run, r) :: ps)).length + 80)
    have e1 : P1 + l.length + (c :: run).length = P1 + l.length + 1 + run.length := by
      simp only [List.length_cons]; omega
    have hres : (some (e' + r'.length + 1,
          k0 ++ [.mk 33 (P1 + l.length) (P1 + l.length + 1 + run.length) []] ++
            paramKidsMore (P1 + l.length + 1 + run.length + r.length) ps ++ []) : Res) =
        some (P1 + (declInner ((l, c :: run, r) :: ps)).length + 1, k0 ++ paramKids P1 ((l, c :: run, r) :: ps)) := by
      have e2 : e' + r'.length + 1 = P1 + (declInner ((l, c :: run, r) :: ps)).length + 1 := by omega
      rw [e2]
      simp only [paramKids, e1]
      simp
    rw [← hres]
    exact hfin.mono (by omega)

/-! ### the texts of the kids -/

theorem decl_txt_more : ∀ (ps : List Param) (q : Nat) (post : List Nat),
    Suf text q (declMoreText ps ++ post) →
    (paramKidsMore q ps).map (fun k => strOf (txt text.toArray k)) = ps.map (fun x => strOf x.2.1)
  | [], _, _, _ => rfl
  | (l, x, r) :: ps, q, post, hs => by
    have hs' : Suf text q ([44] ++ (l ++ (x ++ (r ++ (declMoreText ps ++ post))))) := by
      simpa [declMoreText] using hs
    have hx : Suf text (q + 1 + l.length) (x ++ (r ++ (declMoreText ps ++ post))) := hs'.app.app
    have ht := txt_suf hx 33 []
    have ih := decl_txt_more ps _ post hx.app.app
    simp only [paramKidsMore, List.map_cons, ht, ih]

theorem decl_txt_params (ps : List Param) (q : Nat) (post : List Nat) (hs : Suf text q (declInner ps ++ post)) :
    (paramKids q ps).map (fun k => strOf (txt text.toArray k)) = ps.map (fun x => strOf x.2.1) := by
  cases ps with
  | nil => rfl
  | cons a ps =>
    obtain ⟨l, x, r⟩ := a
    have hs' : Suf text q (l ++ (x ++ (r ++ (declMoreText ps ++ post)))) := by simpa [declInner] using hs
    have hx : Suf text (q + l.length) (x ++ (r ++ (declMoreText ps ++ post))) := hs'.app
    have ht := txt_suf hx 33 []
    have ih := decl_txt_more ps _ post hx.app.app
    simp only [paramKids, List.map_cons, ht, ih]

/-! ### `function_declaration` -/

theorem decl_fact (d : Decl) (h : d.WF) : DeclFact text d := by
  intro p post hs
  obtain ⟨name, g1, ps⟩ := d
  obtain ⟨hn, hg1, hps⟩ := h
  have hps' : DeclPsWF ps := hps
  have hR := decl_render_eq ⟨name, g1, ps⟩
  have hRl : (Decl.mk name g1 ps).render.length = name.length + g1.length + 1 + (declInner ps).length + 1 := by
    rw [hR]; simp only [List.length_append, List.length_cons, List.length_nil]; omega
  rw [hR] at hs
  have hn : IsFnName name := hn
  have hg1 : ExprText.IsBlanks g1 := hg1
  obtain ⟨c, run, rfl, hc, hrun⟩ := isFnName_split hn
  have hs0 : Suf text p (c :: (run ++ (g1 ++ 40 :: (declInner ps ++ 41 :: post)))) := by
    simpa using hs
  have hstop : headIs isLb (g1 ++ 40 :: (declInner ps ++ 41 :: post)) = false := by
    cases g1 with
    | nil => rfl
    | cons b g => rcases hg1 b (by simp) with h | h <;> subst h <;> rfl
  have h32 := decl_ev32_ok hs0 hc hrun hstop
  have hs1 : Suf text (p + 1 + run.length) (g1 ++ 40 :: (declInner ps ++ 41 :: post)) := hs0.tail.app
  have hskg := skip_blanks g1 hg1 hs1 (by simp [NonBlank])
  have hs2 : Suf text (p + 1 + run.length + g1.length) (40 :: (declInner ps ++ 41 :: post)) := hs1.app
  have h40 : Ev (envOf text) 1 (.str [40]) .nonAtomic false (p + 1 + run.length + g1.length)
      (some (p + 1 + run.length + g1.length + 1, [])) :=
    ev_str_ok (pat := [40]) (s := declInner ps ++ 41 :: post) hs2
  have hX := Ev.seq h32 hskg h40 (d := run.length + g1.length + 30)
  have hbody := decl_tail ps post hps' hX hs2.tail
  have h30 := evr (decl_gr30 text) (by omega) hbody (d := run.length + g1.length + 31 + (declInner ps).length + 100)
    (at_ := .nonAtomic)
  have eN : p + (c :: run).length = p + 1 + run.length := by simp only [List.length_cons]; omega
  refine ⟨?_, ?_, ?_⟩
  · rw [hRl]
    simp only [declPair, hRl, eN]
    have e2 : p + ((c :: run).length + g1.length + 1 + (declInner ps).length + 1) =
        p + 1 + run.length + g1.length + 1 + (declInner ps).length + 1 := by
      simp only [List.length_cons]; omega
    rw [e2]
    have h30' : Ev (envOf text) (run.length + g1.length + 31 + (declInner ps).length + 100 + 2) (.ref 30) .nonAtomic false p
        (some (p + 1 + run.length + g1.length + 1 + (declInner ps).length + 1,
          [.mk 30 p (p + 1 + run.length + g1.length + 1 + (declInner ps).length + 1)
            ([.mk 32 p (p + 1 + run.length) []] ++ [] ++ paramKids (p + 1 + run.length + g1.length + 1) ps)])) := h30
    simpa using h30'.mono (by omega)
  · exact txt_suf (y := c :: run) (z := (g1 ++ 40 :: (declInner ps ++ [41])) ++ post) (by simpa using hs) 32 []
  · simp only [eN]
    exact decl_txt_params ps _ (41 :: post) hs2.tail

end FullText
end Asm
end EtkVerif
