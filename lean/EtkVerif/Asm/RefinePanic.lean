/-
The model's `panic` outcomes other than fuel exhaustion are unreachable.
-/
import EtkVerif.Asm.RefineSim
namespace EtkVerif
namespace Asm

def NotPanic (e : AsmErr) : Prop := ∀ site, e ≠ .panic site
def OkErr (e : AsmErr) : Prop := ∀ site, e = .panic site → site = "fuel"

theorem NotPanic.okErr {e : AsmErr} (h : NotPanic e) : OkErr e := fun site hs => absurd hs (h site)

theorem mapErr_notPanic (err : EvErr) : NotPanic (mapErr err) := by
  intro site h
  cases err <;> simp [mapErr] at h

theorem toExcept_notPanic {k : Conc} {e : AsmErr} (h : k.toExcept = .error e) : NotPanic e := by
  cases k with
  | ok bs => simp [Conc.toExcept] at h
  | tooLarge => simp only [Conc.toExcept, Except.error.injEq] at h; subst h; intro site hs; cases hs
  | negative => simp only [Conc.toExcept, Except.error.injEq] at h; subst h; intro site hs; cases hs
  | ctx err => simp only [Conc.toExcept, Except.error.injEq] at h; subst h; exact mapErr_notPanic err

theorem emitItem_notPanic {c : Ctx} {item : Item} {ws : List Nat} {e : AsmErr}
    (h : emitItem c item ws = .error e) : NotPanic e := by
  cases item with
  | label l => simp [emitItem] at h
  | raw bs => simp [emitItem] at h
  | op code imm => exact toExcept_notPanic h
  | push ex => exact toExcept_notPanic h

theorem emit_notPanic (c : Ctx) (items : List Item) (ws : List Nat) (e : AsmErr)
    (h : emit c items ws = .error e) : NotPanic e := by
  induction items generalizing ws with
  | nil => simp [emit] at h
  | cons x rest ih =>
    rw [emit_cons] at h
    cases hx : emitItem c x ws with
    | error e1 =>
      rw [hx] at h
      simp only [Except.error.injEq] at h
      subst h
      exact emitItem_notPanic hx
    | ok bs =>
      rw [hx] at h
      simp only [] at h
      cases hr : emit c rest (List.drop (pushCount [x]) ws) with
      | error e1 =>
        rw [hr] at h
        simp only [Except.error.injEq] at h
        subst h
        exact ih _ hr
      | ok more => rw [hr] at h; simp at h

theorem finish_notPanic (s : St) (e : AsmErr) (h : finish s = .error e) : NotPanic e := by
  unfold finish at h
  split at h
  · simp only [Except.error.injEq] at h; subst h; intro site hs; cases hs
  · exact emit_notPanic _ _ _ _ h

theorem declareMacros_notPanic (ops : List RawOp) (ms : List (String × MacroDef)) (e : AsmErr)
    (h : declareMacros ops ms = .error e) : NotPanic e := by
  induction ops generalizing ms with
  | nil => simp [declareMacros] at h
  | cons x rest ih =>
    cases x with
    | raw bs => simp only [declareMacros] at h; exact ih _ h
    | scope o => simp only [declareMacros] at h; exact ih _ h
    | op o =>
      cases o with
      | instrDef n ps body =>
        simp only [declareMacros] at h
        split at h
        · simp only [Except.error.injEq] at h; subst h; intro site hs; cases hs
        · exact ih _ h
      | exprDef n ps body =>
        simp only [declareMacros] at h
        split at h
        · simp only [Except.error.injEq] at h; subst h; intro site hs; cases hs
        · exact ih _ h
      | op code imm => simp only [declareMacros] at h; exact ih _ h
      | label l => simp only [declareMacros] at h; exact ih _ h
      | push ex => simp only [declareMacros] at h; exact ih _ h
      | «macro» n a => simp only [declareMacros] at h; exact ih _ h

theorem renameLocals_notPanic (rnd : Nat → Nat) (name : String) (body : List AOp) (k : Nat)
    (m : List (String × String)) (e : AsmErr)
    (h : renameLocals rnd name body k m = .error e) : NotPanic e := by
  induction body generalizing k m with
  | nil => simp [renameLocals] at h
  | cons o rest ih =>
    cases o with
    | label l =>
      simp only [renameLocals] at h
      split at h
      · simp only [Except.error.injEq] at h; subst h; intro site hs; cases hs
      · cases hr : renameLocals rnd name rest (k + 1) (m ++ [(l, mangle rnd k name l)]) with
        | error e1 => rw [hr] at h; simp only [Except.error.injEq] at h; subst h; exact ih _ _ hr
        | ok r => rw [hr] at h; simp at h
    | op code imm | push ex | instrDef n ps b | exprDef n ps b | «macro» n a =>
      simp only [renameLocals] at h
      cases hr : renameLocals rnd name rest k m with
      | error e1 => rw [hr] at h; simp only [Except.error.injEq] at h; subst h; exact ih _ _ hr
      | ok r => rw [hr] at h; simp at h

theorem instantiate_notPanic (rnd : Nat → Nat) (name : String) (params : List String) (body : List AOp)
    (args : List Expr) (k : Nat) (e : AsmErr)
    (h : instantiate rnd name params body args k = .error e) : NotPanic e := by
  unfold instantiate at h
  split at h
  · simp only [Except.error.injEq] at h; subst h; intro site hs; cases hs
  · cases hr : renameLocals rnd name body k [] with
    | error e1 => rw [hr] at h; simp only [Except.error.injEq] at h; subst h; exact renameLocals_notPanic _ _ _ _ _ _ hr
    | ok r => rw [hr] at h; simp at h

theorem mentionedOf_notPanic (ms : List (String × MacroDef)) (o : AOp) (e : AsmErr)
    (h : mentionedOf ms o = .error e) : NotPanic e := by
  unfold mentionedOf at h
  generalize o.expr? = oe at h
  cases oe with
  | none => simp at h
  | some ex =>
    simp only [] at h
    cases hl : labelsOf ms evalFuel 0 ex with
    | ok ls => rw [hl] at h; simp at h
    | error err =>
      have := labelsOf_err ms evalFuel 0 ex err hl
      rw [hl] at h
      cases err with
      | unknownMacro n => simp only [Except.error.injEq] at h; subst h; intro site hs; cases hs
      | recursionLimit n => simp only [Except.error.injEq] at h; subst h; intro site hs; cases hs
      | unknownLabel l => exact this.elim
      | undefinedVariable v => exact this.elim
      | divisionByZero => exact this.elim

theorem pushInstr_notPanic (s : St) (o : AOp) (item : Item) (size : Option Nat) (conc : St → Conc) (e : AsmErr)
    (h : pushInstr s o item size conc = .error e) : NotPanic e := by
  rw [pushInstr_eq] at h
  cases hm : mentionedOf s.macros o with
  | error e1 =>
    rw [hm] at h
    simp only [Except.error.injEq] at h
    subst h
    exact mentionedOf_notPanic _ _ _ hm
  | ok ls =>
    rw [hm] at h
    simp only [] at h
    split at h
    · simp at h
    · split at h
      · simp at h
      · simp only [Except.error.injEq] at h; subst h; intro site hs; cases hs
    · split at h
      · simp at h
      · simp only [Except.error.injEq] at h; subst h; intro site hs; cases hs
    · split at h
      · simp at h
      · simp only [Except.error.injEq] at h; subst h; intro site hs; cases hs
    · simp at h
    · simp only [Except.error.injEq] at h; subst h; exact mapErr_notPanic _

theorem fuel_okErr : OkErr (.panic "fuel") := by
  intro site h
  injection h with h
  exact h.symm

def PanicFree (rnd : Nat → Nat) (f : Nat) : Prop :=
  (∀ s rop e, push rnd f s rop = .error e → OkErr e) ∧
  (∀ s name args e, expandMacro rnd f s name args = .error e → OkErr e) ∧
  (∀ s body e, feed rnd f s body = .error e → OkErr e) ∧
  (∀ s ops e, feedAll rnd f s ops = .error e → OkErr e) ∧
  (∀ s ops e, assemble rnd f s ops = .error e → OkErr e)

theorem panicFree (rnd : Nat → Nat) : ∀ f, PanicFree rnd f := by
  intro f
  induction f with
  | zero =>
    refine ⟨?_, ?_, ?_, ?_, ?_⟩
    · intro s rop e h; simp only [push, Except.error.injEq] at h; subst h; exact fuel_okErr
    · intro s name args e h; simp only [expandMacro, Except.error.injEq] at h; subst h; exact fuel_okErr
    · intro s body e h; simp only [feed, Except.error.injEq] at h; subst h; exact fuel_okErr
    · intro s ops e h; simp only [feedAll, Except.error.injEq] at h; subst h; exact fuel_okErr
    · intro s ops e h; simp only [assemble, Except.error.injEq] at h; subst h; exact fuel_okErr
  | succ f ih =>
    obtain ⟨hP, hM, hF, hFA, hA⟩ := ih
    refine ⟨?_, ?_, ?_, ?_, ?_⟩
    · intro s rop e h
      cases rop with
      | op o =>
        cases o with
        | label l =>
          simp only [push] at h
          split at h
          · simp only [Except.error.injEq] at h; subst h; intro site hs; cases hs
          · simp at h
        | instrDef n ps b => simp [push] at h
        | exprDef n ps b => simp [push] at h
        | «macro» name args => simp only [push] at h; exact hM _ _ _ _ h
        | op code imm => simp only [push] at h; exact (pushInstr_notPanic _ _ _ _ _ _ h).okErr
        | push ex => simp only [push] at h; exact (pushInstr_notPanic _ _ _ _ _ _ h).okErr
      | raw bs => simp [push] at h
      | scope ops =>
        simp only [push] at h
        cases ha : assemble rnd f { fresh := s.fresh } ops with
        | error e1 => rw [ha] at h; simp only [Except.error.injEq] at h; subst h; exact hA _ _ _ ha
        | ok r => rw [ha] at h; simp at h
    · intro s name args e h
      simp only [expandMacro] at h
      split at h
      · split at h
        · simp only [Except.error.injEq] at h; subst h; intro site hs; cases hs
        · split at h
          · simp only [Except.error.injEq] at h; subst h; intro site hs; cases hs
          · split at h
            · next e1 hi =>
              simp only [Except.error.injEq] at h; subst h
              exact (instantiate_notPanic _ _ _ _ _ _ _ hi).okErr
            · split at h
              · next e1 hfe =>
                simp only [Except.error.injEq] at h; subst h
                exact hF _ _ _ hfe
              · simp at h
      · simp only [Except.error.injEq] at h; subst h; intro site hs; cases hs
    · intro s body e h
      cases body with
      | nil => simp [feed] at h
      | cons o os =>
        simp only [feed] at h
        cases hp : push rnd f s (.op o) with
        | error e1 => rw [hp] at h; simp only [Except.error.injEq] at h; subst h; exact hP _ _ _ hp
        | ok s1 => rw [hp] at h; exact hF _ _ _ h
    · intro s ops e h
      cases ops with
      | nil => simp [feedAll] at h
      | cons o os =>
        simp only [feedAll] at h
        cases hp : push rnd f s o with
        | error e1 => rw [hp] at h; simp only [Except.error.injEq] at h; subst h; exact hP _ _ _ hp
        | ok s1 => rw [hp] at h; exact hFA _ _ _ h
    · intro s ops e h
      simp only [assemble] at h
      cases hd : declareMacros ops.toList s.macros with
      | error e1 =>
        rw [hd] at h; simp only [Except.error.injEq] at h; subst h
        exact (declareMacros_notPanic _ _ _ hd).okErr
      | ok ms =>
        rw [hd] at h
        simp only [] at h
        cases hfa : feedAll rnd f { s with macros := ms } ops with
        | error e1 => rw [hfa] at h; simp only [Except.error.injEq] at h; subst h; exact hFA _ _ _ hfa
        | ok s1 =>
          rw [hfa] at h
          simp only [] at h
          cases hfin : finish s1 with
          | error e1 =>
            rw [hfin] at h
            simp only [Except.map, Except.error.injEq] at h
            subst h
            exact (finish_notPanic _ _ hfin).okErr
          | ok bytes => rw [hfin] at h; simp [Except.map] at h

end Asm
end EtkVerif
