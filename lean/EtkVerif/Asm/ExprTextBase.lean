/-
Basic facts about the real pest interpreter on a text known through a suffix
(`Suf text p s`): literals, ranges, the built-in character classes, runs of a
character class under `*` / `+` in the atomic state, implicit whitespace over a
run of blanks that is followed by something which is neither a blank nor `#`.
-/
import EtkVerif.Asm.ExprText
import EtkVerif.Asm.LayoutSkip
namespace EtkVerif
namespace Asm
namespace ExprText
open Pest Listing
open Layout (Suf)

variable {text : List Nat} {p : Nat} {s : List Nat}

/-! ### reading the input -/

def headIs (P : Nat → Bool) : List Nat → Bool
  | [] => false
  | c :: _ => P c

theorem inp_get (h : Suf text p s) : (envOf text).inp[p]? = s.head? := by
  obtain ⟨pre, h1, h2⟩ := h
  subst h1 h2
  show (pre ++ s).toArray[pre.length]? = _
  cases s <;> simp

theorem charIn_suf (h : Suf text p s) (lo hi : Nat) :
    charIn (envOf text).inp p lo hi = headIs (fun c => decide (lo ≤ c) && decide (c ≤ hi)) s := by
  unfold charIn
  rw [inp_get h]
  cases s <;> rfl

theorem isPrefixAt_suf : ∀ (pat : List Nat) (p : Nat) (s : List Nat), Suf text p s →
    isPrefixAt (envOf text).inp p pat = pat.isPrefixOf s
  | [], _, _, _ => by simp [isPrefixAt]
  | c :: pat, p, [], h => by simp [isPrefixAt, inp_get h]
  | c :: pat, p, b :: s, h => by
    simp only [isPrefixAt, inp_get h, List.head?_cons, List.isPrefixOf]
    rw [isPrefixAt_suf pat (p + 1) s h.tail]
    have e : ((some b : Option Nat) == some c) = (c == b) := by
      rw [BEq.comm (a := c)]; simp
    rw [e]

theorem str_eval (h : Suf text p s) (pat : List Nat) (f : Nat) (at_ : Atom) (la : Bool) :
    matchE (envOf text) (f + 1) (.str pat) at_ la p =
      if pat.isPrefixOf s then some (p + pat.length, []) else none := by
  rw [matchE.eq_2, isPrefixAt_suf pat p s h]

theorem ev_str_ok {pat : List Nat} {at_ : Atom} {la : Bool} (h : Suf text p (pat ++ s)) :
    Ev (envOf text) 1 (.str pat) at_ la p (some (p + pat.length, [])) := by
  intro f hf
  obtain ⟨f, rfl⟩ : ∃ f', f = f' + 1 := ⟨f - 1, by omega⟩
  rw [str_eval h]
  have : pat.isPrefixOf (pat ++ s) = true := by
    rw [List.isPrefixOf_iff_prefix]; exact List.prefix_append _ _
  simp [this]

theorem ev_str_fail {pat : List Nat} {at_ : Atom} {la : Bool} (h : Suf text p s)
    (hp : pat.isPrefixOf s = false) : Ev (envOf text) 1 (.str pat) at_ la p none := by
  intro f hf
  obtain ⟨f, rfl⟩ : ∃ f', f = f' + 1 := ⟨f - 1, by omega⟩
  rw [str_eval h, hp]; rfl

/-! ### built-in character classes -/

def isDec (c : Nat) : Bool := decide (48 ≤ c) && decide (c ≤ 57)
def isBin (c : Nat) : Bool := decide (48 ≤ c) && decide (c ≤ 49)
def isOct (c : Nat) : Bool := decide (48 ≤ c) && decide (c ≤ 55)
def isHex (c : Nat) : Bool :=
  (decide (48 ≤ c) && decide (c ≤ 57)) || (decide (97 ≤ c) && decide (c ≤ 102)) || (decide (65 ≤ c) && decide (c ≤ 70))
def isAl (c : Nat) : Bool := (decide (97 ≤ c) && decide (c ≤ 122)) || (decide (65 ≤ c) && decide (c ≤ 90))
def isAn (c : Nat) : Bool :=
  (decide (48 ≤ c) && decide (c ≤ 57)) || (decide (97 ≤ c) && decide (c ≤ 122)) || (decide (65 ≤ c) && decide (c ≤ 90))
/-- a label body character -/
def isLb (c : Nat) : Bool := isAn c || c == 95
/-- a first character of `function_name` -/
def isFn (c : Nat) : Bool := isAl c || c == 95

@[simp] theorem headIs_cons (P : Nat → Bool) (c : Nat) (s : List Nat) : headIs P (c :: s) = P c := rfl
@[simp] theorem headIs_nil (P : Nat → Bool) : headIs P [] = false := rfl

theorem headIs_or (P Q : Nat → Bool) (s : List Nat) :
    (headIs P s || headIs Q s) = headIs (fun c => P c || Q c) s := by
  cases s <;> rfl

theorem call_digit (h : Suf text p s) (f : Nat) (at_ : Atom) (la : Bool) :
    callRule (envOf text) (f + 1) 1004 at_ la p = clsF (headIs isDec s) p := by
  rw [callRule_succ]
  simp only [callSpec, ANY, SOI, EOI, NEWLINE, ASCII_DIGIT, Nat.reduceEqDiff, if_false, if_true, charIn_suf h]
  rfl

theorem call_bin (h : Suf text p s) (f : Nat) (at_ : Atom) (la : Bool) :
    callRule (envOf text) (f + 1) 1005 at_ la p = clsF (headIs isBin s) p := by
  rw [callRule_succ]
  simp only [callSpec, ANY, SOI, EOI, NEWLINE, ASCII_DIGIT, ASCII_BIN_DIGIT, Nat.reduceEqDiff, if_false, if_true,
    charIn_suf h]
  rfl

theorem call_oct (h : Suf text p s) (f : Nat) (at_ : Atom) (la : Bool) :
    callRule (envOf text) (f + 1) 1006 at_ la p = clsF (headIs isOct s) p := by
  rw [callRule_succ]
  simp only [callSpec, ANY, SOI, EOI, NEWLINE, ASCII_DIGIT, ASCII_BIN_DIGIT, ASCII_OCT_DIGIT, Nat.reduceEqDiff,
    if_false, if_true, charIn_suf h]
  rfl

theorem call_hex (h : Suf text p s) (f : Nat) (at_ : Atom) (la : Bool) :
    callRule (envOf text) (f + 1) 1007 at_ la p = clsF (headIs isHex s) p := by
  rw [callRule_succ]
  simp only [callSpec, ANY, SOI, EOI, NEWLINE, ASCII_DIGIT, ASCII_BIN_DIGIT, ASCII_OCT_DIGIT, ASCII_HEX_DIGIT,
    Nat.reduceEqDiff, if_false, if_true, charIn_suf h, clsF_orElse, headIs_or]
  rfl

theorem call_alpha (h : Suf text p s) (f : Nat) (at_ : Atom) (la : Bool) :
    callRule (envOf text) (f + 1) 1008 at_ la p = clsF (headIs isAl s) p := by
  rw [callRule_succ]
  simp only [callSpec, ANY, SOI, EOI, NEWLINE, ASCII_DIGIT, ASCII_BIN_DIGIT, ASCII_OCT_DIGIT, ASCII_HEX_DIGIT,
    ASCII_ALPHA, Nat.reduceEqDiff, if_false, if_true, charIn_suf h, clsF_orElse, headIs_or]
  rfl

theorem call_alnum (h : Suf text p s) (f : Nat) (at_ : Atom) (la : Bool) :
    callRule (envOf text) (f + 1) 1009 at_ la p = clsF (headIs isAn s) p := by
  rw [callRule_succ]
  simp only [callSpec, ANY, SOI, EOI, NEWLINE, ASCII_DIGIT, ASCII_BIN_DIGIT, ASCII_OCT_DIGIT, ASCII_HEX_DIGIT,
    ASCII_ALPHA, ASCII_ALPHANUMERIC, Nat.reduceEqDiff, if_false, if_true, charIn_suf h, clsF_orElse, headIs_or]
  rfl

/-! ### single-character expressions and runs -/

/-- `a` consumes one character satisfying `P` and fails otherwise (atomic state) -/
def CharPE (text : List Nat) (a : PE) (P : Nat → Bool) (k : Nat) : Prop :=
  ∀ p s, Suf text p s → ∀ f, k ≤ f → matchE (envOf text) f a .atomic false p = clsF (headIs P s) p

theorem charPE_digit : CharPE text (.ref 1004) isDec 2 := by
  intro p s h f hf
  obtain ⟨f, rfl⟩ : ∃ f', f = f' + 1 + 1 := ⟨f - 2, by omega⟩
  rw [matchE.eq_11, call_digit h]

theorem charPE_bin : CharPE text (.ref 1005) isBin 2 := by
  intro p s h f hf
  obtain ⟨f, rfl⟩ : ∃ f', f = f' + 1 + 1 := ⟨f - 2, by omega⟩
  rw [matchE.eq_11, call_bin h]

theorem charPE_oct : CharPE text (.ref 1006) isOct 2 := by
  intro p s h f hf
  obtain ⟨f, rfl⟩ : ∃ f', f = f' + 1 + 1 := ⟨f - 2, by omega⟩
  rw [matchE.eq_11, call_oct h]

theorem charPE_hex : CharPE text (.ref 1007) isHex 2 := by
  intro p s h f hf
  obtain ⟨f, rfl⟩ : ∃ f', f = f' + 1 + 1 := ⟨f - 2, by omega⟩
  rw [matchE.eq_11, call_hex h]

theorem charPE_alpha : CharPE text (.ref 1008) isAl 2 := by
  intro p s h f hf
  obtain ⟨f, rfl⟩ : ∃ f', f = f' + 1 + 1 := ⟨f - 2, by omega⟩
  rw [matchE.eq_11, call_alpha h]

theorem headIs_prefix95 (s : List Nat) : List.isPrefixOf [95] s = headIs (fun c => c == 95) s := by
  cases s with
  | nil => rfl
  | cons c s =>
    show ((95 == c) && true) = (c == 95)
    rw [Bool.and_true, BEq.comm]

theorem charPE_lb : CharPE text (.alt (.ref 1009) (.str [95])) isLb 3 := by
  intro p s h f hf
  obtain ⟨f, rfl⟩ : ∃ f', f = f' + 1 + 1 + 1 := ⟨f - 3, by omega⟩
  rw [matchE.eq_5, matchE.eq_11, call_alnum h, str_eval h, headIs_prefix95]
  cases s with
  | nil => rfl
  | cons c s =>
    simp only [headIs_cons, isLb]
    cases h1 : isAn c <;> by_cases h2 : c = 95 <;> simp [clsF, h2]

theorem charPE_fn : CharPE text (.alt (.ref 1008) (.str [95])) isFn 3 := by
  intro p s h f hf
  obtain ⟨f, rfl⟩ : ∃ f', f = f' + 1 + 1 + 1 := ⟨f - 3, by omega⟩
  rw [matchE.eq_5, matchE.eq_11, call_alpha h, str_eval h, headIs_prefix95]
  cases s with
  | nil => rfl
  | cons c s =>
    simp only [headIs_cons, isFn]
    cases h1 : isAl c <;> by_cases h2 : c = 95 <;> simp [clsF, h2]

theorem skip_atomic (env : Env) (f : Nat) (p : Nat) : skip env f .atomic p = p := by
  cases f with
  | zero => rw [skip.eq_1]
  | succ f => rw [skip.eq_2]; rfl

section runs
variable {a : PE} {P : Nat → Bool} {k : Nat}

theorem charPE_step (hc : CharPE text a P k) {c : Nat} {s : List Nat} {p : Nat} (hs : Suf text p (c :: s))
    (hP : P c = true) (f : Nat) (hf : k ≤ f) :
    matchE (envOf text) f a .atomic false p = some (p + 1, []) := by
  rw [hc p _ hs f hf, headIs_cons, hP]
  rfl

theorem run_rep (hc : CharPE text a P k) : ∀ (run : List Nat) (p : Nat) (acc : List (List Pair)) (f : Nat),
    (∀ c ∈ run, P c = true) → Suf text p (run ++ s) → headIs P s = false → run.length + k + 1 ≤ f →
    ∃ acc', rep (envOf text) f a .atomic false p acc = (p + run.length, acc') ∧
      acc'.reverse.flatten = acc.reverse.flatten
  | [], p, acc, f, _, hs, hstop, hf => by
    obtain ⟨f, rfl⟩ : ∃ f', f = f' + 1 := ⟨f - 1, by omega⟩
    refine ⟨acc, ?_, rfl⟩
    rw [rep.eq_2, skip_atomic, hc p s (by simpa using hs) f (by simp at hf; omega), hstop]
    rfl
  | c :: run, p, acc, f, hr, hs, hstop, hf => by
    obtain ⟨f, rfl⟩ : ∃ f', f = f' + 1 := ⟨f - 1, by omega⟩
    simp only [List.length_cons] at hf
    have hcP : P c = true := hr c (by simp)
    obtain ⟨acc', h1, h2⟩ := run_rep hc run (p + 1) ([] :: acc) f (fun x hx => hr x (by simp [hx]))
      hs.tail hstop (by omega)
    refine ⟨acc', ?_, by simpa using h2⟩
    rw [rep.eq_2, skip_atomic, charPE_step hc (s := run ++ s) hs hcP f (by omega)]
    simp only
    have hne : ¬ (p + 1 = p) := by omega
    simp only [hne, if_false]
    rw [h1, List.length_cons]
    congr 1; omega

theorem run_star (hc : CharPE text a P k) (run : List Nat) (hr : ∀ c ∈ run, P c = true)
    (hs : Suf text p (run ++ s)) (hstop : headIs P s = false) :
    Ev (envOf text) (run.length + k + 2) (.star a) .atomic false p (some (p + run.length, [])) := by
  intro f hf
  obtain ⟨f, rfl⟩ : ∃ f', f = f' + 1 := ⟨f - 1, by omega⟩
  rw [matchE.eq_7]
  cases run with
  | nil =>
    rw [hc p s (by simpa using hs) f (by omega), hstop]
    rfl
  | cons c run =>
    simp only [List.length_cons] at hf
    have hcP : P c = true := hr c (by simp)
    rw [charPE_step hc (s := run ++ s) hs hcP f (by omega)]
    simp only
    obtain ⟨acc', h1, h2⟩ := run_rep hc run (p + 1) [[]] f (fun x hx => hr x (by simp [hx]))
      hs.tail hstop (by omega)
    rw [h1]
    simp only [h2, List.length_cons]
    simp; omega

theorem run_plus (hc : CharPE text a P k) (c : Nat) (run : List Nat) (hr : ∀ x ∈ c :: run, P x = true)
    (hs : Suf text p (c :: run ++ s)) (hstop : headIs P s = false) :
    Ev (envOf text) (run.length + k + 3) (.plus a) .atomic false p (some (p + (run.length + 1), [])) := by
  intro f hf
  obtain ⟨f, rfl⟩ : ∃ f', f = f' + 1 := ⟨f - 1, by omega⟩
  have hcP : P c = true := hr c (by simp)
  rw [matchE.eq_8, charPE_step hc (s := run ++ s) hs hcP f (by omega)]
  simp only [skip_atomic]
  cases run with
  | nil =>
    rw [hc (p + 1) s (by simpa using hs.tail) f (by omega), hstop]
    rfl
  | cons c2 run =>
    simp only [List.length_cons] at hf
    have hc2 : P c2 = true := hr c2 (by simp)
    have hs1 : Suf text (p + 1) (c2 :: run ++ s) := hs.tail
    rw [charPE_step hc (s := run ++ s) hs1 hc2 f (by omega)]
    simp only
    obtain ⟨acc', h1, h2⟩ := run_rep hc run (p + 1 + 1) [[], []] f (fun x hx => hr x (by simp [hx]))
      hs1.tail hstop (by omega)
    rw [h1]
    simp only [h2, List.length_cons]
    simp; omega

theorem run_plus_fail (hc : CharPE text a P k) (hs : Suf text p s) (hstop : headIs P s = false) :
    Ev (envOf text) (k + 1) (.plus a) .atomic false p none := by
  intro f hf
  obtain ⟨f, rfl⟩ : ∃ f', f = f' + 1 := ⟨f - 1, by omega⟩
  rw [matchE.eq_8, hc p s hs f (by omega), hstop]
  rfl

theorem charPE_ev (hc : CharPE text a P k) {c : Nat} (hs : Suf text p (c :: s)) (hP : P c = true) :
    Ev (envOf text) k a .atomic false p (some (p + 1, [])) := by
  intro f hf
  rw [hc p _ hs f hf]
  simp [hP, clsF]

theorem charPE_ev_fail (hc : CharPE text a P k) (hs : Suf text p s) (hP : headIs P s = false) :
    Ev (envOf text) k a .atomic false p none := by
  intro f hf
  rw [hc p _ hs f hf, hP]
  rfl

end runs

/-! ### implicit whitespace -/

def NonBlank (c : Nat) : Prop := c ≠ 32 ∧ c ≠ 9 ∧ c ≠ 35

theorem g49 (text : List Nat) : (envOf text).g[49]? =
    some ⟨49, [87, 72, 73, 84, 69, 83, 80, 65, 67, 69], .silent, .alt (.str [32]) (.str [9])⟩ := rfl

theorem ws_none {c : Nat} (hs : Suf text p (c :: s)) (h1 : c ≠ 32) (h2 : c ≠ 9) (f : Nat) :
    callRule (envOf text) f 49 .nonAtomic false p = none := by
  cases f with
  | zero => rw [callRule.eq_1]
  | succ f =>
    rw [callRule_succ]
    simp only [callSpec, ANY, SOI, EOI, NEWLINE, ASCII_DIGIT, ASCII_BIN_DIGIT, ASCII_OCT_DIGIT, ASCII_HEX_DIGIT,
      ASCII_ALPHA, ASCII_ALPHANUMERIC, Nat.reduceEqDiff, if_false, g49]
    have hc : (decide (some 49 = (envOf text).ws) || decide (some 49 = (envOf text).comment)) = true := by
      simp [envOf]
    simp only [hc, if_true]
    cases f with
    | zero => rw [matchE.eq_1]
    | succ f =>
      rw [matchE.eq_5]
      cases f with
      | zero => rw [matchE.eq_1, matchE.eq_1]
      | succ f =>
        have e1 : List.isPrefixOf [32] (c :: s) = false := by
          have : (32 : Nat) ≠ c := fun h => h1 h.symm
          simp [List.isPrefixOf, this]
        have e2 : List.isPrefixOf [9] (c :: s) = false := by
          have : (9 : Nat) ≠ c := fun h => h2 h.symm
          simp [List.isPrefixOf, this]
        rw [str_eval hs, str_eval hs, e1, e2]
        rfl

theorem many_stop {c : Nat} (hs : Suf text p (c :: s)) (h1 : c ≠ 32) (h2 : c ≠ 9) (f : Nat) :
    many (envOf text) f 49 p = p := by
  cases f with
  | zero => rw [many.eq_1]
  | succ f => rw [many.eq_2, ws_none hs h1 h2]

theorem comment_none {c : Nat} (hs : Suf text p (c :: s)) (h1 : c ≠ 35) (f : Nat) :
    callRule (envOf text) f 50 .nonAtomic false p = none := by
  cases f with
  | zero => rw [callRule.eq_1]
  | succ f =>
    rw [callRule_succ]
    simp only [callSpec, ANY, SOI, EOI, NEWLINE, ASCII_DIGIT, ASCII_BIN_DIGIT, ASCII_OCT_DIGIT, ASCII_HEX_DIGIT,
      ASCII_ALPHA, ASCII_ALPHANUMERIC, Nat.reduceEqDiff, if_false, Layout.g50]
    have hc : (decide (some 50 = (envOf text).ws) || decide (some 50 = (envOf text).comment)) = true := by
      simp [envOf]
    simp only [hc, if_true]
    cases f with
    | zero => rw [matchE.eq_1]
    | succ f =>
      rw [matchE.eq_4]
      cases f with
      | zero => rw [matchE.eq_1]
      | succ f =>
        have e1 : List.isPrefixOf [35] (c :: s) = false := by
          have : (35 : Nat) ≠ c := fun h => h1 h.symm
          simp [List.isPrefixOf, this]
        rw [str_eval hs, e1]
        rfl

theorem skipC_stop {c : Nat} (hs : Suf text p (c :: s)) (h1 : c ≠ 35) (f : Nat) :
    skipC (envOf text) f 50 p = p := by
  cases f with
  | zero => rw [skipC.eq_1]
  | succ f => rw [skipC.eq_2, comment_none hs h1]

/-- the implicit whitespace over a run of blanks followed by neither a blank nor `#` -/
theorem skip_blanks {c : Nat} (B : List Nat) (hB : IsBlanks B) (hs : Suf text p (B ++ c :: s)) (hc : NonBlank c) :
    Sk (envOf text) (B.length + 30) .nonAtomic p (p + B.length) := by
  intro f hf
  obtain ⟨f, rfl⟩ : ∃ f', f = f' + 1 := ⟨f - 1, by omega⟩
  have hs2 : Suf text (p + B.length) (c :: s) := hs.app
  have hm : many (envOf text) f 49 p = p + B.length :=
    Layout.many_blanks B p hB hs (fun g _ => many_stop hs2 hc.1 hc.2.1 g) f (by omega)
  rw [skip.eq_2]
  simp only [show (Atom.nonAtomic != Atom.nonAtomic) = false from rfl, Bool.false_eq_true, if_false,
    show (envOf text).ws = some 49 from rfl, show (envOf text).comment = some 50 from rfl]
  rw [hm, skipC_stop hs2 hc.2.2]

/-- no implicit whitespace in front of something which is neither a blank nor `#` -/
theorem skip_none {c : Nat} (hs : Suf text p (c :: s)) (hc : NonBlank c) :
    Sk (envOf text) 30 .nonAtomic p p := by
  have := skip_blanks [] (fun _ h => by cases h) (by simpa using hs) hc
  simpa using this

/-- at the end of the input -/
theorem skip_eof (hs : Suf text p []) : Sk (envOf text) 10 .nonAtomic p p := by
  have hp : p = text.length := by simpa using hs.len
  subst hp
  exact fun f hf => (eof_facts text).1 f hf

end ExprText
end Asm
end EtkVerif
