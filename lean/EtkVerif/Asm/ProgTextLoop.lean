/-
Lines of a macro-free program in the real interpreter: NEWLINE over blank /
comment-only lines, one statement with its terminator, the statement loop of `inner`
(the generalisation of LayoutLoop.lean from plain instructions to every statement kind).
-/
import EtkVerif.Asm.ProgTextStmt
import EtkVerif.Asm.LayoutLoop
namespace EtkVerif
namespace Asm
namespace ProgText
open Pest Listing ExprText
open Layout

variable {text : List Nat}

/-! ### the start of a statement, or the end of input -/

inductive PStart : List Nat → Prop
  | eof : PStart []
  | ch (c : Nat) (t : List Nat) (h : StartS c) : PStart (c :: t)

theorem startS_facts {c : Nat} (h : StartS c) : NonBlank c ∧ c ≠ 10 ∧ c ≠ 13 := by
  rcases h with h | h
  · simp only [isAl, Bool.or_eq_true, Bool.and_eq_true, decide_eq_true_eq] at h
    refine ⟨⟨?_, ?_, ?_⟩, ?_, ?_⟩ <;> omega
  · subst h; simp [NonBlank]

theorem PStart.gapG {B s : List Nat} (hB : Layout.IsBlanks B) (h : PStart s) : GapG B s := by
  refine ⟨B, none, by simp [commentText], hB, (by intro b hb; cases hb), ?_⟩
  intro _ d t hd
  rw [hd] at h
  cases h with
  | ch _ _ hc => exact (startS_facts hc).1

/-- the implicit whitespace over the blanks in front of a statement (or of the end of input) -/
theorem skip_to_start {B s : List Nat} {p : Nat} (hB : Layout.IsBlanks B) (hst : PStart s)
    (hs : Suf text p (B ++ s)) : Sk (envOf text) (B.length + 100) .nonAtomic p (p + B.length) :=
  skip_gapG (hst.gapG hB) hs

theorem nl_fail' {p : Nat} {s : List Nat} (hs : Suf text p s) (h : PStart s) :
    Ev (envOf text) 20 (.ref 1003) .nonAtomic false p none := by
  cases h with
  | eof => exact Layout.nl_fail hs .eof
  | ch c t hc =>
    obtain ⟨_, h10, h13⟩ := startS_facts hc
    intro f hf
    obtain ⟨f, rfl⟩ : ∃ f', f = f' + 1 + 1 := ⟨f - 2, by omega⟩
    have e10 : (10 : Nat) ≠ c := fun h => h10 h.symm
    have e13 : (13 : Nat) ≠ c := fun h => h13 h.symm
    rw [matchE.eq_11, callRule_succ]
    simp only [callSpec, ANY, SOI, EOI, NEWLINE, Nat.reduceEqDiff, if_false, if_true, isPrefixAt_suf _ _ _ hs]
    simp [List.isPrefixOf, e10, e13]

/-! ### NEWLINE over blank lines -/

theorem nl_rep {Bf s : List Nat} (hBf : Layout.IsBlanks Bf) (hst : PStart s) :
    ∀ (bs : List BlankLine) (p : Nat) (acc : List (List Pair)) (f : Nat), (∀ b ∈ bs, b.WF) →
    Suf text p (bs.flatMap BlankLine.text ++ (Bf ++ s)) → 2 * text.length + 200 ≤ f + p →
    ∃ acc', rep (envOf text) f (.ref 1003) .nonAtomic false p acc =
        (p + (bs.flatMap BlankLine.text).length, acc') ∧
      acc'.reverse.flatten = acc.reverse.flatten
  | [], p, acc, f, _, hs, hf => by
    have hs : Suf text p (Bf ++ s) := by simpa using hs
    have hlen := hs.len
    simp only [List.length_append] at hlen
    obtain ⟨f, rfl⟩ : ∃ f', f = f' + 1 := ⟨f - 1, by omega⟩
    refine ⟨acc, ?_, rfl⟩
    have hsk := skip_to_start hBf hst hs f (by omega)
    have hs2 : Suf text (p + Bf.length) s := hs.app
    rw [rep.eq_2, hsk, nl_fail' hs2 hst f (by omega)]
    simp
  | b :: bs, p, acc, f, hwf, hs, hf => by
    have hb : b.WF := hwf b (by simp)
    have hs : Suf text p (b.blanks ++ commentText b.comment ++
        (newline b.crlf ++ (bs.flatMap BlankLine.text ++ (Bf ++ s)))) := by
      simpa [BlankLine.text, List.append_assoc] using hs
    have hlen := hs.len
    simp only [List.length_append] at hlen
    have hnl := newline_pos b.crlf
    obtain ⟨f, rfl⟩ : ∃ f', f = f' + 1 := ⟨f - 1, by omega⟩
    have hsk := skip_gap b.blanks b.comment p hb.1 hs
      (fun x hx => ⟨hb.2 x hx, lineEnd_newline _ _⟩) (lineEnd_newline _ _).tail f (by omega)
    have hs2 : Suf text (p + b.blanks.length + (commentText b.comment).length)
        (newline b.crlf ++ (bs.flatMap BlankLine.text ++ (Bf ++ s))) := by
      have := Suf.app (a := b.blanks ++ commentText b.comment) hs
      simpa [Nat.add_assoc] using this
    have hs3 := hs2.app
    obtain ⟨acc', h1, h2⟩ := nl_rep hBf hst bs _ ([] :: acc) f (fun x hx => hwf x (by simp [hx])) hs3 (by omega)
    refine ⟨acc', ?_, by simpa using h2⟩
    rw [rep.eq_2, hsk, nl_ok b.crlf hs2 f (by omega)]
    have hne : ¬ (p + b.blanks.length + (commentText b.comment).length + (newline b.crlf).length = p) := by omega
    simp only [hne, if_false]
    rw [h1]
    simp only [List.flatMap_cons, BlankLine.text, List.length_append]
    congr 1; omega

theorem plus_ok {Bf s : List Nat} (hBf : Layout.IsBlanks Bf) (hst : PStart s) (crlf : Bool) (more : List BlankLine)
    (hwf : ∀ b ∈ more, b.WF) {q : Nat}
    (hs : Suf text q (newline crlf ++ (more.flatMap BlankLine.text ++ (Bf ++ s)))) :
    ∃ P2 B2, Ev (envOf text) (2 * text.length + 210) (.plus (.ref 1003)) .nonAtomic false q (some (P2, [])) ∧
      Layout.IsBlanks B2 ∧ Suf text P2 (B2 ++ s) ∧ q < P2 := by
  have hnl := newline_pos crlf
  have hlen := hs.len
  simp only [List.length_append] at hlen
  have hs1 := hs.app
  cases more with
  | nil =>
    have hs1' : Suf text (q + (newline crlf).length) (Bf ++ s) := by simpa using hs1
    have hs2 : Suf text (q + (newline crlf).length + Bf.length) s := hs1'.app
    refine ⟨q + (newline crlf).length + Bf.length, [], ?_, IsBlanks.nil, by simpa using hs2, by omega⟩
    intro f hf
    obtain ⟨f, rfl⟩ : ∃ f', f = f' + 1 := ⟨f - 1, by omega⟩
    have hsk := skip_to_start hBf hst hs1' f
      (by simp only [List.flatMap_nil, List.length_nil] at hlen; omega)
    rw [matchE.eq_8, nl_ok crlf hs f (by omega)]
    simp only
    rw [hsk, nl_fail' hs2 hst f (by omega)]
  | cons b bs =>
    have hb : b.WF := hwf b (by simp)
    have hs1' : Suf text (q + (newline crlf).length) (b.blanks ++ commentText b.comment ++
        (newline b.crlf ++ (bs.flatMap BlankLine.text ++ (Bf ++ s)))) := by
      simpa [BlankLine.text, List.append_assoc] using hs1
    have hlen1 := hs1'.len
    simp only [List.length_append] at hlen1
    have hnl2 := newline_pos b.crlf
    have hs2 : Suf text (q + (newline crlf).length + b.blanks.length + (commentText b.comment).length)
        (newline b.crlf ++ (bs.flatMap BlankLine.text ++ (Bf ++ s))) := by
      have := Suf.app (a := b.blanks ++ commentText b.comment) hs1'
      simpa [Nat.add_assoc] using this
    have hs3 := hs2.app
    have hs4 : Suf text (q + (newline crlf).length + b.blanks.length + (commentText b.comment).length +
        (newline b.crlf).length + (bs.flatMap BlankLine.text).length) (Bf ++ s) := hs3.app
    refine ⟨_, Bf, ?_, hBf, hs4, by omega⟩
    intro f hf
    obtain ⟨f, rfl⟩ : ∃ f', f = f' + 1 := ⟨f - 1, by omega⟩
    have hsk := skip_gap b.blanks b.comment _ hb.1 hs1'
      (fun x hx => ⟨hb.2 x hx, lineEnd_newline _ _⟩) (lineEnd_newline _ _).tail f (by omega)
    obtain ⟨acc', h1, h2⟩ := nl_rep hBf hst bs _ [[], []] f (fun x hx => hwf x (by simp [hx])) hs3 (by omega)
    rw [matchE.eq_8, nl_ok crlf hs f (by omega)]
    simp only
    rw [hsk, nl_ok b.crlf hs2 f (by omega)]
    simp only
    rw [h1]
    simp [h2]

/-! ### one statement with its terminator -/

theorem item_closed {st : Stmt} {tm : Term} {Bn s : List Nat} {S : Nat} (hv : st.WF) (htm : tm.WF)
    (hcl : tm.isOpen = false) (hBn : Layout.IsBlanks Bn) (hst : PStart s)
    (hs : Suf text S (st.text ++ (tm.text ++ (Bn ++ s)))) :
    ∃ P2 B2 pr, Ev (envOf text) (10 * text.length + 500) lineE .nonAtomic false S (some (P2, [pr])) ∧
      Layout.IsBlanks B2 ∧ Suf text P2 (B2 ++ s) ∧ S < P2 ∧ NodeOK text pr st := by
  cases tm with
  | open_ t c => cases hcl
  | semi b a =>
    obtain ⟨hb, ha⟩ := htm
    have hs' : Suf text S (st.text ++ (b ++ commentText none ++ (59 :: (a ++ Bn ++ s)))) := by
      simpa [Term.text, commentText, List.append_assoc] using hs
    have hlen := hs'.len
    simp only [List.length_append, List.length_cons] at hlen
    have hg : Gap b none (59 :: (a ++ Bn ++ s)) := ⟨hb, (fun x h => by cases h), .semi _⟩
    obtain ⟨e, pr, h1, h2, hN⟩ := stmt_fact st hv S b none _ hs' hg
    have hs2 : Suf text (S + st.text.length + b.length + (commentText none).length)
        (59 :: (a ++ Bn ++ s)) := by
      have := Suf.app (a := b ++ commentText none) (hs'.app)
      simpa [Nat.add_assoc] using this
    have hs3 : Suf text (S + st.text.length + b.length + (commentText none).length + 1)
        ((a ++ Bn) ++ s) := by simpa using hs2.tail
    refine ⟨_, a ++ Bn, pr, ?_, ha.append hBn, hs3, by omega, hN⟩
    rw [lineE_eq]
    exact (Ev.seq (d := 10 * text.length + 480) h1 h2 (sep_semi hs2) (by omega) (by omega)).mono (by omega)
  | line t c crlf more =>
    obtain ⟨ht, hc, hmore⟩ := htm
    have hs' : Suf text S (st.text ++ (t ++ commentText c ++
        (newline crlf ++ (more.flatMap BlankLine.text ++ (Bn ++ s))))) := by
      simpa [Term.text, List.append_assoc] using hs
    have hlen := hs'.len
    simp only [List.length_append] at hlen
    have hg : Gap t c (newline crlf ++ (more.flatMap BlankLine.text ++ (Bn ++ s))) :=
      ⟨ht, fun x hx => ⟨hc x hx, lineEnd_newline _ _⟩, (lineEnd_newline _ _).stail⟩
    obtain ⟨e, pr, h1, h2, hN⟩ := stmt_fact st hv S t c _ hs' hg
    have hs2 : Suf text (S + st.text.length + t.length + (commentText c).length)
        (newline crlf ++ (more.flatMap BlankLine.text ++ (Bn ++ s))) := by
      have := Suf.app (a := t ++ commentText c) (hs'.app)
      simpa [Nat.add_assoc] using this
    obtain ⟨P2, B2, h3, hB2, hs3, hlt⟩ := plus_ok hBn hst crlf more hmore hs2
    refine ⟨P2, B2, pr, ?_, hB2, hs3, by omega, hN⟩
    rw [lineE_eq]
    exact (Ev.seq (d := 10 * text.length + 480) h1 h2 (Ev.alt_l (d := 2 * text.length + 210) (b := .str [59]) h3)
      (by omega) (by omega)).mono (by omega)

theorem item_open {st : Stmt} {t : List Nat} {c : Option (List Nat)} {S : Nat} (hv : st.WF)
    (ht : Layout.IsBlanks t) (hc : ∀ x, c = some x → IsCommentBody x)
    (hs : Suf text S (st.text ++ (t ++ commentText c))) :
    Ev (envOf text) (10 * text.length + 500) lineE .nonAtomic false S none ∧
    ∃ e pr, Ev (envOf text) (10 * text.length + 500) (.ref 2) .nonAtomic false S (some (e, [pr])) ∧
      Sk (envOf text) (10 * text.length + 500) .nonAtomic e text.length ∧ NodeOK text pr st := by
  have hs' : Suf text S (st.text ++ (t ++ commentText c ++ [])) := by simpa using hs
  have hlen := hs'.len
  simp only [List.length_append, List.length_nil] at hlen
  have hg : Gap t c [] := ⟨ht, fun x hx => ⟨hc x hx, .eof⟩, .eof⟩
  obtain ⟨e, pr, h1, h2, hN⟩ := stmt_fact st hv S t c _ hs' hg
  have hs2 : Suf text (S + st.text.length + t.length + (commentText c).length) [] := by
    have := Suf.app (a := t ++ commentText c) (hs'.app)
    simpa [Nat.add_assoc] using this
  have hNN : S + st.text.length + t.length + (commentText c).length = text.length := by
    have := hs2.len; simpa using this
  refine ⟨?_, e, pr, h1.mono (by omega), ?_, hN⟩
  · rw [lineE_eq]
    exact (Ev.seq_fail2 (d := 10 * text.length + 480) h1 h2 (sep_eof hs2) (by omega) (by omega)).mono (by omega)
  · rw [← hNN]; exact h2.mono (by omega)

/-! ### the statements of a program -/

def body (xs : List Item) : List Nat := xs.flatMap Item.text

def leadOf : List Item → List Nat
  | [] => []
  | x :: _ => x.lead

def core : List Item → List Nat
  | [] => []
  | x :: xs => x.stmt.text ++ (x.term.text ++ body xs)

theorem body_eq (xs : List Item) : body xs = leadOf xs ++ core xs := by
  cases xs with
  | nil => rfl
  | cons x xs => simp [body, leadOf, core, Item.text, List.append_assoc]

theorem core_cons (x : Item) (xs : List Item) :
    core (x :: xs) = x.stmt.text ++ (x.term.text ++ (leadOf xs ++ core xs)) := by
  show x.stmt.text ++ (x.term.text ++ body xs) = _
  rw [body_eq]

def ItemOK (x : Item) : Prop := Layout.IsBlanks x.lead ∧ x.stmt.WF ∧ x.term.WF

theorem leadOf_blanks {xs : List Item} (h : ∀ x ∈ xs, ItemOK x) : Layout.IsBlanks (leadOf xs) := by
  cases xs with
  | nil => exact IsBlanks.nil
  | cons x xs => exact (h x (by simp)).1

theorem core_start {xs : List Item} (h : ∀ x ∈ xs, ItemOK x) : PStart (core xs) := by
  cases xs with
  | nil => exact .eof
  | cons x xs =>
    obtain ⟨c, t, ht, hc⟩ := stmt_start x.stmt (h x (by simp)).2.1
    have : core (x :: xs) = c :: (t ++ (x.term.text ++ body xs)) := by simp [core, ht]
    rw [this]
    exact .ch c _ hc

/-- the pairs of the statements yield the statements' nodes -/
inductive Goods (text : List Nat) : List Pair → List Item → Prop
  | nil : Goods text [] []
  | cons {p : Pair} {x : Item} {ps : List Pair} {xs : List Item}
      (h : NodeOK text p x.stmt) (t : Goods text ps xs) : Goods text (p :: ps) (x :: xs)

theorem Goods.append {ps1 ps2 : List Pair} {xs1 xs2 : List Item} (h1 : Goods text ps1 xs1)
    (h2 : Goods text ps2 xs2) : Goods text (ps1 ++ ps2) (xs1 ++ xs2) := by
  induction h1 with
  | nil => exact h2
  | cons h _ ih => exact .cons h ih

theorem main_rep (os : List Item) (hos : ∀ x ∈ os, ItemOK x)
    (hstop : ∀ Q, Suf text Q (core os) → Ev (envOf text) (10 * text.length + 500) lineE .nonAtomic false Q none) :
    ∀ (cs : List Item) (P : Nat) (B : List Nat) (acc : List (List Pair)) (f : Nat),
    (∀ x ∈ cs, ItemOK x ∧ x.term.isOpen = false) → Layout.IsBlanks B → Suf text P (B ++ core (cs ++ os)) →
    11 * text.length + 700 ≤ f + P →
    ∃ P' B' acc' ps, rep (envOf text) f lineE .nonAtomic false P acc = (P', acc') ∧ Layout.IsBlanks B' ∧
      Suf text P' (B' ++ core os) ∧ acc'.reverse.flatten = acc.reverse.flatten ++ ps ∧ Goods text ps cs
  | [], P, B, acc, f, _, hB, hs, hf => by
    have hs : Suf text P (B ++ core os) := by simpa using hs
    have hlen := hs.len
    simp only [List.length_append] at hlen
    obtain ⟨f, rfl⟩ : ∃ f', f = f' + 1 := ⟨f - 1, by omega⟩
    have hsk := skip_to_start hB (core_start hos) hs f (by omega)
    have hs2 : Suf text (P + B.length) (core os) := hs.app
    refine ⟨P, B, acc, [], ?_, hB, hs, by simp, .nil⟩
    rw [rep.eq_2, hsk, hstop _ hs2 f (by omega)]
  | x :: cs, P, B, acc, f, hcs, hB, hs, hf => by
    have hx := hcs x (by simp)
    have hall : ∀ y ∈ cs ++ os, ItemOK y := by
      intro y hy
      rcases List.mem_append.mp hy with h | h
      · exact (hcs y (by simp [h])).1
      · exact hos y h
    have hall' : ∀ y ∈ (x :: cs) ++ os, ItemOK y := by
      intro y hy
      rcases (by simpa using hy : y = x ∨ y ∈ cs ∨ y ∈ os) with h | h
      · rw [h]; exact hx.1
      · exact hall y (by simpa using h)
    have hlen := hs.len
    simp only [List.length_append] at hlen
    obtain ⟨f, rfl⟩ : ∃ f', f = f' + 1 := ⟨f - 1, by omega⟩
    have hsk := skip_to_start hB (core_start hall') hs f (by omega)
    have hs2 : Suf text (P + B.length) (x.stmt.text ++ (x.term.text ++ (leadOf (cs ++ os) ++ core (cs ++ os)))) := by
      have := Suf.app (a := B) hs
      rwa [List.cons_append, core_cons] at this
    obtain ⟨P2, B2, pr, h1, hB2, hs3, hlt, hN⟩ := item_closed hx.1.2.1 hx.1.2.2 hx.2 (leadOf_blanks hall)
      (core_start hall) hs2
    obtain ⟨P', B', acc', ps, h2, hB', hs4, h3, h4⟩ :=
      main_rep os hos hstop cs P2 B2 ([pr] :: acc) f
        (fun y hy => hcs y (by simp [hy])) hB2 hs3 (by omega)
    refine ⟨P', B', acc', pr :: ps, ?_, hB', hs4, by simp [h3], .cons hN h4⟩
    rw [rep.eq_2, hsk, h1 f (by omega)]
    have hne : ¬ (P2 = P) := by omega
    simp only [hne, if_false]
    exact h2

theorem main_star (os : List Item) (hos : ∀ x ∈ os, ItemOK x)
    (hstop : ∀ Q, Suf text Q (core os) → Ev (envOf text) (10 * text.length + 500) lineE .nonAtomic false Q none)
    (cs : List Item) (S0 : Nat) (hcs : ∀ x ∈ cs, ItemOK x ∧ x.term.isOpen = false)
    (hs : Suf text S0 (core (cs ++ os))) (f : Nat) (hf : 11 * text.length + 800 ≤ f) :
    ∃ P' B' ps, matchE (envOf text) f (.star lineE) .nonAtomic false S0 = some (P', ps) ∧ Layout.IsBlanks B' ∧
      Suf text P' (B' ++ core os) ∧ Goods text ps cs := by
  obtain ⟨f, rfl⟩ : ∃ f', f = f' + 1 := ⟨f - 1, by omega⟩
  cases cs with
  | nil =>
    refine ⟨S0, [], [], ?_, IsBlanks.nil, by simpa using hs, .nil⟩
    rw [matchE.eq_7, hstop S0 (by simpa using hs) f (by omega)]
  | cons x cs =>
    have hx := hcs x (by simp)
    have hall : ∀ y ∈ cs ++ os, ItemOK y := by
      intro y hy
      rcases List.mem_append.mp hy with h | h
      · exact (hcs y (by simp [h])).1
      · exact hos y h
    have hs2 : Suf text S0 (x.stmt.text ++ (x.term.text ++ (leadOf (cs ++ os) ++ core (cs ++ os)))) := by
      rwa [List.cons_append, core_cons] at hs
    obtain ⟨P2, B2, pr, h1, hB2, hs3, hlt, hN⟩ := item_closed hx.1.2.1 hx.1.2.2 hx.2 (leadOf_blanks hall)
      (core_start hall) hs2
    obtain ⟨P', B', acc', ps, h2, hB', hs4, h3, h4⟩ :=
      main_rep os hos hstop cs P2 B2 [[pr]] f
        (fun y hy => hcs y (by simp [hy])) hB2 hs3 (by omega)
    refine ⟨P', B', pr :: ps, ?_, hB', hs4, .cons hN h4⟩
    rw [matchE.eq_7, h1 f (by omega)]
    simp only
    rw [h2]
    simp [h3]

end ProgText
end Asm
end EtkVerif
