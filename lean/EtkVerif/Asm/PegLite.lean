/-
A plain PEG matcher for the atomic, repetition-free fragment of the generated
grammar (string literals, character ranges, sequence, ordered choice, rule
references) over a list of code points.  It reduces well in the kernel, which is
what the table theorem of C03 needs: the ordered choice of mnemonics in the
grammar's `op` rule, run on a mnemonic of the opcode table, consumes exactly
that mnemonic.
-/
import EtkVerif.Asm.PestTypes
namespace EtkVerif
namespace Pest

def stripPrefix : List Nat → List Nat → Option (List Nat)
  | [], inp => some inp
  | _ :: _, [] => none
  | c :: cs, d :: ds => if c = d then stripPrefix cs ds else none

/-- match `e` at the start of `inp`: the remaining input, or `none`.  Ordered
choice backtracks to the next alternative when one fails; a sequence does not
revisit choices made inside its first part. -/
def peg (g : List Rule) : Nat → PE → List Nat → Option (List Nat)
  | 0, _, _ => none
  | fuel + 1, e, inp =>
    match e with
    | .str s => stripPrefix s inp
    | .range lo hi => match inp with
      | c :: rest => if lo ≤ c ∧ c ≤ hi then some rest else none
      | [] => none
    | .seq a b => match peg g fuel a inp with
      | some rest => peg g fuel b rest
      | none => none
    | .alt a b => match peg g fuel a inp with
      | some rest => some rest
      | none => peg g fuel b inp
    | .ref n => match g[n]? with
      | some r => peg g fuel r.body inp
      | none => none
    | _ => none

end Pest
end EtkVerif
