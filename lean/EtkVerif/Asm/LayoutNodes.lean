/-
`parse_asm`'s walk over the pairs of a decorated text: each statement's pair sits on the
statement's own text, whatever surrounds it, and yields the instruction's node.
-/
import EtkVerif.Asm.ListingNodes
import EtkVerif.Asm.LayoutLoop
namespace EtkVerif
namespace Asm
namespace Layout
open Pest Listing

theorem parseAOp_op' (pre post : List Nat) (i : Disasm.Instr) (hv : Valid i) (f g : Nat)
    (he : i.imm.isEmpty = true) :
    parseAOp (pre ++ stmtText i ++ post).toArray (f + 1) (pairG pre.length g i) = .ok (.op i.op none) := by
  have he0 := (isEmpty_iff_extra hv).mp he
  have hp := row_noimm hv.1 hv.2.1 he0
  have ht : txt (pre ++ stmtText i ++ post).toArray
      (.mk Gen.R_op pre.length (pre.length + (mnemOf i).length) []) = mnemOf i := by
    apply txt_decomp _ pre (mnemOf i) post _ _ _ _ _ rfl rfl
    simp [stmtText, he]
  simp only [pairG, he, if_true]
  rw [parseAOp]
  simp only [Pair.rule, ht]
  simp only [Gen.R_op, Gen.R_local_macro, Gen.R_label_definition, Gen.R_push]
  simp only [mnemOf, hp]
  simp

theorem parseExpr_hex' (inp : Array Nat) (f : Nat) (a b b' : Nat) (imm : List Nat)
    (ht : txt inp (.mk Gen.R_hex a b []) = 48 :: 120 :: hexOf imm)
    (hne : imm ≠ []) (hb : ∀ c ∈ imm, c < 256) :
    parseExpr inp (f + 2) (.mk Gen.R_expression a b' [.mk Gen.R_hex a b []])
      = .ok (.num (Int.ofNat (beNat imm))) := by
  have h1 : parseExpr inp (f + 1) (.mk Gen.R_hex a b []) = .ok (.num (Int.ofNat (beNat imm))) := by
    rw [parseExpr]
    simp only [Pair.rule, ht, List.drop_succ_cons, List.drop_zero, parseRadix_hexOf imm hne hb]
    simp [Gen.R_hex, Gen.R_expression, Gen.R_binary, Gen.R_octal, Except.map]
  rw [parseExpr]
  simp only [Pair.rule, Pair.kids, h1, if_true, parseTail]
  simp [climb, climbRec]

theorem parseAOp_push' (pre post : List Nat) (i : Disasm.Instr) (hv : Valid i) (f g : Nat)
    (he : i.imm.isEmpty = false) :
    parseAOp (pre ++ stmtText i ++ post).toArray (f + 3) (pairG pre.length g i)
      = .ok (.op i.op (some (.num (Int.ofNat (beNat i.imm))))) := by
  have he0 : (Ops.rowOf Gen.cancun i.op).extra ≠ 0 := by
    intro h; rw [(isEmpty_iff_extra hv).mpr h] at he; cases he
  obtain ⟨hcode, h1, h32, hm4, hsz⟩ := row_push hv.1 hv.2.1 he0
  have hne : i.imm ≠ [] := by intro h; rw [h] at he; cases he
  have hlen := hv.2.2.1
  have hline : stmtText i = mnemOf i ++ ([32, 48, 120] ++ hexOf i.imm) := by simp [stmtText, he]
  have hm4' : 4 ≤ (mnemOf i).length := hm4
  have htsz : txt (pre ++ stmtText i ++ post).toArray
      (.mk Gen.R_word_size (pre.length + 4) (pre.length + (mnemOf i).length) [])
        = (mnemOf i).drop 4 := by
    apply txt_decomp _ (pre ++ (mnemOf i).take 4) ((mnemOf i).drop 4)
      ([32, 48, 120] ++ hexOf i.imm ++ post)
    · rw [hline]
      conv => lhs; rw [← List.take_append_drop 4 (mnemOf i)]
      simp only [List.append_assoc]
    · simp [List.length_take, Nat.min_eq_left hm4']
    · simp only [List.length_drop]; omega
  have hthex : txt (pre ++ stmtText i ++ post).toArray
      (.mk Gen.R_hex (pre.length + (mnemOf i).length + 1)
        (pre.length + (mnemOf i).length + 3 + 2 * i.imm.length) [])
        = 48 :: 120 :: hexOf i.imm := by
    apply txt_decomp _ (pre ++ mnemOf i ++ [32]) (48 :: 120 :: hexOf i.imm) post
    · rw [hline]; simp only [List.append_assoc, List.cons_append, List.nil_append]
    · simp only [List.length_append, List.length_cons, List.length_nil]
    · simp only [List.length_cons, length_hexOf]; omega
  have hexpr := parseExpr_hex' (pre ++ stmtText i ++ post).toArray f _ _
    (pre.length + (mnemOf i).length + 3 + 2 * i.imm.length + g) i.imm hthex hne hv.2.2.2
  simp only [pairG, he, Bool.false_eq_true, if_false]
  rw [parseAOp]
  simp only [Pair.rule]
  simp only [Gen.R_local_macro, Gen.R_label_definition, Gen.R_push]
  simp only [Nat.reduceEqDiff, if_false, if_true]
  simp only [parsePush, Pair.kids, htsz]
  have hsz' : parseRadix ((mnemOf i).drop 4) 10 = .ok (Int.ofNat (Ops.rowOf Gen.cancun i.op).extra) := hsz
  simp only [hsz', hexpr, evalClosed]
  have htn : ∀ n : Nat, (Int.ofNat n).toNat = n := fun _ => rfl
  simp only [htn]
  have hrange : ¬ (Int.ofNat (beNat i.imm) ≥ (2 : Int) ^ (8 * (Ops.rowOf Gen.cancun i.op).extra)) := by
    have hlt := beNat_lt i.imm hv.2.2.2
    rw [hlen] at hlt
    have : (256 : Nat) ^ (Ops.rowOf Gen.cancun i.op).extra = 2 ^ (8 * (Ops.rowOf Gen.cancun i.op).extra) := by
      rw [Nat.pow_mul]
    rw [this] at hlt
    have h2 : ((2 : Int) ^ (8 * (Ops.rowOf Gen.cancun i.op).extra)) = ((2 ^ (8 * (Ops.rowOf Gen.cancun i.op).extra) : Nat) : Int) := by
      rw [Int.natCast_pow]; rfl
    rw [h2]
    show ¬ (((2 ^ (8 * (Ops.rowOf Gen.cancun i.op).extra) : Nat) : Int) ≤ ((beNat i.imm : Nat) : Int))
    rw [Int.ofNat_le]
    omega
  have hsize : ¬ ((Ops.rowOf Gen.cancun i.op).extra < 1 ∨ (Ops.rowOf Gen.cancun i.op).extra > 32) := by omega
  simp only [hsize, hrange, if_false, hcode]

theorem parseAOp_pairG (pre post : List Nat) (i : Disasm.Instr) (hv : Valid i) (f g : Nat) :
    (parseAOp (pre ++ stmtText i ++ post).toArray (f + 3) (pairG pre.length g i)).map Node.op
      = .ok (nodeOf i) := by
  cases he : i.imm.isEmpty with
  | true => rw [parseAOp_op' pre post i hv (f + 2) g he]; simp [nodeOf, he, Except.map]
  | false => rw [parseAOp_push' pre post i hv f g he]; simp [nodeOf, he, Except.map]

theorem pairG_rule (p g : Nat) (i : Disasm.Instr) :
    (pairG p g i).rule ≠ Pest.EOI ∧ (pairG p g i).rule ≠ Gen.R_builtin := by
  unfold pairG
  cases i.imm.isEmpty <;> simp [Pair.rule, Gen.R_op, Gen.R_push, Pest.EOI, Gen.R_builtin]

theorem go_goods {text : List Nat} {ps : List Pair} {items : List Item} (hg : Goods text ps items)
    (hv : ∀ x ∈ items, Valid x.ins) (f n : Nat) :
    parseAsm.go text.toArray (f + 3) (ps ++ [.mk Pest.EOI n n []])
      = .ok (items.map (fun x => nodeOf x.ins)) := by
  induction hg with
  | nil => simp [parseAsm.go, Pair.rule]
  | @cons p x ps xs h _ ih =>
    obtain ⟨pre, post, g, h1, h2⟩ := h
    have hx : Valid x.ins := hv x (by simp)
    have ih' := ih (fun y hy => hv y (by simp [hy]))
    have hp := parseAOp_pairG pre post x.ins hx f g
    rw [← h1, ← h2] at hp
    obtain ⟨hr1, hr2⟩ := pairG_rule pre.length g x.ins
    rw [← h2] at hr1 hr2
    simp only [List.cons_append, List.map_cons]
    rw [parseAsm.go]
    simp only [hr1, hr2, if_false, hp, ih']

end Layout
end Asm
end EtkVerif
