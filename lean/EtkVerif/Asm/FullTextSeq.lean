/-
The rule `expression` on the text of an X-sequence: by mutual structural induction on
terms / sequences / tails / argument lists, the real pest interpreter returns exactly the
pair tree `xseqPair` (calls `name gap ( args )` included).
-/
import EtkVerif.Asm.FullTextTerm
namespace EtkVerif
namespace Asm
namespace FullText
open Pest Listing ExprText
open Layout (Suf)

variable {text : List Nat}

/-! ### where an argument ends: `expression` fails on `)` and on `,` -/

theorem xwin_ok :
    (resFail (matchK (ekOf [single 41] false) 40 (.ref 41) .nonAtomic false 0) &&
     resFail (matchK (ekOf [single 44] false) 40 (.ref 41) .nonAtomic false 0)) = true := by
  decide +kernel

theorem expr_fail_close {q d : Nat} {t : List Nat} (hs : Suf text q (d :: t)) (hd : d = 41 ∨ d = 44) :
    Ev (envOf text) 40 (.ref 41) .nonAtomic false q none := by
  have h := xwin_ok
  simp only [Bool.and_eq_true] at h
  rcases hd with rfl | rfl
  · have hA := hs.agree (s1 := [41]) (s2 := t) (cs := [single 41]) (closed := false) ⟨single_mem 41, trivial⟩
      (fun h => by cases h)
    simpa using Ev.of_window hA (resFail_eq h.1)
  · have hA := hs.agree (s1 := [44]) (s2 := t) (cs := [single 44]) (closed := false) ⟨single_mem 44, trivial⟩
      (fun h => by cases h)
    simpa using Ev.of_window hA (resFail_eq h.2)

/-! ### what follows a tail -/

theorem xrest_after (rest : XRest) (h : rest.WF) (G rest0 : List Nat) (hG : GapG G rest0) (hC : XCloseC rest0) :
    XAfter (rest.render ++ (G ++ rest0)) := by
  cases rest with
  | nil => exact ⟨G, rest0, by simp only [XRest.render]; rfl, hG, hC.endC⟩
  | cons l op r t rest' =>
    simp only [XRest.WF] at h
    have hop : StopD (opChar op) := by cases op <;> simp [opChar, StopD]
    refine ⟨l, opChar op :: (r ++ t.render ++ rest'.render ++ (G ++ rest0)), ?_,
      gapG_blanks h.1 (stopD_nonBlank hop), ?_⟩
    · simp only [XRest.render]; simp
    · intro d t' hd
      injection hd with hd _
      rw [← hd]; exact Or.inl (Or.inl hop)

theorem xcloseC_paren (post : List Nat) : XCloseC (41 :: post) := by
  intro d t hd
  injection hd with hd _
  exact Or.inl hd.symm

theorem xcloseC_comma (post : List Nat) : XCloseC (44 :: post) := by
  intro d t hd
  injection hd with hd _
  exact Or.inr (Or.inl hd.symm)

/-- `operation` fails where a sequence ends -/
theorem xop_fail {q : Nat} {s : List Nat} (hs : Suf text q s) (hC : XCloseC s) :
    Ev (envOf text) 10 (.ref 44) .nonAtomic false q none := by
  have hne : ∀ x, x = 43 ∨ x = 45 ∨ x = 42 ∨ x = 47 → List.isPrefixOf [x] s = false := by
    intro x hx
    cases s with
    | nil => simp
    | cons d t =>
      have : x ≠ d := by
        rcases hC d t rfl with h | h | h | h | h <;> rcases hx with h' | h' | h' | h' <;> omega
      simp [List.isPrefixOf, this]
  have f45 : Ev (envOf text) 3 (.ref 45) .nonAtomic false q none :=
    evr (gr45 text) (by omega) (ev_str_fail hs (hne 43 (by simp))) (d := 1)
  have f46 : Ev (envOf text) 3 (.ref 46) .nonAtomic false q none :=
    evr (gr46 text) (by omega) (ev_str_fail hs (hne 45 (by simp))) (d := 1)
  have f47 : Ev (envOf text) 3 (.ref 47) .nonAtomic false q none :=
    evr (gr47 text) (by omega) (ev_str_fail hs (hne 42 (by simp))) (d := 1)
  have f48 : Ev (envOf text) 3 (.ref 48) .nonAtomic false q none :=
    evr (gr48 text) (by omega) (ev_str_fail hs (hne 47 (by simp))) (d := 1)
  exact (evr (gr44 text) (by omega) (Ev.alt_r (Ev.alt_r (Ev.alt_r f45 f46 (d := 3)) f47 (d := 4)) f48 (d := 5))
    (d := 6) (at_ := .nonAtomic)).mono (by omega)

theorem xopterm_fail {q : Nat} {s : List Nat} (hs : Suf text q s) (hC : XCloseC s) :
    Ev (envOf text) 31 opterm .nonAtomic false q none :=
  Ev.seq_fail1 (xop_fail hs hC)

/-- one `blanks operator blanks term` step, the term's own evaluation being given -/
theorem xiter_ok (l : List Nat) (op : BinOp) (r : List Nat) (t : XTerm) (X : List Nat) (p : Nat)
    (hl : IsBlanks l) (hr : IsBlanks r) (hwt : t.WF)
    (hs : Suf text p (l ++ opChar op :: (r ++ (t.render ++ X))))
    (hT : ∀ q, Suf text q (t.render ++ X) → Ev (envOf text) (12 * (text.length - q) + 200) (.ref 42) .nonAtomic false q
      (some (q + t.render.length, [xtermPair q t]))) :
    Sk (envOf text) (l.length + 30) .nonAtomic p (p + l.length) ∧
    Ev (envOf text) (12 * (text.length - (p + l.length + 1)) + 201) opterm .nonAtomic false (p + l.length)
      (some (p + l.length + 1 + r.length + t.render.length,
        [.mk (opRule op) (p + l.length) (p + l.length + 1) [], xtermPair (p + l.length + 1 + r.length) t])) ∧
    Suf text (p + l.length + 1 + r.length + t.render.length) X ∧
    p + l.length + 1 + r.length + t.render.length + X.length = text.length ∧ 1 ≤ t.render.length := by
  obtain ⟨c, tr, htr, hc⟩ := xterm_start t hwt
  have hopnb : NonBlank (opChar op) := by cases op <;> simp [opChar, NonBlank]
  have hsk := skip_blanks l hl hs hopnb
  have hs1 : Suf text (p + l.length) (opChar op :: (r ++ (t.render ++ X))) := hs.app
  have hs3 : Suf text (p + l.length + 1 + r.length) (t.render ++ X) := hs1.tail.app
  have hs4 : Suf text (p + l.length + 1 + r.length + t.render.length) X := hs3.app
  have hlen3 := hs3.len
  have hlen4 := hs4.len
  rw [List.length_append] at hlen3
  have hI := opterm_ok op htr hs1 hr (xstartC_nonBlank hc) (hT _ hs3)
    (d := 12 * (text.length - (p + l.length + 1)) + 200) (by omega) (by omega)
  refine ⟨hsk, hI, hs4, hlen4, ?_⟩
  rw [htr]; simp

/-! ### `function_invocation` from the facts about its argument list -/

/-- `"," ~ expression` -/
def xcomma : PE := .seq (.str [44]) (.ref 41)

/-- `(expression ~ ("," ~ expression)*)?` -/
def argsOpt : PE := .opt (.seq (.ref 41) (.star xcomma))

/-- the optional argument list of `function_invocation` on an argument list that starts at `P0` (just after `(`) -/
def ArgsFact (text : List Nat) (as : XArgs) : Prop :=
  ∀ P0 post, Suf text P0 (as.render ++ 41 :: post) →
    ∃ q1 e1 k,
      Sk (envOf text) (text.length - P0 + 100) .nonAtomic P0 q1 ∧
      Ev (envOf text) (12 * (text.length - P0) + 206) argsOpt .nonAtomic false q1 (some (e1, k)) ∧
      Sk (envOf text) (text.length - P0 + 100) .nonAtomic e1 (P0 + as.render.length) ∧
      k = xargsKids P0 as

def invBody : PE :=
  .seq (.seq (.seq (.ref 32) (.str [40])) argsOpt) (.str [41])

theorem xgr31 (text : List Nat) : (envOf text).g[31]? =
    some ⟨31, [102, 117, 110, 99, 116, 105, 111, 110, 95, 105, 110, 118, 111, 99, 97, 116, 105, 111, 110], .silent,
      invBody⟩ := rfl

/-- `function_invocation` on `name gap ( args )` -/
theorem inv31_of (n g : List Nat) (as : XArgs) (post : List Nat) (p : Nat) (hn : IsFnName n) (hg : IsBlanks g)
    (hA : ArgsFact text as) (hs : Suf text p (n ++ (g ++ 40 :: (as.render ++ 41 :: post)))) :
    Ev (envOf text) (12 * (text.length - p) + 187) (.ref 31) .nonAtomic false p
      (some (p + n.length + g.length + 1 + as.render.length + 1,
        .mk 32 p (p + n.length) [] :: xargsKids (p + n.length + g.length + 1) as)) := by
  obtain ⟨c, run, rfl, hc, hr⟩ := isFnName_split hn
  have hs' : Suf text p (c :: (run ++ (g ++ 40 :: (as.render ++ 41 :: post)))) := hs
  have hstop : headIs isLb (g ++ 40 :: (as.render ++ 41 :: post)) = false := by
    cases g with
    | nil => rfl
    | cons g0 gs => rcases hg g0 (by simp) with h | h <;> subst h <;> rfl
  have h32 : Ev (envOf text) (run.length + 9) (.ref 32) .nonAtomic false p
      (some (p + 1 + run.length, [.mk 32 p (p + 1 + run.length) []])) := xev32 .nonAtomic hs' hc hr hstop
  have hs1 : Suf text (p + 1 + run.length) (g ++ 40 :: (as.render ++ 41 :: post)) := hs'.tail.app
  have hskg := skip_blanks g hg hs1 (by simp [NonBlank])
  have hs2 : Suf text (p + 1 + run.length + g.length) (40 :: (as.render ++ 41 :: post)) := hs1.app
  have h40 : Ev (envOf text) 1 (.str [40]) .nonAtomic false (p + 1 + run.length + g.length)
      (some (p + 1 + run.length + g.length + 1, [])) := ev_str_ok (pat := [40]) (s := as.render ++ 41 :: post) hs2
  have hs3 : Suf text (p + 1 + run.length + g.length + 1) (as.render ++ 41 :: post) := hs2.tail
  have hlen3 := hs3.len
  simp only [List.length_append, List.length_cons] at hlen3
  obtain ⟨q1, e1, k1, hk1, hopt, hk3, hkk⟩ := hA _ post hs3
  have hs4 : Suf text (p + 1 + run.length + g.length + 1 + as.render.length) (41 :: post) := hs3.app
  have h41 : Ev (envOf text) 1 (.str [41]) .nonAtomic false (p + 1 + run.length + g.length + 1 + as.render.length)
      (some (p + 1 + run.length + g.length + 1 + as.render.length + 1, [])) :=
    ev_str_ok (pat := [41]) (s := post) hs4
  have hbody : Ev (envOf text) (12 * (text.length - p) + 185) invBody .nonAtomic false p
      (some (p + 1 + run.length + g.length + 1 + as.render.length + 1,
        [.mk 32 p (p + 1 + run.length) []] ++ [] ++ k1 ++ [])) :=
    Ev.seq (Ev.seq (Ev.seq h32 hskg h40 (d := 12 * (text.length - p) + 181)) hk1 hopt
      (d := 12 * (text.length - p) + 183)) hk3 h41
      (d := 12 * (text.length - p) + 184)
  have h := evr (xgr31 text) (by omega) hbody (d := 12 * (text.length - p) + 185) (at_ := .nonAtomic)
  have e1' : p + 1 + run.length + g.length + 1 + as.render.length + 1 =
      p + (c :: run).length + g.length + 1 + as.render.length + 1 := by
    simp only [List.length_cons]; omega
  have e2' : p + 1 + run.length = p + (c :: run).length := by simp only [List.length_cons]; omega
  have e3' : p + 1 + run.length + g.length + 1 = p + (c :: run).length + g.length + 1 := by
    simp only [List.length_cons]; omega
  have ek : [Pair.mk 32 p (p + 1 + run.length) []] ++ [] ++ k1 ++ [] =
      .mk 32 p (p + (c :: run).length) [] :: xargsKids (p + (c :: run).length + g.length + 1) as := by
    rw [← e3', ← hkk, e2']; simp
  rw [e1', ek] at h
  exact h

/-- the text after the `(` of a call does not start with `"` -/
theorem args_head_ne34 (as : XArgs) (h : as.WF) (post : List Nat) : ∀ t, as.render ++ 41 :: post ≠ 34 :: t := by
  intro t ht
  cases as with
  | none g =>
    simp only [XArgs.render, XArgs.WF] at ht h
    cases g with
    | nil => simp at ht
    | cons g0 gs =>
      simp only [List.cons_append] at ht
      injection ht with h1 _
      rcases h g0 (by simp) with h' | h' <;> omega
  | some l s r more =>
    simp only [XArgs.render, XArgs.WF] at ht h
    cases l with
    | nil =>
      obtain ⟨c, sr, hsr, hc⟩ := xseq_start s h.2.1
      rw [hsr] at ht
      simp only [List.nil_append, List.cons_append, List.append_assoc] at ht
      injection ht with h1 _
      exact (xstartC_ne hc).1 h1
    | cons l0 ls =>
      simp only [List.cons_append, List.append_assoc] at ht
      injection ht with h1 _
      rcases h.1 l0 (by simp) with h' | h' <;> omega

/-! ### one further argument `, blanks sequence blanks` -/

theorem more_head (more : XMore) (post : List Nat) :
    ∃ d tl, more.render ++ 41 :: post = d :: tl ∧ (d = 41 ∨ d = 44) := by
  cases more with
  | nil => exact ⟨41, post, by simp [XMore.render], Or.inl rfl⟩
  | cons l' s' r' m' =>
    exact ⟨44, _, by simp only [XMore.render, List.cons_append, List.nil_append, List.append_assoc]; rfl, Or.inr rfl⟩

theorem more_closeC (more : XMore) (post : List Nat) : XCloseC (more.render ++ 41 :: post) := by
  obtain ⟨d, tl, hd, hd2⟩ := more_head more post
  rw [hd]
  rcases hd2 with rfl | rfl
  · exact xcloseC_paren _
  · exact xcloseC_comma _

theorem more_gapG (more : XMore) (post : List Nat) {r : List Nat} (hr : IsBlanks r) :
    GapG r (more.render ++ 41 :: post) := by
  obtain ⟨d, tl, hd, hd2⟩ := more_head more post
  rw [hd]
  exact gapG_blanks hr (by rcases hd2 with rfl | rfl <;> simp [NonBlank])

/-- the position where the loop over the further arguments stops: the end of the last expression pair -/
def xrepEnd : XMore → Nat → Nat → Nat
  | .nil, e, _ => e
  | .cons l s r more', _, Q =>
    xrepEnd more' (xseqEnd (Q + 1 + l.length) s r.length) (Q + 1 + l.length + s.render.length + r.length)

theorem xcomma_step (l : List Nat) (s : XSeq) (r : List Nat) (more' : XMore) (Q : Nat) (post : List Nat)
    (hl : IsBlanks l) (hws : s.WF) (hr : IsBlanks r)
    (hs : Suf text Q ((XMore.cons l s r more').render ++ 41 :: post))
    (hS : ∀ p B post', GapG B post' → XCloseC post' → Suf text p (s.render ++ (B ++ post')) →
      Ev (envOf text) (12 * (text.length - p) + 204) (.ref 41) .nonAtomic false p
        (some (xseqEnd p s B.length, [xseqPair p s B.length])) ∧
      Sk (envOf text) (text.length - xseqEnd p s B.length + 100) .nonAtomic (xseqEnd p s B.length)
        (p + s.render.length + B.length)) :
    Ev (envOf text) (12 * (text.length - (Q + 1)) + 205) xcomma .nonAtomic false Q
      (some (xseqEnd (Q + 1 + l.length) s r.length, [xseqPair (Q + 1 + l.length) s r.length])) ∧
    Sk (envOf text) (text.length - xseqEnd (Q + 1 + l.length) s r.length + 100) .nonAtomic
      (xseqEnd (Q + 1 + l.length) s r.length) (Q + 1 + l.length + s.render.length + r.length) ∧
    Suf text (Q + 1 + l.length + s.render.length + r.length) (more'.render ++ 41 :: post) ∧
    xseqEnd (Q + 1 + l.length) s r.length ≤ Q + 1 + l.length + s.render.length + r.length ∧
    Q < xseqEnd (Q + 1 + l.length) s r.length := by
  have hs' : Suf text Q (44 :: (l ++ (s.render ++ (r ++ (more'.render ++ 41 :: post))))) := by
    have := hs
    simp only [XMore.render, List.append_assoc, List.cons_append, List.nil_append] at this
    exact this
  have hlen := hs'.len
  simp only [List.length_append, List.length_cons] at hlen
  obtain ⟨c, sr, hsr, hc⟩ := xseq_start s hws
  have h44 : Ev (envOf text) 1 (.str [44]) .nonAtomic false Q (some (Q + 1, [])) :=
    ev_str_ok (pat := [44]) (s := l ++ (s.render ++ (r ++ (more'.render ++ 41 :: post)))) hs'
  have hs1 : Suf text (Q + 1) (l ++ (s.render ++ (r ++ (more'.render ++ 41 :: post)))) := hs'.tail
  have hskl := skip_blanks l hl
    (by rw [hsr] at hs1; exact hs1 : Suf text (Q + 1) (l ++ c :: (sr ++ (r ++ (more'.render ++ 41 :: post)))))
    (xstartC_nonBlank hc)
  have hs2 : Suf text (Q + 1 + l.length) (s.render ++ (r ++ (more'.render ++ 41 :: post))) := hs1.app
  obtain ⟨hE, hsk⟩ := hS (Q + 1 + l.length) r _ (more_gapG more' post hr) (more_closeC more' post) hs2
  have hb := xseqEnd_bounds (Q + 1 + l.length) s r.length
  have hspos := xseq_pos s hws
  refine ⟨?_, hsk, hs2.app.app, by omega, by omega⟩
  exact (Ev.seq h44 hskl hE (d := 12 * (text.length - (Q + 1)) + 204) (by omega) (by omega) (by omega)).mono
    (by omega)

/-! ### the mutual induction -/

mutual
theorem xtermT : ∀ (t : XTerm) (p : Nat) (post : List Nat), t.WF → XAfter post → Suf text p (t.render ++ post) →
    Ev (envOf text) (12 * (text.length - p) + 200) (.ref 42) .nonAtomic false p
      (some (p + t.render.length, [xtermPair p t]))
  | .num r ds, p, post, hwf, hpost, hs => by
    have hs' : Suf text p (r.pre ++ ds ++ post) := by simpa only [XTerm.render] using hs
    have hlen := hs'.len
    simp only [List.length_append] at hlen
    have h := xterm_num r ds post hwf hs' hpost
    simp only [XTerm.render, List.length_append]
    exact h.mono (by omega)
  | .neg ds, p, post, hwf, hpost, hs => by
    have hs' : Suf text p (45 :: ds ++ post) := by simpa only [XTerm.render] using hs
    have hlen := hs'.len
    simp only [List.length_append, List.length_cons] at hlen
    have h := xterm_neg ds post hwf hs' hpost
    have e : p + (1 + ds.length) = p + (XTerm.neg ds).render.length := by
      simp only [XTerm.render, List.length_cons]; omega
    rw [e] at h
    exact h.mono (by omega)
  | .label n, p, post, hwf, hpost, hs => by
    simp only [XTerm.WF] at hwf
    have hs' : Suf text p (n ++ post) := by simpa only [XTerm.render] using hs
    have hlen := hs'.len
    simp only [List.length_append] at hlen
    have h := xterm_label n post hwf hs' hpost
    simp only [XTerm.render]
    exact h.mono (by omega)
  | .var n, p, post, hwf, hpost, hs => by
    simp only [XTerm.WF] at hwf
    have hs' : Suf text p (36 :: n ++ post) := by simpa only [XTerm.render] using hs
    have hlen := hs'.len
    simp only [List.length_append, List.length_cons] at hlen
    have h := xterm_var n post hwf hs' hpost
    have e : p + (1 + n.length) = p + (XTerm.var n).render.length := by
      simp only [XTerm.render, List.length_cons]; omega
    rw [e] at h
    exact h.mono (by omega)
  | .selector sig, p, post, hwf, _, hs => by
    simp only [XTerm.WF] at hwf
    have hs' : Suf text p (selPre ++ (sig ++ ([34, 41] ++ post))) := by
      have := hs
      simp only [XTerm.render, List.append_assoc] at this
      exact this
    have hlen := hs'.len
    simp only [List.length_append, selPre, List.length_cons, List.length_nil] at hlen
    have h := xterm_selector sig post hwf hs'
    have e : p + 10 + sig.length + 2 = p + (XTerm.selector sig).render.length := by
      simp only [XTerm.render, List.length_append, List.length_cons, List.length_nil]; omega
    rw [e] at h
    exact h.mono (by omega)
  | .topic sig, p, post, hwf, _, hs => by
    simp only [XTerm.WF] at hwf
    have hs' : Suf text p (topPre ++ (sig ++ ([34, 41] ++ post))) := by
      have := hs
      simp only [XTerm.render, List.append_assoc] at this
      exact this
    have hlen := hs'.len
    simp only [List.length_append, topPre, List.length_cons, List.length_nil] at hlen
    have h := xterm_topic sig post hwf hs'
    have e : p + 7 + sig.length + 2 = p + (XTerm.topic sig).render.length := by
      simp only [XTerm.render, List.length_append, List.length_cons, List.length_nil]; omega
    rw [e] at h
    exact h.mono (by omega)
  | .call n g as, p, post, hwf, _, hs => by
    simp only [XTerm.WF] at hwf
    obtain ⟨hn, hg, hwa⟩ := hwf
    have hs' : Suf text p (n ++ (g ++ 40 :: (as.render ++ 41 :: post))) := by
      have := hs
      simp only [XTerm.render, List.append_assoc, List.cons_append, List.nil_append] at this
      exact this
    obtain ⟨c, run, hnc, hc, hr⟩ := isFnName_split hn
    have hlb : ∀ x ∈ n, isLb x = true := by
      intro x hx
      rw [hnc] at hx
      rcases List.mem_cons.mp hx with h | h
      · rw [h]
        simp only [isFn, isLb, isAl, isAn, Bool.or_eq_true, Bool.and_eq_true, decide_eq_true_eq, beq_iff_eq] at hc ⊢
        omega
      · exact hr x h
    have hs'' : Suf text p (c :: (run ++ (g ++ 40 :: (as.render ++ 41 :: post)))) := by rw [hnc] at hs'; exact hs'
    have e12 := ev12_fail hs'' (by
      have : (36 : Nat) ≠ c := fun h => by rw [← h] at hc; revert hc; decide
      simp [List.isPrefixOf, this])
    have hne := args_head_ne34 as hwa post
    have e27 := ev27_fail hs' (call_prefix_fail [115, 101, 108, 101, 99, 116, 111, 114] (by decide) n g _ hlb hg hne)
    have e28 := ev28_fail hs' (call_prefix_fail [116, 111, 112, 105, 99] (by decide) n g _ hlb hg hne)
    have h31 := inv31_of n g as post p hn hg (xargsA as hwa) hs'
    have hlen := hs'.len
    simp only [List.length_append, List.length_cons] at hlen
    have hnpos : 1 ≤ n.length := by rw [hnc]; simp
    have h26 : Ev (envOf text) (12 * (text.length - p) + 189) (.ref 26) .nonAtomic false p
        (some (p + n.length + g.length + 1 + as.render.length + 1,
          [.mk 26 p (p + n.length + g.length + 1 + as.render.length + 1)
            (.mk 32 p (p + n.length) [] :: xargsKids (p + n.length + g.length + 1) as)])) :=
      evr (gr26 text) (by omega) h31 (d := 12 * (text.length - p) + 187)
    have h4 : Ev (envOf text) (12 * (text.length - p) + 191) termAlt4 .nonAtomic false p _ :=
      Ev.alt_l (Ev.alt_r (Ev.alt_r (Ev.alt_r e12 e27 (d := 5)) e28 (d := 6)) h26
        (d := 12 * (text.length - p) + 189)) (d := 12 * (text.length - p) + 190)
    have h5 : Ev (envOf text) (12 * (text.length - p) + 192) termAlt5 .nonAtomic false p _ := Ev.alt_l h4
    have h6 : Ev (envOf text) (12 * (text.length - p) + 193) termAlt6 .nonAtomic false p _ := Ev.alt_l h5
    have h7 : Ev (envOf text) (12 * (text.length - p) + 194) termBody .nonAtomic false p _ := Ev.alt_l h6
    have h := evr (gr42' text) (by omega) h7 (d := 12 * (text.length - p) + 194) (at_ := .nonAtomic)
    have e : p + n.length + g.length + 1 + as.render.length + 1 = p + (XTerm.call n g as).render.length := by
      simp only [XTerm.render, List.length_append, List.length_cons, List.length_nil]; omega
    simp only [xtermPair]
    rw [← e]
    exact h.mono (by omega)
  | .paren l s r, p, post, hwf, hpost, hs => by
    simp only [XTerm.WF] at hwf
    obtain ⟨hl, hws, hr⟩ := hwf
    have hs' : Suf text p (40 :: (l ++ (s.render ++ (r ++ 41 :: post)))) := by
      have := hs
      simp only [XTerm.render, List.append_assoc, List.cons_append, List.nil_append] at this
      exact this
    obtain ⟨c, sr, hsr, hc⟩ := xseq_start s hws
    have f6 := alt6_fail_paren hs'
    have h40 : Ev (envOf text) 1 (.str [40]) .nonAtomic false p (some (p + 1, [])) :=
      ev_str_ok (pat := [40]) (s := l ++ (s.render ++ (r ++ 41 :: post))) hs'
    have hs1 : Suf text (p + 1) (l ++ (s.render ++ (r ++ 41 :: post))) := hs'.tail
    have hsk1 := skip_blanks l hl
      (by rw [hsr] at hs1; exact hs1 : Suf text (p + 1) (l ++ c :: (sr ++ (r ++ 41 :: post)))) (xstartC_nonBlank hc)
    have hs2 : Suf text (p + 1 + l.length) (s.render ++ (r ++ 41 :: post)) := hs1.app
    obtain ⟨hS, hsk2⟩ := xseqS s (p + 1 + l.length) r (41 :: post) hws
      (gapG_blanks hr (by simp [NonBlank])) (xcloseC_paren post) hs2
    have hs4 : Suf text (p + 1 + l.length + s.render.length + r.length) (41 :: post) := hs2.app.app
    have h41 : Ev (envOf text) 1 (.str [41]) .nonAtomic false (p + 1 + l.length + s.render.length + r.length)
        (some (p + 1 + l.length + s.render.length + r.length + 1, [])) :=
      ev_str_ok (pat := [41]) (s := post) hs4
    have hlen2 := hs2.len
    have hlen4 := hs4.len
    have hb := xseqEnd_bounds (p + 1 + l.length) s r.length
    have hparen : Ev (envOf text) (12 * (text.length - (p + 1)) + 206) parenE .nonAtomic false p
        (some (p + 1 + l.length + s.render.length + r.length + 1, [xseqPair (p + 1 + l.length) s r.length])) :=
      Ev.seq (Ev.seq h40 hsk1 hS (d := 12 * (text.length - (p + 1)) + 204)) hsk2 h41
        (d := 12 * (text.length - (p + 1)) + 205)
    have h7 : Ev (envOf text) (12 * (text.length - (p + 1)) + 207) termBody .nonAtomic false p _ :=
      Ev.alt_r f6 hparen (d := 12 * (text.length - (p + 1)) + 206)
    have h := evr (gr42' text) (by omega) h7 (d := 12 * (text.length - (p + 1)) + 207) (at_ := .nonAtomic)
    have e : p + 1 + l.length + s.render.length + r.length + 1 = p + (XTerm.paren l s r).render.length := by
      simp only [XTerm.render, List.length_append, List.length_cons, List.length_nil]; omega
    rw [e] at h
    simp only [xtermPair]
    exact h.mono (by omega)
theorem xseqS : ∀ (s : XSeq) (p : Nat) (B post' : List Nat), s.WF → GapG B post' → XCloseC post' →
    Suf text p (s.render ++ (B ++ post')) →
    Ev (envOf text) (12 * (text.length - p) + 204) (.ref 41) .nonAtomic false p
      (some (xseqEnd p s B.length, [xseqPair p s B.length])) ∧
    Sk (envOf text) (text.length - xseqEnd p s B.length + 100) .nonAtomic (xseqEnd p s B.length)
      (p + s.render.length + B.length)
  | .mk t rest, p, B, post', hwf, hB, hC, hs => by
    simp only [XSeq.WF] at hwf
    obtain ⟨hwt, hwr⟩ := hwf
    have hs' : Suf text p (t.render ++ (rest.render ++ (B ++ post'))) := by
      simpa only [XSeq.render, List.append_assoc] using hs
    have hT := xtermT t p _ hwt (xrest_after rest hwr B post' hB hC) hs'
    have hs1 : Suf text (p + t.render.length) (rest.render ++ (B ++ post')) := hs'.app
    obtain ⟨q, e, hsk, hstar, he, hsk2⟩ := xstarS rest (p + t.render.length) B post' hwr hB hC hs1
    have hpos : 1 ≤ t.render.length := xterm_pos t hwt
    have hlen1 := hs1.len
    have hbody : Ev (envOf text) (12 * (text.length - p) + 201) exprBody' .nonAtomic false p
        (some (e, [xtermPair p t] ++ xrestKids (p + t.render.length) rest)) :=
      Ev.seq hT hsk hstar (d := 12 * (text.length - p) + 200)
    have h41 := evr (gr41' text) (by omega) hbody (d := 12 * (text.length - p) + 201) (at_ := .nonAtomic)
    have ee : e = xseqEnd p (.mk t rest) B.length := by rw [he]; simp only [xseqEnd]; omega
    refine ⟨?_, ?_⟩
    · rw [xseqPair_mk, ← ee]; exact h41.mono (by omega)
    · rw [← ee]
      simp only [XSeq.render, List.length_append]
      rw [← Nat.add_assoc]; exact hsk2
theorem xstarS : ∀ (rest : XRest) (p : Nat) (B post' : List Nat), rest.WF → GapG B post' → XCloseC post' →
    Suf text p (rest.render ++ (B ++ post')) →
    ∃ q e, Sk (envOf text) (12 * (text.length - p) + 100) .nonAtomic p q ∧
      Ev (envOf text) (12 * (text.length - p) + 210) (.star opterm) .nonAtomic false q (some (e, xrestKids p rest)) ∧
      e = p + rest.render.length + (if rest.isNil then B.length else 0) ∧
      Sk (envOf text) (text.length - e + 100) .nonAtomic e (p + rest.render.length + B.length)
  | .nil, p, B, post', _, hB, hC, hs => by
    have hs' : Suf text p (B ++ post') := by simpa only [XRest.render, List.nil_append] using hs
    have hs2 : Suf text (p + B.length) post' := hs'.app
    have hlen2 := hs2.len
    have hsk := skip_gapG hB hs'
    have hnil : GapG [] post' := gapG_nil_of hB
    refine ⟨p + B.length, p + B.length, hsk.mono (by omega), ?_, ?_, ?_⟩
    · simp only [xrestKids]
      exact (Ev.star0 (xopterm_fail hs2 hC) (d := 31)).mono (by omega)
    · simp [XRest.render, XRest.isNil]
    · simp only [XRest.render, List.length_nil, Nat.add_zero]
      have := skip_gapG hnil (by simpa using hs2 : Suf text (p + B.length) ([] ++ post'))
      simp only [List.length_nil, Nat.add_zero] at this
      exact this.mono (by omega)
  | .cons l op r t rest', p, B, post', hwf, hB, hC, hs => by
    simp only [XRest.WF] at hwf
    obtain ⟨hl, hr, hwt, hwr⟩ := hwf
    have hs' : Suf text p (l ++ opChar op :: (r ++ (t.render ++ (rest'.render ++ (B ++ post'))))) := by
      have := hs
      simp only [XRest.render, List.append_assoc, List.cons_append, List.nil_append] at this
      exact this
    obtain ⟨hsk, hI, hs4, hlen4, hpos⟩ := xiter_ok l op r t _ p hl hr hwt hs'
      (fun q hq => xtermT t q _ hwt (xrest_after rest' hwr B post' hB hC) hq)
    have hrep : ∀ f, 12 * (text.length - (p + l.length + 1 + r.length + t.render.length)) + 200 ≤ f →
        ∃ acc, rep (envOf text) f opterm .nonAtomic false (p + l.length + 1 + r.length + t.render.length)
            [[.mk (opRule op) (p + l.length) (p + l.length + 1) [], xtermPair (p + l.length + 1 + r.length) t]] =
            (p + l.length + 1 + r.length + t.render.length + rest'.render.length, acc) ∧
          acc.reverse.flatten = xrestKids p (.cons l op r t rest') := by
      intro f hf
      obtain ⟨acc', h1, h2⟩ := xrepR rest' _ B post' [[.mk (opRule op) (p + l.length) (p + l.length + 1) [],
        xtermPair (p + l.length + 1 + r.length) t]] f hwr hB hC hs4 hf
      exact ⟨acc', h1, by rw [h2]; simp [xrestKids]⟩
    have hstar := ev_star_some hI hrep (d := 12 * (text.length - p) + 200) (by omega) (by omega)
    have hs5 : Suf text (p + l.length + 1 + r.length + t.render.length + rest'.render.length) (B ++ post') :=
      hs4.app
    have hsk2 := skip_gapG hB hs5
    have hlen := hs'.len
    have hlen5 := hs5.len
    simp only [List.length_append, List.length_cons] at hlen hlen4 hlen5
    have erl : (XRest.cons l op r t rest').render.length =
        l.length + 1 + r.length + t.render.length + rest'.render.length := by
      simp only [XRest.render, List.length_append, List.length_cons, List.length_nil]
    refine ⟨p + l.length, _, hsk.mono (by omega), hstar.mono (by omega), ?_, ?_⟩
    · rw [erl]; simp only [XRest.isNil]; simp; omega
    · rw [erl]
      have e2 : p + (l.length + 1 + r.length + t.render.length + rest'.render.length) =
          p + l.length + 1 + r.length + t.render.length + rest'.render.length := by omega
      rw [e2]; exact hsk2.mono (by omega)
theorem xrepR : ∀ (rest : XRest) (p : Nat) (B post' : List Nat) (acc : List (List Pair)) (f : Nat), rest.WF →
    GapG B post' → XCloseC post' → Suf text p (rest.render ++ (B ++ post')) → 12 * (text.length - p) + 200 ≤ f →
    ∃ acc', rep (envOf text) f opterm .nonAtomic false p acc = (p + rest.render.length, acc') ∧
      acc'.reverse.flatten = acc.reverse.flatten ++ xrestKids p rest
  | .nil, p, B, post', acc, f, _, hB, hC, hs, hf => by
    obtain ⟨f, rfl⟩ : ∃ f', f = f' + 1 := ⟨f - 1, by omega⟩
    have hs' : Suf text p (B ++ post') := by simpa only [XRest.render, List.nil_append] using hs
    have hs2 : Suf text (p + B.length) post' := hs'.app
    have hlen2 := hs2.len
    refine ⟨acc, ?_, by simp [xrestKids]⟩
    rw [rep.eq_2, skip_gapG hB hs' f (by omega), xopterm_fail hs2 hC f (by omega)]
    simp [XRest.render]
  | .cons l op r t rest', p, B, post', acc, f, hwf, hB, hC, hs, hf => by
    obtain ⟨f, rfl⟩ : ∃ f', f = f' + 1 := ⟨f - 1, by omega⟩
    simp only [XRest.WF] at hwf
    obtain ⟨hl, hr, hwt, hwr⟩ := hwf
    have hs' : Suf text p (l ++ opChar op :: (r ++ (t.render ++ (rest'.render ++ (B ++ post'))))) := by
      have := hs
      simp only [XRest.render, List.append_assoc, List.cons_append, List.nil_append] at this
      exact this
    obtain ⟨hsk, hI, hs4, hlen4, hpos⟩ := xiter_ok l op r t _ p hl hr hwt hs'
      (fun q hq => xtermT t q _ hwt (xrest_after rest' hwr B post' hB hC) hq)
    obtain ⟨acc', h1, h2⟩ := xrepR rest' _ B post' ([.mk (opRule op) (p + l.length) (p + l.length + 1) [],
        xtermPair (p + l.length + 1 + r.length) t] :: acc) f hwr hB hC hs4 (by omega)
    have erl : (XRest.cons l op r t rest').render.length =
        l.length + 1 + r.length + t.render.length + rest'.render.length := by
      simp only [XRest.render, List.length_append, List.length_cons, List.length_nil]
    refine ⟨acc', ?_, ?_⟩
    · rw [rep.eq_2, hsk f (by omega), hI f (by omega)]
      have hne : ¬ (p + l.length + 1 + r.length + t.render.length = p) := by omega
      simp only [hne, if_false]
      rw [h1, erl]
      congr 1; omega
    · rw [h2]; simp [xrestKids]
theorem xargsA : ∀ (as : XArgs), as.WF → ArgsFact text as
  | .none g, hwf, P0, post, hs => by
    simp only [XArgs.WF] at hwf
    have hs' : Suf text P0 (g ++ 41 :: post) := by simpa only [XArgs.render] using hs
    have hlen := hs'.len
    simp only [List.length_append, List.length_cons] at hlen
    have hsk := skip_blanks g hwf hs' (by simp [NonBlank])
    have hs1 : Suf text (P0 + g.length) (41 :: post) := hs'.app
    have hsk0 : Sk (envOf text) 30 .nonAtomic (P0 + g.length) (P0 + g.length) := skip_none hs1 (by simp [NonBlank])
    have h1 : Ev (envOf text) 42 argsOpt .nonAtomic false (P0 + g.length) (some (P0 + g.length, [])) :=
      Ev.opt_none (Ev.seq_fail1 (expr_fail_close hs1 (Or.inl rfl)) (d := 40) (b := .star xcomma)) (d := 41)
    exact ⟨_, _, [], hsk.mono (by omega), h1.mono (by omega),
      by simp only [XArgs.render]; exact hsk0.mono (by omega), by simp [xargsKids]⟩
  | .some l s r more, hwf, P0, post, hs => by
    simp only [XArgs.WF] at hwf
    obtain ⟨hl, hws, hr, hwm⟩ := hwf
    have hs' : Suf text P0 (l ++ (s.render ++ (r ++ (more.render ++ 41 :: post)))) := by
      have := hs
      simp only [XArgs.render, List.append_assoc] at this
      exact this
    have hlen := hs'.len
    simp only [List.length_append, List.length_cons] at hlen
    obtain ⟨c, sr, hsr, hc⟩ := xseq_start s hws
    have hskl := skip_blanks l hl
      (by rw [hsr] at hs'; exact hs' : Suf text P0 (l ++ c :: (sr ++ (r ++ (more.render ++ 41 :: post)))))
      (xstartC_nonBlank hc)
    have hs1 : Suf text (P0 + l.length) (s.render ++ (r ++ (more.render ++ 41 :: post))) := hs'.app
    obtain ⟨d, tl, hd, hd2⟩ := more_head more post
    have hC := more_closeC more post
    have hG := more_gapG more post hr
    obtain ⟨hS, hskS⟩ := xseqS s (P0 + l.length) r _ hws hG hC hs1
    have hb := xseqEnd_bounds (P0 + l.length) s r.length
    have hsQ : Suf text (P0 + l.length + s.render.length + r.length) (more.render ++ 41 :: post) := hs1.app.app
    have hsQ' : Suf text (P0 + l.length + s.render.length + r.length) (d :: tl) := by rw [← hd]; exact hsQ
    have hlenQ := hsQ.len
    have hspos := xseq_pos s hws
    obtain ⟨e2, hstar2, hsk3, hQe2⟩ := xmoreM more (P0 + l.length + s.render.length + r.length) post hwm hsQ
    have hopt : Ev (envOf text) (12 * (text.length - P0) + 206) argsOpt .nonAtomic false (P0 + l.length)
        (some (e2, [xseqPair (P0 + l.length) s r.length] ++
          xmoreKids (P0 + l.length + s.render.length + r.length) more)) :=
      Ev.opt_some (Ev.seq hS hskS hstar2 (d := 12 * (text.length - P0) + 204)) (d := 12 * (text.length - P0) + 205)
    have erl : (XArgs.some l s r more).render.length = l.length + s.render.length + r.length + more.render.length := by
      simp only [XArgs.render, List.length_append]
    refine ⟨_, _, _, hskl.mono (by omega), hopt, ?_, by simp [xargsKids]⟩
    rw [erl]
    have e : P0 + (l.length + s.render.length + r.length + more.render.length) =
        P0 + l.length + s.render.length + r.length + more.render.length := by omega
    rw [e]; exact hsk3.mono (by omega)
theorem xmoreM : ∀ (more : XMore) (Q : Nat) (post : List Nat), more.WF → Suf text Q (more.render ++ 41 :: post) →
    ∃ e2, Ev (envOf text) (12 * (text.length - Q) + 206) (.star xcomma) .nonAtomic false Q
        (some (e2, xmoreKids Q more)) ∧
      Sk (envOf text) (text.length - e2 + 100) .nonAtomic e2 (Q + more.render.length) ∧ Q ≤ e2
  | .nil, Q, post, _, hs => by
    have hs' : Suf text Q (41 :: post) := by simpa only [XMore.render, List.nil_append] using hs
    have h2 : Ev (envOf text) 3 (.star xcomma) .nonAtomic false Q (some (Q, [])) :=
      Ev.star0 (Ev.seq_fail1 (ev_str_fail hs' (by simp [List.isPrefixOf])) (d := 1) : Ev _ 2 xcomma _ _ _ _) (d := 2)
    have hsk0 : Sk (envOf text) 30 .nonAtomic Q Q := skip_none hs' (by simp [NonBlank])
    exact ⟨Q, by simp only [xmoreKids]; exact h2.mono (by omega),
      by simp only [XMore.render, List.length_nil, Nat.add_zero]; exact hsk0.mono (by omega), Nat.le_refl _⟩
  | .cons l s r more', Q, post, hwf, hs => by
    simp only [XMore.WF] at hwf
    obtain ⟨hl, hws, hr, hwm⟩ := hwf
    obtain ⟨hI, hsk, hsQ', hle, hlt⟩ := xcomma_step l s r more' Q post hl hws hr hs
      (fun p B post' hB hC hp => xseqS s p B post' hws hB hC hp)
    have hlen := hs.len
    have hb := xseqEnd_bounds (Q + 1 + l.length) s r.length
    have hlenQ' := hsQ'.len
    have hR := fun f hf => xrepM more' (xseqEnd (Q + 1 + l.length) s r.length)
      (Q + 1 + l.length + s.render.length + r.length) post [[xseqPair (Q + 1 + l.length) s r.length]] f hwm hle hsk
      hsQ' hf
    have hrep' : ∀ f, 12 * (text.length - xseqEnd (Q + 1 + l.length) s r.length) + 206 ≤ f →
        ∃ acc, rep (envOf text) f xcomma .nonAtomic false (xseqEnd (Q + 1 + l.length) s r.length)
          [[xseqPair (Q + 1 + l.length) s r.length]] = (xrepEnd more' (xseqEnd (Q + 1 + l.length) s r.length)
            (Q + 1 + l.length + s.render.length + r.length), acc) ∧
          acc.reverse.flatten = xmoreKids Q (.cons l s r more') := by
      intro f hf
      obtain ⟨acc', h1, h2, _, _⟩ := hR f hf
      exact ⟨acc', h1, by rw [h2]; simp [xmoreKids]⟩
    obtain ⟨_, _, _, hsk1, hle1⟩ := hR _ (Nat.le_refl _)
    have hstar := ev_star_some hI hrep' (d := 12 * (text.length - (Q + 1)) + 206) (by omega) (by omega)
    have erl : (XMore.cons l s r more').render.length = 1 + l.length + s.render.length + r.length + more'.render.length := by
      simp only [XMore.render, List.length_append, List.length_cons, List.length_nil]
    simp only [List.length_append, List.length_cons] at hlen
    rw [erl] at hlen ⊢
    refine ⟨_, hstar.mono (by omega), ?_, by omega⟩
    have e : Q + (1 + l.length + s.render.length + r.length + more'.render.length) =
        Q + 1 + l.length + s.render.length + r.length + more'.render.length := by omega
    rw [e]; exact hsk1
theorem xrepM : ∀ (more : XMore) (e Q : Nat) (post : List Nat) (acc : List (List Pair)) (f : Nat), more.WF →
    e ≤ Q → Sk (envOf text) (text.length - e + 100) .nonAtomic e Q → Suf text Q (more.render ++ 41 :: post) →
    12 * (text.length - e) + 206 ≤ f →
    ∃ acc', rep (envOf text) f xcomma .nonAtomic false e acc = (xrepEnd more e Q, acc') ∧
      acc'.reverse.flatten = acc.reverse.flatten ++ xmoreKids Q more ∧
      Sk (envOf text) (text.length - xrepEnd more e Q + 100) .nonAtomic (xrepEnd more e Q) (Q + more.render.length) ∧
      e ≤ xrepEnd more e Q
  | .nil, e, Q, post, acc, f, _, hle, hsk, hs, hf => by
    obtain ⟨f, rfl⟩ : ∃ f', f = f' + 1 := ⟨f - 1, by omega⟩
    have hs' : Suf text Q (41 :: post) := by simpa only [XMore.render, List.nil_append] using hs
    have h2 : Ev (envOf text) 2 xcomma .nonAtomic false Q none :=
      Ev.seq_fail1 (ev_str_fail hs' (by simp [List.isPrefixOf])) (d := 1)
    refine ⟨acc, ?_, by simp [xmoreKids], by simpa [XMore.render, xrepEnd] using hsk, by simp [xrepEnd]⟩
    rw [rep.eq_2, hsk f (by omega), h2 f (by omega)]
    simp [xrepEnd]
  | .cons l s r more', e, Q, post, acc, f, hwf, hle, hsk, hs, hf => by
    obtain ⟨f, rfl⟩ : ∃ f', f = f' + 1 := ⟨f - 1, by omega⟩
    simp only [XMore.WF] at hwf
    obtain ⟨hl, hws, hr, hwm⟩ := hwf
    obtain ⟨hI, hsk', hsQ', hle', hlt⟩ := xcomma_step l s r more' Q post hl hws hr hs
      (fun p B post' hB hC hp => xseqS s p B post' hws hB hC hp)
    have hlenQ := hs.len
    have hb := xseqEnd_bounds (Q + 1 + l.length) s r.length
    have hlenQ' := hsQ'.len
    obtain ⟨acc', h1, h2, h3, h4⟩ := xrepM more' (xseqEnd (Q + 1 + l.length) s r.length)
      (Q + 1 + l.length + s.render.length + r.length) post ([xseqPair (Q + 1 + l.length) s r.length] :: acc) f hwm
      hle' hsk' hsQ' (by omega)
    have erl : (XMore.cons l s r more').render.length = 1 + l.length + s.render.length + r.length + more'.render.length := by
      simp only [XMore.render, List.length_append, List.length_cons, List.length_nil]
    simp only [xrepEnd]
    refine ⟨acc', ?_, by rw [h2]; simp [xmoreKids], ?_, by omega⟩
    · rw [rep.eq_2, hsk f (by omega), hI f (by omega)]
      have hne : ¬ (xseqEnd (Q + 1 + l.length) s r.length = e) := by omega
      simp only [hne, if_false]
      exact h1
    · rw [erl]
      have e2 : Q + (1 + l.length + s.render.length + r.length + more'.render.length) =
          Q + 1 + l.length + s.render.length + r.length + more'.render.length := by omega
      rw [e2]; exact h3
end

/-! ### the interface facts -/

theorem seq_fact (s : XSeq) (h : s.WF) : SeqFact text s :=
  fun p B post' hB hC hs => xseqS s p B post' h hB hC hs

theorem args_fact (as : XArgs) (h : as.WF) : ArgsFact text as := xargsA as h

end FullText
end Asm
end EtkVerif
