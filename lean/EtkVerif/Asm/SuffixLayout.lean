/-
Layout and emission only see label names through the label table: item lists that
agree up to a partial bijection on label names assemble to the same bytes.
-/
import EtkVerif.Asm.SuffixRel
import EtkVerif.Asm.Corollaries
namespace EtkVerif
namespace Asm
namespace Suffix
open Spec

inductive OptRel (R : String → String → Prop) : Option Expr → Option Expr → Prop
  | none : OptRel R none none
  | some {e e'} : ExprRel R e e' → OptRel R (some e) (some e')

inductive ItemRel (R : String → String → Prop) : Item → Item → Prop
  | label {l l'} : R l l' → ItemRel R (.label l) (.label l')
  | op {c imm imm'} : OptRel R imm imm' → ItemRel R (.op c imm) (.op c imm')
  | push {e e'} : ExprRel R e e' → ItemRel R (.push e) (.push e')
  | raw {b} : ItemRel R (.raw b) (.raw b)

variable {R : String → String → Prop}

theorem itemLabels_rel {items items' : List Item} (h : All₂ (ItemRel R) items items') :
    All₂ R (itemLabels items) (itemLabels items') := by
  induction h with
  | nil => exact .nil
  | cons h _ ih =>
    cases h with
    | label h => simp only [itemLabels, List.filterMap_cons] at ih ⊢; exact .cons h ih
    | op _ => simpa only [itemLabels, List.filterMap_cons] using ih
    | push _ => simpa only [itemLabels, List.filterMap_cons] using ih
    | raw => simpa only [itemLabels, List.filterMap_cons] using ih

theorem firstDuplicate_rel (hR : PBij R) {ls ls' : List String} (h : All₂ R ls ls')
    (hd : firstDuplicate ls = none) : firstDuplicate ls' = none := by
  induction h with
  | nil => rfl
  | cons h ht ih =>
    rw [firstDuplicate] at hd ⊢
    rw [← ht.contains hR h]
    rename_i a b as bs
    cases hc : as.contains a
    · rw [hc] at hd; simp only [Bool.false_eq_true, if_false] at hd ⊢; exact ih hd
    · rw [hc] at hd; simp at hd

theorem mentioned_rel {ms : List (String × MacroDef)} (hms : MsRefl R ms) {items items' : List Item}
    (h : All₂ (ItemRel R) items items') : ∀ {used}, mentioned ms items = .ok used →
    ∃ used', mentioned ms items' = .ok used' ∧ All₂ R used used' := by
  induction h with
  | nil => intro used hu; simp only [mentioned, Except.ok.injEq] at hu ⊢; subst hu; exact ⟨_, rfl, .nil⟩
  | cons h _ ih =>
    intro used hu
    have withExpr : ∀ {i i' : Item} {e e' : Expr} {rest rest' : List Item}, itemExpr? i = some e → itemExpr? i' = some e' →
        ExprRel R e e' → (∀ {used}, mentioned ms rest = .ok used → ∃ used', mentioned ms rest' = .ok used' ∧ All₂ R used used') →
        mentioned ms (i :: rest) = .ok used → ∃ used', mentioned ms (i' :: rest') = .ok used' ∧ All₂ R used used' := by
      intro i i' e e' rest rest' hi hi' he ih hu
      simp only [mentioned, hi, hi'] at hu ⊢
      cases hl : labelsOf ms evalFuel 0 e with
      | error err => rw [hl] at hu; cases err <;> simp at hu
      | ok ls =>
        rw [hl] at hu
        simp only at hu
        obtain ⟨ls', hl', hll⟩ := (labelsOf_rel hms evalFuel).1 _ _ _ _ he hl
        rw [hl']
        simp only
        cases hr : mentioned ms rest with
        | error err => rw [hr] at hu; simp [Except.map] at hu
        | ok u =>
          rw [hr] at hu
          obtain ⟨u', hu', huu⟩ := ih hr
          rw [hu']
          simp only [Except.map, Except.ok.injEq] at hu ⊢
          subst hu
          exact ⟨_, rfl, hll.append huu⟩
    cases h with
    | label h => simp only [mentioned, itemExpr?] at hu ⊢; exact ih hu
    | raw => simp only [mentioned, itemExpr?] at hu ⊢; exact ih hu
    | push h => exact withExpr rfl rfl h ih hu
    | op h =>
      cases h with
      | none => simp only [mentioned, itemExpr?] at hu ⊢; exact ih hu
      | some h => exact withExpr rfl rfl h ih hu

theorem filter_missing_rel (hR : PBij R) {L L' : List String} (hL : All₂ R L L') {used used' : List String}
    (h : All₂ R used used') :
    All₂ R (used.filter (fun l => !L.contains l)) (used'.filter (fun l => !L'.contains l)) := by
  induction h with
  | nil => exact .nil
  | cons h _ ih =>
    simp only [List.filter_cons, ← hL.contains hR h]
    split
    · exact .cons h ih
    · exact ih

theorem All₂.isEmpty_eq {α β : Type} {P : α → β → Prop} {xs : List α} {ys : List β} (h : All₂ P xs ys) :
    xs.isEmpty = ys.isEmpty := by
  cases h <;> rfl

/-! ### the label table -/

theorem any_key_rel (hR : PBij R) {ls ls' : List (String × Option Nat)} (ht : TableRel R ls ls') {l l' : String} (hl : R l l') :
    ls.any (·.1 == l) = ls'.any (·.1 == l') := by
  induction ht with
  | nil => rfl
  | cons h _ ih => simp only [List.any_cons, ih, hR.beq h.1 hl]

theorem setLabel_rel (hR : PBij R) {ls ls' : List (String × Option Nat)} (ht : TableRel R ls ls') {l l' : String} (hl : R l l')
    (v : Option Nat) : TableRel R (setLabel ls l v) (setLabel ls' l' v) := by
  unfold setLabel
  rw [any_key_rel hR ht hl]
  split
  · refine All₂.map _ _ ?_ ht
    intro p q hpq
    rw [hR.beq hpq.1 hl]
    split
    · exact ⟨hl, rfl⟩
    · exact hpq
  · exact ht.append (.cons ⟨hl, rfl⟩ .nil)

theorem positionsPass_rel (hR : PBij R) {items items' : List Item} (h : All₂ (ItemRel R) items items') :
    ∀ (ws : List Nat) (pos : Nat) {ls ls' : List (String × Option Nat)}, TableRel R ls ls' →
    TableRel R (positionsPass items ws pos ls).1 (positionsPass items' ws pos ls').1 ∧
    (positionsPass items ws pos ls).2 = (positionsPass items' ws pos ls').2 := by
  induction h with
  | nil => intro ws pos ls ls' ht; exact ⟨ht, rfl⟩
  | cons h _ ih =>
    intro ws pos ls ls' ht
    cases h with
    | label h =>
      simp only [positionsPass]
      apply ih
      rw [lookupLabel_rel hR ht h]
      split
      · exact setLabel_rel hR ht h _
      · exact ht
    | op _ => simp only [positionsPass]; exact ih _ _ ht
    | push _ => simp only [positionsPass]; exact ih _ _ ht
    | raw => simp only [positionsPass]; exact ih _ _ ht

theorem widthsPass_rel (hR : PBij R) {ms : List (String × MacroDef)} (hms : MsRefl R ms)
    {ls ls' : List (String × Option Nat)} (ht : TableRel R ls ls') (vars : Option (List (String × Int))) (d : Nat)
    {items items' : List Item} (h : All₂ (ItemRel R) items items') :
    ∀ (ws : List Nat), widthsPass ⟨ls, ms, vars, d⟩ items ws = widthsPass ⟨ls', ms, vars, d⟩ items' ws := by
  induction h with
  | nil => intro ws; rfl
  | cons h _ ih =>
    intro ws
    cases h with
    | label _ => simp only [widthsPass]; exact ih _
    | op _ => simp only [widthsPass]; exact ih _
    | raw => simp only [widthsPass]; exact ih _
    | push h =>
      simp only [widthsPass, ih]
      have := (eval_rel hR ht hms evalFuel).1 _ _ vars d h
      cases h1 : eval evalFuel ⟨ls, ms, vars, d⟩ _ <;> cases h2 : eval evalFuel ⟨ls', ms, vars, d⟩ _ <;>
        rw [h1, h2] at this <;> simp only [ER] at this ⊢
      subst this
      rfl

theorem layoutLoop_rel (hR : PBij R) {ms : List (String × MacroDef)} (hms : MsRefl R ms)
    {ls ls' : List (String × Option Nat)} (ht : TableRel R ls ls')
    {items items' : List Item} (h : All₂ (ItemRel R) items items') (s s' : St)
    (hs : s.ready = items ∧ s.labels = ls ∧ s.macros = ms) (hs' : s'.ready = items' ∧ s'.labels = ls' ∧ s'.macros = ms) :
    ∀ (fuel : Nat) (ws : List Nat),
      TableRel R (layoutLoop s fuel ws).1 (layoutLoop s' fuel ws).1 ∧ (layoutLoop s fuel ws).2 = (layoutLoop s' fuel ws).2 := by
  obtain ⟨rfl, rfl, rfl⟩ := hs
  obtain ⟨h1, h2, h3⟩ := hs'
  intro fuel
  induction fuel with
  | zero =>
    intro ws
    simp only [layoutLoop, h1, h2]
    exact ⟨(positionsPass_rel hR h ws 0 ht).1, trivial⟩
  | succ fuel ih =>
    intro ws
    have hp := positionsPass_rel hR h ws 0 ht
    have hw := widthsPass_rel hR hms hp.1 none 0 h ws
    simp only [layoutLoop, St.ctx, h1, h2, h3, hw]
    split
    · exact ⟨hp.1, rfl⟩
    · exact ih _

/-! ### emission -/

theorem concretizeOp_rel (hR : PBij R) {ms : List (String × MacroDef)} (hms : MsRefl R ms)
    {ls ls' : List (String × Option Nat)} (ht : TableRel R ls ls') (vars : Option (List (String × Int))) (d : Nat)
    (code : Nat) {imm imm' : Option Expr} (h : OptRel R imm imm') {bs : List Nat}
    (hc : concretizeOp ⟨ls, ms, vars, d⟩ code imm = .ok bs) : concretizeOp ⟨ls', ms, vars, d⟩ code imm' = .ok bs := by
  cases h with
  | none => exact hc
  | some h =>
    have := (eval_rel hR ht hms evalFuel).1 _ _ vars d h
    simp only [concretizeOp] at hc ⊢
    cases h1 : eval evalFuel ⟨ls, ms, vars, d⟩ _ <;> cases h2 : eval evalFuel ⟨ls', ms, vars, d⟩ _ <;>
      rw [h1, h2] at this <;> simp only [ER] at this
    · rw [h1] at hc; simp at hc
    · subst this
      rw [h1] at hc
      exact hc

theorem emit_rel (hR : PBij R) {ms : List (String × MacroDef)} (hms : MsRefl R ms)
    {ls ls' : List (String × Option Nat)} (ht : TableRel R ls ls') (vars : Option (List (String × Int))) (d : Nat)
    {items items' : List Item} (h : All₂ (ItemRel R) items items') :
    ∀ (ws : List Nat) {out : List Nat}, emit ⟨ls, ms, vars, d⟩ items ws = .ok out → emit ⟨ls', ms, vars, d⟩ items' ws = .ok out := by
  induction h with
  | nil => intro ws out h; exact h
  | @cons i i' rest rest' h _ ih =>
    intro ws out he
    rw [emit_cons] at he ⊢
    have hpc : pushCount [i] = pushCount [i'] := by cases h <;> rfl
    have hitem : ∀ {bs}, emitItem ⟨ls, ms, vars, d⟩ i ws = .ok bs → emitItem ⟨ls', ms, vars, d⟩ i' ws = .ok bs := by
      intro bs hb
      cases h with
      | label _ => exact hb
      | raw => exact hb
      | op h =>
        simp only [emitItem] at hb ⊢
        have hc := Conc.toExcept_ok hb
        rw [concretizeOp_rel hR hms ht vars d _ h hc]; rfl
      | push h =>
        simp only [emitItem] at hb ⊢
        have hc := Conc.toExcept_ok hb
        rw [concretizeOp_rel hR hms ht vars d _ (.some h) hc]; rfl
    cases hb : emitItem ⟨ls, ms, vars, d⟩ i ws with
    | error e => rw [hb] at he; simp at he
    | ok bs =>
      rw [hb] at he; rw [hitem hb]
      simp only at he ⊢
      cases hm : emit ⟨ls, ms, vars, d⟩ rest (ws.drop (pushCount [i])) with
      | error e => rw [hm] at he; simp at he
      | ok more => rw [hm] at he; rw [← hpc, ih _ hm]; exact he

/-! ### the whole of `assembleItems` -/

theorem pushCount_rel {items items' : List Item} (h : All₂ (ItemRel R) items items') : pushCount items = pushCount items' := by
  induction h with
  | nil => rfl
  | @cons i i' rest rest' h _ ih =>
    rw [pushCount_cons i, pushCount_cons i', ih]
    cases h <;> rfl

theorem assembleItems_rel (hR : PBij R) {ms : List (String × MacroDef)} (hms : MsRefl R ms)
    {items items' : List Item} (h : All₂ (ItemRel R) items items') {out : List Nat}
    (ha : assembleItems ms items = .ok out) : assembleItems ms items' = .ok out := by
  unfold assembleItems at ha ⊢
  have hL := itemLabels_rel h
  cases hd : firstDuplicate (itemLabels items) with
  | some l => rw [hd] at ha; simp at ha
  | none =>
    rw [hd] at ha
    rw [firstDuplicate_rel hR hL hd]
    simp only at ha ⊢
    cases hm : mentioned ms items with
    | error e => rw [hm] at ha; simp at ha
    | ok used =>
      rw [hm] at ha
      obtain ⟨used', hm', huu⟩ := mentioned_rel hms h hm
      rw [hm']
      simp only at ha ⊢
      have hf := filter_missing_rel hR hL huu
      rw [← hf.isEmpty_eq]
      split
      · rename_i hne; rw [if_pos hne] at ha; simp at ha
      · rename_i hne
        rw [if_neg hne] at ha
        rw [finish_eq _ rfl] at ha ⊢
        have ht : TableRel R ((itemLabels items).map (fun l => (l, some 0))) ((itemLabels items').map (fun l => (l, some 0))) :=
          All₂.map _ _ (fun a b hab => ⟨hab, rfl⟩) hL
        have hl := layoutLoop_rel hR hms ht h
          { ready := items, labels := (itemLabels items).map (fun l => (l, some 0)), macros := ms }
          { ready := items', labels := (itemLabels items').map (fun l => (l, some 0)), macros := ms }
          ⟨rfl, rfl, rfl⟩ ⟨rfl, rfl, rfl⟩
        simp only [St.ctx] at ha ⊢
        rw [← pushCount_rel h, ← (hl _ _).2]
        exact emit_rel hR hms (hl _ _).1 none 0 h _ ha

end Suffix
end Asm
end EtkVerif
