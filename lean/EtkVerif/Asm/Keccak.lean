/-
Keccak-256 (the `sha3::Keccak256` of `parse_selector`): Keccak-f[1600] with
rate 1088, capacity 512, padding 0x01 … 0x80.  Lanes are `Nat` < 2^64.
Validated against published vectors in `Props/C08.lean`.
-/
namespace EtkVerif
namespace Keccak

def M64 : Nat := 2 ^ 64
def rotl (x n : Nat) : Nat := if n % 64 = 0 then x % M64 else ((x <<< (n % 64)) ||| (x >>> (64 - n % 64))) % M64

def RC : List Nat := [
  0x0000000000000001, 0x0000000000008082, 0x800000000000808A, 0x8000000080008000,
  0x000000000000808B, 0x0000000080000001, 0x8000000080008081, 0x8000000000008009,
  0x000000000000008A, 0x0000000000000088, 0x0000000080008009, 0x000000008000000A,
  0x000000008000808B, 0x800000000000008B, 0x8000000000008089, 0x8000000000008003,
  0x8000000000008002, 0x8000000000000080, 0x000000000000800A, 0x800000008000000A,
  0x8000000080008081, 0x8000000000008080, 0x0000000080000001, 0x8000000080008008]

/-- rotation offsets r[x][y], indexed x + 5*y -/
def ROT : List Nat := [0, 1, 62, 28, 27, 36, 44, 6, 55, 20, 3, 10, 43, 25, 39, 41, 45, 15, 21, 8, 18, 2, 61, 56, 14]

abbrev State := Array Nat   -- 25 lanes, index x + 5*y

def lane (s : State) (x y : Nat) : Nat := s.getD (x % 5 + 5 * (y % 5)) 0

def round (s : State) (rc : Nat) : State :=
  -- θ
  let c := (List.range 5).map (fun x => (List.range 5).foldl (fun acc y => acc ^^^ lane s x y) 0)
  let d := (List.range 5).map (fun x => c.getD ((x + 4) % 5) 0 ^^^ rotl (c.getD ((x + 1) % 5) 0) 1)
  let s1 : State := (Array.range 25).map (fun i => s.getD i 0 ^^^ d.getD (i % 5) 0)
  -- ρ and π: B[y, 2x+3y] = rot(A[x,y], r[x,y])
  let b : State := (Array.range 25).foldl (fun acc i =>
      let x := i % 5
      let y := i / 5
      acc.set! (y + 5 * ((2 * x + 3 * y) % 5)) (rotl (s1.getD i 0) (ROT.getD i 0))) (Array.replicate 25 0)
  -- χ
  let s2 : State := (Array.range 25).map (fun i =>
      let x := i % 5
      let y := i / 5
      lane b x y ^^^ ((M64 - 1 - lane b (x + 1) y) &&& lane b (x + 2) y))
  -- ι
  s2.set! 0 (s2.getD 0 0 ^^^ rc)

def f1600 (s : State) : State := RC.foldl round s

def leLane (bs : List Nat) : Nat := (bs.reverse).foldl (fun acc b => acc * 256 + b) 0

def absorbBlock (s : State) (block : List Nat) : State :=
  let lanes := (List.range 17).map (fun i => leLane ((block.drop (8 * i)).take 8))
  f1600 ((Array.range 25).map (fun i => if i < 17 then s.getD i 0 ^^^ lanes.getD i 0 else s.getD i 0))

def pad (msg : List Nat) : List Nat :=
  let r := 136
  let q := r - msg.length % r
  if q = 1 then msg ++ [0x81] else msg ++ [0x01] ++ List.replicate (q - 2) 0 ++ [0x80]

def chunks (n : Nat) : Nat → List Nat → List (List Nat)
  | 0, _ => []
  | fuel + 1, l => if l.isEmpty then [] else l.take n :: chunks n fuel (l.drop n)

def laneBytes (x : Nat) : List Nat := (List.range 8).map (fun i => x / 256 ^ i % 256)

/-- Keccak-256 of a byte string: 32 bytes. -/
def keccak256 (msg : List Nat) : List Nat :=
  let p := pad msg
  let s := (chunks 136 (p.length / 136 + 1) p).foldl absorbBlock (Array.replicate 25 0)
  ((List.range 4).flatMap (fun i => laneBytes (s.getD i 0)))

end Keccak
end EtkVerif
