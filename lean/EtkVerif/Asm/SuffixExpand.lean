/-
Macro expansion with two suffix sources: the expansions agree up to a partial
bijection `R` on label names that relates the names generated for the same draw
and fixes the names of the source text.
-/
import EtkVerif.Asm.SuffixLayout
namespace EtkVerif
namespace Asm
namespace Suffix
open Spec

inductive AOpRel (R : String → String → Prop) : AOp → AOp → Prop
  | op {c imm imm'} : OptRel R imm imm' → AOpRel R (.op c imm) (.op c imm')
  | label {l l'} : R l l' → AOpRel R (.label l) (.label l')
  | push {e e'} : ExprRel R e e' → AOpRel R (.push e) (.push e')
  | macro {n as as'} : All₂ (ExprRel R) as as' → AOpRel R (.macro n as) (.macro n as')
  | instrDef {n ps b n' ps' b'} : AOpRel R (.instrDef n ps b) (.instrDef n' ps' b')
  | exprDef {n ps b n' ps' b'} : AOpRel R (.exprDef n ps b) (.exprDef n' ps' b')

/-- what a source-text instruction has to satisfy: `R` fixes every name in it -/
def AOpSrc (R : String → String → Prop) : AOp → Prop
  | .instrDef _ _ body => ∀ x ∈ body.toList, AOpRel R x x
  | .exprDef _ _ body => ExprRel R body body
  | o => AOpRel R o o

mutual
def RawSrc (R : String → String → Prop) : RawOp → Prop
  | .op o => AOpSrc R o
  | .scope ops => RawsSrc R ops
  | .raw _ => True
def RawsSrc (R : String → String → Prop) : RawOps → Prop
  | .nil => True
  | .cons o os => RawSrc R o ∧ RawsSrc R os
end

inductive RawRel (R : String → String → Prop) : RawOp → RawOp → Prop
  | op {o o'} : AOpRel R o o' → RawRel R (.op o) (.op o')
  | scope {ops} : RawsSrc R ops → RawRel R (.scope ops) (.scope ops)
  | raw {b} : RawRel R (.raw b) (.raw b)

variable {R : String → String → Prop}

theorem AOpSrc.rel {o : AOp} (h : AOpSrc R o) : AOpRel R o o := by
  cases o with
  | instrDef n ps b => exact .instrDef
  | exprDef n ps b => exact .exprDef
  | op c imm => exact h
  | label l => exact h
  | push e => exact h
  | «macro» n as => exact h

theorem RawSrc.rel {o : RawOp} (h : RawSrc R o) : RawRel R o o := by
  cases o with
  | op o => exact .op (AOpSrc.rel (by simpa only [RawSrc] using h))
  | scope ops => exact .scope (by simpa only [RawSrc] using h)
  | raw b => exact .raw

/-- the declared macros only mention names `R` fixes -/
def MsOK (R : String → String → Prop) (ms : List (String × MacroDef)) : Prop :=
  ∀ p ∈ ms, match p.2 with
    | .expr _ body => ExprRel R body body
    | .instr _ body => ∀ x ∈ body, AOpRel R x x

theorem lookupMacro_mem {ms : List (String × MacroDef)} {n : String} {d : MacroDef} (h : lookupMacro ms n = some d) :
    ∃ n', (n', d) ∈ ms := by
  unfold lookupMacro at h
  cases hf : ms.find? (·.1 == n) with
  | none => rw [hf] at h; simp at h
  | some p =>
    rw [hf] at h
    simp only [Option.map_some, Option.some.injEq] at h
    subst h
    exact ⟨p.1, List.mem_of_find?_eq_some hf⟩

theorem MsOK.refl {ms : List (String × MacroDef)} (h : MsOK R ms) : MsRefl R ms := by
  intro n ps body hl
  obtain ⟨n', hm⟩ := lookupMacro_mem hl
  exact h _ hm

theorem MsOK.instr {ms : List (String × MacroDef)} (h : MsOK R ms) {n ps body} (hl : lookupMacro ms n = some (.instr ps body)) :
    ∀ x ∈ body, AOpRel R x x := by
  obtain ⟨n', hm⟩ := lookupMacro_mem hl
  exact h _ hm

theorem MsOK.snoc {ms : List (String × MacroDef)} (h : MsOK R ms) {n : String} {d : MacroDef}
    (hd : match d with
      | .expr _ body => ExprRel R body body
      | .instr _ body => ∀ x ∈ body, AOpRel R x x) : MsOK R (ms ++ [(n, d)]) := by
  intro p hp
  rcases List.mem_append.1 hp with hp | hp
  · exact h p hp
  · simp only [List.mem_singleton] at hp; subst hp; exact hd

theorem declareMacros_ok : ∀ (ops : List RawOp) (ms0 ms : List (String × MacroDef)),
    (∀ o ∈ ops, RawSrc R o) → MsOK R ms0 → declareMacros ops ms0 = .ok ms → MsOK R ms := by
  intro ops
  induction ops with
  | nil => intro ms0 ms _ h0 h; simp only [declareMacros, Except.ok.injEq] at h; subst h; exact h0
  | cons o ops ih =>
    intro ms0 ms hsrc h0 h
    have hsrc' : ∀ o ∈ ops, RawSrc R o := fun x hx => hsrc x (by simp [hx])
    have ho : RawSrc R o := hsrc o (by simp)
    cases o with
    | scope _ => simp only [declareMacros] at h; exact ih _ _ hsrc' h0 h
    | raw _ => simp only [declareMacros] at h; exact ih _ _ hsrc' h0 h
    | op a =>
      cases a with
      | op _ _ => simp only [declareMacros] at h; exact ih _ _ hsrc' h0 h
      | label _ => simp only [declareMacros] at h; exact ih _ _ hsrc' h0 h
      | push _ => simp only [declareMacros] at h; exact ih _ _ hsrc' h0 h
      | «macro» _ _ => simp only [declareMacros] at h; exact ih _ _ hsrc' h0 h
      | instrDef n ps body =>
        simp only [declareMacros] at h
        split at h
        · simp at h
        · refine ih _ _ hsrc' (h0.snoc ?_) h
          simpa only [RawSrc, AOpSrc] using ho
      | exprDef n ps body =>
        simp only [declareMacros] at h
        split at h
        · simp at h
        · refine ih _ _ hsrc' (h0.snoc ?_) h
          simpa only [RawSrc, AOpSrc] using ho

theorem RawsSrc.toList : ∀ {ops : RawOps}, RawsSrc R ops → ∀ o ∈ ops.toList, RawSrc R o
  | .nil, _, o, ho => by simp [RawOps.toList] at ho
  | .cons a as, h, o, ho => by
    simp only [RawsSrc] at h
    simp only [RawOps.toList, List.mem_cons] at ho
    rcases ho with rfl | ho
    · exact h.1
    · exact RawsSrc.toList h.2 o ho

/-! ### instantiation -/

/-- rename tables: same local names (fixed by `R`), corresponding generated names -/
abbrev RenRel (R : String → String → Prop) (m m' : List (String × String)) : Prop :=
  All₂ (fun p q => p.1 = q.1 ∧ R p.1 p.1 ∧ R p.2 q.2) m m'

theorem any_ren_key {m m' : List (String × String)} (h : RenRel R m m') (l : String) :
    m.any (·.1 == l) = m'.any (·.1 == l) := by
  induction h with
  | nil => rfl
  | cons h _ ih => simp only [List.any_cons, ih, h.1]

theorem renameLocals_rel {rnd rnd' : Nat → Nat} (hgen : ∀ j m l, R (mangle rnd j m l) (mangle rnd' j m l)) (name : String) :
    ∀ (body : List AOp), (∀ o ∈ body, AOpRel R o o) → ∀ (k : Nat) (m m' : List (String × String)) (os : List AOp) (k' : Nat)
      (mo : List (String × String)), RenRel R m m' → renameLocals rnd name body k m = .ok (os, k', mo) →
      ∃ os' mo', renameLocals rnd' name body k m' = .ok (os', k', mo') ∧ All₂ (AOpRel R) os os' ∧ RenRel R mo mo' := by
  intro body
  induction body with
  | nil =>
    intro _ k m m' os k' mo hm h
    simp only [renameLocals, Except.ok.injEq, Prod.mk.injEq] at h ⊢
    obtain ⟨rfl, rfl, rfl⟩ := h
    exact ⟨_, _, ⟨rfl, rfl, rfl⟩, .nil, hm⟩
  | cons o body ih =>
    intro hb k m m' os k' mo hm h
    have hb' : ∀ o ∈ body, AOpRel R o o := fun x hx => hb x (by simp [hx])
    have ho : AOpRel R o o := hb o (by simp)
    have other : (∀ l, o ≠ .label l) →
        renameLocals rnd name (o :: body) k m = (match renameLocals rnd name body k m with
          | .error e => .error e
          | .ok (os, k', m') => .ok (o :: os, k', m')) ∧
        renameLocals rnd' name (o :: body) k m' = (match renameLocals rnd' name body k m' with
          | .error e => .error e
          | .ok (os, k', m') => .ok (o :: os, k', m')) := by
      intro hne
      cases o with
      | label l => exact absurd rfl (hne l)
      | _ => exact ⟨rfl, rfl⟩
    cases o with
    | label l =>
      simp only [renameLocals] at h ⊢
      rw [← any_ren_key hm l]
      split at h
      · simp at h
      · rename_i hany
        rw [if_neg hany]
        cases hr : renameLocals rnd name body (k + 1) (m ++ [(l, mangle rnd k name l)]) with
        | error e => rw [hr] at h; simp at h
        | ok p =>
          obtain ⟨os1, k1, m1⟩ := p
          rw [hr] at h
          simp only [Except.ok.injEq, Prod.mk.injEq] at h
          obtain ⟨rfl, rfl, rfl⟩ := h
          have hl : R l l := by cases ho with | label h => exact h
          have h1 : RenRel R [(l, mangle rnd k name l)] [(l, mangle rnd' k name l)] := .cons ⟨rfl, hl, hgen _ _ _⟩ .nil
          obtain ⟨os', mo', hr', hos, hmo⟩ := ih hb' (k + 1) _ (m' ++ [(l, mangle rnd' k name l)]) _ _ _
            (hm.append h1) hr
          rw [hr']
          exact ⟨_, _, rfl, .cons (.label (hgen _ _ _)) hos, hmo⟩
    | op c imm =>
      obtain ⟨e1, e2⟩ := other (by intro l; simp)
      rw [e1] at h; rw [e2]
      cases hr : renameLocals rnd name body k m with
      | error e => rw [hr] at h; simp at h
      | ok p =>
        obtain ⟨os1, k1, m1⟩ := p
        rw [hr] at h
        simp only [Except.ok.injEq, Prod.mk.injEq] at h
        obtain ⟨rfl, rfl, rfl⟩ := h
        obtain ⟨os', mo', hr', hos, hmo⟩ := ih hb' k _ _ _ _ _ hm hr
        rw [hr']
        exact ⟨_, _, rfl, .cons ho hos, hmo⟩
    | push e =>
      obtain ⟨e1, e2⟩ := other (by intro l; simp)
      rw [e1] at h; rw [e2]
      cases hr : renameLocals rnd name body k m with
      | error e => rw [hr] at h; simp at h
      | ok p =>
        obtain ⟨os1, k1, m1⟩ := p
        rw [hr] at h
        simp only [Except.ok.injEq, Prod.mk.injEq] at h
        obtain ⟨rfl, rfl, rfl⟩ := h
        obtain ⟨os', mo', hr', hos, hmo⟩ := ih hb' k _ _ _ _ _ hm hr
        rw [hr']
        exact ⟨_, _, rfl, .cons ho hos, hmo⟩
    | «macro» n as =>
      obtain ⟨e1, e2⟩ := other (by intro l; simp)
      rw [e1] at h; rw [e2]
      cases hr : renameLocals rnd name body k m with
      | error e => rw [hr] at h; simp at h
      | ok p =>
        obtain ⟨os1, k1, m1⟩ := p
        rw [hr] at h
        simp only [Except.ok.injEq, Prod.mk.injEq] at h
        obtain ⟨rfl, rfl, rfl⟩ := h
        obtain ⟨os', mo', hr', hos, hmo⟩ := ih hb' k _ _ _ _ _ hm hr
        rw [hr']
        exact ⟨_, _, rfl, .cons ho hos, hmo⟩
    | instrDef n ps b =>
      obtain ⟨e1, e2⟩ := other (by intro l; simp)
      rw [e1] at h; rw [e2]
      cases hr : renameLocals rnd name body k m with
      | error e => rw [hr] at h; simp at h
      | ok p =>
        obtain ⟨os1, k1, m1⟩ := p
        rw [hr] at h
        simp only [Except.ok.injEq, Prod.mk.injEq] at h
        obtain ⟨rfl, rfl, rfl⟩ := h
        obtain ⟨os', mo', hr', hos, hmo⟩ := ih hb' k _ _ _ _ _ hm hr
        rw [hr']
        exact ⟨_, _, rfl, .cons ho hos, hmo⟩
    | exprDef n ps b =>
      obtain ⟨e1, e2⟩ := other (by intro l; simp)
      rw [e1] at h; rw [e2]
      cases hr : renameLocals rnd name body k m with
      | error e => rw [hr] at h; simp at h
      | ok p =>
        obtain ⟨os1, k1, m1⟩ := p
        rw [hr] at h
        simp only [Except.ok.injEq, Prod.mk.injEq] at h
        obtain ⟨rfl, rfl, rfl⟩ := h
        obtain ⟨os', mo', hr', hos, hmo⟩ := ih hb' k _ _ _ _ _ hm hr
        rw [hr']
        exact ⟨_, _, rfl, .cons ho hos, hmo⟩

theorem foldl_replace_rel (hR : PBij R) {m m' : List (String × String)} (h : RenRel R m m') :
    ∀ {e e' : Expr}, ExprRel R e e' →
      ExprRel R (m.foldl (fun e (o, n) => replaceLabel o n e) e) (m'.foldl (fun e (o, n) => replaceLabel o n e) e') := by
  induction h with
  | nil => intro e e' he; exact he
  | @cons p q ps qs hpq _ ih =>
    intro e e' he
    obtain ⟨o, n⟩ := p
    obtain ⟨o', n'⟩ := q
    simp only [List.foldl_cons]
    obtain ⟨h1, h2, h3⟩ := hpq
    simp only at h1 h2 h3
    subst h1
    exact ih (replaceLabel_rel hR h2 h3 he)

theorem substBody_rel (hR : PBij R) {m m' : List (String × String)} (hm : RenRel R m m')
    {bs bs' : List (String × Expr)} (hb : BindRel R bs bs') {body body' : List AOp} (h : All₂ (AOpRel R) body body') :
    All₂ (AOpRel R) (substBody m bs body) (substBody m' bs' body') := by
  unfold substBody
  simp only
  refine All₂.map _ _ ?_ h
  have fix : ∀ {e e'}, ExprRel R e e' →
      ExprRel R (fillVars bs (m.foldl (fun e (o, n) => replaceLabel o n e) e))
        (fillVars bs' (m'.foldl (fun e (o, n) => replaceLabel o n e) e')) :=
    fun he => fillVars_rel hb (foldl_replace_rel hR hm he)
  intro o o' ho
  cases ho with
  | label h => exact .label h
  | instrDef => exact .instrDef
  | exprDef => exact .exprDef
  | push h => exact .push (fix h)
  | «macro» h => exact .macro (All₂.map _ _ (fun _ _ he => fix he) h)
  | op h =>
    cases h with
    | none => exact .op .none
    | some h => exact .op (.some (fix h))

theorem instantiate_rel (hR : PBij R) {rnd rnd' : Nat → Nat} (hgen : ∀ j m l, R (mangle rnd j m l) (mangle rnd' j m l))
    (name : String) (params : List String) {body : List AOp} (hb : ∀ o ∈ body, AOpRel R o o)
    {args args' : List Expr} (ha : All₂ (ExprRel R) args args') (k : Nat) {b : List AOp} {k' : Nat}
    (h : instantiate rnd name params body args k = .ok (b, k')) :
    ∃ b', instantiate rnd' name params body args' k = .ok (b', k') ∧ All₂ (AOpRel R) b b' := by
  unfold instantiate at h ⊢
  rw [← ha.length_eq]
  split at h
  · simp at h
  · rename_i hlen
    rw [if_neg hlen]
    cases hr : renameLocals rnd name body k [] with
    | error e => rw [hr] at h; simp at h
    | ok p =>
      obtain ⟨os, k1, mo⟩ := p
      rw [hr] at h
      simp only [Except.ok.injEq, Prod.mk.injEq] at h
      obtain ⟨rfl, rfl⟩ := h
      obtain ⟨os', mo', hr', hos, hmo⟩ := renameLocals_rel hgen name body hb k [] [] _ _ _ .nil hr
      rw [hr']
      exact ⟨_, rfl, substBody_rel hR hmo (ha.zip_left params) hos⟩

/-! ### expansion -/

theorem flatten_rel (hR : PBij R) {rnd rnd' : Nat → Nat} (hgen : ∀ j m l, R (mangle rnd j m l) (mangle rnd' j m l)) : ∀ f,
    (∀ ms d k rop rop' items k', MsOK R ms → RawRel R rop rop' → flattenOp rnd f ms d k rop = .ok (items, k') →
      ∃ items', flattenOp rnd' f ms d k rop' = .ok (items', k') ∧ All₂ (ItemRel R) items items') ∧
    (∀ ms d k name args args' items k', MsOK R ms → All₂ (ExprRel R) args args' →
      flattenMacro rnd f ms d k name args = .ok (items, k') →
      ∃ items', flattenMacro rnd' f ms d k name args' = .ok (items', k') ∧ All₂ (ItemRel R) items items') ∧
    (∀ ms d k os os' items k', MsOK R ms → All₂ (AOpRel R) os os' → flattenBody rnd f ms d k os = .ok (items, k') →
      ∃ items', flattenBody rnd' f ms d k os' = .ok (items', k') ∧ All₂ (ItemRel R) items items') ∧
    (∀ ms k ops items k', MsOK R ms → RawsSrc R ops → flattenAll rnd f ms k ops = .ok (items, k') →
      ∃ items', flattenAll rnd' f ms k ops = .ok (items', k') ∧ All₂ (ItemRel R) items items') ∧
    (∀ k ops r, RawsSrc R ops → assembleScope rnd f k ops = .ok r → assembleScope rnd' f k ops = .ok r) := by
  intro f
  induction f with
  | zero =>
    refine ⟨?_, ?_, ?_, ?_, ?_⟩
    · intro ms d k rop rop' items k' _ _ h; simp [flattenOp] at h
    · intro ms d k name args args' items k' _ _ h; simp [flattenMacro] at h
    · intro ms d k os os' items k' _ _ h; simp [flattenBody] at h
    · intro ms k ops items k' _ _ h; simp [flattenAll] at h
    · intro k ops r _ h; simp [assembleScope] at h
  | succ f ih =>
    obtain ⟨ihO, ihM, ihB, ihA, ihS⟩ := ih
    refine ⟨?_, ?_, ?_, ?_, ?_⟩
    · intro ms d k rop rop' items k' hms hrel h
      cases hrel with
      | raw =>
        simp only [flattenOp, Except.ok.injEq, Prod.mk.injEq] at h ⊢
        obtain ⟨rfl, rfl⟩ := h
        exact ⟨_, ⟨rfl, rfl⟩, .cons .raw .nil⟩
      | scope hsrc =>
        rename_i ops
        simp only [flattenOp] at h ⊢
        cases hs : assembleScope rnd f k ops with
        | error e => rw [hs] at h; simp at h
        | ok p =>
          rw [hs] at h
          rw [ihS _ _ _ hsrc hs]
          simp only [Except.ok.injEq, Prod.mk.injEq] at h ⊢
          obtain ⟨rfl, rfl⟩ := h
          exact ⟨_, ⟨rfl, rfl⟩, .cons .raw .nil⟩
      | op ho =>
        cases ho with
        | label hl =>
          simp only [flattenOp, Except.ok.injEq, Prod.mk.injEq] at h ⊢
          obtain ⟨rfl, rfl⟩ := h
          exact ⟨_, ⟨rfl, rfl⟩, .cons (.label hl) .nil⟩
        | op hi =>
          simp only [flattenOp, Except.ok.injEq, Prod.mk.injEq] at h ⊢
          obtain ⟨rfl, rfl⟩ := h
          exact ⟨_, ⟨rfl, rfl⟩, .cons (.op hi) .nil⟩
        | push he =>
          simp only [flattenOp, Except.ok.injEq, Prod.mk.injEq] at h ⊢
          obtain ⟨rfl, rfl⟩ := h
          exact ⟨_, ⟨rfl, rfl⟩, .cons (.push he) .nil⟩
        | instrDef =>
          simp only [flattenOp, Except.ok.injEq, Prod.mk.injEq] at h ⊢
          obtain ⟨rfl, rfl⟩ := h
          exact ⟨_, ⟨rfl, rfl⟩, .nil⟩
        | exprDef =>
          simp only [flattenOp, Except.ok.injEq, Prod.mk.injEq] at h ⊢
          obtain ⟨rfl, rfl⟩ := h
          exact ⟨_, ⟨rfl, rfl⟩, .nil⟩
        | «macro» has =>
          simp only [flattenOp] at h ⊢
          exact ihM _ _ _ _ _ _ _ _ hms has h
    · intro ms d k name args args' items k' hms has h
      simp only [flattenMacro] at h ⊢
      cases hl : lookupMacro ms name with
      | none => rw [hl] at h; simp at h
      | some md =>
        cases md with
        | expr ps b => rw [hl] at h; simp at h
        | instr params body =>
          rw [hl] at h
          simp only [] at h ⊢
          rw [← has.length_eq]
          by_cases h1 : params.length ≠ args.length
          · rw [if_pos h1] at h; simp at h
          · rw [if_neg h1] at h ⊢
            by_cases h2 : d ≥ maxMacroDepth
            · rw [if_pos h2] at h; simp at h
            · rw [if_neg h2] at h ⊢
              cases hi : instantiate rnd name params body args k with
              | error e => rw [hi] at h; simp at h
              | ok p =>
                obtain ⟨b, k1⟩ := p
                rw [hi] at h
                obtain ⟨b', hi', hbb⟩ := instantiate_rel hR hgen name params (hms.instr hl) has k hi
                rw [hi']
                simp only [] at h ⊢
                exact ihB _ _ _ _ _ _ _ hms hbb h
    · intro ms d k os os' items k' hms hos h
      cases hos with
      | nil =>
        simp only [flattenBody, Except.ok.injEq, Prod.mk.injEq] at h ⊢
        obtain ⟨rfl, rfl⟩ := h
        exact ⟨_, ⟨rfl, rfl⟩, .nil⟩
      | @cons o o' os os' ho hos =>
        simp only [flattenBody] at h ⊢
        cases h1 : flattenOp rnd f ms d k (.op o) with
        | error e => rw [h1] at h; simp at h
        | ok p =>
          obtain ⟨xs, k1⟩ := p
          rw [h1] at h
          obtain ⟨xs', h1', hxx⟩ := ihO _ _ _ _ _ _ _ hms (.op ho) h1
          rw [h1']
          simp only [] at h ⊢
          cases h2 : flattenBody rnd f ms d k1 os with
          | error e => rw [h2] at h; simp at h
          | ok q =>
            obtain ⟨ys, k2⟩ := q
            rw [h2] at h
            obtain ⟨ys', h2', hyy⟩ := ihB _ _ _ _ _ _ _ hms hos h2
            rw [h2']
            simp only [Except.ok.injEq, Prod.mk.injEq] at h ⊢
            obtain ⟨rfl, rfl⟩ := h
            exact ⟨_, ⟨rfl, rfl⟩, hxx.append hyy⟩
    · intro ms k ops items k' hms hsrc h
      cases ops with
      | nil =>
        simp only [flattenAll, Except.ok.injEq, Prod.mk.injEq] at h ⊢
        obtain ⟨rfl, rfl⟩ := h
        exact ⟨_, ⟨rfl, rfl⟩, .nil⟩
      | cons o os =>
        simp only [RawsSrc] at hsrc
        simp only [flattenAll] at h ⊢
        cases h1 : flattenOp rnd f ms 0 k o with
        | error e => rw [h1] at h; simp at h
        | ok p =>
          obtain ⟨xs, k1⟩ := p
          rw [h1] at h
          obtain ⟨xs', h1', hxx⟩ := ihO _ _ _ _ _ _ _ hms hsrc.1.rel h1
          rw [h1']
          simp only [] at h ⊢
          cases h2 : flattenAll rnd f ms k1 os with
          | error e => rw [h2] at h; simp at h
          | ok q =>
            obtain ⟨ys, k2⟩ := q
            rw [h2] at h
            obtain ⟨ys', h2', hyy⟩ := ihA _ _ _ _ _ hms hsrc.2 h2
            rw [h2']
            simp only [Except.ok.injEq, Prod.mk.injEq] at h ⊢
            obtain ⟨rfl, rfl⟩ := h
            exact ⟨_, ⟨rfl, rfl⟩, hxx.append hyy⟩
    · intro k ops r hsrc h
      simp only [assembleScope] at h ⊢
      cases h1 : declareMacros ops.toList [] with
      | error e => rw [h1] at h; simp at h
      | ok ms =>
        rw [h1] at h
        have hms : MsOK R ms := declareMacros_ok _ _ _ hsrc.toList (by intro p hp; simp at hp) h1
        simp only [] at h ⊢
        cases h2 : flattenAll rnd f ms k ops with
        | error e => rw [h2] at h; simp at h
        | ok q =>
          obtain ⟨items, k1⟩ := q
          rw [h2] at h
          obtain ⟨items', h2', hii⟩ := ihA _ _ _ _ _ hms hsrc h2
          rw [h2']
          simp only [] at h ⊢
          cases h3 : assembleItems ms items with
          | error e => rw [h3] at h; simp [Except.map] at h
          | ok bytes =>
            rw [h3] at h
            rw [assembleItems_rel hR hms.refl hii h3]
            exact h

/-- the specification-level statement: a scope whose source names `R` fixes assembles to the
same bytes under both suffix sources -/
theorem assembleScope_rel (hR : PBij R) {rnd rnd' : Nat → Nat} (hgen : ∀ j m l, R (mangle rnd j m l) (mangle rnd' j m l))
    (f k : Nat) (ops : RawOps) (r : List Nat × Nat) (hsrc : RawsSrc R ops)
    (h : assembleScope rnd f k ops = .ok r) : assembleScope rnd' f k ops = .ok r :=
  (flatten_rel hR hgen f).2.2.2.2 k ops r hsrc h

end Suffix
end Asm
end EtkVerif
