/-
Layout and emission (`backpatch_labels` / `emit_bytecode` as repaired):
exactness is structural — label positions are prefix sums of the emitted sizes
under the allotted widths, and emission writes every variable-sized push at its
allotted width or fails — and the width loop ends in a stable state in which
every width holds its operand.
-/
import EtkVerif.Asm.Assemble
namespace EtkVerif
namespace Asm

/-- An item list as `push` builds it: an instruction carries an operand exactly
when it is a `pushN`, and no label occurs twice. -/
structure ReadyOK (ready : List Item) : Prop where
  imm : ∀ code imm, Item.op code imm ∈ ready → (imm.isSome ↔ (0x60 ≤ code ∧ code ≤ 0x7f))
  nodup : (ready.filterMap (fun i => match i with | .label l => some l | _ => none)).Nodup

/-- every label item of `ready` is defined in the table -/
def LabelsDefined (ready : List Item) (ls : List (String × Option Nat)) : Prop :=
  ∀ l, Item.label l ∈ ready → ∃ p, lookupLabel ls l = some (some p)

/-- `emit` distributes over concatenation, consuming one width per variable-sized push. -/
theorem emit_append (c : Ctx) (a b : List Item) (ws : List Nat) :
    emit c (a ++ b) ws =
      (match emit c a ws with
       | .error e => .error e
       | .ok x => match emit c b (ws.drop (pushCount a)) with
         | .error e => .error e
         | .ok y => .ok (x ++ y)) := by
  sorry

/-- The total the positions pass computes is the length of what is emitted. -/
theorem emit_length (c : Ctx) (ready : List Item) (hr : ReadyOK ready) (ws : List Nat)
    (hw : ws.length = pushCount ready) (out : List Nat) (h : emit c ready ws = .ok out)
    (pos : Nat) (ls : List (String × Option Nat)) :
    (positionsPass ready ws pos ls).2 = pos + out.length := by
  sorry

/-- C01 core.  After a positions pass with widths `ws`, every label of `ready`
maps to the number of bytes emitted (at those widths) for the items before it. -/
theorem positions_are_offsets (c : Ctx) (ready : List Item) (hr : ReadyOK ready) (ws : List Nat)
    (hw : ws.length = pushCount ready) (ls0 : List (String × Option Nat)) (hd : LabelsDefined ready ls0)
    (out : List Nat) (h : emit c ready ws = .ok out)
    (pre post : List Item) (l : String) (hsplit : ready = pre ++ Item.label l :: post) :
    ∃ outPre, emit c pre ws = .ok outPre ∧ outPre.length ≤ out.length ∧ out.take outPre.length = outPre ∧
      lookupLabel (positionsPass ready ws 0 ls0).1 l = some (some outPre.length) := by
  sorry

/-- The width loop ends (within its fuel) in a stable state: positions are those
implied by the widths and no push needs more bytes than it has. -/
theorem layoutLoop_stable (s : St) (n : Nat) (hn : n = pushCount s.ready) :
    let r := layoutLoop s (32 * n + 2) (List.replicate n 1)
    r.2.length = n ∧ (∀ w ∈ r.2, 1 ≤ w ∧ w ≤ 32) ∧
    r.1 = (positionsPass s.ready r.2 0 s.labels).1 ∧
    widthsPass { s.ctx with labels := r.1 } s.ready r.2 = r.2 := by
  sorry

/-- What a successful emission writes for one variable-sized push: opcode
`0x5f + w`, then the operand's value (under the emission context) as exactly `w`
big-endian bytes; the value is non-negative and below `256^w`. -/
theorem emit_push_exact (c : Ctx) (pre post : List Item) (e : Expr) (ws : List Nat) (out : List Nat)
    (h : emit c (pre ++ Item.push e :: post) ws = .ok out) :
    ∃ (outPre outPost : List Nat) (v : Int),
      emit c pre ws = .ok outPre ∧ eval evalFuel c e = .ok v ∧ 0 ≤ v ∧
      v.toNat < 256 ^ (ws.drop (pushCount pre)).headD 1 ∧
      out = outPre ++ ((0x5f + (ws.drop (pushCount pre)).headD 1) ::
              (List.replicate ((ws.drop (pushCount pre)).headD 1 - (bytesBE v.toNat).length) 0 ++ bytesBE v.toNat)) ++ outPost := by
  sorry

/-- … and for a fixed-size `pushN e`: opcode byte, then exactly `N` big-endian
bytes of the value, `0 ≤ v < 256^N` (C02 / C09: never wrapped or truncated). -/
theorem emit_op_exact (c : Ctx) (pre post : List Item) (code : Nat) (e : Expr) (ws : List Nat) (out : List Nat)
    (h : emit c (pre ++ Item.op code (some e) :: post) ws = .ok out) :
    ∃ (outPre outPost : List Nat) (v : Int),
      emit c pre ws = .ok outPre ∧ eval evalFuel c e = .ok v ∧ 0 ≤ v ∧ v.toNat < 256 ^ immLen code ∧
      out = outPre ++ (code :: (List.replicate (immLen code - (bytesBE v.toNat).length) 0 ++ bytesBE v.toNat)) ++ outPost := by
  sorry

/-- `bytesBE` is the minimal big-endian representation: its length is the least
`k ≥ 1` with `n < 256^k`, and it denotes `n`. -/
theorem bytesBE_spec (n : Nat) :
    1 ≤ (bytesBE n).length ∧ n < 256 ^ (bytesBE n).length ∧
    (∀ k, 1 ≤ k → n < 256 ^ k → (bytesBE n).length ≤ k) ∧
    (bytesBE n).foldl (fun acc b => acc * 256 + b) 0 = n ∧ (∀ b ∈ bytesBE n, b < 256) := by
  sorry

/-- C07 (constants).  A variable-sized push whose operand mentions no label gets
exactly the minimal width of its value (one byte for zero), whatever else the
program contains. -/
theorem closed_push_minimal (s : St) (n : Nat) (hn : n = pushCount s.ready)
    (pre post : List Item) (e : Expr) (hsplit : s.ready = pre ++ Item.push e :: post)
    (hclosed : labelsOf s.macros evalFuel 0 e = .ok [])
    (v : Int) (hv : eval evalFuel s.ctx e = .ok v) (h0 : 0 ≤ v) (h32 : (bytesBE v.toNat).length ≤ 32) :
    ((layoutLoop s (32 * n + 2) (List.replicate n 1)).2.drop (pushCount pre)).headD 1 = (bytesBE v.toNat).length := by
  sorry

end Asm
end EtkVerif
