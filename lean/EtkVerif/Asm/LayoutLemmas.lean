/-
Layout and emission (`backpatch_labels` / `emit_bytecode` as repaired):
exactness is structural — label positions are prefix sums of the emitted sizes
under the allotted widths, and emission writes every variable-sized push at its
allotted width or fails — and the width loop ends in a stable state in which
every width holds its operand.
-/
import EtkVerif.Asm.Assemble
import EtkVerif.Asm.LayoutAux
namespace EtkVerif
namespace Asm

/-- An item list as `push` builds it: an instruction carries an operand exactly
when it is a `pushN`, and no label occurs twice. -/
structure ReadyOK (ready : List Item) : Prop where
  imm : ∀ code imm, Item.op code imm ∈ ready → (imm.isSome ↔ (0x60 ≤ code ∧ code ≤ 0x7f))
  nodup : (ready.filterMap (fun i => match i with | .label l => some l | _ => none)).Nodup

/-- every label item of `ready` is defined in the table -/
def LabelsDefined (ready : List Item) (ls : List (String × Option Nat)) : Prop :=
  ∀ l, Item.label l ∈ ready → ∃ p, lookupLabel ls l = some (some p)

/-- `emit` distributes over concatenation, consuming one width per variable-sized push. -/
theorem emit_append (c : Ctx) (a b : List Item) (ws : List Nat) :
    emit c (a ++ b) ws =
      (match emit c a ws with
       | .error e => .error e
       | .ok x => match emit c b (ws.drop (pushCount a)) with
         | .error e => .error e
         | .ok y => .ok (x ++ y)) :=
  emit_append' c a b ws

theorem emit_length_aux (c : Ctx) (ready : List Item)
    (himm : ∀ code imm, Item.op code imm ∈ ready → (imm.isSome ↔ (0x60 ≤ code ∧ code ≤ 0x7f)))
    (ws : List Nat) (out : List Nat) (h : emit c ready ws = .ok out)
    (pos : Nat) (ls : List (String × Option Nat)) :
    (positionsPass ready ws pos ls).2 = pos + out.length := by
  induction ready generalizing ws out pos ls with
  | nil =>
    simp only [emit, Except.ok.injEq] at h
    subst h; rfl
  | cons x rest ih =>
    have himm' : ∀ code imm, Item.op code imm ∈ rest → (imm.isSome ↔ (0x60 ≤ code ∧ code ≤ 0x7f)) :=
      fun code imm hm => himm code imm (List.mem_cons_of_mem _ hm)
    rw [emit_cons] at h
    cases hx : emitItem c x ws with
    | error e => rw [hx] at h; simp at h
    | ok bs =>
      rw [hx] at h
      simp only [] at h
      cases hr : emit c rest (List.drop (pushCount [x]) ws) with
      | error e => rw [hr] at h; simp at h
      | ok more =>
        rw [hr] at h
        simp only [Except.ok.injEq] at h
        subst h
        cases x with
        | label l =>
          simp only [emitItem, Except.ok.injEq] at hx
          subst hx
          have hr' : emit c rest ws = .ok more := hr
          simp only [positionsPass]
          rw [ih himm' _ _ hr']
          simp
        | raw bytes =>
          simp only [emitItem, Except.ok.injEq] at hx
          subst hx
          have hr' : emit c rest ws = .ok more := hr
          simp only [positionsPass]
          rw [ih himm' _ _ hr']
          simp [Nat.add_assoc]
        | op code imm =>
          simp only [emitItem] at hx
          have hx := Conc.toExcept_ok hx
          have hr' : emit c rest ws = .ok more := hr
          simp only [positionsPass]
          rw [ih himm' _ _ hr']
          cases imm with
          | none =>
            have hi := himm code none (List.mem_cons_self ..)
            simp only [Option.isSome_none, Bool.false_eq_true, false_iff] at hi
            have : immLen code = 0 := by unfold immLen; rw [if_neg hi]
            simp only [concretizeOp, Conc.ok.injEq] at hx
            subst hx
            simp [this]; omega
          | some e =>
            have := (concretizeOp_some_length hx).1
            simp [this]; omega
        | push e =>
          simp only [emitItem] at hx
          have hx := Conc.toExcept_ok hx
          have ⟨h1, h2⟩ := concretizeOp_some_length hx
          have ⟨h3, _, _⟩ := immLen_push_width h2
          have hr' : emit c rest (ws.drop 1) = .ok more := hr
          simp only [positionsPass]
          rw [ih himm' _ _ hr']
          rw [List.length_append, h1, h3]; omega

set_option linter.unusedVariables false in
/-- The total the positions pass computes is the length of what is emitted.
(`hw` is not needed: a successful `emit` already forces every consumed width into `1..32`.) -/
theorem emit_length (c : Ctx) (ready : List Item) (hr : ReadyOK ready) (ws : List Nat)
    (hw : ws.length = pushCount ready) (out : List Nat) (h : emit c ready ws = .ok out)
    (pos : Nat) (ls : List (String × Option Nat)) :
    (positionsPass ready ws pos ls).2 = pos + out.length :=
  emit_length_aux c ready hr.imm ws out h pos ls

/-- C01 core.  After a positions pass with widths `ws`, every label of `ready`
maps to the number of bytes emitted (at those widths) for the items before it. -/
theorem positions_are_offsets (c : Ctx) (ready : List Item) (hr : ReadyOK ready) (ws : List Nat)
    (hw : ws.length = pushCount ready) (ls0 : List (String × Option Nat)) (hd : LabelsDefined ready ls0)
    (out : List Nat) (h : emit c ready ws = .ok out)
    (pre post : List Item) (l : String) (hsplit : ready = pre ++ Item.label l :: post) :
    ∃ outPre, emit c pre ws = .ok outPre ∧ outPre.length ≤ out.length ∧ out.take outPre.length = outPre ∧
      lookupLabel (positionsPass ready ws 0 ls0).1 l = some (some outPre.length) := by
  subst hsplit
  rw [emit_append] at h
  cases hpre : emit c pre ws with
  | error e => rw [hpre] at h; simp at h
  | ok outPre =>
    rw [hpre] at h
    simp only [] at h
    cases hpost : emit c (Item.label l :: post) (ws.drop (pushCount pre)) with
    | error e => rw [hpost] at h; simp at h
    | ok outPost =>
      rw [hpost] at h
      simp only [Except.ok.injEq] at h
      subst h
      refine ⟨outPre, rfl, by simp, by simp, ?_⟩
      have hposPre := emit_length_aux c pre
        (fun code imm hm => hr.imm code imm (List.mem_append_left _ hm)) ws outPre hpre 0 ls0
      have hnd := hr.nodup
      rw [List.filterMap_append, List.filterMap_cons] at hnd
      simp only [] at hnd
      rw [List.nodup_append, List.nodup_cons] at hnd
      obtain ⟨_, ⟨hnpost, _⟩, hdisj⟩ := hnd
      have hlpost : Item.label l ∉ post := by
        intro hm
        exact hnpost (List.mem_filterMap.2 ⟨_, hm, rfl⟩)
      have hlpre : Item.label l ∉ pre := by
        intro hm
        exact hdisj l (List.mem_filterMap.2 ⟨_, hm, rfl⟩) l (List.mem_cons_self ..) rfl
      obtain ⟨p, hp⟩ := hd l (by simp)
      have hlk : lookupLabel (positionsPass pre ws 0 ls0).1 l = some (some p) := by
        rw [positionsPass_lookup_other _ _ _ _ l hlpre, hp]
      rw [positionsPass_append]
      simp only [positionsPass]
      rw [positionsPass_lookup_other _ _ _ _ l hlpost, hlk]
      simp only []
      rw [lookupLabel_setLabel, if_pos rfl, hposPre]
      simp

/-- The width loop ends (within its fuel) in a stable state: positions are those
implied by the widths and no push needs more bytes than it has. -/
theorem layoutLoop_stable (s : St) (n : Nat) (hn : n = pushCount s.ready) :
    let r := layoutLoop s (32 * n + 2) (List.replicate n 1)
    r.2.length = n ∧ (∀ w ∈ r.2, 1 ≤ w ∧ w ≤ 32) ∧
    r.1 = (positionsPass s.ready r.2 0 s.labels).1 ∧
    widthsPass { s.ctx with labels := r.1 } s.ready r.2 = r.2 := by
  subst hn
  exact layoutLoop_spec s (32 * pushCount s.ready + 2) (List.replicate (pushCount s.ready) 1)
    (by simp)
    (by intro w hw; have := List.eq_of_mem_replicate hw; omega)
    (by simp; omega)

/-- a successful emission splits at any item -/
theorem emit_split {c : Ctx} {pre post : List Item} {x : Item} {ws out : List Nat}
    (h : emit c (pre ++ x :: post) ws = .ok out) :
    ∃ outPre bs outPost, emit c pre ws = .ok outPre ∧
      emitItem c x (ws.drop (pushCount pre)) = .ok bs ∧ out = outPre ++ bs ++ outPost := by
  rw [emit_append] at h
  cases hpre : emit c pre ws with
  | error e => rw [hpre] at h; simp at h
  | ok outPre =>
    rw [hpre] at h
    simp only [] at h
    rw [emit_cons] at h
    cases hx : emitItem c x (ws.drop (pushCount pre)) with
    | error e => rw [hx] at h; simp at h
    | ok bs =>
      rw [hx] at h
      simp only [] at h
      cases hr : emit c post (List.drop (pushCount [x]) (ws.drop (pushCount pre))) with
      | error e => rw [hr] at h; simp at h
      | ok outPost =>
        rw [hr] at h
        simp only [Except.ok.injEq] at h
        subst h
        exact ⟨outPre, bs, outPost, rfl, rfl, by simp⟩

/-- What a successful emission writes for one variable-sized push: opcode
`0x5f + w`, then the operand's value (under the emission context) as exactly `w`
big-endian bytes; the value is non-negative and below `256^w`. -/
theorem emit_push_exact (c : Ctx) (pre post : List Item) (e : Expr) (ws : List Nat) (out : List Nat)
    (h : emit c (pre ++ Item.push e :: post) ws = .ok out) :
    ∃ (outPre outPost : List Nat) (v : Int),
      emit c pre ws = .ok outPre ∧ eval evalFuel c e = .ok v ∧ 0 ≤ v ∧
      v.toNat < 256 ^ (ws.drop (pushCount pre)).headD 1 ∧
      out = outPre ++ ((0x5f + (ws.drop (pushCount pre)).headD 1) ::
              (List.replicate ((ws.drop (pushCount pre)).headD 1 - (bytesBE v.toNat).length) 0 ++ bytesBE v.toNat)) ++ outPost := by
  obtain ⟨outPre, bs, outPost, hpre, hx, rfl⟩ := emit_split h
  have hx := Conc.toExcept_ok hx
  obtain ⟨v, hv, h0, hlen, rfl⟩ := concretizeOp_some_ok hx
  have hpos := bytesBE_length_pos v.toNat
  obtain ⟨hw, _, _⟩ := immLen_push_width (w := (ws.drop (pushCount pre)).headD 1) (by omega)
  rw [hw] at hlen
  refine ⟨outPre, outPost, v, hpre, hv, h0, ?_, by rw [hw]⟩
  exact Nat.lt_of_lt_of_le (bytesBE_spec' v.toNat).2.1 (Nat.pow_le_pow_right (by omega) hlen)

/-- … and for a fixed-size `pushN e`: opcode byte, then exactly `N` big-endian
bytes of the value, `0 ≤ v < 256^N` (C02 / C09: never wrapped or truncated). -/
theorem emit_op_exact (c : Ctx) (pre post : List Item) (code : Nat) (e : Expr) (ws : List Nat) (out : List Nat)
    (h : emit c (pre ++ Item.op code (some e) :: post) ws = .ok out) :
    ∃ (outPre outPost : List Nat) (v : Int),
      emit c pre ws = .ok outPre ∧ eval evalFuel c e = .ok v ∧ 0 ≤ v ∧ v.toNat < 256 ^ immLen code ∧
      out = outPre ++ (code :: (List.replicate (immLen code - (bytesBE v.toNat).length) 0 ++ bytesBE v.toNat)) ++ outPost := by
  obtain ⟨outPre, bs, outPost, hpre, hx, rfl⟩ := emit_split h
  have hx := Conc.toExcept_ok hx
  obtain ⟨v, hv, h0, hlen, rfl⟩ := concretizeOp_some_ok hx
  refine ⟨outPre, outPost, v, hpre, hv, h0, ?_, rfl⟩
  exact Nat.lt_of_lt_of_le (bytesBE_spec' v.toNat).2.1 (Nat.pow_le_pow_right (by omega) hlen)

/-- `bytesBE` is the minimal big-endian representation: its length is the least
`k ≥ 1` with `n < 256^k`, and it denotes `n`. -/
theorem bytesBE_spec (n : Nat) :
    1 ≤ (bytesBE n).length ∧ n < 256 ^ (bytesBE n).length ∧
    (∀ k, 1 ≤ k → n < 256 ^ k → (bytesBE n).length ≤ k) ∧
    (bytesBE n).foldl (fun acc b => acc * 256 + b) 0 = n ∧ (∀ b ∈ bytesBE n, b < 256) :=
  bytesBE_spec' n

/-- C07 (constants).  A variable-sized push whose operand mentions no label gets
exactly the minimal width of its value (one byte for zero), whatever else the
program contains. -/
theorem closed_push_minimal (s : St) (n : Nat) (hn : n = pushCount s.ready)
    (pre post : List Item) (e : Expr) (hsplit : s.ready = pre ++ Item.push e :: post)
    (hclosed : labelsOf s.macros evalFuel 0 e = .ok [])
    (v : Int) (hv : eval evalFuel s.ctx e = .ok v) (h0 : 0 ≤ v) (h32 : (bytesBE v.toNat).length ≤ 32) :
    ((layoutLoop s (32 * n + 2) (List.replicate n 1)).2.drop (pushCount pre)).headD 1 = (bytesBE v.toNat).length := by
  have hB := bytesBE_length_pos v.toNat
  have hnw : neededWidth v = (bytesBE v.toNat).length := by
    unfold neededWidth byteLen
    have : v.natAbs = v.toNat := by omega
    rw [this]; omega
  have hev : ∀ ls, eval evalFuel { s.ctx with labels := ls } e = .ok v := by
    intro ls
    rw [← hv]
    exact eval_labels_irrelevant s.macros evalFuel 0 e hclosed s.ctx rfl ls evalFuel
  have hstepW : ∀ ls w, stepWidth { s.ctx with labels := ls } e w = max w (bytesBE v.toNat).length := by
    intro ls w
    unfold stepWidth
    rw [hev ls]
    simp only []
    rw [hnw]
  have hidx : ∀ ls ws,
      ((widthsPass { s.ctx with labels := ls } s.ready ws).drop (pushCount pre)).headD 1 =
        max ((ws.drop (pushCount pre)).headD 1) (bytesBE v.toNat).length := by
    intro ls ws
    rw [hsplit, widthsPass_append, List.drop_left' (widthsPass_length ..), widthsPass_push,
      List.headD_cons, hstepW]
  have hinv := layoutLoop_invariant s
    (fun ws => (ws.drop (pushCount pre)).headD 1 ≤ (bytesBE v.toNat).length)
    (by intro ls ws h; simp only; rw [hidx]; omega)
    (32 * n + 2) (List.replicate n 1)
    (by
      rw [List.drop_replicate]
      cases n - pushCount pre with
      | zero => exact hB
      | succ k => exact hB)
  have hst := (layoutLoop_stable s n hn).2.2.2
  have h1 := hidx (layoutLoop s (32 * n + 2) (List.replicate n 1)).1
    (layoutLoop s (32 * n + 2) (List.replicate n 1)).2
  simp only at hst hinv
  rw [hst] at h1
  omega

end Asm
end EtkVerif
