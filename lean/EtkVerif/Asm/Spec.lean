/-
The reference semantics the assembler properties describe (C01, C02, C07, C09,
C10, C12, C13), independent of the feeding order bookkeeping of the
implementation (`concrete_len`, provisional positions, the undeclared-label set,
feed-time versus emission-time checks):

1. `flatten`: hygienic macro expansion of a scope to a macro-free item list —
   an invocation is replaced by its instantiated body (`instantiate`: arity
   check, local labels renamed to names unique to the expansion, parameters
   replaced by the argument expressions), nested scopes by the bytes they
   assemble to on their own;
2. well-formedness of the item list: no label defined twice, every label and
   expression macro an operand mentions is defined;
3. layout: the widths of variable-sized pushes grow from one byte until each
   holds its operand under the label offsets the widths imply;
4. emission: opcode byte plus big-endian operand, only defined in range.
-/
import EtkVerif.Asm.Assemble
namespace EtkVerif
namespace Asm
namespace Spec

def itemLabels (items : List Item) : List String :=
  items.filterMap (fun i => match i with | .label l => some l | _ => none)

def firstDuplicate : List String → Option String
  | [] => none
  | l :: rest => if rest.contains l then some l else firstDuplicate rest

def itemExpr? : Item → Option Expr
  | .op _ imm => imm
  | .push e => some e
  | _ => none

/-- every label the operands mention (through expression macros), or the macro fault found on the way -/
def mentioned (ms : List (String × MacroDef)) : List Item → Except AsmErr (List String)
  | [] => .ok []
  | i :: rest =>
    match itemExpr? i with
    | none => mentioned ms rest
    | some e =>
      match labelsOf ms evalFuel 0 e with
      | .error (.unknownMacro n) => .error (.undeclaredExpressionMacro n)
      | .error (.recursionLimit n) => .error (.macroRecursionLimit n)
      | .error _ => .error (.panic "labels unreachable")
      | .ok ls => (mentioned ms rest).map (ls ++ ·)

/-- Layout and emission of a macro-free, scope-free item list. -/
def assembleItems (ms : List (String × MacroDef)) (items : List Item) : Except AsmErr (List Nat) :=
  match firstDuplicate (itemLabels items) with
  | some l => .error (.duplicateLabel l)
  | none =>
    match mentioned ms items with
    | .error e => .error e
    | .ok used =>
      let missing := used.filter (fun l => !(itemLabels items).contains l)
      if !missing.isEmpty then .error (.undeclaredLabels missing)
      else
        finish { ready := items, labels := (itemLabels items).map (fun l => (l, some 0)), macros := ms }

mutual
/-- expansion of one item of a scope; `k` counts the random suffixes drawn so far -/
def flattenOp (rnd : Nat → Nat) : Nat → List (String × MacroDef) → Nat → Nat → RawOp → Except AsmErr (List Item × Nat)
  | 0, _, _, _, _ => .error (.panic "fuel")
  | fuel + 1, ms, depth, k, rop =>
    match rop with
    | .op (.label l) => .ok ([.label l], k)
    | .op (.instrDef _ _ _) => .ok ([], k)
    | .op (.exprDef _ _ _) => .ok ([], k)
    | .op (.op code imm) => .ok ([.op code imm], k)
    | .op (.push e) => .ok ([.push e], k)
    | .raw bytes => .ok ([.raw bytes], k)
    | .op (.macro name args) => flattenMacro rnd fuel ms depth k name args
    | .scope ops =>
      match assembleScope rnd fuel k ops with
      | .error e => .error e
      | .ok (bytes, k') => .ok ([.raw bytes], k')
/-- an invocation stands for its instantiated body, expanded in turn (fuel steps mirror `expandMacro`) -/
def flattenMacro (rnd : Nat → Nat) : Nat → List (String × MacroDef) → Nat → Nat → String → List Expr → Except AsmErr (List Item × Nat)
  | 0, _, _, _, _, _ => .error (.panic "fuel")
  | fuel + 1, ms, depth, k, name, args =>
    match lookupMacro ms name with
    | some (.instr params body) =>
      if params.length ≠ args.length then .error (.macroArgumentCount name)
      else if depth ≥ maxMacroDepth then .error (.macroRecursionLimit name)
      else match instantiate rnd name params body args k with
        | .error e => .error e
        | .ok (body', k') => flattenBody rnd fuel ms (depth + 1) k' body'
    | _ => .error (.undeclaredInstructionMacro name)
def flattenBody (rnd : Nat → Nat) : Nat → List (String × MacroDef) → Nat → Nat → List AOp → Except AsmErr (List Item × Nat)
  | 0, _, _, _, _ => .error (.panic "fuel")
  | _ + 1, _, _, k, [] => .ok ([], k)
  | fuel + 1, ms, depth, k, o :: os =>
    match flattenOp rnd fuel ms depth k (.op o) with
    | .error e => .error e
    | .ok (xs, k') => match flattenBody rnd fuel ms depth k' os with
      | .error e => .error e
      | .ok (ys, k'') => .ok (xs ++ ys, k'')
def flattenAll (rnd : Nat → Nat) : Nat → List (String × MacroDef) → Nat → RawOps → Except AsmErr (List Item × Nat)
  | 0, _, _, _ => .error (.panic "fuel")
  | _ + 1, _, k, .nil => .ok ([], k)
  | fuel + 1, ms, k, .cons o os =>
    match flattenOp rnd fuel ms 0 k o with
    | .error e => .error e
    | .ok (xs, k') => match flattenAll rnd fuel ms k' os with
      | .error e => .error e
      | .ok (ys, k'') => .ok (xs ++ ys, k'')
/-- a scope assembled on its own: its macros, its labels counted from zero -/
def assembleScope (rnd : Nat → Nat) : Nat → Nat → RawOps → Except AsmErr (List Nat × Nat)
  | 0, _, _ => .error (.panic "fuel")
  | fuel + 1, k, ops =>
    match declareMacros ops.toList [] with
    | .error e => .error e
    | .ok ms =>
      match flattenAll rnd fuel ms k ops with
      | .error e => .error e
      | .ok (items, k') => (assembleItems ms items).map (fun bytes => (bytes, k'))
end

end Spec
end Asm
end EtkVerif
