/-
C10, the failure half: "an invocation assembles to the same bytes as its expanded body … or fails in the same way".
`flatten_invocation` (Corollaries.lean) is the success direction.  Here:
* `flatten_invocation_rejects`: an invocation that cannot be expanded at all — unknown name, wrong number of arguments,
  instantiation failure — fails with exactly that error, whatever follows;
* `flatten_invocation_error`: if the program with the invocation fails with an error other than the macro recursion
  limit (the expanded program sits one nesting level lower, so it may get further) — the program with the invocation
  replaced by its instantiated body fails with the SAME error;
* `flatten_invocation_conv`: conversely, whatever the expanded program yields (items or an error), the program with
  the invocation yields the same, or stops at the recursion limit.
-/
import EtkVerif.Asm.Corollaries
import EtkVerif.Asm.FuelLemmas
namespace EtkVerif
namespace Asm

namespace Spec

/-! ### fuel monotonicity of the specification's flattening, for every answer but the fuel running out -/

def SpecFuelMono (rnd : Nat → Nat) (f : Nat) : Prop :=
  (∀ ms d k rop, NoFuel (flattenOp rnd f ms d k rop) → flattenOp rnd (f + 1) ms d k rop = flattenOp rnd f ms d k rop) ∧
  (∀ ms d k name args, NoFuel (flattenMacro rnd f ms d k name args) →
      flattenMacro rnd (f + 1) ms d k name args = flattenMacro rnd f ms d k name args) ∧
  (∀ ms d k os, NoFuel (flattenBody rnd f ms d k os) → flattenBody rnd (f + 1) ms d k os = flattenBody rnd f ms d k os) ∧
  (∀ ms k ops, NoFuel (flattenAll rnd f ms k ops) → flattenAll rnd (f + 1) ms k ops = flattenAll rnd f ms k ops) ∧
  (∀ k ops, NoFuel (assembleScope rnd f k ops) → assembleScope rnd (f + 1) k ops = assembleScope rnd f k ops)

theorem specFuelMono (rnd : Nat → Nat) : ∀ f, SpecFuelMono rnd f := by
  intro f
  induction f with
  | zero =>
    refine ⟨?_, ?_, ?_, ?_, ?_⟩
    · intro ms d k rop h; exact absurd (by simp [flattenOp]) h
    · intro ms d k name args h; exact absurd (by simp [flattenMacro]) h
    · intro ms d k os h; exact absurd (by simp [flattenBody]) h
    · intro ms k ops h; exact absurd (by simp [flattenAll]) h
    · intro k ops h; exact absurd (by simp [assembleScope]) h
  | succ f ih =>
    obtain ⟨hO, hM, hB, hA, hS⟩ := ih
    refine ⟨?_, ?_, ?_, ?_, ?_⟩
    · intro ms d k rop h
      cases rop with
      | op o =>
        cases o with
        | «macro» name args =>
          simp only [flattenOp] at h ⊢
          exact hM _ _ _ _ _ h
        | _ => simp only [flattenOp]
      | raw bs => simp only [flattenOp]
      | scope ops =>
        simp only [flattenOp] at h ⊢
        have hn : NoFuel (assembleScope rnd f k ops) := by
          intro hc; rw [hc] at h; exact h rfl
        rw [hS _ _ hn]
    · intro ms d k name args h
      simp only [flattenMacro] at h ⊢
      cases hl : lookupMacro ms name with
      | none => rfl
      | some md =>
        cases md with
        | expr ps b => rfl
        | instr params body =>
          rw [hl] at h
          simp only [] at h ⊢
          by_cases h1 : params.length ≠ args.length
          · rw [if_pos h1, if_pos h1]
          · rw [if_neg h1] at h
            rw [if_neg h1, if_neg h1]
            by_cases h2 : d ≥ maxMacroDepth
            · rw [if_pos h2, if_pos h2]
            · rw [if_neg h2] at h
              rw [if_neg h2, if_neg h2]
              cases hi : instantiate rnd name params body args k with
              | error e => rfl
              | ok p =>
                rw [hi] at h
                simp only [] at h ⊢
                exact hB _ _ _ _ h
    · intro ms d k os h
      cases os with
      | nil => simp only [flattenBody]
      | cons o os =>
        simp only [flattenBody] at h ⊢
        have hn : NoFuel (flattenOp rnd f ms d k (.op o)) := by
          intro hc; rw [hc] at h; exact h rfl
        rw [hO _ _ _ _ hn]
        cases hp : flattenOp rnd f ms d k (.op o) with
        | error e => rfl
        | ok p =>
          rw [hp] at h
          simp only [] at h ⊢
          have hn2 : NoFuel (flattenBody rnd f ms d p.2 os) := by
            intro hc; rw [hc] at h; exact h rfl
          rw [hB _ _ _ _ hn2]
    · intro ms k ops h
      cases ops with
      | nil => simp only [flattenAll]
      | cons o os =>
        simp only [flattenAll] at h ⊢
        have hn : NoFuel (flattenOp rnd f ms 0 k o) := by
          intro hc; rw [hc] at h; exact h rfl
        rw [hO _ _ _ _ hn]
        cases hp : flattenOp rnd f ms 0 k o with
        | error e => rfl
        | ok p =>
          rw [hp] at h
          simp only [] at h ⊢
          have hn2 : NoFuel (flattenAll rnd f ms p.2 os) := by
            intro hc; rw [hc] at h; exact h rfl
          rw [hA _ _ _ hn2]
    · intro k ops h
      simp only [assembleScope] at h ⊢
      cases hd : declareMacros ops.toList [] with
      | error e => rfl
      | ok ms =>
        rw [hd] at h
        simp only [] at h ⊢
        have hn : NoFuel (flattenAll rnd f ms k ops) := by
          intro hc; rw [hc] at h; exact h rfl
        rw [hA _ _ _ hn]

theorem flattenAll_fuel_le (rnd : Nat → Nat) {f f' : Nat} {ms k ops} (hle : f ≤ f')
    (h : NoFuel (flattenAll rnd f ms k ops)) : flattenAll rnd f' ms k ops = flattenAll rnd f ms k ops := by
  induction hle with
  | refl => rfl
  | step _ ih => rw [← ih]; exact (specFuelMono rnd _).2.2.2.1 _ _ _ (by rw [ih]; exact h)

theorem flattenOp_fuel_le (rnd : Nat → Nat) {f f' : Nat} {ms d k rop} (hle : f ≤ f')
    (h : NoFuel (flattenOp rnd f ms d k rop)) : flattenOp rnd f' ms d k rop = flattenOp rnd f ms d k rop := by
  induction hle with
  | refl => rfl
  | step _ ih => rw [← ih]; exact (specFuelMono rnd _).1 _ _ _ _ (by rw [ih]; exact h)

/-! ### the nesting depth only decides whether the recursion limit is hit -/

/-- one level deeper, a run gives the same answer or stops at the recursion limit -/
theorem flatten_depth_succ (rnd : Nat → Nat) : ∀ f,
    (∀ ms d k rop, flattenOp rnd f ms (d + 1) k rop = flattenOp rnd f ms d k rop ∨
      ∃ n, flattenOp rnd f ms (d + 1) k rop = .error (.macroRecursionLimit n)) ∧
    (∀ ms d k name args, flattenMacro rnd f ms (d + 1) k name args = flattenMacro rnd f ms d k name args ∨
      ∃ n, flattenMacro rnd f ms (d + 1) k name args = .error (.macroRecursionLimit n)) ∧
    (∀ ms d k os, flattenBody rnd f ms (d + 1) k os = flattenBody rnd f ms d k os ∨
      ∃ n, flattenBody rnd f ms (d + 1) k os = .error (.macroRecursionLimit n)) := by
  intro f
  induction f with
  | zero =>
    refine ⟨?_, ?_, ?_⟩
    · intro ms d k rop; left; simp [flattenOp]
    · intro ms d k name args; left; simp [flattenMacro]
    · intro ms d k os; left; simp [flattenBody]
  | succ f ih =>
    obtain ⟨ihO, ihM, ihB⟩ := ih
    refine ⟨?_, ?_, ?_⟩
    · intro ms d k rop
      cases rop with
      | op o =>
        cases o with
        | «macro» name args =>
          simp only [flattenOp]
          exact ihM _ _ _ _ _
        | _ => left; simp only [flattenOp]
      | raw bytes => left; simp only [flattenOp]
      | scope ops => left; simp only [flattenOp]
    · intro ms d k name args
      simp only [flattenMacro]
      cases hl : lookupMacro ms name with
      | none => left; rfl
      | some md =>
        cases md with
        | expr ps b => left; rfl
        | instr params body =>
          simp only []
          by_cases h1 : params.length ≠ args.length
          · left; rw [if_pos h1, if_pos h1]
          · rw [if_neg h1, if_neg h1]
            by_cases h2 : d + 1 ≥ maxMacroDepth
            · right; exact ⟨name, by rw [if_pos h2]⟩
            · have h2' : ¬ d ≥ maxMacroDepth := by omega
              rw [if_neg h2, if_neg h2']
              cases hi : instantiate rnd name params body args k with
              | error e => left; rfl
              | ok p =>
                simp only []
                exact ihB _ _ _ _
    · intro ms d k os
      cases os with
      | nil => left; simp only [flattenBody]
      | cons o os =>
        simp only [flattenBody]
        rcases ihO ms d k (.op o) with h1 | ⟨n, h1⟩
        · rw [h1]
          cases hp : flattenOp rnd f ms d k (.op o) with
          | error e => left; rfl
          | ok p =>
            simp only []
            rcases ihB ms d p.2 os with h2 | ⟨n, h2⟩
            · left; rw [h2]
            · right; exact ⟨n, by rw [h2]⟩
        · right; exact ⟨n, by rw [h1]⟩

/-! ### sequencing of answers; `flattenAll` over a concatenation, for every answer -/

/-- items of a first run followed by those of a second, the first error met winning -/
def seqRes (r : Except AsmErr (List Item × Nat)) (g : Nat → Except AsmErr (List Item × Nat)) :
    Except AsmErr (List Item × Nat) :=
  match r with
  | .error e => .error e
  | .ok (xs, k') => match g k' with
    | .error e => .error e
    | .ok (ys, k'') => .ok (xs ++ ys, k'')

theorem seqRes_error (e : AsmErr) (g : Nat → Except AsmErr (List Item × Nat)) : seqRes (.error e) g = .error e := rfl

theorem seqRes_nil (k : Nat) (g : Nat → Except AsmErr (List Item × Nat)) : seqRes (.ok ([], k)) g = g k := by
  simp only [seqRes]
  cases g k with
  | error e => rfl
  | ok p => simp

theorem seqRes_ok_const (xs : List Item) (k : Nat) (g : Nat → Except AsmErr (List Item × Nat)) :
    seqRes (.ok (xs, k)) g = seqRes (.ok (xs, 0)) (fun _ => g k) := rfl

theorem seqRes_assoc (r : Except AsmErr (List Item × Nat)) (g h : Nat → Except AsmErr (List Item × Nat)) :
    seqRes (seqRes r g) h = seqRes r (fun k => seqRes (g k) h) := by
  cases r with
  | error e => rfl
  | ok p =>
    obtain ⟨xs, k1⟩ := p
    simp only [seqRes]
    cases g k1 with
    | error e => rfl
    | ok q =>
      obtain ⟨ys, k2⟩ := q
      simp only []
      cases h k2 with
      | error e => rfl
      | ok t => simp only [List.append_assoc]

theorem seqRes_nofuel_left {r : Except AsmErr (List Item × Nat)} {g : Nat → Except AsmErr (List Item × Nat)}
    (h : NoFuel (seqRes r g)) : NoFuel r := by
  intro hc; rw [hc] at h; exact h rfl

theorem seqRes_nofuel_right {xs : List Item} {k : Nat} {g : Nat → Except AsmErr (List Item × Nat)}
    (h : NoFuel (seqRes (.ok (xs, k)) g)) : NoFuel (g k) := by
  intro hc; simp only [seqRes, hc] at h; exact h rfl

theorem seqRes_ok_error {xs : List Item} {k : Nat} {g : Nat → Except AsmErr (List Item × Nat)} {e : AsmErr}
    (h : seqRes (.ok (xs, k)) g = .error e) : g k = .error e := by
  simp only [seqRes] at h
  cases hg : g k with
  | error e' => rw [hg] at h; exact h
  | ok p => rw [hg] at h; simp at h

theorem seqRes_congr {r : Except AsmErr (List Item × Nat)} {g g' : Nat → Except AsmErr (List Item × Nat)}
    (h : NoFuel (seqRes r g)) (hg : ∀ k, NoFuel (g k) → g' k = g k) : seqRes r g' = seqRes r g := by
  cases r with
  | error e => rfl
  | ok p =>
    obtain ⟨xs, k1⟩ := p
    have := hg k1 (seqRes_nofuel_right h)
    simp only [seqRes, this]

theorem flattenAll_cons_eq (rnd : Nat → Nat) (f : Nat) (ms : List (String × MacroDef)) (k : Nat) (o : RawOp) (os : RawOps) :
    flattenAll rnd (f + 1) ms k (.cons o os) =
      seqRes (flattenOp rnd f ms 0 k o) (fun k' => flattenAll rnd f ms k' os) := by
  simp only [flattenAll, seqRes]
  rfl

theorem flattenAll_zero_fuel (rnd : Nat → Nat) (ms : List (String × MacroDef)) (k : Nat) (ops : RawOps) :
    ¬ NoFuel (flattenAll rnd 0 ms k ops) := by
  intro h; exact h (by simp [flattenAll])

/-- a concatenation, run with the fuel `f`: the two halves in sequence (whatever the answer, but the fuel running out) -/
theorem flattenAll_append_eq (rnd : Nat → Nat) (ms : List (String × MacroDef)) (b : List RawOp) :
    ∀ (a : List RawOp) f k, NoFuel (flattenAll rnd f ms k (RawOps.ofList (a ++ b))) →
      flattenAll rnd f ms k (RawOps.ofList (a ++ b)) =
        seqRes (flattenAll rnd f ms k (RawOps.ofList a)) (fun k1 => flattenAll rnd f ms k1 (RawOps.ofList b)) := by
  intro a
  induction a with
  | nil =>
    intro f k h
    cases f with
    | zero => exact absurd h (flattenAll_zero_fuel _ _ _ _)
    | succ f =>
      have : flattenAll rnd (f + 1) ms k (RawOps.ofList []) = .ok ([], k) := by simp only [RawOps.ofList, flattenAll]
      rw [this, seqRes_nil]; rfl
  | cons o a ih =>
    intro f k h
    cases f with
    | zero => exact absurd h (flattenAll_zero_fuel _ _ _ _)
    | succ f =>
      simp only [List.cons_append, RawOps.ofList] at h ⊢
      rw [flattenAll_cons_eq] at h ⊢
      rw [flattenAll_cons_eq, seqRes_assoc]
      cases ho : flattenOp rnd f ms 0 k o with
      | error e => rfl
      | ok p =>
        obtain ⟨xs, k'⟩ := p
        rw [ho] at h
        have h' : NoFuel (flattenAll rnd f ms k' (RawOps.ofList (a ++ b))) := seqRes_nofuel_right h
        have e1 := ih f k' h'
        have e2 : seqRes (flattenAll rnd f ms k' (RawOps.ofList a)) (fun k1 => flattenAll rnd (f + 1) ms k1 (RawOps.ofList b)) =
            seqRes (flattenAll rnd f ms k' (RawOps.ofList a)) (fun k1 => flattenAll rnd f ms k1 (RawOps.ofList b)) :=
          seqRes_congr (by rw [← e1]; exact h') (fun k1 hk => (specFuelMono rnd f).2.2.2.1 _ _ _ hk)
        show seqRes (.ok (xs, k')) (fun _ => flattenAll rnd f ms k' (RawOps.ofList (a ++ b))) =
          seqRes (.ok (xs, k')) (fun _ => seqRes (flattenAll rnd f ms k' (RawOps.ofList a))
            (fun k1 => flattenAll rnd (f + 1) ms k1 (RawOps.ofList b)))
        rw [e1, e2]

/-- an item and the rest, each with enough fuel, in sequence -/
theorem flattenAll_cons_join (rnd : Nat → Nat) (ms : List (String × MacroDef)) (f1 f2 k : Nat) (o : RawOp) (os : RawOps)
    (h : NoFuel (seqRes (flattenOp rnd f1 ms 0 k o) (fun k' => flattenAll rnd f2 ms k' os))) :
    flattenAll rnd (max f1 f2 + 1) ms k (.cons o os) =
      seqRes (flattenOp rnd f1 ms 0 k o) (fun k' => flattenAll rnd f2 ms k' os) := by
  rw [flattenAll_cons_eq, flattenOp_fuel_le rnd (Nat.le_max_left f1 f2) (seqRes_nofuel_left h)]
  exact seqRes_congr h (fun k1 hk => flattenAll_fuel_le rnd (Nat.le_max_right f1 f2) hk)

/-- the two halves, each with enough fuel, in sequence: some fuel runs the concatenation to the same answer -/
theorem flattenAll_append_join_any (rnd : Nat → Nat) (ms : List (String × MacroDef)) (b : List RawOp) (f2 : Nat) :
    ∀ (a : List RawOp) f1 k,
      NoFuel (seqRes (flattenAll rnd f1 ms k (RawOps.ofList a)) (fun k1 => flattenAll rnd f2 ms k1 (RawOps.ofList b))) →
      ∃ f, flattenAll rnd f ms k (RawOps.ofList (a ++ b)) =
        seqRes (flattenAll rnd f1 ms k (RawOps.ofList a)) (fun k1 => flattenAll rnd f2 ms k1 (RawOps.ofList b)) := by
  intro a
  induction a with
  | nil =>
    intro f1 k h
    cases f1 with
    | zero => exact absurd (seqRes_nofuel_left h) (flattenAll_zero_fuel _ _ _ _)
    | succ f1 =>
      have : flattenAll rnd (f1 + 1) ms k (RawOps.ofList []) = .ok ([], k) := by simp only [RawOps.ofList, flattenAll]
      rw [this, seqRes_nil]
      exact ⟨f2, rfl⟩
  | cons o a ih =>
    intro f1 k h
    cases f1 with
    | zero => exact absurd (seqRes_nofuel_left h) (flattenAll_zero_fuel _ _ _ _)
    | succ f1 =>
      simp only [List.cons_append, RawOps.ofList] at h ⊢
      rw [flattenAll_cons_eq, seqRes_assoc] at h ⊢
      cases ho : flattenOp rnd f1 ms 0 k o with
      | error e =>
        refine ⟨f1 + 1, ?_⟩
        rw [flattenAll_cons_eq, ho]; rfl
      | ok p =>
        obtain ⟨xs, k'⟩ := p
        rw [ho] at h
        have h' : NoFuel (seqRes (flattenAll rnd f1 ms k' (RawOps.ofList a))
            (fun k1 => flattenAll rnd f2 ms k1 (RawOps.ofList b))) := seqRes_nofuel_right h
        obtain ⟨f, hf⟩ := ih f1 k' h'
        refine ⟨max f1 f + 1, ?_⟩
        have hj := flattenAll_cons_join rnd ms f1 f k o (RawOps.ofList (a ++ b)) (by
          rw [ho]
          show NoFuel (seqRes (.ok (xs, k')) (fun _ => flattenAll rnd f ms k' (RawOps.ofList (a ++ b))))
          rw [hf]; exact h)
        rw [hj, ho]
        show seqRes (.ok (xs, k')) (fun _ => flattenAll rnd f ms k' (RawOps.ofList (a ++ b))) = _
        rw [hf]
        rfl

/-! ### plain items; the invocation step -/

theorem flattenOp_plain_total (rnd : Nat → Nat) (ms : List (String × MacroDef)) (o : AOp)
    (hplain : match o with | .macro _ _ => False | _ => True) :
    ∃ xs, ∀ f d k, flattenOp rnd (f + 1) ms d k (.op o) = .ok (xs, k) := by
  cases o with
  | «macro» name args => exact hplain.elim
  | label l => exact ⟨[.label l], fun f d k => by simp only [flattenOp]⟩
  | instrDef a b c => exact ⟨[], fun f d k => by simp only [flattenOp]⟩
  | exprDef a b c => exact ⟨[], fun f d k => by simp only [flattenOp]⟩
  | op c i => exact ⟨[.op c i], fun f d k => by simp only [flattenOp]⟩
  | push e => exact ⟨[.push e], fun f d k => by simp only [flattenOp]⟩

/-- plain items flatten to the same items whatever the counter, which they leave alone; no error but the fuel -/
theorem flattenAll_plain_total (rnd : Nat → Nat) (ms : List (String × MacroDef)) :
    ∀ (pre : List AOp) (_ : ∀ o ∈ pre, match o with | .macro _ _ => False | _ => True),
      ∃ xs, (∀ f k, NoFuel (flattenAll rnd f ms k (RawOps.ofList (pre.map RawOp.op))) →
          flattenAll rnd f ms k (RawOps.ofList (pre.map RawOp.op)) = .ok (xs, k)) ∧
        ∀ f k, flattenAll rnd (f + pre.length + 1) ms k (RawOps.ofList (pre.map RawOp.op)) = .ok (xs, k) := by
  intro pre
  induction pre with
  | nil =>
    intro _
    refine ⟨[], ?_, ?_⟩
    · intro f k h
      cases f with
      | zero => exact absurd h (flattenAll_zero_fuel _ _ _ _)
      | succ f => simp only [List.map, RawOps.ofList, flattenAll]
    · intro f k; simp only [List.map, RawOps.ofList, flattenAll]
  | cons o pre ih =>
    intro hplain
    obtain ⟨xs, h1, h2⟩ := ih (fun o ho => hplain o (List.mem_cons_of_mem _ ho))
    obtain ⟨x, hx⟩ := flattenOp_plain_total rnd ms o (hplain o (List.mem_cons_self ..))
    refine ⟨x ++ xs, ?_, ?_⟩
    · intro f k h
      cases f with
      | zero => exact absurd h (flattenAll_zero_fuel _ _ _ _)
      | succ f =>
        simp only [List.map, RawOps.ofList] at h ⊢
        rw [flattenAll_cons_eq] at h ⊢
        cases f with
        | zero => exact absurd (seqRes_nofuel_left h) (fun hn => hn (by simp [flattenOp]))
        | succ f =>
          rw [hx] at h ⊢
          have h' : NoFuel (flattenAll rnd (f + 1) ms k (RawOps.ofList (pre.map RawOp.op))) := seqRes_nofuel_right h
          simp only [seqRes, h1 _ _ h']
    · intro f k
      simp only [List.map, RawOps.ofList, List.length_cons]
      have : f + (pre.length + 1) + 1 = (f + pre.length + 1) + 1 := by omega
      rw [this, flattenAll_cons_eq, hx]
      simp only [seqRes, h2]

/-- the invocation step: `flattenOp → flattenMacro → instantiate → flattenBody` one level down -/
theorem flattenOp_invocation (rnd : Nat → Nat) (f : Nat) (ms : List (String × MacroDef)) (k : Nat)
    (name : String) (args : List Expr) (params : List String) (body body' : List AOp) (k' : Nat)
    (hm : lookupMacro ms name = some (.instr params body))
    (hinst : instantiate rnd name params body args k = .ok (body', k')) :
    flattenOp rnd (f + 2) ms 0 k (.op (.macro name args)) = flattenBody rnd f ms 1 k' body' := by
  have harity : ¬ params.length ≠ args.length := by
    intro hne
    unfold instantiate at hinst
    rw [if_pos hne] at hinst
    cases hinst
  simp only [flattenOp, flattenMacro]
  rw [hm]
  simp only []
  rw [if_neg harity, if_neg (by decide : ¬ 0 ≥ maxMacroDepth), hinst]

theorem flattenOp_invocation_fuel (rnd : Nat → Nat) (f : Nat) (ms : List (String × MacroDef)) (d k : Nat)
    (name : String) (args : List Expr) (h : NoFuel (flattenOp rnd f ms d k (.op (.macro name args)))) :
    ∃ f2, f = f2 + 2 := by
  cases f with
  | zero => exact absurd (by simp [flattenOp]) h
  | succ f =>
    cases f with
    | zero => exact absurd (by simp [flattenOp, flattenMacro]) h
    | succ f => exact ⟨f, rfl⟩

/-- an error after plain items is the error of the whole, with the fuel the plain items take on top -/
theorem flattenAll_plain_prefix_error (rnd : Nat → Nat) (ms : List (String × MacroDef)) (rest : List RawOp) (g k : Nat)
    (e : AsmErr) (hrest : flattenAll rnd (g + 1) ms k (RawOps.ofList rest) = .error e) :
    ∀ (pre : List AOp) (_ : ∀ o ∈ pre, match o with | .macro _ _ => False | _ => True),
      flattenAll rnd (g + 1 + pre.length) ms k (RawOps.ofList (pre.map RawOp.op ++ rest)) = .error e := by
  intro pre
  induction pre with
  | nil => intro _; simpa using hrest
  | cons o pre ih =>
    intro hplain
    obtain ⟨x, hx⟩ := flattenOp_plain_total rnd ms o (hplain o (List.mem_cons_self ..))
    have hi := ih (fun o ho => hplain o (List.mem_cons_of_mem _ ho))
    simp only [List.map, List.cons_append, RawOps.ofList, List.length_cons]
    have e1 : g + 1 + (pre.length + 1) = (g + 1 + pre.length) + 1 := by omega
    have e2 : g + 1 + pre.length = (g + pre.length) + 1 := by omega
    rw [e1, flattenAll_cons_eq]
    have hx' : flattenOp rnd (g + 1 + pre.length) ms 0 k (.op o) = .ok (x, k) := by rw [e2]; exact hx _ _ _
    rw [hx']
    simp only [seqRes, hi]

/-- after plain items (which flatten to `xs`), the rest: some fuel runs the whole to the answer of the rest behind `xs` -/
theorem flattenAll_plain_prefix_join (rnd : Nat → Nat) (ms : List (String × MacroDef))
    (pre : List AOp)
    (xs : List Item) (hxs : ∀ f k, flattenAll rnd (f + pre.length + 1) ms k (RawOps.ofList (pre.map RawOp.op)) = .ok (xs, k))
    (rest : List RawOp) (f2 k : Nat) (h : NoFuel (flattenAll rnd f2 ms k (RawOps.ofList rest))) :
    ∃ f, flattenAll rnd f ms k (RawOps.ofList (pre.map RawOp.op ++ rest)) =
      seqRes (.ok (xs, 0)) (fun _ => flattenAll rnd f2 ms k (RawOps.ofList rest)) := by
  have hn : NoFuel (seqRes (flattenAll rnd (0 + pre.length + 1) ms k (RawOps.ofList (pre.map RawOp.op)))
      (fun k1 => flattenAll rnd f2 ms k1 (RawOps.ofList rest))) := by
    rw [hxs]
    intro hc
    apply h
    simp only [seqRes] at hc
    cases hr : flattenAll rnd f2 ms k (RawOps.ofList rest) with
    | error e => rw [hr] at hc; exact hc
    | ok p => rw [hr] at hc; simp at hc
  obtain ⟨f, hf⟩ := flattenAll_append_join_any rnd ms rest f2 _ _ _ hn
  exact ⟨f, by rw [hf, hxs]; rfl⟩

end Spec


theorem flatten_invocation_rejects (rnd : Nat → Nat) (fuel : Nat) (ms : List (String × MacroDef)) (k : Nat)
    (pre : List AOp) (name : String) (args : List Expr) (post : RawOps)
    (hplain : ∀ o ∈ pre, match o with | .macro _ _ => False | _ => True) :
    ((∀ params body, lookupMacro ms name ≠ some (.instr params body)) →
      Spec.flattenAll rnd (fuel + pre.length + 3) ms k
        (RawOps.ofList (pre.map RawOp.op ++ RawOp.op (.macro name args) :: post.toList)) =
        .error (.undeclaredInstructionMacro name)) ∧
    (∀ params body, lookupMacro ms name = some (.instr params body) → params.length ≠ args.length →
      Spec.flattenAll rnd (fuel + pre.length + 3) ms k
        (RawOps.ofList (pre.map RawOp.op ++ RawOp.op (.macro name args) :: post.toList)) =
        .error (.macroArgumentCount name)) ∧
    (∀ params body e, lookupMacro ms name = some (.instr params body) → params.length = args.length →
      instantiate rnd name params body args k = .error e →
      Spec.flattenAll rnd (fuel + pre.length + 3) ms k
        (RawOps.ofList (pre.map RawOp.op ++ RawOp.op (.macro name args) :: post.toList)) = .error e) := by
  have hfu : fuel + pre.length + 3 = (fuel + 2) + 1 + pre.length := by omega
  -- it suffices that the invocation itself is rejected
  have key : ∀ e, Spec.flattenOp rnd (fuel + 2) ms 0 k (.op (.macro name args)) = .error e →
      Spec.flattenAll rnd (fuel + pre.length + 3) ms k
        (RawOps.ofList (pre.map RawOp.op ++ RawOp.op (.macro name args) :: post.toList)) = .error e := by
    intro e he
    rw [hfu]
    refine Spec.flattenAll_plain_prefix_error rnd ms _ _ k e ?_ pre hplain
    simp only [RawOps.ofList]
    rw [Spec.flattenAll_cons_eq, he]
    rfl
  refine ⟨?_, ?_, ?_⟩
  · intro hno
    apply key
    rw [Spec.flattenOp, Spec.flattenMacro]
    cases hl : lookupMacro ms name with
    | none => rfl
    | some md =>
      cases md with
      | expr ps b => rfl
      | instr params body => exact absurd hl (hno params body)
  · intro params body hm hne
    apply key
    simp only [Spec.flattenOp, Spec.flattenMacro]
    rw [hm]
    simp only []
    rw [if_pos hne]
  · intro params body e hm harity hinst
    apply key
    simp only [Spec.flattenOp, Spec.flattenMacro]
    rw [hm]
    simp only []
    rw [if_neg (fun hne => hne harity), if_neg (by decide : ¬ 0 ≥ maxMacroDepth), hinst]

theorem flatten_invocation_error (rnd : Nat → Nat) (fuel : Nat) (ms : List (String × MacroDef)) (k : Nat)
    (pre : List AOp) (name : String) (args : List Expr) (post : RawOps)
    (params : List String) (body body' : List AOp) (k' : Nat)
    (hplain : ∀ o ∈ pre, match o with | .macro _ _ => False | _ => True)
    (hm : lookupMacro ms name = some (.instr params body))
    (hinst : instantiate rnd name params body args k = .ok (body', k'))
    (e : AsmErr) (hrec : ∀ n, e ≠ .macroRecursionLimit n) (hfuel : e ≠ .panic "fuel")
    (h : Spec.flattenAll rnd fuel ms k
          (RawOps.ofList (pre.map RawOp.op ++ RawOp.op (.macro name args) :: post.toList)) = .error e) :
    ∃ fuel', Spec.flattenAll rnd fuel' ms k'
          (RawOps.ofList (pre.map RawOp.op ++ body'.map RawOp.op ++ post.toList)) = .error e := by
  have hne : NoFuel (Except.error e : Except AsmErr (List Item × Nat)) := by
    intro hc; injection hc with hc; exact hfuel hc
  obtain ⟨xs, hxs1, hxs2⟩ := Spec.flattenAll_plain_total rnd ms pre hplain
  -- split the run at the invocation
  have hne0 := hne
  rw [← h] at hne0
  rw [Spec.flattenAll_append_eq rnd ms _ _ _ _ hne0] at h
  have hne1 := hne
  rw [← h] at hne1
  rw [hxs1 _ _ (Spec.seqRes_nofuel_left hne1)] at h
  have hX := Spec.seqRes_ok_error h
  simp only [RawOps.ofList] at hX
  cases fuel with
  | zero => exact absurd (by rw [← hX] at hne; exact hne) (Spec.flattenAll_zero_fuel _ _ _ _)
  | succ f0 =>
    rw [Spec.flattenAll_cons_eq] at hX
    have hne2 := hne
    rw [← hX] at hne2
    obtain ⟨f2, rfl⟩ := Spec.flattenOp_invocation_fuel rnd f0 ms 0 k name args (Spec.seqRes_nofuel_left hne2)
    rw [Spec.flattenOp_invocation rnd f2 ms k name args params body body' k' hm hinst] at hX hne2
    rcases (Spec.flatten_depth_succ rnd f2).2.2 ms 0 k' body' with hd | ⟨n, hd⟩
    · rw [hd, Spec.flattenBody_zero_eq] at hX hne2
      obtain ⟨g1, hg1⟩ := Spec.flattenAll_append_join_any rnd ms _ _ _ _ _ hne2
      rw [hX] at hg1
      obtain ⟨g2, hg2⟩ := Spec.flattenAll_plain_prefix_join rnd ms pre xs hxs2
        (body'.map RawOp.op ++ post.toList) g1 k' (by rw [hg1]; exact hne)
      refine ⟨g2, ?_⟩
      rw [List.append_assoc, hg2, hg1]
      rfl
    · rw [hd, Spec.seqRes_error] at hX
      injection hX with hX
      exact absurd hX.symm (hrec n)

theorem flatten_invocation_conv (rnd : Nat → Nat) (fuel : Nat) (ms : List (String × MacroDef)) (k : Nat)
    (pre : List AOp) (name : String) (args : List Expr) (post : RawOps)
    (params : List String) (body body' : List AOp) (k' : Nat)
    (hplain : ∀ o ∈ pre, match o with | .macro _ _ => False | _ => True)
    (hm : lookupMacro ms name = some (.instr params body)) (harity : params.length = args.length)
    (hinst : instantiate rnd name params body args k = .ok (body', k'))
    (res : Except AsmErr (List Item × Nat)) (hfuel : res ≠ .error (.panic "fuel"))
    (h : Spec.flattenAll rnd fuel ms k'
          (RawOps.ofList (pre.map RawOp.op ++ body'.map RawOp.op ++ post.toList)) = res) :
    ∃ fuel', Spec.flattenAll rnd fuel' ms k
          (RawOps.ofList (pre.map RawOp.op ++ RawOp.op (.macro name args) :: post.toList)) = res ∨
      ∃ n, Spec.flattenAll rnd fuel' ms k
          (RawOps.ofList (pre.map RawOp.op ++ RawOp.op (.macro name args) :: post.toList)) = .error (.macroRecursionLimit n) := by
  subst h
  have _ := harity  -- implied by `hinst` (`instantiate` checks the arity itself)
  have hne0 : NoFuel (Spec.flattenAll rnd fuel ms k'
      (RawOps.ofList (pre.map RawOp.op ++ body'.map RawOp.op ++ post.toList))) := hfuel
  obtain ⟨xs, hxs1, hxs2⟩ := Spec.flattenAll_plain_total rnd ms pre hplain
  -- the expanded run: plain items, the body (at depth 0), the rest
  rw [List.append_assoc] at hne0 ⊢
  have e0 := Spec.flattenAll_append_eq rnd ms _ _ _ _ hne0
  rw [e0] at hne0 ⊢
  have e1 := hxs1 _ _ (Spec.seqRes_nofuel_left hne0)
  rw [e1] at hne0 ⊢
  have hne1 : NoFuel (Spec.flattenAll rnd fuel ms k' (RawOps.ofList (body'.map RawOp.op ++ post.toList))) :=
    Spec.seqRes_nofuel_right hne0
  have hX := Spec.flattenAll_append_eq rnd ms _ _ _ _ hne1
  rw [← Spec.flattenBody_zero_eq] at hX
  rw [hX] at hne1
  -- the invocation runs the body one level down
  have hop := Spec.flattenOp_invocation rnd fuel ms k name args params body body' k' hm hinst
  rcases (Spec.flatten_depth_succ rnd fuel).2.2 ms 0 k' body' with hd | ⟨n, hd⟩
  · rw [hd] at hop
    rw [← hop] at hX hne1
    have hj := Spec.flattenAll_cons_join rnd ms _ _ _ _ _ hne1
    rw [← hX] at hj
    obtain ⟨g, hg⟩ := Spec.flattenAll_plain_prefix_join rnd ms pre xs hxs2
      (RawOp.op (.macro name args) :: post.toList) _ k (by
        simp only [RawOps.ofList]; rw [hj, hX]; exact hne1)
    refine ⟨g, Or.inl ?_⟩
    rw [hg]
    simp only [RawOps.ofList]
    rw [hj]
    rfl
  · rw [hd] at hop
    have hj : Spec.flattenAll rnd (fuel + 2 + 1) ms k (RawOps.ofList (RawOp.op (.macro name args) :: post.toList)) =
        .error (.macroRecursionLimit n) := by
      simp only [RawOps.ofList]
      rw [Spec.flattenAll_cons_eq, hop]
      rfl
    obtain ⟨g, hg⟩ := Spec.flattenAll_plain_prefix_join rnd ms pre xs hxs2
      (RawOp.op (.macro name args) :: post.toList) _ k (by
        rw [hj]; intro hc; injection hc with hc; cases hc)
    refine ⟨g, Or.inr ⟨n, ?_⟩⟩
    rw [hg, hj]
    rfl

end Asm
end EtkVerif
