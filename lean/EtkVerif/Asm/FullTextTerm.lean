/-
The leaf terms of an X-expression through the rule `term`: numbers, negative decimals and
labels (ported from ExprTextTerm.lean to the stop characters that include `,`), `$variables`,
`selector("…")` / `topic("…")`.
-/
import EtkVerif.Asm.FullTextBase
namespace EtkVerif
namespace Asm
namespace FullText
open Pest Listing ExprText
open Layout (Suf)

variable {text : List Nat} {p : Nat} {s : List Nat}

/-- the second character of a decimal literal followed by a stop character is not a letter -/
theorem xdec_prefix_fail {c : Nat} {run post : List Nat} (x : Nat) (hr : ∀ y ∈ c :: run, isDec y = true)
    (hpost : XHeadStop post) (hx : isDec x = false) (hx2 : ¬ XStopC x) :
    List.isPrefixOf [48, x] (c :: run ++ post) = false := by
  cases run with
  | nil =>
    cases post with
    | nil => simp [List.isPrefixOf]
    | cons e post' =>
      have he := hpost e post' rfl
      have : x ≠ e := fun h => hx2 (h ▸ he)
      simp [List.isPrefixOf, this]
  | cons c2 run =>
    have h2 : isDec c2 = true := hr c2 (by simp)
    have : x ≠ c2 := fun h => by rw [h, h2] at hx; cases hx
    simp [List.isPrefixOf, this]



theorem xnum34 (r : Radix) (ds post : List Nat) (hwf : (XTerm.num r ds).WF)
    (hs : Suf text p (r.pre ++ ds ++ post)) (hpost : XHeadStop post) :
    Ev (envOf text) (ds.length + 20) (.ref 34) .nonAtomic false p
      (some (p + (r.pre.length + ds.length), [xtermPair p (.num r ds)])) := by
  simp only [XTerm.WF] at hwf
  obtain ⟨hmin, hdig⟩ := hwf
  have hf := headIs_xstop hpost
  simp only [xtermPair]
  cases r with
  | bin =>
    cases ds with
    | nil => simp [Radix.minDigits] at hmin
    | cons c run =>
      have hs' : Suf text p ([48, 98] ++ (c :: run ++ post)) := by rw [← List.append_assoc]; exact hs
      have hr : ∀ x ∈ c :: run, isBin x = true := fun x hx => toDigit_bin (hdig x hx)
      have h := ev35_ok hs' hr hf.2.1
      have e1 : p + 2 + (run.length + 1) = p + ((Radix.pre .bin).length + (c :: run).length) := by
        simp [Radix.pre]; omega
      rw [e1] at h
      exact (evr (gr34' text) (by omega) (Ev.alt_l (Ev.alt_l (Ev.alt_l h (d := run.length + 9))
        (d := run.length + 10)) (d := run.length + 11)) (d := run.length + 12)).mono (by simp only [List.length_cons]; omega)
  | oct =>
    cases ds with
    | nil => simp [Radix.minDigits] at hmin
    | cons c run =>
      have hs' : Suf text p ([48, 111] ++ (c :: run ++ post)) := by rw [← List.append_assoc]; exact hs
      have hr : ∀ x ∈ c :: run, isOct x = true := fun x hx => toDigit_oct (hdig x hx)
      have h := ev36_ok hs' hr hf.2.2.1
      have e1 : p + 2 + (run.length + 1) = p + ((Radix.pre .oct).length + (c :: run).length) := by
        simp [Radix.pre]; omega
      rw [e1] at h
      have f35 := ev35_fail hs' (by simp [List.isPrefixOf] : List.isPrefixOf [48, 98] ([48, 111] ++ (c :: run ++ post)) = false)
      exact (evr (gr34' text) (by omega) (Ev.alt_l (Ev.alt_l (Ev.alt_r f35 h (d := run.length + 9))
        (d := run.length + 10)) (d := run.length + 11)) (d := run.length + 12)).mono (by simp only [List.length_cons]; omega)
  | hex =>
    cases ds with
    | nil => simp [Radix.minDigits] at hmin
    | cons c1 ds =>
      cases ds with
      | nil => simp [Radix.minDigits] at hmin
      | cons c2 run =>
        have hs' : Suf text p ([48, 120] ++ (c1 :: (c2 :: run ++ post))) := by simpa [Radix.pre] using hs
        have hr : ∀ x ∈ c1 :: c2 :: run, isHex x = true := fun x hx => toDigit_hex (hdig x hx)
        have h := ev38_ok hs' hr hf.2.2.2.1
        have e1 : p + 2 + 1 + (run.length + 1) = p + ((Radix.pre .hex).length + (c1 :: c2 :: run).length) := by
          simp [Radix.pre]; omega
        rw [e1] at h
        have f35 := ev35_fail hs' (by simp [List.isPrefixOf] :
          List.isPrefixOf [48, 98] ([48, 120] ++ (c1 :: (c2 :: run ++ post))) = false)
        have f36 := ev36_fail hs' (by simp [List.isPrefixOf] :
          List.isPrefixOf [48, 111] ([48, 120] ++ (c1 :: (c2 :: run ++ post))) = false)
        exact (evr (gr34' text) (by omega) (Ev.alt_l (Ev.alt_r (Ev.alt_r f35 f36 (d := 4)) h (d := run.length + 10))
          (d := run.length + 11)) (d := run.length + 12)).mono (by simp only [List.length_cons]; omega)
  | dec =>
    cases ds with
    | nil => simp [Radix.minDigits] at hmin
    | cons c run =>
      have hs' : Suf text p (c :: run ++ post) := hs
      have hr : ∀ x ∈ c :: run, isDec x = true := fun x hx => toDigit_dec (hdig x hx)
      have h := ev37_ok hs' hr hf.1
      have e1 : p + (run.length + 1) = p + ((Radix.pre .dec).length + (c :: run).length) := by
        simp [Radix.pre]
      rw [e1] at h
      have hp' : XHeadStop post := hpost
      have nstop : ∀ x, x = 98 ∨ x = 111 ∨ x = 120 → isDec x = false ∧ ¬ XStopC x := by
        intro x hx
        rcases hx with h | h | h <;> subst h <;> refine ⟨by decide, ?_⟩ <;> intro hc <;>
          rcases hc with (h | h | h | h | h | h | h | h | h | h | h) | h <;> cases h
      have f35 := ev35_fail hs' (xdec_prefix_fail 98 hr hp' (nstop 98 (by simp)).1 (nstop 98 (by simp)).2)
      have f36 := ev36_fail hs' (xdec_prefix_fail 111 hr hp' (nstop 111 (by simp)).1 (nstop 111 (by simp)).2)
      have f38 := ev38_fail hs' (xdec_prefix_fail 120 hr hp' (nstop 120 (by simp)).1 (nstop 120 (by simp)).2)
      exact (evr (gr34' text) (by omega) (Ev.alt_r (Ev.alt_r (Ev.alt_r f35 f36 (d := 4)) f38 (d := 5)) h
        (d := run.length + 11)) (d := run.length + 12)).mono (by simp only [List.length_cons]; omega)

/-! ### negative decimals, labels, function names -/






/-- `expression_macro` on a label: the name is read as a function name, then `(` is missing -/
theorem xev26_fail {c : Nat} {run G rest : List Nat} (hs : Suf text p (c :: (run ++ (G ++ rest))))
    (hc : isAl c = true) (hr : ∀ x ∈ run, isLb x = true) (hG : GapG G rest) (hE : XEndC rest) :
    Ev (envOf text) (run.length + G.length + 115) (.ref 26) .nonAtomic false p none := by
  have haf : XAfter (G ++ rest) := ⟨G, rest, rfl, hG, hE⟩
  have h32 := ev32_ok hs hc hr (headIs_xafter haf).2
  have hs2 : Suf text (p + 1 + run.length) (G ++ rest) := hs.tail.app
  have hsk := skip_gapG hG hs2
  have hs3 : Suf text (p + 1 + run.length + G.length) rest := hs2.app
  have hstr : Ev (envOf text) 1 (.str [40]) .nonAtomic false (p + 1 + run.length + G.length) none :=
    ev_str_fail hs3 (by
      cases rest with
      | nil => simp [List.isPrefixOf]
      | cons d t =>
        have hd40 : d ≠ 40 := by
          rcases hE d t rfl with h | h | h | h
          · rcases h with (h | h | h | h | h) | h <;> subst h <;> decide
          · subst h; decide
          · subst h; decide
          · subst h; decide
        have : (40 : Nat) ≠ d := fun h => hd40 h.symm
        simp [List.isPrefixOf, this])
  have h1 := Ev.seq_fail2 h32 hsk hstr (d := run.length + G.length + 100)
  have h31 := evr (gr31 text) (by omega)
    (Ev.seq_fail1 (Ev.seq_fail1 h1 (d := run.length + G.length + 101)
      (b := .opt (.seq (.ref 41) (.star (.seq (.str [44]) (.ref 41))))))
      (d := run.length + G.length + 103) (b := .str [41])) (d := run.length + G.length + 104) (at_ := .nonAtomic)
  exact (evr (gr26 text) (by omega) h31 (d := run.length + G.length + 106)).mono (by omega)

theorem xlb_prefix_fail (b : List Nat) : ∀ (a : List Nat), (∀ c ∈ a, isLb c = true) → ∀ (n post : List Nat),
    (∀ c ∈ n, isLb c = true) → XHeadStop post →
    List.isPrefixOf (a ++ 40 :: b) (n ++ post) = false
  | [], _, [], [], _, _ => by simp
  | [], _, [], e :: post', _, hp => by
    have he := hp e post' rfl
    have : (40 : Nat) ≠ e := fun h => (xstopC_facts he).2.2.2.2.2.1 h.symm
    simp [List.isPrefixOf, this]
  | [], _, n0 :: n, post, hn, _ => by
    have h0 : isLb n0 = true := hn n0 (by simp)
    have : (40 : Nat) ≠ n0 := fun h => by rw [← h] at h0; revert h0; decide
    simp [List.isPrefixOf, this]
  | a0 :: a, ha, [], [], _, _ => by simp
  | a0 :: a, ha, [], e :: post', _, hp => by
    have he := hp e post' rfl
    have h0 : isLb a0 = true := ha a0 (by simp)
    have : a0 ≠ e := fun h => by rw [h, (xstopC_facts he).2.2.2.2.1] at h0; cases h0
    simp [List.isPrefixOf, this]
  | a0 :: a, ha, n0 :: n, post, hn, hp => by
    have ih := xlb_prefix_fail b a (fun c hc => ha c (by simp [hc])) n post (fun c hc => hn c (by simp [hc])) hp
    simp only [List.cons_append, List.isPrefixOf, ih, Bool.and_false]




/-! ### the leaf terms through `term` -/



theorem xterm_label (n post : List Nat) (hwf : IsLabel n) (hs : Suf text p (n ++ post)) (hpost : XAfter post) :
    Ev (envOf text) (n.length + post.length + 130) (.ref 42) .nonAtomic false p
      (some (p + n.length, [xtermPair p (.label n)])) := by
  obtain ⟨c, run, rfl, hc, hr⟩ := isLabel_split hwf
  obtain ⟨G, rest, rfl, hG, hE⟩ := hpost
  have haf : XAfter (G ++ rest) := ⟨G, rest, rfl, hG, hE⟩
  have hs' : Suf text p (c :: (run ++ (G ++ rest))) := hs
  have hlb : ∀ x ∈ c :: run, isLb x = true := by
    intro x hx
    rcases List.mem_cons.mp hx with h | h
    · rw [h]; exact isLb_of_isAl hc
    · exact hr x h
  have e12 := ev12_fail hs' (by
    have : (36 : Nat) ≠ c := fun h => by rw [← h] at hc; revert hc; decide
    simp [List.isPrefixOf, this])
  have e27 := ev27_fail hs (xlb_prefix_fail [34] [115, 101, 108, 101, 99, 116, 111, 114] (by decide)
    (c :: run) _ hlb haf.headStop)
  have e28 := ev28_fail hs (xlb_prefix_fail [34] [116, 111, 112, 105, 99] (by decide) (c :: run) _ hlb haf.headStop)
  have e26 := xev26_fail hs' hc hr hG hE
  have e39 := ev39_ok hs' hc hr (headIs_xafter haf).2
  have h4 : Ev (envOf text) (run.length + G.length + 120) termAlt4 .nonAtomic false p _ :=
    Ev.alt_r (Ev.alt_r (Ev.alt_r (Ev.alt_r e12 e27 (d := 5)) e28 (d := 6)) e26
      (d := run.length + G.length + 115)) e39 (d := run.length + G.length + 119)
  have h5 : Ev (envOf text) (run.length + G.length + 121) termAlt5 .nonAtomic false p _ := Ev.alt_l h4
  have h6 : Ev (envOf text) (run.length + G.length + 122) termAlt6 .nonAtomic false p _ := Ev.alt_l h5
  have h7 : Ev (envOf text) (run.length + G.length + 123) termBody .nonAtomic false p _ := Ev.alt_l h6
  have h := evr (gr42' text) (by omega) h7 (d := run.length + G.length + 123) (at_ := .nonAtomic)
  have e1 : p + 1 + run.length = p + (c :: run).length := by simp only [List.length_cons]; omega
  rw [e1] at h
  simp only [xtermPair]
  exact h.mono (by simp only [List.length_cons, List.length_append]; omega)

theorem xterm_neg (ds post : List Nat) (hwf : (XTerm.neg ds).WF) (hs : Suf text p (45 :: ds ++ post))
    (hpost : XAfter post) :
    Ev (envOf text) (ds.length + 40) (.ref 42) .nonAtomic false p
      (some (p + (1 + ds.length), [xtermPair p (.neg ds)])) := by
  simp only [XTerm.WF] at hwf
  obtain ⟨hmin, hdig⟩ := hwf
  cases ds with
  | nil => simp at hmin
  | cons c run =>
    have hs' : Suf text p ([45] ++ (c :: run ++ post)) := hs
    have hr : ∀ x ∈ c :: run, isDec x = true := fun x hx => toDigit_dec (hdig x hx)
    have e43 := ev43_ok hs' hr (headIs_xafter hpost).1
    have f5 := alt5_fail_minus (s := c :: run ++ post) hs
    have h6 : Ev (envOf text) (run.length + 31) termAlt6 .nonAtomic false p _ := Ev.alt_r f5 e43 (d := run.length + 30)
    have h7 : Ev (envOf text) (run.length + 32) termBody .nonAtomic false p _ := Ev.alt_l h6
    have h := evr (gr42' text) (by omega) h7 (d := run.length + 32) (at_ := .nonAtomic)
    have e1 : p + 1 + (run.length + 1) = p + (1 + (c :: run).length) := by simp only [List.length_cons]; omega
    rw [e1] at h
    simp only [xtermPair]
    exact h.mono (by simp only [List.length_cons]; omega)


theorem xterm_num (r : Radix) (ds post : List Nat) (hwf : (XTerm.num r ds).WF)
    (hs : Suf text p (r.pre ++ ds ++ post)) (hpost : XAfter post) :
    Ev (envOf text) (ds.length + 40) (.ref 42) .nonAtomic false p
      (some (p + (r.pre.length + ds.length), [xtermPair p (.num r ds)])) := by
  obtain ⟨c, s', hcs, hc⟩ := num_head r ds hwf
  have hs1 : Suf text p (c :: (s' ++ post)) := by
    have := hs; rw [hcs] at this; exact this
  have f4 := alt4_fail_digit hs1 hc
  have e34 := xnum34 r ds post hwf hs hpost.headStop
  have h5 : Ev (envOf text) (ds.length + 31) termAlt5 .nonAtomic false p _ := Ev.alt_r f4 e34 (d := ds.length + 30)
  have h6 : Ev (envOf text) (ds.length + 32) termAlt6 .nonAtomic false p _ := Ev.alt_l h5
  have h7 : Ev (envOf text) (ds.length + 33) termBody .nonAtomic false p _ := Ev.alt_l h6
  exact (evr (gr42' text) (by omega) h7 (d := ds.length + 33) (at_ := .nonAtomic)).mono (by omega)

/-! ### names and parameters, whatever the caller's state -/

theorem xgr33 (text : List Nat) : (envOf text).g[33]? =
    some ⟨33, [102, 117, 110, 99, 116, 105, 111, 110, 95, 112, 97, 114, 97, 109, 101, 116, 101, 114], .atomic,
      (.seq (.ref 1008) (.star (.ref 1009)))⟩ := rfl
theorem xgr29 (text : List Nat) : (envOf text).g[29]? =
    some ⟨29, [115, 101, 108, 101, 99, 116, 111, 114, 95, 102, 117, 110, 99, 116, 105, 111, 110, 95, 100, 101, 99, 108, 97, 114, 97, 116, 105, 111, 110], .atomic,
      (.seq (.seq (.seq (.seq (.ref 32) (.str [40])) (.star (.ref 33))) (.star (.seq (.str [44]) (.ref 33)))) (.str [41]))⟩ := rfl

theorem xcharPE_alnum : CharPE text (.ref 1009) isAn 2 := by
  intro p s h f hf
  obtain ⟨f, rfl⟩ : ∃ f', f = f' + 1 + 1 := ⟨f - 2, by omega⟩
  rw [matchE.eq_11, call_alnum h]

/-- `function_name` on a name starting with a letter or `_` -/
theorem xev32 {c : Nat} {run post : List Nat} (at_ : Atom) (hs : Suf text p (c :: (run ++ post)))
    (hc : isFn c = true) (hr : ∀ x ∈ run, isLb x = true) (hstop : headIs isLb post = false) :
    Ev (envOf text) (run.length + 9) (.ref 32) at_ false p
      (outRes .atomic 32 p false at_ (some (p + 1 + run.length, []))) := by
  have h1 := charPE_ev charPE_fn hs hc
  have h2 := run_star charPE_lb run hr hs.tail hstop
  exact evr (gr32 text) (by omega) (Ev.seq h1 (sk_at _) h2 (d := run.length + 6))

/-- `function_parameter` on a parameter name -/
theorem xev33 {c : Nat} {run post : List Nat} (at_ : Atom) (hs : Suf text p (c :: (run ++ post)))
    (hc : isAl c = true) (hr : ∀ x ∈ run, isAn x = true) (hstop : headIs isAn post = false) :
    Ev (envOf text) (run.length + 9) (.ref 33) at_ false p
      (outRes .atomic 33 p false at_ (some (p + 1 + run.length, []))) := by
  have h1 := charPE_ev charPE_alpha hs hc
  have h2 := run_star xcharPE_alnum run hr hs.tail hstop
  exact evr (xgr33 text) (by omega) (Ev.seq h1 (sk_at _) h2 (d := run.length + 5))

theorem xev33_fail (at_ : Atom) (hs : Suf text p s) (h : headIs isAl s = false) :
    Ev (envOf text) 6 (.ref 33) at_ false p none := by
  cases at_ <;>
    exact (evr (xgr33 text) (by omega) (Ev.seq_fail1 (charPE_ev_fail charPE_alpha hs h) (d := 2)) (d := 3)).mono (by omega)

/-! ### `$variables` -/

theorem xterm_var (n post : List Nat) (hwf : IsParam n) (hs : Suf text p (36 :: n ++ post)) (hpost : XAfter post) :
    Ev (envOf text) (n.length + 40) (.ref 42) .nonAtomic false p
      (some (p + (1 + n.length), [xtermPair p (.var n)])) := by
  obtain ⟨c, run, rfl, hc, hr⟩ := isParam_split hwf
  have hs' : Suf text p ([36] ++ (c :: (run ++ post))) := by simpa using hs
  have h36 : Ev (envOf text) 1 (.str [36]) .atomic false p (some (p + 1, [])) := ev_str_ok hs'
  have h33 := xev33 .atomic (hs'.app : Suf text (p + 1) (c :: (run ++ post))) hc hr
    (headIs_an_of_lb (headIs_xafter hpost).2)
  have h12 : Ev (envOf text) (run.length + 13) (.ref 12) .nonAtomic false p
      (some (p + 1 + 1 + run.length, [.mk 12 p (p + 1 + 1 + run.length) []])) :=
    evr (gr12 text) (by omega) (Ev.seq h36 (sk_at _) h33 (d := run.length + 10)) (d := run.length + 11)
  have h4 : Ev (envOf text) (run.length + 17) termAlt4 .nonAtomic false p _ :=
    Ev.alt_l (Ev.alt_l (Ev.alt_l (Ev.alt_l h12 (d := run.length + 13)) (d := run.length + 14)) (d := run.length + 15))
      (d := run.length + 16)
  have h5 : Ev (envOf text) (run.length + 18) termAlt5 .nonAtomic false p _ := Ev.alt_l h4
  have h6 : Ev (envOf text) (run.length + 19) termAlt6 .nonAtomic false p _ := Ev.alt_l h5
  have h7 : Ev (envOf text) (run.length + 20) termBody .nonAtomic false p _ := Ev.alt_l h6
  have h := evr (gr42' text) (by omega) h7 (d := run.length + 20) (at_ := .nonAtomic)
  have e1 : p + 1 + 1 + run.length = p + (1 + (c :: run).length) := by simp only [List.length_cons]; omega
  rw [e1] at h
  simp only [xtermPair]
  exact h.mono (by simp only [List.length_cons]; omega)

/-! ### `selector("…")` and `topic("…")` -/

def sigTail (ts : List (List Nat)) : List Nat := ts.flatMap (fun u => 44 :: u)

theorem sigText_eq (name : List Nat) (types : List (List Nat)) :
    sigText name types = name ++ 40 :: ((match types with | [] => [] | t :: ts => t ++ sigTail ts) ++ [41]) := by
  cases types <;> simp [sigText, sigTail]

def commaParam : PE := .seq (.str [44]) (.ref 33)

theorem commaParam_fail {post : List Nat} (hs : Suf text p (41 :: post)) :
    Ev (envOf text) 2 commaParam .atomic false p none :=
  Ev.seq_fail1 (ev_str_fail hs (by simp [List.isPrefixOf])) (d := 1)

theorem commaParam_ok {c : Nat} {run post : List Nat} (hs : Suf text p (44 :: c :: (run ++ post)))
    (hc : isAl c = true) (hr : ∀ x ∈ run, isAn x = true) (hstop : headIs isAn post = false) :
    Ev (envOf text) (run.length + 10) commaParam .atomic false p (some (p + 1 + 1 + run.length, [])) := by
  have h44 : Ev (envOf text) 1 (.str [44]) .atomic false p (some (p + 1, [])) :=
    ev_str_ok (pat := [44]) (s := c :: (run ++ post)) hs
  exact Ev.seq h44 (sk_at _) (xev33 .atomic hs.tail hc hr hstop) (d := run.length + 9)

theorem sigTail_head (ts : List (List Nat)) (post : List Nat) :
    headIs isAn (sigTail ts ++ 41 :: post) = false ∧ headIs isAl (sigTail ts ++ 41 :: post) = false := by
  cases ts <;> simp [sigTail] <;> decide

theorem sigTail_rep : ∀ (ts : List (List Nat)) (p : Nat) (post : List Nat) (acc : List (List Pair)) (f : Nat),
    (∀ t ∈ ts, IsParam t) → Suf text p (sigTail ts ++ 41 :: post) → (sigTail ts).length + 20 ≤ f →
    ∃ acc', rep (envOf text) f commaParam .atomic false p acc = (p + (sigTail ts).length, acc') ∧
      acc'.reverse.flatten = acc.reverse.flatten
  | [], p, post, acc, f, _, hs, hf => by
    obtain ⟨f, rfl⟩ : ∃ f', f = f' + 1 := ⟨f - 1, by omega⟩
    refine ⟨acc, ?_, rfl⟩
    have hs' : Suf text p (41 :: post) := by simpa [sigTail] using hs
    rw [rep.eq_2, skip_atomic, commaParam_fail hs' f (by omega)]
    simp [sigTail]
  | t :: ts, p, post, acc, f, hw, hs, hf => by
    obtain ⟨f, rfl⟩ : ∃ f', f = f' + 1 := ⟨f - 1, by omega⟩
    obtain ⟨c, run, rfl, hc, hr⟩ := isParam_split (hw t (by simp))
    have hs' : Suf text p (44 :: c :: (run ++ (sigTail ts ++ 41 :: post))) := by
      simpa [sigTail] using hs
    have hlen : (sigTail ((c :: run) :: ts)).length = 1 + 1 + run.length + (sigTail ts).length := by
      simp [sigTail]; omega
    rw [hlen] at hf ⊢
    have h1 := commaParam_ok hs' hc hr (sigTail_head ts post).1
    have hs2 : Suf text (p + 1 + 1 + run.length) (sigTail ts ++ 41 :: post) := hs'.tail.tail.app
    obtain ⟨acc', h2, h3⟩ := sigTail_rep ts _ post ([] :: acc) f (fun x hx => hw x (by simp [hx])) hs2 (by omega)
    refine ⟨acc', ?_, by simpa using h3⟩
    rw [rep.eq_2, skip_atomic, h1 f (by omega)]
    have hne : ¬ (p + 1 + 1 + run.length = p) := by omega
    simp only [hne, if_false]
    rw [h2]
    congr 1; omega

theorem sigTail_star (ts : List (List Nat)) (p : Nat) (post : List Nat) (hw : ∀ t ∈ ts, IsParam t)
    (hs : Suf text p (sigTail ts ++ 41 :: post)) :
    Ev (envOf text) ((sigTail ts).length + 30) (.star commaParam) .atomic false p
      (some (p + (sigTail ts).length, [])) := by
  cases ts with
  | nil =>
    have hs' : Suf text p (41 :: post) := by simpa [sigTail] using hs
    simpa [sigTail] using (Ev.star0 (commaParam_fail hs') (d := 2)).mono (by omega : 3 ≤ 0 + 30)
  | cons t ts =>
    obtain ⟨c, run, rfl, hc, hr⟩ := isParam_split (hw t (by simp))
    have hs' : Suf text p (44 :: c :: (run ++ (sigTail ts ++ 41 :: post))) := by
      simpa [sigTail] using hs
    have hlen : (sigTail ((c :: run) :: ts)).length = 1 + 1 + run.length + (sigTail ts).length := by
      simp [sigTail]; omega
    rw [hlen]
    have h1 := commaParam_ok hs' hc hr (sigTail_head ts post).1
    have hs2 : Suf text (p + 1 + 1 + run.length) (sigTail ts ++ 41 :: post) := hs'.tail.tail.app
    have hrep : ∀ f, (sigTail ts).length + 20 ≤ f →
        ∃ acc, rep (envOf text) f commaParam .atomic false (p + 1 + 1 + run.length) [[]] =
          (p + (1 + 1 + run.length + (sigTail ts).length), acc) ∧ acc.reverse.flatten = [] := by
      intro f hf
      obtain ⟨acc', h2, h3⟩ := sigTail_rep ts _ post [[]] f (fun x hx => hw x (by simp [hx])) hs2 hf
      refine ⟨acc', ?_, by simpa using h3⟩
      rw [h2]; congr 1; omega
    exact (ev_star_some h1 hrep (d := run.length + (sigTail ts).length + 20) (by omega) (by omega)).mono (by omega)

/-- `selector_function_declaration` on a signature, called from a compound-atomic rule -/
theorem xev29 (sig post : List Nat) (hsig : IsSig sig) (hs : Suf text p (sig ++ post)) :
    Ev (envOf text) (sig.length + 60) (.ref 29) .compound false p
      (some (p + sig.length, [.mk 29 p (p + sig.length) []])) := by
  obtain ⟨name, types, rfl, hname, htypes⟩ := hsig
  obtain ⟨c, run, rfl, hc, hr⟩ := isFnName_split hname
  rw [sigText_eq] at hs ⊢
  generalize hM : (match types with | [] => ([] : List Nat) | t :: ts => t ++ sigTail ts) = M at hs ⊢
  have hs0 : Suf text p (c :: (run ++ (40 :: (M ++ [41] ++ post)))) := by simpa using hs
  have h32 : Ev (envOf text) (run.length + 9) (.ref 32) .atomic false p (some (p + 1 + run.length, [])) :=
    xev32 .atomic hs0 hc hr (by simp; decide)
  have hs1 : Suf text (p + 1 + run.length) (40 :: (M ++ [41] ++ post)) := hs0.tail.app
  have h40 : Ev (envOf text) 1 (.str [40]) .atomic false (p + 1 + run.length) (some (p + 1 + run.length + 1, [])) :=
    ev_str_ok (pat := [40]) (s := M ++ [41] ++ post) hs1
  have hs2 : Suf text (p + 1 + run.length + 1) (M ++ (41 :: post)) := by simpa using hs1.tail
  have hA := Ev.seq h32 (sk_at _) h40 (d := run.length + 9)
  -- the parameters
  have hparams : ∃ q, Ev (envOf text) (M.length + 40) (.star (.ref 33)) .atomic false (p + 1 + run.length + 1) (some (q, [])) ∧
      Ev (envOf text) (M.length + 40) (.star commaParam) .atomic false q (some (p + 1 + run.length + 1 + M.length, [])) := by
    cases types with
    | nil =>
      subst hM
      have hs2' : Suf text (p + 1 + run.length + 1) (41 :: post) := by simpa using hs2
      refine ⟨_, (Ev.star0 (xev33_fail .atomic hs2' (by simp; decide)) (d := 6)).mono (by omega), ?_⟩
      have := sigTail_star [] _ post (by simp) (by simpa [sigTail] using hs2')
      simpa [sigTail] using this.mono (by simp [sigTail])
    | cons t ts =>
      subst hM
      obtain ⟨c1, run1, rfl, hc1, hr1⟩ := isParam_split (htypes t (by simp))
      have hs3 : Suf text (p + 1 + run.length + 1) (c1 :: (run1 ++ (sigTail ts ++ 41 :: post))) := by
        simpa using hs2
      have hfirst : Ev (envOf text) (run1.length + 9) (.ref 33) .atomic false (p + 1 + run.length + 1)
          (some (p + 1 + run.length + 1 + 1 + run1.length, [])) :=
        xev33 .atomic hs3 hc1 hr1 (sigTail_head ts post).1
      have hs4 : Suf text (p + 1 + run.length + 1 + 1 + run1.length) (sigTail ts ++ 41 :: post) := hs3.tail.app
      have hrep : ∀ f, 10 ≤ f → ∃ acc, rep (envOf text) f (.ref 33) .atomic false
          (p + 1 + run.length + 1 + 1 + run1.length) [[]] = (p + 1 + run.length + 1 + 1 + run1.length, acc) ∧
          acc.reverse.flatten = [] := by
        intro f hf
        obtain ⟨f, rfl⟩ : ∃ f', f = f' + 1 := ⟨f - 1, by omega⟩
        refine ⟨[[]], ?_, rfl⟩
        rw [rep.eq_2, skip_atomic, xev33_fail .atomic hs4 (sigTail_head ts post).2 f (by omega)]
      refine ⟨_, (ev_star_some hfirst hrep (d := run1.length + 10) (by omega) (by omega)).mono
        (by simp only [List.length_append, List.length_cons]; omega), ?_⟩
      have := sigTail_star ts _ post (fun x hx => htypes x (by simp [hx])) hs4
      have e : p + 1 + run.length + 1 + 1 + run1.length + (sigTail ts).length =
          p + 1 + run.length + 1 + (c1 :: run1 ++ sigTail ts).length := by
        simp only [List.length_append, List.length_cons]; omega
      rw [e] at this
      exact this.mono (by simp only [List.length_append, List.length_cons]; omega)
  obtain ⟨q, hP1, hP2⟩ := hparams
  have hs5 : Suf text (p + 1 + run.length + 1 + M.length) (41 :: post) := hs2.app
  have h41 : Ev (envOf text) 1 (.str [41]) .atomic false (p + 1 + run.length + 1 + M.length)
      (some (p + 1 + run.length + 1 + M.length + 1, [])) := ev_str_ok (pat := [41]) (s := post) hs5
  have hbody := Ev.seq (Ev.seq (Ev.seq hA (sk_at _) hP1 (d := run.length + M.length + 40)) (sk_at _) hP2
    (d := run.length + M.length + 41)) (sk_at _) h41 (d := run.length + M.length + 42)
  have h := evr (xgr29 text) (by omega) hbody (d := run.length + M.length + 43) (at_ := .compound)
  have e : p + 1 + run.length + 1 + M.length + 1 = p + (c :: run ++ 40 :: (M ++ [41])).length := by
    simp only [List.length_append, List.length_cons, List.length_nil]; omega
  rw [e] at h
  exact h.mono (by simp only [List.length_append, List.length_cons, List.length_nil]; omega)

def selPre : List Nat := [115, 101, 108, 101, 99, 116, 111, 114, 40, 34]
def topPre : List Nat := [116, 111, 112, 105, 99, 40, 34]

theorem xterm_selector (sig post : List Nat) (hsig : IsSig sig)
    (hs : Suf text p (selPre ++ (sig ++ ([34, 41] ++ post)))) :
    Ev (envOf text) (sig.length + 80) (.ref 42) .nonAtomic false p
      (some (p + 10 + sig.length + 2, [xtermPair p (.selector sig)])) := by
  have e12 := ev12_fail hs (by simp [selPre, List.isPrefixOf])
  have hpre : Ev (envOf text) 1 (.str selPre) .compound false p (some (p + 10, [])) := ev_str_ok hs
  have hs1 : Suf text (p + 10) (sig ++ ([34, 41] ++ post)) := hs.app
  have h29 := xev29 sig _ hsig hs1
  have hs2 : Suf text (p + 10 + sig.length) ([34, 41] ++ post) := hs1.app
  have hend : Ev (envOf text) 1 (.str [34, 41]) .compound false (p + 10 + sig.length)
      (some (p + 10 + sig.length + 2, [])) := ev_str_ok hs2
  have h27 : Ev (envOf text) (sig.length + 65) (.ref 27) .nonAtomic false p
      (some (p + 10 + sig.length + 2, [.mk 27 p (p + 10 + sig.length + 2) [.mk 29 (p + 10) (p + 10 + sig.length) []]])) :=
    evr (gr27 text) (by omega) (Ev.seq (Ev.seq hpre (sk_comp _) h29 (d := sig.length + 60)) (sk_comp _) hend
      (d := sig.length + 61)) (d := sig.length + 63)
  have h4 : Ev (envOf text) (sig.length + 69) termAlt4 .nonAtomic false p _ :=
    Ev.alt_l (Ev.alt_l (Ev.alt_l (Ev.alt_r e12 h27 (d := sig.length + 65)) (d := sig.length + 66)) (d := sig.length + 67))
      (d := sig.length + 68)
  have h5 : Ev (envOf text) (sig.length + 70) termAlt5 .nonAtomic false p _ := Ev.alt_l h4
  have h6 : Ev (envOf text) (sig.length + 71) termAlt6 .nonAtomic false p _ := Ev.alt_l h5
  have h7 : Ev (envOf text) (sig.length + 72) termBody .nonAtomic false p _ := Ev.alt_l h6
  have h := evr (gr42' text) (by omega) h7 (d := sig.length + 72) (at_ := .nonAtomic)
  simp only [xtermPair]
  exact h.mono (by omega)

theorem xterm_topic (sig post : List Nat) (hsig : IsSig sig)
    (hs : Suf text p (topPre ++ (sig ++ ([34, 41] ++ post)))) :
    Ev (envOf text) (sig.length + 80) (.ref 42) .nonAtomic false p
      (some (p + 7 + sig.length + 2, [xtermPair p (.topic sig)])) := by
  have e12 := ev12_fail hs (by simp [topPre, List.isPrefixOf])
  have e27 := ev27_fail hs (by simp [topPre, List.isPrefixOf])
  have hpre : Ev (envOf text) 1 (.str topPre) .compound false p (some (p + 7, [])) := ev_str_ok hs
  have hs1 : Suf text (p + 7) (sig ++ ([34, 41] ++ post)) := hs.app
  have h29 := xev29 sig _ hsig hs1
  have hs2 : Suf text (p + 7 + sig.length) ([34, 41] ++ post) := hs1.app
  have hend : Ev (envOf text) 1 (.str [34, 41]) .compound false (p + 7 + sig.length)
      (some (p + 7 + sig.length + 2, [])) := ev_str_ok hs2
  have h28 : Ev (envOf text) (sig.length + 65) (.ref 28) .nonAtomic false p
      (some (p + 7 + sig.length + 2, [.mk 28 p (p + 7 + sig.length + 2) [.mk 29 (p + 7) (p + 7 + sig.length) []]])) :=
    evr (gr28 text) (by omega) (Ev.seq (Ev.seq hpre (sk_comp _) h29 (d := sig.length + 60)) (sk_comp _) hend
      (d := sig.length + 61)) (d := sig.length + 63)
  have h4 : Ev (envOf text) (sig.length + 69) termAlt4 .nonAtomic false p _ :=
    Ev.alt_l (Ev.alt_l (Ev.alt_r (Ev.alt_r e12 e27 (d := 5)) h28 (d := sig.length + 65)) (d := sig.length + 66))
      (d := sig.length + 68)
  have h5 : Ev (envOf text) (sig.length + 70) termAlt5 .nonAtomic false p _ := Ev.alt_l h4
  have h6 : Ev (envOf text) (sig.length + 71) termAlt6 .nonAtomic false p _ := Ev.alt_l h5
  have h7 : Ev (envOf text) (sig.length + 72) termBody .nonAtomic false p _ := Ev.alt_l h6
  have h := evr (gr42' text) (by omega) h7 (d := sig.length + 72) (at_ := .nonAtomic)
  simp only [xtermPair]
  exact h.mono (by omega)

/-! ### a call is neither a `selector("` nor a `topic("` -/

theorem call_prefix_fail : ∀ (a : List Nat), (∀ c ∈ a, isLb c = true) → ∀ (n g rest : List Nat),
    (∀ c ∈ n, isLb c = true) → IsBlanks g → (∀ t, rest ≠ 34 :: t) →
    List.isPrefixOf (a ++ [40, 34]) (n ++ (g ++ 40 :: rest)) = false
  | [], _, [], [], rest, _, _, hr => by
    cases rest with
    | nil => simp [List.isPrefixOf]
    | cons r0 rest =>
      have : (34 : Nat) ≠ r0 := fun h => hr rest (by rw [h])
      simp [List.isPrefixOf, this]
  | [], _, [], g0 :: g, rest, _, hg, _ => by
    have : (40 : Nat) ≠ g0 := by rcases hg g0 (by simp) with h | h <;> omega
    simp [List.isPrefixOf, this]
  | [], _, n0 :: n, g, rest, hn, _, _ => by
    have h0 : isLb n0 = true := hn n0 (by simp)
    have : (40 : Nat) ≠ n0 := fun h => by rw [← h] at h0; revert h0; decide
    simp [List.isPrefixOf, this]
  | a0 :: a, ha, [], [], rest, _, _, _ => by
    have h0 : isLb a0 = true := ha a0 (by simp)
    have : a0 ≠ 40 := fun h => by rw [h] at h0; revert h0; decide
    simp [List.isPrefixOf, this]
  | a0 :: a, ha, [], g0 :: g, rest, _, hg, _ => by
    have h0 : isLb a0 = true := ha a0 (by simp)
    have : a0 ≠ g0 := fun h => by
      rcases hg g0 (by simp) with h' | h' <;> rw [h, h'] at h0 <;> revert h0 <;> decide
    simp [List.isPrefixOf, this]
  | a0 :: a, ha, n0 :: n, g, rest, hn, hg, hr => by
    have ih := call_prefix_fail a (fun c hc => ha c (by simp [hc])) n g rest (fun c hc => hn c (by simp [hc])) hg hr
    simp only [List.cons_append, List.isPrefixOf, ih, Bool.and_false]

end FullText
end Asm
end EtkVerif
