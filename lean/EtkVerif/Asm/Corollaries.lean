/-
Corollaries of the layout lemmas at the level of the specification
(`Spec.assembleItems`, `Spec.assembleScope`): what a successful assembly looks like.
-/
import EtkVerif.Asm.Spec
import EtkVerif.Asm.LayoutLemmas
import EtkVerif.Asm.FlattenLemmas
namespace EtkVerif
namespace Asm

theorem firstDuplicate_none_iff (l : List String) : Spec.firstDuplicate l = none ↔ l.Nodup := by
  induction l with
  | nil => simp [Spec.firstDuplicate]
  | cons a rest ih =>
    simp only [Spec.firstDuplicate, List.nodup_cons]
    by_cases h : rest.contains a = true
    · simp only [h, if_true]
      simp only [List.contains_iff_mem] at h
      simp [h]
    · simp only [h]
      simp only [List.contains_iff_mem] at h
      simp [h, ih]

theorem finish_eq (s : St) (hu : s.undeclared = []) :
    finish s = emit { s.ctx with labels := (layoutLoop s (32 * pushCount s.ready + 2) (List.replicate (pushCount s.ready) 1)).1 } s.ready
      (layoutLoop s (32 * pushCount s.ready + 2) (List.replicate (pushCount s.ready) 1)).2 := by
  unfold finish
  rw [hu]
  rfl

theorem lookupLabel_map_some0 (L : List String) (l : String) (h : l ∈ L) :
    lookupLabel (L.map (fun l => (l, some 0))) l = some (some 0) := by
  induction L with
  | nil => simp at h
  | cons a L ih =>
    rw [List.map_cons, lookupLabel_cons]
    by_cases ha : a = l
    · simp [ha]
    · simp only [ha, if_false]
      rcases List.mem_cons.1 h with h | h
      · exact absurd h.symm ha
      · exact ih h

/-- the clean state `Spec.assembleItems` lays out -/
def cleanSt (ms : List (String × MacroDef)) (items : List Item) : St :=
  { ready := items, labels := (Spec.itemLabels items).map (fun l => (l, some 0)), macros := ms }

/-- What `Spec.assembleItems ms items = .ok out` means: the items are well formed
(`ReadyOK`-style label uniqueness), a stable layout `(ls, ws)` exists — the one
the width loop finds — and `out` is the emission of the items under it.

Correction: the field `least` was added.  Without it `closed_push_width` is not
provable (indeed false): the other fields only say that `(ls, ws)` is *a* stable
layout, and a stable layout need not be the least one — for
`items = [.push (.num 0)]`, `ws = [2]`, `ls = []`, `out = [0x61, 0, 0]` all the
other fields hold (`widthsPass` gives `max 2 1 = 2`, emission left-pads to two
bytes), yet the minimal width of `0` is `1`. -/
structure Assembled (ms : List (String × MacroDef)) (items : List Item) (out : List Nat) where
  ls : List (String × Option Nat)
  ws : List Nat
  nodup : (Spec.itemLabels items).Nodup
  wsLen : ws.length = pushCount items
  wsRange : ∀ w ∈ ws, 1 ≤ w ∧ w ≤ 32
  positions : ls = (positionsPass items ws 0 ((Spec.itemLabels items).map (fun l => (l, some 0)))).1
  stable : widthsPass { labels := ls, macros := ms, vars := none, depth := 0 } items ws = ws
  emitted : emit { labels := ls, macros := ms, vars := none, depth := 0 } items ws = .ok out
  /-- the widths are the ones the width loop finds (the least stable ones) -/
  least : ws = (layoutLoop { ready := items, labels := (Spec.itemLabels items).map (fun l => (l, some 0)), macros := ms }
      (32 * pushCount items + 2) (List.replicate (pushCount items) 1)).2

theorem assembleItems_ok (ms : List (String × MacroDef)) (items : List Item) (out : List Nat)
    (h : Spec.assembleItems ms items = .ok out) : Nonempty (Assembled ms items out) := by
  unfold Spec.assembleItems at h
  cases hd : Spec.firstDuplicate (Spec.itemLabels items) with
  | some l => rw [hd] at h; simp at h
  | none =>
    rw [hd] at h
    simp only [] at h
    cases hm : Spec.mentioned ms items with
    | error e => rw [hm] at h; simp at h
    | ok used =>
      rw [hm] at h
      simp only [] at h
      split at h
      · simp at h
      · rw [finish_eq _ rfl] at h
        have hst := layoutLoop_stable (cleanSt ms _) (pushCount items) rfl
        simp only [] at hst
        obtain ⟨h1, h2, h3, h4⟩ := hst
        exact ⟨{ ls := (layoutLoop (cleanSt ms _) (32 * pushCount items + 2) (List.replicate (pushCount items) 1)).1
                 ws := (layoutLoop (cleanSt ms _) (32 * pushCount items + 2) (List.replicate (pushCount items) 1)).2
                 nodup := (firstDuplicate_none_iff _).1 hd
                 wsLen := h1
                 wsRange := h2
                 positions := h3
                 stable := h4
                 emitted := h
                 least := rfl }⟩

/-- C01.  Every label's value (what operands that mention it evaluate to) is the
number of bytes emitted before it: the offset of the first instruction after it. -/
theorem label_value_is_offset (ms : List (String × MacroDef)) (items : List Item) (out : List Nat)
    (a : Assembled ms items out) (himm : ∀ code imm, Item.op code imm ∈ items → (imm.isSome ↔ (0x60 ≤ code ∧ code ≤ 0x7f)))
    (pre post : List Item) (l : String) (hsplit : items = pre ++ Item.label l :: post) :
    ∃ outPre, emit { labels := a.ls, macros := ms, vars := none, depth := 0 } pre a.ws = .ok outPre ∧
      out.take outPre.length = outPre ∧ outPre.length ≤ out.length ∧
      lookupLabel a.ls l = some (some outPre.length) ∧
      eval evalFuel { labels := a.ls, macros := ms, vars := none, depth := 0 } (.label l) = .ok (Int.ofNat outPre.length) := by
  have hr : ReadyOK items := ⟨himm, a.nodup⟩
  have hd : LabelsDefined items ((Spec.itemLabels items).map (fun l => (l, some 0))) := by
    intro l' hl'
    exact ⟨0, lookupLabel_map_some0 _ _ (List.mem_filterMap.2 ⟨_, hl', rfl⟩)⟩
  obtain ⟨outPre, h1, h2, h3, h4⟩ := positions_are_offsets _ items hr a.ws a.wsLen _ hd out a.emitted pre post l hsplit
  rw [← a.positions] at h4
  refine ⟨outPre, h1, h3, h2, h4, ?_⟩
  show eval (99999 + 1) _ _ = _
  simp only [eval]
  rw [h4]

/-- C01 (jump lands on the jumpdest): if the label is followed by a `jumpdest`,
the output byte at the label's value is `0x5b`. -/
theorem label_lands_on_jumpdest (ms : List (String × MacroDef)) (items : List Item) (out : List Nat)
    (a : Assembled ms items out) (himm : ∀ code imm, Item.op code imm ∈ items → (imm.isSome ↔ (0x60 ≤ code ∧ code ≤ 0x7f)))
    (pre post : List Item) (l : String) (hsplit : items = pre ++ Item.label l :: Item.op 0x5b none :: post) :
    ∃ p, lookupLabel a.ls l = some (some p) ∧ out[p]? = some 0x5b := by
  subst hsplit
  obtain ⟨outPre, h1, _, _, h4, _⟩ := label_value_is_offset ms _ out a himm pre _ l rfl
  refine ⟨outPre.length, h4, ?_⟩
  have hem : emit { labels := a.ls, macros := ms, vars := none, depth := 0 }
      ((pre ++ [Item.label l]) ++ Item.op 0x5b none :: post) a.ws = .ok out := by
    rw [List.append_assoc]; exact a.emitted
  obtain ⟨outPre', bs, outPost, hp, hx, rfl⟩ := emit_split hem
  rw [emit_append, h1] at hp
  have hbs : bs = [0x5b] := by
    have : emitItem { labels := a.ls, macros := ms, vars := none, depth := 0 } (Item.op 0x5b none)
        (a.ws.drop (pushCount (pre ++ [Item.label l]))) = .ok [0x5b] := rfl
    rw [this] at hx
    injection hx with hx
    exact hx.symm
  have hp' : outPre' = outPre := by
    simp only [emit] at hp
    injection hp with hp
    rw [← hp]; simp
  subst hbs; subst hp'
  simp

/-- one item's bytes under a context and (for a variable-sized push) a width -/
def encodeItem (c : Ctx) (w : Nat) : Item → Except AsmErr (List Nat)
  | .label _ => .ok []
  | .raw bytes => .ok bytes
  | .op code imm => match concretizeOp c code imm with
    | .ok bs => .ok bs
    | .tooLarge => .error .expressionTooLarge
    | .negative => .error .expressionNegative
    | .ctx e => .error (mapErr e)
  | .push e => match concretizeOp c (0x5f + w) (some e) with
    | .ok bs => .ok bs
    | .tooLarge => .error .expressionTooLarge
    | .negative => .error .expressionNegative
    | .ctx e => .error (mapErr e)

/-- the width belonging to the item at each position (1 for items that are not variable-sized pushes) -/
def widthsFor : List Item → List Nat → List Nat
  | [], _ => []
  | .push _ :: rest, ws => ws.headD 1 :: widthsFor rest (ws.drop 1)
  | _ :: rest, ws => 1 :: widthsFor rest ws

theorem widthsFor_cons (x : Item) (rest : List Item) (ws : List Nat) :
    widthsFor (x :: rest) ws =
      (match x with | .push _ => ws.headD 1 | _ => 1) :: widthsFor rest (ws.drop (pushCount [x])) := by
  cases x <;> rfl

theorem encodeItem_eq_emitItem (c : Ctx) (x : Item) (ws : List Nat) :
    encodeItem c (match x with | .push _ => ws.headD 1 | _ => 1) x = emitItem c x ws := by
  cases x with
  | label l => rfl
  | raw bs => rfl
  | op code imm =>
    simp only [encodeItem, emitItem]
    cases concretizeOp c code imm <;> rfl
  | push e =>
    simp only [encodeItem, emitItem]
    cases concretizeOp c (0x5f + ws.headD 1) (some e) <;> rfl

/-- C02.  The output is exactly the concatenation, in order, of each item's
encoding: nothing reordered, dropped or duplicated; labels contribute nothing. -/
theorem emit_is_concat (c : Ctx) (items : List Item) (ws : List Nat) (out : List Nat)
    (h : emit c items ws = .ok out) :
    ∃ parts : List (List Nat), parts.length = items.length ∧ out = parts.flatten ∧
      ∀ i (hi : i < items.length), encodeItem c ((widthsFor items ws).getD i 1) items[i] = .ok (parts.getD i []) := by
  induction items generalizing ws out with
  | nil =>
    simp only [emit, Except.ok.injEq] at h
    subst h
    exact ⟨[], rfl, rfl, fun i hi => absurd hi (Nat.not_lt_zero _)⟩
  | cons x rest ih =>
    rw [emit_cons] at h
    cases hx : emitItem c x ws with
    | error e => rw [hx] at h; simp at h
    | ok bs =>
      rw [hx] at h
      simp only [] at h
      cases hr : emit c rest (List.drop (pushCount [x]) ws) with
      | error e => rw [hr] at h; simp at h
      | ok more =>
        rw [hr] at h
        simp only [Except.ok.injEq] at h
        subst h
        obtain ⟨parts, hl, hf, hall⟩ := ih _ _ hr
        refine ⟨bs :: parts, by simp [hl], by simp [hf], ?_⟩
        intro i hi
        rw [widthsFor_cons]
        cases i with
        | zero =>
          simp only [List.getD_cons_zero, List.getElem_cons_zero]
          rw [encodeItem_eq_emitItem, hx]
        | succ i =>
          simp only [List.getD_cons_succ, List.getElem_cons_succ]
          exact hall i (by simpa using hi)

/-- C07 (constants) at the level of the specification. -/
theorem closed_push_width (ms : List (String × MacroDef)) (items : List Item) (out : List Nat)
    (a : Assembled ms items out) (pre post : List Item) (e : Expr) (hsplit : items = pre ++ Item.push e :: post)
    (hclosed : labelsOf ms evalFuel 0 e = .ok []) :
    ∃ v : Int, eval evalFuel { labels := a.ls, macros := ms, vars := none, depth := 0 } e = .ok v ∧ 0 ≤ v ∧
      (a.ws.drop (pushCount pre)).headD 1 = (bytesBE v.toNat).length := by
  subst hsplit
  have hem := a.emitted
  obtain ⟨outPre, outPost, v, _, hv, h0, hlt, _⟩ := emit_push_exact _ pre post e a.ws out hem
  refine ⟨v, hv, h0, ?_⟩
  have hw : 1 ≤ (a.ws.drop (pushCount pre)).headD 1 ∧ (a.ws.drop (pushCount pre)).headD 1 ≤ 32 := by
    cases hdr : a.ws.drop (pushCount pre) with
    | nil => simp
    | cons w t =>
      have : w ∈ a.ws := List.mem_of_mem_drop (by rw [hdr]; exact List.mem_cons_self ..)
      simpa using a.wsRange w this
  have h32 : (bytesBE v.toNat).length ≤ 32 :=
    Nat.le_trans ((bytesBE_spec v.toNat).2.2.1 _ hw.1 hlt) hw.2
  have hv' : eval evalFuel (cleanSt ms (pre ++ Item.push e :: post)).ctx e = .ok v := by
    rw [← hv]
    exact (eval_labels_irrelevant ms evalFuel 0 e hclosed (cleanSt ms (pre ++ Item.push e :: post)).ctx rfl a.ls evalFuel).symm
  have := closed_push_minimal (cleanSt ms (pre ++ Item.push e :: post)) (pushCount _) rfl pre post e rfl hclosed v hv' h0 h32
  rw [a.least]
  exact this

/-- C10.  An invocation is its instantiated body: flattening a scope in which the
first invocation `%name(args)` follows only plain items equals flattening the
scope with the invocation replaced by that body (no definition nested in it),
the random-suffix counter advanced past the suffixes the instantiation drew. -/
theorem flatten_invocation (rnd : Nat → Nat) (fuel : Nat) (ms : List (String × MacroDef)) (k : Nat)
    (pre : List AOp) (name : String) (args : List Expr) (post : RawOps)
    (params : List String) (body body' : List AOp) (k' : Nat)
    (hplain : ∀ o ∈ pre, match o with | .macro _ _ => False | _ => True)
    (hm : lookupMacro ms name = some (.instr params body))
    (hinst : instantiate rnd name params body args k = .ok (body', k'))
    (r : List Item × Nat)
    (h : Spec.flattenAll rnd (fuel + pre.length + 3) ms k
          (RawOps.ofList (pre.map RawOp.op ++ RawOp.op (.macro name args) :: post.toList)) = .ok r) :
    ∃ fuel', Spec.flattenAll rnd fuel' ms k'
          (RawOps.ofList (pre.map RawOp.op ++ body'.map RawOp.op ++ post.toList)) = .ok r := by
  -- split the run at the invocation
  obtain ⟨xs, k1, ys, hpre, hrest, hr1⟩ := Spec.flattenAll_append_split rnd ms _ _ _ _ _ h
  obtain ⟨rfl, hpre'⟩ := Spec.flattenAll_plain rnd ms pre hplain _ _ _ _ hpre
  simp only [RawOps.ofList] at hrest
  obtain ⟨f0, zs, k2, ws, _, hop, hpost, hys⟩ := Spec.flattenAll_cons_ok rnd hrest
  simp only [] at hpost hys
  -- the invocation step: `flattenOp → flattenMacro → instantiate → flattenBody` at depth 1
  have hbody : ∃ f, Spec.flattenBody rnd f ms 1 k' body' = .ok (zs, k2) := by
    cases f0 with
    | zero => simp [Spec.flattenOp] at hop
    | succ f1 =>
      simp only [Spec.flattenOp] at hop
      cases f1 with
      | zero => simp [Spec.flattenMacro] at hop
      | succ f2 =>
        simp only [Spec.flattenMacro] at hop
        rw [hm] at hop
        simp only [] at hop
        by_cases h1 : params.length ≠ args.length
        · rw [if_pos h1] at hop; simp at hop
        · rw [if_neg h1] at hop
          by_cases h2 : 0 ≥ maxMacroDepth
          · rw [if_pos h2] at hop; simp at hop
          · rw [if_neg h2, hinst] at hop
            exact ⟨f2, hop⟩
  obtain ⟨f, hb⟩ := hbody
  have hb0 := (Spec.flatten_depth rnd f).2.2 ms 1 0 k' body' _ (Nat.zero_le _) hb
  rw [Spec.flattenBody_zero_eq] at hb0
  -- reassemble
  obtain ⟨g1, hg1⟩ := Spec.flattenAll_append_join rnd ms _ _ _ _ _ _ _ _ _ hb0 hpost
  obtain ⟨g2, hg2⟩ := Spec.flattenAll_append_join rnd ms _ _ _ _ _ _ _ _ _ (hpre' k') hg1
  refine ⟨g2, ?_⟩
  rw [List.append_assoc, hg2, ← hys, ← hr1]

end Asm
end EtkVerif
