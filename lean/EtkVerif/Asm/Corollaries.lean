/-
Corollaries of the layout lemmas at the level of the specification
(`Spec.assembleItems`, `Spec.assembleScope`): what a successful assembly looks like.
-/
import EtkVerif.Asm.Spec
import EtkVerif.Asm.LayoutLemmas
namespace EtkVerif
namespace Asm

/-- What `Spec.assembleItems ms items = .ok out` means: the items are well formed
(`ReadyOK`-style label uniqueness), a stable layout `(ls, ws)` exists — the one
the width loop finds — and `out` is the emission of the items under it. -/
structure Assembled (ms : List (String × MacroDef)) (items : List Item) (out : List Nat) where
  ls : List (String × Option Nat)
  ws : List Nat
  nodup : (Spec.itemLabels items).Nodup
  wsLen : ws.length = pushCount items
  wsRange : ∀ w ∈ ws, 1 ≤ w ∧ w ≤ 32
  positions : ls = (positionsPass items ws 0 ((Spec.itemLabels items).map (fun l => (l, some 0)))).1
  stable : widthsPass { labels := ls, macros := ms, vars := none, depth := 0 } items ws = ws
  emitted : emit { labels := ls, macros := ms, vars := none, depth := 0 } items ws = .ok out

theorem assembleItems_ok (ms : List (String × MacroDef)) (items : List Item) (out : List Nat)
    (h : Spec.assembleItems ms items = .ok out) : Nonempty (Assembled ms items out) := by
  sorry

/-- C01.  Every label's value (what operands that mention it evaluate to) is the
number of bytes emitted before it: the offset of the first instruction after it. -/
theorem label_value_is_offset (ms : List (String × MacroDef)) (items : List Item) (out : List Nat)
    (a : Assembled ms items out) (himm : ∀ code imm, Item.op code imm ∈ items → (imm.isSome ↔ (0x60 ≤ code ∧ code ≤ 0x7f)))
    (pre post : List Item) (l : String) (hsplit : items = pre ++ Item.label l :: post) :
    ∃ outPre, emit { labels := a.ls, macros := ms, vars := none, depth := 0 } pre a.ws = .ok outPre ∧
      out.take outPre.length = outPre ∧ outPre.length ≤ out.length ∧
      lookupLabel a.ls l = some (some outPre.length) ∧
      eval evalFuel { labels := a.ls, macros := ms, vars := none, depth := 0 } (.label l) = .ok (Int.ofNat outPre.length) := by
  sorry

/-- C01 (jump lands on the jumpdest): if the label is followed by a `jumpdest`,
the output byte at the label's value is `0x5b`. -/
theorem label_lands_on_jumpdest (ms : List (String × MacroDef)) (items : List Item) (out : List Nat)
    (a : Assembled ms items out) (himm : ∀ code imm, Item.op code imm ∈ items → (imm.isSome ↔ (0x60 ≤ code ∧ code ≤ 0x7f)))
    (pre post : List Item) (l : String) (hsplit : items = pre ++ Item.label l :: Item.op 0x5b none :: post) :
    ∃ p, lookupLabel a.ls l = some (some p) ∧ out[p]? = some 0x5b := by
  sorry

/-- one item's bytes under a context and (for a variable-sized push) a width -/
def encodeItem (c : Ctx) (w : Nat) : Item → Except AsmErr (List Nat)
  | .label _ => .ok []
  | .raw bytes => .ok bytes
  | .op code imm => match concretizeOp c code imm with
    | .ok bs => .ok bs
    | .tooLarge => .error .expressionTooLarge
    | .negative => .error .expressionNegative
    | .ctx e => .error (mapErr e)
  | .push e => match concretizeOp c (0x5f + w) (some e) with
    | .ok bs => .ok bs
    | .tooLarge => .error .expressionTooLarge
    | .negative => .error .expressionNegative
    | .ctx e => .error (mapErr e)

/-- the width belonging to the item at each position (1 for items that are not variable-sized pushes) -/
def widthsFor : List Item → List Nat → List Nat
  | [], _ => []
  | .push _ :: rest, ws => ws.headD 1 :: widthsFor rest (ws.drop 1)
  | _ :: rest, ws => 1 :: widthsFor rest ws

/-- C02.  The output is exactly the concatenation, in order, of each item's
encoding: nothing reordered, dropped or duplicated; labels contribute nothing. -/
theorem emit_is_concat (c : Ctx) (items : List Item) (ws : List Nat) (out : List Nat)
    (h : emit c items ws = .ok out) :
    ∃ parts : List (List Nat), parts.length = items.length ∧ out = parts.flatten ∧
      ∀ i (hi : i < items.length), encodeItem c ((widthsFor items ws).getD i 1) items[i] = .ok (parts.getD i []) := by
  sorry

/-- C07 (constants) at the level of the specification. -/
theorem closed_push_width (ms : List (String × MacroDef)) (items : List Item) (out : List Nat)
    (a : Assembled ms items out) (pre post : List Item) (e : Expr) (hsplit : items = pre ++ Item.push e :: post)
    (hclosed : labelsOf ms evalFuel 0 e = .ok []) :
    ∃ v : Int, eval evalFuel { labels := a.ls, macros := ms, vars := none, depth := 0 } e = .ok v ∧ 0 ≤ v ∧
      (a.ws.drop (pushCount pre)).headD 1 = (bytesBE v.toNat).length := by
  sorry

/-- C10.  An invocation is its instantiated body: flattening a scope in which the
first invocation `%name(args)` follows only plain items equals flattening the
scope with the invocation replaced by that body (no definition nested in it),
the random-suffix counter advanced past the suffixes the instantiation drew. -/
theorem flatten_invocation (rnd : Nat → Nat) (fuel : Nat) (ms : List (String × MacroDef)) (k : Nat)
    (pre : List AOp) (name : String) (args : List Expr) (post : RawOps)
    (params : List String) (body body' : List AOp) (k' : Nat)
    (hplain : ∀ o ∈ pre, match o with | .macro _ _ => False | _ => True)
    (hm : lookupMacro ms name = some (.instr params body))
    (hinst : instantiate rnd name params body args k = .ok (body', k'))
    (r : List Item × Nat)
    (h : Spec.flattenAll rnd (fuel + pre.length + 3) ms k
          (RawOps.ofList (pre.map RawOp.op ++ RawOp.op (.macro name args) :: post.toList)) = .ok r) :
    ∃ fuel', Spec.flattenAll rnd fuel' ms k'
          (RawOps.ofList (pre.map RawOp.op ++ body'.map RawOp.op ++ post.toList)) = .ok r := by
  sorry

end Asm
end EtkVerif
