/-
Parse-side half of `parseAsm_panic_only_fuel`: predicates on pair trees (`GoodE`,
`GoodA`, `GoodTop` …) stating exactly what `parseExpr` / `parseAOp` / `parseBuiltin` /
`parseAsm.go` rely on, and the proof that on such trees none of the `unwrap` /
`unreachable!` sites is reached.
-/
import EtkVerif.Asm.Parse
namespace EtkVerif
namespace Asm
open Pest

/-- the only internal failure is the model's own fuel -/
def NoPanic {α : Type} (r : PR α) : Prop := ∀ site, r = .error (.panic site) → site = "fuel"

theorem NoPanic.ok {α : Type} (x : α) : NoPanic (.ok x : PR α) := by
  intro site h; cases h

theorem NoPanic.fuel {α : Type} : NoPanic (.error (.panic "fuel") : PR α) := by
  intro site h; cases h; rfl

theorem NoPanic.map {α β : Type} (f : α → β) {r : PR α} (h : NoPanic r) : NoPanic (r.map f) := by
  intro site hs
  cases r with
  | error e => exact h site (by simpa [Except.map] using hs)
  | ok v => simp [Except.map] at hs

theorem NoPanic.of_error {α β : Type} {r : PR α} {e : ParseErr} (h : NoPanic r) (he : r = .error e) :
    NoPanic (.error e : PR β) := by
  intro site hs
  cases hs
  exact h site he

mutual
/-- expression and term pairs `parseExpr` handles without reaching an `unwrap` -/
inductive GoodE (inp : Array Nat) : Pair → Prop
  | expr {p first rest} : p.rule = Gen.R_expression → p.kids = first :: rest →
      GoodE inp first → GoodTail inp rest → GoodE inp p
  | binary {p} : p.rule = Gen.R_binary → (∃ v, parseRadix ((txt inp p).drop 2) 2 = .ok v) → GoodE inp p
  | octal {p} : p.rule = Gen.R_octal → (∃ v, parseRadix ((txt inp p).drop 2) 8 = .ok v) → GoodE inp p
  | hex {p} : p.rule = Gen.R_hex → (∃ v, parseRadix ((txt inp p).drop 2) 16 = .ok v) → GoodE inp p
  | decimal {p} : p.rule = Gen.R_decimal → (∃ v, parseRadix (txt inp p) 10 = .ok v) → GoodE inp p
  | negDecimal {p} : p.rule = Gen.R_negative_decimal →
      (∃ v, parseRadix ((txt inp p).drop 1) 10 = .ok v) → GoodE inp p
  | label {p} : p.rule = Gen.R_label → GoodE inp p
  | selector {p k ks} : p.rule = Gen.R_selector → p.kids = k :: ks → GoodE inp p
  | topic {p k ks} : p.rule = Gen.R_topic → p.kids = k :: ks → GoodE inp p
  | exprMacro {p name args} : p.rule = Gen.R_expression_macro → p.kids = name :: args →
      (∀ a, a ∈ args → GoodE inp a) → GoodE inp p
  | var {p rest} : p.rule = Gen.R_instruction_macro_variable → txt inp p = 36 :: rest → GoodE inp p
/-- `(operation term)*` -/
inductive GoodTail (inp : Array Nat) : List Pair → Prop
  | nil : GoodTail inp []
  | cons {o t rest} : (opOfRule o.rule).isSome → GoodE inp t → GoodTail inp rest →
      GoodTail inp (o :: t :: rest)
end

theorem parseExpr_noPanic (inp : Array Nat) (fuel : Nat) :
    (∀ p, GoodE inp p → NoPanic (parseExpr inp fuel p)) ∧
    (∀ ps, (∀ a, a ∈ ps → GoodE inp a) → NoPanic (parseExprs inp fuel ps)) ∧
    (∀ ps, GoodTail inp ps → NoPanic (parseTail inp fuel ps)) := by
  induction fuel with
  | zero =>
    refine ⟨?_, ?_, ?_⟩
    · intro p _; simp only [parseExpr]; exact NoPanic.fuel
    · intro ps _; simp only [parseExprs]; exact NoPanic.fuel
    · intro ps _; simp only [parseTail]; exact NoPanic.fuel
  | succ fuel ih =>
    obtain ⟨ihE, ihEs, ihT⟩ := ih
    refine ⟨?_, ?_, ?_⟩
    · intro p hp
      cases hp with
      | expr hr hk hf ht =>
        simp only [parseExpr, hr, hk, if_true]
        have h1 := ihE _ hf
        have h2 := ihT _ ht
        cases h1e : parseExpr inp fuel _ with
        | error e => exact h1.of_error h1e
        | ok f =>
          cases h2e : parseTail inp fuel _ with
          | error e => exact h2.of_error h2e
          | ok tl => exact NoPanic.ok _
      | binary hr ht =>
        obtain ⟨v, hv⟩ := ht
        simp [parseExpr, hr, Gen.R_expression, Gen.R_binary, hv, Except.map]
        exact NoPanic.ok _
      | octal hr ht =>
        obtain ⟨v, hv⟩ := ht
        simp [parseExpr, hr, Gen.R_expression, Gen.R_binary, Gen.R_octal, hv, Except.map]
        exact NoPanic.ok _
      | hex hr ht =>
        obtain ⟨v, hv⟩ := ht
        simp [parseExpr, hr, Gen.R_expression, Gen.R_binary, Gen.R_octal, Gen.R_hex, hv, Except.map]
        exact NoPanic.ok _
      | decimal hr ht =>
        obtain ⟨v, hv⟩ := ht
        simp [parseExpr, hr, Gen.R_expression, Gen.R_binary, Gen.R_octal, Gen.R_hex, Gen.R_decimal, hv, Except.map]
        exact NoPanic.ok _
      | negDecimal hr ht =>
        obtain ⟨v, hv⟩ := ht
        rw [List.drop_one] at hv
        simp [parseExpr, hr, Gen.R_expression, Gen.R_binary, Gen.R_octal, Gen.R_hex, Gen.R_decimal,
          Gen.R_negative_decimal, hv, Except.map]
        exact NoPanic.ok _
      | label hr =>
        simp [parseExpr, hr, Gen.R_expression, Gen.R_binary, Gen.R_octal, Gen.R_hex, Gen.R_decimal,
          Gen.R_negative_decimal, Gen.R_label]
        exact NoPanic.ok _
      | selector hr hk =>
        simp [parseExpr, hr, hk, Gen.R_expression, Gen.R_binary, Gen.R_octal, Gen.R_hex, Gen.R_decimal,
          Gen.R_negative_decimal, Gen.R_label, Gen.R_selector, Gen.R_topic]
        exact NoPanic.ok _
      | topic hr hk =>
        simp [parseExpr, hr, hk, Gen.R_expression, Gen.R_binary, Gen.R_octal, Gen.R_hex, Gen.R_decimal,
          Gen.R_negative_decimal, Gen.R_label, Gen.R_selector, Gen.R_topic]
        exact NoPanic.ok _
      | exprMacro hr hk ha =>
        simp [parseExpr, hr, hk, Gen.R_expression, Gen.R_binary, Gen.R_octal, Gen.R_hex, Gen.R_decimal,
          Gen.R_negative_decimal, Gen.R_label, Gen.R_selector, Gen.R_topic, Gen.R_expression_macro]
        have h1 := ihEs _ ha
        cases h1e : parseExprs inp fuel _ with
        | error e => exact h1.of_error h1e
        | ok as => exact NoPanic.ok _
      | var hr ht =>
        simp [parseExpr, hr, ht, Gen.R_expression, Gen.R_binary, Gen.R_octal, Gen.R_hex, Gen.R_decimal,
          Gen.R_negative_decimal, Gen.R_label, Gen.R_selector, Gen.R_topic, Gen.R_expression_macro,
          Gen.R_instruction_macro_variable]
        exact NoPanic.ok _
    · intro ps hps
      cases ps with
      | nil => simp only [parseExprs]; exact NoPanic.ok _
      | cons p ps =>
        simp only [parseExprs]
        have h1 := ihE p (hps p (by simp))
        have h2 := ihEs ps (fun a ha => hps a (by simp [ha]))
        cases h1e : parseExpr inp fuel p with
        | error e => exact h1.of_error h1e
        | ok f =>
          cases h2e : parseExprs inp fuel ps with
          | error e => exact h2.of_error h2e
          | ok tl => exact NoPanic.ok _
    · intro ps hps
      cases hps with
      | nil => simp only [parseTail]; exact NoPanic.ok _
      | @cons o t rest ho ht hrest =>
        simp only [parseTail]
        cases hop : opOfRule o.rule with
        | none => simp [hop] at ho
        | some op =>
          have h1 := ihE t ht
          have h2 := ihT rest hrest
          cases h1e : parseExpr inp fuel t with
          | error e => exact h1.of_error h1e
          | ok f =>
            cases h2e : parseTail inp fuel rest with
            | error e => exact h2.of_error h2e
            | ok tl => exact NoPanic.ok _

/-! ### statements -/

/-- `%push(...)`: if its single argument is an expression, it is a good one -/
def GoodPM (inp : Array Nat) (p : Pair) : Prop :=
  ∀ a, p.kids = [a] → a.rule = Gen.R_expression → GoodE inp a

theorem parsePushMacro_noPanic (inp : Array Nat) (fuel : Nat) (p : Pair) (h : GoodPM inp p) :
    NoPanic (parsePushMacro inp fuel p) := by
  unfold parsePushMacro
  split
  · intro site hs; cases hs
  · rename_i a hk
    split
    · intro site hs; cases hs
    · rename_i hr
      exact ((parseExpr_noPanic inp fuel).1 a (h a hk (by simpa using hr))).map _
  · intro site hs; cases hs

/-- statement pairs `parseAOp` handles without reaching an `unwrap` -/
inductive GoodA (inp : Array Nat) : Pair → Prop
  | labelDef {p l rest} : p.rule = Gen.R_label_definition → p.kids = l :: rest → GoodA inp p
  | push {p sz operand} : p.rule = Gen.R_push → p.kids = [sz, operand] →
      (∃ n : Int, parseRadix (txt inp sz) 10 = .ok n ∧ 1 ≤ n.toNat ∧ n.toNat ≤ 32) →
      GoodE inp operand → GoodA inp p
  | op {p} : p.rule = Gen.R_op → (Ops.parse Gen.cancun (txt inp p)).isSome → GoodA inp p
  | instrDef {p k ks decl stmts name params} : p.rule = Gen.R_local_macro → p.kids = k :: ks →
      k.rule = Gen.R_instruction_macro_definition → k.kids = decl :: stmts → decl.kids = name :: params →
      (∀ b, b ∈ stmts → b.rule = Gen.R_push_macro → GoodPM inp b) →
      (∀ b, b ∈ stmts → b.rule ≠ Gen.R_push_macro → GoodA inp b) → GoodA inp p
  | instrMacro {p k ks name args} : p.rule = Gen.R_local_macro → p.kids = k :: ks →
      k.rule = Gen.R_instruction_macro → k.kids = name :: args →
      (∀ a, a ∈ args → GoodE inp a) → GoodA inp p
  | exprDef {p k ks decl body rest name params} : p.rule = Gen.R_local_macro → p.kids = k :: ks →
      k.rule = Gen.R_expression_macro_definition → k.kids = decl :: body :: rest →
      decl.kids = name :: params → GoodE inp body → GoodA inp p

theorem parsePush_noPanic (inp : Array Nat) (fuel : Nat) (p sz operand : Pair) (hk : p.kids = [sz, operand])
    (hsz : ∃ n : Int, parseRadix (txt inp sz) 10 = .ok n ∧ 1 ≤ n.toNat ∧ n.toNat ≤ 32)
    (he : GoodE inp operand) : NoPanic (parsePush inp fuel p) := by
  obtain ⟨n, hn, h1, h32⟩ := hsz
  unfold parsePush
  rw [hk]
  simp only [hn]
  have hcond : ¬ (n.toNat < 1 ∨ n.toNat > 32) := by omega
  simp only [hcond, if_false]
  have h1 := (parseExpr_noPanic inp fuel).1 operand he
  cases h1e : parseExpr inp fuel operand with
  | error e => exact h1.of_error h1e
  | ok e =>
    simp only []
    split
    · split
      · intro site hs; cases hs
      · exact NoPanic.ok _
    · exact NoPanic.ok _

theorem parseAOp_noPanic (inp : Array Nat) (fuel : Nat) :
    (∀ p, GoodA inp p → NoPanic (parseAOp inp fuel p)) ∧
    (∀ ps, (∀ b, b ∈ ps → b.rule = Gen.R_push_macro → GoodPM inp b) →
      (∀ b, b ∈ ps → b.rule ≠ Gen.R_push_macro → GoodA inp b) → NoPanic (parseBody inp fuel ps)) := by
  induction fuel with
  | zero =>
    refine ⟨?_, ?_⟩
    · intro p _; simp only [parseAOp]; exact NoPanic.fuel
    · intro ps _ _; simp only [parseBody]; exact NoPanic.fuel
  | succ fuel ih =>
    obtain ⟨ihA, ihB⟩ := ih
    refine ⟨?_, ?_⟩
    · intro p hp
      cases hp with
      | labelDef hr hk =>
        simp [parseAOp, hr, hk, Gen.R_local_macro, Gen.R_label_definition]
        exact NoPanic.ok _
      | push hr hk hsz he =>
        simp [parseAOp, hr, Gen.R_local_macro, Gen.R_label_definition, Gen.R_push]
        exact parsePush_noPanic inp fuel _ _ _ hk hsz he
      | op hr ho =>
        simp [parseAOp, hr, Gen.R_local_macro, Gen.R_label_definition, Gen.R_push, Gen.R_op]
        cases hop : Ops.parse Gen.cancun (txt inp p) with
        | none => simp [hop] at ho
        | some code => exact NoPanic.ok _
      | instrDef hr hk hkr hkk hdk h1 h2 =>
        simp only [parseAOp, hr, hk, hkr, hkk, hdk, if_true]
        have hb := ihB _ h1 h2
        cases hbe : parseBody inp fuel _ with
        | error e => exact hb.of_error hbe
        | ok body => exact NoPanic.ok _
      | instrMacro hr hk hkr hkk ha =>
        simp [parseAOp, hr, hk, hkr, hkk, Gen.R_instruction_macro_definition, Gen.R_instruction_macro]
        have hb := (parseExpr_noPanic inp fuel).2.1 _ ha
        cases hbe : parseExprs inp fuel _ with
        | error e => exact hb.of_error hbe
        | ok as => exact NoPanic.ok _
      | exprDef hr hk hkr hkk hdk hb =>
        simp [parseAOp, hr, hk, hkr, hkk, hdk, Gen.R_instruction_macro_definition, Gen.R_instruction_macro,
          Gen.R_expression_macro_definition]
        have hb := (parseExpr_noPanic inp fuel).1 _ hb
        cases hbe : parseExpr inp fuel _ with
        | error e => exact hb.of_error hbe
        | ok b => exact NoPanic.ok _
    · intro ps h1 h2
      cases ps with
      | nil => simp only [parseBody]; exact NoPanic.ok _
      | cons p ps =>
        simp only [parseBody]
        have hone : NoPanic (if p.rule = Gen.R_push_macro then parsePushMacro inp fuel p else parseAOp inp fuel p) := by
          split
          · rename_i hr
            exact parsePushMacro_noPanic inp fuel p (h1 p (by simp) hr)
          · rename_i hr
            exact ihA p (h2 p (by simp) hr)
        have hrest := ihB ps (fun b hb => h1 b (by simp [hb])) (fun b hb => h2 b (by simp [hb]))
        cases h1e : (if p.rule = Gen.R_push_macro then parsePushMacro inp fuel p else parseAOp inp fuel p) with
        | error e => exact hone.of_error h1e
        | ok o =>
          cases h2e : parseBody inp fuel ps with
          | error e => exact hrest.of_error h2e
          | ok os => exact NoPanic.ok _

/-- `builtin` pairs -/
def GoodBuiltin (inp : Array Nat) (p : Pair) : Prop :=
  ∃ k, p.kids = [k] ∧ (k.rule = Gen.R_import ∨ k.rule = Gen.R_include ∨ k.rule = Gen.R_include_hex ∨
    (k.rule = Gen.R_push_macro ∧ GoodPM inp k))

theorem pathOf_noPanic (inp : Array Nat) (p : Pair) : NoPanic (pathOf inp p) := by
  unfold pathOf
  split
  · intro site hs; cases hs
  · exact NoPanic.ok _

theorem oneePath_noPanic (inp : Array Nat) (args : List Pair) : NoPanic (oneePath inp args) := by
  unfold oneePath
  split
  · intro site hs; cases hs
  · exact pathOf_noPanic inp _
  · rename_i p _ _
    have := pathOf_noPanic inp p
    cases h : pathOf inp p with
    | error e => exact this.of_error h
    | ok _ => intro site hs; cases hs

theorem parseBuiltin_noPanic (inp : Array Nat) (fuel : Nat) (p : Pair) (h : GoodBuiltin inp p) :
    NoPanic (parseBuiltin inp fuel p) := by
  obtain ⟨k, hk, hr⟩ := h
  unfold parseBuiltin
  rw [hk]
  simp only []
  rcases hr with hr | hr | hr | ⟨hr, hpm⟩
  · simp only [hr, if_true]
    exact (oneePath_noPanic inp _).map _
  · simp [hr, Gen.R_include, Gen.R_import]
    exact (oneePath_noPanic inp _).map _
  · simp [hr, Gen.R_include, Gen.R_import, Gen.R_include_hex]
    exact (oneePath_noPanic inp _).map _
  · simp [hr, Gen.R_include, Gen.R_import, Gen.R_include_hex, Gen.R_push_macro]
    exact (parsePushMacro_noPanic inp fuel k hpm).map _

/-- top-level pairs -/
def GoodTop (inp : Array Nat) (p : Pair) : Prop :=
  (p.rule = Gen.R_builtin → GoodBuiltin inp p) ∧
  (p.rule ≠ Gen.R_builtin → p.rule ≠ Pest.EOI → GoodA inp p)

theorem parseAsm_go_noPanic (inp : Array Nat) (fuel : Nat) (ps : List Pair) (h : ∀ p, p ∈ ps → GoodTop inp p) :
    NoPanic (parseAsm.go inp fuel ps) := by
  induction ps with
  | nil => simp only [parseAsm.go]; exact NoPanic.ok _
  | cons p ps ih =>
    simp only [parseAsm.go]
    have ih' := ih (fun q hq => h q (by simp [hq]))
    split
    · exact ih'
    · rename_i hne
      have hone : NoPanic (if p.rule = Gen.R_builtin then parseBuiltin inp fuel p else (parseAOp inp fuel p).map Node.op) := by
        split
        · rename_i hr
          exact parseBuiltin_noPanic inp fuel p ((h p (by simp)).1 hr)
        · rename_i hr
          exact ((parseAOp_noPanic inp fuel).1 p ((h p (by simp)).2 hr hne)).map _
      cases h1e : (if p.rule = Gen.R_builtin then parseBuiltin inp fuel p else (parseAOp inp fuel p).map Node.op) with
      | error e => exact hone.of_error h1e
      | ok n =>
        cases h2e : parseAsm.go inp fuel ps with
        | error e => exact ih'.of_error h2e
        | ok ns => exact NoPanic.ok _

end Asm
end EtkVerif
