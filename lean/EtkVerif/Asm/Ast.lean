/-
Abstract syntax of the assembler (`etk-asm/src/ops.rs`, `ops/expression.rs`,
`ops/macros.rs`, `asm.rs::RawOp`, `ast.rs::Node`).  Names are strings; operand
integers are `Int` (num-bigint).
-/
namespace EtkVerif
namespace Asm

mutual
/-- `Expression` / `Terminal`. -/
inductive Expr
  | paren (e : Expr)                          -- `Expression::Expression` (only through the API; the parser never builds it)
  | macro (name : String) (args : Exprs)      -- expression macro invocation
  | num (n : Int)
  | label (l : String)
  | var (v : String)                          -- `$v`
  | plus (a b : Expr)
  | minus (a b : Expr)
  | times (a b : Expr)
  | divide (a b : Expr)
inductive Exprs
  | nil
  | cons (h : Expr) (t : Exprs)
end

namespace Exprs
def toList : Exprs → List Expr
  | nil => []
  | cons h t => h :: t.toList
def ofList : List Expr → Exprs
  | [] => nil
  | h :: t => cons h (ofList t)
end Exprs

mutual
/-- `AbstractOp`. -/
inductive AOp
  | op (code : Nat) (imm : Option Expr)       -- `Op<Abstract>`: opcode byte; `pushN` carries its operand
  | label (l : String)
  | push (e : Expr)                           -- `%push(e)`
  | instrDef (name : String) (params : List String) (body : AOps)
  | exprDef (name : String) (params : List String) (body : Expr)
  | macro (name : String) (args : List Expr)  -- instruction macro invocation
inductive AOps
  | nil
  | cons (h : AOp) (t : AOps)
end

namespace AOps
def toList : AOps → List AOp
  | nil => []
  | cons h t => h :: t.toList
def ofList : List AOp → AOps
  | [] => nil
  | h :: t => cons h (ofList t)
end AOps

mutual
/-- `RawOp`. -/
inductive RawOp
  | op (o : AOp)
  | scope (ops : RawOps)
  | raw (bytes : List Nat)
inductive RawOps
  | nil
  | cons (h : RawOp) (t : RawOps)
end

namespace RawOps
def toList : RawOps → List RawOp
  | nil => []
  | cons h t => h :: t.toList
def ofList : List RawOp → RawOps
  | [] => nil
  | h :: t => cons h (ofList t)
end RawOps

/-- `ast::Node`: what `parse_asm` yields per statement. -/
inductive Node
  | op (o : AOp)
  | import_ (path : String)
  | include (path : String)
  | includeHex (path : String)

/-- `ParseError` variants. -/
inductive ParseErr
  | lexer
  | immediateTooLarge
  | missingArgument (got expected : Nat)
  | extraArgument (expected : Nat)
  | argumentType
  | panic (site : String)          -- an `unwrap` / `unreachable!` of the parser reached
  deriving Repr, DecidableEq

end Asm
end EtkVerif
