/-
The WHOLE surface language as structured text.  Operand expressions: literals in
four radixes, negative decimals, labels, `$variables`, expression-macro calls
`f( a , b )`, `selector("sig")` / `topic("sig")`, parenthesised sequences, with
blanks wherever the grammar allows.  Statements: plain instructions, `pushN
<expr>`, `%push(<expr>)`, label definitions, instruction-macro invocations
`%name( args )` (any name but the exact builtin words `push`, `import`, `include`,
`include_hex` and the names starting with `macro` / `def`: `reservedName`),
`%import("p")` / `%include("p")` / `%include_hex("p")`,
instruction-macro definitions `%macro name(params) … %end` and expression-macro
definitions `%def name(params) … %end`, each with a legal layout.  `render` gives
the text, `node` the node `parse_asm` is expected to build.
-/
import EtkVerif.Asm.ProgText
namespace EtkVerif
namespace Asm
namespace FullText
open Layout ExprText

/-! ### expressions -/

mutual
inductive XTerm
  | num (r : Radix) (digits : List Nat)
  | neg (digits : List Nat)
  | label (name : List Nat)
  | var (name : List Nat)                                  -- `$name`
  | call (name : List Nat) (gap : List Nat) (args : XArgs) -- `name gap ( args )`
  | selector (sig : List Nat)                              -- `selector("sig")`
  | topic (sig : List Nat)                                 -- `topic("sig")`
  | paren (l : List Nat) (s : XSeq) (r : List Nat)
inductive XSeq
  | mk (first : XTerm) (rest : XRest)
inductive XRest
  | nil
  | cons (l : List Nat) (op : BinOp) (r : List Nat) (t : XTerm) (rest : XRest)
/-- arguments of a call: nothing but blanks, or `blanks seq blanks (, blanks seq blanks)*` -/
inductive XArgs
  | none (gap : List Nat)
  | some (l : List Nat) (s : XSeq) (r : List Nat) (more : XMore)
inductive XMore
  | nil
  | cons (l : List Nat) (s : XSeq) (r : List Nat) (more : XMore)   -- `,` blanks seq blanks
end

mutual
def XTerm.render : XTerm → List Nat
  | .num r ds => r.pre ++ ds
  | .neg ds => 45 :: ds
  | .label n => n
  | .var n => 36 :: n
  | .call n g as => n ++ g ++ [40] ++ as.render ++ [41]
  | .selector sig => [115, 101, 108, 101, 99, 116, 111, 114, 40, 34] ++ sig ++ [34, 41]
  | .topic sig => [116, 111, 112, 105, 99, 40, 34] ++ sig ++ [34, 41]
  | .paren l s r => [40] ++ l ++ s.render ++ r ++ [41]
def XSeq.render : XSeq → List Nat
  | .mk t rest => t.render ++ rest.render
def XRest.render : XRest → List Nat
  | .nil => []
  | .cons l op r t rest => l ++ [opChar op] ++ r ++ t.render ++ rest.render
def XArgs.render : XArgs → List Nat
  | .none g => g
  | .some l s r more => l ++ s.render ++ r ++ more.render
def XMore.render : XMore → List Nat
  | .nil => []
  | .cons l s r more => [44] ++ l ++ s.render ++ r ++ more.render
end

/-- a macro / function name: letter or `_`, then letters, digits, `_` -/
def IsFnName (n : List Nat) : Prop :=
  match n with
  | [] => False
  | c :: cs => (isAlpha c = true ∨ c = 95) ∧ ∀ d ∈ cs, isAlnum d = true ∨ d = 95

/-- a parameter / variable name: letter, then letters and digits -/
def IsParam (n : List Nat) : Prop :=
  match n with
  | [] => False
  | c :: cs => isAlpha c = true ∧ ∀ d ∈ cs, isAlnum d = true

/-- `name(type,type,…)` without blanks: what `selector_function_declaration` lexes -/
def sigText (name : List Nat) (types : List (List Nat)) : List Nat :=
  name ++ [40] ++ (match types with
    | [] => []
    | t :: ts => t ++ ts.flatMap (fun u => 44 :: u)) ++ [41]

def IsSig (sig : List Nat) : Prop :=
  ∃ name types, sig = sigText name types ∧ IsFnName name ∧ ∀ t ∈ types, IsParam t

mutual
def XTerm.WF : XTerm → Prop
  | .num r ds => r.minDigits ≤ ds.length ∧ ∀ c ∈ ds, (toDigit r.base c).isSome = true
  | .neg ds => 1 ≤ ds.length ∧ ∀ c ∈ ds, (toDigit 10 c).isSome = true
  | .label n => IsLabel n
  | .var n => IsParam n
  | .call n g as => IsFnName n ∧ ExprText.IsBlanks g ∧ as.WF
  | .selector sig => IsSig sig
  | .topic sig => IsSig sig
  | .paren l s r => ExprText.IsBlanks l ∧ s.WF ∧ ExprText.IsBlanks r
def XSeq.WF : XSeq → Prop
  | .mk t rest => t.WF ∧ rest.WF
def XRest.WF : XRest → Prop
  | .nil => True
  | .cons l _ r t rest => ExprText.IsBlanks l ∧ ExprText.IsBlanks r ∧ t.WF ∧ rest.WF
def XArgs.WF : XArgs → Prop
  | .none g => ExprText.IsBlanks g
  | .some l s r more => ExprText.IsBlanks l ∧ s.WF ∧ ExprText.IsBlanks r ∧ more.WF
def XMore.WF : XMore → Prop
  | .nil => True
  | .cons l s r more => ExprText.IsBlanks l ∧ s.WF ∧ ExprText.IsBlanks r ∧ more.WF
end

def keccakOf (sig : List Nat) (n : Nat) : Expr :=
  .num (beInt ((Keccak.keccak256 ((strOf sig).toUTF8.toList.map (fun b => b.toNat))).take n))

mutual
def XTerm.expr : XTerm → Expr
  | .num r ds => .num (Int.ofNat (digitsVal r.base ds))
  | .neg ds => .num (-(Int.ofNat (digitsVal 10 ds)))
  | .label n => .label (strOf n)
  | .var n => .var (strOf n)
  | .call n _ as => .macro (strOf n) (Exprs.ofList as.list)
  | .selector sig => keccakOf sig 4
  | .topic sig => keccakOf sig 32
  | .paren _ s _ => s.expr
def XSeq.expr : XSeq → Expr
  | .mk t rest => climb t.expr rest.list
def XRest.list : XRest → List (BinOp × Expr)
  | .nil => []
  | .cons _ op _ t rest => (op, t.expr) :: rest.list
def XArgs.list : XArgs → List Expr
  | .none _ => []
  | .some _ s _ more => s.expr :: more.list
def XMore.list : XMore → List Expr
  | .nil => []
  | .cons _ s _ more => s.expr :: more.list
end

/-! ### statements -/

/-- a path as written between the quotes: plain characters, `\\` and `\"` escapes -/
inductive PChar
  | plain (c : Nat)
  | backslash         -- written `\\`
  | quote             -- written `\"`

def PChar.text : PChar → List Nat
  | .plain c => [c]
  | .backslash => [92, 92]
  | .quote => [92, 34]
def PChar.value : PChar → Nat
  | .plain c => c
  | .backslash => 92
  | .quote => 34
def PChar.WF : PChar → Prop
  | .plain c => c ≠ 34 ∧ c ≠ 92 ∧ c ≠ 10 ∧ c ≠ 13
  | _ => True

inductive Directive | import_ | include | includeHex

def Directive.word : Directive → List Nat
  | .import_ => [105, 109, 112, 111, 114, 116]
  | .include => [105, 110, 99, 108, 117, 100, 101]
  | .includeHex => [105, 110, 99, 108, 117, 100, 101, 95, 104, 101, 120]

/-- `name g1 ( params ) ` of a definition: parameters separated by `,` with blanks -/
structure Decl where
  name : List Nat
  g1 : List Nat                      -- blanks between name and `(`
  params : List (List Nat × List Nat × List Nat)   -- blanks, parameter, blanks
  
def Decl.render (d : Decl) : List Nat :=
  d.name ++ d.g1 ++ [40] ++ (match d.params with
    | [] => []
    | (l, p, r) :: ps => l ++ p ++ r ++ ps.flatMap (fun (l, p, r) => [44] ++ l ++ p ++ r)) ++ [41]

def Decl.WF (d : Decl) : Prop :=
  IsFnName d.name ∧ ExprText.IsBlanks d.g1 ∧
  ∀ x ∈ d.params, ExprText.IsBlanks x.1 ∧ IsParam x.2.1 ∧ ExprText.IsBlanks x.2.2

/-- names an instruction-macro invocation `%name gap ( args )` cannot carry, because an earlier alternative of `stmt` /
`instruction_macro_stmt` takes the text: EXACTLY `push`, `import`, `include`, `include_hex` (then `%name (` is the builtin;
blanks before `(` are allowed there, the four rules being non-atomic), and every name that STARTS with `macro` or `def`
(`%macrox()` is `%macro` + declaration `x()` when a matching `%end` follows, `%deffoo()` likewise with `%def`: that depends
on the rest of the text, so the whole prefix is excluded).  A name that merely has `push` / `import` / `include` /
`include_hex` as a proper prefix (`push_all`, `importx`, `include_lib`, `include_hexx`) is not reserved: the literal
matches, the implicit skip eats nothing (a name character follows), and `arguments` fails because that character is not
`(`.  Names starting with `end` (`end`, `endx`, `end_loop`) are not reserved either, inside a macro body included: the
body loop tries a statement before the closing `"%end"`. -/
def reservedName (n : List Nat) : Bool :=
  n == [112, 117, 115, 104] || n == [105, 109, 112, 111, 114, 116] || n == [105, 110, 99, 108, 117, 100, 101] ||
  n == [105, 110, 99, 108, 117, 100, 101, 95, 104, 101, 120] ||
  [109, 97, 99, 114, 111].isPrefixOf n || [100, 101, 102].isPrefixOf n

/-- a statement that may stand inside an instruction-macro body -/
inductive BStmt
  | ins (i : Disasm.Instr)
  | pushE (n : Nat) (ws : Nat) (s : XSeq)
  | apush (l : List Nat) (s : XSeq) (r : List Nat)
  | label (name : List Nat) (gap : List Nat)
  | invoke (name : List Nat) (gap : List Nat) (args : XArgs)       -- `%name gap ( args )`

def BStmt.text : BStmt → List Nat
  | .ins i => Layout.stmtText i
  | .pushE n ws s => [112, 117, 115, 104] ++ ProgText.decimal n ++ [ws] ++ s.render
  | .apush l s r => [37, 112, 117, 115, 104, 40] ++ l ++ s.render ++ r ++ [41]
  | .label name gap => name ++ gap ++ [58]
  | .invoke name gap args => [37] ++ name ++ gap ++ [40] ++ args.render ++ [41]

def BStmt.WF : BStmt → Prop
  | .ins i => Listing.Valid i
  | .pushE n ws s => 1 ≤ n ∧ n ≤ 32 ∧ (ws = 32 ∨ ws = 9) ∧ s.WF ∧
      ∀ fuel v, evalClosed fuel s.expr = some v → v < (2 : Int) ^ (8 * n)
  | .apush l s r => ExprText.IsBlanks l ∧ s.WF ∧ ExprText.IsBlanks r
  | .label name gap => IsLabel name ∧ ExprText.IsBlanks gap
  | .invoke name gap args => IsFnName name ∧ reservedName name = false ∧ ExprText.IsBlanks gap ∧ args.WF

def BStmt.aop : BStmt → AOp
  | .ins i => .op i.op (if i.imm.isEmpty then none else some (.num (Int.ofNat (Listing.beNat i.imm))))
  | .pushE n _ s => .op (0x5f + n) (some s.expr)
  | .apush _ s _ => .push s.expr
  | .label name _ => .label (strOf name)
  | .invoke name _ args => .macro (strOf name) args.list

/-- a line of a macro body: blanks, statement, blanks, optional comment, line end, blank / comment-only lines -/
structure BLine where
  lead : List Nat
  stmt : BStmt
  trail : List Nat
  comment : Option (List Nat)
  crlf : Bool
  more : List BlankLine

def BLine.text (b : BLine) : List Nat :=
  b.lead ++ b.stmt.text ++ b.trail ++ commentText b.comment ++ newline b.crlf ++ b.more.flatMap BlankLine.text

def BLine.WF (b : BLine) : Prop :=
  Layout.IsBlanks b.lead ∧ b.stmt.WF ∧ Layout.IsBlanks b.trail ∧ (∀ c, b.comment = some c → IsCommentBody c) ∧ ∀ x ∈ b.more, x.WF

inductive Stmt
  | plain (b : BStmt)
  /-- `%import g1 ( g2 "path" g3 )` and its two siblings -/
  | directive (d : Directive) (g1 g2 : List Nat) (path : List PChar) (g3 : List Nat)
  /-- `%macro g0 decl (blanks comment? newline blank-lines) body-lines %end` -/
  | macroDef (g0 : List Nat) (d : Decl) (trail : List Nat) (comment : Option (List Nat)) (crlf : Bool)
      (more : List BlankLine) (body : List BLine) (lead : List Nat)
  /-- `%def g0 decl blanks newline blanks expr blanks newline blanks %end` -/
  | exprDef (g0 : List Nat) (d : Decl) (t1 : List Nat) (crlf1 : Bool) (l2 : List Nat) (s : XSeq) (t2 : List Nat) (crlf2 : Bool)
      (l3 : List Nat)

def Stmt.text : Stmt → List Nat
  | .plain b => b.text
  | .directive d g1 g2 path g3 => [37] ++ d.word ++ g1 ++ [40] ++ g2 ++ [34] ++ path.flatMap PChar.text ++ [34] ++ g3 ++ [41]
  | .macroDef g0 d trail c crlf more body lead =>
      [37, 109, 97, 99, 114, 111] ++ g0 ++ d.render ++ trail ++ commentText c ++ newline crlf ++ more.flatMap BlankLine.text ++
      body.flatMap BLine.text ++ lead ++ [37, 101, 110, 100]
  | .exprDef g0 d t1 crlf1 l2 s t2 crlf2 l3 =>
      [37, 100, 101, 102] ++ g0 ++ d.render ++ t1 ++ newline crlf1 ++ l2 ++ s.render ++ t2 ++ newline crlf2 ++ l3 ++ [37, 101, 110, 100]

def Stmt.WF : Stmt → Prop
  | .plain b => b.WF
  | .directive _ g1 g2 path g3 => ExprText.IsBlanks g1 ∧ ExprText.IsBlanks g2 ∧ (∀ c ∈ path, c.WF) ∧ ExprText.IsBlanks g3
  | .macroDef g0 d trail c _ more body lead =>
      1 ≤ g0.length ∧ ExprText.IsBlanks g0 ∧ d.WF ∧ Layout.IsBlanks trail ∧ (∀ x, c = some x → IsCommentBody x) ∧
      (∀ x ∈ more, x.WF) ∧ (∀ b ∈ body, b.WF) ∧ Layout.IsBlanks lead
  | .exprDef g0 d t1 _ l2 s t2 _ l3 =>
      1 ≤ g0.length ∧ ExprText.IsBlanks g0 ∧ d.WF ∧ Layout.IsBlanks t1 ∧ Layout.IsBlanks l2 ∧ s.WF ∧ Layout.IsBlanks t2 ∧
      Layout.IsBlanks l3

def Stmt.node : Stmt → Node
  | .plain b => .op b.aop
  | .directive .import_ _ _ path _ => .import_ (strOf (path.map PChar.value))
  | .directive .include _ _ path _ => .include (strOf (path.map PChar.value))
  | .directive .includeHex _ _ path _ => .includeHex (strOf (path.map PChar.value))
  | .macroDef _ d _ _ _ _ body _ =>
      .op (.instrDef (strOf d.name) (d.params.map (fun x => strOf x.2.1)) (AOps.ofList (body.map (fun b => b.stmt.aop))))
  | .exprDef _ d _ _ _ s _ _ _ => .op (.exprDef (strOf d.name) (d.params.map (fun x => strOf x.2.1)) s.expr)

structure Item where
  lead : List Nat
  stmt : Stmt
  term : Layout.Term

def Item.text (x : Item) : List Nat := x.lead ++ x.stmt.text ++ x.term.text

def render (head : List BlankLine) (items : List Item) : List Nat :=
  head.flatMap BlankLine.text ++ items.flatMap Item.text

def OpenOnlyLast : List Item → Prop
  | [] => True
  | [_] => True
  | x :: y :: rest => x.term.isOpen = false ∧ OpenOnlyLast (y :: rest)

def WF (head : List BlankLine) (items : List Item) : Prop :=
  (∀ b ∈ head, b.WF) ∧ (∀ x ∈ items, Layout.IsBlanks x.lead ∧ x.stmt.WF ∧ x.term.WF) ∧ OpenOnlyLast items

end FullText
end Asm
end EtkVerif
