/-
The simulation between the assembler model (`push`/`expandMacro`/`feed`/`feedAll`/
`assemble`) and the specification (`flattenOp`/…/`assembleScope`).
-/
import EtkVerif.Asm.RefineFinish
namespace EtkVerif
namespace Asm

open Spec

/-- The model state reached after feeding what the specification flattens to `items`. -/
structure Sim (ms : List (String × MacroDef)) (depth : Nat) (s : St) (items : List Item) : Prop where
  ready : s.ready = items
  macros : s.macros = ms
  depth : s.depth = depth
  names : s.labels.map Prod.fst = itemLabels items
  allSome : ∀ p ∈ s.labels, p.2.isSome = true
  nodup : (itemLabels items).Nodup
  undecl : ∃ used, mentioned ms items = .ok used ∧
    ∀ l, l ∈ s.undeclared ↔ (l ∈ used ∧ l ∉ itemLabels items)

/-! ### small facts -/

theorem any_fst_iff (a : List (String × Option Nat)) (l : String) :
    a.any (·.1 == l) = true ↔ l ∈ a.map Prod.fst := by
  rw [List.any_eq_true, List.mem_map]
  constructor
  · rintro ⟨x, hx, h⟩; exact ⟨x, hx, by simpa using h⟩
  · rintro ⟨x, hx, h⟩; exact ⟨x, hx, by simpa using h⟩

theorem lookup_dich (a : List (String × Option Nat)) (hs : ∀ p ∈ a, p.2.isSome = true) (l : String) :
    (l ∉ a.map Prod.fst ∧ lookupLabel a l = none) ∨
    (l ∈ a.map Prod.fst ∧ ∃ p, lookupLabel a l = some (some p)) := by
  rcases TabRel.lookup l (TabRel.init a hs) with ⟨hn, h, _⟩ | ⟨hy, p, _, h, _⟩
  · left
    refine ⟨?_, h⟩
    intro hm
    rw [(any_fst_iff a l).2 hm] at hn
    simp at hn
  · right
    exact ⟨(any_fst_iff a l).1 hy, p, h⟩

theorem Sim.isDefined_iff {ms depth s items} (h : Sim ms depth s items) (l : String) :
    isDefined s l = true ↔ l ∈ itemLabels items := by
  unfold isDefined
  rw [← h.names]
  rcases lookup_dich s.labels h.allSome l with ⟨hn, hl⟩ | ⟨hy, p, hl⟩
  · rw [hl]; simp [hn]
  · rw [hl]; simp [hy]

theorem mem_insertSet (xs : List String) (x l : String) : l ∈ insertSet xs x ↔ l ∈ xs ∨ l = x := by
  unfold insertSet
  split
  · next h =>
    have := List.contains_iff_mem.1 h
    constructor
    · intro hl; exact Or.inl hl
    · rintro (hl | hl)
      · exact hl
      · subst hl; exact this
  · simp

theorem mem_foldl_insertSet (ys xs : List String) (l : String) :
    l ∈ ys.foldl insertSet xs ↔ l ∈ xs ∨ l ∈ ys := by
  induction ys generalizing xs with
  | nil => simp
  | cons y ys ih =>
    rw [List.foldl_cons, ih, mem_insertSet, List.mem_cons]
    constructor
    · rintro ((h | h) | h)
      · exact Or.inl h
      · exact Or.inr (Or.inl h)
      · exact Or.inr (Or.inr h)
    · rintro (h | h | h)
      · exact Or.inl (Or.inl h)
      · exact Or.inl (Or.inr h)
      · exact Or.inr h

/-- what `pushInstr` computes first: the labels the operand mentions -/
def mentionedOf (ms : List (String × MacroDef)) (o : AOp) : Except AsmErr (List String) :=
  match o.expr? with
  | none => .ok []
  | some e => match labelsOf ms evalFuel 0 e with
    | .ok ls => .ok ls
    | .error (.unknownMacro n) => .error (.undeclaredExpressionMacro n)
    | .error (.recursionLimit n) => .error (.macroRecursionLimit n)
    | .error _ => .error (.panic "labels unreachable")

theorem mentioned_single (ms : List (String × MacroDef)) (o : AOp) (item : Item)
    (hexpr : itemExpr? item = o.expr?) : mentioned ms [item] = mentionedOf ms o := by
  unfold mentionedOf
  simp only [mentioned, hexpr]
  cases o.expr? with
  | none => rfl
  | some e =>
    simp only []
    cases labelsOf ms evalFuel 0 e with
    | ok ls => simp [Except.map]
    | error err => cases err <;> rfl

/-- the operand mentions no label -/
def closedP (ms : List (String × MacroDef)) (o : AOp) : Prop :=
  match o.expr? with
  | none => True
  | some e => labelsOf ms evalFuel 0 e = .ok []

theorem closedP_of (ms : List (String × MacroDef)) (o : AOp) (ls : List String) (s1 : St)
    (hm : mentionedOf ms o = .ok ls) (hms : s1.macros = ms) (hd : dependsOnLabels s1 o = false) :
    closedP ms o := by
  unfold closedP
  unfold dependsOnLabels at hd
  unfold mentionedOf at hm
  rw [hms] at hd
  generalize o.expr? = oe at hd hm ⊢
  cases oe with
  | none => trivial
  | some e =>
    simp only [] at hd hm ⊢
    cases hl : labelsOf ms evalFuel 0 e with
    | error err => rw [hl] at hm; cases err <;> simp at hm
    | ok x =>
      rw [hl] at hd
      simp only [] at hd
      cases x with
      | nil => rfl
      | cons a b => simp at hd

theorem pushInstr_eq (s : St) (o : AOp) (item : Item) (size : Option Nat) (conc : St → Conc) :
    pushInstr s o item size conc =
      match mentionedOf s.macros o with
      | .error e => .error e
      | .ok ls =>
        let s1 : St := { s with undeclared := (ls.filter (fun l => !isDefined s l)).foldl insertSet s.undeclared }
        let deferred : St := { s1 with len := s1.len + size.getD 2, ready := s1.ready ++ [item] }
        match conc s1 with
        | .ok bytes => .ok { s1 with len := s1.len + bytes.length, ready := s1.ready ++ [item] }
        | .tooLarge => if dependsOnLabels s1 o then .ok deferred else .error .expressionTooLarge
        | .negative => if dependsOnLabels s1 o then .ok deferred else .error .expressionNegative
        | .ctx .divisionByZero => if dependsOnLabels s1 o then .ok deferred else .error .divisionByZero
        | .ctx (.unknownLabel _) => .ok deferred
        | .ctx err => .error (mapErr err) := rfl

/-- adding an item that defines no label -/
theorem Sim.addItem {ms depth s items} (hsim : Sim ms depth s items) (item : Item) (ls : List String)
    (hm : mentioned ms [item] = .ok ls) (hl : itemLabels [item] = []) (s' : St)
    (h1 : s'.ready = s.ready ++ [item]) (h2 : s'.labels = s.labels) (h3 : s'.macros = s.macros)
    (h4 : s'.depth = s.depth)
    (h5 : ∀ l, l ∈ s'.undeclared ↔ (l ∈ s.undeclared ∨ (l ∈ ls ∧ l ∉ itemLabels items))) :
    Sim ms depth s' (items ++ [item]) := by
  have hlab : itemLabels (items ++ [item]) = itemLabels items := by
    rw [itemLabels_append, hl, List.append_nil]
  obtain ⟨used, hu, hund⟩ := hsim.undecl
  refine ⟨by rw [h1, hsim.ready], by rw [h3, hsim.macros], by rw [h4, hsim.depth],
    by rw [h2, hlab, hsim.names], by rw [h2]; exact hsim.allSome, by rw [hlab]; exact hsim.nodup, ?_⟩
  refine ⟨used ++ ls, by rw [mentioned_append, hu, hm], ?_⟩
  intro l
  rw [h5, hund, hlab, List.mem_append]
  constructor
  · rintro (⟨a, b⟩ | ⟨a, b⟩)
    · exact ⟨Or.inl a, b⟩
    · exact ⟨Or.inr a, b⟩
  · rintro ⟨a | a, b⟩
    · exact Or.inl ⟨a, b⟩
    · exact Or.inr ⟨a, b⟩

/-- the final phase agrees -/
theorem Sim.finish_iff {ms depth s items} (hsim : Sim ms depth s items) (bytes : List Nat) :
    finish s = .ok bytes ↔ assembleItems ms items = .ok bytes := by
  obtain ⟨used, hm, hund⟩ := hsim.undecl
  by_cases hu : s.undeclared = []
  · have hall : ∀ l ∈ used, l ∈ itemLabels items := by
      intro l hl
      apply Classical.byContradiction
      intro hn
      have := (hund l).2 ⟨hl, hn⟩
      rw [hu] at this
      simp at this
    rw [assembleItems_of hsim.nodup hm hall]
    have : finish s =
        finish { ready := items, labels := (itemLabels items).map (fun l => (l, some 0)), macros := ms } := by
      apply finish_congr
      · exact hsim.ready
      · exact hsim.macros
      · exact hu
      · intro ws
        exact positionsPass_congr items ws s.labels hsim.names hsim.allSome
    rw [this]
  · constructor
    · intro h; exact absurd h (finish_undeclared hu bytes)
    · intro h
      obtain ⟨_, used', hm', hall, _⟩ := assembleItems_ok_inv h
      rw [hm] at hm'
      injection hm' with hm'
      subst hm'
      cases hx : s.undeclared with
      | nil => exact absurd hx hu
      | cons a b =>
        have := (hund a).1 (by rw [hx]; exact List.mem_cons_self ..)
        exact absurd (hall a this.1) this.2

/-! ### one instruction -/

theorem pushInstr_step {ms depth s items} (hsim : Sim ms depth s items) (o : AOp) (item : Item)
    (size : Option Nat) (cf : Ctx → Conc)
    (hexpr : itemExpr? item = o.expr?) (hl : itemLabels [item] = [])
    (hbad : ∀ ls, FeedBad (closedP ms o) (cf ⟨ls, ms, none, 0⟩) →
      ∀ ls' ws bs, emitItem ⟨ls', ms, none, 0⟩ item ws ≠ .ok bs) :
    (∀ s', pushInstr s o item size (fun s => cf s.ctx) = .ok s' →
      s'.fresh = s.fresh ∧ Sim ms depth s' (items ++ [item])) ∧
    (∀ e, pushInstr s o item size (fun s => cf s.ctx) = .error e → Doomed ms (items ++ [item])) := by
  rw [pushInstr_eq]
  have hmm : mentionedOf s.macros o = mentionedOf ms o := by rw [hsim.macros]
  rw [hmm]
  have hms := mentioned_single ms o item hexpr
  cases hm : mentionedOf ms o with
  | error err =>
    simp only []
    constructor
    · intro s' h; simp at h
    · intro e _
      apply doomed_of_mentioned (e := err)
      obtain ⟨used, hu, _⟩ := hsim.undecl
      rw [mentioned_append, hu, hms, hm]
  | ok ls =>
    rw [hm] at hms
    simp only []
    -- the two shapes of successor state
    have hS : ∀ n : Nat, Sim ms depth
        { s with undeclared := (ls.filter (fun l => !isDefined s l)).foldl insertSet s.undeclared,
                 len := n, ready := s.ready ++ [item] } (items ++ [item]) := by
      intro n
      apply Sim.addItem hsim item ls hms hl
      · rfl
      · rfl
      · rfl
      · rfl
      intro l
      simp only []
      rw [mem_foldl_insertSet, List.mem_filter]
      have := hsim.isDefined_iff l
      constructor
      · rintro (h | ⟨h1, h2⟩)
        · exact Or.inl h
        · right
          refine ⟨h1, ?_⟩
          intro hc
          rw [this.2 hc] at h2
          simp at h2
      · rintro (h | ⟨h1, h2⟩)
        · exact Or.inl h
        · right
          refine ⟨h1, ?_⟩
          cases hd : isDefined s l with
          | false => rfl
          | true => exact absurd (this.1 hd) h2
    have hctx : St.ctx { s with undeclared := (ls.filter (fun l => !isDefined s l)).foldl insertSet s.undeclared }
        = ⟨s.labels, ms, none, 0⟩ := by
      simp only [St.ctx, hsim.macros]
    rw [hctx]
    have hcl : ∀ h : dependsOnLabels
        { s with undeclared := (ls.filter (fun l => !isDefined s l)).foldl insertSet s.undeclared } o = false,
        closedP ms o := fun h => closedP_of ms o ls _ hm hsim.macros h
    have hdoom : FeedBad (closedP ms o) (cf ⟨s.labels, ms, none, 0⟩) → Doomed ms (items ++ [item]) :=
      fun hb => doomed_of_emitItem (hbad _ hb)
    cases hc : cf ⟨s.labels, ms, none, 0⟩ with
    | ok bytes =>
      simp only []
      constructor
      · intro s' h; injection h with h; subst h; exact ⟨rfl, hS _⟩
      · intro e h; simp at h
    | tooLarge =>
      rw [hc] at hdoom
      simp only []
      cases hd : dependsOnLabels
        { s with undeclared := (ls.filter (fun l => !isDefined s l)).foldl insertSet s.undeclared } o with
      | true =>
        simp only [if_true]
        constructor
        · intro s' h; injection h with h; subst h; exact ⟨rfl, hS _⟩
        · intro e h; simp at h
      | false =>
        simp only [Bool.false_eq_true, if_false]
        constructor
        · intro s' h; simp at h
        · intro e _; exact hdoom (hcl hd)
    | negative =>
      rw [hc] at hdoom
      simp only []
      cases hd : dependsOnLabels
        { s with undeclared := (ls.filter (fun l => !isDefined s l)).foldl insertSet s.undeclared } o with
      | true =>
        simp only [if_true]
        constructor
        · intro s' h; injection h with h; subst h; exact ⟨rfl, hS _⟩
        · intro e h; simp at h
      | false =>
        simp only [Bool.false_eq_true, if_false]
        constructor
        · intro s' h; simp at h
        · intro e _; exact hdoom (hcl hd)
    | ctx err =>
      rw [hc] at hdoom
      cases err with
      | divisionByZero =>
        simp only []
        cases hd : dependsOnLabels
          { s with undeclared := (ls.filter (fun l => !isDefined s l)).foldl insertSet s.undeclared } o with
        | true =>
          simp only [if_true]
          constructor
          · intro s' h; injection h with h; subst h; exact ⟨rfl, hS _⟩
          · intro e h; simp at h
        | false =>
          simp only [Bool.false_eq_true, if_false]
          constructor
          · intro s' h; simp at h
          · intro e _; exact hdoom (hcl hd)
      | unknownLabel l =>
        simp only []
        constructor
        · intro s' h; injection h with h; subst h; exact ⟨rfl, hS _⟩
        · intro e h; simp at h
      | unknownMacro n =>
        simp only []
        constructor
        · intro s' h; simp at h
        · intro e _; exact hdoom trivial
      | undefinedVariable n =>
        simp only []
        constructor
        · intro s' h; simp at h
        · intro e _; exact hdoom trivial
      | recursionLimit n =>
        simp only []
        constructor
        · intro s' h; simp at h
        · intro e _; exact hdoom trivial

end Asm
end EtkVerif
