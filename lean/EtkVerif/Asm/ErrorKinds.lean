/-
Errors name the offending labels: when the assembler model fails with
`UndeclaredLabels ls`, then `ls` is — as a set — EXACTLY the set of labels that
operands of the (hygienically expanded) scope mention and the scope does not
define; the scope is the program itself or one of its nested `%include` scopes.
-/
import EtkVerif.Asm.Refine
import EtkVerif.Asm.FuelLemmas
namespace EtkVerif
namespace Asm

/-- `sub` is `ops` itself or a scope nested (to any depth) inside it -/
inductive SubScope : RawOps → RawOps → Prop
  | refl (ops : RawOps) : SubScope ops ops
  | nested (sub inner ops : RawOps) : RawOp.scope inner ∈ ops.toList → SubScope sub inner → SubScope sub ops

open Spec

/-! ### `eval` meets no unknown label once every mentioned label is defined -/

def DefinedIn (ls : List (String × Option Nat)) (L : List String) : Prop :=
  ∀ x ∈ L, ∃ p, lookupLabel ls x = some (some p)

theorem DefinedIn.left {ls L M} (h : DefinedIn ls (L ++ M)) : DefinedIn ls L :=
  fun x hx => h x (List.mem_append_left _ hx)
theorem DefinedIn.right {ls L M} (h : DefinedIn ls (L ++ M)) : DefinedIn ls M :=
  fun x hx => h x (List.mem_append_right _ hx)

theorem labelsBind_ok {A B : Except EvErr (List String)} {L : List String}
    (h : (match A with
      | .error e => .error e
      | .ok x => match B with
        | .error e => .error e
        | .ok y => .ok (x ++ y)) = (.ok L : Except EvErr (List String))) :
    ∃ x y, A = .ok x ∧ B = .ok y ∧ L = x ++ y := by
  cases A with
  | error e => simp at h
  | ok x =>
    cases B with
    | error e => simp at h
    | ok y =>
      simp only [Except.ok.injEq] at h
      exact ⟨x, y, rfl, rfl, h.symm⟩

theorem eval_arith_noUnknown {f : Nat} {c : Ctx} {a b : Expr} {l : String} {g : Int → Int → Except EvErr Int}
    (ha : eval f c a ≠ .error (.unknownLabel l)) (hb : eval f c b ≠ .error (.unknownLabel l))
    (hg : ∀ x y, g x y ≠ .error (.unknownLabel l)) :
    (match eval f c a with
      | .error e => Except.error e
      | .ok x => match eval f c b with
        | .error e => Except.error e
        | .ok y => g x y) ≠ Except.error (EvErr.unknownLabel l) := by
  cases h1 : eval f c a with
  | error e => rw [h1] at ha; exact ha
  | ok x =>
    simp only []
    cases h2 : eval f c b with
    | error e => rw [h2] at hb; exact hb
    | ok y => exact hg x y

theorem eval_noUnknown_aux (ms : List (String × MacroDef)) (ls : List (String × Option Nat)) :
    ∀ f,
      (∀ g depth e L, labelsOf ms g depth e = .ok L → DefinedIn ls L →
        ∀ vars d l, eval f ⟨ls, ms, vars, d⟩ e ≠ .error (.unknownLabel l)) ∧
      (∀ g depth args L, labelsOfArgs ms g depth args = .ok L → DefinedIn ls L →
        ∀ params vars d l, evalArgs f ⟨ls, ms, vars, d⟩ params args ≠ .error (.unknownLabel l)) := by
  intro f
  induction f with
  | zero =>
    constructor
    · intro g depth e L _ _ vars d l; simp [eval]
    · intro g depth args L _ _ params vars d l; simp [evalArgs]
  | succ f ih =>
    constructor
    · intro g depth e L h hdef vars d l
      cases g with
      | zero => simp [labelsOf] at h
      | succ g =>
        cases e with
        | paren e =>
          simp only [labelsOf] at h
          simp only [eval]
          exact ih.1 g depth e L h hdef vars d l
        | num n => simp [eval]
        | label x =>
          simp only [labelsOf, Except.ok.injEq] at h
          subst h
          obtain ⟨p, hp⟩ := hdef x (by simp)
          simp [eval, hp]
        | var x =>
          simp only [eval]
          cases vars with
          | none => simp
          | some vs =>
            simp only []
            cases lookupVar vs x <;> simp
        | plus a b =>
          simp only [labelsOf] at h
          obtain ⟨x, y, ha, hb, hL⟩ := labelsBind_ok h
          subst hL
          simp only [eval]
          exact eval_arith_noUnknown (g := fun x y => .ok (x + y)) (ih.1 g depth a x ha hdef.left vars d l)
            (ih.1 g depth b y hb hdef.right vars d l) (by intro x y; simp)
        | minus a b =>
          simp only [labelsOf] at h
          obtain ⟨x, y, ha, hb, hL⟩ := labelsBind_ok h
          subst hL
          simp only [eval]
          exact eval_arith_noUnknown (g := fun x y => .ok (x - y)) (ih.1 g depth a x ha hdef.left vars d l)
            (ih.1 g depth b y hb hdef.right vars d l) (by intro x y; simp)
        | times a b =>
          simp only [labelsOf] at h
          obtain ⟨x, y, ha, hb, hL⟩ := labelsBind_ok h
          subst hL
          simp only [eval]
          exact eval_arith_noUnknown (g := fun x y => .ok (x * y)) (ih.1 g depth a x ha hdef.left vars d l)
            (ih.1 g depth b y hb hdef.right vars d l) (by intro x y; simp)
        | divide a b =>
          simp only [labelsOf] at h
          obtain ⟨x, y, ha, hb, hL⟩ := labelsBind_ok h
          subst hL
          simp only [eval]
          exact eval_arith_noUnknown (g := fun x y => if y = 0 then .error .divisionByZero else .ok (Int.tdiv x y))
            (ih.1 g depth a x ha hdef.left vars d l)
            (ih.1 g depth b y hb hdef.right vars d l) (by intro x y; split <;> simp)
        | «macro» name args =>
          simp only [labelsOf] at h
          simp only [eval]
          cases hlk : lookupMacro ms name with
          | none => simp
          | some md =>
            cases md with
            | instr ps body => simp
            | expr params body =>
              rw [hlk] at h
              simp only [] at h ⊢
              by_cases hdep : depth ≥ maxMacroDepth
              · simp [hdep] at h
              · rw [if_neg hdep] at h
                obtain ⟨x, y, hbody, hargs, hL⟩ := labelsBind_ok h
                subst hL
                have h1 := ih.2 g depth args y hargs hdef.right params vars d l
                cases hea : evalArgs f ⟨ls, ms, vars, d⟩ params args with
                | error err => rw [hea] at h1; simpa using h1
                | ok vs =>
                  simp only []
                  split
                  · simp
                  · exact ih.1 g (depth + 1) body x hbody hdef.left (some vs) (d + 1) l
    · intro g depth args L h hdef params vars d l
      cases params with
      | nil => simp [evalArgs]
      | cons p ps =>
        cases args with
        | nil => simp [evalArgs]
        | cons a as =>
          cases g with
          | zero => simp [labelsOfArgs] at h
          | succ g =>
            simp only [labelsOfArgs] at h
            obtain ⟨x, y, ha, hb, hL⟩ := labelsBind_ok h
            subst hL
            simp only [evalArgs]
            have h1 := ih.1 g depth a x ha hdef.left vars d l
            have h2 := ih.2 g depth as y hb hdef.right ps vars d l
            cases hea : eval f ⟨ls, ms, vars, d⟩ a with
            | error err => rw [hea] at h1; simpa using h1
            | ok v =>
              simp only []
              cases heb : evalArgs f ⟨ls, ms, vars, d⟩ ps as with
              | error err => rw [heb] at h2; simpa using h2
              | ok rest => simp

theorem eval_noUnknown (ms : List (String × MacroDef)) (ls : List (String × Option Nat)) (e : Expr)
    (L : List String) (h : labelsOf ms evalFuel 0 e = .ok L) (hdef : DefinedIn ls L) (l : String) :
    eval evalFuel ⟨ls, ms, none, 0⟩ e ≠ .error (.unknownLabel l) :=
  (eval_noUnknown_aux ms ls evalFuel).1 evalFuel 0 e L h hdef none 0 l

/-! ### emission reports no undeclared label once every mentioned label is defined -/

theorem mapErr_undeclared {err : EvErr} {ls : List String} (h : mapErr err = .undeclaredLabels ls) :
    ∃ l, err = .unknownLabel l := by
  cases err <;> simp [mapErr] at h
  exact ⟨_, rfl⟩

theorem concretizeOp_noUL (ms : List (String × MacroDef)) (T : List (String × Option Nat)) (code : Nat)
    (e : Expr) (L : List String) (h : labelsOf ms evalFuel 0 e = .ok L) (hdef : DefinedIn T L)
    (ls : List String) :
    (concretizeOp ⟨T, ms, none, 0⟩ code (some e)).toExcept ≠ .error (.undeclaredLabels ls) := by
  unfold concretizeOp
  simp only []
  cases hev : eval evalFuel ⟨T, ms, none, 0⟩ e with
  | error err =>
    simp only [Conc.toExcept]
    intro hc
    injection hc with hc
    obtain ⟨l, hl⟩ := mapErr_undeclared hc
    subst hl
    exact eval_noUnknown ms T e L h hdef l hev
  | ok v =>
    simp only []
    split
    · simp [Conc.toExcept]
    · split <;> simp [Conc.toExcept]

theorem emitItem_noUL (ms : List (String × MacroDef)) (T : List (String × Option Nat)) (item : Item)
    (used : List String) (hm : mentioned ms [item] = .ok used) (hdef : DefinedIn T used)
    (ws : List Nat) (ls : List String) :
    emitItem ⟨T, ms, none, 0⟩ item ws ≠ .error (.undeclaredLabels ls) := by
  cases item with
  | label l => simp [emitItem]
  | raw bs => simp [emitItem]
  | op code imm =>
    cases imm with
    | none => simp [emitItem, concretizeOp, Conc.toExcept]
    | some e =>
      simp only [emitItem]
      simp only [mentioned, itemExpr?] at hm
      cases hl : labelsOf ms evalFuel 0 e with
      | error err => rw [hl] at hm; cases err <;> simp at hm
      | ok L =>
        rw [hl] at hm
        simp only [Except.map, Except.ok.injEq, List.append_nil] at hm
        subst hm
        exact concretizeOp_noUL ms T code e L hl hdef ls
  | push e =>
    simp only [emitItem]
    simp only [mentioned, itemExpr?] at hm
    cases hl : labelsOf ms evalFuel 0 e with
    | error err => rw [hl] at hm; cases err <;> simp at hm
    | ok L =>
      rw [hl] at hm
      simp only [Except.map, Except.ok.injEq, List.append_nil] at hm
      subst hm
      exact concretizeOp_noUL ms T _ e L hl hdef ls

theorem mentioned_cons_ok {ms : List (String × MacroDef)} {i : Item} {rest : List Item} {used : List String}
    (h : mentioned ms (i :: rest) = .ok used) :
    ∃ a b, mentioned ms [i] = .ok a ∧ mentioned ms rest = .ok b ∧ used = a ++ b := by
  have := mentioned_append ms [i] rest
  rw [List.singleton_append, h] at this
  cases h1 : mentioned ms [i] with
  | error e => rw [h1] at this; simp at this
  | ok a =>
    rw [h1] at this
    simp only [] at this
    cases h2 : mentioned ms rest with
    | error e => rw [h2] at this; simp at this
    | ok b =>
      rw [h2] at this
      simp only [Except.ok.injEq] at this
      exact ⟨a, b, rfl, rfl, this⟩

theorem emit_noUL (ms : List (String × MacroDef)) (T : List (String × Option Nat)) (items : List Item) :
    ∀ (used : List String), mentioned ms items = .ok used → DefinedIn T used →
    ∀ (ws : List Nat) (ls : List String),
      emit ⟨T, ms, none, 0⟩ items ws ≠ .error (.undeclaredLabels ls) := by
  induction items with
  | nil => intro used _ _ ws ls; simp [emit]
  | cons i rest ih =>
    intro used hm hdef ws ls
    obtain ⟨a, b, ha, hb, hu⟩ := mentioned_cons_ok hm
    subst hu
    rw [emit_cons]
    have h1 := emitItem_noUL ms T i a ha hdef.left ws ls
    cases hx : emitItem ⟨T, ms, none, 0⟩ i ws with
    | error e => rw [hx] at h1; simpa using h1
    | ok bs =>
      simp only []
      have h2 := ih b hb hdef.right (ws.drop (pushCount [i])) ls
      cases hy : emit ⟨T, ms, none, 0⟩ rest (ws.drop (pushCount [i])) with
      | error e => rw [hy] at h2; simpa using h2
      | ok more => simp

/-! ### the label table the layout loop ends with -/

theorem layoutLoop_table (s : St) : ∀ fuel ws, ∃ ws',
    (layoutLoop s fuel ws).1 = (positionsPass s.ready ws' 0 s.labels).1 := by
  intro fuel
  induction fuel with
  | zero => intro ws; exact ⟨ws, rfl⟩
  | succ fuel ih =>
    intro ws
    rw [layoutLoop_succ]
    split
    · exact ⟨ws, rfl⟩
    · exact ih _

theorem TabRel.allSome_left {D : String → Prop} :
    ∀ {a b : List (String × Option Nat)}, TabRel D a b → ∀ p ∈ a, p.2.isSome = true
  | [], [], _ => fun p hp => by simp at hp
  | q :: _, _ :: _, ⟨_, h2, _, _, h5⟩ => fun p hp => by
    rcases List.mem_cons.1 hp with hp | hp
    · subst hp; exact h2
    · exact TabRel.allSome_left h5 p hp
  | [], _ :: _, hr => hr.elim
  | _ :: _, [], hr => hr.elim

theorem Sim.table_defined {ms depth s items} (hsim : Sim ms depth s items) (fuel : Nat) (ws : List Nat)
    (L : List String) (hL : ∀ l ∈ L, l ∈ itemLabels items) :
    DefinedIn (layoutLoop s fuel ws).1 L := by
  obtain ⟨ws', hT⟩ := layoutLoop_table s fuel ws
  rw [hT]
  have hnames := positionsPass_names s.ready ws' 0 s.labels
  have hrel := positionsPass_rel s.ready _ ws' 0 _ _ (TabRel.init s.labels hsim.allSome)
  have hall := TabRel.allSome_left hrel
  intro l hl
  rcases lookup_dich _ hall l with ⟨hn, _⟩ | ⟨_, p, hp⟩
  · rw [hnames, hsim.names] at hn
    exact absurd (hL l hl) hn
  · exact ⟨p, hp⟩

theorem finish_unfold (s : St) :
    finish s = if !s.undeclared.isEmpty then .error (.undeclaredLabels s.undeclared)
      else emit ⟨(layoutLoop s (32 * pushCount s.ready + 2) (List.replicate (pushCount s.ready) 1)).1, s.macros, none, 0⟩
        s.ready (layoutLoop s (32 * pushCount s.ready + 2) (List.replicate (pushCount s.ready) 1)).2 := rfl

/-- what `finish` reports as undeclared is the (non-empty) undeclared-label set -/
theorem Sim.finish_undeclared {ms depth s items} (hsim : Sim ms depth s items) (ls : List String)
    (h : finish s = .error (.undeclaredLabels ls)) : ls = s.undeclared ∧ ls ≠ [] := by
  rw [finish_unfold] at h
  split at h
  · next hu =>
    simp only [Except.error.injEq, AsmErr.undeclaredLabels.injEq] at h
    subst h
    refine ⟨rfl, ?_⟩
    intro hc
    rw [hc] at hu
    simp at hu
  · next hu =>
    exfalso
    have hemp : s.undeclared = [] := by
      cases hx : s.undeclared with
      | nil => rfl
      | cons a b => rw [hx] at hu; simp at hu
    obtain ⟨used, hm, hund⟩ := hsim.undecl
    have hall : ∀ l ∈ used, l ∈ itemLabels items := by
      intro l hl
      apply Classical.byContradiction
      intro hn
      have := (hund l).2 ⟨hl, hn⟩
      rw [hemp] at this
      simp at this
    have hdef := hsim.table_defined (32 * pushCount s.ready + 2) (List.replicate (pushCount s.ready) 1) used hall
    rw [hsim.macros] at h
    rw [← hsim.ready] at hm
    exact emit_noUL ms _ s.ready used hm hdef _ ls h

/-! ### where an `undeclaredLabels` error can come from -/

/-- the outcome is not an `undeclaredLabels` error -/
def NoUL {α : Type} (r : Except AsmErr α) : Prop := ∀ ls, r ≠ .error (.undeclaredLabels ls)

theorem NoUL.ok {α : Type} (a : α) : NoUL (.ok a : Except AsmErr α) := by intro ls; simp

theorem mentionedOf_noUL (ms : List (String × MacroDef)) (o : AOp) : NoUL (mentionedOf ms o) := by
  intro ls
  unfold mentionedOf
  cases o.expr? with
  | none => simp
  | some e =>
    simp only []
    cases labelsOf ms evalFuel 0 e with
    | ok L => simp
    | error err => cases err <;> simp

theorem pushInstr_noUL (s : St) (o : AOp) (item : Item) (size : Option Nat) (conc : St → Conc) :
    NoUL (pushInstr s o item size conc) := by
  intro ls
  rw [pushInstr_eq]
  cases hm : mentionedOf s.macros o with
  | error e =>
    simp only []
    have := mentionedOf_noUL s.macros o ls
    rw [hm] at this
    simpa using this
  | ok L =>
    simp only []
    cases conc { s with undeclared := (L.filter (fun l => !isDefined s l)).foldl insertSet s.undeclared } with
    | ok bytes => simp
    | tooLarge => simp only []; split <;> simp
    | negative => simp only []; split <;> simp
    | ctx err =>
      cases err with
      | divisionByZero => simp only []; split <;> simp
      | unknownLabel l => simp
      | unknownMacro n => simp [mapErr]
      | undefinedVariable n => simp [mapErr]
      | recursionLimit n => simp [mapErr]

theorem declareMacros_err : ∀ (l : List RawOp) (ms : List (String × MacroDef)) (e : AsmErr),
    declareMacros l ms = .error e → ∃ n, e = .duplicateMacro n := by
  intro l
  induction l with
  | nil => intro ms e h; simp [declareMacros] at h
  | cons x rest ih =>
    intro ms e h
    cases x with
    | op o =>
      cases o with
      | instrDef n ps body =>
        simp only [declareMacros] at h
        split at h
        · exact ⟨n, by injection h with h; exact h.symm⟩
        · exact ih _ e h
      | exprDef n ps body =>
        simp only [declareMacros] at h
        split at h
        · exact ⟨n, by injection h with h; exact h.symm⟩
        · exact ih _ e h
      | op code imm => simp only [declareMacros] at h; exact ih _ e h
      | label l => simp only [declareMacros] at h; exact ih _ e h
      | push ex => simp only [declareMacros] at h; exact ih _ e h
      | «macro» n args => simp only [declareMacros] at h; exact ih _ e h
    | scope ops => simp only [declareMacros] at h; exact ih _ e h
    | raw bs => simp only [declareMacros] at h; exact ih _ e h

theorem renameLocals_err (rnd : Nat → Nat) (name : String) : ∀ (body : List AOp) (k : Nat)
    (m : List (String × String)) (e : AsmErr),
    renameLocals rnd name body k m = .error e → ∃ l, e = .duplicateLabel l := by
  intro body
  induction body with
  | nil => intro k m e h; simp [renameLocals] at h
  | cons o rest ih =>
    intro k m e h
    have other : (match renameLocals rnd name rest k m with
        | .error e => Except.error e
        | .ok (os, k', m') => (.ok (o :: os, k', m') : Except AsmErr (List AOp × Nat × List (String × String))))
          = Except.error e → ∃ l, e = .duplicateLabel l := by
      intro h
      cases hr : renameLocals rnd name rest k m with
      | error e2 =>
        rw [hr] at h
        simp only [Except.error.injEq] at h
        subst h
        exact ih _ _ _ hr
      | ok r => rw [hr] at h; simp at h
    cases o with
    | label l =>
      simp only [renameLocals] at h
      split at h
      · exact ⟨l, by injection h with h; exact h.symm⟩
      · cases hr : renameLocals rnd name rest (k + 1) (m ++ [(l, mangle rnd k name l)]) with
        | error e2 =>
          rw [hr] at h
          simp only [Except.error.injEq] at h
          subst h
          exact ih _ _ _ hr
        | ok r => rw [hr] at h; simp at h
    | op code imm => simp only [renameLocals] at h; exact other h
    | push ex => simp only [renameLocals] at h; exact other h
    | instrDef n ps b => simp only [renameLocals] at h; exact other h
    | exprDef n ps b => simp only [renameLocals] at h; exact other h
    | «macro» n args => simp only [renameLocals] at h; exact other h

theorem instantiate_noUL (rnd : Nat → Nat) (name : String) (params : List String) (body : List AOp)
    (args : List Expr) (fresh : Nat) : NoUL (instantiate rnd name params body args fresh) := by
  intro ls
  unfold instantiate
  split
  · simp
  · cases hr : renameLocals rnd name body fresh [] with
    | error e =>
      obtain ⟨l, hl⟩ := renameLocals_err rnd name body fresh [] e hr
      subst hl
      simp
    | ok r => obtain ⟨a, b, c⟩ := r; simp

/-- instructions (everything but nested scopes) never fail with `undeclaredLabels` -/
theorem ops_noUL (rnd : Nat → Nat) : ∀ f,
    (∀ s o, NoUL (push rnd f s (.op o))) ∧
    (∀ s name args, NoUL (expandMacro rnd f s name args)) ∧
    (∀ s body, NoUL (feed rnd f s body)) := by
  intro f
  induction f with
  | zero =>
    refine ⟨?_, ?_, ?_⟩
    · intro s o ls; simp [push]
    · intro s name args ls; simp [expandMacro]
    · intro s body ls; simp [feed]
  | succ f ih =>
    obtain ⟨ihP, ihM, ihF⟩ := ih
    refine ⟨?_, ?_, ?_⟩
    · intro s o
      cases o with
      | label l =>
        intro ls
        simp only [push]
        split <;> simp
      | instrDef n ps body => intro ls; simp [push]
      | exprDef n ps body => intro ls; simp [push]
      | «macro» name args => simp only [push]; exact ihM s name args
      | op code imm => simp only [push]; exact pushInstr_noUL _ _ _ _ _
      | push ex => simp only [push]; exact pushInstr_noUL _ _ _ _ _
    · intro s name args ls
      simp only [expandMacro]
      cases lookupMacro s.macros name with
      | none => simp
      | some md =>
        cases md with
        | expr ps body => simp
        | instr params body =>
          simp only []
          split
          · simp
          · split
            · simp
            · cases hinst : instantiate rnd name params body args s.fresh with
              | error e =>
                simp only []
                have := instantiate_noUL rnd name params body args s.fresh ls
                rw [hinst] at this
                simpa using this
              | ok r =>
                obtain ⟨body2, k⟩ := r
                simp only []
                cases hfeed : feed rnd f { s with depth := s.depth + 1, fresh := k } body2 with
                | error e =>
                  simp only []
                  have := ihF { s with depth := s.depth + 1, fresh := k } body2 ls
                  rw [hfeed] at this
                  exact this
                | ok s' => simp
    · intro s body ls
      cases body with
      | nil => simp [feed]
      | cons o os =>
        simp only [feed]
        cases hpush : push rnd f s (.op o) with
        | error e =>
          simp only []
          have := ihP s o ls
          rw [hpush] at this
          exact this
        | ok s' => exact ihF s' os ls

/-- the statement of `undeclaredLabels_exact` about the scope `ops` -/
def Provenance (rnd : Nat → Nat) (ops : RawOps) (ls : List String) : Prop :=
  ∃ (sub : RawOps) (f k0 k1 : Nat) (ms : List (String × MacroDef)) (items : List Item) (used : List String),
    SubScope sub ops ∧
    declareMacros sub.toList [] = .ok ms ∧
    Spec.flattenAll rnd f ms k0 sub = .ok (items, k1) ∧
    Spec.mentioned ms items = .ok used ∧
    ls ≠ [] ∧ ∀ l, l ∈ ls ↔ (l ∈ used ∧ l ∉ Spec.itemLabels items)

theorem Provenance.nested {rnd : Nat → Nat} {inner ops : RawOps} {ls : List String}
    (hmem : RawOp.scope inner ∈ ops.toList) (h : Provenance rnd inner ls) : Provenance rnd ops ls := by
  obtain ⟨sub, f, k0, k1, ms, items, used, hsub, rest⟩ := h
  exact ⟨sub, f, k0, k1, ms, items, used, SubScope.nested sub inner ops hmem hsub, rest⟩

/-- an `undeclaredLabels` error originates in `finish` of the scope or of a nested scope -/
theorem provenance_steps (rnd : Nat → Nat) : ∀ f,
    (∀ k ops ls, assemble rnd f { fresh := k } ops = .error (.undeclaredLabels ls) → Provenance rnd ops ls) ∧
    (∀ s rop ls, push rnd f s rop = .error (.undeclaredLabels ls) →
      ∃ inner, rop = .scope inner ∧ Provenance rnd inner ls) ∧
    (∀ s ops ls, feedAll rnd f s ops = .error (.undeclaredLabels ls) →
      ∃ inner, RawOp.scope inner ∈ ops.toList ∧ Provenance rnd inner ls) := by
  intro f
  induction f with
  | zero =>
    refine ⟨?_, ?_, ?_⟩
    · intro k ops ls h; simp [assemble] at h
    · intro s rop ls h; simp [push] at h
    · intro s ops ls h; simp [feedAll] at h
  | succ f ih =>
    obtain ⟨ihA, ihP, ihF⟩ := ih
    refine ⟨?_, ?_, ?_⟩
    · intro k ops ls h
      simp only [assemble] at h
      cases hdm : declareMacros ops.toList [] with
      | error e =>
        rw [hdm] at h
        obtain ⟨n, hn⟩ := declareMacros_err _ _ _ hdm
        subst hn
        simp at h
      | ok ms =>
        rw [hdm] at h
        simp only [] at h
        cases hfa : feedAll rnd f { macros := ms, fresh := k } ops with
        | error e =>
          rw [hfa] at h
          simp only [Except.error.injEq] at h
          subst h
          obtain ⟨inner, hmem, hp⟩ := ihF _ _ _ hfa
          exact hp.nested hmem
        | ok s =>
          rw [hfa] at h
          simp only [] at h
          have hfin : finish s = .error (.undeclaredLabels ls) := by
            cases hx : finish s with
            | error e => rw [hx] at h; simpa [Except.map] using h
            | ok b => rw [hx] at h; simp [Except.map] at h
          obtain ⟨items, hfl, hsim⟩ :=
            ((all_steps rnd f).2.2.2.1 ms { macros := ms, fresh := k } [] ops (sim_init ms k)).1 s hfa
          simp only [List.nil_append] at hsim
          obtain ⟨hls, hne⟩ := hsim.finish_undeclared ls hfin
          obtain ⟨used, hm, hund⟩ := hsim.undecl
          refine ⟨ops, f, k, s.fresh, ms, items, used, SubScope.refl ops, hdm, hfl, hm, hne, ?_⟩
          rw [hls]
          exact hund
    · intro s rop ls h
      cases rop with
      | op o => exact absurd h ((ops_noUL rnd (f + 1)).1 s o ls)
      | raw bs => simp [push] at h
      | scope inner =>
        refine ⟨inner, rfl, ?_⟩
        simp only [push] at h
        cases hasm : assemble rnd f { fresh := s.fresh } inner with
        | error e =>
          rw [hasm] at h
          simp only [Except.error.injEq] at h
          subst h
          exact ihA _ _ _ hasm
        | ok r => obtain ⟨b, k⟩ := r; rw [hasm] at h; simp at h
    · intro s ops ls h
      cases ops with
      | nil => simp [feedAll] at h
      | cons o rest =>
        simp only [feedAll] at h
        cases hpush : push rnd f s o with
        | error e =>
          rw [hpush] at h
          simp only [Except.error.injEq] at h
          subst h
          obtain ⟨inner, hi, hp⟩ := ihP _ _ _ hpush
          subst hi
          exact ⟨inner, by simp [RawOps.toList], hp⟩
        | ok s' =>
          rw [hpush] at h
          simp only [] at h
          obtain ⟨inner, hmem, hp⟩ := ihF _ _ _ h
          exact ⟨inner, by simp only [RawOps.toList]; exact List.mem_cons_of_mem _ hmem, hp⟩

theorem undeclaredLabels_exact (rnd : Nat → Nat) (fuel k : Nat) (ops : RawOps) (ls : List String)
    (h : assemble rnd fuel { fresh := k } ops = .error (.undeclaredLabels ls)) :
    ∃ (sub : RawOps) (f k0 k1 : Nat) (ms : List (String × MacroDef)) (items : List Item) (used : List String),
      SubScope sub ops ∧
      declareMacros sub.toList [] = .ok ms ∧
      Spec.flattenAll rnd f ms k0 sub = .ok (items, k1) ∧
      Spec.mentioned ms items = .ok used ∧
      ls ≠ [] ∧ ∀ l, l ∈ ls ↔ (l ∈ used ∧ l ∉ Spec.itemLabels items) :=
  (provenance_steps rnd fuel).1 k ops ls h

/-! ### provenance of `undeclaredInstructionMacro` and `duplicateMacro` -/

/-- errors other than the two macro-table errors -/
def Plain (e : AsmErr) : Prop := (∀ n, e ≠ .undeclaredInstructionMacro n) ∧ (∀ n, e ≠ .duplicateMacro n)

def PlainR {α : Type} (r : Except AsmErr α) : Prop := ∀ e, r = .error e → Plain e

theorem plainR_ok {α : Type} (a : α) : PlainR (.ok a : Except AsmErr α) := by intro e h; cases h

theorem plainR_error {α : Type} (x : AsmErr) : PlainR (.error x : Except AsmErr α) ↔ Plain x := by
  constructor
  · intro h; exact h x rfl
  · intro h e he; injection he with he; subst he; exact h

theorem PlainR.retype {α β : Type} {e : AsmErr} (h : PlainR (.error e : Except AsmErr α)) :
    PlainR (.error e : Except AsmErr β) := (plainR_error e).2 ((plainR_error e).1 h)

theorem mapErr_plain (err : EvErr) : Plain (mapErr err) := by
  cases err <;> simp [mapErr, Plain]

theorem mentionedOf_plain (ms : List (String × MacroDef)) (o : AOp) : PlainR (mentionedOf ms o) := by
  unfold mentionedOf
  cases o.expr? with
  | none => exact plainR_ok _
  | some e =>
    simp only []
    cases labelsOf ms evalFuel 0 e with
    | ok L => exact plainR_ok _
    | error err => cases err <;> simp [plainR_error, Plain]

theorem pushInstr_plain (s : St) (o : AOp) (item : Item) (size : Option Nat) (conc : St → Conc) :
    PlainR (pushInstr s o item size conc) := by
  rw [pushInstr_eq]
  cases hm : mentionedOf s.macros o with
  | error e =>
    simp only []
    have := mentionedOf_plain s.macros o
    rw [hm] at this
    exact this.retype
  | ok L =>
    simp only []
    cases conc { s with undeclared := (L.filter (fun l => !isDefined s l)).foldl insertSet s.undeclared } with
    | ok bytes => exact plainR_ok _
    | tooLarge => simp only []; split <;> simp [plainR_ok, plainR_error, Plain]
    | negative => simp only []; split <;> simp [plainR_ok, plainR_error, Plain]
    | ctx err =>
      cases err with
      | divisionByZero => simp only []; split <;> simp [plainR_ok, plainR_error, Plain]
      | unknownLabel l => exact plainR_ok _
      | unknownMacro n => simp [plainR_error, mapErr, Plain]
      | undefinedVariable n => simp [plainR_error, mapErr, Plain]
      | recursionLimit n => simp [plainR_error, mapErr, Plain]

theorem instantiate_plain (rnd : Nat → Nat) (name : String) (params : List String) (body : List AOp)
    (args : List Expr) (fresh : Nat) : PlainR (instantiate rnd name params body args fresh) := by
  unfold instantiate
  split
  · simp [plainR_error, Plain]
  · cases hr : renameLocals rnd name body fresh [] with
    | error e =>
      obtain ⟨l, hl⟩ := renameLocals_err rnd name body fresh [] e hr
      subst hl
      simp [plainR_error, Plain]
    | ok r => obtain ⟨a, b, c⟩ := r; exact plainR_ok _

theorem toExcept_plain (k : Conc) : PlainR k.toExcept := by
  cases k with
  | ok bs => exact plainR_ok _
  | tooLarge => simp [Conc.toExcept, plainR_error, Plain]
  | negative => simp [Conc.toExcept, plainR_error, Plain]
  | ctx err => simp only [Conc.toExcept, plainR_error]; exact mapErr_plain err

theorem emitItem_plain (c : Ctx) (item : Item) (ws : List Nat) : PlainR (emitItem c item ws) := by
  cases item with
  | label l => exact plainR_ok _
  | raw bs => exact plainR_ok _
  | op code imm => exact toExcept_plain _
  | push ex => exact toExcept_plain _

theorem emit_plain (c : Ctx) (items : List Item) : ∀ ws, PlainR (emit c items ws) := by
  induction items with
  | nil => intro ws; exact plainR_ok _
  | cons x rest ih =>
    intro ws
    rw [emit_cons]
    have h1 := emitItem_plain c x ws
    cases hx : emitItem c x ws with
    | error e => rw [hx] at h1; exact h1.retype
    | ok bs =>
      simp only []
      have h2 := ih (ws.drop (pushCount [x]))
      cases hy : emit c rest (ws.drop (pushCount [x])) with
      | error e => rw [hy] at h2; exact h2.retype
      | ok more => exact plainR_ok _

theorem finish_plain (s : St) : PlainR (finish s) := by
  rw [finish_unfold]
  split
  · simp [plainR_error, Plain]
  · exact emit_plain _ _ _

/-- no instruction macro of this name in the table -/
def NotInstr (ms : List (String × MacroDef)) (n : String) : Prop :=
  ∀ ps body, lookupMacro ms n ≠ some (.instr ps body)

/-- within one scope, `undeclaredInstructionMacro n` means the scope's macro table has no such macro -/
theorem ops_undeclaredMacro (rnd : Nat → Nat) (n : String) : ∀ f,
    (∀ s o, push rnd f s (.op o) = .error (.undeclaredInstructionMacro n) → NotInstr s.macros n) ∧
    (∀ s name args, expandMacro rnd f s name args = .error (.undeclaredInstructionMacro n) → NotInstr s.macros n) ∧
    (∀ s body, feed rnd f s body = .error (.undeclaredInstructionMacro n) → NotInstr s.macros n) := by
  intro f
  induction f with
  | zero =>
    refine ⟨?_, ?_, ?_⟩
    · intro s o h; simp [push] at h
    · intro s name args h; simp [expandMacro] at h
    · intro s body h; simp [feed] at h
  | succ f ih =>
    obtain ⟨ihP, ihM, ihF⟩ := ih
    refine ⟨?_, ?_, ?_⟩
    · intro s o h
      cases o with
      | label l =>
        simp only [push] at h
        split at h <;> simp at h
      | instrDef n ps body => simp [push] at h
      | exprDef n ps body => simp [push] at h
      | «macro» name args => simp only [push] at h; exact ihM s name args h
      | op code imm => simp only [push] at h; exact absurd rfl ((pushInstr_plain _ _ _ _ _ _ h).1 n)
      | push ex => simp only [push] at h; exact absurd rfl ((pushInstr_plain _ _ _ _ _ _ h).1 n)
    · intro s name args h
      simp only [expandMacro] at h
      cases hlk : lookupMacro s.macros name with
      | none =>
        rw [hlk] at h
        simp only [Except.error.injEq, AsmErr.undeclaredInstructionMacro.injEq] at h
        subst h
        intro ps body hc
        rw [hlk] at hc
        cases hc
      | some md =>
        cases md with
        | expr ps body =>
          rw [hlk] at h
          simp only [Except.error.injEq, AsmErr.undeclaredInstructionMacro.injEq] at h
          subst h
          intro ps' body' hc
          rw [hlk] at hc
          cases hc
        | instr params body =>
          rw [hlk] at h
          simp only [] at h
          split at h
          · simp at h
          · split at h
            · simp at h
            · cases hinst : instantiate rnd name params body args s.fresh with
              | error e =>
                rw [hinst] at h
                simp only [Except.error.injEq] at h
                subst h
                exact absurd rfl ((instantiate_plain _ _ _ _ _ _ _ hinst).1 n)
              | ok r =>
                obtain ⟨body2, k⟩ := r
                rw [hinst] at h
                simp only [] at h
                cases hfeed : feed rnd f { s with depth := s.depth + 1, fresh := k } body2 with
                | error e =>
                  rw [hfeed] at h
                  simp only [Except.error.injEq] at h
                  subst h
                  exact ihF { s with depth := s.depth + 1, fresh := k } body2 hfeed
                | ok s' => rw [hfeed] at h; simp at h
    · intro s body h
      cases body with
      | nil => simp [feed] at h
      | cons o os =>
        simp only [feed] at h
        cases hpush : push rnd f s (.op o) with
        | error e =>
          rw [hpush] at h
          simp only [Except.error.injEq] at h
          subst h
          exact ihP s o hpush
        | ok s' =>
          rw [hpush] at h
          simp only [] at h
          have := ihF s' os h
          rw [((pres rnd f).1 _ _ _ hpush).1] at this
          exact this

/-- what `undeclaredInstructionMacro_provenance` says about the scope `ops` -/
def MacroProvenance (ops : RawOps) (n : String) : Prop :=
  ∃ (sub : RawOps) (ms : List (String × MacroDef)),
    SubScope sub ops ∧ declareMacros sub.toList [] = .ok ms ∧ ∀ ps body, lookupMacro ms n ≠ some (.instr ps body)

theorem MacroProvenance.nested {inner ops : RawOps} {n : String}
    (hmem : RawOp.scope inner ∈ ops.toList) (h : MacroProvenance inner n) : MacroProvenance ops n := by
  obtain ⟨sub, ms, hsub, rest⟩ := h
  exact ⟨sub, ms, SubScope.nested sub inner ops hmem hsub, rest⟩

theorem macroProvenance_steps (rnd : Nat → Nat) (n : String) : ∀ f,
    (∀ k ops, assemble rnd f { fresh := k } ops = .error (.undeclaredInstructionMacro n) → MacroProvenance ops n) ∧
    (∀ s rop, push rnd f s rop = .error (.undeclaredInstructionMacro n) →
      NotInstr s.macros n ∨ ∃ inner, rop = .scope inner ∧ MacroProvenance inner n) ∧
    (∀ s ops, feedAll rnd f s ops = .error (.undeclaredInstructionMacro n) →
      NotInstr s.macros n ∨ ∃ inner, RawOp.scope inner ∈ ops.toList ∧ MacroProvenance inner n) := by
  intro f
  induction f with
  | zero =>
    refine ⟨?_, ?_, ?_⟩
    · intro k ops h; simp [assemble] at h
    · intro s rop h; simp [push] at h
    · intro s ops h; simp [feedAll] at h
  | succ f ih =>
    obtain ⟨ihA, ihP, ihF⟩ := ih
    refine ⟨?_, ?_, ?_⟩
    · intro k ops h
      simp only [assemble] at h
      cases hdm : declareMacros ops.toList [] with
      | error e =>
        rw [hdm] at h
        obtain ⟨m, hm⟩ := declareMacros_err _ _ _ hdm
        subst hm
        simp at h
      | ok ms =>
        rw [hdm] at h
        simp only [] at h
        cases hfa : feedAll rnd f { macros := ms, fresh := k } ops with
        | error e =>
          rw [hfa] at h
          simp only [Except.error.injEq] at h
          subst h
          rcases ihF _ _ hfa with hni | ⟨inner, hmem, hp⟩
          · exact ⟨ops, ms, SubScope.refl ops, hdm, hni⟩
          · exact hp.nested hmem
        | ok s =>
          rw [hfa] at h
          simp only [] at h
          exfalso
          cases hx : finish s with
          | error e =>
            rw [hx] at h
            simp only [Except.map, Except.error.injEq] at h
            subst h
            exact (finish_plain s _ hx).1 n rfl
          | ok b => rw [hx] at h; simp [Except.map] at h
    · intro s rop h
      cases rop with
      | op o => exact Or.inl ((ops_undeclaredMacro rnd n (f + 1)).1 s o h)
      | raw bs => simp [push] at h
      | scope inner =>
        right
        refine ⟨inner, rfl, ?_⟩
        simp only [push] at h
        cases hasm : assemble rnd f { fresh := s.fresh } inner with
        | error e =>
          rw [hasm] at h
          simp only [Except.error.injEq] at h
          subst h
          exact ihA _ _ hasm
        | ok r => obtain ⟨b, k⟩ := r; rw [hasm] at h; simp at h
    · intro s ops h
      cases ops with
      | nil => simp [feedAll] at h
      | cons o rest =>
        simp only [feedAll] at h
        cases hpush : push rnd f s o with
        | error e =>
          rw [hpush] at h
          simp only [Except.error.injEq] at h
          subst h
          rcases ihP _ _ hpush with hni | ⟨inner, hi, hp⟩
          · exact Or.inl hni
          · subst hi
            exact Or.inr ⟨inner, by simp [RawOps.toList], hp⟩
        | ok s' =>
          rw [hpush] at h
          simp only [] at h
          rcases ihF _ _ h with hni | ⟨inner, hmem, hp⟩
          · left
            rw [((pres rnd f).1 _ _ _ hpush).1] at hni
            exact hni
          · exact Or.inr ⟨inner, by simp only [RawOps.toList]; exact List.mem_cons_of_mem _ hmem, hp⟩

/-- When the assembler model fails with `UndeclaredInstructionMacro n`, the program itself or
one of its nested scopes declares no instruction macro named `n` (a scope sees only its own macros). -/
theorem undeclaredInstructionMacro_provenance (rnd : Nat → Nat) (fuel k : Nat) (ops : RawOps) (n : String)
    (h : assemble rnd fuel { fresh := k } ops = .error (.undeclaredInstructionMacro n)) :
    ∃ (sub : RawOps) (ms : List (String × MacroDef)),
      SubScope sub ops ∧ declareMacros sub.toList [] = .ok ms ∧
      ∀ ps body, lookupMacro ms n ≠ some (.instr ps body) :=
  (macroProvenance_steps rnd n fuel).1 k ops h

/-- instructions (everything but nested scopes) never fail with `duplicateMacro` -/
theorem ops_plainDup (rnd : Nat → Nat) (n : String) : ∀ f,
    (∀ s o, push rnd f s (.op o) ≠ .error (.duplicateMacro n)) ∧
    (∀ s name args, expandMacro rnd f s name args ≠ .error (.duplicateMacro n)) ∧
    (∀ s body, feed rnd f s body ≠ .error (.duplicateMacro n)) := by
  intro f
  induction f with
  | zero =>
    refine ⟨?_, ?_, ?_⟩
    · intro s o; simp [push]
    · intro s name args; simp [expandMacro]
    · intro s body; simp [feed]
  | succ f ih =>
    obtain ⟨ihP, ihM, ihF⟩ := ih
    refine ⟨?_, ?_, ?_⟩
    · intro s o
      cases o with
      | label l =>
        simp only [push]
        split <;> simp
      | instrDef n ps body => simp [push]
      | exprDef n ps body => simp [push]
      | «macro» name args => simp only [push]; exact ihM s name args
      | op code imm => simp only [push]; intro h; exact (pushInstr_plain _ _ _ _ _ _ h).2 n rfl
      | push ex => simp only [push]; intro h; exact (pushInstr_plain _ _ _ _ _ _ h).2 n rfl
    · intro s name args
      simp only [expandMacro]
      cases lookupMacro s.macros name with
      | none => simp
      | some md =>
        cases md with
        | expr ps body => simp
        | instr params body =>
          simp only []
          split
          · simp
          · split
            · simp
            · cases hinst : instantiate rnd name params body args s.fresh with
              | error e =>
                simp only []
                intro h
                injection h with h
                subst h
                exact (instantiate_plain _ _ _ _ _ _ _ hinst).2 n rfl
              | ok r =>
                obtain ⟨body2, k⟩ := r
                simp only []
                cases hfeed : feed rnd f { s with depth := s.depth + 1, fresh := k } body2 with
                | error e =>
                  simp only []
                  intro h
                  injection h with h
                  subst h
                  exact ihF _ _ hfeed
                | ok s' => simp
    · intro s body
      cases body with
      | nil => simp [feed]
      | cons o os =>
        simp only [feed]
        cases hpush : push rnd f s (.op o) with
        | error e =>
          simp only []
          intro h
          injection h with h
          subst h
          exact ihP _ _ hpush
        | ok s' => exact ihF s' os

/-- what `duplicateMacro_provenance` says about the scope `ops` -/
def DupProvenance (ops : RawOps) (n : String) : Prop :=
  ∃ sub : RawOps, SubScope sub ops ∧ declareMacros sub.toList [] = .error (.duplicateMacro n)

theorem DupProvenance.nested {inner ops : RawOps} {n : String}
    (hmem : RawOp.scope inner ∈ ops.toList) (h : DupProvenance inner n) : DupProvenance ops n := by
  obtain ⟨sub, hsub, rest⟩ := h
  exact ⟨sub, SubScope.nested sub inner ops hmem hsub, rest⟩

theorem dupProvenance_steps (rnd : Nat → Nat) (n : String) : ∀ f,
    (∀ k ops, assemble rnd f { fresh := k } ops = .error (.duplicateMacro n) → DupProvenance ops n) ∧
    (∀ s rop, push rnd f s rop = .error (.duplicateMacro n) →
      ∃ inner, rop = .scope inner ∧ DupProvenance inner n) ∧
    (∀ s ops, feedAll rnd f s ops = .error (.duplicateMacro n) →
      ∃ inner, RawOp.scope inner ∈ ops.toList ∧ DupProvenance inner n) := by
  intro f
  induction f with
  | zero =>
    refine ⟨?_, ?_, ?_⟩
    · intro k ops h; simp [assemble] at h
    · intro s rop h; simp [push] at h
    · intro s ops h; simp [feedAll] at h
  | succ f ih =>
    obtain ⟨ihA, ihP, ihF⟩ := ih
    refine ⟨?_, ?_, ?_⟩
    · intro k ops h
      simp only [assemble] at h
      cases hdm : declareMacros ops.toList [] with
      | error e =>
        rw [hdm] at h
        simp only [Except.error.injEq] at h
        subst h
        exact ⟨ops, SubScope.refl ops, hdm⟩
      | ok ms =>
        rw [hdm] at h
        simp only [] at h
        cases hfa : feedAll rnd f { macros := ms, fresh := k } ops with
        | error e =>
          rw [hfa] at h
          simp only [Except.error.injEq] at h
          subst h
          obtain ⟨inner, hmem, hp⟩ := ihF _ _ hfa
          exact hp.nested hmem
        | ok s =>
          rw [hfa] at h
          simp only [] at h
          exfalso
          cases hx : finish s with
          | error e =>
            rw [hx] at h
            simp only [Except.map, Except.error.injEq] at h
            subst h
            exact (finish_plain s _ hx).2 n rfl
          | ok b => rw [hx] at h; simp [Except.map] at h
    · intro s rop h
      cases rop with
      | op o => exact absurd h ((ops_plainDup rnd n (f + 1)).1 s o)
      | raw bs => simp [push] at h
      | scope inner =>
        refine ⟨inner, rfl, ?_⟩
        simp only [push] at h
        cases hasm : assemble rnd f { fresh := s.fresh } inner with
        | error e =>
          rw [hasm] at h
          simp only [Except.error.injEq] at h
          subst h
          exact ihA _ _ hasm
        | ok r => obtain ⟨b, k⟩ := r; rw [hasm] at h; simp at h
    · intro s ops h
      cases ops with
      | nil => simp [feedAll] at h
      | cons o rest =>
        simp only [feedAll] at h
        cases hpush : push rnd f s o with
        | error e =>
          rw [hpush] at h
          simp only [Except.error.injEq] at h
          subst h
          obtain ⟨inner, hi, hp⟩ := ihP _ _ hpush
          subst hi
          exact ⟨inner, by simp [RawOps.toList], hp⟩
        | ok s' =>
          rw [hpush] at h
          simp only [] at h
          obtain ⟨inner, hmem, hp⟩ := ihF _ _ h
          exact ⟨inner, by simp only [RawOps.toList]; exact List.mem_cons_of_mem _ hmem, hp⟩

/-- When the assembler model fails with `DuplicateMacro n`, the program itself or one of its
nested scopes declares two macros named `n` (its own `declare_macros` pass fails with that error). -/
theorem duplicateMacro_provenance (rnd : Nat → Nat) (fuel k : Nat) (ops : RawOps) (n : String)
    (h : assemble rnd fuel { fresh := k } ops = .error (.duplicateMacro n)) :
    ∃ sub : RawOps, SubScope sub ops ∧ declareMacros sub.toList [] = .error (.duplicateMacro n) :=
  (dupProvenance_steps rnd n fuel).1 k ops h

end Asm
end EtkVerif
