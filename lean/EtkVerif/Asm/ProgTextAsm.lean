/-
From TEXT to BYTES for macro-free programs: the text of a decorated program
(`ProgText.render`) goes through `Ingest::preprocess` (parser + walk, no file
access) to one raw op per statement, and the assembler accepts these exactly
when the item-level specification `Spec.assembleItems` accepts the statements'
items, with the same bytes.  This makes the item-level theorems of C01, C02,
C07 and C09 statements about source TEXT for this family.
-/
import EtkVerif.Asm.ProgTextPest
import EtkVerif.Asm.Ingest
import EtkVerif.Asm.Refine
import EtkVerif.Asm.ListingAsm
namespace EtkVerif
namespace Asm
namespace ProgText
open Layout

/-- the abstract op of a statement (what the node carries) -/
def Stmt.aop : Stmt → AOp
  | .ins i => .op i.op (if i.imm.isEmpty then none else some (.num (Int.ofNat (Listing.beNat i.imm))))
  | .pushE n _ s => .op (0x5f + n) (some s.expr)
  | .apush _ s _ => .push s.expr
  | .label name _ => .label (strOf name)

/-- the item the specification lays out and emits for a statement -/
def Stmt.item : Stmt → Asm.Item
  | .ins i => .op i.op (if i.imm.isEmpty then none else some (.num (Int.ofNat (Listing.beNat i.imm))))
  | .pushE n _ s => .op (0x5f + n) (some s.expr)
  | .apush _ s _ => .push s.expr
  | .label name _ => .label (strOf name)

theorem node_eq_aop (st : Stmt) : st.node = .op st.aop := by
  cases st <;> rfl

theorem nodesLoop_prog (fs : FS) (cwd : PathC) (prog : Program) (tr : List Event) :
    ∀ (items : List Item) (fuel : Nat), items.length + 1 ≤ fuel →
      nodesLoop fs cwd fuel prog (items.map (·.stmt.node)) tr
        = .ok (items.map (fun x => RawOp.op x.stmt.aop), tr) := by
  intro items
  induction items with
  | nil => intro fuel hf; cases fuel with
    | zero => omega
    | succ f => simp [nodesLoop]
  | cons i is ih =>
    intro fuel hf
    cases fuel with
    | zero => omega
    | succ f =>
      have h := ih f (by simp at hf; omega)
      simp only [node_eq_aop] at h
      simp only [List.map_cons, nodesLoop, node_eq_aop, h]
      rfl

/-- `Ingest::preprocess` on the text: no file is touched, one raw op per statement -/
theorem preprocess_prog (fs : FS) (cwd : PathC) (prog : Program) (tr : List Event)
    (head : List BlankLine) (items : List Item) (h : WF head items) (fuel : Nat) (hf : items.length + 2 ≤ fuel) :
    preprocess fs cwd fuel prog (render head items) tr = .ok (items.map (fun x => RawOp.op x.stmt.aop), tr) := by
  cases fuel with
  | zero => omega
  | succ f =>
    simp only [preprocess, parse_prog head items h]
    exact nodesLoop_prog fs cwd prog tr items f (by omega)

theorem declareMacros_prog (ms : List (String × MacroDef)) :
    ∀ (items : List Item),
      declareMacros (RawOps.ofList (items.map (fun x => RawOp.op x.stmt.aop))).toList ms = .ok ms := by
  intro items
  induction items with
  | nil => simp [RawOps.ofList, RawOps.toList, declareMacros]
  | cons i is ih =>
    simp only [List.map_cons, RawOps.ofList, RawOps.toList]
    cases hs : i.stmt <;> simp only [Stmt.aop, declareMacros] <;> exact ih

theorem flattenOp_stmt (rnd : Nat → Nat) (f : Nat) (ms : List (String × MacroDef)) (k : Nat) (st : Stmt) :
    Spec.flattenOp rnd (f + 1) ms 0 k (.op st.aop) = .ok ([st.item], k) := by
  cases st <;> simp only [Stmt.aop, Stmt.item, Spec.flattenOp]

theorem flattenAll_prog (rnd : Nat → Nat) (ms : List (String × MacroDef)) (k : Nat) :
    ∀ (items : List Item) (fuel : Nat), items.length + 2 ≤ fuel →
      Spec.flattenAll rnd fuel ms k (RawOps.ofList (items.map (fun x => RawOp.op x.stmt.aop)))
        = .ok (items.map (fun x => x.stmt.item), k) := by
  intro items
  induction items with
  | nil =>
    intro fuel hf
    cases fuel with
    | zero => omega
    | succ f => simp [RawOps.ofList, Spec.flattenAll]
  | cons i is ih =>
    intro fuel hf
    cases fuel with
    | zero => omega
    | succ f =>
      have h := ih f (by simp at hf; omega)
      obtain ⟨g, rfl⟩ : ∃ g, f = g + 1 := ⟨f - 1, by simp at hf; omega⟩
      simp only [List.map_cons, RawOps.ofList, Spec.flattenAll, flattenOp_stmt, h]
      rfl

/-- the assembler on those raw ops = the item-level specification on the statements' items -/
theorem assemble_prog (rnd : Nat → Nat) (fuel k : Nat) (items : List Item) (hf : items.length + 3 ≤ fuel)
    (bytes : List Nat) (k' : Nat) :
    assemble rnd fuel { fresh := k } (RawOps.ofList (items.map (fun x => RawOp.op x.stmt.aop))) = .ok (bytes, k') ↔
      (Spec.assembleItems [] (items.map (fun x => x.stmt.item)) = .ok bytes ∧ k' = k) := by
  rw [assemble_refines]
  cases fuel with
  | zero => omega
  | succ f =>
    simp only [Spec.assembleScope, declareMacros_prog, flattenAll_prog rnd [] k items f (by omega)]
    cases Spec.assembleItems [] (items.map (fun x => x.stmt.item)) with
    | error e => simp [Except.map]
    | ok b =>
      simp only [Except.map, Except.ok.injEq, Prod.mk.injEq]
      constructor
      · rintro ⟨rfl, rfl⟩; exact ⟨rfl, rfl⟩
      · rintro ⟨rfl, rfl⟩; exact ⟨rfl, rfl⟩

/-- the items of a well-formed program text carry an operand exactly on the pushN opcodes: the side condition of the
layout theorems (`C01_offsets`, `C01_jumpdest`) holds for every text of the family -/
theorem himm_prog (head : List BlankLine) (items : List Item) (h : WF head items) :
    ∀ code imm, Asm.Item.op code imm ∈ items.map (fun x => x.stmt.item) → (imm.isSome ↔ (0x60 ≤ code ∧ code ≤ 0x7f)) := by
  intro code imm hm
  obtain ⟨x, hx, hxe⟩ := List.mem_map.1 hm
  have hwf := (h.2.1 x hx).2.1
  cases hs : x.stmt with
  | ins i =>
    rw [hs] at hxe hwf
    simp only [Stmt.item, Asm.Item.op.injEq] at hxe
    obtain ⟨rfl, rfl⟩ := hxe
    obtain ⟨hlt, _, hlen, _⟩ := (show Listing.Valid i from hwf)
    have hex := Listing.cancun_extra i.op hlt
    rw [hex] at hlen
    unfold immLen at hlen
    by_cases hp : 0x60 ≤ i.op ∧ i.op ≤ 0x7f
    · simp only [hp, and_self, if_true] at hlen
      have : i.imm.isEmpty = false := by
        cases hi : i.imm with
        | nil => rw [hi] at hlen; simp at hlen; omega
        | cons a b => rfl
      simp [this, hp]
    · simp only [hp, if_false] at hlen
      have : i.imm = [] := List.eq_nil_of_length_eq_zero hlen
      simp [this, hp]
  | pushE n ws s =>
    rw [hs] at hxe hwf
    simp only [Stmt.item, Asm.Item.op.injEq] at hxe
    obtain ⟨rfl, rfl⟩ := hxe
    obtain ⟨h1, h32, _⟩ := (show 1 ≤ n ∧ n ≤ 32 ∧ _ from hwf)
    simp; omega
  | apush l s r => rw [hs] at hxe; simp [Stmt.item] at hxe
  | label name gap => rw [hs] at hxe; simp [Stmt.item] at hxe

end ProgText
end Asm
end EtkVerif
