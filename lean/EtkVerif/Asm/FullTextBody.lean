/-
Instruction-macro definitions, part 1: `instruction_macro_stmt` fails at `%end`, the loop
`(instruction_macro_stmt ~ NEWLINE+)*` over the lines of a macro body on the real pest
interpreter, `NEWLINE*` after the header, and `parseBody` over the statement pairs.
-/
import EtkVerif.Asm.FullTextBase
import EtkVerif.Asm.ProgTextLoop
namespace EtkVerif
namespace Asm
namespace FullText
open Pest Listing ExprText
open Layout (Suf Gap commentText STail LineEnd newline BlankLine)
open ProgText (PStart StartS gap_gapG skip_to_start nl_rep plus_ok)

variable {text : List Nat}

theorem mac_gr10 (text : List Nat) : (envOf text).g[10]? =
    some ⟨10, [105, 110, 115, 116, 114, 117, 99, 116, 105, 111, 110, 95, 109, 97, 99, 114, 111, 95, 100, 101, 102, 105, 110, 105, 116, 105, 111, 110], .normal, (.seq (.seq (.seq (.seq (.str [37, 109, 97, 99, 114, 111]) (.ref 30)) (.star (.ref 1003))) (.star (.seq (.ref 11) (.plus (.ref 1003))))) (.str [37, 101, 110, 100]))⟩ := rfl
theorem mac_gr11 (text : List Nat) : (envOf text).g[11]? =
    some ⟨11, [105, 110, 115, 116, 114, 117, 99, 116, 105, 111, 110, 95, 109, 97, 99, 114, 111, 95, 115, 116, 109, 116], .silent, (.alt (.alt (.alt (.alt (.ref 40) (.seq (.str [37]) (.ref 19))) (.ref 14)) (.ref 4)) (.ref 3))⟩ := rfl
theorem mac_gr13 (text : List Nat) : (envOf text).g[13]? =
    some ⟨13, [105, 110, 115, 116, 114, 117, 99, 116, 105, 111, 110, 95, 109, 97, 99, 114, 111], .nonatomic, (.seq (.str [37]) (.ref 31))⟩ := rfl
theorem mac_gr14 (text : List Nat) : (envOf text).g[14]? =
    some ⟨14, [108, 111, 99, 97, 108, 95, 109, 97, 99, 114, 111], .normal, (.seq (.neg (.ref 15)) (.alt (.alt (.ref 10) (.ref 13)) (.ref 25)))⟩ := rfl
theorem mac_gr25 (text : List Nat) : (envOf text).g[25]? =
    some ⟨25, [101, 120, 112, 114, 101, 115, 115, 105, 111, 110, 95, 109, 97, 99, 114, 111, 95, 100, 101, 102, 105, 110, 105, 116, 105, 111, 110], .nonatomic, (.seq (.seq (.seq (.seq (.seq (.str [37, 100, 101, 102]) (.ref 30)) (.ref 1003)) (.ref 41)) (.ref 1003)) (.str [37, 101, 110, 100]))⟩ := rfl

theorem mac_win :
    (resFail (matchK (ekOf [single 37] false) 30 (.ref 4) .nonAtomic false 0) &&
     resFail (matchK (ekOf [single 37] false) 100 (.ref 3) .nonAtomic false 0)) = true := by
  decide +kernel

theorem mac_ev_neg {env : Env} {d d1 : Nat} {a : PE} {at_ : Atom} {la : Bool} {p : Nat}
    (ha : Ev env d1 a at_ true p none) (h1 : d1 ≤ d := by omega) :
    Ev env (d + 1) (.neg a) at_ la p (some (p, [])) := by
  intro f hf
  obtain ⟨f, rfl⟩ : ∃ f', f = f' + 1 := ⟨f - 1, by omega⟩
  rw [matchE.eq_9, ha f (by omega)]

/-- `builtin` fails after `%` when none of its four words follows (inside or outside a look-ahead) -/
theorem mac_f15 {S : Nat} {w : List Nat} {la : Bool} (hs : Suf text S (37 :: w))
    (h1 : List.isPrefixOf [105, 109, 112, 111, 114, 116] w = false)
    (h2 : List.isPrefixOf [105, 110, 99, 108, 117, 100, 101] w = false)
    (h3 : List.isPrefixOf [105, 110, 99, 108, 117, 100, 101, 95, 104, 101, 120] w = false)
    (h4 : List.isPrefixOf [112, 117, 115, 104] w = false) :
    Ev (envOf text) 12 (.ref 15) .nonAtomic la S none := by
  have hs1 : Suf text (S + 1) w := hs.tail
  have h37 : Ev (envOf text) 1 (.str [37]) .compound la S (some (S + 1, [])) :=
    ev_str_ok (pat := [37]) (s := w) hs
  have f16 : Ev (envOf text) 4 (.ref 16) .compound la (S + 1) none :=
    evr (gr16 text) (by omega) (Ev.seq_fail1 (ev_str_fail hs1 h1) (d := 1))
  have f17 : Ev (envOf text) 4 (.ref 17) .compound la (S + 1) none :=
    evr (gr17 text) (by omega) (Ev.seq_fail1 (ev_str_fail hs1 h2) (d := 1))
  have f18 : Ev (envOf text) 4 (.ref 18) .compound la (S + 1) none :=
    evr (gr18 text) (by omega) (Ev.seq_fail1 (ev_str_fail hs1 h3) (d := 1))
  have f19 : Ev (envOf text) 4 (.ref 19) .compound la (S + 1) none :=
    evr (gr19 text) (by omega) (Ev.seq_fail1 (ev_str_fail hs1 h4) (d := 1))
  exact (evr (gr15 text) (by omega)
    (Ev.seq_fail2 h37 (sk_comp _) (Ev.alt_r (Ev.alt_r (Ev.alt_r f16 f17 (d := 4)) f18 (d := 5)) f19 (d := 6)) (d := 7))
    (d := 8) (at_ := .nonAtomic)).mono (by omega)

/-- `instruction_macro_stmt` fails at `%end` followed by a gap and a line end, `;`, `)` or the end of input -/
theorem mac_end_fail {Q : Nat} {G rest : List Nat} (hs : Suf text Q (37 :: 101 :: 110 :: 100 :: (G ++ rest)))
    (hG : GapG G rest) (hE : EndC rest) :
    Ev (envOf text) (text.length + 150) (.ref 11) .nonAtomic false Q none := by
  have hlen := hs.len
  simp only [List.length_cons, List.length_append] at hlen
  have hs1 : Suf text (Q + 1) (101 :: 110 :: 100 :: (G ++ rest)) := hs.tail
  have hw := top_win
  simp only [Bool.and_eq_true] at hw
  have hw2 := mac_win
  simp only [Bool.and_eq_true] at hw2
  have hA0 := hs.agree (s1 := [37]) (cs := [single 37]) (closed := false) ⟨single_mem 37, trivial⟩
    (fun h => by cases h)
  have f40 : Ev (envOf text) 30 (.ref 40) .nonAtomic false Q none := by
    simpa using Ev.of_window hA0 (resFail_eq hw.1.1)
  have f4 : Ev (envOf text) 30 (.ref 4) .nonAtomic false Q none := by
    simpa using Ev.of_window hA0 (resFail_eq hw2.1)
  have f3 : Ev (envOf text) 100 (.ref 3) .nonAtomic false Q none := by
    simpa using Ev.of_window hA0 (resFail_eq hw2.2)
  have h37 : Ev (envOf text) 1 (.str [37]) .nonAtomic false Q (some (Q + 1, [])) :=
    ev_str_ok (pat := [37]) (s := 101 :: 110 :: 100 :: (G ++ rest)) hs
  have skE : Sk (envOf text) 30 .nonAtomic (Q + 1) (Q + 1) := skip_none hs1 (by simp [NonBlank])
  have sk0 : Sk (envOf text) 30 .nonAtomic Q Q := skip_none hs (by simp [NonBlank])
  have f19 : Ev (envOf text) 4 (.ref 19) .nonAtomic false (Q + 1) none :=
    evr (gr19 text) (by omega) (Ev.seq_fail1 (ev_str_fail hs1 (by simp [List.isPrefixOf])) (d := 1))
  have fpm : Ev (envOf text) 31 (.seq (.str [37]) (.ref 19)) .nonAtomic false Q none :=
    Ev.seq_fail2 h37 skE f19 (d := 30)
  have f15 : Ev (envOf text) 12 (.ref 15) .nonAtomic true Q none :=
    mac_f15 hs (by simp [List.isPrefixOf]) (by simp [List.isPrefixOf]) (by simp [List.isPrefixOf])
      (by simp [List.isPrefixOf])
  have hneg : Ev (envOf text) 13 (.neg (.ref 15)) .nonAtomic false Q (some (Q, [])) := mac_ev_neg f15 (d := 12)
  have f10 : Ev (envOf text) 7 (.ref 10) .nonAtomic false Q none :=
    evr (mac_gr10 text) (by omega)
      (Ev.seq_fail1 (Ev.seq_fail1 (Ev.seq_fail1 (Ev.seq_fail1 (ev_str_fail hs (by simp [List.isPrefixOf])) (d := 1))
        (d := 2)) (d := 3)) (d := 4)) (d := 5)
  have f25 : Ev (envOf text) 8 (.ref 25) .nonAtomic false Q none :=
    evr (mac_gr25 text) (by omega)
      (Ev.seq_fail1 (Ev.seq_fail1 (Ev.seq_fail1 (Ev.seq_fail1 (Ev.seq_fail1
        (ev_str_fail hs (by simp [List.isPrefixOf])) (d := 1)) (d := 2)) (d := 3)) (d := 4)) (d := 5)) (d := 6)
  -- `%` function_invocation: the name `end`, then no `(`
  have haf : After (G ++ rest) := ⟨G, rest, rfl, hG, hE⟩
  have hs1' : Suf text (Q + 1) (101 :: ([110, 100] ++ (G ++ rest))) := hs1
  have h32 := ev32_ok hs1' (by decide) (by intro x hx; simp only [List.mem_cons, List.mem_nil_iff, or_false] at hx
                                           rcases hx with h | h <;> subst h <;> decide) (headIs_after haf).2
  have hs2 : Suf text (Q + 1 + 1 + [110, 100].length) (G ++ rest) := hs1'.tail.app
  have hsk := skip_gapG hG hs2
  have hs3 : Suf text (Q + 1 + 1 + [110, 100].length + G.length) rest := hs2.app
  have hstr : Ev (envOf text) 1 (.str [40]) .nonAtomic false (Q + 1 + 1 + [110, 100].length + G.length) none :=
    ev_str_fail hs3 (by
      cases rest with
      | nil => simp [List.isPrefixOf]
      | cons d t =>
        have hd40 : d ≠ 40 := by
          rcases hE d t rfl with h | h | h | h
          · rcases h with h | h | h | h | h <;> subst h <;> decide
          · subst h; decide
          · subst h; decide
          · subst h; decide
        have : (40 : Nat) ≠ d := fun h => hd40 h.symm
        simp [List.isPrefixOf, this])
  have e2 : ([110, 100] : List Nat).length = 2 := rfl
  have h1 := Ev.seq_fail2 h32 hsk hstr (d := G.length + 100)
  have h31 : Ev (envOf text) (G.length + 106) (.ref 31) .nonAtomic false (Q + 1) none :=
    evr (gr31 text) (by omega)
      (Ev.seq_fail1 (Ev.seq_fail1 h1 (d := G.length + 101)
      (b := .opt (.seq (.ref 41) (.star (.seq (.str [44]) (.ref 41))))))
        (d := G.length + 103) (b := .str [41])) (d := G.length + 104) (at_ := .nonAtomic)
  have f13 : Ev (envOf text) (G.length + 109) (.ref 13) .nonAtomic false Q none :=
    evr (mac_gr13 text) (by omega) (Ev.seq_fail2 h37 skE h31 (d := G.length + 106)) (d := G.length + 107)
  have f14 : Ev (envOf text) (G.length + 114) (.ref 14) .nonAtomic false Q none :=
    evr (mac_gr14 text) (by omega)
      (Ev.seq_fail2 hneg sk0 (Ev.alt_r (Ev.alt_r f10 f13 (d := G.length + 109)) f25 (d := G.length + 110))
        (d := G.length + 111)) (d := G.length + 112)
  exact (evr (mac_gr11 text) (by omega)
    (Ev.alt_r (Ev.alt_r (Ev.alt_r (Ev.alt_r f40 fpm (d := 31)) f14 (d := G.length + 114)) f4 (d := G.length + 115))
      f3 (d := G.length + 116)) (d := G.length + 117) (at_ := .nonAtomic)).mono (by omega)

/-! ### the lines of a macro body -/

def macEnd (X : List Nat) : List Nat := 37 :: 101 :: 110 :: 100 :: X

/-- the blanks in front of the next body statement, or of `%end` -/
def macLead (lead : List Nat) : List BLine → List Nat
  | [] => lead
  | b :: _ => b.lead

/-- the body lines from the first statement on (without its leading blanks), then `lead %end X` -/
def macCore (lead X : List Nat) : List BLine → List Nat
  | [] => macEnd X
  | b :: bs => b.stmt.text ++ (b.trail ++ commentText b.comment ++
      (newline b.crlf ++ (b.more.flatMap BlankLine.text ++ (macLead lead bs ++ macCore lead X bs))))

theorem mac_body_eq (lead X : List Nat) (bs : List BLine) :
    bs.flatMap BLine.text ++ (lead ++ macEnd X) = macLead lead bs ++ macCore lead X bs := by
  induction bs with
  | nil => rfl
  | cons b bs ih =>
    show (b :: bs).flatMap BLine.text ++ (lead ++ macEnd X) = b.lead ++ macCore lead X (b :: bs)
    rw [macCore, ← ih]
    simp only [List.flatMap_cons, BLine.text, List.append_assoc]

theorem mac_lead_blanks {lead : List Nat} {bs : List BLine} (hl : Layout.IsBlanks lead) (h : ∀ b ∈ bs, b.WF) :
    Layout.IsBlanks (macLead lead bs) := by
  cases bs with
  | nil => exact hl
  | cons b bs => exact (h b (by simp)).1

theorem mac_core_start (lead X : List Nat) {bs : List BLine} (h : ∀ b ∈ bs, b.WF) :
    PStart (macCore lead X bs) := by
  cases bs with
  | nil => exact .ch 37 _ (Or.inr rfl)
  | cons b bs =>
    obtain ⟨c, t, ht, hc⟩ := bstmt_start b.stmt (h b (by simp)).2.1
    simp only [macCore, ht, List.cons_append]
    exact .ch c _ hc

theorem mac_body_len (bs : List BLine) : bs.length ≤ (bs.flatMap BLine.text).length := by
  induction bs with
  | nil => simp
  | cons b bs ih =>
    have := Layout.newline_pos b.crlf
    simp only [List.flatMap_cons, List.length_cons, List.length_append, BLine.text]
    omega

/-- one iteration of the body loop: `instruction_macro_stmt ~ NEWLINE+` -/
def macBodyE : PE := .seq (.ref 11) (.plus (.ref 1003))

/-- the pairs of the body statements yield the statements' operations -/
inductive MacGoods (text : List Nat) : List Pair → List BLine → Prop
  | nil : MacGoods text [] []
  | cons {p : Pair} {b : BLine} {ps : List Pair} {bs : List BLine}
      (h : AopOK text p b.stmt) (t : MacGoods text ps bs) : MacGoods text (p :: ps) (b :: bs)

theorem mac_line (hB : ∀ b : BStmt, b.WF → BodyFact text b) {b : BLine} {Bn s : List Nat} {S : Nat} (hb : b.WF)
    (hBn : Layout.IsBlanks Bn) (hst : PStart s)
    (hs : Suf text S (b.stmt.text ++ (b.trail ++ commentText b.comment ++
      (newline b.crlf ++ (b.more.flatMap BlankLine.text ++ (Bn ++ s)))))) :
    ∃ P2 B2 pr, Ev (envOf text) (12 * text.length + 301) macBodyE .nonAtomic false S (some (P2, [pr])) ∧
      Layout.IsBlanks B2 ∧ Suf text P2 (B2 ++ s) ∧ S < P2 ∧ AopOK text pr b.stmt := by
  obtain ⟨_, hv, ht, hc, hmore⟩ := hb
  have hlen := hs.len
  simp only [List.length_append] at hlen
  have hg : Gap b.trail b.comment (newline b.crlf ++ (b.more.flatMap BlankLine.text ++ (Bn ++ s))) :=
    ⟨ht, fun x hx => ⟨hc x hx, Layout.lineEnd_newline _ _⟩, (Layout.lineEnd_newline _ _).stail⟩
  obtain ⟨e, pr, h1, h2, hN⟩ := hB b.stmt hv S b.trail b.comment _ hs hg
  have hs2 : Suf text (S + b.stmt.text.length + b.trail.length + (commentText b.comment).length)
      (newline b.crlf ++ (b.more.flatMap BlankLine.text ++ (Bn ++ s))) := by
    have := Suf.app (a := b.trail ++ commentText b.comment) (hs.app)
    simpa [Nat.add_assoc] using this
  obtain ⟨P2, B2, h3, hB2, hs3, hlt⟩ := plus_ok hBn hst b.crlf b.more hmore hs2
  refine ⟨P2, B2, pr, ?_, hB2, hs3, by omega, hN⟩
  exact Ev.seq (d := 12 * text.length + 300) h1 h2 h3 (by omega) (by omega) (by omega)

theorem mac_body_rep (hB : ∀ b : BStmt, b.WF → BodyFact text b) (lead X : List Nat) (hlead : Layout.IsBlanks lead)
    (hstop : ∀ Q, Suf text Q (macEnd X) → Ev (envOf text) (text.length + 150) (.ref 11) .nonAtomic false Q none) :
    ∀ (bs : List BLine) (P : Nat) (B : List Nat), (∀ b ∈ bs, b.WF) → Layout.IsBlanks B →
    Suf text P (B ++ macCore lead X bs) →
    ∃ P' B' ps, Layout.IsBlanks B' ∧ Suf text P' (B' ++ macEnd X) ∧ MacGoods text ps bs ∧
      ∀ (acc : List (List Pair)) (f : Nat), 12 * text.length + 303 + bs.length ≤ f →
        ∃ acc', rep (envOf text) f macBodyE .nonAtomic false P acc = (P', acc') ∧
          acc'.reverse.flatten = acc.reverse.flatten ++ ps
  | [], P, B, _, hBl, hs => by
    have hs : Suf text P (B ++ macEnd X) := hs
    have hlen := hs.len
    simp only [List.length_append] at hlen
    refine ⟨P, B, [], hBl, hs, .nil, ?_⟩
    intro acc f hf
    obtain ⟨f, rfl⟩ : ∃ f', f = f' + 1 := ⟨f - 1, by omega⟩
    have hsk := skip_to_start hBl (mac_core_start lead X (bs := []) (by intro b hb; cases hb)) hs f (by omega)
    have hs2 : Suf text (P + B.length) (macEnd X) := hs.app
    have hfail : Ev (envOf text) (text.length + 151) macBodyE .nonAtomic false (P + B.length) none :=
      Ev.seq_fail1 (hstop _ hs2) (d := text.length + 150)
    refine ⟨acc, ?_, by simp⟩
    rw [rep.eq_2, hsk, hfail f (by omega)]
  | b :: bs, P, B, hwf, hBl, hs => by
    have hb := hwf b (by simp)
    have hwf' : ∀ x ∈ bs, x.WF := fun x hx => hwf x (by simp [hx])
    have hlen := hs.len
    simp only [List.length_append] at hlen
    have hs2 : Suf text (P + B.length) (b.stmt.text ++ (b.trail ++ commentText b.comment ++
        (newline b.crlf ++ (b.more.flatMap BlankLine.text ++ (macLead lead bs ++ macCore lead X bs))))) := hs.app
    obtain ⟨P2, B2, pr, h1, hB2, hs3, hlt, hN⟩ := mac_line hB hb (mac_lead_blanks hlead hwf')
      (mac_core_start lead X hwf') hs2
    obtain ⟨P', B', ps, hB', hs4, hG, hrep⟩ := mac_body_rep hB lead X hlead hstop bs P2 B2 hwf' hB2 hs3
    refine ⟨P', B', pr :: ps, hB', hs4, .cons hN hG, ?_⟩
    intro acc f hf
    simp only [List.length_cons] at hf
    obtain ⟨f, rfl⟩ : ∃ f', f = f' + 1 := ⟨f - 1, by omega⟩
    have hsk := skip_to_start hBl (mac_core_start lead X hwf) hs f (by omega)
    obtain ⟨acc', h2, h3⟩ := hrep ([pr] :: acc) f (by omega)
    refine ⟨acc', ?_, by simp [h3]⟩
    rw [rep.eq_2, hsk, h1 f (by omega)]
    have hne : ¬ (P2 = P) := by omega
    simp only [hne, if_false]
    exact h2

theorem mac_body_star (hB : ∀ b : BStmt, b.WF → BodyFact text b) (lead X : List Nat) (hlead : Layout.IsBlanks lead)
    (hstop : ∀ Q, Suf text Q (macEnd X) → Ev (envOf text) (text.length + 150) (.ref 11) .nonAtomic false Q none)
    (bs : List BLine) (S0 : Nat) (hwf : ∀ b ∈ bs, b.WF) (hs : Suf text S0 (macCore lead X bs)) :
    ∃ P' B' ps, Layout.IsBlanks B' ∧ Suf text P' (B' ++ macEnd X) ∧ MacGoods text ps bs ∧
      Ev (envOf text) (12 * text.length + 304 + bs.length) (.star macBodyE) .nonAtomic false S0 (some (P', ps)) := by
  cases bs with
  | nil =>
    refine ⟨S0, [], [], Layout.IsBlanks.nil, hs, .nil, ?_⟩
    exact (Ev.star0 (Ev.seq_fail1 (hstop _ hs) (d := text.length + 150)) (d := text.length + 151)).mono
      (by simp only [List.length_nil]; omega)
  | cons b bs =>
    have hb := hwf b (by simp)
    have hwf' : ∀ x ∈ bs, x.WF := fun x hx => hwf x (by simp [hx])
    obtain ⟨P2, B2, pr, h1, hB2, hs3, hlt, hN⟩ := mac_line hB hb (mac_lead_blanks hlead hwf')
      (mac_core_start lead X hwf') hs
    obtain ⟨P', B', ps, hB', hs4, hG, hrep⟩ := mac_body_rep hB lead X hlead hstop bs P2 B2 hwf' hB2 hs3
    refine ⟨P', B', pr :: ps, hB', hs4, .cons hN hG, ?_⟩
    intro f hf
    simp only [List.length_cons] at hf
    obtain ⟨f, rfl⟩ : ∃ f', f = f' + 1 := ⟨f - 1, by omega⟩
    obtain ⟨acc', h2, h3⟩ := hrep [[pr]] f (by omega)
    rw [matchE.eq_7, h1 f (by omega)]
    simp only
    rw [h2]
    simp [h3]

/-- `NEWLINE*` over the line end of the header and the blank / comment-only lines that follow -/
theorem mac_nl_star {Bf s : List Nat} (hBf : Layout.IsBlanks Bf) (hst : PStart s) (crlf : Bool) (more : List BlankLine)
    (hwf : ∀ b ∈ more, b.WF) {q : Nat}
    (hs : Suf text q (newline crlf ++ (more.flatMap BlankLine.text ++ (Bf ++ s)))) :
    Ev (envOf text) (2 * text.length + 202) (.star (.ref 1003)) .nonAtomic false q
      (some (q + (newline crlf).length + (more.flatMap BlankLine.text).length, [])) := by
  intro f hf
  obtain ⟨f, rfl⟩ : ∃ f', f = f' + 1 := ⟨f - 1, by omega⟩
  obtain ⟨acc', h1, h2⟩ := nl_rep hBf hst more (q + (newline crlf).length) [[]] f hwf hs.app (by omega)
  rw [matchE.eq_7, Layout.nl_ok crlf hs f (by omega)]
  simp only
  rw [h1]
  simp [h2]

/-- the walk over the statement pairs of a macro body -/
theorem mac_parseBody {ps : List Pair} {bs : List BLine} (h : MacGoods text ps bs) :
    ∀ f, 2 * text.length + 11 + bs.length ≤ f →
      parseBody text.toArray f ps = .ok (bs.map (fun b => b.stmt.aop)) := by
  induction h with
  | nil =>
    intro f hf
    obtain ⟨f, rfl⟩ : ∃ f', f = f' + 1 := ⟨f - 1, by omega⟩
    rw [parseBody]; rfl
  | @cons p b ps bs h _ ih =>
    intro f hf
    simp only [List.length_cons] at hf
    obtain ⟨f, rfl⟩ : ∃ f', f = f' + 1 := ⟨f - 1, by omega⟩
    rw [parseBody]
    simp only [h f (by omega), ih f (by omega), List.map_cons]

end FullText
end Asm
end EtkVerif
