/-
Assembling the nodes of a listing gives back the instructions' bytes, and the
instructions the linear sweep decodes are `Valid` and concatenate to the input.
-/
import EtkVerif.Asm.Listing
import EtkVerif.Asm.Assemble
import EtkVerif.Disasm.Lemmas
import EtkVerif.Asm.LayoutAux
import EtkVerif.Ops.TableCancun
namespace EtkVerif
namespace Asm
namespace Listing
open Pest

/-- what `Ingest` feeds the assembler for a node of a listing -/
def rawOf (i : Disasm.Instr) : RawOp :=
  .op (.op i.op (if i.imm.isEmpty then none else some (.num (Int.ofNat (beNat i.imm)))))


/-! ### big-endian values -/


theorem foldl_be_inj : ∀ (xs ys : List Nat) (a b : Nat), xs.length = ys.length →
    (∀ x ∈ xs, x < 256) → (∀ y ∈ ys, y < 256) →
    xs.foldl (fun acc b => acc * 256 + b) a = ys.foldl (fun acc b => acc * 256 + b) b →
    a = b ∧ xs = ys := by
  intro xs
  induction xs with
  | nil =>
    intro ys a b hl _ _ h
    cases ys with
    | nil => exact ⟨h, rfl⟩
    | cons y ys => simp at hl
  | cons x xs ih =>
    intro ys a b hl hx hy h
    cases ys with
    | nil => simp at hl
    | cons y ys =>
      simp only [List.foldl_cons] at h
      have hl' : xs.length = ys.length := by simpa using hl
      obtain ⟨h1, h2⟩ := ih ys _ _ hl' (fun z hz => hx z (List.mem_cons_of_mem _ hz))
        (fun z hz => hy z (List.mem_cons_of_mem _ hz)) h
      have := hx x (List.mem_cons_self ..)
      have := hy y (List.mem_cons_self ..)
      have hab : a = b := by omega
      have hxy : x = y := by omega
      exact ⟨hab, by rw [hxy, h2]⟩

theorem foldl_be_lt : ∀ (xs : List Nat) (a : Nat), (∀ x ∈ xs, x < 256) →
    xs.foldl (fun acc b => acc * 256 + b) a < (a + 1) * 256 ^ xs.length := by
  intro xs
  induction xs with
  | nil => intro a _; simp
  | cons x xs ih =>
    intro a hx
    simp only [List.foldl_cons, List.length_cons]
    have h1 := ih (a * 256 + x) (fun z hz => hx z (List.mem_cons_of_mem _ hz))
    have h2 := hx x (List.mem_cons_self ..)
    have h3 : (a * 256 + x + 1) * 256 ^ xs.length ≤ ((a + 1) * 256) * 256 ^ xs.length :=
      Nat.mul_le_mul_right _ (by omega)
    rw [Nat.pow_succ, Nat.mul_comm (256 ^ xs.length) 256, ← Nat.mul_assoc]
    omega

theorem beNat_lt (xs : List Nat) (h : ∀ x ∈ xs, x < 256) : beNat xs < 256 ^ xs.length := by
  have := foldl_be_lt xs 0 h
  simpa [beNat] using this

theorem foldl_be_replicate_zero (m : Nat) :
    (List.replicate m 0).foldl (fun acc b => acc * 256 + b) 0 = 0 := by
  induction m with
  | zero => rfl
  | succ m ih => simpa [List.replicate_succ] using ih

/-- left-padding the minimal big-endian bytes of the value of `imm` gives `imm` back -/
theorem pad_bytesBE_beNat (imm : List Nat) (hb : ∀ b ∈ imm, b < 256) (hk : 1 ≤ imm.length) :
    (bytesBE (beNat imm)).length ≤ imm.length ∧
    List.replicate (imm.length - (bytesBE (beNat imm)).length) 0 ++ bytesBE (beNat imm) = imm := by
  obtain ⟨_, _, hmin, hval, hbytes⟩ := bytesBE_spec' (beNat imm)
  have hle : (bytesBE (beNat imm)).length ≤ imm.length := hmin _ hk (beNat_lt imm hb)
  refine ⟨hle, ?_⟩
  have := foldl_be_inj (List.replicate (imm.length - (bytesBE (beNat imm)).length) 0 ++ bytesBE (beNat imm))
    imm 0 0 (by simp; omega)
    (by
      intro x hx
      rcases List.mem_append.mp hx with hx | hx
      · have := List.eq_of_mem_replicate hx; omega
      · exact hbytes x hx)
    hb
    (by rw [List.foldl_append, foldl_be_replicate_zero, hval]; rfl)
  exact this.2

/-! ### the table -/

theorem cancun_extra (b : Nat) (hb : b < 256) : (Ops.rowOf Gen.cancun b).extra = immLen b := by
  have := Ops.tableOK_row Ops.cancun_tableOK hb
  have h : (Ops.rowOf Gen.cancun b).extra = EtkVerif.Spec.immLen b := by
    simp only [Ops.rowOK, Bool.and_eq_true, beq_iff_eq] at this
    exact this.1.1.1.2
  rw [h]; rfl

/-! ### one instruction -/

/-- what `ready` holds for a node of a listing -/
def itemOf (i : Disasm.Instr) : Item :=
  .op i.op (if i.imm.isEmpty then none else some (.num (Int.ofNat (beNat i.imm))))

theorem eval_num (c : Ctx) (v : Int) : eval evalFuel c (.num v) = .ok v := by
  have : evalFuel = 99999 + 1 := rfl
  rw [this]; simp [eval]

theorem labelsOf_num (ms : List (String × MacroDef)) (v : Int) :
    labelsOf ms evalFuel 0 (.num v) = .ok [] := by
  have : evalFuel = 99999 + 1 := rfl
  rw [this]; simp [labelsOf]

theorem concretize_valid (c : Ctx) (i : Disasm.Instr) (hv : Valid i) :
    concretizeOp c i.op (if i.imm.isEmpty then none else some (.num (Int.ofNat (beNat i.imm))))
      = .ok (i.op :: i.imm) := by
  obtain ⟨hop, _, hlen, hb⟩ := hv
  rw [cancun_extra _ hop] at hlen
  by_cases he : i.imm.isEmpty = true
  · rw [if_pos he]
    have : i.imm = [] := List.isEmpty_iff.mp he
    rw [this]; rfl
  · rw [if_neg he]
    have hk : 1 ≤ i.imm.length := by
      cases h : i.imm with
      | nil => rw [h] at he; simp at he
      | cons => simp
    obtain ⟨h1, h2⟩ := pad_bytesBE_beNat i.imm hb hk
    unfold concretizeOp
    simp only [eval_num]
    have hneg : ¬ (Int.ofNat (beNat i.imm) < 0) := by
      have := Int.natCast_nonneg (beNat i.imm)
      simp
    rw [if_neg hneg]
    have ht : (Int.ofNat (beNat i.imm)).toNat = beNat i.imm := rfl
    simp only [ht, ← hlen]
    rw [if_neg (by omega), h2]

theorem pushInstr_closed (s : St) (code : Nat) (imm : Option Expr) (size : Option Nat) (bytes : List Nat)
    (hl : ∀ e, imm = some e → labelsOf s.macros evalFuel 0 e = .ok [])
    (hc : ∀ c, concretizeOp c code imm = .ok bytes) :
    pushInstr s (.op code imm) (.op code imm) size (fun s => concretizeOp s.ctx code imm) =
      .ok { s with len := s.len + bytes.length, ready := s.ready ++ [.op code imm] } := by
  cases imm with
  | none => simp [pushInstr, AOp.expr?, hc]
  | some e => simp [pushInstr, AOp.expr?, hl e rfl, hc]

theorem push_valid (rnd : Nat → Nat) (fuel : Nat) (s : St) (i : Disasm.Instr) (hv : Valid i) :
    push rnd (fuel + 1) s (rawOf i) =
      .ok { s with len := s.len + (1 + i.imm.length), ready := s.ready ++ [itemOf i] } := by
  unfold rawOf push
  simp only []
  rw [pushInstr_closed s _ _ _ (i.op :: i.imm) ?_ (fun c => concretize_valid c i hv)]
  · simp [itemOf, Nat.add_comm]
  · intro e he
    split at he
    · cases he
    · injection he with he; subst he; exact labelsOf_num _ _

/-! ### the whole listing -/

theorem rawOps_toList_ofList (l : List RawOp) : (RawOps.ofList l).toList = l := by
  induction l with
  | nil => rfl
  | cons h t ih => simp [RawOps.ofList, RawOps.toList, ih]

theorem declareMacros_listing (is : List Disasm.Instr) (ms : List (String × MacroDef)) :
    declareMacros (is.map rawOf) ms = .ok ms := by
  induction is with
  | nil => rfl
  | cons i is ih => simpa [rawOf, declareMacros] using ih

theorem feedAll_listing (rnd : Nat → Nat) : ∀ (is : List Disasm.Instr) (fuel : Nat) (s : St),
    (∀ i ∈ is, Valid i) → is.length + 1 ≤ fuel →
    feedAll rnd fuel s (RawOps.ofList (is.map rawOf)) =
      .ok { s with len := s.len + (is.flatMap Disasm.Instr.bytes).length,
                   ready := s.ready ++ is.map itemOf } := by
  intro is
  induction is with
  | nil =>
    intro fuel s _ hf
    obtain ⟨f, rfl⟩ : ∃ f, fuel = f + 1 := ⟨fuel - 1, by omega⟩
    simp [RawOps.ofList, feedAll]
  | cons i is ih =>
    intro fuel s hv hf
    simp only [List.length_cons] at hf
    obtain ⟨f, rfl⟩ : ∃ f, fuel = f + 1 + 1 := ⟨fuel - 2, by omega⟩
    simp only [List.map_cons, RawOps.ofList]
    unfold feedAll
    rw [push_valid rnd f s i (hv i (List.mem_cons_self ..))]
    simp only []
    rw [ih (f + 1) _ (fun j hj => hv j (List.mem_cons_of_mem _ hj)) (by omega)]
    simp [Disasm.Instr.bytes]
    omega

theorem emit_listing (c : Ctx) (is : List Disasm.Instr) (hv : ∀ i ∈ is, Valid i) (ws : List Nat) :
    emit c (is.map itemOf) ws = .ok (is.flatMap Disasm.Instr.bytes) := by
  induction is generalizing ws with
  | nil => rfl
  | cons i is ih =>
    rw [List.map_cons, emit_cons]
    have h1 : emitItem c (itemOf i) ws = .ok (i.op :: i.imm) := by
      simp only [itemOf, emitItem, concretize_valid c i (hv i (List.mem_cons_self ..)), Conc.toExcept]
    rw [h1]
    simp only []
    rw [ih (fun j hj => hv j (List.mem_cons_of_mem _ hj))]
    simp [Disasm.Instr.bytes]

theorem finish_listing (s : St) (is : List Disasm.Instr) (hv : ∀ i ∈ is, Valid i)
    (hu : s.undeclared = []) (hr : s.ready = is.map itemOf) :
    finish s = .ok (is.flatMap Disasm.Instr.bytes) := by
  have h : finish s = emit { s.ctx with labels := (layoutLoop s (32 * pushCount s.ready + 2) (List.replicate (pushCount s.ready) 1)).1 } s.ready
      (layoutLoop s (32 * pushCount s.ready + 2) (List.replicate (pushCount s.ready) 1)).2 := by
    unfold finish
    rw [hu]
    rfl
  rw [h, hr]
  exact emit_listing _ is hv _

theorem assemble_listing (rnd : Nat → Nat) (fuel : Nat) (is : List Disasm.Instr)
    (hv : ∀ i ∈ is, Valid i) (hf : is.length + 2 ≤ fuel) :
    assemble rnd fuel {} (RawOps.ofList (is.map rawOf)) = .ok (is.flatMap Disasm.Instr.bytes, 0) := by
  obtain ⟨f, rfl⟩ : ∃ f, fuel = f + 1 := ⟨fuel - 1, by omega⟩
  unfold assemble
  rw [rawOps_toList_ofList, declareMacros_listing]
  simp only []
  rw [feedAll_listing rnd is f _ hv (by omega)]
  simp only []
  rw [finish_listing _ is hv rfl (by simp)]
  rfl

/-! ### the linear sweep -/

theorem sweep_complete (t : OpTable) : ∀ (fuel off : Nat) (bs : List Nat) (items : List Disasm.Item) (off' : Nat),
    Disasm.sweep t fuel off bs = (items, (off', [])) →
    (∀ it ∈ items, it.2.imm.length = (Ops.rowOf t it.2.op).extra ∧ it.2.op ∈ bs ∧ ∀ b ∈ it.2.imm, b ∈ bs) ∧
    Disasm.bytesOf items = bs := by
  intro fuel
  induction fuel with
  | zero =>
    intro off bs items off' h
    simp only [Disasm.sweep, Prod.mk.injEq] at h
    obtain ⟨rfl, _, rfl⟩ := h
    simp [Disasm.bytesOf]
  | succ fuel ih =>
    intro off bs items off' h
    cases bs with
    | nil =>
      simp only [Disasm.sweep, Prod.mk.injEq] at h
      obtain ⟨rfl, _⟩ := h
      simp [Disasm.bytesOf]
    | cons b rest =>
      simp only [Disasm.sweep] at h
      split at h
      · simp at h
      · rename_i hlt
        have hn : Disasm.immLen t b ≤ rest.length := Nat.le_of_not_lt hlt
        generalize hr : Disasm.sweep t fuel (off + 1 + Disasm.immLen t b) (rest.drop (Disasm.immLen t b)) = r at h
        obtain ⟨items', tail⟩ := r
        simp only [Prod.mk.injEq] at h
        obtain ⟨rfl, rfl⟩ := h
        obtain ⟨h1, h2⟩ := ih _ _ _ _ hr
        refine ⟨?_, ?_⟩
        · intro it hit
          rcases List.mem_cons.mp hit with rfl | hit
          · refine ⟨?_, List.mem_cons_self .., ?_⟩
            · simp only [List.length_take]
              exact Nat.min_eq_left hn
            · intro x hx
              exact List.mem_cons_of_mem _ (List.mem_of_mem_take hx)
          · obtain ⟨ha, hb, hc⟩ := h1 it hit
            exact ⟨ha, List.mem_cons_of_mem _ (List.mem_of_mem_drop hb),
              fun x hx => List.mem_cons_of_mem _ (List.mem_of_mem_drop (hc x hx))⟩
        · rw [Disasm.bytesOf_cons, h2]
          simp [List.take_append_drop]

/-- the complete instructions of the linear sweep of a byte string over defined
opcodes are `Valid`, and their bytes concatenate to the string -/
theorem decodeAll_valid (bytes : List Nat) (hb : ∀ b ∈ bytes, b < 256)
    (items : List Disasm.Item) (off : Nat)
    (hd : Disasm.decodeAll Gen.cancun bytes = (items, (off, [])))
    (hdef : ∀ it ∈ items, Ops.isUndefRow (Ops.rowOf Gen.cancun it.2.op) = false) :
    (∀ i ∈ items.map (·.2), Valid i) ∧ (items.map (·.2)).flatMap Disasm.Instr.bytes = bytes := by
  obtain ⟨h1, h2⟩ := sweep_complete Gen.cancun _ _ _ _ _ hd
  refine ⟨?_, ?_⟩
  · intro i hi
    obtain ⟨it, hit, rfl⟩ := List.mem_map.mp hi
    obtain ⟨ha, hb', hc⟩ := h1 it hit
    exact ⟨hb _ hb', hdef it hit, ha, fun x hx => hb x (hc x hx)⟩
  · rw [← h2]
    simp [Disasm.bytesOf, List.flatMap_map]

end Listing
end Asm
end EtkVerif
