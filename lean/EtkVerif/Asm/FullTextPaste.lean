/-
"`%import("f")` behaves as if f's text were pasted at the directive" — at the level of TEXT, for the whole-language
family `FullText`: a source whose statements are `A`, then `%import("f")`, then `B` (A, B free of file directives),
where f holds the text of the directive-free program `F`, is preprocessed to exactly the raw ops that the text with
F's statements in place of the directive is preprocessed to.  For `%include("f")` the ops of F arrive as ONE nested
scope instead.  The events added to the trace are the containment check and the read of f.
-/
import EtkVerif.Asm.FullTextAsm
namespace EtkVerif
namespace Asm
namespace FullText
open Layout

/-- the root a directive is checked against: the program's, or a new one made from its first source -/
def rootOf (fs : FS) (cwd : PathC) (prog : Program) (path : String) : Except IngErr Root :=
  match prog.root with
  | some r => .ok r
  | none => Root.new fs cwd (prog.sources.headD (PathC.ofString path))


/-! ### helpers -/

/-- running the loop over the nodes of directive-free statements, then over `rest` -/
theorem nodesLoop_append_ops (fs : FS) (cwd : PathC) (prog : Program) (rest : List Node) :
    ∀ (items : List Item) (ops : List AOp) (fuel : Nat) (tr tr' : List Event) (more : List RawOp),
      items.mapM (fun x => x.stmt.aop?) = some ops →
      nodesLoop fs cwd fuel prog rest tr = .ok (more, tr') →
      nodesLoop fs cwd (items.length + fuel) prog (items.map (fun x => x.stmt.node) ++ rest) tr =
        .ok (ops.map RawOp.op ++ more, tr') := by
  intro items
  induction items with
  | nil =>
    intro ops fuel tr tr' more h hr
    simp at h; subst h
    simpa using hr
  | cons i is ih =>
    intro ops fuel tr tr' more h hr
    simp only [List.mapM_cons, Option.bind_eq_bind, Option.pure_def] at h
    cases ho : i.stmt.aop? with
    | none => simp [ho] at h
    | some o =>
      simp only [ho, Option.bind_some] at h
      cases hm : is.mapM (fun x => x.stmt.aop?) with
      | none => simp [hm] at h
      | some os =>
        simp only [hm, Option.bind_some, Option.some.injEq] at h
        subst h
        have := ih os fuel tr tr' more hm hr
        have hlen : (i :: is).length + fuel = (is.length + fuel) + 1 := by simp; omega
        rw [hlen]
        simp only [List.map_cons, List.cons_append, nodesLoop, node_of_aop _ _ ho, this]
        rfl

theorem mapM_aop_append (A B : List Item) (opsA opsB : List AOp)
    (hA : A.mapM (fun x => x.stmt.aop?) = some opsA) (hB : B.mapM (fun x => x.stmt.aop?) = some opsB) :
    (A ++ B).mapM (fun x => x.stmt.aop?) = some (opsA ++ opsB) := by
  simp [List.mapM_append, hA, hB]

/-- one step of `resolveAndIngest` on a file holding the text of a directive-free program -/
theorem resolveAndIngest_full (fs : FS) (cwd : PathC) (prog : Program) (tr : List Event)
    (headF : List BlankLine) (F : List Item) (hF : WF headF F) (opsF : List AOp)
    (hFo : F.mapM (fun x => x.stmt.aop?) = some opsF) (p : String)
    (hdepth : ¬ prog.sources.length > 255) (r : Root) (loc : List String)
    (hroot : rootOf fs cwd prog p = .ok r)
    (hcheck : r.check fs (cwd.join ((baseDir prog).join (PathC.ofString p))) = .ok loc)
    (hread : fs.readText loc = some (render headF F))
    (fuel : Nat) (hf : F.length + 3 ≤ fuel) :
    resolveAndIngest fs cwd fuel prog p tr =
      .ok (opsF.map RawOp.op, tr ++ [.check (cwd.join ((baseDir prog).join (PathC.ofString p))) true] ++ [.read loc]) := by
  cases fuel with
  | zero => omega
  | succ f =>
    unfold rootOf at hroot
    simp only [resolveAndIngest, if_neg hdepth]
    cases hpr : prog.root with
    | some r0 =>
      simp only [hpr, Except.ok.injEq] at hroot
      subst hroot
      simp only [hcheck, hread]
      exact preprocess_full fs cwd _ _ headF F hF opsF hFo f (by omega)
    | none =>
      simp only [hpr] at hroot
      simp only [hroot, hcheck, hread]
      exact preprocess_full fs cwd _ _ headF F hF opsF hFo f (by omega)

/-- `%import`: the ops of `A ++ F ++ B` -/
theorem preprocess_import_paste (fs : FS) (cwd : PathC) (prog : Program) (tr : List Event)
    (head headF : List BlankLine) (A B F : List Item) (lead g1 g2 g3 : List Nat) (path : List PChar) (term : Layout.Term)
    (hW : WF head (A ++ [⟨lead, .directive .import_ g1 g2 path g3, term⟩] ++ B)) (hF : WF headF F)
    (opsA opsB opsF : List AOp)
    (hA : A.mapM (fun x => x.stmt.aop?) = some opsA) (hB : B.mapM (fun x => x.stmt.aop?) = some opsB)
    (hFo : F.mapM (fun x => x.stmt.aop?) = some opsF)
    (hdepth : ¬ prog.sources.length > 255) (r : Root) (loc : List String)
    (hroot : rootOf fs cwd prog (strOf (path.map PChar.value)) = .ok r)
    (hcheck : r.check fs (cwd.join ((baseDir prog).join (PathC.ofString (strOf (path.map PChar.value))))) = .ok loc)
    (hread : fs.readText loc = some (render headF F))
    (fuel : Nat) (hf : A.length + B.length + F.length + 5 ≤ fuel) :
    preprocess fs cwd fuel prog (render head (A ++ [⟨lead, .directive .import_ g1 g2 path g3, term⟩] ++ B)) tr =
      .ok ((opsA ++ opsF ++ opsB).map RawOp.op,
           tr ++ [.check (cwd.join ((baseDir prog).join (PathC.ofString (strOf (path.map PChar.value))))) true] ++ [.read loc]) := by
  cases fuel with
  | zero => omega
  | succ f =>
    simp only [preprocess, parse_full head _ hW]
    simp only [List.map_append, List.append_assoc]
    obtain ⟨f', rfl⟩ : ∃ f', f = A.length + (f' + 1) := ⟨f - A.length - 1, by omega⟩
    have hB' := nodesLoop_full fs cwd prog
      (tr ++ [.check (cwd.join ((baseDir prog).join (PathC.ofString (strOf (path.map PChar.value))))) true] ++ [.read loc])
      B opsB f' hB (by omega)
    have hR := resolveAndIngest_full fs cwd prog tr headF F hF opsF hFo (strOf (path.map PChar.value)) hdepth r loc
      hroot hcheck hread f' (by omega)
    have hD : nodesLoop fs cwd (f' + 1) prog
        ([(⟨lead, .directive .import_ g1 g2 path g3, term⟩ : Item)].map (fun x => x.stmt.node) ++
          B.map (fun x => x.stmt.node)) tr =
        .ok (opsF.map RawOp.op ++ opsB.map RawOp.op,
          tr ++ [.check (cwd.join ((baseDir prog).join (PathC.ofString (strOf (path.map PChar.value))))) true] ++ [.read loc]) := by
      have hn : (Stmt.directive .import_ g1 g2 path g3).node = .import_ (strOf (path.map PChar.value)) := rfl
      simp only [List.map_cons, List.map_nil, List.singleton_append, hn, nodesLoop, hR, hB']
    rw [nodesLoop_append_ops fs cwd prog _ A opsA (f' + 1) tr _ _ hA hD]
    simp [List.append_assoc]

/-- … and that is what the pasted text yields (no file touched): for any layout of `A ++ F ++ B` that is in the family -/
theorem preprocess_pasted (fs : FS) (cwd : PathC) (prog : Program) (tr : List Event)
    (head : List BlankLine) (A B F : List Item) (hW : WF head (A ++ F ++ B)) (opsA opsB opsF : List AOp)
    (hA : A.mapM (fun x => x.stmt.aop?) = some opsA) (hB : B.mapM (fun x => x.stmt.aop?) = some opsB)
    (hFo : F.mapM (fun x => x.stmt.aop?) = some opsF)
    (fuel : Nat) (hf : A.length + B.length + F.length + 2 ≤ fuel) :
    preprocess fs cwd fuel prog (render head (A ++ F ++ B)) tr = .ok ((opsA ++ opsF ++ opsB).map RawOp.op, tr) := by
  exact preprocess_full fs cwd prog tr head (A ++ F ++ B) hW (opsA ++ opsF ++ opsB)
    (mapM_aop_append _ _ _ _ (mapM_aop_append _ _ _ _ hA hFo) hB) fuel (by simp only [List.length_append]; omega)

/-- `%include`: the ops of F as one nested scope between those of A and B -/
theorem preprocess_include_scope (fs : FS) (cwd : PathC) (prog : Program) (tr : List Event)
    (head headF : List BlankLine) (A B F : List Item) (lead g1 g2 g3 : List Nat) (path : List PChar) (term : Layout.Term)
    (hW : WF head (A ++ [⟨lead, .directive .include g1 g2 path g3, term⟩] ++ B)) (hF : WF headF F)
    (opsA opsB opsF : List AOp)
    (hA : A.mapM (fun x => x.stmt.aop?) = some opsA) (hB : B.mapM (fun x => x.stmt.aop?) = some opsB)
    (hFo : F.mapM (fun x => x.stmt.aop?) = some opsF)
    (hdepth : ¬ prog.sources.length > 255) (r : Root) (loc : List String)
    (hroot : rootOf fs cwd prog (strOf (path.map PChar.value)) = .ok r)
    (hcheck : r.check fs (cwd.join ((baseDir prog).join (PathC.ofString (strOf (path.map PChar.value))))) = .ok loc)
    (hread : fs.readText loc = some (render headF F))
    (fuel : Nat) (hf : A.length + B.length + F.length + 5 ≤ fuel) :
    preprocess fs cwd fuel prog (render head (A ++ [⟨lead, .directive .include g1 g2 path g3, term⟩] ++ B)) tr =
      .ok (opsA.map RawOp.op ++ [RawOp.scope (RawOps.ofList (opsF.map RawOp.op))] ++ opsB.map RawOp.op,
           tr ++ [.check (cwd.join ((baseDir prog).join (PathC.ofString (strOf (path.map PChar.value))))) true] ++ [.read loc]) := by
  cases fuel with
  | zero => omega
  | succ f =>
    simp only [preprocess, parse_full head _ hW]
    simp only [List.map_append, List.append_assoc]
    obtain ⟨f', rfl⟩ : ∃ f', f = A.length + (f' + 1) := ⟨f - A.length - 1, by omega⟩
    have hB' := nodesLoop_full fs cwd prog
      (tr ++ [.check (cwd.join ((baseDir prog).join (PathC.ofString (strOf (path.map PChar.value))))) true] ++ [.read loc])
      B opsB f' hB (by omega)
    have hR := resolveAndIngest_full fs cwd prog tr headF F hF opsF hFo (strOf (path.map PChar.value)) hdepth r loc
      hroot hcheck hread f' (by omega)
    have hD : nodesLoop fs cwd (f' + 1) prog
        ([(⟨lead, .directive .include g1 g2 path g3, term⟩ : Item)].map (fun x => x.stmt.node) ++
          B.map (fun x => x.stmt.node)) tr =
        .ok ([RawOp.scope (RawOps.ofList (opsF.map RawOp.op))] ++ opsB.map RawOp.op,
          tr ++ [.check (cwd.join ((baseDir prog).join (PathC.ofString (strOf (path.map PChar.value))))) true] ++ [.read loc]) := by
      have hn : (Stmt.directive .include g1 g2 path g3).node = .include (strOf (path.map PChar.value)) := rfl
      simp only [List.map_cons, List.map_nil, List.singleton_append, hn, nodesLoop, hR, hB']
    rw [nodesLoop_append_ops fs cwd prog _ A opsA (f' + 1) tr _ _ hA hD]
    simp [List.append_assoc]

theorem mapM_aop_congr : ∀ (P Q : List Item), P.map (·.stmt) = Q.map (·.stmt) →
    P.mapM (fun x => x.stmt.aop?) = Q.mapM (fun x => x.stmt.aop?)
  | [], [], _ => rfl
  | [], _ :: _, h => by simp at h
  | _ :: _, [], h => by simp at h
  | p :: P, q :: Q, h => by
    simp only [List.map_cons, List.cons.injEq] at h
    have ih := mapM_aop_congr P Q h.2
    simp only [List.mapM_cons, h.1, ih]

/-- the pasted text in ANY layout: any family member whose statements are those of `A`, `F`, `B` in this order -/
theorem preprocess_pasted_any (fs : FS) (cwd : PathC) (prog : Program) (tr : List Event)
    (head : List BlankLine) (A B F P : List Item) (hst : P.map (·.stmt) = (A ++ F ++ B).map (·.stmt)) (hW : WF head P)
    (opsA opsB opsF : List AOp)
    (hA : A.mapM (fun x => x.stmt.aop?) = some opsA) (hB : B.mapM (fun x => x.stmt.aop?) = some opsB)
    (hFo : F.mapM (fun x => x.stmt.aop?) = some opsF)
    (fuel : Nat) (hf : A.length + B.length + F.length + 2 ≤ fuel) :
    preprocess fs cwd fuel prog (render head P) tr = .ok ((opsA ++ opsF ++ opsB).map RawOp.op, tr) := by
  have hops : P.mapM (fun x => x.stmt.aop?) = some (opsA ++ opsF ++ opsB) := by
    rw [mapM_aop_congr P (A ++ F ++ B) hst]
    exact mapM_aop_append _ _ _ _ (mapM_aop_append _ _ _ _ hA hFo) hB
  have hlen : P.length = A.length + F.length + B.length := by
    have := congrArg List.length hst
    simp [List.length_append] at this; omega
  exact preprocess_full fs cwd prog tr head P hW _ hops fuel (by omega)

/-! ### non-vacuity: a concrete file system on which every hypothesis holds

`/a.etk` holds `stop` NEWLINE `%import("b.etk")` NEWLINE `pc`, `/b.etk` holds `jumpdest` NEWLINE.  All hypotheses of
`preprocess_import_paste` are PROVED for it (kernel evaluation; `String.splitOn`, defined by well-founded recursion, does
not reduce under `decide`, so the one fact `"b.etk".splitOn "/" = ["b.etk"]` is stepped by hand), and the theorem then
gives the ops `stop, jumpdest, pc` and the trace `check /b.etk, read /b.etk`. -/
namespace PasteExample

def nl : Layout.Term := .line [] none false []
/-- `stop` NEWLINE -/
def A : List Item := [⟨[], .plain (.ins ⟨0x00, []⟩), nl⟩]
/-- `pc`, unterminated -/
def B : List Item := [⟨[], .plain (.ins ⟨0x58, []⟩), .open_ [] none⟩]
/-- `jumpdest` NEWLINE -/
def F : List Item := [⟨[], .plain (.ins ⟨0x5b, []⟩), nl⟩]
/-- `b.etk` -/
def path : List PChar := [.plain 98, .plain 46, .plain 101, .plain 116, .plain 107]
def tree : Tree :=
  [(["a.etk"], .file (render [] (A ++ [⟨[], .directive .import_ [] [] path [], nl⟩] ++ B))), (["b.etk"], .file (render [] F))]
def fs : FS := tree.toFS
def cwd : PathC := ⟨true, []⟩
/-- the program state `ingestFile` starts `/a.etk` with, before its root is made -/
def prog : Program := { root := none, sources := [⟨true, ["a.etk"]⟩] }

theorem text_a : render [] (A ++ [⟨[], .directive .import_ [] [] path [], nl⟩] ++ B) =
    [115,116,111,112,10] ++ [37,105,109,112,111,114,116,40,34,98,46,101,116,107,34,41,10] ++ [112,99] := by decide
theorem text_b : render [] F = [106,117,109,112,100,101,115,116,10] := by decide

theorem wf_a : WF [] (A ++ [⟨[], .directive .import_ [] [] path [], nl⟩] ++ B) := by
  refine ⟨by simp, ?_, ?_⟩
  · intro x hx
    simp only [A, B, List.cons_append, List.nil_append, List.mem_cons, List.not_mem_nil, or_false] at hx
    rcases hx with rfl | rfl | rfl
    · exact ⟨by decide, (by decide : Listing.Valid ⟨0x00, []⟩), by decide⟩
    · refine ⟨by decide, ⟨by simp [ExprText.IsBlanks], by simp [ExprText.IsBlanks], ?_, by simp [ExprText.IsBlanks]⟩, by decide⟩
      intro c hc
      simp only [path, List.mem_cons, List.not_mem_nil, or_false] at hc
      rcases hc with rfl | rfl | rfl | rfl | rfl <;> simp [PChar.WF]
    · exact ⟨by decide, (by decide : Listing.Valid ⟨0x58, []⟩), by decide⟩
  · simp [A, B, OpenOnlyLast, nl, Layout.Term.isOpen]
theorem wf_b : WF [] F := by
  refine ⟨by simp, ?_, by simp [F, OpenOnlyLast]⟩
  intro x hx
  simp only [F, List.mem_cons, List.not_mem_nil, or_false] at hx
  subst hx
  exact ⟨by decide, (by decide : Listing.Valid ⟨0x5b, []⟩), by decide⟩

open String.Pos.Raw in
/-- `String.splitOn` is defined by well-founded recursion and does not reduce in the kernel: stepped by hand -/
theorem splitOn_b_etk : "b.etk".splitOn "/" = ["b.etk"] := by
  have h : ("/" == "") = false := by decide +kernel
  simp only [String.splitOn, h, Bool.false_eq_true, ↓reduceIte]
  rw [String.splitOnAux]
  simp only [show atEnd "b.etk" 0 = false by decide +kernel,
    show (String.Pos.Raw.get "b.etk" 0 == String.Pos.Raw.get "/" 0) = false by decide +kernel,
    show next "b.etk" (unoffsetBy 0 0) = ⟨1⟩ by decide +kernel, Bool.false_eq_true, ↓reduceIte]
  rw [String.splitOnAux]
  simp only [show atEnd "b.etk" ⟨1⟩ = false by decide +kernel,
    show (String.Pos.Raw.get "b.etk" ⟨1⟩ == String.Pos.Raw.get "/" 0) = false by decide +kernel,
    show next "b.etk" (unoffsetBy ⟨1⟩ 0) = ⟨2⟩ by decide +kernel, Bool.false_eq_true, ↓reduceIte]
  rw [String.splitOnAux]
  simp only [show atEnd "b.etk" ⟨2⟩ = false by decide +kernel,
    show (String.Pos.Raw.get "b.etk" ⟨2⟩ == String.Pos.Raw.get "/" 0) = false by decide +kernel,
    show next "b.etk" (unoffsetBy ⟨2⟩ 0) = ⟨3⟩ by decide +kernel, Bool.false_eq_true, ↓reduceIte]
  rw [String.splitOnAux]
  simp only [show atEnd "b.etk" ⟨3⟩ = false by decide +kernel,
    show (String.Pos.Raw.get "b.etk" ⟨3⟩ == String.Pos.Raw.get "/" 0) = false by decide +kernel,
    show next "b.etk" (unoffsetBy ⟨3⟩ 0) = ⟨4⟩ by decide +kernel, Bool.false_eq_true, ↓reduceIte]
  rw [String.splitOnAux]
  simp only [show atEnd "b.etk" ⟨4⟩ = false by decide +kernel,
    show (String.Pos.Raw.get "b.etk" ⟨4⟩ == String.Pos.Raw.get "/" 0) = false by decide +kernel,
    show next "b.etk" (unoffsetBy ⟨4⟩ 0) = ⟨5⟩ by decide +kernel, Bool.false_eq_true, ↓reduceIte]
  rw [String.splitOnAux]
  simp only [show atEnd "b.etk" ⟨5⟩ = true by decide +kernel,
    show String.Pos.Raw.extract "b.etk" 0 ⟨5⟩ = "b.etk" by decide +kernel, ↓reduceIte, List.reverse_cons, List.reverse_nil, List.nil_append]

theorem path_b : PathC.ofString (strOf (path.map PChar.value)) = ⟨false, ["b.etk"]⟩ := by
  have h1 : strOf (path.map PChar.value) = "b.etk" := by decide +kernel
  rw [h1]
  simp only [PathC.ofString, splitOn_b_etk]
  decide +kernel

theorem ex_root : rootOf fs cwd prog (strOf (path.map PChar.value)) = .ok ⟨[]⟩ := rfl
theorem ex_check : (⟨[]⟩ : Root).check fs (cwd.join ((baseDir prog).join (PathC.ofString (strOf (path.map PChar.value))))) =
    .ok ["b.etk"] := by
  rw [path_b]; rfl
theorem ex_read : fs.readText ["b.etk"] = some (render [] F) := by decide +kernel

theorem import_example :
    preprocess fs cwd 8 prog (render [] (A ++ [⟨[], .directive .import_ [] [] path [], nl⟩] ++ B)) [] =
      .ok ([RawOp.op (.op 0x00 none), .op (.op 0x5b none), .op (.op 0x58 none)],
           [.check ⟨true, ["b.etk"]⟩ true, .read ["b.etk"]]) := by
  have := preprocess_import_paste fs cwd prog [] [] [] A B F [] [] [] [] path nl wf_a wf_b
    [.op 0x00 none] [.op 0x58 none] [.op 0x5b none] rfl rfl rfl (by decide) ⟨[]⟩ ["b.etk"] ex_root ex_check ex_read 8 (by decide)
  rw [this, path_b]
  rfl

/-- the pasted program `stop⏎jumpdest⏎pc` is in the family -/
theorem wf_pasted : WF [] (A ++ F ++ B) := by
  refine ⟨(by intro b hb; cases hb), ?_, ?_⟩
  · intro x hx
    have h1 := wf_a.2.1
    have h2 := wf_b.2.1
    simp only [List.mem_append] at hx
    rcases hx with (hx | hx) | hx
    · exact h1 x (by simp [hx])
    · exact h2 x hx
    · exact h1 x (by simp [hx])
  · simp [A, F, B, OpenOnlyLast, nl, Layout.Term.isOpen]

end PasteExample

end FullText
end Asm
end EtkVerif
