/-
Lemmas about the ingestion model: containment of reads in the project root (C18)
and the meaning of the three directives (C12).
-/
import EtkVerif.Asm.Ingest
import EtkVerif.Asm.Spec
namespace EtkVerif
namespace Asm

/-- locations read, in order -/
def readsOf (tr : List Event) : List (List String) :=
  tr.filterMap (fun e => match e with | .read loc => some loc | _ => none)

/-- `Root::check` succeeds exactly when the path resolves to a location inside the
root; it reports a directory traversal exactly when the path resolves (the target
exists) outside the root; otherwise the path does not resolve at all. -/
theorem check_spec (fs : FS) (r : Root) (p : PathC) :
    (∀ loc, r.check fs p = .ok loc ↔ (fs.canon p = some loc ∧ startsWith loc r.canonicalized = true)) ∧
    (r.check fs p = .error .directoryTraversal ↔ ∃ loc, fs.canon p = some loc ∧ startsWith loc r.canonicalized = false) ∧
    (r.check fs p = .error (.io "canonicalizing include/import") ↔ fs.canon p = none) := by
  unfold Root.check
  cases hc : fs.canon p with
  | none => simp
  | some l =>
    cases hs : startsWith l r.canonicalized <;> simp [hs]

/-! ### the trace invariant, for the three mutually recursive functions at once -/

/-- one step of `nodesLoop`, with the trace produced by each kind of node -/
theorem nodesLoop_step (fs : FS) (cwd : PathC) (fuel : Nat) (prog : Program) (n : Node) (rest : List Node)
    (tr : List Event) (ops : List RawOp) (tr' : List Event)
    (h : nodesLoop fs cwd (fuel + 1) prog (n :: rest) tr = .ok (ops, tr')) :
    ∃ first more tr1, ops = first ++ more ∧ nodesLoop fs cwd fuel prog rest tr1 = .ok (more, tr') ∧
      (match n with
       | .op o => first = [.op o] ∧ tr1 = tr
       | .import_ path => resolveAndIngest fs cwd fuel prog path tr = .ok (first, tr1)
       | .include path => ∃ inner, resolveAndIngest fs cwd fuel prog path tr = .ok (inner, tr1) ∧
           first = [.scope (RawOps.ofList inner)]
       | .includeHex path => ∃ bytes r loc, first = [.raw bytes] ∧
           (match prog.root with
            | some r => Except.ok r
            | none => Root.new fs cwd (prog.sources.headD (PathC.ofString path))) = .ok r ∧
           r.check fs (cwd.join ((baseDir prog).join (PathC.ofString path))) = .ok loc ∧
           tr1 = tr ++ [.check (cwd.join ((baseDir prog).join (PathC.ofString path))) true] ++ [.read loc]) := by
  cases n with
  | op o =>
    simp only [nodesLoop] at h
    split at h
    · simp at h
    · rename_i more tr'' hrest
      simp only [Except.ok.injEq, Prod.mk.injEq] at h
      obtain ⟨rfl, rfl⟩ := h
      exact ⟨_, _, _, rfl, hrest, rfl, rfl⟩
  | import_ path =>
    simp only [nodesLoop] at h
    split at h
    · simp at h
    · rename_i first tr1 hone
      split at h
      · simp at h
      · rename_i more tr'' hrest
        simp only [Except.ok.injEq, Prod.mk.injEq] at h
        obtain ⟨rfl, rfl⟩ := h
        exact ⟨_, _, _, rfl, hrest, hone⟩
  | «include» path =>
    simp only [nodesLoop] at h
    cases hri : resolveAndIngest fs cwd fuel prog path tr with
    | error e => simp [hri] at h
    | ok v =>
      obtain ⟨inner, tr1⟩ := v
      simp only [hri] at h
      split at h
      · simp at h
      · rename_i more tr'' hrest
        simp only [Except.ok.injEq, Prod.mk.injEq] at h
        obtain ⟨rfl, rfl⟩ := h
        exact ⟨_, _, _, rfl, hrest, inner, hri, rfl⟩
  | includeHex path =>
    simp only [nodesLoop] at h
    have key : ∀ (root : Except IngErr Root), root = (match prog.root with
            | some r => Except.ok r
            | none => Root.new fs cwd (prog.sources.headD (PathC.ofString path))) →
        (match
          (match root with
          | Except.error e => Except.error e
          | Except.ok r =>
            match Root.check fs r (cwd.join ((baseDir prog).join (PathC.ofString path))) with
            | Except.error e => Except.error e
            | Except.ok loc =>
              match fs.readText loc with
              | none => Except.error (IngErr.io "reading hex include")
              | some text =>
                match hexDecode (trimCp text) with
                | none => Except.error IngErr.invalidHex
                | some bytes =>
                  Except.ok
                    ([RawOp.raw bytes],
                      tr ++ [Event.check (cwd.join ((baseDir prog).join (PathC.ofString path))) true] ++
                        [Event.read loc]) : Except IngErr (List RawOp × List Event)) with
          | Except.error e => Except.error e
          | Except.ok (ops, tr') =>
            match nodesLoop fs cwd fuel prog rest tr' with
            | Except.error e => Except.error e
            | Except.ok (more, tr'') => Except.ok (ops ++ more, tr'')) =
          Except.ok (ops, tr') →
        ∃ first more tr1, ops = first ++ more ∧ nodesLoop fs cwd fuel prog rest tr1 = .ok (more, tr') ∧
          ∃ bytes r loc, first = [.raw bytes] ∧ root = .ok r ∧
           r.check fs (cwd.join ((baseDir prog).join (PathC.ofString path))) = .ok loc ∧
           tr1 = tr ++ [.check (cwd.join ((baseDir prog).join (PathC.ofString path))) true] ++ [.read loc] := by
      intro root _ h
      cases root with
      | error e => simp at h
      | ok r =>
        simp only at h
        cases hck : Root.check fs r (cwd.join ((baseDir prog).join (PathC.ofString path))) with
        | error e => simp [hck] at h
        | ok loc =>
          simp only [hck] at h
          cases hrd : fs.readText loc with
          | none => simp [hrd] at h
          | some text =>
            simp only [hrd] at h
            cases hhx : hexDecode (trimCp text) with
            | none => simp [hhx] at h
            | some bytes =>
              simp only [hhx] at h
              split at h
              · simp at h
              · rename_i more tr'' hrest
                simp only [Except.ok.injEq, Prod.mk.injEq] at h
                obtain ⟨rfl, rfl⟩ := h
                exact ⟨_, _, _, rfl, hrest, bytes, r, loc, rfl, rfl, hck, rfl⟩
    obtain ⟨first, more, tr1, h1, h2, bytes, r, loc, h3, h4, h5, h6⟩ := key _ rfl h
    exact ⟨first, more, tr1, h1, h2, bytes, r, loc, h3, h4, h5, h6⟩

/-- well-formed trace extension: blocks `check p true, read loc` with `canon p = loc` and `ok loc` -/
inductive Tr (fs : FS) (ok : List String → Prop) : List Event → Prop
  | nil : Tr fs ok []
  | cons (p : PathC) (loc : List String) (rest : List Event) :
      fs.canon p = some loc → ok loc → Tr fs ok rest → Tr fs ok (.check p true :: .read loc :: rest)

theorem Tr.append {fs : FS} {ok : List String → Prop} {a b : List Event}
    (ha : Tr fs ok a) (hb : Tr fs ok b) : Tr fs ok (a ++ b) := by
  induction ha with
  | nil => simpa using hb
  | cons p loc rest hc ho _ ih => exact Tr.cons p loc _ hc ho ih

theorem Tr.mono {fs : FS} {ok ok' : List String → Prop} {a : List Event}
    (hm : ∀ l, ok l → ok' l) (ha : Tr fs ok a) : Tr fs ok' a := by
  induction ha with
  | nil => exact Tr.nil
  | cons p loc rest hc ho _ ih => exact Tr.cons p loc _ hc (hm _ ho) ih

theorem Tr.reads {fs : FS} {ok : List String → Prop} {a : List Event}
    (ha : Tr fs ok a) : ∀ loc ∈ readsOf a, ok loc := by
  induction ha with
  | nil => intro loc h; simp [readsOf] at h
  | cons p l rest hc ho _ ih =>
    intro loc h
    simp only [readsOf, List.filterMap_cons, List.mem_cons] at h
    rcases h with rfl | h
    · exact ho
    · exact ih loc h

theorem Tr.idx {fs : FS} {ok : List String → Prop} {a : List Event}
    (ha : Tr fs ok a) : ∀ (i : Nat) (loc : List String), a[i + 1]? = some (Event.read loc) →
      ∃ p, a[i]? = some (Event.check p true) ∧ fs.canon p = some loc := by
  induction ha with
  | nil => intro i loc h; simp at h
  | cons p l rest hc ho hr ih =>
    intro i loc h
    match i with
    | 0 =>
      simp at h
      subst h
      exact ⟨p, by simp, hc⟩
    | 1 =>
      simp at h
      cases hr with
      | nil => simp at h
      | cons => simp at h
    | i + 2 =>
      simp at h
      simpa using ih i loc h

def Ok (fs : FS) (cwd : PathC) (prog : Program) (loc : List String) : Prop :=
  ∃ r : Root, (prog.root = some r ∨
      (prog.root = none ∧ ∃ d, Root.new fs cwd (prog.sources.headD d) = .ok r)) ∧
    startsWith loc r.canonicalized = true

def Inv (fs : FS) (cwd : PathC) (prog : Program) (tr tr' : List Event) : Prop :=
  ∃ extra, tr' = tr ++ extra ∧ Tr fs (Ok fs cwd prog) extra

theorem Inv.refl (fs : FS) (cwd : PathC) (prog : Program) (tr : List Event) : Inv fs cwd prog tr tr :=
  ⟨[], by simp, Tr.nil⟩

theorem Inv.trans {fs : FS} {cwd : PathC} {prog : Program} {a b c : List Event}
    (h1 : Inv fs cwd prog a b) (h2 : Inv fs cwd prog b c) : Inv fs cwd prog a c := by
  obtain ⟨e1, rfl, t1⟩ := h1
  obtain ⟨e2, rfl, t2⟩ := h2
  exact ⟨e1 ++ e2, by simp, t1.append t2⟩

theorem root_check_ok (fs : FS) (cwd : PathC) (prog : Program) (d : PathC) (r : Root) (p : PathC)
    (loc : List String)
    (hroot : (match prog.root with
            | some r => Except.ok r
            | none => Root.new fs cwd (prog.sources.headD d)) = .ok r)
    (hck : r.check fs p = .ok loc) :
    fs.canon p = some loc ∧ Ok fs cwd prog loc ∧
      (∀ srcs l, Ok fs cwd { root := some r, sources := srcs } l → Ok fs cwd prog l) := by
  have hc := ((check_spec fs r p).1 loc).1 hck
  have hor : prog.root = some r ∨ (prog.root = none ∧ ∃ d, Root.new fs cwd (prog.sources.headD d) = .ok r) := by
    cases hr : prog.root with
    | some r0 => simp [hr] at hroot; simp [hroot]
    | none => simp only [hr] at hroot; exact Or.inr ⟨rfl, d, hroot⟩
  refine ⟨hc.1, ⟨r, hor, hc.2⟩, ?_⟩
  intro srcs l ⟨r', h', hs⟩
  have : r' = r := by
    rcases h' with h' | ⟨h', _⟩
    · simp at h'; exact h'.symm
    · simp at h'
  subst this
  exact ⟨r', hor, hs⟩

theorem resolveAndIngest_step (fs : FS) (cwd : PathC) (fuel : Nat) (prog : Program) (path : String)
    (tr : List Event) (ops : List RawOp) (tr' : List Event)
    (h : resolveAndIngest fs cwd (fuel + 1) prog path tr = .ok (ops, tr')) :
    ∃ r loc text, (match prog.root with
            | some r => Except.ok r
            | none => Root.new fs cwd (prog.sources.headD (PathC.ofString path))) = .ok r ∧
      r.check fs (cwd.join ((baseDir prog).join (PathC.ofString path))) = .ok loc ∧
      preprocess fs cwd fuel { root := some r, sources := prog.sources ++ [(baseDir prog).join (PathC.ofString path)] } text
        (tr ++ [.check (cwd.join ((baseDir prog).join (PathC.ofString path))) true] ++ [.read loc]) = .ok (ops, tr') := by
  simp only [resolveAndIngest] at h
  split at h
  · simp at h
  · have key : ∀ (root : Except IngErr Root),
        (match root with
          | Except.error e => Except.error e
          | Except.ok r =>
            match Root.check fs r (cwd.join ((baseDir prog).join (PathC.ofString path))) with
            | Except.error e => Except.error e
            | Except.ok loc =>
              match fs.readText loc with
              | none => Except.error (IngErr.io "reading file before parsing")
              | some text =>
                preprocess fs cwd fuel { root := some r, sources := prog.sources ++ [(baseDir prog).join (PathC.ofString path)] } text
                  (tr ++ [Event.check (cwd.join ((baseDir prog).join (PathC.ofString path))) true] ++ [Event.read loc])) =
          Except.ok (ops, tr') →
        ∃ r loc text, root = .ok r ∧
          r.check fs (cwd.join ((baseDir prog).join (PathC.ofString path))) = .ok loc ∧
          preprocess fs cwd fuel { root := some r, sources := prog.sources ++ [(baseDir prog).join (PathC.ofString path)] } text
            (tr ++ [.check (cwd.join ((baseDir prog).join (PathC.ofString path))) true] ++ [.read loc]) = .ok (ops, tr') := by
      intro root h
      cases root with
      | error e => simp at h
      | ok r =>
        simp only at h
        cases hck : Root.check fs r (cwd.join ((baseDir prog).join (PathC.ofString path))) with
        | error e => simp [hck] at h
        | ok loc =>
          simp only [hck] at h
          cases hrd : fs.readText loc with
          | none => simp [hrd] at h
          | some text =>
            simp only [hrd] at h
            exact ⟨r, loc, text, rfl, hck, h⟩
    exact key _ h

/-- `resolveAndIngest_step` with the read made explicit: the text handed to `preprocess` is the content of the checked
location -/
theorem resolveAndIngest_step_read (fs : FS) (cwd : PathC) (fuel : Nat) (prog : Program) (path : String)
    (tr : List Event) (ops : List RawOp) (tr' : List Event)
    (h : resolveAndIngest fs cwd (fuel + 1) prog path tr = .ok (ops, tr')) :
    ∃ r loc text, (match prog.root with
            | some r => Except.ok r
            | none => Root.new fs cwd (prog.sources.headD (PathC.ofString path))) = .ok r ∧
      r.check fs (cwd.join ((baseDir prog).join (PathC.ofString path))) = .ok loc ∧
      fs.readText loc = some text ∧
      preprocess fs cwd fuel { root := some r, sources := prog.sources ++ [(baseDir prog).join (PathC.ofString path)] } text
        (tr ++ [.check (cwd.join ((baseDir prog).join (PathC.ofString path))) true] ++ [.read loc]) = .ok (ops, tr') := by
  simp only [resolveAndIngest] at h
  split at h
  · simp at h
  · have key : ∀ (root : Except IngErr Root),
        (match root with
          | Except.error e => Except.error e
          | Except.ok r =>
            match Root.check fs r (cwd.join ((baseDir prog).join (PathC.ofString path))) with
            | Except.error e => Except.error e
            | Except.ok loc =>
              match fs.readText loc with
              | none => Except.error (IngErr.io "reading file before parsing")
              | some text =>
                preprocess fs cwd fuel { root := some r, sources := prog.sources ++ [(baseDir prog).join (PathC.ofString path)] } text
                  (tr ++ [Event.check (cwd.join ((baseDir prog).join (PathC.ofString path))) true] ++ [Event.read loc])) =
          Except.ok (ops, tr') →
        ∃ r loc text, root = .ok r ∧
          r.check fs (cwd.join ((baseDir prog).join (PathC.ofString path))) = .ok loc ∧
          fs.readText loc = some text ∧
          preprocess fs cwd fuel { root := some r, sources := prog.sources ++ [(baseDir prog).join (PathC.ofString path)] } text
            (tr ++ [.check (cwd.join ((baseDir prog).join (PathC.ofString path))) true] ++ [.read loc]) = .ok (ops, tr') := by
      intro root h
      cases root with
      | error e => simp at h
      | ok r =>
        simp only at h
        cases hck : Root.check fs r (cwd.join ((baseDir prog).join (PathC.ofString path))) with
        | error e => simp [hck] at h
        | ok loc =>
          simp only [hck] at h
          cases hrd : fs.readText loc with
          | none => simp [hrd] at h
          | some text =>
            simp only [hrd] at h
            exact ⟨r, loc, text, rfl, hck, hrd, h⟩
    exact key _ h

theorem main_inv (fs : FS) (cwd : PathC) : ∀ fuel : Nat,
    (∀ prog src tr ops tr', preprocess fs cwd fuel prog src tr = .ok (ops, tr') → Inv fs cwd prog tr tr') ∧
    (∀ prog nodes tr ops tr', nodesLoop fs cwd fuel prog nodes tr = .ok (ops, tr') → Inv fs cwd prog tr tr') ∧
    (∀ prog path tr ops tr', resolveAndIngest fs cwd fuel prog path tr = .ok (ops, tr') → Inv fs cwd prog tr tr') := by
  intro fuel
  induction fuel with
  | zero =>
    refine ⟨?_, ?_, ?_⟩ <;> intro prog x tr ops tr' h
    · simp [preprocess] at h
    · simp [nodesLoop] at h
    · simp [resolveAndIngest] at h
  | succ fuel ih =>
    obtain ⟨ihP, ihN, ihR⟩ := ih
    have block : ∀ (prog : Program) (d : PathC) (r : Root) (p : PathC) (loc : List String) (tr : List Event),
        (match prog.root with
            | some r => Except.ok r
            | none => Root.new fs cwd (prog.sources.headD d)) = .ok r →
        r.check fs p = .ok loc →
        Inv fs cwd prog tr (tr ++ [.check p true] ++ [.read loc]) := by
      intro prog d r p loc tr hroot hck
      obtain ⟨h1, h2, _⟩ := root_check_ok fs cwd prog d r p loc hroot hck
      exact ⟨[.check p true, .read loc], by simp, Tr.cons p loc [] h1 h2 Tr.nil⟩
    refine ⟨?_, ?_, ?_⟩
    · intro prog src tr ops tr' h
      simp only [preprocess] at h
      split at h
      · simp at h
      · exact ihN _ _ _ _ _ h
    · intro prog nodes tr ops tr' h
      cases nodes with
      | nil =>
        simp only [nodesLoop, Except.ok.injEq, Prod.mk.injEq] at h
        obtain ⟨_, rfl⟩ := h
        exact Inv.refl ..
      | cons n rest =>
        obtain ⟨first, more, tr1, _, hrest, hn⟩ := nodesLoop_step fs cwd fuel prog n rest tr ops tr' h
        refine Inv.trans ?_ (ihN _ _ _ _ _ hrest)
        cases n with
        | op o => obtain ⟨_, rfl⟩ := hn; exact Inv.refl ..
        | import_ path => exact ihR _ _ _ _ _ hn
        | «include» path => obtain ⟨inner, hn, _⟩ := hn; exact ihR _ _ _ _ _ hn
        | includeHex path =>
          obtain ⟨bytes, r, loc, _, hroot, hck, rfl⟩ := hn
          exact block prog _ r _ loc tr hroot hck
    · intro prog path tr ops tr' h
      obtain ⟨r, loc, text, hroot, hck, hp⟩ := resolveAndIngest_step fs cwd fuel prog path tr ops tr' h
      refine Inv.trans (block prog _ r _ loc tr hroot hck) ?_
      obtain ⟨_, _, hmono⟩ := root_check_ok fs cwd prog _ r _ loc hroot hck
      obtain ⟨extra, he, ht⟩ := ihP _ _ _ _ _ hp
      exact ⟨extra, he, ht.mono (hmono _)⟩

/-- C18 (trace invariant).  Whatever the sources contain, at any nesting depth,
every file `preprocess` reads lies inside the root the program was created with
(or determines on its first directive): each new read location has the root's
canonical location as a component-wise prefix. -/
theorem preprocess_contained (fs : FS) (cwd : PathC) (fuel : Nat) (prog : Program) (src : List Nat)
    (tr : List Event) (ops : List RawOp) (tr' : List Event)
    (h : preprocess fs cwd fuel prog src tr = .ok (ops, tr')) :
    ∃ extra, tr' = tr ++ extra ∧
      ∀ loc ∈ readsOf extra, ∃ r : Root,
        (prog.root = some r ∨ (prog.root = none ∧ ∃ p, Root.new fs cwd p = .ok r)) ∧
        startsWith loc r.canonicalized = true := by
  obtain ⟨extra, he, ht⟩ := (main_inv fs cwd fuel).1 prog src tr ops tr' h
  refine ⟨extra, he, fun loc hl => ?_⟩
  obtain ⟨r, hr, hs⟩ := ht.reads loc hl
  refine ⟨r, ?_, hs⟩
  rcases hr with hr | ⟨hr, d, hd⟩
  · exact Or.inl hr
  · exact Or.inr ⟨hr, _, hd⟩

/-- … and every read is immediately preceded by the successful check of a path
resolving to that very location. -/
theorem preprocess_checked (fs : FS) (cwd : PathC) (fuel : Nat) (prog : Program) (src : List Nat)
    (tr : List Event) (ops : List RawOp) (tr' : List Event)
    (h : preprocess fs cwd fuel prog src tr = .ok (ops, tr')) :
    ∃ extra, tr' = tr ++ extra ∧
      ∀ (i : Nat) (loc : List String), extra[i + 1]? = some (Event.read loc) →
        ∃ p, extra[i]? = some (Event.check p true) ∧ fs.canon p = some loc := by
  obtain ⟨extra, he, ht⟩ := (main_inv fs cwd fuel).1 prog src tr ops tr' h
  exact ⟨extra, he, ht.idx⟩

/-- C18 for `ingest_file`: everything read besides the top-level source itself lies
inside the directory of the top-level source; on any error nothing is output
(the result type has no bytes in the error case). -/
theorem ingestFile_contained (fs : FS) (cwd : PathC) (rnd : Nat → Nat) (fuel : Nat) (path : PathC)
    (bytes : List Nat) (tr : List Event) (h : ingestFile fs cwd rnd fuel path = .ok (bytes, tr)) :
    ∀ loc ∈ readsOf tr, ∃ r, Root.new fs cwd path = .ok r ∧ startsWith loc r.canonicalized = true := by
  unfold ingestFile at h
  split at h
  · simp at h
  · split at h
    · simp at h
    · simp only at h
      split at h
      · simp at h
      · rename_i ops tr0 hp
        split at h
        · simp at h
        · simp only [Except.ok.injEq, Prod.mk.injEq] at h
          obtain ⟨_, rfl⟩ := h
          obtain ⟨extra, he, ht⟩ := (main_inv fs cwd fuel).1 _ _ _ _ _ hp
          simp only [List.nil_append] at he
          subst he
          intro loc hl
          obtain ⟨r, hr, hs⟩ := ht.reads loc hl
          refine ⟨r, ?_, hs⟩
          rcases hr with hr | ⟨_, d, hd⟩
          · cases hn : Root.new fs cwd path with
            | error e => simp [hn, Except.toOption] at hr
            | ok r0 => simp [hn, Except.toOption] at hr; rw [hr]
          · simpa using hd

/-! ### C12: what the directives contribute -/

/-- `%import`: the imported file's items are spliced in place; `%include`: they
form one nested scope; `%include_hex`: the decoded bytes, verbatim. -/
theorem nodesLoop_directive (fs : FS) (cwd : PathC) (fuel : Nat) (prog : Program) (n : Node) (rest : List Node)
    (tr : List Event) (ops : List RawOp) (tr' : List Event)
    (h : nodesLoop fs cwd (fuel + 1) prog (n :: rest) tr = .ok (ops, tr')) :
    ∃ first more tr1, ops = first ++ more ∧ nodesLoop fs cwd fuel prog rest tr1 = .ok (more, tr') ∧
      (match n with
       | .op o => first = [.op o] ∧ tr1 = tr
       | .import_ path => resolveAndIngest fs cwd fuel prog path tr = .ok (first, tr1)
       | .include path => ∃ inner, resolveAndIngest fs cwd fuel prog path tr = .ok (inner, tr1) ∧
           first = [.scope (RawOps.ofList inner)]
       | .includeHex _ => ∃ bytes, first = [.raw bytes]) := by
  obtain ⟨first, more, tr1, h1, h2, hn⟩ := nodesLoop_step fs cwd fuel prog n rest tr ops tr' h
  refine ⟨first, more, tr1, h1, h2, ?_⟩
  cases n with
  | op o => exact hn
  | import_ path => exact hn
  | «include» path => exact hn
  | includeHex path =>
    obtain ⟨bytes, _, _, hb, _⟩ := hn
    exact ⟨bytes, hb⟩

/-- A nested scope contributes exactly the bytes it assembles to on its own
(its own macro table, labels counted from zero), whatever surrounds it. -/
theorem scope_is_standalone (rnd : Nat → Nat) (fuel : Nat) (ms : List (String × MacroDef)) (depth k : Nat)
    (ops : RawOps) (bytes : List Nat) (k' : Nat)
    (h : Spec.assembleScope rnd fuel k ops = .ok (bytes, k')) :
    Spec.flattenOp rnd (fuel + 1) ms depth k (.scope ops) = .ok ([.raw bytes], k') := by
  simp [Spec.flattenOp, h]

end Asm
end EtkVerif
