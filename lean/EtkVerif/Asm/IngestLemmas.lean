/-
Lemmas about the ingestion model: containment of reads in the project root (C18)
and the meaning of the three directives (C12).
-/
import EtkVerif.Asm.Ingest
import EtkVerif.Asm.Spec
namespace EtkVerif
namespace Asm

/-- locations read, in order -/
def readsOf (tr : List Event) : List (List String) :=
  tr.filterMap (fun e => match e with | .read loc => some loc | _ => none)

/-- `Root::check` succeeds exactly when the path resolves to a location inside the
root; it reports a directory traversal exactly when the path resolves (the target
exists) outside the root; otherwise the path does not resolve at all. -/
theorem check_spec (fs : FS) (r : Root) (p : PathC) :
    (∀ loc, r.check fs p = .ok loc ↔ (fs.canon p = some loc ∧ startsWith loc r.canonicalized = true)) ∧
    (r.check fs p = .error .directoryTraversal ↔ ∃ loc, fs.canon p = some loc ∧ startsWith loc r.canonicalized = false) ∧
    (r.check fs p = .error (.io "canonicalizing include/import") ↔ fs.canon p = none) := by
  sorry

/-- C18 (trace invariant).  Whatever the sources contain, at any nesting depth,
every file `preprocess` reads lies inside the root the program was created with
(or determines on its first directive): each new read location has the root's
canonical location as a component-wise prefix. -/
theorem preprocess_contained (fs : FS) (cwd : PathC) (fuel : Nat) (prog : Program) (src : List Nat)
    (tr : List Event) (ops : List RawOp) (tr' : List Event)
    (h : preprocess fs cwd fuel prog src tr = .ok (ops, tr')) :
    ∃ extra, tr' = tr ++ extra ∧
      ∀ loc ∈ readsOf extra, ∃ r : Root,
        (prog.root = some r ∨ (prog.root = none ∧ ∃ p, Root.new fs cwd p = .ok r)) ∧
        startsWith loc r.canonicalized = true := by
  sorry

/-- … and every read is immediately preceded by the successful check of a path
resolving to that very location. -/
theorem preprocess_checked (fs : FS) (cwd : PathC) (fuel : Nat) (prog : Program) (src : List Nat)
    (tr : List Event) (ops : List RawOp) (tr' : List Event)
    (h : preprocess fs cwd fuel prog src tr = .ok (ops, tr')) :
    ∃ extra, tr' = tr ++ extra ∧
      ∀ (i : Nat) (loc : List String), extra[i + 1]? = some (Event.read loc) →
        ∃ p, extra[i]? = some (Event.check p true) ∧ fs.canon p = some loc := by
  sorry

/-- C18 for `ingest_file`: everything read besides the top-level source itself lies
inside the directory of the top-level source; on any error nothing is output
(the result type has no bytes in the error case). -/
theorem ingestFile_contained (fs : FS) (cwd : PathC) (rnd : Nat → Nat) (fuel : Nat) (path : PathC)
    (bytes : List Nat) (tr : List Event) (h : ingestFile fs cwd rnd fuel path = .ok (bytes, tr)) :
    ∀ loc ∈ readsOf tr, ∃ r, Root.new fs cwd path = .ok r ∧ startsWith loc r.canonicalized = true := by
  sorry

/-! ### C12: what the directives contribute -/

/-- `%import`: the imported file's items are spliced in place; `%include`: they
form one nested scope; `%include_hex`: the decoded bytes, verbatim. -/
theorem nodesLoop_directive (fs : FS) (cwd : PathC) (fuel : Nat) (prog : Program) (n : Node) (rest : List Node)
    (tr : List Event) (ops : List RawOp) (tr' : List Event)
    (h : nodesLoop fs cwd (fuel + 1) prog (n :: rest) tr = .ok (ops, tr')) :
    ∃ first more tr1, ops = first ++ more ∧ nodesLoop fs cwd fuel prog rest tr1 = .ok (more, tr') ∧
      (match n with
       | .op o => first = [.op o] ∧ tr1 = tr
       | .import_ path => resolveAndIngest fs cwd fuel prog path tr = .ok (first, tr1)
       | .include path => ∃ inner, resolveAndIngest fs cwd fuel prog path tr = .ok (inner, tr1) ∧
           first = [.scope (RawOps.ofList inner)]
       | .includeHex _ => ∃ bytes, first = [.raw bytes]) := by
  sorry

/-- A nested scope contributes exactly the bytes it assembles to on its own
(its own macro table, labels counted from zero), whatever surrounds it. -/
theorem scope_is_standalone (rnd : Nat → Nat) (fuel : Nat) (ms : List (String × MacroDef)) (depth k : Nat)
    (ops : RawOps) (bytes : List Nat) (k' : Nat)
    (h : Spec.assembleScope rnd fuel k ops = .ok (bytes, k')) :
    Spec.flattenOp rnd (fuel + 1) ms depth k (.scope ops) = .ok ([.raw bytes], k') := by
  sorry

end Asm
end EtkVerif
