/-
The statements that may stand in a macro body (plain instructions, `pushN <expr>`,
`%push(<expr>)`, label definitions, macro invocations `%name( args )`) through the rule
`stmt` (top level) and through the rule `instruction_macro_stmt` (inside a macro body),
and the walk of `parse_asm` on their pairs.  Part 1: the two rules from the results of
their alternatives, label definitions, invocations.
-/
import EtkVerif.Asm.FullTextSeq
import EtkVerif.Asm.FullTextWalk
namespace EtkVerif
namespace Asm
namespace FullText
open Pest Listing ExprText
open Layout (Suf Gap commentText STail LineEnd)

variable {text : List Nat}

/-! ### the two statement rules from their alternatives -/

def pct19 : PE := .seq (.str [37]) (.ref 19)
def imsBody : PE := .alt (.alt (.alt (.alt (.ref 40) pct19) (.ref 14)) (.ref 4)) (.ref 3)
def lmAlts : PE := .alt (.alt (.ref 10) (.ref 13)) (.ref 25)
def lmBody : PE := .seq (.neg (.ref 15)) lmAlts

theorem sgr11 (text : List Nat) : (envOf text).g[11]? =
    some ⟨11, [105, 110, 115, 116, 114, 117, 99, 116, 105, 111, 110, 95, 109, 97, 99, 114, 111, 95, 115, 116, 109, 116],
      .silent, imsBody⟩ := rfl
theorem sgr13 (text : List Nat) : (envOf text).g[13]? =
    some ⟨13, [105, 110, 115, 116, 114, 117, 99, 116, 105, 111, 110, 95, 109, 97, 99, 114, 111], .nonatomic,
      (.seq (.str [37]) (.ref 31))⟩ := rfl
theorem sgr14 (text : List Nat) : (envOf text).g[14]? =
    some ⟨14, [108, 111, 99, 97, 108, 95, 109, 97, 99, 114, 111], .normal, lmBody⟩ := rfl
theorem sgr10 (text : List Nat) : (envOf text).g[10]? =
    some ⟨10, [105, 110, 115, 116, 114, 117, 99, 116, 105, 111, 110, 95, 109, 97, 99, 114, 111, 95, 100, 101, 102, 105, 110, 105, 116, 105, 111, 110], .normal,
      (.seq (.seq (.seq (.seq (.str [37, 109, 97, 99, 114, 111]) (.ref 30)) (.star (.ref 1003))) (.star (.seq (.ref 11) (.plus (.ref 1003))))) (.str [37, 101, 110, 100]))⟩ := rfl

section rules
variable {S d : Nat} {x : Nat × List Pair}

theorem win40 (h40 : Ev (envOf text) d (.ref 40) .nonAtomic false S (some x)) :
    Ev (envOf text) (d + 6) (.ref 2) .nonAtomic false S (some x) ∧
    Ev (envOf text) (d + 6) (.ref 11) .nonAtomic false S (some x) :=
  ⟨Layout.ev_stmt (Ev.alt_l (Ev.alt_l (Ev.alt_l (Ev.alt_l h40 (d := d) (b := .ref 15)) (d := d + 1) (b := .ref 14))
    (d := d + 2) (b := .ref 4)) (d := d + 3) (b := .ref 3)) (d := d + 4),
   evr (sgr11 text) (by omega) (Ev.alt_l (Ev.alt_l (Ev.alt_l (Ev.alt_l h40 (d := d) (b := pct19)) (d := d + 1)
    (b := .ref 14)) (d := d + 2) (b := .ref 4)) (d := d + 3) (b := .ref 3)) (d := d + 4)⟩

theorem win14 (f40 : Ev (envOf text) d (.ref 40) .nonAtomic false S none)
    (f15 : Ev (envOf text) d (.ref 15) .nonAtomic false S none)
    (f19 : Ev (envOf text) d pct19 .nonAtomic false S none)
    (h14 : Ev (envOf text) d (.ref 14) .nonAtomic false S (some x)) :
    Ev (envOf text) (d + 6) (.ref 2) .nonAtomic false S (some x) ∧
    Ev (envOf text) (d + 6) (.ref 11) .nonAtomic false S (some x) :=
  ⟨Layout.ev_stmt (Ev.alt_l (Ev.alt_l (Ev.alt_r (Ev.alt_r f40 f15 (d := d)) h14 (d := d + 1))
    (d := d + 2) (b := .ref 4)) (d := d + 3) (b := .ref 3)) (d := d + 4),
   evr (sgr11 text) (by omega) (Ev.alt_l (Ev.alt_l (Ev.alt_r (Ev.alt_r f40 f19 (d := d)) h14 (d := d + 1))
    (d := d + 2) (b := .ref 4)) (d := d + 3) (b := .ref 3)) (d := d + 4)⟩

theorem win4 (f40 : Ev (envOf text) d (.ref 40) .nonAtomic false S none)
    (f15 : Ev (envOf text) d (.ref 15) .nonAtomic false S none)
    (f19 : Ev (envOf text) d pct19 .nonAtomic false S none)
    (f14 : Ev (envOf text) d (.ref 14) .nonAtomic false S none)
    (h4 : Ev (envOf text) d (.ref 4) .nonAtomic false S (some x)) :
    Ev (envOf text) (d + 6) (.ref 2) .nonAtomic false S (some x) ∧
    Ev (envOf text) (d + 6) (.ref 11) .nonAtomic false S (some x) :=
  ⟨Layout.ev_stmt (Ev.alt_l (Ev.alt_r (Ev.alt_r (Ev.alt_r f40 f15 (d := d)) f14 (d := d + 1)) h4
    (d := d + 2)) (d := d + 3) (b := .ref 3)) (d := d + 4),
   evr (sgr11 text) (by omega) (Ev.alt_l (Ev.alt_r (Ev.alt_r (Ev.alt_r f40 f19 (d := d)) f14 (d := d + 1)) h4
    (d := d + 2)) (d := d + 3) (b := .ref 3)) (d := d + 4)⟩

theorem win3 (f40 : Ev (envOf text) d (.ref 40) .nonAtomic false S none)
    (f15 : Ev (envOf text) d (.ref 15) .nonAtomic false S none)
    (f19 : Ev (envOf text) d pct19 .nonAtomic false S none)
    (f14 : Ev (envOf text) d (.ref 14) .nonAtomic false S none)
    (f4 : Ev (envOf text) d (.ref 4) .nonAtomic false S none)
    (h3 : Ev (envOf text) d (.ref 3) .nonAtomic false S (some x)) :
    Ev (envOf text) (d + 6) (.ref 2) .nonAtomic false S (some x) ∧
    Ev (envOf text) (d + 6) (.ref 11) .nonAtomic false S (some x) :=
  ⟨Layout.ev_stmt (Ev.alt_r (Ev.alt_r (Ev.alt_r (Ev.alt_r f40 f15 (d := d)) f14 (d := d + 1)) f4
    (d := d + 2)) h3 (d := d + 3)) (d := d + 4),
   evr (sgr11 text) (by omega) (Ev.alt_r (Ev.alt_r (Ev.alt_r (Ev.alt_r f40 f19 (d := d)) f14 (d := d + 1)) f4
    (d := d + 2)) h3 (d := d + 3)) (d := d + 4)⟩

end rules

/-- a statement that starts with a letter is not `"%" ~ push_macro` -/
theorem pct19_fail_letter {S c : Nat} {t : List Nat} (hs : Suf text S (c :: t)) (hc : c ≠ 37) :
    Ev (envOf text) 2 pct19 .nonAtomic false S none :=
  Ev.seq_fail1 (ev_str_fail hs (by have : (37 : Nat) ≠ c := fun h => hc h.symm
                                   simp [List.isPrefixOf, this])) (d := 1)

/-- negative look-ahead over a failing expression -/
theorem sev_neg {env : Env} {a : PE} {at_ : Atom} {la : Bool} {p d1 d : Nat}
    (ha : Ev env d1 a at_ true p none) (h1 : d1 ≤ d := by omega) :
    Ev env (d + 1) (.neg a) at_ la p (some (p, [])) := by
  intro f hf
  obtain ⟨f, rfl⟩ : ∃ f', f = f' + 1 := ⟨f - 1, by omega⟩
  rw [matchE.eq_9, ha f (by omega)]

/-- the walk on a top-level plain statement from the walk on the same pair as a body statement -/
theorem nodeOK_of_aop {pr : Pair} {b : BStmt} (h1 : pr.rule ≠ Pest.EOI) (h2 : pr.rule ≠ Gen.R_builtin)
    (h3 : pr.rule ≠ Gen.R_push_macro) (h : AopOK text pr b) : NodeOK text pr (.plain b) := by
  refine ⟨h1, fun f hf => ?_⟩
  have := h f (by omega)
  rw [if_neg h3] at this
  rw [if_neg h2, this]
  rfl

/-! ### label definitions -/

theorem label_facts (name gap : List Nat) (hn : IsLabel name) (hgap : ExprText.IsBlanks gap) :
    StmtFact text (.plain (.label name gap)) ∧ BodyFact text (.label name gap) := by
  have key : ∀ S B c s, Suf text S ((BStmt.label name gap).text ++ (B ++ commentText c ++ s)) → Gap B c s →
      ∃ e pr, (Ev (envOf text) (text.length + 50) (.ref 2) .nonAtomic false S (some (e, [pr])) ∧
        Ev (envOf text) (text.length + 50) (.ref 11) .nonAtomic false S (some (e, [pr]))) ∧
        Sk (envOf text) (text.length + 100) .nonAtomic e
          (S + (BStmt.label name gap).text.length + B.length + (commentText c).length) ∧
        AopOK text pr (.label name gap) ∧ pr.rule = 40 := by
    intro S B c s hs hg
    obtain ⟨c0, run, rfl, hc0, hrun⟩ := isLabel_split hn
    obtain ⟨hG, hC⟩ := ProgText.gap_gapG hg
    obtain ⟨X, hX⟩ : ∃ X, X = B ++ commentText c ++ s := ⟨_, rfl⟩
    rw [← hX] at hs
    have hs' : Suf text S (c0 :: (run ++ (gap ++ 58 :: X))) := by
      have := hs
      simp only [BStmt.text, List.append_assoc, List.cons_append, List.nil_append] at this
      exact this
    have hstop : headIs isLb (gap ++ 58 :: X) = false := by
      cases gap with
      | nil => rfl
      | cons g0 gs => rcases hgap g0 (by simp) with h | h <;> subst h <;> rfl
    have h39 := ev39_ok hs' hc0 hrun hstop
    have hs1 : Suf text (S + 1 + run.length) (gap ++ 58 :: X) := hs'.tail.app
    have hsk := skip_blanks gap hgap hs1 (by simp [NonBlank])
    have hs2 : Suf text (S + 1 + run.length + gap.length) (58 :: X) := hs1.app
    have h58 : Ev (envOf text) 1 (.str [58]) .nonAtomic false (S + 1 + run.length + gap.length)
        (some (S + 1 + run.length + gap.length + 1, [])) := ev_str_ok (pat := [58]) (s := X) hs2
    have hs3 : Suf text (S + 1 + run.length + gap.length + 1) ((B ++ commentText c) ++ s) := by
      rw [← hX]; exact hs2.tail
    have hlen := hs3.len
    simp only [List.length_append] at hlen
    have hbody := Ev.seq h39 hsk h58 (d := run.length + gap.length + 30)
    have h40 := evr (Layout.g40 text) (by omega) hbody (d := run.length + gap.length + 31) (at_ := .nonAtomic)
    have hw := win40 (h40.mono (by omega : run.length + gap.length + 31 + 2 ≤ text.length + 44))
    have hsk2 := skip_gapG hG hs3
    have etl : (BStmt.label (c0 :: run) gap).text.length = 1 + run.length + gap.length + 1 := by
      simp only [BStmt.text, List.length_append, List.length_cons, List.length_nil]; omega
    refine ⟨_, _, hw, ?_, ?_, rfl⟩
    · rw [etl, List.length_append] at *
      have e : S + (1 + run.length + gap.length + 1) + B.length + (commentText c).length =
          S + 1 + run.length + gap.length + 1 + (B.length + (commentText c).length) := by omega
      rw [e]; exact hsk2.mono (by omega)
    · intro f hf
      obtain ⟨f, rfl⟩ : ∃ f', f = f' + 1 := ⟨f - 1, by omega⟩
      have ht : txt text.toArray (.mk 39 S (S + 1 + run.length) []) = c0 :: run := by
        have := txt_suf (y := c0 :: run) (z := gap ++ 58 :: X) hs' 39 []
        rwa [List.length_cons, Nat.add_comm run.length 1, ← Nat.add_assoc] at this
      rw [parseAOp]
      simp [rule_mk, kids_mk, Gen.R_local_macro, Gen.R_label_definition, Gen.R_push_macro, ht, BStmt.aop]
  constructor
  · intro S B c s hs hg
    obtain ⟨e, pr, hw, hsk, hA, hr⟩ := key S B c s hs hg
    exact ⟨e, pr, hw.1.mono (by omega), hsk.mono (by omega),
      nodeOK_of_aop (by rw [hr]; decide) (by rw [hr]; decide) (by rw [hr]; decide) hA⟩
  · intro S B c s hs hg
    obtain ⟨e, pr, hw, hsk, hA, hr⟩ := key S B c s hs hg
    exact ⟨e, pr, hw.2.mono (by omega), hsk.mono (by omega), hA⟩

/-! ### reserved names -/

theorem prefix_app_stop : ∀ (pat n rest : List Nat), (∀ c ∈ pat, isLb c = true) → pat ≠ [] →
    headIs isLb rest = false → pat.isPrefixOf n = false → pat.isPrefixOf (n ++ rest) = false
  | [], _, _, _, h, _, _ => absurd rfl h
  | p0 :: ps, [], rest, hp, _, hr, _ => by
    cases rest with
    | nil => simp
    | cons r0 rs =>
      have h0 : isLb p0 = true := hp p0 (by simp)
      have : p0 ≠ r0 := fun h => by rw [h] at h0; simp only [headIs_cons] at hr; rw [hr] at h0; cases h0
      simp [List.isPrefixOf, this]
  | p0 :: ps, n0 :: ns, rest, hp, _, hr, hn => by
    simp only [List.cons_append, List.isPrefixOf, Bool.and_eq_false_iff] at hn ⊢
    rcases hn with h | h
    · exact Or.inl h
    · cases ps with
      | nil => simp [List.isPrefixOf] at h
      | cons p1 ps' =>
        exact Or.inr (prefix_app_stop (p1 :: ps') ns rest (fun c hc => hp c (by simp [hc])) (by simp) hr h)

theorem not_prefix_append {a b l : List Nat} (h : a.isPrefixOf l = false) : (a ++ b).isPrefixOf l = false := by
  cases hh : (a ++ b).isPrefixOf l with
  | false => rfl
  | true =>
    rw [List.isPrefixOf_iff_prefix] at hh
    have : a <+: l := (List.prefix_append a b).trans hh
    rw [← List.isPrefixOf_iff_prefix] at this
    rw [this] at h; cases h

theorem reserved_facts {n : List Nat} (h : reservedName n = false) :
    n ≠ [112, 117, 115, 104] ∧ n ≠ [105, 109, 112, 111, 114, 116] ∧ n ≠ [105, 110, 99, 108, 117, 100, 101] ∧
    n ≠ [105, 110, 99, 108, 117, 100, 101, 95, 104, 101, 120] ∧
    List.isPrefixOf [109, 97, 99, 114, 111] n = false ∧ List.isPrefixOf [100, 101, 102] n = false := by
  simp only [reservedName, Bool.or_eq_false_iff, beq_eq_false_iff_ne] at h
  exact ⟨h.1.1.1.1.1, h.1.1.1.1.2, h.1.1.1.2, h.1.1.2, h.1.2, h.2⟩

theorem isLb_of_isFn {c : Nat} (h : isFn c = true) : isLb c = true := by
  simp only [isFn, isAl, isLb, isAn, Bool.or_eq_true, Bool.and_eq_true, decide_eq_true_eq, beq_iff_eq] at h ⊢
  omega

theorem isLb_facts {c : Nat} (h : isLb c = true) : NonBlank c ∧ c ≠ 40 := by
  simp only [isLb, isAn, Bool.or_eq_true, Bool.and_eq_true, decide_eq_true_eq, beq_iff_eq] at h
  refine ⟨⟨?_, ?_, ?_⟩, ?_⟩ <;> omega

/-- a builtin word followed by `arguments` fails on a name that is not exactly the word: either the literal does not
match, or it does, the implicit skip eats nothing (the name goes on), and `arguments` fails on a name character -/
theorem word_fail {pat name rest : List Nat} {S : Nat} {la : Bool}
    (hpat : ∀ c ∈ pat, isLb c = true) (hne : pat ≠ []) (hname : ∀ c ∈ name, isLb c = true)
    (hstop : headIs isLb rest = false) (hneq : name ≠ pat) (hs : Suf text S (name ++ rest)) :
    Ev (envOf text) 40 (.seq (.str pat) (.ref 20)) .nonAtomic la S none := by
  cases hp : pat.isPrefixOf name with
  | false =>
    exact (Ev.seq_fail1 (ev_str_fail hs (prefix_app_stop pat name rest hpat hne hstop hp)) (d := 1)).mono (by omega)
  | true =>
    rw [List.isPrefixOf_iff_prefix] at hp
    obtain ⟨t, rfl⟩ := hp
    cases t with
    | nil => exact absurd (List.append_nil pat) hneq
    | cons c tl =>
      obtain ⟨hnb, h40⟩ := isLb_facts (hname c (by simp))
      have hs' : Suf text S (pat ++ (c :: (tl ++ rest))) := by
        simpa only [List.append_assoc, List.cons_append] using hs
      have h1 : Ev (envOf text) 1 (.str pat) .nonAtomic la S (some (S + pat.length, [])) := ev_str_ok hs'
      have hs2 : Suf text (S + pat.length) (c :: (tl ++ rest)) := hs'.app
      have hsk : Sk (envOf text) 30 .nonAtomic (S + pat.length) (S + pat.length) := skip_none hs2 hnb
      have f40 : Ev (envOf text) 1 (.str [40]) .nonAtomic la (S + pat.length) none :=
        ev_str_fail hs2 (by have : (40 : Nat) ≠ c := fun h => h40 h.symm
                            simp [List.isPrefixOf, this])
      have f20 : Ev (envOf text) 5 (.ref 20) .nonAtomic la (S + pat.length) none :=
        evr (gr20 text) (by omega) (Ev.seq_fail1 (Ev.seq_fail1 f40 (d := 1)) (d := 2)) (d := 3)
      exact (Ev.seq_fail2 h1 hsk f20 (d := 30)).mono (by omega)

/-! ### macro invocations `%name gap ( args )` -/

theorem invoke_facts (name gap : List Nat) (args : XArgs) (hwf : (BStmt.invoke name gap args).WF) :
    StmtFact text (.plain (.invoke name gap args)) ∧ BodyFact text (.invoke name gap args) := by
  obtain ⟨hn, hres, hgap, hwa⟩ := hwf
  have key : ∀ S B c s, Suf text S ((BStmt.invoke name gap args).text ++ (B ++ commentText c ++ s)) → Gap B c s →
      ∃ e pr, (Ev (envOf text) (12 * text.length + 220) (.ref 2) .nonAtomic false S (some (e, [pr])) ∧
        Ev (envOf text) (12 * text.length + 220) (.ref 11) .nonAtomic false S (some (e, [pr]))) ∧
        Sk (envOf text) (text.length + 100) .nonAtomic e
          (S + (BStmt.invoke name gap args).text.length + B.length + (commentText c).length) ∧
        AopOK text pr (.invoke name gap args) ∧ pr.rule = 14 := by
    intro S B c s hs hg
    obtain ⟨hG, hC⟩ := ProgText.gap_gapG hg
    obtain ⟨X, hX⟩ : ∃ X, X = B ++ commentText c ++ s := ⟨_, rfl⟩
    rw [← hX] at hs
    have hs0 : Suf text S (37 :: (name ++ (gap ++ 40 :: (args.render ++ 41 :: X)))) := by
      have := hs
      simp only [BStmt.text, List.append_assoc, List.cons_append, List.nil_append] at this
      exact this
    have hs1 : Suf text (S + 1) (name ++ (gap ++ 40 :: (args.render ++ 41 :: X))) := hs0.tail
    obtain ⟨c0, run, hnc, hc0, hrun⟩ := isFnName_split hn
    have hs1' : Suf text (S + 1) (c0 :: (run ++ (gap ++ 40 :: (args.render ++ 41 :: X)))) := by
      rw [hnc] at hs1; exact hs1
    have hlen1 := hs1.len
    simp only [List.length_append, List.length_cons] at hlen1
    have hstop : headIs isLb (gap ++ 40 :: (args.render ++ 41 :: X)) = false := by
      cases gap with
      | nil => rfl
      | cons g0 gs => rcases hgap g0 (by simp) with h | h <;> subst h <;> rfl
    obtain ⟨rpush, rimp, rinc, rinch, rmac, _⟩ := reserved_facts hres
    have pf : ∀ pat : List Nat, (∀ c ∈ pat, isLb c = true) → pat ≠ [] → pat.isPrefixOf name = false →
        pat.isPrefixOf (name ++ (gap ++ 40 :: (args.render ++ 41 :: X))) = false :=
      fun pat h1 h2 h3 => prefix_app_stop pat name _ h1 h2 hstop h3
    have hname : ∀ c ∈ name, isLb c = true := by
      intro c hc
      rw [hnc] at hc
      rcases List.mem_cons.mp hc with rfl | hc
      · exact isLb_of_isFn hc0
      · exact hrun c hc
    -- a builtin word fails on the name: the name is not exactly the word
    have wf : ∀ (pat : List Nat) (la : Bool), (∀ c ∈ pat, isLb c = true) → pat ≠ [] → name ≠ pat →
        Ev (envOf text) 40 (.seq (.str pat) (.ref 20)) .nonAtomic la (S + 1) none :=
      fun pat la h1 h2 h3 => word_fail h1 h2 hname hstop h3 hs1
    -- `label_definition` fails on `%`
    have hw := top_win
    simp only [Bool.and_eq_true] at hw
    have hA0 := hs0.agree (s1 := [37]) (cs := [single 37]) (closed := false) ⟨single_mem 37, trivial⟩
      (fun h => by cases h)
    have f40 : Ev (envOf text) 30 (.ref 40) .nonAtomic false S none := by
      simpa using Ev.of_window hA0 (resFail_eq hw.1.1)
    -- `builtin` fails, whatever the look-ahead flag
    have f15 : ∀ la, Ev (envOf text) 50 (.ref 15) .nonAtomic la S none := by
      intro la
      have h37 : Ev (envOf text) 1 (.str [37]) .compound la S (some (S + 1, [])) :=
        ev_str_ok (pat := [37]) (s := name ++ (gap ++ 40 :: (args.render ++ 41 :: X))) hs0
      have f16 : Ev (envOf text) 42 (.ref 16) .compound la (S + 1) none :=
        evr (gr16 text) (by omega) (wf _ la (by decide) (by simp) rimp) (d := 40)
      have f17 : Ev (envOf text) 42 (.ref 17) .compound la (S + 1) none :=
        evr (gr17 text) (by omega) (wf _ la (by decide) (by simp) rinc) (d := 40)
      have f18 : Ev (envOf text) 42 (.ref 18) .compound la (S + 1) none :=
        evr (gr18 text) (by omega) (wf _ la (by decide) (by simp) rinch) (d := 40)
      have f19 : Ev (envOf text) 42 (.ref 19) .compound la (S + 1) none :=
        evr (gr19 text) (by omega) (wf _ la (by decide) (by simp) rpush) (d := 40)
      exact (evr (gr15 text) (by omega) (Ev.seq_fail2 h37 (sk_comp _)
        (Ev.alt_r (Ev.alt_r (Ev.alt_r f16 f17 (d := 42)) f18 (d := 43)) f19 (d := 44)) (d := 45)) (d := 46)
        (at_ := .nonAtomic)).mono (by omega)
    have hnb0 : NonBlank c0 := by
      simp only [isFn, isAl, Bool.or_eq_true, Bool.and_eq_true, decide_eq_true_eq, beq_iff_eq] at hc0
      refine ⟨?_, ?_, ?_⟩ <;> omega
    have hsk1 : Sk (envOf text) 30 .nonAtomic (S + 1) (S + 1) := skip_none hs1' hnb0
    have h37n : Ev (envOf text) 1 (.str [37]) .nonAtomic false S (some (S + 1, [])) :=
      ev_str_ok (pat := [37]) (s := name ++ (gap ++ 40 :: (args.render ++ 41 :: X))) hs0
    -- `"%" ~ push_macro` fails on the name
    have f19' : Ev (envOf text) 42 (.ref 19) .nonAtomic false (S + 1) none :=
      evr (gr19 text) (by omega) (wf _ false (by decide) (by simp) rpush) (d := 40)
    have fp19 : Ev (envOf text) 43 pct19 .nonAtomic false S none := Ev.seq_fail2 h37n hsk1 f19' (d := 42)
    -- `instruction_macro_definition` fails on the literal
    have f10 : Ev (envOf text) 7 (.ref 10) .nonAtomic false S none :=
      evr (sgr10 text) (by omega) (Ev.seq_fail1 (Ev.seq_fail1 (Ev.seq_fail1 (Ev.seq_fail1 (ev_str_fail hs0 (by
        have := pf [109, 97, 99, 114, 111] (by decide) (by simp) rmac
        simpa [List.isPrefixOf] using this)) (d := 1)) (d := 2)) (d := 3)) (d := 4)) (d := 5)
    -- `instruction_macro`
    have h31 := inv31_of name gap args X (S + 1) hn hgap (args_fact args hwa) hs1
    generalize hE : S + 1 + name.length + gap.length + 1 + args.render.length + 1 = E at h31
    generalize hK : (Pair.mk 32 (S + 1) (S + 1 + name.length) [] :: xargsKids (S + 1 + name.length + gap.length + 1) args)
      = K at h31
    have h13 : Ev (envOf text) (12 * (text.length - (S + 1)) + 190) (.ref 13) .nonAtomic false S
        (some (E, [.mk 13 S E K])) :=
      evr (sgr13 text) (by omega) (Ev.seq h37n hsk1 h31 (d := 12 * (text.length - (S + 1)) + 187))
        (d := 12 * (text.length - (S + 1)) + 188)
    -- `local_macro`
    have hneg : Ev (envOf text) 51 (.neg (.ref 15)) .nonAtomic false S (some (S, [])) := sev_neg (f15 true) (d := 50)
    have hsk0 : Sk (envOf text) 30 .nonAtomic S S := skip_none hs0 (by simp [NonBlank])
    have halts : Ev (envOf text) (12 * (text.length - (S + 1)) + 192) lmAlts .nonAtomic false S
        (some (E, [.mk 13 S E K])) :=
      Ev.alt_l (Ev.alt_r f10 h13 (d := 12 * (text.length - (S + 1)) + 190)) (d := 12 * (text.length - (S + 1)) + 191)
    have h14 : Ev (envOf text) (12 * (text.length - (S + 1)) + 195) (.ref 14) .nonAtomic false S
        (some (E, [.mk 14 S E [.mk 13 S E K]])) :=
      evr (sgr14 text) (by omega) (Ev.seq hneg hsk0 halts (d := 12 * (text.length - (S + 1)) + 192))
        (d := 12 * (text.length - (S + 1)) + 193)
    have hw14 := win14 (d := 12 * (text.length - (S + 1)) + 195) (f40.mono (by omega)) ((f15 false).mono (by omega))
      (fp19.mono (by omega)) h14
    -- after the statement
    have hsP : Suf text (S + 1 + name.length + gap.length + 1) (args.render ++ 41 :: X) :=
      (hs1.app.app : Suf text (S + 1 + name.length + gap.length) (40 :: (args.render ++ 41 :: X))).tail
    have hsE : Suf text E ((B ++ commentText c) ++ s) := by
      rw [← hE, ← hX]; exact hsP.app.tail
    have hlenE := hsE.len
    simp only [List.length_append] at hlenE
    have hsk2 := skip_gapG hG hsE
    have etl : (BStmt.invoke name gap args).text.length = 1 + name.length + gap.length + 1 + args.render.length + 1 := by
      simp only [BStmt.text, List.length_append, List.length_cons, List.length_nil]
    refine ⟨E, _, ⟨hw14.1.mono (by omega), hw14.2.mono (by omega)⟩, ?_, ?_, rfl⟩
    · rw [etl, List.length_append] at *
      have e2 : S + (1 + name.length + gap.length + 1 + args.render.length + 1) + B.length + (commentText c).length =
          E + (B.length + (commentText c).length) := by omega
      rw [e2]; exact hsk2.mono (by omega)
    · intro f hf
      obtain ⟨f, rfl⟩ : ∃ f', f = f' + 1 := ⟨f - 1, by omega⟩
      have hlenP := hsP.len
      simp only [List.length_append, List.length_cons] at hlenP
      have hwalk := args_walk args hwa (S + 1 + name.length + gap.length + 1) (41 :: X) f hsP (by omega)
      have ht : txt text.toArray (.mk 32 (S + 1) (S + 1 + name.length) []) = name := txt_suf hs1 32 []
      rw [← hK, parseAOp]
      simp [rule_mk, kids_mk, Gen.R_local_macro, Gen.R_instruction_macro_definition, Gen.R_instruction_macro,
        Gen.R_push_macro, ht, hwalk, BStmt.aop]
  constructor
  · intro S B c s hs hg
    obtain ⟨e, pr, hw, hsk, hA, hr⟩ := key S B c s hs hg
    exact ⟨e, pr, hw.1.mono (by omega), hsk.mono (by omega),
      nodeOK_of_aop (by rw [hr]; decide) (by rw [hr]; decide) (by rw [hr]; decide) hA⟩
  · intro S B c s hs hg
    obtain ⟨e, pr, hw, hsk, hA, hr⟩ := key S B c s hs hg
    exact ⟨e, pr, hw.2.mono (by omega), hsk.mono (by omega), hA⟩

end FullText
end Asm
end EtkVerif
