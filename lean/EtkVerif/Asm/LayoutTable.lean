/-
Kernel-checked table facts for `parse_render` (LayoutPest.lean): the window interpreter
run on one window per table row — the statement (`mnemonic`, or `pushN 0x` and hex-digit
classes) followed by the end of input or by one of the characters that can follow a
statement in a decorated text (blank, `#`, `;`, CR, LF) — and on the few one- or
two-character windows that can follow a run of blanks or a comment.
-/
import EtkVerif.Asm.ListingTable
namespace EtkVerif
namespace Asm
namespace Layout
open Pest Listing

/-- what can follow a statement: tab, LF, CR, space, `#`, `;` -/
def sentCls : Cls := [(9, 10), (13, 13), (32, 32), (35, 35), (59, 59)]

def stmtWin (r : OpRow) : List Cls :=
  r.mnem.map single ++
    (if r.extra = 0 then [] else [single 32, single 48, single 120] ++ List.replicate (2 * r.extra) hexCls)

/-- `"push" ~ word_size ~ WHITESPACE` -/
def pushHead : PE := .seq (.seq (.str [112, 117, 115, 104]) (.ref 8)) (.ref 49)

def opOK (ek : EnvK) (r : OpRow) : Bool :=
  let L := r.mnem.length
  resIs (matchK ek D (.ref 39) .nonAtomic false 0) L [.mk 39 0 L []] &&
  resFail (matchK ek D (.ref 15) .nonAtomic false 0) &&
  resFail (matchK ek D (.ref 14) .nonAtomic false 0) &&
  resFail (matchK ek D (.ref 4) .nonAtomic false 0) &&
  resIs (matchK ek D (.ref 3) .nonAtomic false 0) L [.mk 3 0 L []]

def pushOK (ek : EnvK) (r : OpRow) : Bool :=
  let L := r.mnem.length
  let E := L + 3 + 2 * r.extra
  resFail (matchK ek D (.ref 40) .nonAtomic false 0) &&
  resFail (matchK ek D (.ref 15) .nonAtomic false 0) &&
  resFail (matchK ek D (.ref 14) .nonAtomic false 0) &&
  resIs (matchK ek D pushHead .compound false 0) (L + 1) [.mk 8 4 L []] &&
  resIs (matchK ek D (.ref 42) .nonAtomic false (L + 1)) E [.mk 38 (L + 1) E []]

def ekV (closed : Bool) (r : OpRow) : EnvK :=
  if closed then ekOf (stmtWin r) true else ekOf (stmtWin r ++ [sentCls]) false

def rowOKv (closed : Bool) (r : OpRow) : Bool :=
  Ops.isUndefRow r || (if r.extra = 0 then opOK (ekV closed r) r else pushOK (ekV closed r) r)

theorem rowC1 : seg1.all (rowOKv true) = true := by decide +kernel
theorem rowC2 : seg2.all (rowOKv true) = true := by decide +kernel
theorem rowC3 : seg3.all (rowOKv true) = true := by decide +kernel
theorem rowO1 : seg1.all (rowOKv false) = true := by decide +kernel
theorem rowO2 : seg2.all (rowOKv false) = true := by decide +kernel
theorem rowO3 : seg3.all (rowOKv false) = true := by decide +kernel

theorem rowOK_all (closed : Bool) : Gen.cancun.all (rowOKv closed) = true := by
  cases closed
  · exact all_of_segs _ rowO1 rowO2 rowO3
  · exact all_of_segs _ rowC1 rowC2 rowC3

/-! ### after a run of blanks or a comment -/

/-- end of input, LF, CR LF, `;`, a lower-case letter -/
def tailWins : List (List Cls × Bool) :=
  [([], true), ([single 10], false), ([single 13, single 10], false), ([single 59], false), ([letterCls], false)]

/-- `!NEWLINE ~ ANY`, the body of a comment -/
def cbody : PE := .seq (.neg (.ref 1003)) (.ref 1002)

/-- `NEWLINE+ | ";"` -/
def sepE : PE := .alt (.plus (.ref 1003)) (.str [59])

def tailOK (w : List Cls × Bool) : Bool :=
  let ek := ekOf w.1 w.2
  skipK ek 20 .nonAtomic 0 == some 0 && manyK ek 20 49 0 == some 0 && skipCK ek 20 50 0 == some 0 &&
  resFail (matchK ek 20 (.str [58]) .nonAtomic false 0) &&
  resIs (matchK ek 20 (.star (.seq (.ref 44) (.ref 42))) .nonAtomic false 0) 0 []

theorem tail_ok : tailWins.all tailOK = true := by decide +kernel

/-- the three line ends: a comment stops there, NEWLINE is as expected -/
theorem lineEnd_ok :
    (resFail (matchK (ekOf [] true) 20 cbody .atomic false 0) &&
     resFail (matchK (ekOf [single 10] false) 20 cbody .atomic false 0) &&
     resFail (matchK (ekOf [single 13, single 10] false) 20 cbody .atomic false 0) &&
     resFail (matchK (ekOf [] true) 20 (.ref 1003) .nonAtomic false 0) &&
     resIs (matchK (ekOf [single 10] false) 20 (.ref 1003) .nonAtomic false 0) 1 [] &&
     resIs (matchK (ekOf [single 13, single 10] false) 20 (.ref 1003) .nonAtomic false 0) 2 [] &&
     resFail (matchK (ekOf [single 59] false) 20 (.ref 1003) .nonAtomic false 0) &&
     resFail (matchK (ekOf [letterCls] false) 20 (.ref 1003) .nonAtomic false 0)) = true := by
  decide +kernel

/-- separators: `;` is taken by the second alternative; nothing at the end of input -/
theorem sep_ok :
    (resIs (matchK (ekOf [single 59] false) 20 sepE .nonAtomic false 0) 1 [] &&
     resFail (matchK (ekOf [] true) 20 sepE .nonAtomic false 0) &&
     resFail (matchK (ekOf [] true) D (.ref 2) .nonAtomic false 0)) = true := by
  decide +kernel

/-- WHITESPACE* stops at a `#` -/
theorem hash_ok : (manyK (ekOf [single 35] false) 20 49 0 == some 0) = true := by decide +kernel

/-- a blank is one WHITESPACE -/
theorem blank_ok :
    (resIs (callRuleK (ekOf [single 32] false) 10 49 .nonAtomic false 0) 1 [] &&
     resIs (callRuleK (ekOf [single 9] false) 10 49 .nonAtomic false 0) 1 []) = true := by
  decide +kernel

end Layout
end Asm
end EtkVerif
