/-
Matched text: what `Sem` in the atomic state says about the characters between the
start and the end of a match (grammar-independent).
-/
import EtkVerif.Asm.PestShape
namespace EtkVerif
namespace Pest

/-- `inp[p ..< q]` as a list (the text of a pair) -/
def seg (inp : Array Nat) (p q : Nat) : List Nat := (inp.extract p q).toList

theorem seg_getElem? (inp : Array Nat) (p q i : Nat) :
    (seg inp p q)[i]? = if i < min q inp.size - p then inp[p + i]? else none := by
  unfold seg
  rw [Array.getElem?_toList, Array.getElem?_extract]

theorem seg_length (inp : Array Nat) (p q : Nat) : (seg inp p q).length = min q inp.size - p := by
  unfold seg
  rw [Array.length_toList, Array.size_extract]

theorem seg_drop (inp : Array Nat) (p q k : Nat) : (seg inp p q).drop k = seg inp (p + k) q := by
  apply List.ext_getElem?
  intro i
  rw [List.getElem?_drop, seg_getElem?, seg_getElem?]
  have : p + (k + i) = p + k + i := by omega
  rw [this]
  by_cases h : k + i < min q inp.size - p
  · have h' : i < min q inp.size - (p + k) := by omega
    simp [h, h']
  · have h' : ¬ i < min q inp.size - (p + k) := by omega
    simp [h, h']

/-- literal `m` sits at `p` and ends at `p'` -/
def Lit (inp : Array Nat) (p p' : Nat) (m : List Nat) : Prop := isPrefixAt inp p m = true ∧ p' = p + m.length

theorem isPrefixAt_iff (inp : Array Nat) (m : List Nat) : ∀ p, isPrefixAt inp p m = true ↔ ∀ i, i < m.length → inp[p + i]? = m[i]? := by
  induction m with
  | nil => intro p; simp [isPrefixAt]
  | cons c cs ih =>
    intro p
    simp only [isPrefixAt, Bool.and_eq_true, beq_iff_eq, ih, List.length_cons]
    constructor
    · rintro ⟨h0, h1⟩ i hi
      cases i with
      | zero => simpa using h0
      | succ i =>
        have := h1 i (by omega)
        simp only [List.getElem?_cons_succ]
        rw [← this]; congr 1; omega
    · intro h
      refine ⟨by simpa using h 0 (by omega), fun i hi => ?_⟩
      have := h (i + 1) (by omega)
      simp only [List.getElem?_cons_succ] at this
      rw [← this]; congr 1; omega

theorem isPrefixAt_append (inp : Array Nat) (x y : List Nat) (p : Nat) :
    isPrefixAt inp p (x ++ y) = true ↔ isPrefixAt inp p x = true ∧ isPrefixAt inp (p + x.length) y = true := by
  induction x generalizing p with
  | nil => simp [isPrefixAt]
  | cons c cs ih =>
    simp only [List.cons_append, isPrefixAt, Bool.and_eq_true, ih, List.length_cons]
    have : p + 1 + cs.length = p + (cs.length + 1) := by omega
    rw [this]
    constructor
    · rintro ⟨a, b, c⟩; exact ⟨⟨a, b⟩, c⟩
    · rintro ⟨⟨a, b⟩, c⟩; exact ⟨a, b, c⟩

theorem Lit.append {inp : Array Nat} {p p1 p2 : Nat} {x y : List Nat} (h1 : Lit inp p p1 x) (h2 : Lit inp p1 p2 y) :
    Lit inp p p2 (x ++ y) := by
  obtain ⟨a, rfl⟩ := h1
  obtain ⟨b, rfl⟩ := h2
  exact ⟨(isPrefixAt_append inp x y p).2 ⟨a, b⟩, by simp [Nat.add_assoc]⟩

theorem isPrefixAt_bound (inp : Array Nat) (m : List Nat) (p : Nat) (h : isPrefixAt inp p m = true) (hm : m ≠ []) :
    p + m.length ≤ inp.size := by
  have h' := (isPrefixAt_iff inp m p).1 h (m.length - 1) (by
    cases m with
    | nil => exact absurd rfl hm
    | cons c cs => simp)
  have hlt : m.length - 1 < m.length := by
    cases m with
    | nil => exact absurd rfl hm
    | cons c cs => simp
  rw [List.getElem?_eq_getElem hlt] at h'
  have : p + (m.length - 1) < inp.size := by
    by_cases hlt' : p + (m.length - 1) < inp.size
    · exact hlt'
    · rw [Array.getElem?_eq_none (by omega)] at h'; cases h'
  omega

theorem seg_of_lit {inp : Array Nat} {p p' : Nat} {m : List Nat} (h : Lit inp p p' m) : seg inp p p' = m := by
  obtain ⟨hp, rfl⟩ := h
  by_cases hm : m = []
  · subst hm
    apply List.ext_getElem?
    intro i
    rw [seg_getElem?]
    have : ¬ i < min (p + ([] : List Nat).length) inp.size - p := by simp; omega
    rw [if_neg this]; rfl
  · have hb := isPrefixAt_bound inp m p hp hm
    apply List.ext_getElem?
    intro i
    rw [seg_getElem?]
    by_cases hi : i < m.length
    · have : i < min (p + m.length) inp.size - p := by omega
      simp only [this, if_true]
      exact (isPrefixAt_iff inp m p).1 hp i hi
    · have : ¬ i < min (p + m.length) inp.size - p := by omega
      simp only [this, if_false]
      rw [List.getElem?_eq_none (by omega)]

/-- every position in `[p, q)` holds a character satisfying `P` -/
def AllIn (inp : Array Nat) (p q : Nat) (P : Nat → Prop) : Prop :=
  ∀ i, p ≤ i → i < q → ∃ c, inp[i]? = some c ∧ P c

theorem seg_all {inp : Array Nat} {p q : Nat} {P : Nat → Prop} (h : AllIn inp p q P) : ∀ c, c ∈ seg inp p q → P c := by
  intro c hc
  obtain ⟨i, hi⟩ := List.mem_iff_getElem?.1 hc
  rw [seg_getElem?] at hi
  split at hi
  · obtain ⟨c', hc', hP⟩ := h (p + i) (by omega) (by omega)
    rw [hc'] at hi
    cases hi
    exact hP
  · cases hi

theorem seg_ne_nil {inp : Array Nat} {p q : Nat} {P : Nat → Prop} (h : AllIn inp p q P) (hpq : p < q) : seg inp p q ≠ [] := by
  intro hnil
  have hl := seg_length inp p q
  rw [hnil] at hl
  obtain ⟨c, hc, _⟩ := h p (Nat.le_refl _) hpq
  have : p < inp.size := by
    by_cases hlt : p < inp.size
    · exact hlt
    · rw [Array.getElem?_eq_none (by omega)] at hc; cases hc
  simp at hl
  omega

theorem AllIn.nil (inp : Array Nat) (p : Nat) (P : Nat → Prop) : AllIn inp p p P := by
  intro i h1 h2; omega

theorem AllIn.cons {inp : Array Nat} {p q : Nat} {P : Nat → Prop} {c : Nat} (h0 : inp[p]? = some c) (hP : P c)
    (h : AllIn inp (p + 1) q P) : AllIn inp p q P := by
  intro i h1 h2
  by_cases hi : i = p
  · subst hi; exact ⟨c, h0, hP⟩
  · exact h i (by omega) h2

theorem charIn_iff (inp : Array Nat) (p lo hi : Nat) :
    charIn inp p lo hi = true ↔ ∃ c, inp[p]? = some c ∧ lo ≤ c ∧ c ≤ hi := by
  unfold charIn
  cases inp[p]? with
  | none => simp
  | some c => simp

/-- in the atomic state a chain of single-character steps covers a run of such characters -/
theorem Reps.allIn {inp : Array Nat} {S : Nat → Nat → List Pair → Prop} {P : Nat → Prop}
    (hS : ∀ a b k, S a b k → b = a + 1 ∧ ∃ c, inp[a]? = some c ∧ P c) {at_ : Atom} (hat : at_ ≠ .nonAtomic)
    {p p' : Nat} {ks : List Pair} (h : Reps S at_ p p' ks) : p ≤ p' ∧ AllIn inp p p' P := by
  induction h with
  | nil p => exact ⟨Nat.le_refl _, AllIn.nil _ _ _⟩
  | cons hsk hs _ ih =>
    have := hsk hat
    subst this
    obtain ⟨rfl, c, hc, hP⟩ := hS _ _ _ hs
    exact ⟨by omega, AllIn.cons hc hP ih.2⟩

/-- positions never move backwards along a chain whose steps do not -/
theorem Reps.le {S : Nat → Nat → List Pair → Prop}
    (hS : ∀ a b k, S a b k → a ≤ b) {at_ : Atom} (hat : at_ ≠ .nonAtomic)
    {p p' : Nat} {ks : List Pair} (h : Reps S at_ p p' ks) : p ≤ p' := by
  induction h with
  | nil p => exact Nat.le_refl _
  | cons hsk hs _ ih =>
    have := hsk hat
    subst this
    have := hS _ _ _ hs
    omega

/-! ### finite languages of star-free expressions -/

/-- the strings of a star-free expression, given those of the rules it refers to -/
def langOf (L : Nat → List (List Nat)) : PE → List (List Nat)
  | .str s => [s]
  | .range lo hi => (List.range' lo (hi + 1 - lo)).map fun c => [c]
  | .seq a b => (langOf L a).flatMap fun x => (langOf L b).map fun y => x ++ y
  | .alt a b => langOf L a ++ langOf L b
  | .ref n => L n
  | _ => []

def simple : PE → Bool
  | .str _ => true
  | .range _ _ => true
  | .seq a b => simple a && simple b
  | .alt a b => simple a && simple b
  | .ref _ => true
  | _ => false

def refsOf : PE → List Nat
  | .seq a b => refsOf a ++ refsOf b
  | .alt a b => refsOf a ++ refsOf b
  | .ref n => [n]
  | _ => []

theorem sem_lang (inp : Array Nat) (spec : Spec) (L : Nat → List (List Nat)) :
    ∀ e, simple e = true →
    (∀ n, n ∈ refsOf e → ∀ p p' ks, spec n .atomic p p' ks → ∃ m, m ∈ L n ∧ Lit inp p p' m) →
    ∀ p p' ks, Sem inp spec .atomic e p p' ks → ∃ m, m ∈ langOf L e ∧ Lit inp p p' m := by
  intro e
  induction e with
  | str s =>
    intro _ _ p p' ks h
    exact ⟨s, by simp [langOf], h.1, h.2.1⟩
  | range lo hi =>
    intro _ _ p p' ks h
    obtain ⟨hc, rfl, _⟩ := h
    obtain ⟨c, hc, h1, h2⟩ := (charIn_iff _ _ _ _).1 hc
    refine ⟨[c], ?_, ?_, by simp⟩
    · simp only [langOf, List.mem_map, List.mem_range'_1]
      exact ⟨c, ⟨h1, by omega⟩, rfl⟩
    · simp [isPrefixAt, hc]
  | seq a b iha ihb =>
    intro hs hr p p' ks h
    simp only [simple, Bool.and_eq_true] at hs
    obtain ⟨p1, p2, k1, k2, ha, hsk, hb, _⟩ := h
    have := hsk (by decide)
    subst this
    obtain ⟨x, hx, hlx⟩ := iha hs.1 (fun n hn => hr n (by simp [refsOf, hn])) _ _ _ ha
    obtain ⟨y, hy, hly⟩ := ihb hs.2 (fun n hn => hr n (by simp [refsOf, hn])) _ _ _ hb
    refine ⟨x ++ y, ?_, hlx.append hly⟩
    simp only [langOf, List.mem_flatMap, List.mem_map]
    exact ⟨x, hx, y, hy, rfl⟩
  | alt a b iha ihb =>
    intro hs hr p p' ks h
    simp only [simple, Bool.and_eq_true] at hs
    rcases h with h | h
    · obtain ⟨x, hx, hlx⟩ := iha hs.1 (fun n hn => hr n (by simp [refsOf, hn])) _ _ _ h
      exact ⟨x, by simp [langOf, hx], hlx⟩
    · obtain ⟨x, hx, hlx⟩ := ihb hs.2 (fun n hn => hr n (by simp [refsOf, hn])) _ _ _ h
      exact ⟨x, by simp [langOf, hx], hlx⟩
  | ref n =>
    intro _ hr p p' ks h
    exact hr n (by simp [refsOf]) _ _ _ h
  | opt a _ => intro hs; simp [simple] at hs
  | star a _ => intro hs; simp [simple] at hs
  | plus a _ => intro hs; simp [simple] at hs
  | neg a _ => intro hs; simp [simple] at hs
  | pos a _ => intro hs; simp [simple] at hs

/-! ### runs of single characters in the atomic state -/

theorem sem_star_allIn {inp : Array Nat} {spec : Spec} {a : PE} {P : Nat → Prop} {at_ : Atom} (hat : at_ ≠ .nonAtomic)
    (hS : ∀ q q' k, Sem inp spec at_ a q q' k → q' = q + 1 ∧ ∃ c, inp[q]? = some c ∧ P c)
    {p p' : Nat} {ks : List Pair} (h : Sem inp spec at_ (.star a) p p' ks) : p ≤ p' ∧ AllIn inp p p' P := by
  rcases sem_star.1 h with ⟨rfl, _⟩ | ⟨p1, k1, k2, h1, h2, _⟩
  · exact ⟨Nat.le_refl _, AllIn.nil _ _ _⟩
  · obtain ⟨rfl, c, hc, hP⟩ := hS _ _ _ h1
    have := Reps.allIn hS hat h2
    exact ⟨by omega, AllIn.cons hc hP this.2⟩

theorem sem_plus_allIn {inp : Array Nat} {spec : Spec} {a : PE} {P : Nat → Prop} {at_ : Atom} (hat : at_ ≠ .nonAtomic)
    (hS : ∀ q q' k, Sem inp spec at_ a q q' k → q' = q + 1 ∧ ∃ c, inp[q]? = some c ∧ P c)
    {p p' : Nat} {ks : List Pair} (h : Sem inp spec at_ (.plus a) p p' ks) : p < p' ∧ AllIn inp p p' P := by
  obtain ⟨p1, p2, k1, k2, h1, hsk, h2, _⟩ := sem_plus.1 h
  obtain ⟨rfl, c, hc, hP⟩ := hS _ _ _ h1
  have := hsk hat
  subst this
  rcases h2 with ⟨rfl, _⟩ | ⟨p3, k3, k4, h3, h4, _⟩
  · exact ⟨by omega, AllIn.cons hc hP (AllIn.nil _ _ _)⟩
  · obtain ⟨rfl, c', hc', hP'⟩ := hS _ _ _ h3
    have := Reps.allIn hS hat h4
    exact ⟨by omega, AllIn.cons hc hP (AllIn.cons hc' hP' this.2)⟩

theorem sem_star_le {inp : Array Nat} {spec : Spec} {a : PE} {at_ : Atom} (hat : at_ ≠ .nonAtomic)
    (hS : ∀ q q' k, Sem inp spec at_ a q q' k → q ≤ q')
    {p p' : Nat} {ks : List Pair} (h : Sem inp spec at_ (.star a) p p' ks) : p ≤ p' := by
  rcases sem_star.1 h with ⟨rfl, _⟩ | ⟨p1, k1, k2, h1, h2, _⟩
  · exact Nat.le_refl _
  · have := hS _ _ _ h1
    have := Reps.le hS hat h2
    omega

end Pest
end EtkVerif
