/-
A three-valued "window" version of the pest interpreter of `Pest.lean`: it runs on a
finite window of character classes (each position is known to lie in a union of
intervals; the window may or may not be closed by the end of input) and answers
`none` ("unknown") whenever the fuel runs out or the answer would depend on something
outside the window.  Positions and token pairs are relative to the window start.
It is structurally recursive so that the kernel evaluates it (`decide +kernel`).
-/
import EtkVerif.Asm.Pest
namespace EtkVerif
namespace Pest

abbrev Cls := List (Nat × Nat)

def Cls.mem (cl : Cls) (c : Nat) : Prop := ∃ r ∈ cl, r.1 ≤ c ∧ c ≤ r.2

def inRanges (rs : List (Nat × Nat)) (c : Nat) : Bool := rs.any fun r => r.1 ≤ c && c ≤ r.2

/-- every character of the class lies in one of the ranges -/
def Cls.within (cl : Cls) (rs : List (Nat × Nat)) : Bool :=
  cl.all fun r => rs.any fun s => s.1 ≤ r.1 && r.2 ≤ s.2

/-- no character of the class lies in any of the ranges -/
def Cls.disjoint (cl : Cls) (rs : List (Nat × Nat)) : Bool :=
  cl.all fun r => rs.all fun s => r.2 < s.1 || s.2 < r.1

structure EnvK where
  g : List Rule
  ws : Option Nat
  comment : Option Nat
  cs : List Cls
  closed : Bool

/-- is the character at `p` in one of `rs`?  (`false` at the end of input) -/
def charInK (ek : EnvK) (p : Nat) (rs : List (Nat × Nat)) : Option Bool :=
  match ek.cs[p]? with
  | none => if ek.closed then some false else none
  | some cl => if cl.within rs then some true else if cl.disjoint rs then some false else none

def prefixK (ek : EnvK) : Nat → List Nat → Option Bool
  | _, [] => some true
  | p, c :: cs =>
    match charInK ek p [(c, c)] with
    | none => none
    | some false => some false
    | some true => prefixK ek (p + 1) cs

/-- `p < size` -/
def ltSizeK (ek : EnvK) (p : Nat) : Option Bool :=
  match ek.cs[p]? with
  | some _ => some true
  | none => if ek.closed then some false else none

/-- `p = size` -/
def atEndK (ek : EnvK) (p : Nat) : Option Bool :=
  if p < ek.cs.length then some false
  else if ek.closed then some (p == ek.cs.length) else none

def tokF (n p : Nat) (la emit : Bool) (r : Res) : Res :=
  match r with
  | none => none
  | some (p', ks) => if emit && !la then some (p', [Pair.mk n p p' ks]) else some (p', ks)

def clsF (b : Bool) (p : Nat) : Res := if b then some (p + 1, []) else none

def isBuiltin (n : Nat) : Bool := 1000 ≤ n && n ≤ 1009

/-- one step of `callRuleK`, the recursive call abstracted as `k` -/
def callSpecK (ek : EnvK) (n : Nat) (at_ : Atom) (la : Bool) (p : Nat) (k : PE → Atom → Option Res) : Option Res :=
  if isBuiltin n then
    if n = ANY then (ltSizeK ek p).map fun b => clsF b p
    else if n = EOI then
      (atEndK ek p).map fun b => tokF n p la (at_ != .atomic) (if b then some (p, []) else none)
    else if n = NEWLINE then
      match prefixK ek p [10] with
      | none => none
      | some true => some (some (p + 1, []))
      | some false =>
        match prefixK ek p [13, 10] with
        | none => none
        | some true => some (some (p + 2, []))
        | some false =>
          match prefixK ek p [13] with
          | none => none
          | some true => some (some (p + 1, []))
          | some false => some none
    else if n = ASCII_DIGIT then (charInK ek p [(48, 57)]).map fun b => clsF b p
    else if n = ASCII_BIN_DIGIT then (charInK ek p [(48, 49)]).map fun b => clsF b p
    else if n = ASCII_OCT_DIGIT then (charInK ek p [(48, 55)]).map fun b => clsF b p
    else if n = ASCII_HEX_DIGIT then (charInK ek p [(48, 57), (97, 102), (65, 70)]).map fun b => clsF b p
    else if n = ASCII_ALPHA then (charInK ek p [(97, 122), (65, 90)]).map fun b => clsF b p
    else if n = ASCII_ALPHANUMERIC then (charInK ek p [(48, 57), (97, 122), (65, 90)]).map fun b => clsF b p
    else none   -- SOI: positions here are relative
  else
    match ek.g[n]? with
    | none => some none
    | some r =>
      if some n = ek.ws || some n = ek.comment then
        match k r.body .atomic with
        | none => none
        | some res =>
          match r.ty with
          | .silent => some res
          | _ => some (tokF n p la (at_ != .atomic) res)
      else
      match r.ty with
      | .silent => k r.body at_
      | .normal => (k r.body at_).map (tokF n p la (at_ != .atomic))
      | .atomic => (k r.body .atomic).map (tokF n p la (at_ != .atomic))
      | .compound => (k r.body .compound).map (tokF n p la true)
      | .nonAtomic => (k r.body .nonAtomic).map (tokF n p la true)

mutual
def matchK (ek : EnvK) : Nat → PE → Atom → Bool → Nat → Option Res
  | 0, _, _, _, _ => none
  | f + 1, e, at_, la, p =>
    match e with
    | .str s =>
      match prefixK ek p s with
      | none => none
      | some b => some (if b then some (p + s.length, []) else none)
    | .range lo hi =>
      match charInK ek p [(lo, hi)] with
      | none => none
      | some b => some (clsF b p)
    | .seq a b =>
      match matchK ek f a at_ la p with
      | none => none
      | some none => some none
      | some (some (p1, k1)) =>
        match skipK ek f at_ p1 with
        | none => none
        | some p2 =>
          match matchK ek f b at_ la p2 with
          | none => none
          | some none => some none
          | some (some (p3, k3)) => some (some (p3, k1 ++ k3))
    | .alt a b =>
      match matchK ek f a at_ la p with
      | none => none
      | some (some r) => some (some r)
      | some none => matchK ek f b at_ la p
    | .opt a =>
      match matchK ek f a at_ la p with
      | none => none
      | some (some r) => some (some r)
      | some none => some (some (p, []))
    | .star a =>
      match matchK ek f a at_ la p with
      | none => none
      | some none => some (some (p, []))
      | some (some (p1, k1)) =>
        match repK ek f a at_ la p1 [k1] with
        | none => none
        | some (p', acc) => some (some (p', acc.reverse.flatten))
    | .plus a =>
      match matchK ek f a at_ la p with
      | none => none
      | some none => some none
      | some (some (p1, k1)) =>
        match skipK ek f at_ p1 with
        | none => none
        | some p2 =>
          match matchK ek f a at_ la p2 with
          | none => none
          | some none => some (some (p2, k1))
          | some (some (p3, k3)) =>
            match repK ek f a at_ la p3 [k3, k1] with
            | none => none
            | some (p', acc) => some (some (p', acc.reverse.flatten))
    | .neg a =>
      match matchK ek f a at_ true p with
      | none => none
      | some (some _) => some none
      | some none => some (some (p, []))
    | .pos a =>
      match matchK ek f a at_ true p with
      | none => none
      | some (some _) => some (some (p, []))
      | some none => some none
    | .ref n => callRuleK ek f n at_ la p
termination_by structural f => f

def repK (ek : EnvK) : Nat → PE → Atom → Bool → Nat → List (List Pair) → Option (Nat × List (List Pair))
  | 0, _, _, _, _, _ => none
  | f + 1, a, at_, la, p, acc =>
    match skipK ek f at_ p with
    | none => none
    | some p1 =>
      match matchK ek f a at_ la p1 with
      | none => none
      | some none => some (p, acc)
      | some (some (p2, k2)) => if p2 = p then some (p, acc) else repK ek f a at_ la p2 (k2 :: acc)
termination_by structural f => f

def skipK (ek : EnvK) : Nat → Atom → Nat → Option Nat
  | 0, _, _ => none
  | f + 1, at_, p =>
    if at_ != .nonAtomic then some p else
    match (match ek.ws with
      | some w => manyK ek f w p
      | none => some p) with
    | none => none
    | some p1 =>
      match ek.comment with
      | some c => skipCK ek f c p1
      | none => some p1
termination_by structural f => f

def skipCK (ek : EnvK) : Nat → Nat → Nat → Option Nat
  | 0, _, _ => none
  | f + 1, c, p =>
    match callRuleK ek f c .nonAtomic false p with
    | none => none
    | some none => some p
    | some (some (p1, _)) =>
      match (match ek.ws with
        | some w => manyK ek f w p1
        | none => some p1) with
      | none => none
      | some p2 => if p2 = p then some p else skipCK ek f c p2
termination_by structural f => f

def manyK (ek : EnvK) : Nat → Nat → Nat → Option Nat
  | 0, _, _ => none
  | f + 1, n, p =>
    match callRuleK ek f n .nonAtomic false p with
    | none => none
    | some none => some p
    | some (some (p1, _)) => if p1 = p then some p else manyK ek f n p1
termination_by structural f => f

def callRuleK (ek : EnvK) : Nat → Nat → Atom → Bool → Nat → Option Res
  | 0, _, _, _, _ => none
  | f + 1, n, at_, la, p => callSpecK ek n at_ la p (fun e a => matchK ek f e a la p)
termination_by structural f => f
end

end Pest
end EtkVerif
