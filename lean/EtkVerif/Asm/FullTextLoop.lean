/-
Lines of a program of the whole surface language in the real interpreter: one
statement with its terminator, the statement loop of `inner` (the port of
ProgTextLoop.lean from macro-free statements to every statement kind; the facts
about one statement are a hypothesis, proved elsewhere).
-/
import EtkVerif.Asm.FullTextBase
import EtkVerif.Asm.ProgTextLoop
namespace EtkVerif
namespace Asm
namespace FullText
open Pest Listing ExprText
open Layout

variable {text : List Nat}

/-! ### one statement with its terminator -/

theorem item_closed (hF : ∀ st : Stmt, st.WF → StmtFact text st) {st : Stmt} {tm : Term} {Bn s : List Nat} {S : Nat} (hv : st.WF) (htm : tm.WF)
    (hcl : tm.isOpen = false) (hBn : Layout.IsBlanks Bn) (hst : ProgText.PStart s)
    (hs : Suf text S (st.text ++ (tm.text ++ (Bn ++ s)))) :
    ∃ P2 B2 pr, Ev (envOf text) (13 * text.length + 500) lineE .nonAtomic false S (some (P2, [pr])) ∧
      Layout.IsBlanks B2 ∧ Suf text P2 (B2 ++ s) ∧ S < P2 ∧ NodeOK text pr st := by
  cases tm with
  | open_ t c => cases hcl
  | semi b a =>
    obtain ⟨hb, ha⟩ := htm
    have hs' : Suf text S (st.text ++ (b ++ commentText none ++ (59 :: (a ++ Bn ++ s)))) := by
      simpa [Term.text, commentText, List.append_assoc] using hs
    have hlen := hs'.len
    simp only [List.length_append, List.length_cons] at hlen
    have hg : Gap b none (59 :: (a ++ Bn ++ s)) := ⟨hb, (fun x h => by cases h), .semi _⟩
    obtain ⟨e, pr, h1, h2, hN⟩ := hF st hv S b none _ hs' hg
    have hs2 : Suf text (S + st.text.length + b.length + (commentText none).length)
        (59 :: (a ++ Bn ++ s)) := by
      have := Suf.app (a := b ++ commentText none) (hs'.app)
      simpa [Nat.add_assoc] using this
    have hs3 : Suf text (S + st.text.length + b.length + (commentText none).length + 1)
        ((a ++ Bn) ++ s) := by simpa using hs2.tail
    refine ⟨_, a ++ Bn, pr, ?_, ha.append hBn, hs3, by omega, hN⟩
    rw [lineE_eq]
    exact (Ev.seq (d := 13 * text.length + 480) h1 h2 (sep_semi hs2) (by omega) (by omega)).mono (by omega)
  | line t c crlf more =>
    obtain ⟨ht, hc, hmore⟩ := htm
    have hs' : Suf text S (st.text ++ (t ++ commentText c ++
        (newline crlf ++ (more.flatMap BlankLine.text ++ (Bn ++ s))))) := by
      simpa [Term.text, List.append_assoc] using hs
    have hlen := hs'.len
    simp only [List.length_append] at hlen
    have hg : Gap t c (newline crlf ++ (more.flatMap BlankLine.text ++ (Bn ++ s))) :=
      ⟨ht, fun x hx => ⟨hc x hx, lineEnd_newline _ _⟩, (lineEnd_newline _ _).stail⟩
    obtain ⟨e, pr, h1, h2, hN⟩ := hF st hv S t c _ hs' hg
    have hs2 : Suf text (S + st.text.length + t.length + (commentText c).length)
        (newline crlf ++ (more.flatMap BlankLine.text ++ (Bn ++ s))) := by
      have := Suf.app (a := t ++ commentText c) (hs'.app)
      simpa [Nat.add_assoc] using this
    obtain ⟨P2, B2, h3, hB2, hs3, hlt⟩ := ProgText.plus_ok hBn hst crlf more hmore hs2
    refine ⟨P2, B2, pr, ?_, hB2, hs3, by omega, hN⟩
    rw [lineE_eq]
    exact (Ev.seq (d := 13 * text.length + 480) h1 h2 (Ev.alt_l (d := 2 * text.length + 210) (b := .str [59]) h3)
      (by omega) (by omega)).mono (by omega)

theorem item_open (hF : ∀ st : Stmt, st.WF → StmtFact text st) {st : Stmt} {t : List Nat} {c : Option (List Nat)} {S : Nat} (hv : st.WF)
    (ht : Layout.IsBlanks t) (hc : ∀ x, c = some x → IsCommentBody x)
    (hs : Suf text S (st.text ++ (t ++ commentText c))) :
    Ev (envOf text) (13 * text.length + 500) lineE .nonAtomic false S none ∧
    ∃ e pr, Ev (envOf text) (13 * text.length + 500) (.ref 2) .nonAtomic false S (some (e, [pr])) ∧
      Sk (envOf text) (13 * text.length + 500) .nonAtomic e text.length ∧ NodeOK text pr st := by
  have hs' : Suf text S (st.text ++ (t ++ commentText c ++ [])) := by simpa using hs
  have hlen := hs'.len
  simp only [List.length_append, List.length_nil] at hlen
  have hg : Gap t c [] := ⟨ht, fun x hx => ⟨hc x hx, .eof⟩, .eof⟩
  obtain ⟨e, pr, h1, h2, hN⟩ := hF st hv S t c _ hs' hg
  have hs2 : Suf text (S + st.text.length + t.length + (commentText c).length) [] := by
    have := Suf.app (a := t ++ commentText c) (hs'.app)
    simpa [Nat.add_assoc] using this
  have hNN : S + st.text.length + t.length + (commentText c).length = text.length := by
    have := hs2.len; simpa using this
  refine ⟨?_, e, pr, h1.mono (by omega), ?_, hN⟩
  · rw [lineE_eq]
    exact (Ev.seq_fail2 (d := 13 * text.length + 480) h1 h2 (sep_eof hs2) (by omega) (by omega)).mono (by omega)
  · rw [← hNN]; exact h2.mono (by omega)

/-! ### the statements of a program -/

def body (xs : List Item) : List Nat := xs.flatMap Item.text

def leadOf : List Item → List Nat
  | [] => []
  | x :: _ => x.lead

def core : List Item → List Nat
  | [] => []
  | x :: xs => x.stmt.text ++ (x.term.text ++ body xs)

theorem body_eq (xs : List Item) : body xs = leadOf xs ++ core xs := by
  cases xs with
  | nil => rfl
  | cons x xs => simp [body, leadOf, core, Item.text, List.append_assoc]

theorem core_cons (x : Item) (xs : List Item) :
    core (x :: xs) = x.stmt.text ++ (x.term.text ++ (leadOf xs ++ core xs)) := by
  show x.stmt.text ++ (x.term.text ++ body xs) = _
  rw [body_eq]

def ItemOK (x : Item) : Prop := Layout.IsBlanks x.lead ∧ x.stmt.WF ∧ x.term.WF

theorem leadOf_blanks {xs : List Item} (h : ∀ x ∈ xs, ItemOK x) : Layout.IsBlanks (leadOf xs) := by
  cases xs with
  | nil => exact IsBlanks.nil
  | cons x xs => exact (h x (by simp)).1

theorem core_start {xs : List Item} (h : ∀ x ∈ xs, ItemOK x) : ProgText.PStart (core xs) := by
  cases xs with
  | nil => exact .eof
  | cons x xs =>
    obtain ⟨c, t, ht, hc⟩ := stmt_start x.stmt (h x (by simp)).2.1
    have : core (x :: xs) = c :: (t ++ (x.term.text ++ body xs)) := by simp [core, ht]
    rw [this]
    exact .ch c _ hc

/-- the pairs of the statements yield the statements' nodes -/
inductive Goods (text : List Nat) : List Pair → List Item → Prop
  | nil : Goods text [] []
  | cons {p : Pair} {x : Item} {ps : List Pair} {xs : List Item}
      (h : NodeOK text p x.stmt) (t : Goods text ps xs) : Goods text (p :: ps) (x :: xs)

theorem Goods.append {ps1 ps2 : List Pair} {xs1 xs2 : List Item} (h1 : Goods text ps1 xs1)
    (h2 : Goods text ps2 xs2) : Goods text (ps1 ++ ps2) (xs1 ++ xs2) := by
  induction h1 with
  | nil => exact h2
  | cons h _ ih => exact .cons h ih

theorem main_rep (hF : ∀ st : Stmt, st.WF → StmtFact text st) (os : List Item) (hos : ∀ x ∈ os, ItemOK x)
    (hstop : ∀ Q, Suf text Q (core os) → Ev (envOf text) (13 * text.length + 500) lineE .nonAtomic false Q none) :
    ∀ (cs : List Item) (P : Nat) (B : List Nat) (acc : List (List Pair)) (f : Nat),
    (∀ x ∈ cs, ItemOK x ∧ x.term.isOpen = false) → Layout.IsBlanks B → Suf text P (B ++ core (cs ++ os)) →
    14 * text.length + 700 ≤ f + P →
    ∃ P' B' acc' ps, rep (envOf text) f lineE .nonAtomic false P acc = (P', acc') ∧ Layout.IsBlanks B' ∧
      Suf text P' (B' ++ core os) ∧ acc'.reverse.flatten = acc.reverse.flatten ++ ps ∧ Goods text ps cs
  | [], P, B, acc, f, _, hB, hs, hf => by
    have hs : Suf text P (B ++ core os) := by simpa using hs
    have hlen := hs.len
    simp only [List.length_append] at hlen
    obtain ⟨f, rfl⟩ : ∃ f', f = f' + 1 := ⟨f - 1, by omega⟩
    have hsk := ProgText.skip_to_start hB (core_start hos) hs f (by omega)
    have hs2 : Suf text (P + B.length) (core os) := hs.app
    refine ⟨P, B, acc, [], ?_, hB, hs, by simp, .nil⟩
    rw [rep.eq_2, hsk, hstop _ hs2 f (by omega)]
  | x :: cs, P, B, acc, f, hcs, hB, hs, hf => by
    have hx := hcs x (by simp)
    have hall : ∀ y ∈ cs ++ os, ItemOK y := by
      intro y hy
      rcases List.mem_append.mp hy with h | h
      · exact (hcs y (by simp [h])).1
      · exact hos y h
    have hall' : ∀ y ∈ (x :: cs) ++ os, ItemOK y := by
      intro y hy
      rcases (by simpa using hy : y = x ∨ y ∈ cs ∨ y ∈ os) with h | h
      · rw [h]; exact hx.1
      · exact hall y (by simpa using h)
    have hlen := hs.len
    simp only [List.length_append] at hlen
    obtain ⟨f, rfl⟩ : ∃ f', f = f' + 1 := ⟨f - 1, by omega⟩
    have hsk := ProgText.skip_to_start hB (core_start hall') hs f (by omega)
    have hs2 : Suf text (P + B.length) (x.stmt.text ++ (x.term.text ++ (leadOf (cs ++ os) ++ core (cs ++ os)))) := by
      have := Suf.app (a := B) hs
      rwa [List.cons_append, core_cons] at this
    obtain ⟨P2, B2, pr, h1, hB2, hs3, hlt, hN⟩ := item_closed hF hx.1.2.1 hx.1.2.2 hx.2 (leadOf_blanks hall)
      (core_start hall) hs2
    obtain ⟨P', B', acc', ps, h2, hB', hs4, h3, h4⟩ :=
      main_rep hF os hos hstop cs P2 B2 ([pr] :: acc) f
        (fun y hy => hcs y (by simp [hy])) hB2 hs3 (by omega)
    refine ⟨P', B', acc', pr :: ps, ?_, hB', hs4, by simp [h3], .cons hN h4⟩
    rw [rep.eq_2, hsk, h1 f (by omega)]
    have hne : ¬ (P2 = P) := by omega
    simp only [hne, if_false]
    exact h2

theorem main_star (hF : ∀ st : Stmt, st.WF → StmtFact text st) (os : List Item) (hos : ∀ x ∈ os, ItemOK x)
    (hstop : ∀ Q, Suf text Q (core os) → Ev (envOf text) (13 * text.length + 500) lineE .nonAtomic false Q none)
    (cs : List Item) (S0 : Nat) (hcs : ∀ x ∈ cs, ItemOK x ∧ x.term.isOpen = false)
    (hs : Suf text S0 (core (cs ++ os))) (f : Nat) (hf : 14 * text.length + 800 ≤ f) :
    ∃ P' B' ps, matchE (envOf text) f (.star lineE) .nonAtomic false S0 = some (P', ps) ∧ Layout.IsBlanks B' ∧
      Suf text P' (B' ++ core os) ∧ Goods text ps cs := by
  obtain ⟨f, rfl⟩ : ∃ f', f = f' + 1 := ⟨f - 1, by omega⟩
  cases cs with
  | nil =>
    refine ⟨S0, [], [], ?_, IsBlanks.nil, by simpa using hs, .nil⟩
    rw [matchE.eq_7, hstop S0 (by simpa using hs) f (by omega)]
  | cons x cs =>
    have hx := hcs x (by simp)
    have hall : ∀ y ∈ cs ++ os, ItemOK y := by
      intro y hy
      rcases List.mem_append.mp hy with h | h
      · exact (hcs y (by simp [h])).1
      · exact hos y h
    have hs2 : Suf text S0 (x.stmt.text ++ (x.term.text ++ (leadOf (cs ++ os) ++ core (cs ++ os)))) := by
      rwa [List.cons_append, core_cons] at hs
    obtain ⟨P2, B2, pr, h1, hB2, hs3, hlt, hN⟩ := item_closed hF hx.1.2.1 hx.1.2.2 hx.2 (leadOf_blanks hall)
      (core_start hall) hs2
    obtain ⟨P', B', acc', ps, h2, hB', hs4, h3, h4⟩ :=
      main_rep hF os hos hstop cs P2 B2 [[pr]] f
        (fun y hy => hcs y (by simp [hy])) hB2 hs3 (by omega)
    refine ⟨P', B', pr :: ps, ?_, hB', hs4, .cons hN h4⟩
    rw [matchE.eq_7, h1 f (by omega)]
    simp only
    rw [h2]
    simp [h3]

end FullText
end Asm
end EtkVerif
