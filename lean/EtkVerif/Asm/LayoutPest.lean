/-
Layout insensitivity: whatever the decoration, the decorated text parses to the
same nodes as the bare listing.
-/
import EtkVerif.Asm.Layout
import EtkVerif.Asm.LayoutNodes
namespace EtkVerif
namespace Asm
namespace Layout
open Listing Pest

/-! ### terminated statements first, then possibly one unterminated statement -/

theorem split_open : ∀ (items : List Item), OpenOnlyLast items →
    ∃ cs os, items = cs ++ os ∧ (∀ x ∈ cs, x.term.isOpen = false) ∧
      (os = [] ∨ ∃ xo t c, os = [xo] ∧ xo.term = .open_ t c)
  | [], _ => ⟨[], [], rfl, by simp, Or.inl rfl⟩
  | [x], _ => by
    cases hx : x.term with
    | open_ t c => exact ⟨[], [x], rfl, by simp, Or.inr ⟨x, t, c, rfl, hx⟩⟩
    | semi b a => exact ⟨[x], [], rfl, by simp [hx, Term.isOpen], Or.inl rfl⟩
    | line t c crlf more => exact ⟨[x], [], rfl, by simp [hx, Term.isOpen], Or.inl rfl⟩
  | x :: y :: rest, h => by
    obtain ⟨cs, os, h1, h2, h3⟩ := split_open (y :: rest) h.2
    refine ⟨x :: cs, os, by rw [h1]; rfl, ?_, h3⟩
    intro z hz
    rcases List.mem_cons.mp hz with hz | hz
    · rw [hz]; exact h.1
    · exact h2 z hz

variable {text : List Nat}

/-! ### before the first statement -/

theorem head_ok (head : List BlankLine) (items : List Item) (hh : ∀ b ∈ head, b.WF)
    (hit : ∀ x ∈ items, ItemOK x) (htext : text = render head items) :
    ∃ a0 a1 S0, Sk (envOf text) (text.length + 100) .nonAtomic 0 a0 ∧
      (∀ f, 2 * text.length + 300 ≤ f →
        matchE (envOf text) f (.star (.ref 1003)) .nonAtomic false a0 = some (a1, [])) ∧
      Sk (envOf text) (text.length + 100) .nonAtomic a1 S0 ∧ Suf text S0 (core items) := by
  have hlB := leadOf_blanks hit
  have hst := core_start hit
  have h0 : Suf text 0 (head.flatMap BlankLine.text ++ (leadOf items ++ core items)) := by
    have he : text = head.flatMap BlankLine.text ++ (leadOf items ++ core items) := by
      rw [htext, render, ← body_eq]; rfl
    have := Suf.zero text
    rw [he] at this ⊢
    exact this
  cases head with
  | nil =>
    have hs : Suf text 0 (leadOf items ++ commentText none ++ core items) := by
      simpa [commentText] using h0
    have hlen := hs.len
    simp only [List.length_append, commentText, List.length_nil] at hlen
    have hsk := skip_gap (leadOf items) none 0 hlB hs (fun b h => by cases h) hst.tail
    simp only [commentText, List.length_nil, Nat.add_zero, Nat.zero_add] at hsk
    have hs2 : Suf text (leadOf items).length (core items) := by
      have := Suf.app (a := leadOf items) (b := core items) (by simpa using h0)
      simpa using this
    refine ⟨_, _, _, hsk.mono (by omega), ?_, ((tail_facts hs2 hst.tail).1).mono (by omega), hs2⟩
    intro f hf
    exact Ev.star0 (d := 20) (nl_fail hs2 hst) (by omega) f (by omega)
  | cons b bs =>
    have hb : b.WF := hh b (by simp)
    have hs : Suf text 0 (b.blanks ++ commentText b.comment ++
        (newline b.crlf ++ (bs.flatMap BlankLine.text ++ (leadOf items ++ core items)))) := by
      simpa [BlankLine.text, List.append_assoc] using h0
    have hlen := hs.len
    simp only [List.length_append] at hlen
    have hnl := newline_pos b.crlf
    have hsk := skip_gap b.blanks b.comment 0 hb.1 hs
      (fun x hx => ⟨hb.2 x hx, lineEnd_newline _ _⟩) (lineEnd_newline _ _).tail
    have hs2 : Suf text (0 + b.blanks.length + (commentText b.comment).length)
        (newline b.crlf ++ (bs.flatMap BlankLine.text ++ (leadOf items ++ core items))) := by
      have := Suf.app (a := b.blanks ++ commentText b.comment) hs
      simpa [Nat.add_assoc] using this
    have hs3 := hs2.app
    have hs4 : Suf text (0 + b.blanks.length + (commentText b.comment).length + (newline b.crlf).length +
        (bs.flatMap BlankLine.text).length) (leadOf items ++ commentText none ++ core items) := by
      simpa [commentText] using hs3.app
    have hsk2 := skip_gap (leadOf items) none _ hlB hs4 (fun b h => by cases h) hst.tail
    have hs5 : Suf text (0 + b.blanks.length + (commentText b.comment).length + (newline b.crlf).length +
        (bs.flatMap BlankLine.text).length + (leadOf items).length + (commentText none).length) (core items) := by
      have := Suf.app (a := leadOf items ++ commentText none) hs4
      simpa [Nat.add_assoc] using this
    refine ⟨_, _, _, hsk.mono (by omega), ?_, hsk2.mono (by simp only [commentText, List.length_nil]; omega), hs5⟩
    intro f hf
    obtain ⟨f, rfl⟩ : ∃ f', f = f' + 1 := ⟨f - 1, by omega⟩
    obtain ⟨acc', h1, h2⟩ := nl_rep hlB hst bs _ [[]] f (fun x hx => hh x (by simp [hx])) hs3 (by omega)
    rw [matchE.eq_7, nl_ok b.crlf hs2 f (by omega)]
    simp only
    rw [h1]
    simp [h2]

/-! ### after the last terminated statement -/

theorem fin_ok {os : List Item} (hos : ∀ x ∈ os, ItemOK x)
    (hsh : os = [] ∨ ∃ xo t c, os = [xo] ∧ xo.term = .open_ t c) :
    (∀ Q, Suf text Q (core os) → Ev (envOf text) (2 * text.length + 300) lineE .nonAtomic false Q none) ∧
    ∀ P' B', IsBlanks B' → Suf text P' (B' ++ core os) →
      ∃ S' e ks, Sk (envOf text) (text.length + 100) .nonAtomic P' S' ∧
        Ev (envOf text) (2 * text.length + 301) (.opt (.ref 2)) .nonAtomic false S' (some (e, ks)) ∧
        Sk (envOf text) (2 * text.length + 300) .nonAtomic e text.length ∧ Goods text ks os := by
  rcases hsh with rfl | ⟨xo, t, c, rfl, hterm⟩
  · constructor
    · intro Q hQ
      rw [lineE_eq]
      exact (Ev.seq_fail1 (d := D) (stmt_eof hQ)).mono (by unfold D; omega)
    · intro P' B' hB hs
      have hs' : Suf text P' (B' ++ commentText none ++ []) := by simpa [core, commentText] using hs
      have hlen := hs'.len
      simp only [List.length_append, commentText, List.length_nil] at hlen
      have hsk := skip_gap B' none P' hB hs' (fun b h => by cases h) .eof
      simp only [commentText, List.length_nil, Nat.add_zero] at hsk
      have hs2 : Suf text (P' + B'.length) [] := by
        have := Suf.app (a := B') (b := []) (by simpa [core] using hs)
        exact this
      have hN : P' + B'.length = text.length := by simpa using hs2.len
      refine ⟨_, _, [], hsk.mono (by omega), (Ev.opt_none (d := D) (stmt_eof hs2)).mono (by unfold D; omega), ?_, .nil⟩
      rw [hN] at hs2 ⊢
      exact ((tail_facts hs2 .eof).1).mono (by omega)
  · have hx := hos xo (by simp)
    have hwf : (Term.open_ t c).WF := hterm ▸ hx.2.2
    have hcore : core [xo] = stmtText xo.ins ++ (t ++ commentText c) := by
      simp [core, body, hterm, Term.text]
    constructor
    · intro Q hQ
      rw [hcore] at hQ
      exact (item_open hx.2.1 hwf.1 hwf.2 hQ).1
    · intro P' B' hB hs
      rw [hcore] at hs
      have hs' : Suf text P' (B' ++ commentText none ++ (stmtText xo.ins ++ (t ++ commentText c))) := by
        simpa [commentText] using hs
      have hlen := hs'.len
      simp only [List.length_append, commentText, List.length_nil] at hlen
      have hst : SStart (stmtText xo.ins ++ (t ++ commentText c)) := by
        have := core_start hos; rwa [hcore] at this
      have hsk := skip_gap B' none P' hB hs' (fun b h => by cases h) hst.tail
      simp only [commentText, List.length_nil, Nat.add_zero] at hsk
      have hs2 : Suf text (P' + B'.length) (stmtText xo.ins ++ (t ++ commentText c)) := Suf.app (a := B') hs
      obtain ⟨_, e, g, h1, h2⟩ := item_open hx.2.1 hwf.1 hwf.2 hs2
      exact ⟨_, e, [pairG (P' + B'.length) g xo.ins], hsk.mono (by omega),
        Ev.opt_some (d := 2 * text.length + 300) h1, h2, .cons (good_of_suf hs2) .nil⟩

/-! ### `inner`, `program`, `parse` -/

theorem pest_render (head : List BlankLine) (items : List Item) (h : WF head items) :
    ∃ ps, Pest.parse Gen.grammar Gen.R_program (render head items) =
        some (ps ++ [.mk Pest.EOI (render head items).length (render head items).length []]) ∧
      Goods (render head items) ps items := by
  obtain ⟨hh, hit, hool⟩ := h
  have hit' : ∀ x ∈ items, ItemOK x := hit
  obtain ⟨cs, os, hsplit, hcs, hsh⟩ := split_open items hool
  have hos : ∀ x ∈ os, ItemOK x := fun x hx => hit' x (by rw [hsplit]; simp [hx])
  have hcs' : ∀ x ∈ cs, ItemOK x ∧ x.term.isOpen = false :=
    fun x hx => ⟨hit' x (by rw [hsplit]; simp [hx]), hcs x hx⟩
  generalize htext : render head items = text
  obtain ⟨a0, a1, S0, hA0, hA1, hA2, hS0⟩ := head_ok head items hh hit' htext.symm
  obtain ⟨hstop, hfin⟩ := fin_ok (text := text) hos hsh
  rw [hsplit] at hS0
  -- the fuel `parse` starts with
  obtain ⟨g, hg, hgN⟩ : ∃ g, 16 * text.toArray.size + 1000 = g + 7 ∧ 3 * text.length + 500 ≤ g :=
    ⟨16 * text.toArray.size + 993, by omega, by simp only [List.size_toArray]; omega⟩
  obtain ⟨P', B', ps, hM, hB', hsP, hG⟩ := main_star os hos hstop cs S0 hcs' hS0 g hgN
  obtain ⟨S', e, ks, hF1, hF2, hF3, hGk⟩ := hfin P' B' hB' hsP
  have he := eof_facts text
  refine ⟨ps ++ ks, ?_, by rw [hsplit]; exact hG.append hGk⟩
  have h1 : findRule Gen.grammar [87, 72, 73, 84, 69, 83, 80, 65, 67, 69] = some 49 := by decide +kernel
  have h2 : findRule Gen.grammar [67, 79, 77, 77, 69, 78, 84] = some 50 := by decide +kernel
  unfold Pest.parse
  simp only [h1, h2]
  have hinner : matchE (envOf text) (g + 2) innerBody .nonAtomic false a0 = some (e, ps ++ ks) := by
    unfold innerBody
    rw [matchE.eq_4, matchE.eq_4, hA1 g (by omega)]
    simp only
    rw [hA2 g (by omega), hM]
    simp only
    rw [hF1 (g + 1) (by omega), hF2 (g + 1) (by omega)]
    simp
  have hsoi : ∀ k, callSpec (envOf text) 1000 .nonAtomic false 0 k = some (0, []) := by
    intro k; simp [callSpec, ANY, SOI]
  have hprog : callRule (envOf text) (g + 7) Gen.R_program .nonAtomic false 0 =
      some (text.length, ps ++ ks ++ [.mk Pest.EOI text.length text.length []]) := by
    show callRule _ _ 0 _ _ _ = _
    rw [call_program]
    unfold programBody
    rw [matchE.eq_4, matchE.eq_4, matchE.eq_11, callRule_succ, hsoi]
    simp only
    rw [hA0 (g + 4) (by omega), matchE.eq_11, call_inner, hinner]
    simp only
    rw [hF3 (g + 5) (by omega), matchE.eq_11]
    have := he.2.2.2.2 (g + 4) (by omega)
    unfold EOI at this
    rw [this]
    simp [EOI]
  rw [hg]
  have hprog' := hprog
  unfold envOf at hprog'
  rw [hprog']

theorem parse_render (head : List BlankLine) (items : List Item) (h : WF head items) :
    parseAsm (render head items) = .ok (items.map (fun x => nodeOf x.ins)) := by
  obtain ⟨ps, h1, h2⟩ := pest_render head items h
  unfold parseAsm
  rw [h1]
  have := go_goods h2 (fun x hx => (h.2.1 x hx).2.1)
    (4 * (render head items).length + 97 +
      pairsSize (ps ++ [.mk Pest.EOI (render head items).length (render head items).length []]))
    (render head items).length
  have hf : ∀ a b : Nat, 4 * a + 97 + b + 3 = 4 * a + 100 + b := by intro a b; omega
  rw [hf] at this
  simpa using this

end Layout
end Asm
end EtkVerif
