/-
Layout insensitivity: whatever the decoration, the decorated text parses to the
same nodes as the bare listing.
-/
import EtkVerif.Asm.Layout
namespace EtkVerif
namespace Asm
namespace Layout
open Listing

theorem parse_render (head : List BlankLine) (items : List Item) (h : WF head items) :
    parseAsm (render head items) = .ok (items.map (fun x => nodeOf x.ins)) := by
  sorry

end Layout
end Asm
end EtkVerif
