/-
One statement of a macro-free program in the real interpreter and in the walk of
`parse_asm`: `stmt` at the statement's text followed by a gap (blanks, possibly a
comment) and then a line end, `;` or the end of input, gives one pair, and that pair
gives the statement's node.
-/
import EtkVerif.Asm.ProgText
import EtkVerif.Asm.ExprTextPest
import EtkVerif.Asm.LayoutNodes
namespace EtkVerif
namespace Asm
namespace ProgText
open Pest Listing ExprText
open Layout (Suf Gap commentText STail LineEnd)

variable {text : List Nat}

/-! ### kernel-checked table: `push<n>` for 1 ≤ n ≤ 32 -/

def pushWin (n ws : Nat) : List Cls := ([112, 117, 115, 104] ++ decimal n ++ [ws]).map single

def pushChk1 (n ws : Nat) : Bool :=
  let d := decimal n
  let ek := ekOf (pushWin n ws) false
  resIs (matchK ek D Layout.pushHead .compound false 0) (4 + d.length + 1) [.mk 8 4 (4 + d.length) []] &&
  resFail (matchK ek D (.ref 15) .nonAtomic false 0) &&
  resFail (matchK ek D (.ref 14) .nonAtomic false 0)

def pushChk (n : Nat) : Bool :=
  n == 0 ||
    (pushChk1 n 32 && pushChk1 n 9 && (decimal n).all isDec &&
     (match parseRadix (decimal n) 10 with
      | .ok v => v == Int.ofNat n
      | .error _ => false))

theorem pushChk_all : (List.range 33).all pushChk = true := by decide +kernel

/-! ### the per-statement interface -/

/-- what the walk of `parse_asm` makes of the pair of a statement -/
def NodeOK (text : List Nat) (pr : Pair) (st : Stmt) : Prop :=
  pr.rule ≠ Pest.EOI ∧ ∀ f, 2 * text.length + 10 ≤ f →
    (if pr.rule = Gen.R_builtin then parseBuiltin text.toArray f pr else (parseAOp text.toArray f pr).map .op)
      = .ok st.node

/-- `stmt` at a statement followed by a gap: one pair, the implicit whitespace after it reaches the
end of the gap, and the pair yields the statement's node -/
def StmtFact (text : List Nat) (st : Stmt) : Prop :=
  ∀ S B c s, Suf text S (st.text ++ (B ++ commentText c ++ s)) → Gap B c s →
    ∃ e pr, Ev (envOf text) (10 * text.length + 400) (.ref 2) .nonAtomic false S (some (e, [pr])) ∧
      Sk (envOf text) (10 * text.length + 400) .nonAtomic e
        (S + st.text.length + B.length + (commentText c).length) ∧
      NodeOK text pr st

theorem gap_gapG {B : List Nat} {c : Option (List Nat)} {s : List Nat} (hg : Gap B c s) :
    GapG (B ++ commentText c) s ∧ CloseC s := by
  have hcl : CloseC s := by
    intro d t hd
    have hst := hg.stail
    rw [hd] at hst
    cases hst <;> simp
  refine ⟨⟨B, c, rfl, hg.blanks, hg.comment, ?_⟩, hcl⟩
  intro _ d t hd
  rcases hcl d t hd with h | h | h | h <;> subst h <;> simp [NonBlank]

/-! ### plain instructions -/

theorem fact_ins (i : Disasm.Instr) (hv : Valid i) : StmtFact text (.ins i) := by
  intro S B c s hs hg
  have hs' : Suf text S (Layout.stmtText i ++ (B ++ commentText c ++ s)) := hs
  obtain ⟨e, h1, h2⟩ := Layout.stmt_ok hv hs' hg
  have hlen := hs'.len
  simp only [List.length_append] at hlen
  refine ⟨e, _, h1.mono (by omega), h2.mono (by omega), (Layout.pairG_rule _ _ _).1, ?_⟩
  intro f hf
  obtain ⟨f, rfl⟩ : ∃ f', f = f' + 3 := ⟨f - 3, by omega⟩
  obtain ⟨pre, hpre, hpl⟩ := hs
  have hp := Layout.parseAOp_pairG pre (B ++ commentText c ++ s) i hv f (B.length + (commentText c).length)
  have htext : text = pre ++ Layout.stmtText i ++ (B ++ commentText c ++ s) := by
    rw [hpre]; simp only [Stmt.text, List.append_assoc]
  rw [← htext, hpl] at hp
  rw [if_neg (Layout.pairG_rule _ _ _).2]
  exact hp

/-! ### label definitions -/

theorem fact_label (name gap : List Nat) (hn : IsLabel name) (hgap : ExprText.IsBlanks gap) :
    StmtFact text (.label name gap) := by
  intro S B c s hs hg
  obtain ⟨c0, run, rfl, hc0, hrun⟩ := isLabel_split hn
  obtain ⟨hG, hC⟩ := gap_gapG hg
  obtain ⟨X, hX⟩ : ∃ X, X = B ++ commentText c ++ s := ⟨_, rfl⟩
  rw [← hX] at hs
  have hs' : Suf text S (c0 :: (run ++ (gap ++ 58 :: X))) := by
    have := hs
    simp only [Stmt.text, List.append_assoc, List.cons_append, List.nil_append] at this
    exact this
  have hstop : headIs isLb (gap ++ 58 :: X) = false := by
    cases gap with
    | nil => rfl
    | cons g0 gs =>
      rcases hgap g0 (by simp) with h | h <;> subst h <;> rfl
  have h39 := ev39_ok hs' hc0 hrun hstop
  have hs1 : Suf text (S + 1 + run.length) (gap ++ 58 :: X) := hs'.tail.app
  have hsk := skip_blanks gap hgap hs1 (by simp [NonBlank])
  have hs2 : Suf text (S + 1 + run.length + gap.length) (58 :: X) := hs1.app
  have h58 : Ev (envOf text) 1 (.str [58]) .nonAtomic false (S + 1 + run.length + gap.length)
      (some (S + 1 + run.length + gap.length + 1, [])) :=
    ev_str_ok (pat := [58]) (s := X) hs2
  have hs3 : Suf text (S + 1 + run.length + gap.length + 1) ((B ++ commentText c) ++ s) := by rw [← hX]; exact hs2.tail
  have hlen := hs3.len
  simp only [List.length_append] at hlen
  have hbody := Ev.seq h39 hsk h58 (d := run.length + gap.length + 30)
  have h40 := evr (Layout.g40 text) (by omega) hbody (d := run.length + gap.length + 31) (at_ := .nonAtomic)
  have hstmt := Layout.ev_stmt (Ev.alt_l (Ev.alt_l (Ev.alt_l (Ev.alt_l h40 (d := run.length + gap.length + 33)
      (b := .ref 15)) (d := run.length + gap.length + 34) (b := .ref 14)) (d := run.length + gap.length + 35)
      (b := .ref 4)) (d := run.length + gap.length + 36) (b := .ref 3)) (d := run.length + gap.length + 37)
  have hsk2 := skip_gapG hG hs3
  have etl : (Stmt.label (c0 :: run) gap).text.length = 1 + run.length + gap.length + 1 := by
    simp only [Stmt.text, List.length_append, List.length_cons, List.length_nil]; omega
  refine ⟨_, _, hstmt.mono (by omega), ?_, ?_, ?_⟩
  · rw [etl, List.length_append] at *
    have e : S + (1 + run.length + gap.length + 1) + B.length + (commentText c).length =
        S + 1 + run.length + gap.length + 1 + (B.length + (commentText c).length) := by omega
    rw [e]; exact hsk2.mono (by omega)
  · simp [rule_mk, Pest.EOI]
  · intro f hf
    obtain ⟨f, rfl⟩ : ∃ f', f = f' + 1 := ⟨f - 1, by omega⟩
    have ht : txt text.toArray (.mk 39 S (S + 1 + run.length) []) = c0 :: run := by
      have := txt_suf (y := c0 :: run) (z := gap ++ 58 :: X) hs' 39 []
      rwa [List.length_cons, Nat.add_comm run.length 1, ← Nat.add_assoc] at this
    simp only [Gen.R_builtin]
    rw [parseAOp]
    simp [rule_mk, kids_mk, Gen.R_local_macro, Gen.R_label_definition, ht, Stmt.node, Except.map]

/-! ### `%push(expression)` -/

theorem fact_apush (l : List Nat) (sq : TSeq) (r : List Nat) (hl : ExprText.IsBlanks l) (hwf : sq.WF)
    (hr : ExprText.IsBlanks r) : StmtFact text (.apush l sq r) := by
  intro S B c s hs hg
  obtain ⟨hG, hC⟩ := gap_gapG hg
  obtain ⟨X, hX⟩ : ∃ X, X = B ++ commentText c ++ s := ⟨_, rfl⟩
  rw [← hX] at hs
  have hs0 : Suf text S (37 :: 112 :: 117 :: 115 :: 104 :: 40 :: (l ++ (sq.render ++ (r ++ 41 :: X)))) := by
    have := hs
    simp only [Stmt.text, List.append_assoc, List.cons_append, List.nil_append] at this
    exact this
  have hs1 : Suf text (S + 1) (112 :: 117 :: 115 :: 104 :: 40 :: (l ++ (sq.render ++ (r ++ 41 :: X)))) := hs0.tail
  have hs5 : Suf text (S + 1 + 4) (40 :: (l ++ (sq.render ++ (r ++ 41 :: X)))) :=
    Suf.app (a := [112, 117, 115, 104]) hs1
  have hs6 : Suf text (S + 1 + 4 + 1) (l ++ (sq.render ++ (r ++ 41 :: X))) := hs5.tail
  have hsP : Suf text (S + 1 + 4 + 1 + l.length) (sq.render ++ (r ++ 41 :: X)) := hs6.app
  have hsQ : Suf text (S + 1 + 4 + 1 + l.length + sq.render.length + r.length) (41 :: X) := hsP.app.app
  have hsE : Suf text (S + 1 + 4 + 1 + l.length + sq.render.length + r.length + 1) ((B ++ commentText c) ++ s) := by
    rw [← hX]; exact hsQ.tail
  have hlen := hsE.len
  simp only [List.length_append] at hlen
  obtain ⟨c1, sr, hsr, hc1⟩ := seq_start sq hwf
  have hsP' : Suf text (S + 1 + 4 + 1 + l.length) (c1 :: (sr ++ (r ++ 41 :: X))) := by rw [hsr] at hsP; exact hsP
  -- the expression
  obtain ⟨hS, hskS⟩ := seqS sq (S + 1 + 4 + 1 + l.length) r (41 :: X) hwf (gapG_blanks hr (by simp [NonBlank]))
    (closeC_paren X) hsP
  generalize seqEnd (S + 1 + 4 + 1 + l.length) sq r.length = e at hS hskS
  generalize hP : S + 1 + 4 + 1 + l.length = P at *
  generalize hQ : P + sq.render.length + r.length = Q at *
  generalize hA : seqPair P sq r.length = A at *
  have hS' : Ev (envOf text) (10 * text.length + 204) (.ref 41) .nonAtomic false P (some (e, [A])) :=
    hS.mono (by omega)
  have harg : Ev (envOf text) (10 * text.length + 207) (.ref 22) .nonAtomic false P (some (e, [A])) :=
    evr (gr22 text) (by omega) (Ev.alt_r (ev23_fail hsP' (startC_ne34 hc1)) hS' (d := 10 * text.length + 204))
      (d := 10 * text.length + 205)
  have h44 : Ev (envOf text) 1 (.str [44]) .nonAtomic false Q none :=
    ev_str_fail hsQ (by simp [List.isPrefixOf])
  have hskS' : Sk (envOf text) (text.length + 100) .nonAtomic e Q := hskS.mono (by omega)
  have hstar : Ev (envOf text) (10 * text.length + 209) (.star (.seq (.ref 22) (.str [44]))) .nonAtomic false
      P (some (P, [])) :=
    Ev.star0 (Ev.seq_fail2 harg hskS' h44 (d := 10 * text.length + 207)) (d := 10 * text.length + 208)
  have hskP : Sk (envOf text) 30 .nonAtomic P P := skip_none hsP' (startC_nonBlank hc1)
  have hlist : Ev (envOf text) (10 * text.length + 212) (.ref 21) .nonAtomic false P (some (e, [A])) :=
    evr (gr21' text) (by omega)
      (Ev.seq hstar hskP (Ev.opt_some harg (d := 10 * text.length + 207)) (d := 10 * text.length + 209))
      (d := 10 * text.length + 210)
  have h40 : Ev (envOf text) 1 (.str [40]) .nonAtomic false (S + 1 + 4) (some (S + 1 + 4 + 1, [])) :=
    ev_str_ok (pat := [40]) (s := l ++ (sq.render ++ (r ++ 41 :: X))) hs5
  have hskl : Sk (envOf text) (l.length + 30) .nonAtomic (S + 1 + 4 + 1) P := by
    rw [← hP]
    exact skip_blanks l hl
      (by rw [hsr] at hs6; exact hs6 : Suf text (S + 1 + 4 + 1) (l ++ c1 :: (sr ++ (r ++ 41 :: X))))
      (startC_nonBlank hc1)
  have h41 : Ev (envOf text) 1 (.str [41]) .nonAtomic false Q (some (Q + 1, [])) :=
    ev_str_ok (pat := [41]) (s := X) hsQ
  have hargs : Ev (envOf text) (10 * text.length + 217) (.ref 20) .nonAtomic false (S + 1 + 4) (some (Q + 1, [A])) :=
    evr (gr20' text) (by omega)
      (Ev.seq (Ev.seq h40 hskl (Ev.opt_some hlist (d := 10 * text.length + 212)) (d := 10 * text.length + 213))
        hskS' h41 (d := 10 * text.length + 214)) (d := 10 * text.length + 215)
  have hpush : Ev (envOf text) 1 (.str [112, 117, 115, 104]) .nonAtomic false (S + 1) (some (S + 1 + 4, [])) :=
    ev_str_ok (pat := [112, 117, 115, 104]) (s := 40 :: (l ++ (sq.render ++ (r ++ 41 :: X)))) hs1
  have hsk5 : Sk (envOf text) 30 .nonAtomic (S + 1 + 4) (S + 1 + 4) := skip_none hs5 (by simp [NonBlank])
  have h19 : Ev (envOf text) (10 * text.length + 220) (.ref 19) .compound false (S + 1)
      (some (Q + 1, [.mk 19 (S + 1) (Q + 1) [A]])) :=
    evr (gr19 text) (by omega) (Ev.seq hpush hsk5 hargs (d := 10 * text.length + 217)) (d := 10 * text.length + 218)
  have h37 : Ev (envOf text) 1 (.str [37]) .compound false S (some (S + 1, [])) :=
    ev_str_ok (pat := [37]) (s := 112 :: 117 :: 115 :: 104 :: 40 :: (l ++ (sq.render ++ (r ++ 41 :: X)))) hs0
  have f16 : Ev (envOf text) 4 (.ref 16) .compound false (S + 1) none :=
    evr (gr16 text) (by omega) (Ev.seq_fail1 (ev_str_fail hs1 (by simp [List.isPrefixOf])) (d := 1))
  have f17 : Ev (envOf text) 4 (.ref 17) .compound false (S + 1) none :=
    evr (gr17 text) (by omega) (Ev.seq_fail1 (ev_str_fail hs1 (by simp [List.isPrefixOf])) (d := 1))
  have f18 : Ev (envOf text) 4 (.ref 18) .compound false (S + 1) none :=
    evr (gr18 text) (by omega) (Ev.seq_fail1 (ev_str_fail hs1 (by simp [List.isPrefixOf])) (d := 1))
  have h15 : Ev (envOf text) (10 * text.length + 225) (.ref 15) .nonAtomic false S
      (some (Q + 1, [.mk 15 S (Q + 1) [.mk 19 (S + 1) (Q + 1) [A]]])) :=
    (evr (gr15 text) (by omega)
      (Ev.seq h37 (sk_comp _) (Ev.alt_r (Ev.alt_r (Ev.alt_r f16 f17 (d := 4)) f18 (d := 5)) h19
        (d := 10 * text.length + 220)) (d := 10 * text.length + 221)) (d := 10 * text.length + 222)
        (at_ := .nonAtomic)).mono (by omega)
  have hw := top_win
  simp only [Bool.and_eq_true] at hw
  have hA0 := hs0.agree (s1 := [37]) (cs := [single 37]) (closed := false) ⟨single_mem 37, trivial⟩
    (fun h => by cases h)
  have f40 : Ev (envOf text) 30 (.ref 40) .nonAtomic false S none := by
    simpa using Ev.of_window hA0 (resFail_eq hw.1.1)
  have hstmt : Ev (envOf text) (10 * text.length + 231) (.ref 2) .nonAtomic false S
      (some (Q + 1, [.mk 15 S (Q + 1) [.mk 19 (S + 1) (Q + 1) [A]]])) :=
    Layout.ev_stmt (Ev.alt_l (Ev.alt_l (Ev.alt_l (Ev.alt_r f40 h15 (d := 10 * text.length + 225))
      (d := 10 * text.length + 226)) (d := 10 * text.length + 227)) (d := 10 * text.length + 228))
      (d := 10 * text.length + 229)
  have hsk2 := skip_gapG hG hsE
  have etl : (Stmt.apush l sq r).text.length = 6 + l.length + sq.render.length + r.length + 1 := by
    simp only [Stmt.text, List.length_append, List.length_cons, List.length_nil]
  refine ⟨_, _, hstmt.mono (by omega), ?_, ?_, ?_⟩
  · rw [etl, List.length_append] at *
    have e2 : S + (6 + l.length + sq.render.length + r.length + 1) + B.length + (commentText c).length =
        Q + 1 + (B.length + (commentText c).length) := by omega
    rw [e2]; exact hsk2.mono (by omega)
  · simp [rule_mk, Pest.EOI]
  · intro f hf
    have hsP2 : Suf text P (sq.render ++ (r ++ 41 :: X)) := hsP
    have hlenP := hsP2.len
    simp only [List.length_append] at hlenP
    have hw := walkS sq P r.length _ f hwf hsP2 (by omega)
    rw [hA] at hw
    have hrA : A.rule = 41 := by rw [← hA]; exact seqPair_rule _ _ _
    simp [rule_mk, Gen.R_builtin, parseBuiltin, kids_mk, Gen.R_import, Gen.R_include, Gen.R_include_hex,
      Gen.R_push_macro, parsePushMacro, hrA, Gen.R_expression, hw, Except.map, Stmt.node]

/-! ### `push<n> expression` -/

/-- `expression` is a non-atomic rule: the state it is called in does not matter -/
theorem ref41_atom {d p : Nat} {r : Res} (at_ : Atom) (h : Ev (envOf text) d (.ref 41) .nonAtomic false p r) :
    Ev (envOf text) d (.ref 41) at_ false p r := by
  intro f hf
  rw [← h f hf]
  cases f with
  | zero => rw [matchE.eq_1, matchE.eq_1]
  | succ f =>
    rw [matchE.eq_11, matchE.eq_11]
    cases f with
    | zero => rw [callRule.eq_1, callRule.eq_1]
    | succ f =>
      rw [callRule_ruleEv (by omega) (gr41' text) (by simp [envOf]) (by simp [envOf]),
        callRule_ruleEv (by omega) (gr41' text) (by simp [envOf]) (by simp [envOf])]
      rfl

theorem isLb_of_isDec {c : Nat} (h : isDec c = true) : isLb c = true := by
  simp only [isDec, isLb, isAn, Bool.or_eq_true, Bool.and_eq_true, decide_eq_true_eq, beq_iff_eq] at h ⊢
  omega

theorem fact_pushE (n ws : Nat) (sq : TSeq) (hwf : (Stmt.pushE n ws sq).WF) : StmtFact text (.pushE n ws sq) := by
  intro S B c s hs hg
  obtain ⟨hn1, hn32, hws, hsq, hfit⟩ := hwf
  obtain ⟨hG, hC⟩ := gap_gapG hg
  -- the table row of `n`
  have hchk : pushChk n = true := List.all_eq_true.mp pushChk_all n (List.mem_range.mpr (by omega))
  have hn0 : (n == 0) = false := by simp; omega
  simp only [pushChk, hn0, Bool.false_or, Bool.and_eq_true] at hchk
  obtain ⟨⟨⟨hw32, hw9⟩, hdig⟩, hrad⟩ := hchk
  have hwin : pushChk1 n ws = true := by
    rcases hws with h | h
    · rw [h]; exact hw32
    · rw [h]; exact hw9
  simp only [pushChk1, Bool.and_eq_true] at hwin
  obtain ⟨⟨hwH, hw15⟩, hw14⟩ := hwin
  have hdig' : ∀ x ∈ decimal n, isDec x = true := by simpa using hdig
  have hrad' : parseRadix (decimal n) 10 = .ok (Int.ofNat n) := by
    cases h : parseRadix (decimal n) 10 with
    | error e => rw [h] at hrad; cases hrad
    | ok v => rw [h] at hrad; simp only [beq_iff_eq] at hrad; rw [hrad]
  generalize hdec : decimal n = dec at *
  obtain ⟨X, hX⟩ : ∃ X, X = B ++ commentText c ++ s := ⟨_, rfl⟩
  rw [← hX] at hs
  have hsA : Suf text S (([112, 117, 115, 104] ++ dec ++ [ws]) ++ (sq.render ++ X)) := by
    have := hs
    simp only [Stmt.text, hdec, List.append_assoc] at this ⊢
    exact this
  have hs0 : Suf text S (112 :: ((117 :: 115 :: 104 :: dec) ++ (ws :: (sq.render ++ X)))) := by
    have := hsA
    simp only [List.append_assoc, List.cons_append, List.nil_append] at this
    exact this
  have eL : ([112, 117, 115, 104] ++ dec ++ [ws]).length = 4 + dec.length + 1 := by
    simp only [List.length_append, List.length_cons, List.length_nil]
  have hsP : Suf text (S + (4 + dec.length + 1)) (sq.render ++ X) := by
    have := hsA.app; rwa [eL] at this
  have hsP2 : Suf text (S + (4 + dec.length + 1)) (sq.render ++ ((B ++ commentText c) ++ s)) := by
    rw [← hX]; exact hsP
  have hlenP := hsP2.len
  simp only [List.length_append] at hlenP
  obtain ⟨c1, sr, hsr, hc1⟩ := seq_start sq hsq
  -- the window `push<n><ws>`
  have hA : Agree (envOf text) (ekOf (pushWin n ws) false) S := by
    have hm : Match (pushWin n ws) ([112, 117, 115, 104] ++ dec ++ [ws]) := by
      rw [pushWin, hdec]; exact Match.singles _
    exact hsA.agree hm (fun h => by cases h)
  have Whead : Ev (envOf text) D Layout.pushHead .compound false S
      (some (S + (4 + dec.length + 1), [.mk 8 (S + 4) (S + (4 + dec.length)) []])) := by
    simpa [shiftL, Pair.shift] using Ev.of_window hA (resIs_eq hwH)
  have W15 : Ev (envOf text) D (.ref 15) .nonAtomic false S none := by
    simpa using Ev.of_window hA (resFail_eq hw15)
  have W14 : Ev (envOf text) D (.ref 14) .nonAtomic false S none := by
    simpa using Ev.of_window hA (resFail_eq hw14)
  -- `label_definition` fails: after the word and the blank comes the operand, not `:`
  have hrun : ∀ x ∈ 117 :: 115 :: 104 :: dec, isLb x = true := by
    intro x hx
    simp only [List.mem_cons] at hx
    rcases hx with h | h | h | h
    · subst h; decide
    · subst h; decide
    · subst h; decide
    · exact isLb_of_isDec (hdig' x h)
  have hwsLb : headIs isLb (ws :: (sq.render ++ X)) = false := by
    rcases hws with h | h <;> subst h <;> rfl
  have h39 := ev39_ok hs0 (by decide) hrun hwsLb
  have hs1 : Suf text (S + 1 + (117 :: 115 :: 104 :: dec).length) (ws :: (sq.render ++ X)) := hs0.tail.app
  have hwsB : ExprText.IsBlanks [ws] := by
    intro x hx; simp only [List.mem_singleton] at hx; rw [hx]; exact hws
  have hskw := skip_blanks [ws] hwsB
    (by rw [hsr] at hs1; exact hs1 : Suf text _ ([ws] ++ c1 :: (sr ++ X))) (startC_nonBlank hc1)
  have hs2 : Suf text (S + 1 + (117 :: 115 :: 104 :: dec).length + [ws].length) (c1 :: (sr ++ X)) := by
    have := hs1.tail; rw [hsr] at this; exact this
  have hc58 : c1 ≠ 58 := by
    rcases hc1 with h | h | h | h
    · simp only [isDec, Bool.and_eq_true, decide_eq_true_eq] at h; omega
    · simp only [isAl, Bool.or_eq_true, Bool.and_eq_true, decide_eq_true_eq] at h; omega
    · omega
    · omega
  have h58 : Ev (envOf text) 1 (.str [58]) .nonAtomic false _ none :=
    ev_str_fail hs2 (by have : (58 : Nat) ≠ c1 := fun h => hc58 h.symm
                        simp [List.isPrefixOf, this])
  have e117 : (117 :: 115 :: 104 :: dec).length = dec.length + 3 := by simp
  have ews : [ws].length = 1 := rfl
  have f40 := Layout.ev_labeldef_fail (Ev.seq_fail2 h39 hskw h58 (d := dec.length + 40)) (d := dec.length + 41)
    (at_ := .nonAtomic)
  -- the operand
  obtain ⟨hS, hskS⟩ := seqS sq (S + (4 + dec.length + 1)) (B ++ commentText c) s hsq hG hC hsP2
  generalize seqEnd (S + (4 + dec.length + 1)) sq (B ++ commentText c).length = e at hS hskS
  generalize hAp : seqPair (S + (4 + dec.length + 1)) sq (B ++ commentText c).length = A at *
  have hexpr : Ev (envOf text) (10 * text.length + 204) (.ref 41) .compound false (S + (4 + dec.length + 1))
      (some (e, [A])) := ref41_atom .compound (hS.mono (by omega))
  have hD : D = 100 := rfl
  have hpush : Ev (envOf text) (10 * text.length + 207) (.ref 4) .nonAtomic false S
      (some (e, [.mk 4 S e ([.mk 8 (S + 4) (S + (4 + dec.length)) []] ++ [A])])) :=
    Layout.ev_push (Ev.seq Whead (sk_comp _) hexpr (d := 10 * text.length + 204)) (d := 10 * text.length + 205)
  have hstmt : Ev (envOf text) (10 * text.length + 213) (.ref 2) .nonAtomic false S
      (some (e, [.mk 4 S e ([.mk 8 (S + 4) (S + (4 + dec.length)) []] ++ [A])])) :=
    Layout.ev_stmt (Ev.alt_l (Ev.alt_r (Ev.alt_r (Ev.alt_r f40 W15 (d := dec.length + 100)) W14
      (d := dec.length + 101)) hpush (d := 10 * text.length + 209)) (d := 10 * text.length + 210) (b := .ref 3))
      (d := 10 * text.length + 211)
  have etl : (Stmt.pushE n ws sq).text.length = 4 + dec.length + 1 + sq.render.length := by
    simp only [Stmt.text, hdec, List.length_append, List.length_cons, List.length_nil]
  refine ⟨_, _, hstmt.mono (by omega), ?_, ?_, ?_⟩
  · rw [etl]
    rw [List.length_append] at hskS
    have e2 : S + (4 + dec.length + 1 + sq.render.length) + B.length + (commentText c).length =
        S + (4 + dec.length + 1) + sq.render.length + (B.length + (commentText c).length) := by omega
    rw [e2]; exact hskS.mono (by omega)
  · simp [rule_mk, Pest.EOI]
  · intro f hf
    obtain ⟨f, rfl⟩ : ∃ f', f = f' + 1 := ⟨f - 1, by omega⟩
    have hw := walkS sq (S + (4 + dec.length + 1)) (B ++ commentText c).length _ f hsq hsP2 (by omega)
    rw [hAp] at hw
    have hsz : Suf text (S + 4) (dec ++ (ws :: (sq.render ++ X))) := by
      have := Suf.app (a := [112, 117, 115, 104]) (b := dec ++ (ws :: (sq.render ++ X)))
        (by simpa only [List.append_assoc, List.cons_append, List.nil_append] using hsA)
      exact this
    have ht : txt text.toArray (.mk 8 (S + 4) (S + (4 + dec.length)) []) = dec := by
      have := txt_suf hsz 8 []
      rwa [Nat.add_assoc] at this
    have htn : (Int.ofNat n).toNat = n := rfl
    have hsize : ¬ (n < 1 ∨ n > 32) := by omega
    simp only [rule_mk, Gen.R_builtin, Nat.reduceEqDiff, if_false]
    rw [parseAOp]
    simp only [rule_mk, Gen.R_local_macro, Gen.R_label_definition, Gen.R_push, Nat.reduceEqDiff, if_false, if_true]
    simp only [parsePush, kids_mk, List.singleton_append, ht, hrad', htn, hsize, if_false, hw]
    cases hev : evalClosed f sq.expr with
    | none => simp [Stmt.node, Except.map]
    | some v =>
      have hlt := hfit f v hev
      have hnge : ¬ (v ≥ (2 : Int) ^ (8 * n)) := by omega
      simp [hnge, Stmt.node, Except.map]

/-! ### every statement -/

theorem stmt_fact (st : Stmt) (h : st.WF) : StmtFact text st := by
  cases st with
  | ins i => exact fact_ins i h
  | pushE n ws sq => exact fact_pushE n ws sq h
  | apush l sq r => exact fact_apush l sq r h.1 h.2.1 h.2.2
  | label name gap => exact fact_label name gap h.1 h.2

/-- the first character of a statement: a letter or `%` -/
def StartS (c : Nat) : Prop := isAl c = true ∨ c = 37

theorem stmt_start (st : Stmt) (h : st.WF) : ∃ c t, st.text = c :: t ∧ StartS c := by
  cases st with
  | ins i =>
    obtain ⟨c, m, hm, h1, h2⟩ := (rowFacts h).head
    refine ⟨c, m ++ (if (rowI i).extra = 0 then [] else [32, 48, 120] ++ hexOf i.imm), ?_, Or.inl ?_⟩
    · simp [Stmt.text, Layout.stmtText_eq h, hm]
    · simp only [isAl, Bool.or_eq_true, Bool.and_eq_true, decide_eq_true_eq]; omega
  | pushE n ws sq => exact ⟨112, _, rfl, Or.inl (by decide)⟩
  | apush l sq r => exact ⟨37, _, rfl, Or.inr rfl⟩
  | label name gap =>
    obtain ⟨c, run, rfl, hc, _⟩ := isLabel_split h.1
    exact ⟨c, _, rfl, Or.inl hc⟩

end ProgText
end Asm
end EtkVerif
