/-
The pest interpreter (`Pest.parse` over the regenerated grammar `Gen.grammar`)
run on a disassembly listing yields exactly the pair tree `pairsFrom 0 is`.

Route: the window interpreter `matchK` (PestK.lean, sound by PestLogic.lean) is run by
the kernel on one window per table row (ListingTable.lean); the statement loop of
`inner` is then an induction over the instruction list.
-/
import EtkVerif.Asm.ListingTable
import EtkVerif.Asm.PestLogic
namespace EtkVerif
namespace Asm
namespace Listing
open Pest

/-! ### a window of classes against a text -/

def Match : List Cls → List Nat → Prop
  | [], [] => True
  | cl :: cs, c :: s => cl.mem c ∧ Match cs s
  | _, _ => False

theorem Match.append : ∀ {a : List Cls} {s : List Nat} {b : List Cls} {t : List Nat},
    Match a s → Match b t → Match (a ++ b) (s ++ t)
  | [], [], _, _, _, h => h
  | _ :: a, _ :: s, _, _, h1, h2 => ⟨h1.1, Match.append (a := a) (s := s) h1.2 h2⟩
  | [], _ :: _, _, _, h, _ => h.elim
  | _ :: _, [], _, _, h, _ => h.elim

theorem Match.length : ∀ {a : List Cls} {s : List Nat}, Match a s → a.length = s.length
  | [], [], _ => rfl
  | _ :: a, _ :: s, h => by simp [Match.length (a := a) (s := s) h.2]
  | [], _ :: _, h => h.elim
  | _ :: _, [], h => h.elim

theorem Match.get : ∀ {a : List Cls} {s : List Nat} (q : Nat) (cl : Cls), Match a s → a[q]? = some cl →
    ∃ c, s[q]? = some c ∧ cl.mem c
  | [], [], q, cl, _, h => by simp at h
  | x :: a, c :: s, 0, cl, hm, h => by
    simp only [List.getElem?_cons_zero, Option.some.injEq] at h
    exact ⟨c, by simp, h ▸ hm.1⟩
  | x :: a, c :: s, q + 1, cl, hm, h => by
    simp only [List.getElem?_cons_succ] at h ⊢
    exact Match.get q cl hm.2 h
  | [], _ :: _, _, _, h, _ => h.elim
  | _ :: _, [], _, _, h, _ => h.elim

theorem single_mem (c : Nat) : (single c).mem c := ⟨(c, c), by simp [single], Nat.le_refl _, Nat.le_refl _⟩

theorem Match.singles : ∀ (m : List Nat), Match (m.map single) m
  | [] => trivial
  | c :: m => ⟨single_mem c, Match.singles m⟩

theorem hexDigit_mem {n : Nat} (h : n < 16) : hexCls.mem (hexDigit n) := by
  unfold hexDigit
  by_cases h1 : n < 10
  · exact ⟨(48, 57), by simp [hexCls], by simp only [h1, if_true]; omega, by simp only [h1, if_true]; omega⟩
  · exact ⟨(97, 102), by simp [hexCls], by simp only [h1, if_false]; omega, by simp only [h1, if_false]; omega⟩

theorem Match.hex : ∀ (bs : List Nat), (∀ b ∈ bs, b < 256) →
    Match (List.replicate (2 * bs.length) hexCls) (hexOf bs)
  | [], _ => trivial
  | b :: bs, h => by
    have hb : b < 256 := h b (by simp)
    have : 2 * (b :: bs).length = 2 * bs.length + 1 + 1 := by simp only [List.length_cons]; omega
    rw [this, List.replicate_succ, List.replicate_succ]
    exact ⟨hexDigit_mem (by omega), hexDigit_mem (by omega), Match.hex bs (fun x hx => h x (by simp [hx]))⟩

/-! ### the environment of `Pest.parse` -/

def envOf (text : List Nat) : Env := ⟨Gen.grammar.toArray, text.toArray, some 49, some 50⟩

theorem agree_of_match {cs : List Cls} {s : List Nat} (pre rest : List Nat) (closed : Bool)
    (hm : Match cs s) (hc : closed = true → rest = []) :
    Agree (envOf (pre ++ s ++ rest)) (ekOf cs closed) pre.length where
  g := rfl
  ws := rfl
  comment := rfl
  cs := by
    intro q cl hq
    obtain ⟨c, h1, h2⟩ := Match.get q cl hm hq
    refine ⟨c, ?_, h2⟩
    have hq' : q < s.length := by
      rcases Nat.lt_or_ge q s.length with h | h
      · exact h
      · rw [List.getElem?_eq_none h] at h1; cases h1
    show (pre ++ s ++ rest).toArray[pre.length + q]? = some c
    rw [List.getElem?_toArray, List.getElem?_append_left (by simp; omega),
      List.getElem?_append_right (by omega)]
    simpa using h1
  closed := by
    intro h
    have hr : rest = [] := hc h
    show (pre ++ s ++ rest).toArray.size = pre.length + cs.length
    simp [hr, hm.length]

/-! ### facts about the row of a valid instruction -/

def rowI (i : Disasm.Instr) : OpRow := Ops.rowOf Gen.cancun i.op

structure RowFacts (r : OpRow) : Prop where
  closed : matchK (ekOf (rowWin r) true) D lineE .nonAtomic false 0 = some (some (lineLen r, [pairRel r]))
  opened : matchK (ekOf (rowWin r ++ [letterCls]) false) D lineE .nonAtomic false 0 =
    some (some (lineLen r, [pairRel r]))
  head : ∃ c m, r.mnem = c :: m ∧ 97 ≤ c ∧ c ≤ 122

theorem rowFacts {i : Disasm.Instr} (hv : Valid i) : RowFacts (rowI i) := by
  have hlen : Gen.cancun.length = 256 := by decide +kernel
  have hmem : rowI i ∈ Gen.cancun := by
    unfold rowI Ops.rowOf
    rw [List.getD_eq_getElem?_getD, List.getElem?_eq_getElem (by have := hv.1; omega)]
    simp
  have hu : Ops.isUndefRow (rowI i) = false := hv.2.1
  have h1 := List.all_eq_true.mp okC_all _ hmem
  have h2 := List.all_eq_true.mp okO_all _ hmem
  have h3 := List.all_eq_true.mp okH_all _ hmem
  simp only [okC, hu, Bool.false_or] at h1
  simp only [okO, hu, Bool.false_or] at h2
  simp only [okH, hu, Bool.false_or] at h3
  refine ⟨resIs_eq h1, resIs_eq h2, ?_⟩
  cases hm : (rowI i).mnem with
  | nil => rw [hm] at h3; cases h3
  | cons c m =>
    rw [hm] at h3
    simp only [Bool.and_eq_true, decide_eq_true_eq] at h3
    exact ⟨c, m, rfl, h3.1, h3.2⟩

theorem imm_empty_iff {i : Disasm.Instr} (hv : Valid i) : i.imm.isEmpty = true ↔ (rowI i).extra = 0 := by
  have := hv.2.2.1
  unfold rowI
  rw [← this]
  cases i.imm <;> simp

theorem line_eq {i : Disasm.Instr} (hv : Valid i) :
    line i = (rowI i).mnem ++
      (if (rowI i).extra = 0 then [] else [32, 48, 120] ++ hexOf i.imm) ++ [10] := by
  unfold line mnemOf
  by_cases h : (rowI i).extra = 0
  · have := (imm_empty_iff hv).mpr h
    simp only [h, this, if_true]; rfl
  · have : ¬ i.imm.isEmpty = true := fun h' => h ((imm_empty_iff hv).mp h')
    simp only [h, this, if_false]; rfl

theorem line_match {i : Disasm.Instr} (hv : Valid i) : Match (rowWin (rowI i)) (line i) := by
  rw [line_eq hv]
  unfold rowWin
  refine Match.append (Match.append (Match.singles _) ?_) ⟨single_mem 10, trivial⟩
  by_cases h : (rowI i).extra = 0
  · simp only [h, if_true]; trivial
  · simp only [h, if_false]
    have hl : (rowI i).extra = i.imm.length := hv.2.2.1.symm
    rw [hl]
    exact ⟨single_mem 32, single_mem 48, single_mem 120, Match.hex _ hv.2.2.2⟩

theorem line_len {i : Disasm.Instr} (hv : Valid i) : (line i).length = lineLen (rowI i) := by
  rw [← (line_match hv).length]
  unfold rowWin lineLen
  by_cases h : (rowI i).extra = 0
  · simp [h]
  · simp [h]; omega

theorem pairOf_eq {i : Disasm.Instr} (hv : Valid i) (p : Nat) :
    Pair.shift p (pairRel (rowI i)) = pairOf p i := by
  have hl : (rowI i).extra = i.imm.length := hv.2.2.1.symm
  unfold pairRel pairOf mnemOf
  by_cases h : (rowI i).extra = 0
  · have := (imm_empty_iff hv).mpr h
    simp only [h, this, if_true, Pair.shift, shiftL]
    rfl
  · have : ¬ i.imm.isEmpty = true := fun h' => h ((imm_empty_iff hv).mp h')
    simp only [h, this, if_false, Pair.shift, shiftL, Bool.false_eq_true]
    have hl' : (Ops.rowOf Gen.cancun i.op).extra = i.imm.length := hl
    simp only [rowI, hl', Nat.add_assoc]
    rfl

theorem listing_cons (i : Disasm.Instr) (is : List Disasm.Instr) : listing (i :: is) = line i ++ listing is := by
  simp [listing]

theorem listing_head {j : Disasm.Instr} (hv : Valid j) (js : List Disasm.Instr) :
    ∃ c rest, listing (j :: js) = c :: rest ∧ letterCls.mem c := by
  obtain ⟨c, m, hm, h1, h2⟩ := (rowFacts hv).head
  refine ⟨c, m ++ (if (rowI j).extra = 0 then [] else [32, 48, 120] ++ hexOf j.imm) ++ [10] ++ listing js, ?_,
    ⟨(97, 122), by simp [letterCls], h1, h2⟩⟩
  rw [listing_cons, line_eq hv, hm]
  simp

/-- one statement line, anywhere in a listing -/
theorem line_ok {i : Disasm.Instr} (hv : Valid i) (pre : List Nat) (is : List Disasm.Instr)
    (hvs : ∀ j ∈ is, Valid j) (f : Nat) (hf : D ≤ f) :
    matchE (envOf (pre ++ line i ++ listing is)) f lineE .nonAtomic false pre.length =
      some (pre.length + (line i).length, [pairOf pre.length i]) := by
  have hF := rowFacts hv
  cases is with
  | nil =>
    have hA := agree_of_match pre (listing []) true (line_match hv) (fun _ => rfl)
    have := (sound hA D).m _ _ _ _ _ hF.closed f hf
    rw [Nat.add_zero] at this
    rw [this, shiftR_some, line_len hv]
    simp only [shiftL, pairOf_eq hv]
  | cons j js =>
    obtain ⟨c, rest, hc, hmem⟩ := listing_head (hvs j (by simp)) js
    have hA := agree_of_match pre rest false
      (Match.append (line_match hv) (show Match [letterCls] [c] from ⟨hmem, trivial⟩)) (fun h => by cases h)
    have := (sound hA D).m _ _ _ _ _ hF.opened f hf
    rw [Nat.add_zero] at this
    have he : pre ++ (line i ++ [c]) ++ rest = pre ++ line i ++ listing (j :: js) := by
      rw [hc]; simp
    rw [he] at this
    rw [this, shiftR_some, line_len hv]
    simp only [shiftL, pairOf_eq hv]

/-! ### the end of input and the beginning of a line -/

theorem eof_facts (text : List Nat) :
    (∀ f, 10 ≤ f → skip (envOf text) f .nonAtomic text.length = text.length) ∧
    (∀ f, 10 ≤ f → matchE (envOf text) f (.star (.ref 1003)) .nonAtomic false text.length = some (text.length, [])) ∧
    (∀ f, D ≤ f → matchE (envOf text) f lineE .nonAtomic false text.length = none) ∧
    (∀ f, D ≤ f → matchE (envOf text) f (.opt (.ref 2)) .nonAtomic false text.length = some (text.length, [])) ∧
    (∀ f, 10 ≤ f → callRule (envOf text) f EOI .nonAtomic false text.length =
      some (text.length, [.mk EOI text.length text.length []])) := by
  have hA := agree_of_match text [] true (show Match [] [] from trivial) (fun _ => rfl)
  simp only [List.append_nil] at hA
  have h := eof_ok
  simp only [Bool.and_eq_true, beq_iff_eq] at h
  obtain ⟨⟨⟨⟨h1, h2⟩, h3⟩, h4⟩, h5⟩ := h
  refine ⟨fun f hf => ?_, fun f hf => ?_, fun f hf => ?_, fun f hf => ?_, fun f hf => ?_⟩
  · simpa using (sound hA 10).sk _ _ _ h1 f hf
  · simpa using (sound hA 10).m _ _ _ _ _ (resIs_eq h2) f hf
  · simpa using (sound hA D).m _ _ _ _ _ (resFail_eq h3) f hf
  · simpa using (sound hA D).m _ _ _ _ _ (resIs_eq h4) f hf
  · simpa [shiftL, Pair.shift] using (sound hA 10).cr _ _ _ _ _ (resIs_eq h5) f hf

theorem start_facts (pre : List Nat) (c : Nat) (rest : List Nat) (hc : letterCls.mem c) :
    (∀ f, 10 ≤ f → skip (envOf (pre ++ c :: rest)) f .nonAtomic pre.length = pre.length) ∧
    (∀ f, 10 ≤ f → matchE (envOf (pre ++ c :: rest)) f (.star (.ref 1003)) .nonAtomic false pre.length =
      some (pre.length, [])) := by
  have hA := agree_of_match pre rest false (show Match [letterCls] [c] from ⟨hc, trivial⟩) (fun h => by cases h)
  have he : pre ++ [c] ++ rest = pre ++ c :: rest := by simp
  rw [he] at hA
  have h := start_ok
  simp only [Bool.and_eq_true, beq_iff_eq] at h
  obtain ⟨h1, h2⟩ := h
  refine ⟨fun f hf => ?_, fun f hf => ?_⟩
  · simpa using (sound hA 10).sk _ _ _ h1 f hf
  · simpa using (sound hA 10).m _ _ _ _ _ (resIs_eq h2) f hf

/-- at the beginning of a line or at the end of the listing -/
theorem bol_facts (pre : List Nat) (is : List Disasm.Instr) (hvs : ∀ j ∈ is, Valid j) :
    (∀ f, 10 ≤ f → skip (envOf (pre ++ listing is)) f .nonAtomic pre.length = pre.length) ∧
    (∀ f, 10 ≤ f → matchE (envOf (pre ++ listing is)) f (.star (.ref 1003)) .nonAtomic false pre.length =
      some (pre.length, [])) := by
  cases is with
  | nil =>
    have := eof_facts pre
    simp only [listing, List.flatMap_nil, List.append_nil]
    exact ⟨this.1, this.2.1⟩
  | cons j js =>
    obtain ⟨c, rest, hc, hm⟩ := listing_head (hvs j (by simp)) js
    rw [hc]
    exact start_facts pre c rest hm

/-! ### the statement loop -/

def pairsOnly : Nat → List Disasm.Instr → List Pair
  | _, [] => []
  | p, i :: is => pairOf p i :: pairsOnly (p + (line i).length) is

theorem pairsFrom_eq : ∀ (is : List Disasm.Instr) (p : Nat),
    pairsFrom p is = pairsOnly p is ++ [.mk EOI (p + (listing is).length) (p + (listing is).length) []]
  | [], p => by simp [pairsFrom, pairsOnly, listing]
  | i :: is, p => by
    simp only [pairsFrom, pairsOnly, pairsFrom_eq is, listing_cons, List.length_append, Nat.add_assoc,
      List.cons_append]

theorem line_pos (i : Disasm.Instr) : 0 < (line i).length := by
  unfold line; simp only [List.length_append, List.length_cons, List.length_nil]; omega

theorem loop : ∀ (is : List Disasm.Instr) (pre : List Nat) (acc : List (List Pair)) (f : Nat),
    (∀ i ∈ is, Valid i) → D + 1 + is.length ≤ f →
    ∃ acc', rep (envOf (pre ++ listing is)) f lineE .nonAtomic false pre.length acc =
        (pre.length + (listing is).length, acc') ∧
      acc'.reverse.flatten = acc.reverse.flatten ++ pairsOnly pre.length is
  | [], pre, acc, f, _, hf => by
    obtain ⟨f, rfl⟩ : ∃ f', f = f' + 1 := ⟨f - 1, by omega⟩
    have he := eof_facts pre
    refine ⟨acc, ?_, by simp [pairsOnly]⟩
    simp only [listing, List.flatMap_nil, List.append_nil, List.length_nil, Nat.add_zero]
    rw [rep.eq_2, he.1 f (by unfold D at hf; omega), he.2.2.1 f (by omega)]
  | i :: is, pre, acc, f, hv, hf => by
    obtain ⟨f, rfl⟩ : ∃ f', f = f' + 1 := ⟨f - 1, by omega⟩
    simp only [List.length_cons] at hf
    have hvi : Valid i := hv i (by simp)
    have hvs : ∀ j ∈ is, Valid j := fun j hj => hv j (by simp [hj])
    have hs := (bol_facts pre (i :: is) hv).1 f (by unfold D at hf; omega)
    have hl := line_ok hvi pre is hvs f (by omega)
    have he : pre ++ listing (i :: is) = pre ++ line i ++ listing is := by
      rw [listing_cons, List.append_assoc]
    rw [he] at hs ⊢
    obtain ⟨acc', h1, h2⟩ := loop is (pre ++ line i) ([pairOf pre.length i] :: acc) f hvs (by omega)
    rw [List.length_append] at h1 h2
    refine ⟨acc', ?_, ?_⟩
    · rw [rep.eq_2, hs, hl]
      have hne : ¬ (pre.length + (line i).length = pre.length) := by have := line_pos i; omega
      simp only [hne, if_false]
      rw [h1, listing_cons, List.length_append, Nat.add_assoc]
    · rw [h2]; simp [pairsOnly]

theorem length_le_listing : ∀ (is : List Disasm.Instr), is.length ≤ (listing is).length
  | [] => by simp
  | i :: is => by
    have := length_le_listing is
    have := line_pos i
    rw [listing_cons, List.length_append, List.length_cons]; omega

/-! ### `inner`, `program`, `parse` -/

theorem callRule_silent {env : Env} {n : Nat} {r : Rule} (hn : n < 1000) (hg : env.g[n]? = some r)
    (hty : r.ty = .silent) (hws : env.ws ≠ some n) (hcm : env.comment ≠ some n)
    (f : Nat) (at_ : Atom) (la : Bool) (p : Nat) :
    callRule env (f + 1) n at_ la p = matchE env f r.body at_ la p := by
  have e1 : n ≠ ANY := by unfold ANY; omega
  have e2 : n ≠ SOI := by unfold SOI; omega
  have e3 : n ≠ EOI := by unfold EOI; omega
  have e4 : n ≠ NEWLINE := by unfold NEWLINE; omega
  have e5 : n ≠ ASCII_DIGIT := by unfold ASCII_DIGIT; omega
  have e6 : n ≠ ASCII_BIN_DIGIT := by unfold ASCII_BIN_DIGIT; omega
  have e7 : n ≠ ASCII_OCT_DIGIT := by unfold ASCII_OCT_DIGIT; omega
  have e8 : n ≠ ASCII_HEX_DIGIT := by unfold ASCII_HEX_DIGIT; omega
  have e9 : n ≠ ASCII_ALPHA := by unfold ASCII_ALPHA; omega
  have e10 : n ≠ ASCII_ALPHANUMERIC := by unfold ASCII_ALPHANUMERIC; omega
  rw [callRule_succ]
  unfold callSpec
  simp only [if_neg e1, if_neg e2, if_neg e3, if_neg e4, if_neg e5, if_neg e6, if_neg e7, if_neg e8, if_neg e9,
    if_neg e10]
  rw [hg]
  simp [hty, Ne.symm hws, Ne.symm hcm]

def innerBody : PE :=
  .seq (.seq (.star (.ref 1003)) (.star lineE)) (.opt (.ref 2))

def programBody : PE := .seq (.seq (.ref 1000) (.ref 1)) (.ref 1001)

theorem star_ok (is : List Disasm.Instr) (hv : ∀ i ∈ is, Valid i) (f : Nat) (hf : D + 2 + is.length ≤ f) :
    matchE (envOf (listing is)) f (.star lineE) .nonAtomic false 0 =
      some ((listing is).length, pairsOnly 0 is) := by
  obtain ⟨f, rfl⟩ : ∃ f', f = f' + 1 := ⟨f - 1, by omega⟩
  rw [matchE.eq_7]
  cases is with
  | nil =>
    have := (eof_facts []).2.2.1 f (by omega)
    simp only [List.length_nil] at this
    simp only [listing, List.flatMap_nil, List.length_nil, pairsOnly]
    rw [this]
  | cons i is =>
    simp only [List.length_cons] at hf
    have hvi : Valid i := hv i (by simp)
    have hvs : ∀ j ∈ is, Valid j := fun j hj => hv j (by simp [hj])
    have hl := line_ok hvi [] is hvs f (by omega)
    simp only [List.nil_append, List.length_nil, Nat.zero_add] at hl
    obtain ⟨acc', h1, h2⟩ := loop is (line i) [[pairOf 0 i]] f hvs (by omega)
    rw [listing_cons, hl]
    simp only
    rw [h1]
    simp only [h2, List.length_append, pairsOnly]
    simp

theorem inner_ok (is : List Disasm.Instr) (hv : ∀ i ∈ is, Valid i) (f : Nat) (hf : D + 4 + is.length ≤ f) :
    matchE (envOf (listing is)) f innerBody .nonAtomic false 0 =
      some ((listing is).length, pairsOnly 0 is) := by
  obtain ⟨f, rfl⟩ : ∃ f', f = f' + 1 + 1 := ⟨f - 2, by omega⟩
  have hb := bol_facts [] is hv
  simp only [List.nil_append, List.length_nil] at hb
  have he := eof_facts (listing is)
  unfold innerBody
  rw [matchE.eq_4, matchE.eq_4, hb.2 f (by unfold D at hf; omega)]
  simp only
  rw [hb.1 f (by unfold D at hf; omega), star_ok is hv f (by omega)]
  simp only
  rw [he.1 (f + 1) (by unfold D at hf; omega), he.2.2.2.1 (f + 1) (by omega)]
  simp

theorem g0 (text : List Nat) : (envOf text).g[0]? =
    some ⟨0, [112, 114, 111, 103, 114, 97, 109], .silent, programBody⟩ := rfl

theorem g1 (text : List Nat) : (envOf text).g[1]? =
    some ⟨1, [105, 110, 110, 101, 114], .silent, innerBody⟩ := rfl

theorem call_program (text : List Nat) (f : Nat) (at_ : Atom) (la : Bool) (p : Nat) :
    callRule (envOf text) (f + 1) 0 at_ la p = matchE (envOf text) f programBody at_ la p :=
  callRule_silent (by omega) (g0 text) rfl (by simp [envOf]) (by simp [envOf]) f at_ la p

theorem call_inner (text : List Nat) (f : Nat) (at_ : Atom) (la : Bool) (p : Nat) :
    callRule (envOf text) (f + 1) 1 at_ la p = matchE (envOf text) f innerBody at_ la p :=
  callRule_silent (by omega) (g1 text) rfl (by simp [envOf]) (by simp [envOf]) f at_ la p

theorem program_ok (is : List Disasm.Instr) (hv : ∀ i ∈ is, Valid i) (f : Nat) (hf : D + 10 + is.length ≤ f) :
    callRule (envOf (listing is)) f Gen.R_program .nonAtomic false 0 =
      some ((listing is).length, pairsFrom 0 is) := by
  obtain ⟨f, rfl⟩ : ∃ f', f = f' + 1 + 1 + 1 + 1 + 1 := ⟨f - 5, by omega⟩
  have hb := bol_facts [] is hv
  simp only [List.nil_append, List.length_nil] at hb
  have he := eof_facts (listing is)
  show callRule _ _ 0 _ _ _ = _
  rw [call_program]
  unfold programBody
  rw [matchE.eq_4, matchE.eq_4, matchE.eq_11, callRule_succ]
  have hsoi : ∀ k, callSpec (envOf (listing is)) 1000 .nonAtomic false 0 k = some (0, []) := by
    intro k; simp [callSpec, ANY, SOI]
  rw [hsoi]
  simp only
  rw [hb.1 (f + 2) (by unfold D at hf; omega), matchE.eq_11, call_inner, inner_ok is hv f (by omega)]
  simp only
  rw [he.1 (f + 3) (by unfold D at hf; omega), matchE.eq_11]
  have := he.2.2.2.2 (f + 2) (by unfold D at hf; omega)
  unfold EOI at this
  rw [this, pairsFrom_eq]
  simp [EOI]

theorem parse_listing (is : List Disasm.Instr) (hv : ∀ i ∈ is, Valid i) :
    Pest.parse Gen.grammar Gen.R_program (listing is) = some (pairsFrom 0 is) := by
  have h1 : findRule Gen.grammar [87, 72, 73, 84, 69, 83, 80, 65, 67, 69] = some 49 := by decide +kernel
  have h2 : findRule Gen.grammar [67, 79, 77, 77, 69, 78, 84] = some 50 := by decide +kernel
  unfold Pest.parse
  simp only [h1, h2]
  have := program_ok is hv (16 * (listing is).toArray.size + 1000) (by
    have := length_le_listing is
    simp only [List.size_toArray]
    unfold D; omega)
  unfold envOf at this
  rw [this]

end Listing
end Asm
end EtkVerif
