/-
Model of `etk-asm/src/parse/{mod,expression,macros,args}.rs`: from the pair
tree of the (interpreted) grammar to `Node`s.  Every `unwrap` / `unreachable!` /
`assert!` of those files is a `ParseErr.panic` outcome.
-/
import EtkVerif.Asm.Pest
import EtkVerif.Asm.Ast
import EtkVerif.Asm.Keccak
import EtkVerif.Gen.Grammar
import EtkVerif.Gen.OpTable
import EtkVerif.Ops.Model
namespace EtkVerif
namespace Asm
open Pest

abbrev PR := Except ParseErr

def strOf (cs : List Nat) : String := String.ofList (cs.map Char.ofNat)

/-- `pair.as_str()` as code points. -/
def txt (inp : Array Nat) (p : Pair) : List Nat := (inp.extract p.start p.stop).toList

/-! ### numbers -/

/-- `char::to_digit(radix)` -/
def toDigit (radix c : Nat) : Option Nat :=
  let v := if 48 ≤ c ∧ c ≤ 57 then some (c - 48)
    else if 97 ≤ c ∧ c ≤ 122 then some (c - 87)
    else if 65 ≤ c ∧ c ≤ 90 then some (c - 55)
    else none
  match v with
  | some d => if d < radix then some d else none
  | none => none

/-- `parse_radix_str`: positional value of the digit string (`unwrap` on a non-digit). -/
def parseRadix (s : List Nat) (radix : Nat) : PR Int :=
  let rec go : List Nat → Nat → PR Nat
    | [], acc => .ok acc
    | c :: cs, acc => match toDigit radix c with
      | some d => go cs (acc * radix + d)
      | none => .error (.panic "parse_radix_str to_digit unwrap")
  -- `BigInt::from_radix_be` returns `None` for an empty digit list (`unwrap`)
  if s.isEmpty then .error (.panic "from_radix_be unwrap") else (go s 0).map Int.ofNat

/-! ### precedence climbing (pest::prec_climber::PrecClimber::climb) -/

inductive BinOp | plus | minus | times | divide
  deriving Repr, DecidableEq

def BinOp.prec : BinOp → Nat
  | .plus | .minus => 1
  | .times | .divide => 2

def BinOp.mk : BinOp → Expr → Expr → Expr
  | .plus => .plus | .minus => .minus | .times => .times | .divide => .divide

mutual
/-- `climb_rec(lhs, min_prec, pairs)` over the remaining `(op, term)` list; all
operators are left-associative. -/
def climbRec : Nat → Expr → Nat → List (BinOp × Expr) → Expr × List (BinOp × Expr)
  | 0, lhs, _, rest => (lhs, rest)
  | _ + 1, lhs, _, [] => (lhs, [])
  | fuel + 1, lhs, minPrec, (op, rhs) :: rest =>
    if op.prec ≥ minPrec then
      let (rhs', rest') := climbInner fuel rhs op.prec rest
      climbRec fuel (op.mk lhs rhs') minPrec rest'
    else (lhs, (op, rhs) :: rest)
/-- the inner `while` of `climb_rec`: operators binding tighter than `prec` -/
def climbInner : Nat → Expr → Nat → List (BinOp × Expr) → Expr × List (BinOp × Expr)
  | 0, rhs, _, rest => (rhs, rest)
  | _ + 1, rhs, _, [] => (rhs, [])
  | fuel + 1, rhs, prec, (op, t) :: rest =>
    if op.prec > prec then
      let (rhs', rest') := climbRec fuel rhs op.prec ((op, t) :: rest)
      climbInner fuel rhs' prec rest'
    else (rhs, (op, t) :: rest)
end

def climb (first : Expr) (rest : List (BinOp × Expr)) : Expr :=
  (climbRec (2 * rest.length + 2) first 0 rest).1

/-! ### expressions -/

def opOfRule (r : Nat) : Option BinOp :=
  if r = Gen.R_plus then some .plus else if r = Gen.R_minus then some .minus
  else if r = Gen.R_times then some .times else if r = Gen.R_divide then some .divide else none

def beInt (bs : List Nat) : Int := Int.ofNat (bs.foldl (fun acc b => acc * 256 + b) 0)

mutual
/-- `expression::parse` / `consume` -/
def parseExpr (inp : Array Nat) : Nat → Pair → PR Expr
  | 0, _ => .error (.panic "fuel")
  | fuel + 1, p =>
    let r := p.rule
    let t := txt inp p
    if r = Gen.R_expression then
      match p.kids with
      | [] => .error (.panic "climb on empty pairs")
      | first :: rest =>
        match parseExpr inp fuel first with
        | .error e => .error e
        | .ok f =>
          match parseTail inp fuel rest with
          | .error e => .error e
          | .ok tl => .ok (climb f tl)
    else if r = Gen.R_binary then (parseRadix (t.drop 2) 2).map .num
    else if r = Gen.R_octal then (parseRadix (t.drop 2) 8).map .num
    else if r = Gen.R_hex then (parseRadix (t.drop 2) 16).map .num
    else if r = Gen.R_decimal then (parseRadix t 10).map .num
    else if r = Gen.R_negative_decimal then (parseRadix (t.drop 1) 10).map (fun v => .num (-v))
    else if r = Gen.R_label then .ok (.label (strOf t))
    else if r = Gen.R_selector ∨ r = Gen.R_topic then
      match p.kids with
      | k :: _ =>
        let h := Keccak.keccak256 ((strOf (txt inp k)).toUTF8.toList.map (fun b => b.toNat))
        .ok (.num (beInt (h.take (if r = Gen.R_selector then 4 else 32))))
      | [] => .error (.panic "parse_selector next unwrap")
    else if r = Gen.R_expression_macro then
      match p.kids with
      | name :: args =>
        match parseExprs inp fuel args with
        | .error e => .error e
        | .ok as => .ok (.macro (strOf (txt inp name)) (Exprs.ofList as))
      | [] => .error (.panic "parse_expression_macro next unwrap")
    else if r = Gen.R_instruction_macro_variable then
      match t with
      | 36 :: rest => .ok (.var (strOf rest))
      | _ => .error (.panic "strip_prefix('$') unwrap")
    else .error (.panic "expression::consume unreachable")
def parseExprs (inp : Array Nat) : Nat → List Pair → PR (List Expr)
  | 0, _ => .error (.panic "fuel")
  | _ + 1, [] => .ok []
  | fuel + 1, p :: ps =>
    match parseExpr inp fuel p with
    | .error e => .error e
    | .ok e => match parseExprs inp fuel ps with
      | .error e' => .error e'
      | .ok es => .ok (e :: es)
/-- the `(operation term)*` tail of an `expression` pair -/
def parseTail (inp : Array Nat) : Nat → List Pair → PR (List (BinOp × Expr))
  | 0, _ => .error (.panic "fuel")
  | _ + 1, [] => .ok []
  | _ + 1, [_] => .error (.panic "climb: operator without operand")
  | fuel + 1, o :: t :: rest =>
    match opOfRule o.rule with
    | none => .error (.panic "infix unreachable")
    | some op =>
      match parseExpr inp fuel t with
      | .error e => .error e
      | .ok e => match parseTail inp fuel rest with
        | .error e' => .error e'
        | .ok tl => .ok ((op, e) :: tl)
end

/-! ### statements -/

/-- `FromPair for PathBuf` (with the escapes the grammar admits) -/
def pathOf (inp : Array Nat) (p : Pair) : PR String :=
  if p.rule ≠ Gen.R_string then .error .argumentType
  else
    let t := txt inp p
    let inner := (t.drop 1).take (t.length - 2)
    let rec unesc : List Nat → List Nat
      | [] => []
      | 92 :: c :: rest => c :: unesc rest
      | [92] => []
      | c :: rest => c :: unesc rest
    .ok (strOf (unesc inner))

/-- `<(PathBuf,)>::parse_arguments` -/
def oneePath (inp : Array Nat) (args : List Pair) : PR String :=
  match args with
  | [] => .error (.missingArgument 0 1)
  | [p] => pathOf inp p
  | p :: _ :: _ => match pathOf inp p with
    | .error e => .error e
    | .ok _ => .error (.extraArgument 1)

/-- `parse_push_macro`: exactly one argument, an expression -/
def parsePushMacro (inp : Array Nat) (fuel : Nat) (p : Pair) : PR AOp :=
  match p.kids with
  | [] => .error (.missingArgument 0 1)
  | [a] => if a.rule ≠ Gen.R_expression then .error .argumentType else (parseExpr inp fuel a).map .push
  | _ :: _ :: _ => .error (.extraArgument 1)

/-- evaluation without any context (`expr.eval()` in `parse_push`): `none` if it needs one -/
def evalClosed : Nat → Expr → Option Int
  | 0, _ => none
  | fuel + 1, e => match e with
    | .num n => some n
    | .paren e => evalClosed fuel e
    | .plus a b => do let x ← evalClosed fuel a; let y ← evalClosed fuel b; pure (x + y)
    | .minus a b => do let x ← evalClosed fuel a; let y ← evalClosed fuel b; pure (x - y)
    | .times a b => do let x ← evalClosed fuel a; let y ← evalClosed fuel b; pure (x * y)
    | .divide a b => do
        let x ← evalClosed fuel a
        let y ← evalClosed fuel b
        if y = 0 then none else pure (Int.tdiv x y)
    | _ => none

def exprSize : Nat → Expr → Nat
  | 0, _ => 1
  | f + 1, e => match e with
    | .paren e => 1 + exprSize f e
    | .plus a b | .minus a b | .times a b | .divide a b => 1 + exprSize f a + exprSize f b
    | _ => 1

/-- `parse_push` -/
def parsePush (inp : Array Nat) (fuel : Nat) (p : Pair) : PR AOp :=
  match p.kids with
  | [sz, operand] =>
    match parseRadix (txt inp sz) 10 with
    | .error _ => .error (.panic "size parse unwrap")
    | .ok n =>
      let size := n.toNat
      if size < 1 ∨ size > 32 then .error (.panic "Op::push unwrap")
      else match parseExpr inp fuel operand with
        | .error e => .error e
        | .ok e =>
          match evalClosed fuel e with
          | some v => if v ≥ (2 : Int) ^ (8 * size) then .error .immediateTooLarge else .ok (.op (0x5f + size) (some e))
          | none => .ok (.op (0x5f + size) (some e))
  | _ => .error (.panic "parse_push next unwrap")

mutual
/-- `parse_abstract_op` -/
def parseAOp (inp : Array Nat) : Nat → Pair → PR AOp
  | 0, _ => .error (.panic "fuel")
  | fuel + 1, p =>
    let r := p.rule
    if r = Gen.R_local_macro then
      match p.kids with
      | [] => .error (.panic "macros::parse next unwrap")
      | k :: _ =>
        if k.rule = Gen.R_instruction_macro_definition then
          match k.kids with
          | decl :: stmts =>
            match decl.kids with
            | name :: params =>
              match parseBody inp fuel stmts with
              | .error e => .error e
              | .ok body => .ok (.instrDef (strOf (txt inp name)) (params.map (fun q => strOf (txt inp q))) (AOps.ofList body))
            | [] => .error (.panic "macro_defn next unwrap")
          | [] => .error (.panic "macro_defn next unwrap")
        else if k.rule = Gen.R_instruction_macro then
          match k.kids with
          | name :: args =>
            match parseExprs inp fuel args with
            | .error e => .error e
            | .ok as => .ok (.macro (strOf (txt inp name)) as)
          | [] => .error (.panic "instruction_macro next unwrap")
        else if k.rule = Gen.R_expression_macro_definition then
          match k.kids with
          | decl :: body :: _ =>
            match decl.kids with
            | name :: params =>
              match parseExpr inp fuel body with
              | .error e => .error e
              | .ok b => .ok (.exprDef (strOf (txt inp name)) (params.map (fun q => strOf (txt inp q))) b)
            | [] => .error (.panic "macro_defn next unwrap")
          | _ => .error (.panic "expression_macro_defn next unwrap")
        else .error (.panic "macros::parse unreachable")
    else if r = Gen.R_label_definition then
      match p.kids with
      | l :: _ => .ok (.label (strOf (txt inp l)))
      | [] => .error (.panic "label_definition next unwrap")
    else if r = Gen.R_push then parsePush inp fuel p
    else if r = Gen.R_op then
      match Ops.parse Gen.cancun (txt inp p) with
      | some code => .ok (.op code none)       -- `Op::new(spec).unwrap()`: fine for every non-push
      | none => .error (.panic "mnemonic parse unwrap")
    else .error (.panic "parse_abstract_op unreachable")
/-- statements of an instruction macro body -/
def parseBody (inp : Array Nat) : Nat → List Pair → PR (List AOp)
  | 0, _ => .error (.panic "fuel")
  | _ + 1, [] => .ok []
  | fuel + 1, p :: ps =>
    let one := if p.rule = Gen.R_push_macro then parsePushMacro inp fuel p else parseAOp inp fuel p
    match one with
    | .error e => .error e
    | .ok o => match parseBody inp fuel ps with
      | .error e => .error e
      | .ok os => .ok (o :: os)
end

/-- `parse_builtin` -/
def parseBuiltin (inp : Array Nat) (fuel : Nat) (p : Pair) : PR Node :=
  match p.kids with
  | [k] =>
    if k.rule = Gen.R_import then (oneePath inp k.kids).map .import_
    else if k.rule = Gen.R_include then (oneePath inp k.kids).map .include
    else if k.rule = Gen.R_include_hex then (oneePath inp k.kids).map .includeHex
    else if k.rule = Gen.R_push_macro then (parsePushMacro inp fuel k).map .op
    else .error (.panic "parse_builtin unreachable")
  | [] => .error (.panic "parse_builtin next unwrap")
  | _ => .error (.panic "parse_builtin assert")

mutual
/-- structural size of pair trees (the walk's fuel is computed from it) -/
def pairSize : Pair → Nat
  | .mk _ _ _ kids => 1 + pairsSize kids
def pairsSize : List Pair → Nat
  | [] => 0
  | p :: ps => pairSize p + pairsSize ps
end

/-- `parse_asm`: source text (code points) to nodes. -/
def parseAsm (text : List Nat) : PR (List Node) :=
  match Pest.parse Gen.grammar Gen.R_program text with
  | none => .error .lexer
  | some pairs =>
    let inp := text.toArray
    let fuel := 4 * text.length + 100 + pairsSize pairs
    let rec go : List Pair → PR (List Node)
      | [] => .ok []
      | p :: ps =>
        if p.rule = Pest.EOI then go ps
        else
          let one := if p.rule = Gen.R_builtin then parseBuiltin inp fuel p else (parseAOp inp fuel p).map .op
          match one with
          | .error e => .error e
          | .ok n => match go ps with
            | .error e => .error e
            | .ok ns => .ok (n :: ns)
    go pairs

end Asm
end EtkVerif
