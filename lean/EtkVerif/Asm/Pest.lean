/-
A generic interpreter of pest 2.1.3 grammars, written from the code
pest_generator emits (`generator.rs`) and `pest::ParserState`:
* atomicity is dynamic state: normal / silent rules inherit it, `@` rules run
  their body atomic, `$` compound-atomic, `!` non-atomic; the bodies of
  WHITESPACE and COMMENT are always atomic;
* `a ~ b` is `a · skip · b`; `a*` is `(a (skip a)*)?` where a failing `skip a`
  pair restores the position before the skip; `a+` is `a ~ a*`;
* `skip` is `WHITESPACE* (COMMENT WHITESPACE*)*` in the non-atomic state and
  nothing otherwise;
* ordered choice, optional and look-ahead restore the position; look-ahead emits
  no tokens;
* silent rules contribute their children; atomic rules hide theirs (tokens are
  only produced when the current atomicity is not `atomic`).
Fuel bounds the recursion; `parse` supplies enough for every input (each rule of
a pest-accepted grammar consumes input before recurring).
-/
import EtkVerif.Asm.PestTypes
namespace EtkVerif
namespace Pest

inductive Atom | atomic | compound | nonAtomic
  deriving Repr, DecidableEq, Inhabited

/-- A token pair: rule, start and end position (in characters), children. -/
inductive Pair where
  | mk (rule : Nat) (s e : Nat) (kids : List Pair)
  deriving Repr, Inhabited

def Pair.rule : Pair → Nat | .mk r _ _ _ => r
def Pair.start : Pair → Nat | .mk _ s _ _ => s
def Pair.stop : Pair → Nat | .mk _ _ e _ => e
def Pair.kids : Pair → List Pair | .mk _ _ _ k => k

abbrev Res := Option (Nat × List Pair)

structure Env where
  g : Array Rule
  inp : Array Nat
  ws : Option Nat        -- id of WHITESPACE, if the grammar defines it
  comment : Option Nat   -- id of COMMENT

def isPrefixAt (inp : Array Nat) (p : Nat) : List Nat → Bool
  | [] => true
  | c :: cs => (inp[p]? == some c) && isPrefixAt inp (p + 1) cs

def charIn (inp : Array Nat) (p lo hi : Nat) : Bool :=
  match inp[p]? with
  | some c => lo ≤ c && c ≤ hi
  | none => false

mutual
/-- match expression `e` at position `p`; `la` = inside a look-ahead -/
def matchE (env : Env) : Nat → PE → Atom → Bool → Nat → Res
  | 0, _, _, _, _ => none
  | f + 1, e, at_, la, p =>
    match e with
    | .str s => if isPrefixAt env.inp p s then some (p + s.length, []) else none
    | .range lo hi => if charIn env.inp p lo hi then some (p + 1, []) else none
    | .seq a b =>
      match matchE env f a at_ la p with
      | none => none
      | some (p1, k1) =>
        let p2 := skip env f at_ p1
        match matchE env f b at_ la p2 with
        | none => none
        | some (p3, k3) => some (p3, k1 ++ k3)
    | .alt a b =>
      match matchE env f a at_ la p with
      | some r => some r
      | none => matchE env f b at_ la p
    | .opt a =>
      match matchE env f a at_ la p with
      | some r => some r
      | none => some (p, [])
    | .star a =>
      match matchE env f a at_ la p with
      | none => some (p, [])
      | some (p1, k1) =>
        let (p', acc) := rep env f a at_ la p1 [k1]
        some (p', acc.reverse.flatten)
    | .plus a =>
      match matchE env f a at_ la p with
      | none => none
      | some (p1, k1) =>
        let p2 := skip env f at_ p1
        match matchE env f a at_ la p2 with
        | none => some (p2, k1)
        | some (p3, k3) =>
          let (p', acc) := rep env f a at_ la p3 [k3, k1]
          some (p', acc.reverse.flatten)
    | .neg a =>
      match matchE env f a at_ true p with
      | some _ => none
      | none => some (p, [])
    | .pos a =>
      match matchE env f a at_ true p with
      | some _ => some (p, [])
      | none => none
    | .ref n => callRule env f n at_ la p

/-- `(skip a)*` after a first `a`; `acc` holds the pairs of the iterations so far, most recent first
(reversed chunks), so that a long statement list is collected in linear time -/
def rep (env : Env) : Nat → PE → Atom → Bool → Nat → List (List Pair) → Nat × List (List Pair)
  | 0, _, _, _, p, acc => (p, acc)
  | f + 1, a, at_, la, p, acc =>
    let p1 := skip env f at_ p
    match matchE env f a at_ la p1 with
    | none => (p, acc)
    | some (p2, k2) => if p2 = p then (p, acc) else rep env f a at_ la p2 (k2 :: acc)

/-- implicit whitespace / comments between sequence and repetition elements -/
def skip (env : Env) : Nat → Atom → Nat → Nat
  | 0, _, p => p
  | f + 1, at_, p =>
    if at_ != .nonAtomic then p else
    let p1 := match env.ws with
      | some w => many env f w p
      | none => p
    match env.comment with
    | some c => skipC env f c p1
    | none => p1

def skipC (env : Env) : Nat → Nat → Nat → Nat
  | 0, _, p => p
  | f + 1, c, p =>
    match callRule env f c .nonAtomic false p with
    | none => p
    | some (p1, _) =>
      let p2 := match env.ws with
        | some w => many env f w p1
        | none => p1
      if p2 = p then p else skipC env f c p2

def many (env : Env) : Nat → Nat → Nat → Nat
  | 0, _, p => p
  | f + 1, n, p =>
    match callRule env f n .nonAtomic false p with
    | none => p
    | some (p1, _) => if p1 = p then p else many env f n p1

def callRule (env : Env) : Nat → Nat → Atom → Bool → Nat → Res
  | 0, _, _, _, _ => none
  | f + 1, n, at_, la, p =>
    let tok (emit : Bool) (r : Res) : Res :=
      match r with
      | none => none
      | some (p', ks) => if emit && !la then some (p', [Pair.mk n p p' ks]) else some (p', ks)
    let cls (lo hi : Nat) : Res := if charIn env.inp p lo hi then some (p + 1, []) else none
    if n = ANY then (if p < env.inp.size then some (p + 1, []) else none)
    else if n = SOI then (if p = 0 then some (p, []) else none)
    else if n = EOI then tok (at_ != .atomic) (if p = env.inp.size then some (p, []) else none)
    else if n = NEWLINE then
      (if isPrefixAt env.inp p [10] then some (p + 1, [])
       else if isPrefixAt env.inp p [13, 10] then some (p + 2, [])
       else if isPrefixAt env.inp p [13] then some (p + 1, []) else none)
    else if n = ASCII_DIGIT then cls 48 57
    else if n = ASCII_BIN_DIGIT then cls 48 49
    else if n = ASCII_OCT_DIGIT then cls 48 55
    else if n = ASCII_HEX_DIGIT then ((cls 48 57 <|> cls 97 102) <|> cls 65 70)
    else if n = ASCII_ALPHA then (cls 97 122 <|> cls 65 90)
    else if n = ASCII_ALPHANUMERIC then ((cls 48 57 <|> cls 97 122) <|> cls 65 90)
    else
      match env.g[n]? with
      | none => none
      | some r =>
        if some n = env.ws || some n = env.comment then
          let res := matchE env f r.body .atomic la p
          match r.ty with
          | .silent => res
          | _ => tok (at_ != .atomic) res
        else
        match r.ty with
        | .silent => matchE env f r.body at_ la p
        | .normal => tok (at_ != .atomic) (matchE env f r.body at_ la p)
        | .atomic => tok (at_ != .atomic) (matchE env f r.body .atomic la p)
        | .compound => tok true (matchE env f r.body .compound la p)
        | .nonAtomic => tok true (matchE env f r.body .nonAtomic la p)
end

def findRule (g : List Rule) (name : List Nat) : Option Nat := (g.find? (·.name == name)).map (·.id)

/-- `Parser::parse(start, text)`: the top-level pairs, or `none` on a lexing error. -/
def parse (g : List Rule) (start : Nat) (text : List Nat) : Option (List Pair) :=
  let inp := text.toArray
  let env : Env := ⟨g.toArray, inp, findRule g [87, 72, 73, 84, 69, 83, 80, 65, 67, 69],
                    findRule g [67, 79, 77, 77, 69, 78, 84]⟩
  match callRule env (16 * inp.size + 1000) start .nonAtomic false 0 with
  | some (_, ks) => some ks
  | none => none

end Pest
end EtkVerif
