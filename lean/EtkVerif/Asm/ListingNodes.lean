/-
`parse_asm`'s walk over the pair tree of a listing builds one `Op` node per
instruction: the opcode byte, and for `pushN` the immediate's value.
-/
import EtkVerif.Asm.Listing
namespace EtkVerif
namespace Asm
namespace Listing
open Pest

/-! ### `pair.as_str()` on a decomposed input -/

theorem txt_decomp (l x y z : List Nat) (r a b : Nat) (k : List Pair)
    (hl : l = x ++ y ++ z) (ha : a = x.length) (hb : b = a + y.length) :
    txt l.toArray (.mk r a b k) = y := by
  subst hl ha hb
  simp only [txt, Pair.start, Pair.stop, Array.toList_extract, List.extract_eq_take_drop]
  rw [List.append_assoc, List.drop_left' rfl, Nat.add_sub_cancel_left, List.take_left' rfl]

/-! ### finite facts about the Cancun table -/

/-- per byte: a defined row without immediate has a mnemonic `FromStr` maps back
to the byte; a defined row with an immediate is `push<extra>` at `0x5f + extra` -/
def rowChk (b : Nat) : Bool :=
  let r := Ops.rowOf Gen.cancun b
  Ops.isUndefRow r ||
    (if r.extra == 0 then Ops.parse Gen.cancun r.mnem == some b
     else (0x5f + r.extra == b && 1 ≤ r.extra && r.extra ≤ 32 && 4 ≤ r.mnem.length &&
        match parseRadix (r.mnem.drop 4) 10 with
        | .ok v => v == Int.ofNat r.extra
        | .error _ => false))

theorem rowChk_all : (List.range 256).all rowChk = true := by decide +kernel

theorem rowChk_of_lt {b : Nat} (hb : b < 256) : rowChk b = true :=
  List.all_eq_true.mp rowChk_all b (List.mem_range.mpr hb)

theorem row_noimm {b : Nat} (hb : b < 256)
    (hu : Ops.isUndefRow (Ops.rowOf Gen.cancun b) = false)
    (he : (Ops.rowOf Gen.cancun b).extra = 0) :
    Ops.parse Gen.cancun (Ops.rowOf Gen.cancun b).mnem = some b := by
  have h := rowChk_of_lt hb
  simp only [rowChk, hu, he, Bool.false_or, beq_self_eq_true, if_true] at h
  exact eq_of_beq h

theorem row_push {b : Nat} (hb : b < 256)
    (hu : Ops.isUndefRow (Ops.rowOf Gen.cancun b) = false)
    (he : (Ops.rowOf Gen.cancun b).extra ≠ 0) :
    0x5f + (Ops.rowOf Gen.cancun b).extra = b ∧ 1 ≤ (Ops.rowOf Gen.cancun b).extra ∧
    (Ops.rowOf Gen.cancun b).extra ≤ 32 ∧ 4 ≤ (Ops.rowOf Gen.cancun b).mnem.length ∧
    parseRadix ((Ops.rowOf Gen.cancun b).mnem.drop 4) 10
      = .ok (Int.ofNat (Ops.rowOf Gen.cancun b).extra) := by
  have h := rowChk_of_lt hb
  have he' : ((Ops.rowOf Gen.cancun b).extra == 0) = false := by simpa using he
  simp only [rowChk, hu, he', Bool.false_or, Bool.false_eq_true, if_false, Bool.and_eq_true,
    beq_iff_eq, decide_eq_true_eq] at h
  obtain ⟨⟨⟨⟨h1, h2⟩, h3⟩, h4⟩, h5⟩ := h
  refine ⟨h1, h2, h3, h4, ?_⟩
  revert h5
  cases parseRadix ((Ops.rowOf Gen.cancun b).mnem.drop 4) 10 with
  | error e => simp
  | ok v => intro h5; rw [eq_of_beq h5]

/-! ### the hex immediate -/

theorem toDigit_hexDigit : ∀ d, d < 16 → toDigit 16 (hexDigit d) = some d := by decide

theorem length_hexOf (bs : List Nat) : (hexOf bs).length = 2 * bs.length := by
  induction bs with
  | nil => rfl
  | cons b bs ih => simp only [hexOf, List.length_cons, ih]; omega

theorem parseRadix_go_hexOf (bs : List Nat) (acc : Nat) (hb : ∀ b ∈ bs, b < 256) :
    parseRadix.go 16 (hexOf bs) acc = .ok (bs.foldl (fun acc b => acc * 256 + b) acc) := by
  induction bs generalizing acc with
  | nil => rfl
  | cons b bs ih =>
    have hb0 : b < 256 := hb b (List.mem_cons_self)
    have h1 : b / 16 < 16 := by omega
    have h2 : b % 16 < 16 := by omega
    simp only [hexOf, parseRadix.go, toDigit_hexDigit _ h1, toDigit_hexDigit _ h2, List.foldl_cons]
    rw [ih _ (fun c hc => hb c (List.mem_cons_of_mem _ hc))]
    congr 2
    omega

theorem parseRadix_hexOf (bs : List Nat) (hne : bs ≠ []) (hb : ∀ b ∈ bs, b < 256) :
    parseRadix (hexOf bs) 16 = .ok (Int.ofNat (beNat bs)) := by
  unfold parseRadix
  have : (hexOf bs).isEmpty = false := by
    cases bs with
    | nil => exact absurd rfl hne
    | cons b bs => rfl
  simp only [this, parseRadix_go_hexOf bs 0 hb]
  rfl

theorem foldl_lt (bs : List Nat) (acc : Nat) (hb : ∀ b ∈ bs, b < 256) :
    bs.foldl (fun acc b => acc * 256 + b) acc + 1 ≤ (acc + 1) * 256 ^ bs.length := by
  induction bs generalizing acc with
  | nil => simp
  | cons b bs ih =>
    have hb0 : b < 256 := hb b (List.mem_cons_self)
    have := ih (acc * 256 + b) (fun c hc => hb c (List.mem_cons_of_mem _ hc))
    simp only [List.foldl_cons, List.length_cons, Nat.pow_succ]
    refine Nat.le_trans this ?_
    rw [Nat.mul_comm (256 ^ bs.length) 256, ← Nat.mul_assoc]
    exact Nat.mul_le_mul_right _ (by omega)

theorem beNat_lt (bs : List Nat) (hb : ∀ b ∈ bs, b < 256) : beNat bs < 256 ^ bs.length := by
  have := foldl_lt bs 0 hb
  simp only [Nat.zero_add, Nat.one_mul] at this
  exact this

/-! ### one statement -/

theorem isEmpty_iff_extra {i : Disasm.Instr} (hv : Valid i) :
    i.imm.isEmpty = true ↔ (Ops.rowOf Gen.cancun i.op).extra = 0 := by
  rw [← hv.2.2.1, List.isEmpty_iff, List.length_eq_zero_iff]

theorem parseAOp_op (pre post : List Nat) (i : Disasm.Instr) (hv : Valid i) (f : Nat)
    (he : i.imm.isEmpty = true) :
    parseAOp (pre ++ line i ++ post).toArray (f + 1) (pairOf pre.length i) = .ok (.op i.op none) := by
  have he0 := (isEmpty_iff_extra hv).mp he
  have hp := row_noimm hv.1 hv.2.1 he0
  have ht : txt (pre ++ line i ++ post).toArray
      (.mk Gen.R_op pre.length (pre.length + (mnemOf i).length) []) = mnemOf i := by
    apply txt_decomp _ pre (mnemOf i) ([10] ++ post) _ _ _ _ _ rfl rfl
    simp [line, he]
  simp only [pairOf, he, if_true]
  rw [parseAOp]
  simp only [Pair.rule, ht]
  simp only [Gen.R_op, Gen.R_local_macro, Gen.R_label_definition, Gen.R_push]
  simp only [mnemOf, hp]
  simp

theorem parseExpr_hex (inp : Array Nat) (f : Nat) (a b : Nat) (imm : List Nat)
    (ht : txt inp (.mk Gen.R_hex a b []) = 48 :: 120 :: hexOf imm)
    (hne : imm ≠ []) (hb : ∀ c ∈ imm, c < 256) :
    parseExpr inp (f + 2) (.mk Gen.R_expression a b [.mk Gen.R_hex a b []])
      = .ok (.num (Int.ofNat (beNat imm))) := by
  have h1 : parseExpr inp (f + 1) (.mk Gen.R_hex a b []) = .ok (.num (Int.ofNat (beNat imm))) := by
    rw [parseExpr]
    simp only [Pair.rule, ht, List.drop_succ_cons, List.drop_zero, parseRadix_hexOf imm hne hb]
    simp [Gen.R_hex, Gen.R_expression, Gen.R_binary, Gen.R_octal, Except.map]
  rw [parseExpr]
  simp only [Pair.rule, Pair.kids, h1, if_true, parseTail]
  simp [climb, climbRec]

theorem parseAOp_push (pre post : List Nat) (i : Disasm.Instr) (hv : Valid i) (f : Nat)
    (he : i.imm.isEmpty = false) :
    parseAOp (pre ++ line i ++ post).toArray (f + 3) (pairOf pre.length i)
      = .ok (.op i.op (some (.num (Int.ofNat (beNat i.imm))))) := by
  have he0 : (Ops.rowOf Gen.cancun i.op).extra ≠ 0 := by
    intro h; rw [(isEmpty_iff_extra hv).mpr h] at he; cases he
  obtain ⟨hcode, h1, h32, hm4, hsz⟩ := row_push hv.1 hv.2.1 he0
  have hne : i.imm ≠ [] := by intro h; rw [h] at he; cases he
  have hlen := hv.2.2.1
  have hline : line i = mnemOf i ++ ([32, 48, 120] ++ hexOf i.imm) ++ [10] := by simp [line, he]
  have hm4' : 4 ≤ (mnemOf i).length := hm4
  -- the word size
  have htsz : txt (pre ++ line i ++ post).toArray
      (.mk Gen.R_word_size (pre.length + 4) (pre.length + (mnemOf i).length) [])
        = (mnemOf i).drop 4 := by
    apply txt_decomp _ (pre ++ (mnemOf i).take 4) ((mnemOf i).drop 4)
      ([32, 48, 120] ++ hexOf i.imm ++ [10] ++ post)
    · rw [hline]
      conv => lhs; rw [← List.take_append_drop 4 (mnemOf i)]
      simp only [List.append_assoc]
    · simp [List.length_take, Nat.min_eq_left hm4']
    · simp only [List.length_drop]; omega
  -- the hex literal
  have hthex : txt (pre ++ line i ++ post).toArray
      (.mk Gen.R_hex (pre.length + (mnemOf i).length + 1)
        (pre.length + (mnemOf i).length + 3 + 2 * i.imm.length) [])
        = 48 :: 120 :: hexOf i.imm := by
    apply txt_decomp _ (pre ++ mnemOf i ++ [32]) (48 :: 120 :: hexOf i.imm) ([10] ++ post)
    · rw [hline]; simp only [List.append_assoc, List.cons_append, List.nil_append]
    · simp only [List.length_append, List.length_cons, List.length_nil]
    · simp only [List.length_cons, length_hexOf]; omega
  have hexpr := parseExpr_hex (pre ++ line i ++ post).toArray f _ _ i.imm hthex hne hv.2.2.2
  simp only [pairOf, he, Bool.false_eq_true, if_false]
  rw [parseAOp]
  simp only [Pair.rule]
  simp only [Gen.R_local_macro, Gen.R_label_definition, Gen.R_push]
  simp only [Nat.reduceEqDiff, if_false, if_true]
  simp only [parsePush, Pair.kids, htsz]
  have hsz' : parseRadix ((mnemOf i).drop 4) 10 = .ok (Int.ofNat (Ops.rowOf Gen.cancun i.op).extra) := hsz
  simp only [hsz', hexpr, evalClosed]
  have htn : ∀ n : Nat, (Int.ofNat n).toNat = n := fun _ => rfl
  simp only [htn]
  have hrange : ¬ (Int.ofNat (beNat i.imm) ≥ (2 : Int) ^ (8 * (Ops.rowOf Gen.cancun i.op).extra)) := by
    have hlt := beNat_lt i.imm hv.2.2.2
    rw [hlen] at hlt
    have : (256 : Nat) ^ (Ops.rowOf Gen.cancun i.op).extra = 2 ^ (8 * (Ops.rowOf Gen.cancun i.op).extra) := by
      rw [Nat.pow_mul]
    rw [this] at hlt
    have h2 : ((2 : Int) ^ (8 * (Ops.rowOf Gen.cancun i.op).extra)) = ((2 ^ (8 * (Ops.rowOf Gen.cancun i.op).extra) : Nat) : Int) := by
      rw [Int.natCast_pow]; rfl
    rw [h2]
    show ¬ (((2 ^ (8 * (Ops.rowOf Gen.cancun i.op).extra) : Nat) : Int) ≤ ((beNat i.imm : Nat) : Int))
    rw [Int.ofNat_le]
    omega
  have hsize : ¬ ((Ops.rowOf Gen.cancun i.op).extra < 1 ∨ (Ops.rowOf Gen.cancun i.op).extra > 32) := by omega
  simp only [hsize, hrange, if_false, hcode]

theorem parseAOp_pairOf (pre post : List Nat) (i : Disasm.Instr) (hv : Valid i) (f : Nat) :
    (parseAOp (pre ++ line i ++ post).toArray (f + 3) (pairOf pre.length i)).map Node.op
      = .ok (nodeOf i) := by
  cases he : i.imm.isEmpty with
  | true => rw [parseAOp_op pre post i hv (f + 2) he]; simp [nodeOf, he, Except.map]
  | false => rw [parseAOp_push pre post i hv f he]; simp [nodeOf, he, Except.map]

theorem pairOf_rule (p : Nat) (i : Disasm.Instr) :
    (pairOf p i).rule ≠ Pest.EOI ∧ (pairOf p i).rule ≠ Gen.R_builtin := by
  unfold pairOf
  cases i.imm.isEmpty <;> simp [Pair.rule, Gen.R_op, Gen.R_push, Pest.EOI, Gen.R_builtin]

/-! ### the whole listing -/

theorem go_listing (is : List Disasm.Instr) (hv : ∀ i ∈ is, Valid i) (pre post : List Nat) (f : Nat) :
    parseAsm.go (pre ++ listing is ++ post).toArray (f + 3) (pairsFrom pre.length is)
      = .ok (is.map nodeOf) := by
  induction is generalizing pre with
  | nil => simp [pairsFrom, parseAsm.go, Pair.rule]
  | cons i is ih =>
    have hi : Valid i := hv i List.mem_cons_self
    have his : ∀ j ∈ is, Valid j := fun j hj => hv j (List.mem_cons_of_mem _ hj)
    have hl : pre ++ listing (i :: is) ++ post = (pre ++ line i) ++ listing is ++ post := by
      simp [listing, List.append_assoc]
    have hl' : pre ++ listing (i :: is) ++ post = pre ++ line i ++ (listing is ++ post) := by
      simp [listing, List.append_assoc]
    have ih' := ih his (pre ++ line i)
    rw [← hl, List.length_append] at ih'
    have h1 := parseAOp_pairOf pre (listing is ++ post) i hi f
    rw [← hl'] at h1
    obtain ⟨hr1, hr2⟩ := pairOf_rule pre.length i
    simp only [pairsFrom, List.map_cons]
    rw [parseAsm.go]
    simp only [hr1, hr2, if_false, h1, ih']

theorem nodes_listing (is : List Disasm.Instr) (hv : ∀ i ∈ is, Valid i) :
    parseAsm.go (listing is).toArray (4 * (listing is).length + 100 + pairsSize (pairsFrom 0 is)) (pairsFrom 0 is)
      = .ok (is.map nodeOf) := by
  have h := go_listing is hv [] [] (4 * (listing is).length + 97 + pairsSize (pairsFrom 0 is))
  have hf : 4 * (listing is).length + 97 + pairsSize (pairsFrom 0 is) + 3
      = 4 * (listing is).length + 100 + pairsSize (pairsFrom 0 is) := by omega
  rw [hf] at h
  simpa using h

end Listing
end Asm
end EtkVerif
