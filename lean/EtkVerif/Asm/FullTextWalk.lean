/-
The walk of `parse_asm` over the pair tree of an X-expression (the whole operand
language: numbers, labels, `$variables`, calls, `selector("…")` / `topic("…")`,
parentheses): `parseExpr` on `xseqPair` returns the expression of the sequence,
`parseExprs` on `xargsKids` the expressions of an argument list.
-/
import EtkVerif.Asm.FullTextBase
namespace EtkVerif
namespace Asm
namespace FullText
open Pest Listing ExprText
open Layout (Suf)

variable {text : List Nat}

/-! ### leaves -/

theorem xw_num (r : Radix) (ds post : List Nat) (p fuel : Nat) (hwf : (XTerm.num r ds).WF)
    (hs : Suf text p (r.pre ++ ds ++ post)) (hf : 1 ≤ fuel) :
    parseExpr text.toArray fuel (xtermPair p (.num r ds)) = .ok (XTerm.num r ds).expr := by
  have h := walk_num r ds post p fuel (by simpa only [XTerm.WF, TTerm.WF] using hwf) hs hf
  simpa only [xtermPair, termPair, XTerm.expr, TTerm.expr] using h

theorem xw_neg (ds post : List Nat) (p fuel : Nat) (hwf : (XTerm.neg ds).WF)
    (hs : Suf text p (45 :: ds ++ post)) (hf : 1 ≤ fuel) :
    parseExpr text.toArray fuel (xtermPair p (.neg ds)) = .ok (XTerm.neg ds).expr := by
  have h := walk_neg ds post p fuel (by simpa only [XTerm.WF, TTerm.WF] using hwf) hs hf
  simpa only [xtermPair, termPair, XTerm.expr, TTerm.expr] using h

theorem xw_label (n post : List Nat) (p fuel : Nat) (hs : Suf text p (n ++ post)) (hf : 1 ≤ fuel) :
    parseExpr text.toArray fuel (xtermPair p (.label n)) = .ok (XTerm.label n).expr := by
  have h := walk_label n post p fuel hs hf
  simpa only [xtermPair, termPair, XTerm.expr, TTerm.expr] using h

theorem xw_var (n post : List Nat) (p fuel : Nat) (hs : Suf text p (36 :: n ++ post)) (hf : 1 ≤ fuel) :
    parseExpr text.toArray fuel (xtermPair p (.var n)) = .ok (XTerm.var n).expr := by
  obtain ⟨fuel, rfl⟩ : ∃ f', fuel = f' + 1 := ⟨fuel - 1, by omega⟩
  have ht : txt text.toArray (.mk 12 p (p + (1 + n.length)) []) = 36 :: n := by
    have := txt_suf (y := 36 :: n) hs 12 []
    rwa [List.length_cons, Nat.add_comm n.length 1] at this
  simp only [xtermPair]
  rw [parseExpr]
  simp only [ht, Pair.rule, XTerm.expr]
  simp [Gen.R_expression, Gen.R_binary, Gen.R_octal, Gen.R_hex, Gen.R_decimal, Gen.R_negative_decimal,
    Gen.R_label, Gen.R_selector, Gen.R_topic, Gen.R_expression_macro, Gen.R_instruction_macro_variable]

theorem xw_selector (sig post : List Nat) (p fuel : Nat)
    (hs : Suf text p ([115, 101, 108, 101, 99, 116, 111, 114, 40, 34] ++ sig ++ [34, 41] ++ post))
    (hf : 1 ≤ fuel) :
    parseExpr text.toArray fuel (xtermPair p (.selector sig)) = .ok (XTerm.selector sig).expr := by
  obtain ⟨fuel, rfl⟩ : ∃ f', fuel = f' + 1 := ⟨fuel - 1, by omega⟩
  have hs' : Suf text (p + 10) (sig ++ ([34, 41] ++ post)) := by
    have := Suf.app (a := [115, 101, 108, 101, 99, 116, 111, 114, 40, 34]) (b := sig ++ ([34, 41] ++ post))
      (by simpa only [List.append_assoc] using hs)
    simpa using this
  have ht : txt text.toArray (.mk 29 (p + 10) (p + 10 + sig.length) []) = sig := txt_suf hs' 29 []
  simp only [xtermPair]
  rw [parseExpr]
  simp only [Pair.rule, Pair.kids, ht, XTerm.expr, keccakOf]
  simp [Gen.R_expression, Gen.R_binary, Gen.R_octal, Gen.R_hex, Gen.R_decimal, Gen.R_negative_decimal,
    Gen.R_label, Gen.R_selector, Gen.R_topic]

theorem xw_topic (sig post : List Nat) (p fuel : Nat)
    (hs : Suf text p ([116, 111, 112, 105, 99, 40, 34] ++ sig ++ [34, 41] ++ post)) (hf : 1 ≤ fuel) :
    parseExpr text.toArray fuel (xtermPair p (.topic sig)) = .ok (XTerm.topic sig).expr := by
  obtain ⟨fuel, rfl⟩ : ∃ f', fuel = f' + 1 := ⟨fuel - 1, by omega⟩
  have hs' : Suf text (p + 7) (sig ++ ([34, 41] ++ post)) := by
    have := Suf.app (a := [116, 111, 112, 105, 99, 40, 34]) (b := sig ++ ([34, 41] ++ post))
      (by simpa only [List.append_assoc] using hs)
    simpa using this
  have ht : txt text.toArray (.mk 29 (p + 7) (p + 7 + sig.length) []) = sig := txt_suf hs' 29 []
  simp only [xtermPair]
  rw [parseExpr]
  simp only [Pair.rule, Pair.kids, ht, XTerm.expr, keccakOf]
  simp [Gen.R_expression, Gen.R_binary, Gen.R_octal, Gen.R_hex, Gen.R_decimal, Gen.R_negative_decimal,
    Gen.R_label, Gen.R_selector, Gen.R_topic]

/-- the step of `parseExpr` at a call pair, given the walk on its argument pairs -/
theorem xw_call (n g : List Nat) (as : XArgs) (post : List Nat) (p fuel : Nat)
    (hs : Suf text p (n ++ post))
    (ha : parseExprs text.toArray fuel (xargsKids (p + n.length + g.length + 1) as) = .ok as.list) :
    parseExpr text.toArray (fuel + 1) (xtermPair p (.call n g as)) = .ok (XTerm.call n g as).expr := by
  have ht : txt text.toArray (.mk 32 p (p + n.length) []) = n := txt_suf hs 32 []
  simp only [xtermPair]
  rw [parseExpr]
  simp only [Pair.rule, Pair.kids, ha, ht, XTerm.expr]
  simp [Gen.R_expression, Gen.R_binary, Gen.R_octal, Gen.R_hex, Gen.R_decimal, Gen.R_negative_decimal,
    Gen.R_label, Gen.R_selector, Gen.R_topic, Gen.R_expression_macro]

/-! ### the mutual induction -/

mutual
theorem xwT : ∀ (t : XTerm) (p : Nat) (post : List Nat) (fuel : Nat), t.WF → Suf text p (t.render ++ post) →
    2 * t.render.length ≤ fuel → parseExpr text.toArray fuel (xtermPair p t) = .ok t.expr
  | .num r ds, p, post, fuel, hwf, hs, hf => by
    have hpos := xterm_pos _ hwf
    exact xw_num r ds post p fuel hwf (by simpa only [XTerm.render] using hs) (by omega)
  | .neg ds, p, post, fuel, hwf, hs, hf => by
    have hpos := xterm_pos _ hwf
    exact xw_neg ds post p fuel hwf (by simpa only [XTerm.render] using hs) (by omega)
  | .label n, p, post, fuel, hwf, hs, hf => by
    have hpos := xterm_pos _ hwf
    exact xw_label n post p fuel (by simpa only [XTerm.render] using hs) (by omega)
  | .var n, p, post, fuel, hwf, hs, hf => by
    have hpos := xterm_pos _ hwf
    exact xw_var n post p fuel (by simpa only [XTerm.render] using hs) (by omega)
  | .selector sig, p, post, fuel, hwf, hs, hf => by
    have hpos := xterm_pos _ hwf
    exact xw_selector sig post p fuel (by simpa only [XTerm.render] using hs) (by omega)
  | .topic sig, p, post, fuel, hwf, hs, hf => by
    have hpos := xterm_pos _ hwf
    exact xw_topic sig post p fuel (by simpa only [XTerm.render] using hs) (by omega)
  | .call n g as, p, post, fuel, hwf, hs, hf => by
    have hpos := xterm_pos _ hwf
    obtain ⟨fuel, rfl⟩ : ∃ f', fuel = f' + 1 := ⟨fuel - 1, by omega⟩
    have hn : 1 ≤ n.length := by
      simp only [XTerm.WF] at hwf
      obtain ⟨c, run, h1, _⟩ := isFnName_split hwf.1
      rw [h1]; simp
    simp only [XTerm.WF] at hwf
    have hs' : Suf text p (n ++ (g ++ 40 :: (as.render ++ 41 :: post))) := by
      have := hs
      simp only [XTerm.render, List.append_assoc, List.cons_append, List.nil_append] at this
      exact this
    have hlen : (XTerm.call n g as).render.length = n.length + g.length + 1 + as.render.length + 1 := by
      simp only [XTerm.render, List.length_append, List.length_cons, List.length_nil]
    have ha := xwA as (p + n.length + g.length + 1) (41 :: post) fuel hwf.2.2 hs'.app.app.tail (by omega)
    exact xw_call n g as _ p fuel hs' ha
  | .paren l s r, p, post, fuel, hwf, hs, hf => by
    simp only [XTerm.WF] at hwf
    have hs' : Suf text p (40 :: (l ++ (s.render ++ (r ++ 41 :: post)))) := by
      have := hs
      simp only [XTerm.render, List.append_assoc, List.cons_append, List.nil_append] at this
      exact this
    have hlen : (XTerm.paren l s r).render.length = 1 + l.length + s.render.length + r.length + 1 := by
      simp only [XTerm.render, List.length_append, List.length_cons, List.length_nil]
    simp only [xtermPair, XTerm.expr]
    exact xwS s (p + 1 + l.length) r.length _ fuel hwf.2.1 hs'.tail.app (by omega)
theorem xwS : ∀ (s : XSeq) (p tb : Nat) (post : List Nat) (fuel : Nat), s.WF → Suf text p (s.render ++ post) →
    2 * s.render.length + 2 ≤ fuel → parseExpr text.toArray fuel (xseqPair p s tb) = .ok s.expr
  | .mk t rest, p, tb, post, fuel, hwf, hs, hf => by
    obtain ⟨fuel, rfl⟩ : ∃ f', fuel = f' + 1 := ⟨fuel - 1, by omega⟩
    simp only [XSeq.WF] at hwf
    have hs' : Suf text p (t.render ++ (rest.render ++ post)) := by
      simpa only [XSeq.render, List.append_assoc] using hs
    have hlen : (XSeq.mk t rest).render.length = t.render.length + rest.render.length := by
      simp only [XSeq.render, List.length_append]
    have h1 := xwT t p _ fuel hwf.1 hs' (by omega)
    have h2 := xwR rest (p + t.render.length) post fuel hwf.2 hs'.app (by omega)
    rw [xseqPair_mk, parseExpr]
    simp only [Pair.rule, Pair.kids, h1, h2, XSeq.expr]
    simp [Gen.R_expression]
theorem xwR : ∀ (rest : XRest) (p : Nat) (post : List Nat) (fuel : Nat), rest.WF →
    Suf text p (rest.render ++ post) → 2 * rest.render.length + 1 ≤ fuel →
    parseTail text.toArray fuel (xrestKids p rest) = .ok rest.list
  | .nil, p, post, fuel, _, _, hf => by
    obtain ⟨fuel, rfl⟩ : ∃ f', fuel = f' + 1 := ⟨fuel - 1, by omega⟩
    simp only [xrestKids, XRest.list]
    rw [parseTail]
  | .cons l op r t rest', p, post, fuel, hwf, hs, hf => by
    obtain ⟨fuel, rfl⟩ : ∃ f', fuel = f' + 1 := ⟨fuel - 1, by omega⟩
    simp only [XRest.WF] at hwf
    have hs' : Suf text p (l ++ opChar op :: (r ++ (t.render ++ (rest'.render ++ post)))) := by
      have := hs
      simp only [XRest.render, List.append_assoc, List.cons_append, List.nil_append] at this
      exact this
    have hlen : (XRest.cons l op r t rest').render.length =
        l.length + 1 + r.length + t.render.length + rest'.render.length := by
      simp only [XRest.render, List.length_append, List.length_cons, List.length_nil]
    have hs3 : Suf text (p + l.length + 1 + r.length) (t.render ++ (rest'.render ++ post)) := hs'.app.tail.app
    have h1 := xwT t _ _ fuel hwf.2.2.1 hs3 (by omega)
    have h2 := xwR rest' _ post fuel hwf.2.2.2 hs3.app (by omega)
    simp only [xrestKids, XRest.list]
    rw [parseTail]
    simp only [Pair.rule, opOfRule_opRule, h1, h2]
theorem xwA : ∀ (as : XArgs) (p : Nat) (post : List Nat) (fuel : Nat), as.WF →
    Suf text p (as.render ++ post) → 2 * as.render.length + 3 ≤ fuel →
    parseExprs text.toArray fuel (xargsKids p as) = .ok as.list
  | .none g, p, post, fuel, _, _, hf => by
    obtain ⟨fuel, rfl⟩ : ∃ f', fuel = f' + 1 := ⟨fuel - 1, by omega⟩
    simp only [xargsKids, XArgs.list]
    rw [parseExprs]
  | .some l s r more, p, post, fuel, hwf, hs, hf => by
    obtain ⟨fuel, rfl⟩ : ∃ f', fuel = f' + 1 := ⟨fuel - 1, by omega⟩
    simp only [XArgs.WF] at hwf
    have hs' : Suf text p (l ++ (s.render ++ (r ++ (more.render ++ post)))) := by
      have := hs
      simp only [XArgs.render, List.append_assoc] at this
      exact this
    have hlen : (XArgs.some l s r more).render.length =
        l.length + s.render.length + r.length + more.render.length := by
      simp only [XArgs.render, List.length_append]
    have h1 := xwS s (p + l.length) r.length _ fuel hwf.2.1 hs'.app (by omega)
    have h2 := xwM more (p + l.length + s.render.length + r.length) post fuel hwf.2.2.2 hs'.app.app.app (by omega)
    simp only [xargsKids, XArgs.list]
    rw [parseExprs]
    simp only [h1, h2]
theorem xwM : ∀ (more : XMore) (p : Nat) (post : List Nat) (fuel : Nat), more.WF →
    Suf text p (more.render ++ post) → 2 * more.render.length + 1 ≤ fuel →
    parseExprs text.toArray fuel (xmoreKids p more) = .ok more.list
  | .nil, p, post, fuel, _, _, hf => by
    obtain ⟨fuel, rfl⟩ : ∃ f', fuel = f' + 1 := ⟨fuel - 1, by omega⟩
    simp only [xmoreKids, XMore.list]
    rw [parseExprs]
  | .cons l s r more', p, post, fuel, hwf, hs, hf => by
    obtain ⟨fuel, rfl⟩ : ∃ f', fuel = f' + 1 := ⟨fuel - 1, by omega⟩
    simp only [XMore.WF] at hwf
    have hs' : Suf text p (44 :: (l ++ (s.render ++ (r ++ (more'.render ++ post))))) := by
      have := hs
      simp only [XMore.render, List.append_assoc, List.cons_append, List.nil_append] at this
      exact this
    have hlen : (XMore.cons l s r more').render.length =
        1 + l.length + s.render.length + r.length + more'.render.length := by
      simp only [XMore.render, List.length_append, List.length_cons, List.length_nil]
    have h1 := xwS s (p + 1 + l.length) r.length _ fuel hwf.2.1 hs'.tail.app (by omega)
    have h2 := xwM more' (p + 1 + l.length + s.render.length + r.length) post fuel hwf.2.2.2
      hs'.tail.app.app.app (by omega)
    simp only [xmoreKids, XMore.list]
    rw [parseExprs]
    simp only [h1, h2]
end

/-! ### the interface -/

theorem seq_walk (s : XSeq) (h : s.WF) : SeqWalk text s :=
  fun p tb post fuel hs hf => xwS s p tb post fuel h hs hf

theorem args_walk (as : XArgs) (h : as.WF) : ArgsWalk text as :=
  fun p post fuel hs hf => xwA as p post fuel h hs hf

end FullText
end Asm
end EtkVerif
