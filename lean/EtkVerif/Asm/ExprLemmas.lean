/-
Operand expressions (C08, C11): literal values, the precedence climber equals the
stratified grammar, evaluation is exact integer arithmetic, expression macros
denote their body with the arguments' call-site values substituted.
-/
import EtkVerif.Asm.Parse
import EtkVerif.Asm.Eval
namespace EtkVerif
namespace Asm

/-! ### literals (T-lit) -/

/-- positional value of a digit list, most significant first -/
def digitsValue (radix : Nat) : List Nat → Nat
  | [] => 0
  | ds => ds.foldl (fun acc d => acc * radix + d) 0

/-- the mathematical definition: Σ dᵢ · radix^(n-1-i) -/
def positional (radix : Nat) : List Nat → Nat
  | [] => 0
  | d :: ds => d * radix ^ ds.length + positional radix ds

theorem foldl_eq_positional (radix : Nat) (ds : List Nat) (acc : Nat) :
    ds.foldl (fun acc d => acc * radix + d) acc = acc * radix ^ ds.length + positional radix ds := by
  induction ds generalizing acc with
  | nil => simp [positional]
  | cons d ds ih =>
    simp only [List.foldl_cons, ih, positional, List.length_cons, Nat.pow_succ, Nat.add_mul]
    rw [Nat.mul_assoc, Nat.mul_comm (radix ^ ds.length) radix, Nat.add_assoc]

theorem digitsValue_eq_positional (radix : Nat) (ds : List Nat) : digitsValue radix ds = positional radix ds := by
  cases ds with
  | nil => rfl
  | cons d ds =>
    show (d :: ds).foldl (fun acc d => acc * radix + d) 0 = _
    rw [foldl_eq_positional]; simp

theorem parseRadix_go_value (radix : Nat) (s ds : List Nat) (acc : Nat)
    (hd : s.map (toDigit radix) = ds.map some) :
    parseRadix.go radix s acc = .ok (acc * radix ^ ds.length + positional radix ds) := by
  induction s generalizing ds acc with
  | nil =>
    cases ds with
    | nil => simp [parseRadix.go, positional]
    | cons d ds => simp at hd
  | cons c cs ih =>
    cases ds with
    | nil => simp at hd
    | cons d ds =>
      simp only [List.map_cons, List.cons.injEq] at hd
      simp only [parseRadix.go, hd.1]
      rw [ih ds _ hd.2]
      simp only [positional, List.length_cons, Nat.pow_succ, Nat.add_mul]
      rw [Nat.mul_assoc, Nat.mul_comm (radix ^ ds.length) radix, Nat.add_assoc]

/-- `parse_radix_str` on a non-empty string of valid digits yields its positional value. -/
theorem parseRadix_value (radix : Nat) (s ds : List Nat) (hne : s ≠ [])
    (hd : s.map (toDigit radix) = ds.map some) :
    parseRadix s radix = .ok (Int.ofNat (positional radix ds)) := by
  unfold parseRadix
  have : s.isEmpty = false := by cases s <;> simp_all
  simp only [this, parseRadix_go_value radix s ds 0 hd]
  simp [Except.map]

theorem parseRadix_go_ok_iff (radix : Nat) (s : List Nat) (acc : Nat) :
    (∃ v, parseRadix.go radix s acc = .ok v) ↔ ∀ c ∈ s, (toDigit radix c).isSome := by
  induction s generalizing acc with
  | nil => simp [parseRadix.go]
  | cons c cs ih =>
    simp only [parseRadix.go, List.mem_cons, forall_eq_or_imp]
    cases h : toDigit radix c with
    | none => simp
    | some d => simp [ih]

/-- … and never panics exactly on such strings. -/
theorem parseRadix_ok_iff (radix : Nat) (s : List Nat) :
    (∃ v, parseRadix s radix = .ok v) ↔ (s ≠ [] ∧ ∀ c ∈ s, (toDigit radix c).isSome) := by
  unfold parseRadix
  cases s with
  | nil => simp
  | cons c cs =>
    rw [← parseRadix_go_ok_iff radix (c :: cs) 0]
    simp only [List.isEmpty_cons, Bool.false_eq_true, ↓reduceIte, ne_eq, reduceCtorEq, not_false_eq_true, true_and]
    cases h : parseRadix.go radix (c :: cs) 0 with
    | error e => simp [Except.map]
    | ok v => simp [Except.map]

/-! ### precedence climbing (T-climb) -/

/-- T → F ((× | ÷) F)* : the multiplicative chain starting at `lhs` -/
def mulChain (lhs : Expr) : List (BinOp × Expr) → Expr × List (BinOp × Expr)
  | [] => (lhs, [])
  | (op, t) :: ps => if op.prec = 2 then mulChain (op.mk lhs t) ps else (lhs, (op, t) :: ps)

/-- E → T ((+ | −) T)* -/
def addChain : Nat → Expr → List (BinOp × Expr) → Expr
  | 0, lhs, _ => lhs
  | _ + 1, lhs, [] => lhs
  | fuel + 1, lhs, (op, t) :: ps =>
    let r := mulChain t ps
    addChain fuel (op.mk lhs r.1) r.2

/-- the stratified-grammar parse of `first (op term)*`: × ÷ bind tighter than + −,
equal precedence associates to the left -/
def stratified (first : Expr) (rest : List (BinOp × Expr)) : Expr :=
  let r := mulChain first rest
  addChain (rest.length + 1) r.1 r.2

theorem BinOp.prec_cases (o : BinOp) : o.prec = 1 ∨ o.prec = 2 := by cases o <;> simp [BinOp.prec]

theorem mulChain_len (lhs : Expr) (ps) : (mulChain lhs ps).2.length ≤ ps.length := by
  induction ps generalizing lhs with
  | nil => simp [mulChain]
  | cons p ps ih =>
    obtain ⟨op, t⟩ := p
    simp only [mulChain]; split
    · exact Nat.le_trans (ih _) (by simp)
    · simp

theorem mulChain_head (lhs : Expr) (ps) :
    ∀ op t r, (mulChain lhs ps).2 = (op, t) :: r → op.prec ≠ 2 := by
  induction ps generalizing lhs with
  | nil => simp [mulChain]
  | cons p ps ih =>
    obtain ⟨o, u⟩ := p
    intro op t r
    simp only [mulChain]; split
    · exact ih _ op t r
    · intro h; simp only [List.cons.injEq, Prod.mk.injEq] at h; obtain ⟨⟨rfl, _⟩, _⟩ := h; assumption

theorem mulChain_stop (x : Expr) (qs) (h : ∀ op t r, qs = (op, t) :: r → op.prec ≠ 2) :
    mulChain x qs = (x, qs) := by
  cases qs with
  | nil => simp [mulChain]
  | cons p r =>
    obtain ⟨op, t⟩ := p
    have := h op t r rfl
    simp [mulChain, this]

/-- the inner loop stops at once when no operator binds tighter than `prec` -/
theorem climbInner_stop (fuel : Nat) (t : Expr) (prec : Nat) (ps : List (BinOp × Expr))
    (h : ∀ op u r, ps = (op, u) :: r → ¬ op.prec > prec) :
    climbInner fuel t prec ps = (t, ps) := by
  match fuel, ps, h with
  | 0, _, _ => simp [climbInner]
  | _+1, [], _ => simp [climbInner]
  | f+1, (o', t') :: qs, h =>
    have := h o' t' qs rfl
    simp [climbInner, this]

theorem climbRec_two (fuel : Nat) (lhs : Expr) (ps) (h : 2 * ps.length + 1 ≤ fuel) :
    climbRec fuel lhs 2 ps = mulChain lhs ps := by
  induction ps generalizing lhs fuel with
  | nil => cases fuel <;> simp [climbRec, mulChain]
  | cons p ps ih =>
    obtain ⟨op, t⟩ := p
    match fuel, h with
    | fuel+1, h =>
      simp only [climbRec, mulChain]
      rcases BinOp.prec_cases op with h1 | h2
      · simp [h1]
      · simp only [h2, ge_iff_le, Nat.le_refl, ↓reduceIte]
        rw [climbInner_stop fuel t 2 ps (by
          intro o u r _; rcases BinOp.prec_cases o with h | h <;> omega)]
        exact ih fuel _ (by simp at h; omega)

theorem climbInner_one (fuel : Nat) (t : Expr) (rest)
    (h : 2 * rest.length + 2 ≤ fuel) :
    climbInner fuel t 1 rest = mulChain t rest := by
  match fuel, rest, h with
  | _+1, [], _ => simp [climbInner, mulChain]
  | f+1, (o', t') :: qs, h =>
    simp only [climbInner]
    rcases BinOp.prec_cases o' with h1 | h2
    · simp [h1, mulChain]
    · simp only [h2, gt_iff_lt, Nat.lt_add_one, ↓reduceIte]
      rw [climbRec_two f t ((o', t') :: qs) (by simp at h ⊢; omega)]
      have hh := mulChain_head t ((o', t') :: qs)
      generalize hr : mulChain t ((o', t') :: qs) = r at hh
      obtain ⟨v, rs⟩ := r
      simp only
      exact climbInner_stop f v 1 rs (by
        intro o u r' he
        have := hh o u r' he
        rcases BinOp.prec_cases o with h | h <;> omega)

theorem climbRec_low : ∀ (k : Nat) (ps : List (BinOp × Expr)) (lhs : Expr) (fuel n m : Nat),
    ps.length ≤ k → m ≤ 1 → 2 * ps.length + 2 ≤ fuel → ps.length ≤ n →
    climbRec fuel lhs m ps =
      (addChain n (mulChain lhs ps).1 (mulChain lhs ps).2, []) := by
  intro k
  induction k with
  | zero =>
    intro ps lhs fuel n m hk _ _ _
    have : ps = [] := by cases ps <;> simp_all
    subst this
    cases fuel <;> cases n <;> simp [climbRec, mulChain, addChain]
  | succ k ih =>
    intro ps lhs fuel n m hk hm hf hn
    match ps, fuel, hf with
    | [], fuel, _ => cases fuel <;> cases n <;> simp [climbRec, mulChain, addChain]
    | (op, t) :: rest, fuel+1, hf =>
      have hpm : op.prec ≥ m := by rcases BinOp.prec_cases op with h | h <;> omega
      simp only [climbRec, hpm, ↓reduceIte]
      rcases BinOp.prec_cases op with h1 | h2
      · -- additive operator
        rw [h1, climbInner_one fuel t rest (by simp at hf ⊢; omega)]
        have hl := mulChain_len t rest
        have hh := mulChain_head t rest
        have hstop : mulChain lhs ((op, t) :: rest) = (lhs, (op, t) :: rest) := by
          simp [mulChain, h1]
        rw [hstop]
        match n, hn with
        | n+1, hn =>
          simp only [addChain]
          generalize hr : mulChain t rest = r at hl hh
          obtain ⟨v, rs⟩ := r
          simp only at hl hh ⊢
          rw [ih rs (op.mk lhs v) fuel n m (by simp at hk; omega) hm (by simp at hf; omega)
            (by simp at hn; omega)]
          rw [mulChain_stop _ rs hh]
      · -- multiplicative operator in the leading run
        rw [climbInner_stop fuel t op.prec rest (by
          intro o u r _; rcases BinOp.prec_cases o with h | h <;> omega)]
        simp only
        rw [ih rest (op.mk lhs t) fuel n m (by simp at hk; omega) hm (by simp at hf; omega)
          (by simp at hn; omega)]
        simp [mulChain, h2]

theorem climb_eq_stratified (first : Expr) (rest : List (BinOp × Expr)) :
    climb first rest = stratified first rest := by
  unfold climb stratified
  rw [climbRec_low rest.length rest first _ (rest.length + 1) 0 (Nat.le_refl _) (by omega)
    (Nat.le_refl _) (by omega)]

/-! ### evaluation is exact integer arithmetic -/

theorem eval_arith (fuel : Nat) (ctx : Ctx) (a b : Expr) (x y : Int)
    (ha : eval fuel ctx a = .ok x) (hb : eval fuel ctx b = .ok y) :
    eval (fuel + 1) ctx (.plus a b) = .ok (x + y) ∧
    eval (fuel + 1) ctx (.minus a b) = .ok (x - y) ∧
    eval (fuel + 1) ctx (.times a b) = .ok (x * y) ∧
    eval (fuel + 1) ctx (.divide a b) = (if y = 0 then .error .divisionByZero else .ok (Int.tdiv x y)) := by
  simp [eval, ha, hb]

theorem eval_evalArgs_fuel_mono (f : Nat) :
    (∀ (ctx : Ctx) (e : Expr) (r : Except EvErr Int),
      eval f ctx e = r → r ≠ .error (.recursionLimit evalFuelMark) → eval (f + 1) ctx e = r) ∧
    (∀ (ctx : Ctx) (ps : List String) (as : Exprs) (r : Except EvErr (List (String × Int))),
      evalArgs f ctx ps as = r → r ≠ .error (.recursionLimit evalFuelMark) → evalArgs (f + 1) ctx ps as = r) := by
  induction f with
  | zero =>
    constructor
    · intro ctx e r h hr; simp [eval] at h; exact absurd h.symm hr
    · intro ctx ps as r h hr; simp [evalArgs] at h; exact absurd h.symm hr
  | succ f ih =>
    obtain ⟨ihe, iha⟩ := ih
    -- binary operators share one argument
    have bin : ∀ (ctx : Ctx) (a b : Expr) (g : Int → Int → Except EvErr Int) (r : Except EvErr Int),
        (match eval f ctx a with
          | .error e => .error e
          | .ok x => match eval f ctx b with
            | .error e => .error e
            | .ok y => g x y) = r → r ≠ .error (.recursionLimit evalFuelMark) →
        (match eval (f + 1) ctx a with
          | .error e => .error e
          | .ok x => match eval (f + 1) ctx b with
            | .error e => .error e
            | .ok y => g x y) = r := by
      intro ctx a b g r h hr
      cases ha : eval f ctx a with
      | error e =>
        rw [ha] at h; simp only at h
        rw [ihe ctx a _ ha (by rw [h]; exact hr)]; exact h
      | ok x =>
        rw [ha] at h; simp only at h
        rw [ihe ctx a _ ha (by simp)]; simp only
        cases hb : eval f ctx b with
        | error e =>
          rw [hb] at h; simp only at h
          rw [ihe ctx b _ hb (by rw [h]; exact hr)]; exact h
        | ok y =>
          rw [hb] at h; simp only at h
          rw [ihe ctx b _ hb (by simp)]; exact h
    constructor
    · intro ctx e r h hr
      cases e with
      | paren e => simp only [eval] at h ⊢; exact ihe ctx e r h hr
      | num n => simp only [eval] at h ⊢; exact h
      | label l => simp only [eval] at h ⊢; exact h
      | var v => simp only [eval] at h ⊢; exact h
      | plus a b => rw [eval] at h ⊢; exact bin ctx a b (fun x y => .ok (x + y)) r h hr
      | minus a b => rw [eval] at h ⊢; exact bin ctx a b (fun x y => .ok (x - y)) r h hr
      | times a b => rw [eval] at h ⊢; exact bin ctx a b (fun x y => .ok (x * y)) r h hr
      | divide a b =>
        rw [eval] at h ⊢
        exact bin ctx a b (fun x y => if y = 0 then .error .divisionByZero else .ok (Int.tdiv x y)) r h hr
      | «macro» name args =>
        rw [eval] at h ⊢
        cases hm : lookupMacro ctx.macros name with
        | none => rw [hm] at h; simpa using h
        | some d =>
          cases d with
          | instr ps body => rw [hm] at h; simpa using h
          | expr params body =>
            rw [hm] at h; simp only at h ⊢
            cases hargs : evalArgs f ctx params args with
            | error e =>
              rw [hargs] at h; simp only at h
              rw [iha ctx params args _ hargs (by intro he; injection he with he; exact hr (by rw [← h, he]))]; exact h
            | ok vars =>
              rw [hargs] at h; simp only at h
              rw [iha ctx params args _ hargs (by simp)]; simp only
              split
              · rename_i hd; simp only [hd, ↓reduceIte] at h; exact h
              · rename_i hd; simp only [hd, ↓reduceIte] at h
                exact ihe _ body r h hr
    · intro ctx ps as r h hr
      cases ps with
      | nil => simp only [evalArgs] at h ⊢; exact h
      | cons p ps =>
        cases as with
        | nil => simp only [evalArgs] at h ⊢; exact h
        | cons a as =>
          rw [evalArgs] at h ⊢
          cases ha : eval f ctx a with
          | error e =>
            rw [ha] at h; simp only at h
            rw [ihe ctx a _ ha (by intro he; injection he with he; exact hr (by rw [← h, he]))]; exact h
          | ok x =>
            rw [ha] at h; simp only at h
            rw [ihe ctx a _ ha (by simp)]; simp only
            cases hb : evalArgs f ctx ps as with
            | error e =>
              rw [hb] at h; simp only at h
              rw [iha ctx ps as _ hb (by rw [h]; exact hr)]; exact h
            | ok y =>
              rw [hb] at h; simp only at h
              rw [iha ctx ps as _ hb (by simp)]; exact h

/-- more fuel never changes a result that was not a fuel exhaustion -/
theorem eval_fuel_mono (f : Nat) (ctx : Ctx) (e : Expr) (r : Except EvErr Int)
    (h : eval f ctx e = r) (hr : r ≠ .error (.recursionLimit evalFuelMark)) : eval (f + 1) ctx e = r :=
  (eval_evalArgs_fuel_mono f).1 ctx e r h hr

/-! ### expression macros (T-subst, C11) -/

mutual
/-- replace every variable that has a value by that value (a numeral) -/
def substVals (vs : List (String × Int)) : Expr → Expr
  | .paren e => .paren (substVals vs e)
  | .var v => match lookupVar vs v with
    | some x => .num x
    | none => .var v
  | .label l => .label l
  | .num n => .num n
  | .plus a b => .plus (substVals vs a) (substVals vs b)
  | .minus a b => .minus (substVals vs a) (substVals vs b)
  | .times a b => .times (substVals vs a) (substVals vs b)
  | .divide a b => .divide (substVals vs a) (substVals vs b)
  | .macro n args => .macro n (substValsArgs vs args)
def substValsArgs (vs : List (String × Int)) : Exprs → Exprs
  | .nil => .nil
  | .cons a as => .cons (substVals vs a) (substValsArgs vs as)
end

/-- C11.  An invocation `f(a₁ … aₙ)` of an expression macro `f(p₁ … pₘ) = body`,
`m ≤ n`, whose first `m` arguments evaluate at the call site to `v₁ … vₘ`,
evaluates to `body` with each `$pᵢ` standing for `vᵢ`. -/
theorem eval_macro_call (fuel : Nat) (ctx : Ctx) (name : String) (params : List String) (body : Expr)
    (args : Exprs) (vals : List (String × Int))
    (hm : lookupMacro ctx.macros name = some (.expr params body))
    (hargs : evalArgs fuel ctx params args = .ok vals)
    (hdepth : ctx.depth < maxMacroDepth) :
    eval (fuel + 1) ctx (.macro name args) =
      eval fuel { ctx with vars := some vals, depth := ctx.depth + 1 } body := by
  rw [eval]
  simp only [hm, hargs]
  rw [if_neg (by omega)]

/-- … and the bindings are exactly parameter ↦ call-site value (for every parameter:
`evalArgs_ok_params`; an invocation with fewer arguments than parameters is an error, `evalArgs_missing`). -/
theorem evalArgs_spec (fuel : Nat) (ctx : Ctx) (params : List String) (args : Exprs) (vals : List (String × Int))
    (h : evalArgs fuel ctx params args = .ok vals) :
    vals.map (·.1) = params.take (min params.length args.toList.length) ∧
    ∀ i (hi : i < vals.length), ∃ a, args.toList[i]? = some a ∧ eval (fuel - 1) ctx a = .ok (vals[i]).2 := by
  induction fuel generalizing params args vals with
  | zero => simp [evalArgs] at h
  | succ f ih =>
    cases params with
    | nil => simp only [evalArgs, Except.ok.injEq] at h; subst h; simp
    | cons p ps =>
      cases args with
      | nil => simp [evalArgs] at h
      | cons a as =>
        rw [evalArgs] at h
        cases ha : eval f ctx a with
        | error e => rw [ha] at h; simp at h
        | ok x =>
          rw [ha] at h; simp only at h
          cases hb : evalArgs f ctx ps as with
          | error e => rw [hb] at h; simp at h
          | ok rest =>
            rw [hb] at h; simp only [Except.ok.injEq] at h; subst h
            obtain ⟨ih1, ih2⟩ := ih ps as rest hb
            constructor
            · simp only [List.map_cons, Exprs.toList, List.length_cons, ih1]
              rw [Nat.add_min_add_right, List.take_succ_cons]
            · intro i hi
              cases i with
              | zero => exact ⟨a, by simp [Exprs.toList], by simpa using ha⟩
              | succ i =>
                obtain ⟨a', h1, h2⟩ := ih2 i (by simpa using hi)
                refine ⟨a', by simpa [Exprs.toList] using h1, ?_⟩
                cases f with
                | zero => simp [evalArgs] at hb
                | succ f' =>
                  simp only [Nat.add_sub_cancel, List.getElem_cons_succ] at h2 ⊢
                  exact eval_fuel_mono f' ctx a' _ h2 (by simp)

/-- the bindings cover ALL parameters: success needs an argument for each (`fix:` 841db2a) -/
theorem evalArgs_ok_params (fuel : Nat) (ctx : Ctx) (params : List String) (args : Exprs) (vals : List (String × Int))
    (h : evalArgs fuel ctx params args = .ok vals) :
    vals.map (·.1) = params ∧ params.length ≤ args.toList.length := by
  induction fuel generalizing params args vals with
  | zero => simp [evalArgs] at h
  | succ f ih =>
    cases params with
    | nil => simp only [evalArgs, Except.ok.injEq] at h; subst h; simp
    | cons p ps =>
      cases args with
      | nil => simp [evalArgs] at h
      | cons a as =>
        rw [evalArgs] at h
        cases ha : eval f ctx a with
        | error e => rw [ha] at h; simp at h
        | ok x =>
          rw [ha] at h; simp only at h
          cases hb : evalArgs f ctx ps as with
          | error e => rw [hb] at h; simp at h
          | ok rest =>
            rw [hb] at h; simp only [Except.ok.injEq] at h; subst h
            obtain ⟨ih1, ih2⟩ := ih ps as rest hb
            simp only [List.map_cons, ih1, List.length_cons, Exprs.toList]
            exact ⟨trivial, by omega⟩

/-- fewer arguments than parameters: when the arguments given evaluate (they do as arguments of the first
`args.length` parameters), the invocation is the error naming the first parameter left without argument -/
theorem evalArgs_missing (fuel : Nat) (ctx : Ctx) (params : List String) (args : Exprs) (vals : List (String × Int))
    (hlt : args.toList.length < params.length)
    (h : evalArgs fuel ctx (params.take args.toList.length) args = .ok vals) :
    evalArgs fuel ctx params args = .error (.undefinedVariable (params[args.toList.length]'hlt)) := by
  induction fuel generalizing params args vals with
  | zero => simp [evalArgs] at h
  | succ f ih =>
    cases params with
    | nil => simp at hlt
    | cons p ps =>
      cases args with
      | nil => simp [evalArgs, Exprs.toList]
      | cons a as =>
        simp only [Exprs.toList, List.length_cons, List.take_succ_cons] at h hlt ⊢
        rw [evalArgs] at h ⊢
        cases ha : eval f ctx a with
        | error e => rw [ha] at h; simp at h
        | ok x =>
          rw [ha] at h; simp only at h ⊢
          cases hb : evalArgs f ctx (ps.take as.toList.length) as with
          | error e => rw [hb] at h; simp at h
          | ok rest =>
            rw [ih ps as rest (by omega) hb]
            simp

/-- the same with the hypothesis on the arguments alone: each argument given evaluates (with fuel `f`) -/
theorem evalArgs_missing_all (f : Nat) (ctx : Ctx) : ∀ (args : Exprs) (params : List String)
    (hlt : args.toList.length < params.length)
    (_hall : ∀ a ∈ args.toList, ∃ v, eval f ctx a = .ok v),
    evalArgs (f + args.toList.length + 1) ctx params args
      = .error (.undefinedVariable (params[args.toList.length]'hlt))
  | .nil, params, hlt, _ => by
    cases params with
    | nil => simp [Exprs.toList] at hlt
    | cons p ps => simp [evalArgs, Exprs.toList]
  | .cons a as, params, hlt, hall => by
    cases params with
    | nil => simp at hlt
    | cons p ps =>
      simp only [Exprs.toList, List.length_cons, List.mem_cons, forall_eq_or_imp] at hall hlt ⊢
      obtain ⟨⟨v, hv⟩, hrest⟩ := hall
      have hv' : ∀ k, eval (f + k) ctx a = .ok v := by
        intro k
        induction k with
        | zero => exact hv
        | succ k ihk => exact eval_fuel_mono (f + k) ctx a _ ihk (by simp)
      have := evalArgs_missing_all f ctx as ps (by omega) hrest
      rw [show f + (as.toList.length + 1) + 1 = (f + as.toList.length + 1) + 1 by omega, evalArgs]
      rw [show f + as.toList.length + 1 = f + (as.toList.length + 1) by omega, hv']
      simp only
      rw [show f + (as.toList.length + 1) = f + as.toList.length + 1 by omega, this]
      simp

theorem lookupVar_nil (v : String) : lookupVar [] v = none := rfl

theorem eval_evalArgs_subst_vals (fuel : Nat) :
    (∀ (ctx : Ctx) (vs : List (String × Int)) (e : Expr),
      eval fuel { ctx with vars := some vs } e = eval fuel { ctx with vars := some [] } (substVals vs e)) ∧
    (∀ (ctx : Ctx) (vs : List (String × Int)) (ps : List String) (as : Exprs),
      evalArgs fuel { ctx with vars := some vs } ps as
        = evalArgs fuel { ctx with vars := some [] } ps (substValsArgs vs as)) := by
  induction fuel with
  | zero => constructor <;> intros <;> simp [eval, evalArgs]
  | succ f ih =>
    obtain ⟨ihe, iha⟩ := ih
    constructor
    · intro ctx vs e
      cases e with
      | paren e => simp only [substVals, eval]; exact ihe ctx vs e
      | num n => simp only [substVals, eval]
      | label l => simp only [substVals, eval]
      | var v =>
        simp only [substVals, eval]
        cases hv : lookupVar vs v with
        | none => simp [lookupVar_nil]
        | some x => simp
      | plus a b => simp only [substVals, eval, ihe ctx vs a, ihe ctx vs b]
      | minus a b => simp only [substVals, eval, ihe ctx vs a, ihe ctx vs b]
      | times a b => simp only [substVals, eval, ihe ctx vs a, ihe ctx vs b]
      | divide a b => simp only [substVals, eval, ihe ctx vs a, ihe ctx vs b]
      | «macro» name args =>
        simp only [substVals, eval, iha ctx vs _ args]
    · intro ctx vs ps as
      cases ps with
      | nil => simp only [evalArgs]
      | cons p ps =>
        cases as with
        | nil => simp only [substValsArgs, evalArgs]
        | cons a as => simp only [substValsArgs, evalArgs, ihe ctx vs a, iha ctx vs ps as]

/-- Evaluating a macro body under bindings `vs` is evaluating the body with every
bound `$p` replaced by the value bound to it, in an empty frame: parameters of
other macros with the same names cannot interfere, at any nesting depth. -/
theorem eval_subst_vals (fuel : Nat) (ctx : Ctx) (vs : List (String × Int)) (e : Expr) :
    eval fuel { ctx with vars := some vs } e = eval fuel { ctx with vars := some [] } (substVals vs e) :=
  (eval_evalArgs_subst_vals fuel).1 ctx vs e

end Asm
end EtkVerif
