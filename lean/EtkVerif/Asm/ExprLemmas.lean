/-
Operand expressions (C08, C11): literal values, the precedence climber equals the
stratified grammar, evaluation is exact integer arithmetic, expression macros
denote their body with the arguments' call-site values substituted.
-/
import EtkVerif.Asm.Parse
import EtkVerif.Asm.Eval
namespace EtkVerif
namespace Asm

/-! ### literals (T-lit) -/

/-- positional value of a digit list, most significant first -/
def digitsValue (radix : Nat) : List Nat → Nat
  | [] => 0
  | ds => ds.foldl (fun acc d => acc * radix + d) 0

/-- the mathematical definition: Σ dᵢ · radix^(n-1-i) -/
def positional (radix : Nat) : List Nat → Nat
  | [] => 0
  | d :: ds => d * radix ^ ds.length + positional radix ds

theorem digitsValue_eq_positional (radix : Nat) (ds : List Nat) : digitsValue radix ds = positional radix ds := by
  sorry

/-- `parse_radix_str` on a non-empty string of valid digits yields its positional value. -/
theorem parseRadix_value (radix : Nat) (s ds : List Nat) (hne : s ≠ [])
    (hd : s.map (toDigit radix) = ds.map some) :
    parseRadix s radix = .ok (Int.ofNat (positional radix ds)) := by
  sorry

/-- … and never panics exactly on such strings. -/
theorem parseRadix_ok_iff (radix : Nat) (s : List Nat) :
    (∃ v, parseRadix s radix = .ok v) ↔ (s ≠ [] ∧ ∀ c ∈ s, (toDigit radix c).isSome) := by
  sorry

/-! ### precedence climbing (T-climb) -/

/-- T → F ((× | ÷) F)* : the multiplicative chain starting at `lhs` -/
def mulChain (lhs : Expr) : List (BinOp × Expr) → Expr × List (BinOp × Expr)
  | [] => (lhs, [])
  | (op, t) :: ps => if op.prec = 2 then mulChain (op.mk lhs t) ps else (lhs, (op, t) :: ps)

/-- E → T ((+ | −) T)* -/
def addChain : Nat → Expr → List (BinOp × Expr) → Expr
  | 0, lhs, _ => lhs
  | _ + 1, lhs, [] => lhs
  | fuel + 1, lhs, (op, t) :: ps =>
    let r := mulChain t ps
    addChain fuel (op.mk lhs r.1) r.2

/-- the stratified-grammar parse of `first (op term)*`: × ÷ bind tighter than + −,
equal precedence associates to the left -/
def stratified (first : Expr) (rest : List (BinOp × Expr)) : Expr :=
  let r := mulChain first rest
  addChain (rest.length + 1) r.1 r.2

theorem climb_eq_stratified (first : Expr) (rest : List (BinOp × Expr)) :
    climb first rest = stratified first rest := by
  sorry

/-! ### evaluation is exact integer arithmetic -/

theorem eval_arith (fuel : Nat) (ctx : Ctx) (a b : Expr) (x y : Int)
    (ha : eval fuel ctx a = .ok x) (hb : eval fuel ctx b = .ok y) :
    eval (fuel + 1) ctx (.plus a b) = .ok (x + y) ∧
    eval (fuel + 1) ctx (.minus a b) = .ok (x - y) ∧
    eval (fuel + 1) ctx (.times a b) = .ok (x * y) ∧
    eval (fuel + 1) ctx (.divide a b) = (if y = 0 then .error .divisionByZero else .ok (Int.tdiv x y)) := by
  sorry

/-- more fuel never changes a result that was not a fuel exhaustion -/
theorem eval_fuel_mono (f : Nat) (ctx : Ctx) (e : Expr) (r : Except EvErr Int)
    (h : eval f ctx e = r) (hr : r ≠ .error (.recursionLimit "fuel")) : eval (f + 1) ctx e = r := by
  sorry

/-! ### expression macros (T-subst, C11) -/

mutual
/-- replace every variable that has a value by that value (a numeral) -/
def substVals (vs : List (String × Int)) : Expr → Expr
  | .paren e => .paren (substVals vs e)
  | .var v => match lookupVar vs v with
    | some x => .num x
    | none => .var v
  | .label l => .label l
  | .num n => .num n
  | .plus a b => .plus (substVals vs a) (substVals vs b)
  | .minus a b => .minus (substVals vs a) (substVals vs b)
  | .times a b => .times (substVals vs a) (substVals vs b)
  | .divide a b => .divide (substVals vs a) (substVals vs b)
  | .macro n args => .macro n (substValsArgs vs args)
def substValsArgs (vs : List (String × Int)) : Exprs → Exprs
  | .nil => .nil
  | .cons a as => .cons (substVals vs a) (substValsArgs vs as)
end

/-- C11.  An invocation `f(a₁ … aₙ)` of an expression macro `f(p₁ … pₘ) = body`,
`m ≤ n`, whose first `m` arguments evaluate at the call site to `v₁ … vₘ`,
evaluates to `body` with each `$pᵢ` standing for `vᵢ`. -/
theorem eval_macro_call (fuel : Nat) (ctx : Ctx) (name : String) (params : List String) (body : Expr)
    (args : Exprs) (vals : List (String × Int))
    (hm : lookupMacro ctx.macros name = some (.expr params body))
    (hargs : evalArgs fuel ctx params args = .ok vals)
    (hdepth : ctx.depth < maxMacroDepth) :
    eval (fuel + 1) ctx (.macro name args) =
      eval fuel { ctx with vars := some vals, depth := ctx.depth + 1 } body := by
  sorry

/-- … and the bindings are exactly parameter ↦ call-site value, for as many
parameters as there are arguments. -/
theorem evalArgs_spec (fuel : Nat) (ctx : Ctx) (params : List String) (args : Exprs) (vals : List (String × Int))
    (h : evalArgs fuel ctx params args = .ok vals) :
    vals.map (·.1) = params.take (min params.length args.toList.length) ∧
    ∀ i (hi : i < vals.length), ∃ a, args.toList[i]? = some a ∧ eval (fuel - 1) ctx a = .ok (vals[i]).2 := by
  sorry

/-- Evaluating a macro body under bindings `vs` is evaluating the body with every
bound `$p` replaced by the value bound to it, in an empty frame: parameters of
other macros with the same names cannot interfere, at any nesting depth. -/
theorem eval_subst_vals (fuel : Nat) (ctx : Ctx) (vs : List (String × Int)) (e : Expr) :
    eval fuel { ctx with vars := some vs } e = eval fuel { ctx with vars := some [] } (substVals vs e) := by
  sorry

end Asm
end EtkVerif
