/-
The parser never reaches one of its `unwrap` / `unreachable!` / `assert!` sites:
every pair tree the pest interpreter produces for the regenerated grammar has the
shape (and the matched text) that `parse_asm` and its helpers rely on.  The only
internal failure the model of the parser could report is running out of its own fuel
(`parseAsm_panic_only_fuel`), and since the fuel is computed from the size of the pair
tree it always suffices (`parseAsm_no_panic`).

Structure of the proof:
* `PestShape.lean` — grammar-independent: a denotational reading `Sem` of grammar
  expressions (token lists and positions) and the soundness of the fuelled interpreter
  with respect to any rule-level specification closed under the rule bodies (`shape_sound`);
* `PestText.lean` — grammar-independent: matched text in the atomic state;
* `ParseGood.lean` — predicates `GoodE` / `GoodA` / `GoodTop` on pair trees and the proof
  that on such trees no `unwrap` site of `Parse.lean` is reached;
* `GrammarShape.lean`, `GrammarClosed.lean` — the specification for `Gen.grammar` and its
  closure, rule by rule.
-/
import EtkVerif.Asm.Parse
import EtkVerif.Asm.GrammarClosed
namespace EtkVerif
namespace Asm
open Pest

theorem parseAsm_panic_only_fuel (text : List Nat) (site : String)
    (h : parseAsm text = .error (.panic site)) : site = "fuel" := by
  unfold parseAsm at h
  split at h
  · cases h
  · rename_i pairs hp
    exact parseAsm_go_noPanic text.toArray _ pairs (parse_allTop text pairs hp) site h

/-! ### the fuel suffices

The walk's fuel is `4 * text.length + 100 + pairsSize pairs`; every walk function hands
`fuel - 1` to its callees, which work on strictly smaller trees, and a list iteration
spends one unit per element (each of size at least one).  So the fuel marker is never
produced, independently of the shape of the tree. -/

/-- the result is not the model's own fuel marker -/
def ParseNoFuel {α : Type} (r : PR α) : Prop := r ≠ .error (.panic "fuel")

theorem ParseNoFuel.ok {α : Type} (x : α) : ParseNoFuel (.ok x : PR α) := by
  intro h; cases h

theorem ParseNoFuel.map {α β : Type} (f : α → β) {r : PR α} (h : ParseNoFuel r) : ParseNoFuel (r.map f) := by
  intro hs
  cases r with
  | error e => exact h (by simpa [Except.map] using hs)
  | ok v => simp [Except.map] at hs

theorem ParseNoFuel.of_error {α β : Type} {r : PR α} {e : ParseErr} (h : ParseNoFuel r) (he : r = .error e) :
    ParseNoFuel (.error e : PR β) := by
  intro hs
  cases hs
  exact h he

theorem ParseNoFuel.site {α : Type} {s : String} (h : s ≠ "fuel") : ParseNoFuel (.error (.panic s) : PR α) := by
  intro hs
  injection hs with hs
  injection hs with hs
  exact h hs

theorem pairSize_eq (p : Pair) : pairSize p = 1 + pairsSize p.kids := by
  cases p; simp [pairSize, Pair.kids]

theorem pairSize_pos (p : Pair) : 1 ≤ pairSize p := by
  rw [pairSize_eq]; omega

theorem pairsSize_cons (p : Pair) (ps : List Pair) : pairsSize (p :: ps) = pairSize p + pairsSize ps := by
  simp [pairsSize]

theorem pairsSize_nil : pairsSize [] = 0 := by simp [pairsSize]

theorem parseRadix_go_parseNoFuel (radix : Nat) (cs : List Nat) (acc : Nat) :
    ParseNoFuel (parseRadix.go radix cs acc) := by
  induction cs generalizing acc with
  | nil => simp only [parseRadix.go]; exact ParseNoFuel.ok _
  | cons c cs ih =>
    simp only [parseRadix.go]
    split
    · exact ih _
    · exact ParseNoFuel.site (by decide)

theorem parseRadix_parseNoFuel (s : List Nat) (radix : Nat) : ParseNoFuel (parseRadix s radix) := by
  unfold parseRadix
  split
  · exact ParseNoFuel.site (by decide)
  · exact (parseRadix_go_parseNoFuel radix s 0).map _

theorem parseExpr_parseNoFuel (inp : Array Nat) (fuel : Nat) :
    (∀ p, pairSize p ≤ fuel → ParseNoFuel (parseExpr inp fuel p)) ∧
    (∀ ps, pairsSize ps + 1 ≤ fuel → ParseNoFuel (parseExprs inp fuel ps)) ∧
    (∀ ps, pairsSize ps + 1 ≤ fuel → ParseNoFuel (parseTail inp fuel ps)) := by
  induction fuel with
  | zero =>
    refine ⟨?_, ?_, ?_⟩
    · intro p hp; have := pairSize_pos p; omega
    · intro ps hp; omega
    · intro ps hp; omega
  | succ fuel ih =>
    obtain ⟨ihE, ihEs, ihT⟩ := ih
    refine ⟨?_, ?_, ?_⟩
    · intro p hp
      rw [pairSize_eq] at hp
      simp only [parseExpr]
      split
      · split
        · exact ParseNoFuel.site (by decide)
        · rename_i first rest hk
          rw [hk, pairsSize_cons] at hp
          have hpos := pairSize_pos first
          have h1 := ihE first (by omega)
          have h2 := ihT rest (by omega)
          cases h1e : parseExpr inp fuel first with
          | error e => exact h1.of_error h1e
          | ok f =>
            cases h2e : parseTail inp fuel rest with
            | error e => exact h2.of_error h2e
            | ok tl => exact ParseNoFuel.ok _
      · split
        · exact (parseRadix_parseNoFuel _ _).map _
        · split
          · exact (parseRadix_parseNoFuel _ _).map _
          · split
            · exact (parseRadix_parseNoFuel _ _).map _
            · split
              · exact (parseRadix_parseNoFuel _ _).map _
              · split
                · exact (parseRadix_parseNoFuel _ _).map _
                · split
                  · exact ParseNoFuel.ok _
                  · split
                    · split
                      · exact ParseNoFuel.ok _
                      · exact ParseNoFuel.site (by decide)
                    · split
                      · split
                        · rename_i name args hk
                          rw [hk, pairsSize_cons] at hp
                          have hpos := pairSize_pos name
                          have h1 := ihEs args (by omega)
                          cases h1e : parseExprs inp fuel args with
                          | error e => exact h1.of_error h1e
                          | ok as => exact ParseNoFuel.ok _
                        · exact ParseNoFuel.site (by decide)
                      · split
                        · split
                          · exact ParseNoFuel.ok _
                          · exact ParseNoFuel.site (by decide)
                        · exact ParseNoFuel.site (by decide)
    · intro ps hps
      cases ps with
      | nil => simp only [parseExprs]; exact ParseNoFuel.ok _
      | cons p ps =>
        simp only [parseExprs]
        rw [pairsSize_cons] at hps
        have hpos := pairSize_pos p
        have h1 := ihE p (by omega)
        have h2 := ihEs ps (by omega)
        cases h1e : parseExpr inp fuel p with
        | error e => exact h1.of_error h1e
        | ok f =>
          cases h2e : parseExprs inp fuel ps with
          | error e => exact h2.of_error h2e
          | ok tl => exact ParseNoFuel.ok _
    · intro ps hps
      match ps, hps with
      | [], _ => simp only [parseTail]; exact ParseNoFuel.ok _
      | [_], _ => simp only [parseTail]; exact ParseNoFuel.site (by decide)
      | o :: t :: rest, hps =>
        simp only [parseTail]
        rw [pairsSize_cons, pairsSize_cons] at hps
        have hpo := pairSize_pos o
        have hpt := pairSize_pos t
        cases hop : opOfRule o.rule with
        | none => exact ParseNoFuel.site (by decide)
        | some op =>
          have h1 := ihE t (by omega)
          have h2 := ihT rest (by omega)
          cases h1e : parseExpr inp fuel t with
          | error e => exact h1.of_error h1e
          | ok f =>
            cases h2e : parseTail inp fuel rest with
            | error e => exact h2.of_error h2e
            | ok tl => exact ParseNoFuel.ok _

theorem parsePushMacro_parseNoFuel (inp : Array Nat) (fuel : Nat) (p : Pair) (h : pairsSize p.kids ≤ fuel) :
    ParseNoFuel (parsePushMacro inp fuel p) := by
  unfold parsePushMacro
  split
  · intro hs; cases hs
  · rename_i a hk
    rw [hk, pairsSize_cons, pairsSize_nil] at h
    split
    · intro hs; cases hs
    · exact ((parseExpr_parseNoFuel inp fuel).1 a (by omega)).map _
  · intro hs; cases hs

theorem parsePush_parseNoFuel (inp : Array Nat) (fuel : Nat) (p : Pair) (h : pairsSize p.kids ≤ fuel) :
    ParseNoFuel (parsePush inp fuel p) := by
  unfold parsePush
  split
  · rename_i sz operand hk
    rw [hk, pairsSize_cons, pairsSize_cons, pairsSize_nil] at h
    split
    · exact ParseNoFuel.site (by decide)
    · simp only []
      split
      · exact ParseNoFuel.site (by decide)
      · have h1 := (parseExpr_parseNoFuel inp fuel).1 operand (by omega)
        cases h1e : parseExpr inp fuel operand with
        | error e => exact h1.of_error h1e
        | ok e =>
          simp only []
          split
          · split
            · intro hs; cases hs
            · exact ParseNoFuel.ok _
          · exact ParseNoFuel.ok _
  · exact ParseNoFuel.site (by decide)

theorem parseAOp_parseNoFuel (inp : Array Nat) (fuel : Nat) :
    (∀ p, pairSize p ≤ fuel → ParseNoFuel (parseAOp inp fuel p)) ∧
    (∀ ps, pairsSize ps + 1 ≤ fuel → ParseNoFuel (parseBody inp fuel ps)) := by
  induction fuel with
  | zero =>
    refine ⟨?_, ?_⟩
    · intro p hp; have := pairSize_pos p; omega
    · intro ps hp; omega
  | succ fuel ih =>
    obtain ⟨ihA, ihB⟩ := ih
    refine ⟨?_, ?_⟩
    · intro p hp
      rw [pairSize_eq] at hp
      simp only [parseAOp]
      split
      · split
        · exact ParseNoFuel.site (by decide)
        · rename_i k ks hk
          rw [hk, pairsSize_cons, pairSize_eq k] at hp
          split
          · split
            · rename_i decl stmts hkk
              rw [hkk, pairsSize_cons] at hp
              have hpd := pairSize_pos decl
              split
              · have hb := ihB stmts (by omega)
                cases hbe : parseBody inp fuel stmts with
                | error e => exact hb.of_error hbe
                | ok body => exact ParseNoFuel.ok _
              · exact ParseNoFuel.site (by decide)
            · exact ParseNoFuel.site (by decide)
          · split
            · split
              · rename_i name args hkk
                rw [hkk, pairsSize_cons] at hp
                have hpn := pairSize_pos name
                have hb := (parseExpr_parseNoFuel inp fuel).2.1 args (by omega)
                cases hbe : parseExprs inp fuel args with
                | error e => exact hb.of_error hbe
                | ok as => exact ParseNoFuel.ok _
              · exact ParseNoFuel.site (by decide)
            · split
              · split
                · rename_i decl body rest hkk
                  rw [hkk, pairsSize_cons, pairsSize_cons] at hp
                  split
                  · have hb := (parseExpr_parseNoFuel inp fuel).1 body (by omega)
                    cases hbe : parseExpr inp fuel body with
                    | error e => exact hb.of_error hbe
                    | ok b => exact ParseNoFuel.ok _
                  · exact ParseNoFuel.site (by decide)
                · exact ParseNoFuel.site (by decide)
              · exact ParseNoFuel.site (by decide)
      · split
        · split
          · exact ParseNoFuel.ok _
          · exact ParseNoFuel.site (by decide)
        · split
          · exact parsePush_parseNoFuel inp fuel p (by omega)
          · split
            · split
              · exact ParseNoFuel.ok _
              · exact ParseNoFuel.site (by decide)
            · exact ParseNoFuel.site (by decide)
    · intro ps hps
      cases ps with
      | nil => simp only [parseBody]; exact ParseNoFuel.ok _
      | cons p ps =>
        simp only [parseBody]
        rw [pairsSize_cons] at hps
        have hpos := pairSize_pos p
        have hone : ParseNoFuel (if p.rule = Gen.R_push_macro then parsePushMacro inp fuel p else parseAOp inp fuel p) := by
          split
          · exact parsePushMacro_parseNoFuel inp fuel p (by rw [pairSize_eq] at hps; omega)
          · exact ihA p (by omega)
        have hrest := ihB ps (by omega)
        cases h1e : (if p.rule = Gen.R_push_macro then parsePushMacro inp fuel p else parseAOp inp fuel p) with
        | error e => exact hone.of_error h1e
        | ok o =>
          cases h2e : parseBody inp fuel ps with
          | error e => exact hrest.of_error h2e
          | ok os => exact ParseNoFuel.ok _

theorem pathOf_parseNoFuel (inp : Array Nat) (p : Pair) : ParseNoFuel (pathOf inp p) := by
  unfold pathOf
  split
  · intro hs; cases hs
  · exact ParseNoFuel.ok _

theorem oneePath_parseNoFuel (inp : Array Nat) (args : List Pair) : ParseNoFuel (oneePath inp args) := by
  unfold oneePath
  split
  · intro hs; cases hs
  · exact pathOf_parseNoFuel inp _
  · rename_i p _ _
    have := pathOf_parseNoFuel inp p
    cases h : pathOf inp p with
    | error e => exact this.of_error h
    | ok _ => intro hs; cases hs

theorem parseBuiltin_parseNoFuel (inp : Array Nat) (fuel : Nat) (p : Pair) (h : pairSize p ≤ fuel) :
    ParseNoFuel (parseBuiltin inp fuel p) := by
  unfold parseBuiltin
  split
  · rename_i k hk
    rw [pairSize_eq, hk, pairsSize_cons, pairsSize_nil, pairSize_eq k] at h
    split
    · exact (oneePath_parseNoFuel inp _).map _
    · split
      · exact (oneePath_parseNoFuel inp _).map _
      · split
        · exact (oneePath_parseNoFuel inp _).map _
        · split
          · exact (parsePushMacro_parseNoFuel inp fuel k (by omega)).map _
          · exact ParseNoFuel.site (by decide)
  · exact ParseNoFuel.site (by decide)
  · exact ParseNoFuel.site (by decide)

theorem parseAsm_go_parseNoFuel (inp : Array Nat) (fuel : Nat) (ps : List Pair) (h : pairsSize ps ≤ fuel) :
    ParseNoFuel (parseAsm.go inp fuel ps) := by
  induction ps with
  | nil => simp only [parseAsm.go]; exact ParseNoFuel.ok _
  | cons p ps ih =>
    simp only [parseAsm.go]
    rw [pairsSize_cons] at h
    have ih' := ih (by omega)
    split
    · exact ih'
    · have hone : ParseNoFuel (if p.rule = Gen.R_builtin then parseBuiltin inp fuel p else (parseAOp inp fuel p).map Node.op) := by
        split
        · exact parseBuiltin_parseNoFuel inp fuel p (by omega)
        · exact ((parseAOp_parseNoFuel inp fuel).1 p (by omega)).map _
      cases h1e : (if p.rule = Gen.R_builtin then parseBuiltin inp fuel p else (parseAOp inp fuel p).map Node.op) with
      | error e => exact hone.of_error h1e
      | ok n =>
        cases h2e : parseAsm.go inp fuel ps with
        | error e => exact ih'.of_error h2e
        | ok ns => exact ParseNoFuel.ok _

/-- with the size-based fuel the parser model reports no internal failure at all -/
theorem parseAsm_no_panic (text : List Nat) (site : String) : parseAsm text ≠ .error (.panic site) := by
  intro h
  have hs := parseAsm_panic_only_fuel text site h
  subst hs
  unfold parseAsm at h
  split at h
  · cases h
  · rename_i pairs hp
    exact parseAsm_go_parseNoFuel text.toArray _ pairs (by omega) h

end Asm
end EtkVerif
