/-
The parser never reaches one of its `unwrap` / `unreachable!` / `assert!` sites:
every pair tree the pest interpreter produces for the regenerated grammar has the
shape (and the matched text) that `parse_asm` and its helpers rely on.  The only
internal failure the model of the parser can report is running out of its own fuel.

Structure of the proof:
* `PestShape.lean` — grammar-independent: a denotational reading `Sem` of grammar
  expressions (token lists and positions) and the soundness of the fuelled interpreter
  with respect to any rule-level specification closed under the rule bodies (`shape_sound`);
* `PestText.lean` — grammar-independent: matched text in the atomic state;
* `ParseGood.lean` — predicates `GoodE` / `GoodA` / `GoodTop` on pair trees and the proof
  that on such trees no `unwrap` site of `Parse.lean` is reached;
* `GrammarShape.lean`, `GrammarClosed.lean` — the specification for `Gen.grammar` and its
  closure, rule by rule.
-/
import EtkVerif.Asm.Parse
import EtkVerif.Asm.GrammarClosed
namespace EtkVerif
namespace Asm
open Pest

theorem parseAsm_panic_only_fuel (text : List Nat) (site : String)
    (h : parseAsm text = .error (.panic site)) : site = "fuel" := by
  unfold parseAsm at h
  split at h
  · cases h
  · rename_i pairs hp
    exact parseAsm_go_noPanic text.toArray _ pairs (parse_allTop text pairs hp) site h

end Asm
end EtkVerif
